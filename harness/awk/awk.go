// Package awk: small helpers to parse and run programs on the real goawk code.
package awk

import (
	"bytes"
	"fmt"
	"io"
	"runtime/debug"

	"github.com/benhoyt/goawk/interp"
	"github.com/benhoyt/goawk/parser"
)

type Result struct {
	Out    string
	Stderr string
	Status int
	Err    error
	Panic  string // non-empty if the call panicked
}

func (r Result) ErrString() string {
	if r.Panic != "" {
		return "PANIC: " + r.Panic
	}
	if r.Err != nil {
		return "error: " + r.Err.Error()
	}
	return ""
}

// Parse parses src, converting a panic into Panic text.
func Parse(src string, funcs map[string]any) (prog *parser.Program, err error, panicked string) {
	defer func() {
		if r := recover(); r != nil {
			panicked = fmt.Sprintf("%v\n%s", r, debug.Stack())
		}
	}()
	var cfg *parser.ParserConfig
	if funcs != nil {
		cfg = &parser.ParserConfig{Funcs: funcs}
	}
	prog, err = parser.ParseProgram([]byte(src), cfg)
	return
}

func MustParse(src string, funcs map[string]any) *parser.Program {
	p, err, pn := Parse(src, funcs)
	if err != nil || pn != "" {
		panic(fmt.Sprintf("harness program does not parse: %q: %v %s", src, err, pn))
	}
	return p
}

// ExecHook, if set, replaces interp.ExecProgram inside Exec (e.g. to go through ExecuteContext).
var ExecHook func(prog *parser.Program, cfg *interp.Config) (int, error)

// Exec runs prog with cfg on a fresh interpreter. Output/Error writers are set
// if nil in cfg.
func Exec(prog *parser.Program, cfg *interp.Config) (res Result) {
	var out, errb bytes.Buffer
	if cfg.Output == nil {
		cfg.Output = &out
	}
	if cfg.Error == nil {
		cfg.Error = &errb
	}
	if cfg.Environ == nil {
		cfg.Environ = []string{}
	}
	if cfg.Stdin == nil {
		cfg.Stdin = bytes.NewReader(nil)
	}
	defer func() {
		if r := recover(); r != nil {
			res.Panic = fmt.Sprintf("%v\n%s", r, debug.Stack())
		}
		res.Out = out.String()
		res.Stderr = errb.String()
	}()
	if ExecHook != nil {
		res.Status, res.Err = ExecHook(prog, cfg)
	} else {
		res.Status, res.Err = interp.ExecProgram(prog, cfg)
	}
	return
}

// ChunkReader delivers exactly the given chunks, one per Read call (or less if
// the caller's buffer is smaller). EOFStyle 0: (n,nil)...(0,EOF); 1: the last
// chunk is returned together with io.EOF. EmptyAt >= 0 injects one (0,nil) read
// before chunk EmptyAt. ErrAt >= 0 makes the read before chunk ErrAt fail.
type ChunkReader struct {
	Chunks   [][]byte
	EOFStyle int
	EmptyAt  int
	ErrAt    int
	Err      error
	i        int
	emptied  bool
	Reads    int
}

func NewChunkReader(data []byte, mask uint64, eofStyle int) *ChunkReader {
	// bit k of mask set => split after byte k (k in 0..len-2)
	var chunks [][]byte
	start := 0
	for k := 0; k+1 < len(data); k++ {
		if mask&(1<<uint(k)) != 0 {
			chunks = append(chunks, data[start:k+1])
			start = k + 1
		}
	}
	if len(data) > 0 {
		chunks = append(chunks, data[start:])
	}
	return &ChunkReader{Chunks: chunks, EOFStyle: eofStyle, EmptyAt: -1, ErrAt: -1}
}

func (r *ChunkReader) Read(p []byte) (int, error) {
	r.Reads++
	if r.ErrAt == r.i && r.ErrAt >= 0 {
		r.ErrAt = -2
		return 0, r.Err
	}
	if r.EmptyAt == r.i && !r.emptied {
		r.emptied = true
		return 0, nil
	}
	if r.i >= len(r.Chunks) {
		return 0, io.EOF
	}
	c := r.Chunks[r.i]
	n := copy(p, c)
	if n < len(c) {
		r.Chunks[r.i] = c[n:]
		return n, nil
	}
	r.i++
	if r.EOFStyle == 1 && r.i == len(r.Chunks) {
		return n, io.EOF
	}
	return n, nil
}

// Package vworld is the harness side of the vexec shim (E3): scripted child
// processes, in-memory pipes and os/exec-style copy threads, all running as
// managed threads of a sched.Sched. See DESIGN.md Appendix D.
package vworld

import (
	"errors"
	"fmt"
	"io"
	"os"
	"strings"

	"github.com/benhoyt/goawk/vexp"

	"verifharness/sched"
)

// Pipe is a bounded in-memory pipe; reads and writes are scheduling points and
// block in the scheduler.
type Pipe struct {
	s        *sched.Sched
	buf      [][]byte
	cap      int
	wclosed  bool
	rclosed  bool
	name     string
	ChunkLog []int
	Written  int // total bytes accepted by Write
}

func NewPipe(s *sched.Sched, name string) *Pipe { return &Pipe{s: s, cap: 4, name: name} }

var ErrAborted = errors.New("vworld: execution aborted")

func (p *Pipe) Write(b []byte) (int, error) {
	if len(b) == 0 {
		return 0, nil
	}
	p.s.Block(func() bool { return len(p.buf) < p.cap || p.rclosed })
	if p.rclosed {
		return 0, errors.New("write: broken pipe")
	}
	if p.wclosed {
		return 0, os.ErrClosed
	}
	if len(p.buf) >= p.cap {
		return 0, ErrAborted
	}
	p.buf = append(p.buf, append([]byte(nil), b...))
	p.Written += len(b)
	return len(b), nil
}

func (p *Pipe) Read(b []byte) (int, error) {
	p.s.Block(func() bool { return len(p.buf) > 0 || p.wclosed || p.rclosed })
	if p.rclosed {
		return 0, os.ErrClosed
	}
	if len(p.buf) == 0 {
		if p.wclosed {
			return 0, io.EOF
		}
		return 0, ErrAborted
	}
	n := copy(b, p.buf[0])
	if n < len(p.buf[0]) {
		p.buf[0] = p.buf[0][n:]
	} else {
		p.buf = p.buf[1:]
	}
	return n, nil
}

type pipeW struct{ p *Pipe }

func (w pipeW) Write(b []byte) (int, error) { return w.p.Write(b) }
func (w pipeW) Close() error {
	if w.p.wclosed {
		return os.ErrClosed
	}
	w.p.s.Yield()
	w.p.wclosed = true
	return nil
}

type pipeR struct{ p *Pipe }

func (r pipeR) Read(b []byte) (int, error) { return r.p.Read(b) }
func (r pipeR) Close() error {
	if r.p.rclosed {
		return os.ErrClosed
	}
	r.p.rclosed = true
	return nil
}

// Proc is one scripted child process.
type Proc struct {
	ID        int
	Cmdline   string
	stdin     *Pipe // nil: no input (EOF)
	stdout    *Pipe // nil: discarded
	stderr    io.Writer
	exited    bool
	exitCode  int
	signal    int
	killed    bool
	copiers   int // running copy threads
	parentIn  *Pipe
	parentOut *Pipe
	waited    bool
	Started   bool
	holdOut   bool // a descendant of the (exited) process still holds the write end of its stdout
}

type World struct {
	S      *sched.Sched
	Procs  []*Proc
	byCmd  map[*vexp.Cmd]*Proc
	Events []string
	// OnStart, if set, is called when a process is about to start (after the
	// interpreter's own preparations, before the child runs).
	OnStart func(p *Proc)
}

// StdinDelivered reports how many bytes the parent has written into the child's stdin pipe.
func (p *Proc) StdinDelivered() int {
	if p.parentIn == nil {
		return 0
	}
	return p.parentIn.Written
}

// Exited reports whether the process has ended.
func (p *Proc) Exited() bool { return p.exited }

func New(s *sched.Sched) *World {
	return &World{S: s, byCmd: map[*vexp.Cmd]*Proc{}}
}

// Install makes this world the process environment of package interp.
func (w *World) Install()   { vexp.SetWorld(&vexp.World{Impl: w}) }
func (w *World) Uninstall() { vexp.SetWorld(nil) }

func (w *World) proc(c *vexp.Cmd) *Proc {
	p := w.byCmd[c]
	if p == nil {
		line := ""
		if len(c.Args) > 0 {
			line = c.Args[len(c.Args)-1]
		}
		p = &Proc{ID: len(w.Procs), Cmdline: line}
		w.Procs = append(w.Procs, p)
		w.byCmd[c] = p
	}
	return p
}

func (w *World) StdinPipe(c *vexp.Cmd) (io.WriteCloser, error) {
	p := w.proc(c)
	p.stdin = NewPipe(w.S, fmt.Sprintf("p%d.stdin", p.ID))
	p.parentIn = p.stdin
	return pipeW{p.stdin}, nil
}

func (w *World) StdoutPipe(c *vexp.Cmd) (io.ReadCloser, error) {
	p := w.proc(c)
	p.stdout = NewPipe(w.S, fmt.Sprintf("p%d.stdout", p.ID))
	p.parentOut = p.stdout
	return pipeR{p.stdout}, nil
}

func (w *World) ev(format string, a ...any) { w.Events = append(w.Events, fmt.Sprintf(format, a...)) }

func (w *World) Start(c *vexp.Cmd) error {
	p := w.proc(c)
	w.S.Yield()
	if strings.HasPrefix(p.Cmdline, "fail-start") {
		w.ev("start-failed p%d %s", p.ID, p.Cmdline)
		return errors.New("exec: fail-start: executable file not found")
	}
	if ctx := c.Ctx(); ctx != nil {
		// like os/exec: a command whose context is already done is not started
		select {
		case <-ctx.Done():
			w.ev("start-refused-ctx-done p%d", p.ID)
			return ctx.Err()
		default:
		}
	}
	p.Started = true
	w.ev("start p%d %s", p.ID, p.Cmdline)
	if w.OnStart != nil {
		w.OnStart(p)
	}
	// like os/exec: a Stdout/Stderr that is not an *os.File gets a pipe + copy goroutine in the parent
	if p.stdout == nil && c.Stdout != nil {
		pp := NewPipe(w.S, fmt.Sprintf("p%d.stdoutcopy", p.ID))
		p.stdout = pp
		p.copiers++
		dst := c.Stdout
		w.S.Spawn(fmt.Sprintf("copy-out-p%d", p.ID), func() {
			buf := make([]byte, 32*1024)
			for {
				n, err := pp.Read(buf)
				if n > 0 {
					if _, werr := dst.Write(buf[:n]); werr != nil {
						pp.rclosed = true
						break
					}
				}
				if err != nil {
					break
				}
			}
			p.copiers--
		})
	}
	p.stderr = c.Stderr
	ctx := c.Ctx()
	w.S.Spawn(fmt.Sprintf("proc-p%d", p.ID), func() { w.runProc(p) })
	if ctx != nil {
		w.S.Spawn(fmt.Sprintf("ctxwatch-p%d", p.ID), func() {
			done := ctx.Done()
			w.S.Block(func() bool {
				if p.exited {
					return true
				}
				select {
				case <-done:
					return true
				default:
					return false
				}
			})
			if !p.exited {
				p.killed = true
				w.ev("kill p%d", p.ID)
			}
		})
	}
	return nil
}

func (w *World) exit(p *Proc, code, sig int) {
	p.exitCode, p.signal = code, sig
	if p.stdout != nil && !p.holdOut {
		p.stdout.wclosed = true
	}
	if p.stdin != nil {
		p.stdin.rclosed = true
	}
	p.exited = true
	w.ev("exit p%d code=%d sig=%d", p.ID, code, sig)
}

// childWrite writes to the child's stdout; returns false if the process must stop.
func (w *World) childWrite(p *Proc, data string) bool {
	if p.killed {
		return false
	}
	if p.stdout == nil {
		w.S.Yield()
		return !p.killed
	}
	_, err := p.stdout.Write([]byte(data))
	return err == nil && !p.killed
}

func (w *World) runProc(p *Proc) {
	line := p.Cmdline
	arg := ""
	if i := strings.IndexByte(line, ':'); i >= 0 {
		line, arg = line[:i], line[i+1:]
	}
	switch line {
	case "cat", "cat2":
		if p.stdin == nil {
			w.exit(p, 0, 0)
			return
		}
		buf := make([]byte, 4096)
		for {
			if p.killed {
				w.exit(p, 0, 9)
				return
			}
			n, err := p.stdin.Read(buf)
			if n > 0 {
				if !w.childWrite(p, string(buf[:n])) {
					if p.killed {
						w.exit(p, 0, 9)
					} else {
						w.exit(p, 1, 0)
					}
					return
				}
			}
			if err != nil {
				break
			}
		}
		w.exit(p, 0, 0)
	case "emit":
		h := len(arg) / 2
		ok := w.childWrite(p, arg[:h]) && w.childWrite(p, arg[h:])
		if p.killed {
			w.exit(p, 0, 9)
		} else if !ok {
			w.exit(p, 1, 0)
		} else {
			w.exit(p, 0, 0)
		}
	case "err":
		w.S.Yield()
		if p.stderr != nil {
			p.stderr.Write([]byte(arg))
		}
		w.exit(p, 0, 0)
	case "exit":
		n := 0
		fmt.Sscanf(arg, "%d", &n)
		w.S.Yield()
		w.exit(p, n, 0)
	case "sig":
		n := 0
		fmt.Sscanf(arg, "%d", &n)
		w.S.Yield()
		w.exit(p, 0, n)
	case "sleep":
		w.S.Block(func() bool { return p.killed })
		w.exit(p, 0, 9)
	case "sleep-orphan":
		// like sh -c '(sleep 1000; echo late) & wait': killing the shell leaves a
		// descendant that holds the output pipe open
		p.holdOut = true
		w.S.Block(func() bool { return p.killed })
		w.exit(p, 0, 9)
	case "orphan":
		// like sh -c 'sleep 1000 &': the shell exits at once, the descendant keeps the pipe
		p.holdOut = true
		w.S.Yield()
		w.exit(p, 0, 0)
	default:
		w.S.Yield()
		if p.stderr != nil {
			p.stderr.Write([]byte("sh: " + p.Cmdline + ": not found\n"))
		}
		w.exit(p, 127, 0)
	}
}

func (w *World) Wait(c *vexp.Cmd) error {
	p := w.proc(c)
	if !p.Started {
		return errors.New("exec: not started")
	}
	if p.waited {
		return errors.New("exec: Wait was already called")
	}
	// os/exec: Wait returns when the process has exited and the copy goroutines
	// are done; with WaitDelay > 0 it stops waiting for the copiers that long
	// after the exit, closes the pipes and reports ErrWaitDelay. The model has
	// no clock: "a descendant still holds the pipe" is when the delay would
	// expire, and without a WaitDelay Wait blocks for as long as it does.
	delayExpired := false
	w.S.Block(func() bool {
		if p.exited && p.copiers > 0 && p.holdOut && c.WaitDelay > 0 {
			delayExpired = true
			return true
		}
		return p.exited && p.copiers == 0
	})
	if delayExpired {
		if p.stdout != nil {
			p.stdout.wclosed = true // closing the parent's end lets the copier finish
		}
		w.ev("waitdelay-expired p%d", p.ID)
		w.S.Block(func() bool { return p.copiers == 0 })
	}
	p.waited = true
	// closeAfterWait: the parent's pipe ends
	if p.parentIn != nil {
		p.parentIn.wclosed = true
	}
	if p.parentOut != nil {
		p.parentOut.rclosed = true
	}
	w.ev("waited p%d", p.ID)
	if !p.exited {
		return ErrAborted
	}
	if p.signal != 0 || p.exitCode != 0 {
		return vexp.NewExitError(p.exitCode, p.signal)
	}
	if delayExpired {
		return ErrWaitDelay
	}
	return nil
}

// ErrWaitDelay mirrors exec.ErrWaitDelay.
var ErrWaitDelay = errors.New("exec: WaitDelay expired before I/O complete")

// Package core is the check driver plumbing: sharded workers, counters,
// violations with signatures, known findings, evidence and replay files.
package core

import (
	"bufio"
	"crypto/sha256"
	"encoding/hex"
	"encoding/json"
	"fmt"
	"os"
	"os/exec"
	"path/filepath"
	"runtime/debug"
	"sort"
	"strconv"
	"strings"
	"sync"
	"time"
)

var VerifDir = func() string {
	if d := os.Getenv("VERIF_DIR"); d != "" {
		return d
	}
	return "/verif"
}()

type Violation struct {
	Sig      string          `json:"sig"`
	Case     json.RawMessage `json:"case"`
	Observed string          `json:"observed"`
	Hash     string          `json:"hash"`
}

type Check struct {
	ID          string
	Level       string // evidence level
	Rule        string // how cases are enumerated / what is non-trivial
	Assumptions []string
	Run         func(c *Ctx)
	Replay      func(c *Ctx, cs json.RawMessage)
	// soft budgets (seconds) per tier; 0 = default
	QuickBudget, ThoroughBudget int
}

var registry = map[string]*Check{}

func Register(ch *Check) { registry[ch.ID] = ch }

type Ctx struct {
	expCalls int64
	ID       string
	Tier     string
	Shard    int
	NShards  int
	Seed     int64

	idx       int64
	counters  map[string]int64
	outcomes  map[string]struct{}
	samples   []any
	notes     map[string]any
	viol      []Violation
	violCount map[string]int
	deadline  time.Time
	expired   bool
	capsHit   []string
	annFile   *os.File
	start     time.Time
	mu        sync.Mutex
}

func (c *Ctx) Thorough() bool { return c.Tier == "thorough" }

// Mine advances the case counter and reports whether this shard owns the case.
func (c *Ctx) Mine() bool {
	i := c.idx
	c.idx++
	return c.NShards <= 1 || int(i%int64(c.NShards)) == c.Shard
}

func (c *Ctx) Add(counter string, n int64) { c.counters[counter] += n }
func (c *Ctx) Eval(n int64)                { c.counters["evaluations"] += n }
func (c *Ctx) Outcome(s string) {
	if len(c.outcomes) < 200000 {
		h := sha256.Sum256([]byte(s))
		c.outcomes[string(h[:8])] = struct{}{}
	}
}
func (c *Ctx) Sample(v any) {
	if len(c.samples) < 3 {
		c.samples = append(c.samples, v)
	}
}
func (c *Ctx) Note(k string, v any) { c.notes[k] = v }
func (c *Ctx) NoteMax(k string, v int64) {
	if old, ok := c.notes[k].(int64); !ok || v > old {
		c.notes[k] = v
	}
}

// Expired reports whether the soft deadline has passed; the check should then
// stop enumerating (the run is reported as not exhaustive, exit 0).
func (c *Ctx) Expired() bool {
	if c.expired {
		return true
	}
	// own call counter: Expired() is usually called only for cases this
	// worker owns, so a test on the shared case index would never fire in
	// most shards
	c.expCalls++
	if c.expCalls%16 == 1 && !c.deadline.IsZero() && time.Now().After(c.deadline) {
		c.expired = true
		c.capsHit = append(c.capsHit, "soft deadline")
	}
	return c.expired
}
func (c *Ctx) Cap(what string) { c.capsHit = append(c.capsHit, what) }

// Announce records the case about to be executed so that a fatal crash of the
// worker can be attributed to it.
func (c *Ctx) Announce(cs any) {
	if c.annFile == nil {
		return
	}
	b, _ := json.Marshal(cs)
	c.annFile.Truncate(0)
	c.annFile.WriteAt(b, 0)
}

const maxViolPerSig = 50

// Fail records a violation. sig groups failures of one kind; cs must be a
// JSON-serialisable, replayable description of the case; observed is the
// deterministic observed result (part of the known-finding hash).
func (c *Ctx) Fail(sig string, cs any, observed string) {
	sig = strings.ReplaceAll(sig, " ", "_")
	c.counters["violations"]++
	c.violCount[sig]++
	b, err := json.Marshal(cs)
	if err != nil {
		panic(err)
	}
	h := sha256.Sum256([]byte(sig + "\x00" + string(b) + "\x00" + observed))
	v := Violation{Sig: sig, Case: b, Observed: observed, Hash: hex.EncodeToString(h[:8])}
	c.viol = append(c.viol, v)
}

type workerOut struct {
	Counters map[string]int64 `json:"counters"`
	Outcomes []string         `json:"outcomes"`
	Samples  []any            `json:"samples"`
	Notes    map[string]any   `json:"notes"`
	Viol     []Violation      `json:"viol"`
	Caps     []string         `json:"caps"`
	Expired  bool             `json:"expired"`
	Panic    string           `json:"panic,omitempty"`
}

// GoawkBin is the plain goawk binary built from the current tree for this check invocation.
func GoawkBin() string {
	if p := os.Getenv("VERIF_GOAWK"); p != "" {
		return p
	}
	return filepath.Join(VerifDir, "work", "bin", "goawk")
}

func newCtx(id, tier string, shard, n int) *Ctx {
	return &Ctx{ID: id, Tier: tier, Shard: shard, NShards: n, counters: map[string]int64{}, outcomes: map[string]struct{}{},
		notes: map[string]any{}, violCount: map[string]int{}, start: time.Now()}
}

func budget(ch *Check, tier string) time.Duration {
	if s := os.Getenv("VERIF_BUDGET_S"); s != "" {
		if n, err := strconv.Atoi(s); err == nil {
			return time.Duration(n) * time.Second
		}
	}
	if tier == "thorough" {
		if ch.ThoroughBudget > 0 {
			return time.Duration(ch.ThoroughBudget) * time.Second
		}
		return 40 * time.Minute
	}
	if ch.QuickBudget > 0 {
		return time.Duration(ch.QuickBudget) * time.Second
	}
	return 4 * time.Minute
}

// Main is the entry point of the vcheck binary.
func Main() {
	if len(os.Args) < 3 {
		fmt.Fprintln(os.Stderr, "usage: vcheck drive|worker <ID> [--tier T] [--replay P] [--record-known] [--shard i/n --out F]")
		os.Exit(2)
	}
	mode, id := os.Args[1], os.Args[2]
	ch := registry[id]
	if ch == nil {
		fmt.Fprintf(os.Stderr, "vcheck: unknown check %s\n", id)
		os.Exit(2)
	}
	tier := os.Getenv("VERIF_TIER")
	if tier == "" {
		tier = "quick"
	}
	var replay, out, shardSpec string
	record := false
	workers := 16
	for i := 3; i < len(os.Args); i++ {
		switch os.Args[i] {
		case "--tier":
			i++
			tier = os.Args[i]
		case "--replay":
			i++
			replay = os.Args[i]
		case "--out":
			i++
			out = os.Args[i]
		case "--shard":
			i++
			shardSpec = os.Args[i]
		case "--record-known":
			record = true
		case "--workers":
			i++
			workers, _ = strconv.Atoi(os.Args[i])
		}
	}
	if tier != "quick" && tier != "thorough" {
		fmt.Fprintln(os.Stderr, "vcheck: bad tier")
		os.Exit(2)
	}
	seed, _ := strconv.ParseInt(os.Getenv("VERIF_SEED"), 10, 64)
	switch mode {
	case "worker":
		var sh, n int
		fmt.Sscanf(shardSpec, "%d/%d", &sh, &n)
		runWorker(ch, tier, sh, n, out, seed)
	case "drive":
		if replay != "" {
			os.Exit(doReplay(ch, tier, replay))
		}
		os.Exit(drive(ch, tier, workers, record, seed))
	default:
		os.Exit(2)
	}
}

func runWorker(ch *Check, tier string, sh, n int, out string, seed int64) {
	debug.SetMaxStack(256 << 20)
	c := newCtx(ch.ID, tier, sh, n)
	c.Seed = seed
	c.deadline = time.Now().Add(budget(ch, tier))
	if f, err := os.Create(out + ".ann"); err == nil {
		c.annFile = f
	}
	var w workerOut
	func() {
		defer func() {
			if r := recover(); r != nil {
				w.Panic = fmt.Sprintf("%v\n%s", r, debug.Stack())
			}
		}()
		ch.Run(c)
	}()
	w.Counters = c.counters
	for k := range c.outcomes {
		w.Outcomes = append(w.Outcomes, hex.EncodeToString([]byte(k)))
	}
	w.Samples = c.samples
	w.Notes = c.notes
	w.Viol = c.viol
	w.Caps = c.capsHit
	w.Expired = c.expired
	b, err := json.Marshal(w)
	if err != nil {
		fmt.Fprintln(os.Stderr, "worker marshal:", err)
		os.Exit(2)
	}
	if err := os.WriteFile(out, b, 0o644); err != nil {
		fmt.Fprintln(os.Stderr, err)
		os.Exit(2)
	}
}

type known struct {
	sigs  map[string]string          // sig -> description
	wit   map[string]map[string]bool // sig -> hashes
	fixed []string
}

func loadKnown(id string) *known {
	k := &known{sigs: map[string]string{}, wit: map[string]map[string]bool{}}
	if f, err := os.Open(filepath.Join(VerifDir, "KNOWN_FINDINGS.txt")); err == nil {
		sc := bufio.NewScanner(f)
		for sc.Scan() {
			line := strings.TrimSpace(sc.Text())
			if strings.HasPrefix(line, "known: property="+id+" ") {
				rest := strings.TrimPrefix(line, "known: property="+id+" ")
				if strings.HasPrefix(rest, "sig=") {
					rest = rest[4:]
					sig, desc, _ := strings.Cut(rest, " ")
					k.sigs[sig] = desc
				}
			}
		}
		f.Close()
	}
	if f, err := os.Open(filepath.Join(VerifDir, "known", id+".wit")); err == nil {
		sc := bufio.NewScanner(f)
		sc.Buffer(nil, 1<<20)
		for sc.Scan() {
			sig, h, ok := strings.Cut(sc.Text(), "\t")
			if ok {
				if k.wit[sig] == nil {
					k.wit[sig] = map[string]bool{}
				}
				k.wit[sig][h] = true
			}
		}
		f.Close()
	}
	return k
}

func drive(ch *Check, tier string, workers int, record bool, seed int64) int {
	start := time.Now()
	workDir := filepath.Join(VerifDir, "work", fmt.Sprintf("run-%s-%d", ch.ID, os.Getpid()))
	os.RemoveAll(workDir)
	os.MkdirAll(workDir, 0o755)
	self, _ := os.Executable()
	type res struct {
		w      workerOut
		err    error
		stderr string
		ann    string
	}
	results := make([]res, workers)
	var wg sync.WaitGroup
	hardCap := budget(ch, tier) + 10*time.Minute
	for i := 0; i < workers; i++ {
		wg.Add(1)
		go func(i int) {
			defer wg.Done()
			out := filepath.Join(workDir, fmt.Sprintf("w%d.json", i))
			cmd := exec.Command(self, "worker", ch.ID, "--tier", tier, "--shard", fmt.Sprintf("%d/%d", i, workers), "--out", out)
			cmd.Env = append(os.Environ(), "GOMAXPROCS=2", fmt.Sprintf("VERIF_SHARD=%d", i))
			cmd.Dir = workDir
			errFile, _ := os.Create(out + ".stderr")
			cmd.Stderr = errFile
			cmd.Stdout = errFile
			if err := cmd.Start(); err != nil {
				results[i].err = err
				return
			}
			done := make(chan error, 1)
			go func() { done <- cmd.Wait() }()
			var err error
			select {
			case err = <-done:
			case <-time.After(hardCap):
				cmd.Process.Kill()
				err = fmt.Errorf("worker exceeded hard cap %v", hardCap)
				<-done
			}
			errFile.Close()
			b, rerr := os.ReadFile(out)
			if rerr == nil {
				rerr = json.Unmarshal(b, &results[i].w)
			}
			if err != nil || rerr != nil {
				se, _ := os.ReadFile(out + ".stderr")
				if len(se) > 6000 {
					se = append(se[:3000], se[len(se)-3000:]...)
				}
				results[i].stderr = string(se)
				ann, _ := os.ReadFile(out + ".ann")
				results[i].ann = string(ann)
				if err == nil {
					err = rerr
				}
				results[i].err = err
			}
		}(i)
	}
	wg.Wait()

	counters := map[string]int64{}
	outcomes := map[string]struct{}{}
	var samples []any
	notes := map[string]any{}
	var viol []Violation
	var caps []string
	expired := false
	harnessErr := false
	for i, r := range results {
		if r.err != nil {
			// a crashed worker: attribute to the announced case if there is one
			if r.ann != "" && json.Valid([]byte(r.ann)) && !strings.Contains(r.err.Error(), "hard cap") {
				obs := "worker crashed: " + firstLines(r.stderr, 3)
				h := sha256.Sum256([]byte("worker-crash\x00" + r.ann))
				viol = append(viol, Violation{Sig: "worker-crash", Case: json.RawMessage(r.ann), Observed: obs, Hash: hex.EncodeToString(h[:8])})
				counters["violations"]++
				fmt.Printf("worker %d crashed while running an announced case:\n%s\n", i, r.stderr)
			} else {
				fmt.Printf("HARNESS-ERROR worker %d: %v\n%s\n", i, r.err, r.stderr)
				harnessErr = true
			}
			continue
		}
		w := r.w
		if w.Panic != "" {
			fmt.Printf("HARNESS-ERROR worker %d panicked: %s\n", i, w.Panic)
			harnessErr = true
		}
		for k, v := range w.Counters {
			counters[k] += v
		}
		for _, o := range w.Outcomes {
			outcomes[o] = struct{}{}
		}
		for _, s := range w.Samples {
			if len(samples) < 4 {
				samples = append(samples, s)
			}
		}
		for k, v := range w.Notes {
			if old, ok := notes[k]; ok {
				if of, ok1 := old.(float64); ok1 {
					if nf, ok2 := v.(float64); ok2 && nf > of {
						notes[k] = v
					}
					continue
				}
			}
			notes[k] = v
		}
		viol = append(viol, w.Viol...)
		caps = append(caps, w.Caps...)
		if w.Expired {
			expired = true
		}
	}
	if harnessErr {
		return 2
	}

	// classify violations
	kn := loadKnown(ch.ID)
	sort.SliceStable(viol, func(i, j int) bool { return viol[i].Sig < viol[j].Sig })
	knownCount := map[string]int{}
	var fresh []Violation
	for _, v := range viol {
		if _, ok := kn.sigs[v.Sig]; ok && kn.wit[v.Sig][v.Hash] {
			knownCount[v.Sig]++
			continue
		}
		fresh = append(fresh, v)
	}
	if record {
		// maintainer command: append witness hashes for signatures listed in KNOWN_FINDINGS.txt
		f, err := os.OpenFile(filepath.Join(VerifDir, "known", ch.ID+".wit"), os.O_APPEND|os.O_CREATE|os.O_WRONLY, 0o644)
		if err != nil {
			fmt.Println(err)
			return 2
		}
		n := 0
		var rest []Violation
		for _, v := range fresh {
			if _, ok := kn.sigs[v.Sig]; ok {
				fmt.Fprintf(f, "%s\t%s\n", v.Sig, v.Hash)
				n++
			} else {
				rest = append(rest, v)
			}
		}
		f.Close()
		fmt.Printf("recorded %d witness hashes; %d violations have unlisted signatures\n", n, len(rest))
		fresh = rest
	}
	sigsSorted := make([]string, 0, len(knownCount))
	for s := range knownCount {
		sigsSorted = append(sigsSorted, s)
	}
	sort.Strings(sigsSorted)
	for _, s := range sigsSorted {
		fmt.Printf("KNOWN-FINDING: property=%s sig=%s cases=%d %s\n", ch.ID, s, knownCount[s], kn.sigs[s])
	}
	// write replays for fresh violations (at most 5 per signature)
	perSig := map[string]int{}
	repDir := filepath.Join(VerifDir, "replays", ch.ID)
	for _, v := range fresh {
		perSig[v.Sig]++
		if perSig[v.Sig] > 5 {
			continue
		}
		os.MkdirAll(repDir, 0o755)
		path := filepath.Join(repDir, v.Hash+".json")
		b, _ := json.MarshalIndent(map[string]any{"property": ch.ID, "sig": v.Sig, "case": v.Case, "observed": v.Observed, "tier": tier}, "", " ")
		os.WriteFile(path, b, 0o644)
		fmt.Printf("VIOLATION property=%s replay=%s sig=%s :: %s\n", ch.ID, path, v.Sig, oneLine(v.Observed, 300))
	}
	for s, n := range perSig {
		if n > 5 {
			fmt.Printf("  (+%d more violations with sig=%s)\n", n-5, s)
		}
	}

	// evidence
	exhaustive := !expired && len(caps) == 0
	if v, ok := notes["exhaustive_override_false"]; ok && v != nil {
		exhaustive = false
	}
	ev := map[string]any{}
	ev["property_id"] = ch.ID
	ev["tier"] = tier
	ev["seed"] = seed
	ev["level"] = ch.Level
	cov := map[string]any{}
	for k, v := range counters {
		cov[k] = v
	}
	if _, ok := cov["evaluations"]; !ok {
		cov["evaluations"] = int64(0)
	}
	cov["distinct_nontrivial"] = len(outcomes)
	cov["distinct_outcomes"] = len(outcomes)
	cov["rule"] = ch.Rule
	if samples == nil {
		samples = []any{}
	}
	cov["samples"] = samples
	cov["exhaustive"] = exhaustive
	cov["caps_hit"] = uniq(caps)
	cov["workers"] = workers
	for k, v := range notes {
		cov["note_"+k] = v
	}
	if _, ok := cov["states"]; !ok {
		cov["states"] = cov["evaluations"]
	}
	if _, ok := cov["transitions"]; !ok {
		cov["transitions"] = cov["evaluations"]
	}
	if _, ok := cov["traces_validated_against_impl"]; !ok {
		cov["traces_validated_against_impl"] = cov["evaluations"]
	}
	kf := map[string]int{}
	for s, n := range knownCount {
		kf[s] = n
	}
	cov["known_finding_cases"] = kf
	ev["coverage"] = cov
	ev["assumptions"] = ch.Assumptions
	ev["wall_s"] = time.Since(start).Seconds()
	ev["violations"] = len(fresh)
	b, _ := json.MarshalIndent(ev, "", " ")
	// a run against a planted or seeded change (check --mutant) is a self-test of
	// the machinery, not evidence about /repo: its record goes under work/
	evDir := filepath.Join(VerifDir, "evidence")
	if os.Getenv("VERIF_PLANTED") != "" {
		evDir = filepath.Join(VerifDir, "work", "evidence-planted")
	}
	os.MkdirAll(evDir, 0o755)
	if err := os.WriteFile(filepath.Join(evDir, ch.ID+".json"), b, 0o644); err != nil {
		fmt.Println("HARNESS-ERROR", err)
		return 2
	}
	fmt.Printf("%s tier=%s evaluations=%d states=%v transitions=%v distinct_outcomes=%d known_cases=%d violations=%d exhaustive=%v wall=%.1fs\n",
		ch.ID, tier, counters["evaluations"], cov["states"], cov["transitions"], len(outcomes), len(viol)-len(fresh), len(fresh), exhaustive, time.Since(start).Seconds())
	os.RemoveAll(workDir)
	if len(fresh) > 0 {
		return 1
	}
	return 0
}

func doReplay(ch *Check, tier, path string) int {
	data, err := os.ReadFile(path)
	if err != nil {
		fmt.Println(err)
		return 2
	}
	var rec struct {
		Case json.RawMessage `json:"case"`
		Sig  string          `json:"sig"`
	}
	if err := json.Unmarshal(data, &rec); err != nil {
		fmt.Println(err)
		return 2
	}
	if ch.Replay == nil {
		fmt.Println("check has no replay function")
		return 2
	}
	var first string
	for round := 0; round < 2; round++ {
		c := newCtx(ch.ID, tier, 0, 1)
		ch.Replay(c, rec.Case)
		b, _ := json.Marshal(c.viol)
		if round == 0 {
			first = string(b)
			for _, v := range c.viol {
				fmt.Printf("replay: sig=%s observed: %s\n", v.Sig, v.Observed)
			}
			if len(c.viol) == 0 {
				fmt.Println("replay: no violation")
			}
		} else if string(b) != first {
			fmt.Println("HARNESS-ERROR replay is not deterministic")
			return 2
		}
	}
	if first != "null" && first != "[]" {
		fmt.Printf("VIOLATION property=%s replay=%s\n", ch.ID, path)
		return 1
	}
	return 0
}

func uniq(s []string) []string {
	m := map[string]bool{}
	out := []string{}
	for _, x := range s {
		if !m[x] {
			m[x] = true
			out = append(out, x)
		}
	}
	sort.Strings(out)
	return out
}

func oneLine(s string, n int) string {
	s = strings.ReplaceAll(s, "\n", "\\n")
	if len(s) > n {
		s = s[:n] + "…"
	}
	return s
}

func firstLines(s string, n int) string {
	lines := strings.SplitN(s, "\n", n+1)
	if len(lines) > n {
		lines = lines[:n]
	}
	return strings.Join(lines, " | ")
}

package main

import (
	_ "verifharness/checks"
	"verifharness/core"
)

func main() { core.Main() }

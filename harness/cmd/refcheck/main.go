package main

import (
	"fmt"

	"verifharness/checks"
)

func main() {
	rv := checks.RefValidateExport()
	fmt.Printf("total=%d agreed=%d unsupported=%d implDiffers=%d modelBugs=%d\n", rv.Total, rv.Agreed, rv.Unsupported, rv.ImplDiffers, len(rv.ModelBugs))
	for k, v := range rv.UnsupportedWhy {
		fmt.Println("unsupported:", v, k)
	}
	for _, b := range rv.Differs {
		fmt.Println("IMPL-DIFFERS", b)
	}
	for _, b := range rv.ModelBugs {
		fmt.Println("MODEL-BUG", b)
	}
}

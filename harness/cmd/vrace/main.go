// vrace: supplementary FREE-RUNNING pass for C19, built with -race.
//
// The exhaustive schedule exploration of C19 runs interpreters as cooperative
// threads; every hand-off is a happens-before edge, so the race detector is
// blind there. This program runs the same sharing programs with real
// goroutines and no scheduler: N interpreters over one *parser.Program, and N
// concurrent ParseProgram calls of one source. It decides nothing by itself
// (it samples schedules); a "DATA RACE" report is a violation of C19's
// "without data races", silence is reported as supplementary evidence only.
package main

import (
	"bytes"
	"fmt"
	"os"
	"strings"
	"sync"

	"github.com/benhoyt/goawk/interp"
	"github.com/benhoyt/goawk/parser"

	"verifharness/checks"
)

func main() {
	n, rounds := 6, 8
	if len(os.Args) > 1 && os.Args[1] == "thorough" {
		n, rounds = 12, 40
	}
	funcs := map[string]any{"nat": func(x float64) float64 { return x * 10 }}
	inputs := []string{"a b\nb c\n", "abc 2\n", "a b c\nab ab\n1 2\n", ""}
	runs := 0
	for _, sp := range checks.C19ShareSources() {
		prog, err := parser.ParseProgram([]byte(sp), &parser.ParserConfig{Funcs: funcs})
		if err != nil {
			fmt.Println("vrace: parse error:", err)
			os.Exit(2)
		}
		for r := 0; r < rounds; r++ {
			var wg sync.WaitGroup
			outs := make([]string, n)
			for i := 0; i < n; i++ {
				wg.Add(1)
				go func(i int) {
					defer wg.Done()
					defer func() {
						if p := recover(); p != nil {
							outs[i] = fmt.Sprint("panic: ", p)
						}
					}()
					var out bytes.Buffer
					st, err := interp.ExecProgram(prog, &interp.Config{Stdin: strings.NewReader(inputs[i%len(inputs)]), Output: &out, Error: &bytes.Buffer{}, Funcs: funcs, Environ: []string{}})
					outs[i] = fmt.Sprintf("%q %d %v", out.String(), st, err)
				}(i)
			}
			// concurrent parses of the same source (package-level tables of the lexer, parser, resolver, compiler)
			for i := 0; i < 2; i++ {
				wg.Add(1)
				go func() {
					defer wg.Done()
					p2, err := parser.ParseProgram([]byte(sp), &parser.ParserConfig{Funcs: funcs})
					if err == nil {
						_ = p2.String()
						_ = p2.Disassemble(&bytes.Buffer{})
					}
				}()
			}
			wg.Wait()
			runs += n
			for i := range outs {
				if outs[i] != outs[i%len(inputs)] {
					fmt.Printf("RESULT-DIFFERS program=%q goroutine %d: %s vs %s\n", sp, i, outs[i], outs[i%len(inputs)])
				}
				if strings.HasPrefix(outs[i], "panic:") {
					fmt.Printf("PANIC program=%q goroutine %d: %s\n", sp, i, outs[i])
				}
			}
		}
	}
	fmt.Printf("vrace: executions=%d goroutines_per_round=%d rounds_per_program=%d\n", runs, n, rounds)
}

package main

import (
	"fmt"
	"os"
	"strings"
	"time"

	"verifharness/checks"
)

func main() {
	ops := strings.Split(os.Args[1], ",")
	if len(os.Args) > 2 {
		var b int
		fmt.Sscanf(os.Args[2], "%d", &b)
		t := time.Now()
		checks.C13DebugExplore(ops, b)
		fmt.Println(time.Since(t))
		return
	}
	checks.C13Debug(ops)
	fmt.Println("done")
}

// Package corpus extracts the repository's own test tables from the CURRENT
// /repo tree (go/parser on the _test.go files), for model validation and as
// seeds for enumeration.
package corpus

import (
	"go/ast"
	"go/parser"
	"go/token"
	"os"
	"path/filepath"
	"strconv"
	"strings"
)

type InterpTest struct {
	Src, In, Out, Err string
}

func litString(e ast.Expr) (string, bool) {
	switch x := e.(type) {
	case *ast.BasicLit:
		if x.Kind == token.STRING {
			s, err := strconv.Unquote(x.Value)
			return s, err == nil
		}
	case *ast.BinaryExpr:
		if x.Op == token.ADD {
			a, ok1 := litString(x.X)
			b, ok2 := litString(x.Y)
			return a + b, ok1 && ok2
		}
	case *ast.ParenExpr:
		return litString(x.X)
	}
	return "", false
}

// InterpTests returns the {src,in,out,err} literals of `interpTests` in interp/interp_test.go.
func InterpTests(repo string) []InterpTest {
	fset := token.NewFileSet()
	f, err := parser.ParseFile(fset, filepath.Join(repo, "interp", "interp_test.go"), nil, 0)
	if err != nil {
		return nil
	}
	var out []InterpTest
	ast.Inspect(f, func(n ast.Node) bool {
		vs, ok := n.(*ast.ValueSpec)
		if !ok || len(vs.Names) != 1 || vs.Names[0].Name != "interpTests" || len(vs.Values) != 1 {
			return true
		}
		cl, ok := vs.Values[0].(*ast.CompositeLit)
		if !ok {
			return false
		}
		for _, el := range cl.Elts {
			row, ok := el.(*ast.CompositeLit)
			if !ok || len(row.Elts) < 4 {
				continue
			}
			var vals [4]string
			good := true
			for i := 0; i < 4; i++ {
				s, ok := litString(row.Elts[i])
				if !ok {
					good = false
				}
				vals[i] = s
			}
			if good {
				out = append(out, InterpTest{vals[0], vals[1], vals[2], vals[3]})
			}
		}
		return false
	})
	return out
}

// AllSources returns every string literal in the repository's test files and
// testdata that parses plausibly as AWK source (used as seeds by C03/C20).
func AllSources(repo string) []string {
	seen := map[string]bool{}
	var out []string
	add := func(s string) {
		if s != "" && !seen[s] && len(s) < 4000 {
			seen[s] = true
			out = append(out, s)
		}
	}
	for _, t := range InterpTests(repo) {
		add(t.Src)
	}
	for _, tf := range []string{"parser/parser_test.go", "goawk_test.go", "interp/example_test.go", "interp/newexecute_test.go"} {
		fset := token.NewFileSet()
		f, err := parser.ParseFile(fset, filepath.Join(repo, tf), nil, 0)
		if err != nil {
			continue
		}
		ast.Inspect(f, func(n ast.Node) bool {
			if bl, ok := n.(*ast.BasicLit); ok && bl.Kind == token.STRING {
				if s, err := strconv.Unquote(bl.Value); err == nil && (strings.ContainsAny(s, "{}") || strings.Contains(s, "print")) {
					add(s)
				}
			}
			return true
		})
	}
	for _, pat := range []string{"testdata/*.awk", "testdata/t.*", "testdata/p.*", "testdata/gawk/*.awk"} {
		files, _ := filepath.Glob(filepath.Join(repo, pat))
		for _, fn := range files {
			if b, err := os.ReadFile(fn); err == nil {
				add(string(b))
			}
		}
	}
	return out
}

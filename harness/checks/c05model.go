package checks

import (
	"math"
	"math/big"
	"strconv"
	"strings"
	"unicode"
)

// C05 reference value model. Written from the property statement and DESIGN.md
// Appendix B; it does not call goawk's value.go. strconv.ParseFloat on a pure
// decimal/exponent text and strconv.FormatFloat with an explicit precision are
// trusted leaves (correctly rounded strtod / printf).

// classes of input-derived text
const (
	c05STR  = iota // does not look like a number: always a string
	c05NUM         // blank-trimmed decimal/exponent grammar, finite value: a number
	c05OPEN        // classification left open: checked for self-consistency only
)

func c05IsDigit(b byte) bool { return b >= '0' && b <= '9' }
func c05IsHex(b byte) bool {
	return c05IsDigit(b) || (b >= 'a' && b <= 'f') || (b >= 'A' && b <= 'F')
}

// c05DecPrefixLen returns the length of the longest prefix of s matching
// [+-]? (D+ ('.' D*)? | '.' D+) ([eE] [+-]? D+)?   (0 if none).
func c05DecPrefixLen(s string) int {
	i := 0
	if i < len(s) && (s[i] == '+' || s[i] == '-') {
		i++
	}
	nd := 0
	for i < len(s) && c05IsDigit(s[i]) {
		i++
		nd++
	}
	if i < len(s) && s[i] == '.' {
		j := i + 1
		nf := 0
		for j < len(s) && c05IsDigit(s[j]) {
			j++
			nf++
		}
		if nd > 0 || nf > 0 {
			i = j
			nd += nf
		}
	}
	if nd == 0 {
		return 0
	}
	if i < len(s) && (s[i] == 'e' || s[i] == 'E') {
		j := i + 1
		if j < len(s) && (s[j] == '+' || s[j] == '-') {
			j++
		}
		k := j
		for k < len(s) && c05IsDigit(s[k]) {
			k++
		}
		if k > j {
			i = k
		}
	}
	return i
}

// c05DecValue converts a text that is entirely in the decimal grammar.
func c05DecValue(t string) (v float64, overflow bool) {
	// "1." and ".5" and "+.5e1" are all accepted by ParseFloat
	v, err := strconv.ParseFloat(t, 64)
	if err != nil {
		if math.IsInf(v, 0) {
			return v, true
		}
		// cannot happen for grammar-conforming text; treat as open
		return v, true
	}
	return v, false
}

func c05HexFull(t string) bool {
	i := 0
	if i < len(t) && (t[i] == '+' || t[i] == '-') {
		i++
	}
	if i+2 > len(t) || t[i] != '0' || (t[i+1] != 'x' && t[i+1] != 'X') {
		return false
	}
	i += 2
	nd := 0
	for i < len(t) && c05IsHex(t[i]) {
		i++
		nd++
	}
	if i < len(t) && t[i] == '.' {
		i++
		for i < len(t) && c05IsHex(t[i]) {
			i++
			nd++
		}
	}
	if nd == 0 {
		return false
	}
	if i < len(t) && (t[i] == 'p' || t[i] == 'P') {
		i++
		if i < len(t) && (t[i] == '+' || t[i] == '-') {
			i++
		}
		k := i
		for i < len(t) && c05IsDigit(t[i]) {
			i++
		}
		if i == k {
			return false
		}
	}
	return i == len(t)
}

func c05InfNanFull(t string) bool {
	if len(t) > 0 && (t[0] == '+' || t[0] == '-') {
		t = t[1:]
	}
	switch strings.ToLower(t) {
	case "inf", "infinity", "nan":
		return true
	}
	return false
}

func c05TrimSet(s, set string) string { return strings.Trim(s, set) }

// c05Classify decides whether input-derived text s "looks entirely like a
// number". sub names the open family.
func c05Classify(s string) (class int, val float64, sub string) {
	anyReading := func(t string) (bool, string) {
		if t != "" && c05DecPrefixLen(t) == len(t) {
			return true, "dec"
		}
		if c05HexFull(t) {
			return true, "hex"
		}
		if c05InfNanFull(t) {
			return true, "infnan"
		}
		return false, ""
	}
	t := c05TrimSet(s, " \t")
	if ok, how := anyReading(t); ok {
		switch how {
		case "dec":
			v, over := c05DecValue(t)
			if over {
				return c05OPEN, v, "overflow"
			}
			return c05NUM, v, ""
		default:
			return c05OPEN, 0, how
		}
	}
	t2 := c05TrimSet(s, " \t\n\v\f\r")
	if t2 != t {
		if ok, _ := anyReading(t2); ok {
			return c05OPEN, 0, "asciiws"
		}
	}
	t3 := strings.TrimFunc(s, unicode.IsSpace)
	if t3 != t2 {
		if ok, _ := anyReading(t3); ok {
			return c05OPEN, 0, "uniblank"
		}
	}
	return c05STR, 0, ""
}

// c05Prefix is string->number in arithmetic: longest leading numeric prefix
// after ASCII white space, else 0. open is set where the result is not
// prescribed (hex / inf / nan prefixes).
func c05Prefix(s string) (v float64, open bool) {
	i := 0
	for i < len(s) && strings.IndexByte(" \t\n\v\f\r", s[i]) >= 0 {
		i++
	}
	s = s[i:]
	r := s
	if len(r) > 0 && (r[0] == '+' || r[0] == '-') {
		r = r[1:]
	}
	if len(r) >= 3 {
		l := strings.ToLower(r[:3])
		if l == "inf" || l == "nan" {
			return 0, true
		}
	}
	if len(r) >= 2 && r[0] == '0' && (r[1] == 'x' || r[1] == 'X') {
		return 0, true
	}
	n := c05DecPrefixLen(s)
	if n == 0 {
		return 0, false
	}
	v, _ = c05DecValue(s[:n])
	return v, false
}

// c05LenientReadings returns finite numbers that some reading of s could give;
// they are used as comparison partners so that a comparison that uses a
// different number than arithmetic does is noticed.
func c05LenientReadings(s string) []float64 {
	var out []float64
	add := func(v float64) {
		if math.IsNaN(v) || math.IsInf(v, 0) {
			return
		}
		for _, o := range out {
			if o == v {
				return
			}
		}
		out = append(out, v)
	}
	if v, open := c05Prefix(s); !open {
		add(v)
		add(v + 1)
		add(v - 1)
	}
	t := strings.TrimFunc(s, unicode.IsSpace)
	if v, err := strconv.ParseFloat(t, 64); err == nil {
		add(v)
	}
	if c05HexFull(t) {
		tt := t
		if !strings.ContainsAny(tt, "pP") {
			tt += "p0"
		}
		if v, err := strconv.ParseFloat(tt, 64); err == nil {
			add(v)
		}
	}
	// skip everything up to the first sign/digit/dot
	k := strings.IndexAny(s, "+-.0123456789")
	if k > 0 {
		if v, open := c05Prefix(s[k:]); !open {
			add(v)
		}
	}
	if len(out) > 6 {
		out = out[:6]
	}
	return out
}

// c05NumStr: number -> string. Returns the acceptable renderings.
func c05NumStr(n float64, format string) []string {
	switch {
	case math.IsNaN(n):
		return []string{"nan", "-nan", "+nan"}
	case math.IsInf(n, 1):
		return []string{"inf", "+inf"}
	case math.IsInf(n, -1):
		return []string{"-inf"}
	case n == 0:
		if math.Signbit(n) {
			return []string{"-0", "0"}
		}
		return []string{"0"}
	}
	if n == math.Trunc(n) && n >= -9223372036854775808.0 && n < 9223372036854775808.0 {
		bi, _ := new(big.Float).SetFloat64(n).Int(nil)
		return []string{bi.String()}
	}
	return []string{c05Format(format, n)}
}

// c05Format renders n with a "%[.prec]verb" format (verbs e f g E G).
func c05Format(format string, n float64) string {
	f := format
	if len(f) < 2 || f[0] != '%' {
		return "?badformat"
	}
	verb := f[len(f)-1]
	prec := 6
	mid := f[1 : len(f)-1]
	if mid != "" {
		if mid[0] != '.' {
			return "?badformat"
		}
		p, err := strconv.Atoi(mid[1:])
		if err != nil {
			return "?badformat"
		}
		prec = p
	}
	switch verb {
	case 'e', 'f', 'g', 'E', 'G':
		return strconv.FormatFloat(n, verb, prec, 64)
	}
	return "?badformat"
}

// effective operand of a comparison
type c05Eff struct {
	kind    int // 0 number, 1 string, 2 unset
	n       float64
	s       string
	hasText bool // a number that came from input text keeps that text as its string value
}

const (
	c05EffNum = iota
	c05EffStr
	c05EffUnset
)

const (
	c05LT = 1 << iota
	c05LE
	c05EQ
	c05NE
	c05GT
	c05GE
)

func c05BitsNum(a, b float64) int {
	r := 0
	if a < b {
		r |= c05LT
	}
	if a <= b {
		r |= c05LE
	}
	if a == b {
		r |= c05EQ
	}
	if a != b {
		r |= c05NE
	}
	if a > b {
		r |= c05GT
	}
	if a >= b {
		r |= c05GE
	}
	return r
}

func c05BitsStr(a, b string) int {
	r := 0
	if a < b {
		r |= c05LT
	}
	if a <= b {
		r |= c05LE
	}
	if a == b {
		r |= c05EQ
	}
	if a != b {
		r |= c05NE
	}
	if a > b {
		r |= c05GT
	}
	if a >= b {
		r |= c05GE
	}
	return r
}

// c05Expect returns the acceptable results of (x OP y) for the six operators
// (low 6 bits) and (y OP x) (next 6 bits). defined is false when a NaN takes
// part in a numeric comparison (no result prescribed).
func c05Expect(x, y c05Eff, convfmt string) (acc []int, defined bool, numeric bool) {
	numlike := func(e c05Eff) bool { return e.kind == c05EffNum || e.kind == c05EffUnset }
	if numlike(x) && numlike(y) {
		a, b := x.n, y.n
		if x.kind == c05EffUnset {
			a = 0
		}
		if y.kind == c05EffUnset {
			b = 0
		}
		if math.IsNaN(a) || math.IsNaN(b) {
			return nil, false, true
		}
		return []int{c05BitsNum(a, b) | c05BitsNum(b, a)<<6}, true, true
	}
	strs := func(e c05Eff) []string {
		switch e.kind {
		case c05EffNum:
			if e.hasText {
				return []string{e.s}
			}
			return c05NumStr(e.n, convfmt)
		case c05EffUnset:
			return []string{""}
		}
		return []string{e.s}
	}
	for _, a := range strs(x) {
		for _, b := range strs(y) {
			v := c05BitsStr(a, b) | c05BitsStr(b, a)<<6
			dup := false
			for _, o := range acc {
				if o == v {
					dup = true
				}
			}
			if !dup {
				acc = append(acc, v)
			}
		}
	}
	return acc, true, false
}

func c05Truth(e c05Eff) bool {
	switch e.kind {
	case c05EffNum:
		return e.n != 0
	case c05EffStr:
		return e.s != ""
	}
	return false
}

func c05SameNum(a, b float64) bool {
	if math.IsNaN(a) || math.IsNaN(b) {
		return math.IsNaN(a) && math.IsNaN(b)
	}
	return a == b
}

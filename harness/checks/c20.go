package checks

import (
	"encoding/json"
	"fmt"
	"regexp"
	"runtime/debug"
	"strconv"
	"strings"

	"github.com/benhoyt/goawk/parser"
	"github.com/benhoyt/goawk/vexp"

	"verifharness/awk"
	"verifharness/core"
)

// C20 — the printed form of a program (Program.String, goawk -d) is a faithful
// AWK program (shape B): for every accepted source of the enumerated space,
//   p1 = Parse(src); t = p1.String(); p2 = Parse(t) succeeds;
//   tree(p1) == tree(p2) (numbers at 6 significant digits, grouping nodes ignored);
//   p2.String() == t.

type c20Case struct {
	Src    string `json:"src"`
	Family string `json:"family"`
	Sig    string `json:"sig"`
}

type c20Checker struct {
	c *core.Ctx
	*c04Sharder
	sampled int
}

var c20Opts = vexp.CanonOpts{NumSig6: true, EmptyElseNil: true}

func c20String(p *parser.Program) (s string, panicked string) {
	defer func() {
		if r := recover(); r != nil {
			panicked = fmt.Sprintf("%v\n%s", r, debug.Stack())
		}
	}()
	return p.String(), ""
}

// c20Judge runs the round trip. accepted=false: src is not an accepted program
// (outside the property). kind == "" : fine.
func c20Judge(src string) (accepted bool, outcome, kind, detail, sigFeature string) {
	p1, err, pn := awk.Parse(src, nil)
	if pn != "" || err != nil {
		return false, "not-accepted", "", "", ""
	}
	t, spn := c20String(p1)
	if spn != "" {
		return true, "string-panic", "print-panic", "Program.String panicked: " + firstLine(spn), ""
	}
	c1 := vexp.CanonTree(p1, c20Opts)
	p2, err2, pn2 := awk.Parse(t, nil)
	if pn2 != "" {
		return true, t, "reparse-panic", "printed text:\n" + t + "\nparser panicked: " + firstLine(pn2), c20Feature(p1, t, "")
	}
	if err2 != nil {
		return true, t, "reparse-error", "printed text:\n" + t + "\nis rejected: " + err2.Error(), c20Feature(p1, t, c20ErrMsg(err2.Error()))
	}
	c2 := vexp.CanonTree(p2, c20Opts)
	if c1 != c2 {
		return true, t, "tree-differs", "printed text:\n" + t + "\nparses to\n" + c2 + "instead of\n" + c1, c20Feature(p1, t, c04DiffSig(c1, c2))
	}
	t2, spn2 := c20String(p2)
	if spn2 != "" {
		return true, t, "print-panic", "Program.String of the re-parsed program panicked: " + firstLine(spn2), ""
	}
	if t2 != t {
		return true, t, "reprint-differs", "printed text:\n" + t + "\nprints again as\n" + t2, c20Feature(p1, t, c20TextDiff(t, t2))
	}
	return true, t, "", "", ""
}

func c20ErrMsg(e string) string {
	// "parse error at L:C: msg" -> msg
	if strings.HasPrefix(e, "parse error at ") {
		if i := strings.Index(e[15:], ": "); i >= 0 {
			return e[15+i+2:]
		}
	}
	return e
}

var c20NumRe = regexp.MustCompile(`[0-9]+(\.[0-9]+)?(e[+-]?[0-9]+)?`)
var c20Named = regexp.MustCompile(`printed as|printed in`)

// c20TextDiff classifies how two printed texts differ.
func c20TextDiff(a, b string) string {
	if c20NumRe.ReplaceAllString(a, "N") == c20NumRe.ReplaceAllString(b, "N") {
		return "a numeric literal in 6-digit form re-reads as an integer and is then printed in integer form"
	}
	return "texts differ other than in numeric literals"
}

var (
	// the operand of a unary operator is printed directly after it; its first
	// token is that of its leftmost descendant (only ^ nests to the left here)
	c20MinusMinus     = regexp.MustCompile(`\(u- (\(\^ )?\(u- `)
	c20MinusDecr      = regexp.MustCompile(`\(u- (\(\^ )?\(pre-- `)
	c20PlusPlus       = regexp.MustCompile(`\(u\+ (\(\^ )?\(u\+ `)
	c20PlusIncr       = regexp.MustCompile(`\(u\+ (\(\^ )?\(pre\+\+ `)
	c20PrintCondRedir = regexp.MustCompile(`\(printf? \[[^\n]*\(\?: [^\n]*\] (>|\|) `)
	c20UEsc           = regexp.MustCompile(`\\u[0-9a-f]{4}[0-9a-fA-F]`)
	c20UEsc8          = regexp.MustCompile(`\\U[0-9a-f]{8}`)
)

// c20Feature names the known hazard a failing program exhibits (the first that
// applies, in a fixed order), otherwise the generic detail.
func c20Feature(p1 *parser.Program, t string, generic string) string {
	g := vexp.CanonTree(p1, vexp.CanonOpts{KeepGrouping: true})
	switch {
	case c20MinusMinus.MatchString(g):
		return "unary minus applied to unary minus is printed as --"
	case c20MinusDecr.MatchString(g):
		return "unary minus applied to pre-decrement is printed as ---"
	case c20PlusPlus.MatchString(g):
		return "unary plus applied to unary plus is printed as ++"
	case c20PlusIncr.MatchString(g):
		return "unary plus applied to pre-increment is printed as +++"
	case strings.Contains(g, "(num +Inf)"):
		return "numeric literal overflowing to infinity is printed as +Inf"
	case c20UEsc8.MatchString(t):
		return `string rune printed as \UXXXXXXXX which the lexer does not know`
	case c20UEsc.MatchString(t):
		return `string rune printed as \uXXXX directly followed by a hex digit`
	case c20PrintCondRedir.MatchString(g):
		return "print of a ?: expression with a > or | redirection is printed as the text the parser mis-reads (C04 ?:-branch defect)"
	}
	return generic
}

func (k *c20Checker) try(src, family string) {
	c := k.c
	c.Eval(1)
	c.Add("transitions", 1)
	accepted, outcome, kind, detail, feat := c20Judge(src)
	if !accepted {
		c.Add("not_accepted", 1)
		return
	}
	c.Add("states", 1)
	c.Add("accepted_"+strings.SplitN(family, "-", 2)[0], 1)
	c.Outcome(outcome)
	if k.sampled < 1 && c.Shard == 0 && family == "statements" {
		k.sampled++
		c.Sample(map[string]any{"src": src, "printed": outcome})
	}
	if kind == "" {
		return
	}
	sig := kind + ": " + feat
	if feat == "" {
		sig = kind
	}
	if c20Named.MatchString(feat) {
		sig = feat // a named defect class: one signature whatever the symptom (re-parse error / other tree / other text)
	} else {
		if strings.HasPrefix(family, "expr-") {
			family = "expressions"
		}
		sig += " family=" + family
	}
	k.fail(sig, c20Case{Src: src, Family: family, Sig: sig}, detail)
}

// ---- family A: C04's expression trees ----

func (k *c20Checker) exprTrees() {
	c := k.c
	all, reduced := c04MkOps()
	var mainCtxs, allCtxs []*c04Ctx
	for _, x := range c04Ctxs {
		allCtxs = append(allCtxs, x)
		if !x.Bracket {
			mainCtxs = append(mainCtxs, x)
		}
	}
	trees := c04Trees(all, 3)
	run := func(t *c04Node, leaves []int, ctxs []*c04Ctx, full bool) {
		for _, ctx := range ctxs {
			for mode := c04ModeFull; mode <= c04ModeBareAsg; mode++ {
				if mode == c04ModeFull && (!full || ctx.Name != "stmt") {
					continue
				}
				src, ok := c04Spell(t, leaves, mode, ctx.Print, ctx.Pre, ctx.Post)
				if !ok {
					continue
				}
				if strings.Contains(src, "f(") {
					src += c04FuncSrc
				}
				k.try(src, "expr-"+c04ModeName[mode])
			}
		}
	}
	for n := 0; n <= 3; n++ {
		for _, t := range trees[n] {
			if c.Expired() {
				return
			}
			if !k.mine() {
				continue
			}
			switch {
			case n <= 1:
				c04Typings(t, true, nil, func(l []int) { run(t, l, allCtxs, true) })
			case n == 2:
				rots := [][2]int{{0, 1}, {3, 2}, {5, 1}}
				if k.thorough {
					rots = [][2]int{{0, 1}, {1, 1}, {2, 1}, {3, 1}, {4, 1}, {5, 1}, {6, 1}, {0, 3}, {2, 3}, {4, 3}}
				}
				c04Typings(t, false, rots, func(l []int) { run(t, l, allCtxs, true) })
			default:
				rots := [][2]int{{0, 1}}
				if k.thorough {
					rots = [][2]int{{0, 1}, {3, 2}, {5, 1}}
				}
				c04Typings(t, false, rots, func(l []int) { run(t, l, mainCtxs, false) })
			}
		}
	}
	if k.thorough {
		t4 := c04Trees(reduced, 4)
		stmtOnly := []*c04Ctx{c04Ctxs[0], c04Ctxs[1]}
		for _, t := range t4[4] {
			if c.Expired() {
				return
			}
			if !k.mine() {
				continue
			}
			c04Typings(t, false, [][2]int{{0, 1}}, func(l []int) { run(t, l, stmtOnly, false) })
		}
	}
}

// ---- family B1: adjacent operators that could fuse into another token ----

func (k *c20Checker) adjacency() {
	c := k.c
	prefix := []string{"-", "+", "!", "++", "--", "$"}
	leaves := []string{"x", "$1", "a[1]", "1"}
	posts := []string{"", "++", "--"}
	lefts := []string{"", "y -", "y +", "y", "y *", "y /", "y ^", "y <", "! y ~", "y = "}
	rights := []string{"", "- z", "+ z", "- - z", "+ + z", "- -- z", "+ ++ z", "/ z / w", "~ /=/", "^ - z", "z", "-- z"}
	maxChain := 3
	if k.thorough {
		maxChain = 4
	}
	for n := 0; n <= maxChain; n++ {
		enumStrings([]string{"0", "1", "2", "3", "4", "5"}, n, func(idx string) {
			if c.Expired() || !k.mine() {
				return
			}
			var chain []string
			for _, ch := range idx {
				chain = append(chain, prefix[ch-'0'])
			}
			for _, leaf := range leaves {
				for _, post := range posts {
					for _, left := range lefts {
						for _, right := range rights {
							toks := []string{"BEGIN", "{", "r", "="}
							if left != "" {
								toks = append(toks, left)
							}
							toks = append(toks, chain...)
							toks = append(toks, leaf)
							if post != "" {
								toks = append(toks, post)
							}
							if right != "" {
								toks = append(toks, right)
							}
							toks = append(toks, "}")
							k.try(strings.Join(toks, " "), "adjacent-operators")
						}
					}
				}
			}
		})
	}
}

// ---- family B2: string literals ----

type c20Sym struct{ val, src string }

var c20StrAlpha = []c20Sym{
	{`"`, `\"`}, {`\`, `\\`}, {"/", "/"}, {"\x00", `\000`}, {"\n", `\n`}, {"\t", `\t`}, {"\x7f", `\177`}, {"\xff", "\xff"},
	{"é", "é"}, {"\u00a0", "\u00a0"}, {"\u2028", "\u2028"}, {"\U000e0001", "\U000e0001"},
	{"a", "a"}, {"b", "b"}, {"0", "0"}, {"7", "7"}, {"U", "U"}, {"u", "u"}, {"x", "x"}, {" ", " "},
}

func (k *c20Checker) stringsFamily() {
	// the harness' own spelling of each symbol must be read by the lexer as intended
	for _, s := range c20StrAlpha {
		p, err, pn := awk.Parse(`BEGIN { x = "`+s.src+`" }`, nil)
		if err != nil || pn != "" || !strings.Contains(vexp.CanonTree(p, vexp.CanonOpts{}), "(str "+strconv.Quote(s.val)+")") {
			// the lexer reads the harness' spelling differently from what was intended: the
			// round trip below is still meaningful, only the alphabet is not the stated one
			k.c.Add("string_symbols_not_read_as_intended", 1)
		}
	}
	// sweeps: every byte value alone / before and after a hex digit; every
	// backslash escape of a printable character; non-printable and astral runes
	for b := 0; b < 256; b++ {
		if !k.mine() {
			continue
		}
		oct := fmt.Sprintf(`\%03o`, b)
		for _, f := range []string{`BEGIN { x = "%s" }`, `BEGIN { x = "%sa" }`, `BEGIN { x = "a%s" }`, `BEGIN { x = "%s%s" }`, `BEGIN { x = "\351%s" }`} {
			k.try(strings.ReplaceAll(f, "%s", oct), "strings")
		}
		if b >= 0x20 && b != '"' && b != '\\' && b != 0x7f {
			raw := string([]byte{byte(b)})
			k.try(`BEGIN { x = "`+raw+`" }`, "strings")
			k.try(`BEGIN { x = "\`+raw+`1f" }`, "strings")
		}
	}
	for _, r := range []rune{0x80, 0x9f, 0xa0, 0xad, 0x378, 0x2028, 0x2029, 0xfeff, 0xfffd, 0xfffe, 0xffff, 0x10000, 0x1f600, 0xe0001, 0x10ffff} {
		if !k.mine() {
			continue
		}
		for _, tail := range []string{"", "a", "0", "g", "F", " "} {
			k.try(`BEGIN { x = "`+string(r)+tail+`" }`, "strings")
		}
	}
	maxLen := 3
	if k.thorough {
		maxLen = 4
	}
	idxAlpha := make([]string, len(c20StrAlpha))
	for i := range idxAlpha {
		idxAlpha[i] = string(rune('A' + i))
	}
	for n := 0; n <= maxLen; n++ {
		enumStrings(idxAlpha, n, func(idx string) {
			if !k.mine() {
				return
			}
			var b strings.Builder
			for _, ch := range idx {
				b.WriteString(c20StrAlpha[ch-'A'].src)
			}
			k.try(`BEGIN { x = "`+b.String()+`" }`, "strings")
			if n <= 2 {
				k.try(`$0 ~ "`+b.String()+`" { print "`+b.String()+`" > "`+b.String()+`" }`, "strings")
			}
		})
	}
}

// ---- family B3: regex literals ----
func (k *c20Checker) regexFamily() {
	pieces := []string{"a", `\/`, `\\`, "=", `\.`, `[\/]`, "b*", `\"`, `"`, " ", "(c|d)", "^", "$"}
	ctxs := []string{"%s", "%s { }", "BEGIN { x = %s }", "$0 ~ %s", "BEGIN { sub(%s, \"\") }", "BEGIN { gsub(%s, \"\", x) }", "BEGIN { split(s, a, %s) }", "BEGIN { x = match(s, %s) }",
		"BEGIN { x = y / %s }", "BEGIN { x /= %s }", "BEGIN { x = ! %s }", "%s, %s", "BEGIN { print %s > \"f\" }", "BEGIN { x = y ~ %s ? 1 : 2 }"}
	maxLen := 3
	if k.thorough {
		maxLen = 4
	}
	idxAlpha := make([]string, len(pieces))
	for i := range idxAlpha {
		idxAlpha[i] = string(rune('A' + i))
	}
	for n := 0; n <= maxLen; n++ {
		enumStrings(idxAlpha, n, func(idx string) {
			if !k.mine() {
				return
			}
			var b strings.Builder
			for _, ch := range idx {
				b.WriteString(pieces[ch-'A'])
			}
			re := "/" + b.String() + "/"
			for _, ctx := range ctxs {
				k.try(strings.ReplaceAll(ctx, "%s", re), "regexes")
			}
		})
	}
}

// ---- family B4: numeric literals ----
func (k *c20Checker) numbers() {
	nums := []string{"0", "1", "007", "10", "1e3", "1E3", "1e+3", "1e-3", "1e", "1.5e", "1e+", ".5", "5.", "0.5", "1.5", "3.14159265", "0.1", "100000", "999999", "1000000", "123456789",
		"100000.5", "999999.5", "999999.7", "1234567.5", "1e6", "1e15", "1e18", "1e19", "1e22", "1e300", "1e308", "1e309", "1e999", "1e-5", "0.000001", "0.0000001", "1e-300", "1e-999", "4.9e-324",
		"9007199254740993", "9223372036854775807", "9223372036854775808", "18446744073709551616", "0x10", "1.5.5", "00.5", "1e05", "123456.7", "12345.67", "0.30000000000000004"}
	ctxs := []string{"BEGIN { x = %s }", "BEGIN { print %s }", "BEGIN { x = $%s }", "BEGIN { x = - %s }", "BEGIN { x = %s %s }", "BEGIN { x = a[%s] }", "%s", "BEGIN { x = %s ^ %s }", "BEGIN { x = 1 - %s }"}
	for _, n := range nums {
		if !k.mine() {
			continue
		}
		for _, ctx := range ctxs {
			k.try(strings.ReplaceAll(ctx, "%s", n), "numeric-literals")
		}
	}
}

// ---- family B6: parenthesised print / printf lists ----
// Inside the parentheses ">" is a comparison and "|" a getline pipe; printed
// without them the same tokens would be a redirection.
func (k *c20Checker) printLists() {
	es := []string{"x", "y > z", "y < z", "y >= z", "y ? z : w", "y > z ? 1 : 2", "y ? z > 1 : w", `"c" | getline`, `"c" | getline v`, "v = y > z", "$y > z", "!y > z", "-y > z", "y in a", "(y > z)", "y z", "y z > w", "y++ > 1", `"c" | getline + 1`, `"c" | getline v - 1`, `"c" | getline v "s"`, `"c" | getline * 2`, `"c" | getline v ^ 2`, `"c" | getline v % 2 "t"`, "a[y > z]", "length(y > z)", "g(y > z)", "y > z > w", "y ~ z > w", "v += y > z"}
	reds := []string{"", ` > "f"`, ` >> "f"`, ` | "c"`}
	for _, e1 := range es {
		if !k.mine() {
			continue
		}
		for _, red := range reds {
			k.try("BEGIN { print ("+e1+")"+red+" }", "print-lists")
			k.try("BEGIN { printf (\"%s\", "+e1+")"+red+" }", "print-lists")
			for _, e2 := range es {
				k.try("BEGIN { print ("+e1+", "+e2+")"+red+" }", "print-lists")
				k.try("BEGIN { printf(\"%s\", "+e1+", "+e2+")"+red+" }", "print-lists")
				k.try("BEGIN { print ("+e1+", "+e2+", x)"+red+"; print "+e2+" }", "print-lists")
			}
		}
	}
}

// ---- family B5: statement forms ----

var c20Simple = []string{
	`x = 1`, `print`, `print x, y`, `print x > "f"`, `print x >> "f"`, `print x | "c"`, `print > "f"`, `print(x, y) > "f"`, `print (x)(y)`, `print (x > y)`, `print x, (y > z) > "f"`,
	`print x > "f" ".txt"`, `print x > $1`, `print x > y ? "a" : "b"`, `print x > -y`, `print x > (y > z)`, `print x > /r/`, `print x | "c " y`, `print -x`, `print -x, -y`, `print (x), y`, `print (x) y`,
	`print x = 1`, `print x in a`, `print (x, y) in a`, `print x, y > "f"`, `print !x`, `print x ~ y`, `print x == y`, `print x >= y`, `print x ? y : z`, `print (x ? y : z) > "f"`,
	`printf "%d", x`, `printf("%d\n", x) > "f"`, `printf "%s" >> "f"`, `printf("%s %s", x, y)`,
	`delete a`, `delete a[1]`, `delete a[1, 2]`, `delete a[x y]`, `exit`, `exit 1`, `exit x + 1`,
	`getline`, `getline x`, `getline $1`, `getline a[1]`, `getline < "f"`, `getline x < "f"`, `getline $1 < "f" x`, `getline a[1] < "f"`, `getline x < $1`, `getline < -x`, `getline < "a" "b"`,
	`"c" | getline`, `"c" | getline x`, `"c" "d" | getline a[1]`, `"c" | getline $1`, `x = getline < "f"`, `(getline x) > 0`, `x = "c" | getline`, `"c" | getline x y`, `x + 1 | getline`, `x < y | getline`,
	`(getline x + 1)`, `(getline x < "file" "x")`, `getline x + 1`, `-x | getline`, `x ? "a" | getline : 2`, `x ? y : "a" | getline`,
	`x++`, `--x`, `$1 = x`, `$(x + 1) = y`, `$x++`, `$x--`, `$++x`, `$$x++`, `$x^2`, `-$1`, `!$1`, `$-1`, `$NF-1`, `$(NF-1)`, `a[1, 2] = 3`, `x = (1, 2) in a`, `x = y in a`, `x = !(y in a)`,
	`sub(/r/, "s")`, `gsub(/r/, "s", x)`, `gsub("r", "s", $1)`, `sub(x ~ y, "s", a[1])`, `split(x, a)`, `split(x, a, /r/)`, `split(x, a, "r")`, `n = match(x, /r/)`, `x = substr(y, 1)`, `x = substr(y, 1, 2)`,
	`x = sprintf("%d", 1)`, `x = sprintf("%d")`, `x = length`, `x = length()`, `x = length(y)`, `x = length y`, `x = length + 1`, `srand()`, `srand(1)`, `x = rand()`, `fflush()`, `fflush("f")`, `close("f")`,
	`system("c")`, `x = index(y, z)`, `x = atan2(1, 2)`, `x = tolower(y) toupper(z)`, `x = int(y)`, `x = cos(1) + sin(1) + exp(1) + log(1) + sqrt(1)`,
	`/r/`, `! /r/`, `x ~ /r/`, `x !~ "r"`, `x = @"n"`, `x = @y`, `x = @"n" @"m"`, `x = y = z`, `x += y -= z`, `x ^= 2`, `x = y ? z : w`, `x = y ? z : w ? 1 : 2`, `x = (y ? z : w) ? 1 : 2`, `x = y ? z ? 1 : 2 : w`,
	`x = y || z && w`, `x = (y || z) && w`, `x = y z w`, `x = y (z w)`, `x = y - z - w`, `x = y - (z - w)`, `x = y ^ z ^ w`, `x = (y ^ z) ^ w`, `x = -y ^ z`, `x = (-y) ^ z`, `x = y ^ -z`, `x = !y ~ z`, `x = !(y ~ z)`,
	`x = y < z`, `x = (y < z) < w`, `x = 1 && y = 2`, `x = y ~ z = w`, `x = y " " -z`, `x = y -z`, `x = y - -z`, `x = y--  - --z`, `x = y++ + ++z`, `x = y++ ++z`, `x = - -y`, `x = -(-y)`, `x = + +y`, `x = - +y`, `x = ! !y`, `x = !-y`,
	`x = - --y`, `x = + ++y`, `x = - ++y`, `x = -y--`, `x = 1 - -1`, `x = 1 - - -1`, `x = a[1]++ + ++a[2]`, `x = y % z * w / v`, `x = y / z / w`, `x = y / (z / w)`, `x = y " " z > w`, `g(1, 2)`, `x = g(g(1, 2), a[1])`, `h()`, `;`, `{ }`,
	`next`, `nextfile`, `return`, `return x`, `return x + 1`, `return (x)`, `break`, `continue`,
}

// c20Compound builds the compound statements around bodies b1, b2 (source
// texts of statements or "{...}" / ";" bodies).
func c20Compound(b1, b2 string) []string {
	sep := func(b string) string { // text between a body and a following else/while
		if strings.HasSuffix(b, "}") || b == ";" {
			return " "
		}
		return "; "
	}
	return []string{
		"if (x) " + b1,
		"if (x < 1) " + b1 + sep(b1) + "else " + b2,
		"if (x) " + b1 + sep(b1) + "else if (y) " + b2,
		"if (x) if (y) " + b1 + sep(b1) + "else " + b2,
		"if (x) { if (y) " + b1 + " } else " + b2,
		"if (x) " + b1 + sep(b1) + "else { if (y) " + b2 + "; z = 1 }",
		"if (x) " + b1 + sep(b1) + "else { if (y) " + b2 + sep(b2) + "else " + b1 + "; z = 1 }",
		"if (x) " + b1 + sep(b1) + "else { z = 1; if (y) " + b2 + " }",
		"if (x) " + b1 + sep(b1) + "else { if (y) " + b2 + " }",
		"while (x) " + b1,
		"while ((getline y) > 0) " + b1,
		"do " + b1 + sep(b1) + "while (x)",
		"for (;;) " + b1,
		"for (i = 0;;) " + b1,
		"for (; i < 3;) " + b1,
		"for (;; i++) " + b1,
		"for (i = 0; i < 3; i++) " + b1,
		"for (print x; y; print z > \"f\") " + b1,
		"for (delete a; (k in a); delete a[1]) " + b1,
		"for (k in a) " + b1,
		"for ((k in a);;) " + b1,
		"{ " + b1 + sep(b1) + b2 + " }",
		"{ " + b1 + "\n" + b2 + "\n}",
	}
}

func (k *c20Checker) statements() {
	c := k.c
	const defs = "\nfunction g(p, q) { return p q }\nfunction h() { }"
	inFunc := func(s string) string { return "function w(p, q) { while (q) { " + s + " } }" + defs }
	emit := func(s string) {
		k.try(inFunc(s), "statements")
		if !strings.Contains(s, "break") && !strings.Contains(s, "continue") && !strings.Contains(s, "return") {
			k.try("x { "+s+" }"+defs, "statements")
			k.try("{ "+s+" }\nEND { "+s+" }"+defs, "statements")
			if !strings.Contains(s, "next") {
				k.try("BEGIN { "+s+" }"+defs, "statements")
			}
		}
	}
	// level 0
	for _, s := range c20Simple {
		if !k.mine() {
			continue
		}
		emit(s)
		emit(s + "; " + s)
		emit(s + "\n" + s)
	}
	// level 1: every compound form x body options
	reps := []string{`x = 1`, `print x > "f"`, `getline`, `"c" | getline x`, `x = - -y`, `break`, `next`, `return x`, `x++`}
	var bodies []string
	bodies = append(bodies, ";", "{}", "{ }")
	for _, r := range reps {
		bodies = append(bodies, r, "{ "+r+" }", "{ "+r+"; "+r+" }")
	}
	var level1 []string
	for _, b1 := range bodies {
		for _, b2 := range bodies {
			if !k.mine() {
				continue
			}
			if c.Expired() {
				return
			}
			for _, s := range c20Compound(b1, b2) {
				emit(s)
			}
		}
	}
	// level 2: compound in compound (a reduced body set inside)
	inner := []string{";", "{ }", `x = 1`, `{ print x > "f"; break }`, `getline`}
	for _, b1 := range inner {
		for _, b2 := range inner {
			level1 = append(level1, c20Compound(b1, b2)...)
		}
	}
	outerOther := []string{";", "{ }", `x = 1`, `{ y = 2; next }`}
	for _, l1 := range level1 {
		if !k.mine() {
			continue
		}
		if c.Expired() {
			return
		}
		for _, o := range outerOther {
			for _, s := range c20Compound(l1, o) {
				emit(s)
			}
			if k.thorough {
				for _, s := range c20Compound(o, l1) {
					emit(s)
				}
			}
		}
	}
	// whole programs: item forms
	items := []string{
		``, `BEGIN { }`, `BEGIN { x = 1 }`, `END { }`, `END { print NR }`, `{ }`, `{ print }`, `x`, `x { }`, `x { print }`, `/r/`, `!/r/ { print }`, `x, y`, `x, y { }`, `/a/, /b/ { print }`, `(x), (y)`,
		`x == 1, y == 2 { print }`, `x ? y : z`, `x ? y : z { print }`, `x in a`, `(x, y) in a { print }`, `x = 1`, `x++ { print }`, `$1 > 2`, `$1 > 2 { print > "f" }`, `(getline y) > 0`, `"c" | getline`,
		`function f0() { }`, `function f1(p) { return p }`, `function f2(p, q) { p[q] = 1 }`, `function f3(p, q, r) { r = p q; return r }`, `function f4(p) { f4(p - 1) }`,
		`BEGIN { x = 1 } BEGIN { y = 2 }`, `END { x = 1 } END { y = 2 }`, `BEGIN { getline; print }`, `# comment` + "\n" + `BEGIN { x = 1 # c` + "\n" + `}`, "BEGIN { x = 1 + \\\n 2 }", "BEGIN { x = 1 ;;; y = 2 }",
		"BEGIN {\n\n x = 1\n\n\n y = 2\n}\n\n\n", "BEGIN { if (x) \n\n y = 1 \n\n else \n\n z = 2 }", "BEGIN { x = y ||\n z &&\n w }", "BEGIN { f5(1,\n 2) }\nfunction f5(p,\n q) { }", "BEGIN { do\n x++\n while (x < 3) }",
	}
	for i, a := range items {
		for j, b := range items {
			if !k.mine() {
				continue
			}
			if i == 0 && j == 0 {
				continue
			}
			if a == b && strings.HasPrefix(a, "function") {
				continue
			}
			k.try(a+"\n"+b, "programs")
			k.try(a+";"+b, "programs")
		}
	}
}

func c20Run(c *core.Ctx) {
	k := &c20Checker{c: c, c04Sharder: c04NewSharder(c)}
	c20RunWith(k)
	k.finish()
}

func c20RunWith(k *c20Checker) {
	debug.SetGCPercent(400)
	k.numbers()
	k.stringsFamily()
	k.regexFamily()
	k.statements()
	k.printLists()
	k.adjacency()
	k.exprTrees()
}

func c20Replay(c *core.Ctx, raw json.RawMessage) {
	var cs c20Case
	if err := json.Unmarshal(raw, &cs); err != nil {
		panic(err)
	}
	var agg c04Aggregate
	if json.Unmarshal(raw, &agg) == nil && agg.Aggregate {
		k := &c20Checker{c: c, c04Sharder: c04ReplaySharder(c, agg)}
		c20RunWith(k)
		k.finish()
		return
	}
	k := &c20Checker{c: c, c04Sharder: c04NewSharder(c)}
	k.try(cs.Src, cs.Family)
}

func init() {
	core.Register(&core.Check{
		ID:    "C20",
		Level: "model_checking",
		Rule: "bounded-exhaustive enumeration of program sources; each accepted source is parsed, printed (Program.String), re-parsed and re-printed. Sources: " +
			"(A) C04's expression trees (all trees with <= 3 operator nodes over the 34 operators, leaf typings and statement contexts as in C04; spellings: fully parenthesised, table-minimal, bracketed, bare-prefix, bare-assignment); " +
			"(B1) every chain of <= 3 [thorough 4] prefix operators {- + ! ++ -- $} x 4 operands x {none, ++, --} x 10 left contexts x 12 right contexts (operators that could fuse: - -x, - --x, x - -y, x-- - y, a / b / c, a ~ /=/, ! x ~ y); " +
			"(B2) every byte value (alone, before/after a hex digit, doubled, after a truncated UTF-8 lead byte), every backslash escape of a printable character, 15 non-printable/astral runes x 6 tails, and every string literal of <= 3 [4] symbols over a 20-symbol alphabet (\", \\\\, /, NUL, \\n, \\t, DEL, 0xff, e-acute, U+00A0, U+2028, U+E0001, a b 0 7 U u x, space); " +
			"(B3) every regex literal of <= 3 [4] pieces over 13 pieces (\\/ \\\\ = \\. [\\/] \" ...) in 14 contexts; (B4) 51 numeric literals x 9 contexts; " +
			"(B6) parenthesised print/printf lists: 30 expressions (comparisons with >, cmd | getline as the leftmost operand of concatenation / arithmetic, ?: with > in a branch, cmd | getline, assignments of comparisons, calls and subscripts containing >) alone, in all ordered pairs and in triples x 4 redirections; " +
			"(B5) 230 simple statements, 19 compound forms x 30 x 30 bodies, compound-in-compound over reduced bodies, in function/action/BEGIN/END containers; 43 x 43 x 2 item sequences. " +
			"A state is one accepted source, a transition one source tried; distinct = distinct printed texts. At most 20 violations per signature and worker are stored individually; all failing cases of a signature are folded into one aggregate violation (count + digest) per worker, replayable by re-running that shard",
		Assumptions: []string{
			"trees are compared without grouping nodes, numbers at 6 significant digits, `else {}` like no else (vexp.CanonOpts{NumSig6, EmptyElseNil})",
			"sources the parser rejects are outside the property (counted as not_accepted)",
			"a parser panic on the original source is C03's business and is skipped here; a panic on the printed text is reported",
		},
		Run:         c20Run,
		Replay:      c20Replay,
		QuickBudget: 600, ThoroughBudget: 3600,
	})
}

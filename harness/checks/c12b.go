package checks

import (
	"encoding/json"
	"fmt"
	"os"
	"path/filepath"
	"sort"
	"strings"

	"github.com/benhoyt/goawk/interp"
	"github.com/benhoyt/goawk/vexp"

	"verifharness/awk"
	"verifharness/core"
)

// C12 part 2 — path spellings: the confinement must not depend on how a file
// name is spelled. Every file-touching form x every spelling of the same target
// (relative, ./, absolute, through /dev/.., through a subdirectory and back,
// doubled slashes, /dev/shm) x the 8 flag combinations x custom OpenFile on/off.
// Model-free invariants only: with NoFileWrites no write-mode open and an
// unchanged directory; with NoFileReads no read-mode open; the denied attempt
// ends the run with an error. (Added after a seeded change that exempted names
// starting with "/dev/" from the NoFileWrites check went unnoticed.)

type c12bCase struct {
	Part     string `json:"part"`
	Form     string `json:"form"`
	Spelling string `json:"spelling"`
	Flags    int    `json:"flags"`
	Wrap     bool   `json:"custom_openfile"`
}

var c12bForms = []struct{ name, class, tmpl string }{
	{"print>", "W", `BEGIN { print "x" > @N@; print "after" }`},
	{"print>>", "W", `BEGIN { print "x" >> @N@; print "after" }`},
	{"printf>", "W", `BEGIN { printf "x" > @N@; print "after" }`},
	{"print>-in-function", "W", `function w(n) { print "x" > n } BEGIN { w(@N@); print "after" }`},
	{"print>-from-field", "W", `{ n = @N@; print $1 > n; close(n); print "x" >> n } END { print "after" }`},
	{"getline<", "R", `BEGIN { r = (getline < @N@); print "after", r }`},
	{"getline-v<", "R", `BEGIN { r = (getline v < @N@); print "after", r }`},
	{"getline<-loop", "R", `BEGIN { while ((getline line < @N@) > 0) n++; print "after", n }`},
}

func c12bSpellings(dir string) [][2]string {
	abs := dir
	base := filepath.Base(dir)
	parent := filepath.Dir(dir)
	return [][2]string{
		{"relative", `"t1"`},
		{"dot-slash", `"./t1"`},
		{"absolute", `"` + abs + `/t1"`},
		{"through-dev-dotdot", `"/dev/.." "` + abs + `/t1"`},
		{"through-dev-null-dotdot", `"/dev/null/../.." "` + abs + `/t1"`},
		{"up-and-down", `"../` + base + `/t1"`},
		{"double-slash", `"` + parent + `//` + base + `//t1"`},
		{"sub-and-back", `"sub/../t1"`},
		{"computed-dev-prefix", `("/de" "v/../" substr("` + abs + `", 2) "/t1")`},
		{"dev-shm-dotdot", `"/dev/shm/../.." "` + abs + `/t1"`},
	}
}

func c12bRun(c *core.Ctx) {
	wd, _ := os.Getwd()
	dir := filepath.Join(wd, fmt.Sprintf("c12b-%d", c.Shard))
	os.MkdirAll(filepath.Join(dir, "sub"), 0o755)
	defer os.RemoveAll(dir)
	old, _ := os.Getwd()
	os.Chdir(dir)
	defer os.Chdir(old)
	for _, f := range c12bForms {
		for _, sp := range c12bSpellings(dir) {
			for flags := 0; flags < 8; flags++ {
				for _, wrap := range []bool{false, true} {
					if !c.Mine() {
						continue
					}
					c12bOne(c, dir, c12bCase{Part: "spelling", Form: f.name, Spelling: sp[0], Flags: flags, Wrap: wrap})
				}
			}
		}
	}
}

// ---- part 3: NoArgVars x operands shaped like var=value ----
//
// With NoArgVars an operand "k=v" is a FILE NAME: under NoFileReads it may not
// be opened (by the main loop or by plain getline), without NoFileReads it is
// read like any file; without NoArgVars it is an assignment and nothing is
// opened. Every flag combination x both reading forms x operand position.

type c12cCase struct {
	Part      string   `json:"part"`
	Prog      int      `json:"prog"`
	Args      []string `json:"args"`
	Flags     int      `json:"flags"`
	NoArgVars bool     `json:"no_arg_vars"`
	Wrap      bool     `json:"custom_openfile"`
}

var c12cProgs = []string{
	`{ print "R:" FILENAME ":" $0 } END { print "E", k }`,
	`BEGIN { while ((getline line) > 0) print "G:" FILENAME ":" line; print "E", k }`,
	`BEGIN { if ((getline) > 0) print "H:" $0 } { print "R:" $0 } END { print "E", k }`,
}

func c12cRun(c *core.Ctx) {
	wd, _ := os.Getwd()
	dir := filepath.Join(wd, fmt.Sprintf("c12c-%d", c.Shard))
	os.MkdirAll(dir, 0o755)
	defer os.RemoveAll(dir)
	old, _ := os.Getwd()
	os.Chdir(dir)
	defer os.Chdir(old)
	argLists := [][]string{{"k=v"}, {"plain", "k=v"}, {"k=v", "plain"}, {"-", "k=v"}, {"k=secret=2"}}
	for pi := range c12cProgs {
		for _, args := range argLists {
			for flags := 0; flags < 8; flags++ {
				for _, nav := range []bool{false, true} {
					for _, wrap := range []bool{false, true} {
						if !c.Mine() {
							continue
						}
						c12cOne(c, dir, c12cCase{Part: "argvars", Prog: pi, Args: args, Flags: flags, NoArgVars: nav, Wrap: wrap})
					}
				}
			}
		}
	}
}

func c12cOne(c *core.Ctx, dir string, cs c12cCase) {
	os.WriteFile(filepath.Join(dir, "k=v"), []byte("SECRET1\n"), 0o644)
	os.WriteFile(filepath.Join(dir, "k=secret=2"), []byte("SECRET2\n"), 0o644)
	os.WriteFile(filepath.Join(dir, "plain"), []byte("plain1\n"), 0o644)
	prog := awk.MustParse(c12cProgs[cs.Prog], nil)
	var opened []string
	vexp.SetOsFn(func(ev vexp.OsEvent) { opened = append(opened, ev.Name) })
	defer vexp.SetOsFn(nil)
	cfg := &interp.Config{Stdin: strings.NewReader("stdin1\n"), Args: cs.Args, NoArgVars: cs.NoArgVars,
		NoExec: cs.Flags&1 != 0, NoFileWrites: cs.Flags&2 != 0, NoFileReads: cs.Flags&4 != 0}
	if cs.Wrap {
		cfg.OpenFile = func(name string, flag int, perm os.FileMode) (*os.File, error) {
			opened = append(opened, name)
			return os.OpenFile(name, flag, perm)
		}
	}
	res := awk.Exec(prog, cfg)
	c.Eval(1)
	c.Add("transitions", 1)
	c.Outcome(fmt.Sprintf("argvars %d %v %d %v err=%v out=%q", cs.Prog, cs.Args, cs.Flags, cs.NoArgVars, res.Err != nil, res.Out))
	sig := func(s string) string { return fmt.Sprintf("argvars:%s:prog=%d:noargvars=%v", s, cs.Prog, cs.NoArgVars) }
	if res.Panic != "" {
		c.Fail(sig("panic"), cs, firstLine(res.Panic))
		return
	}
	secretOpened := false
	for _, n := range opened {
		if strings.HasPrefix(filepath.Base(n), "k=") {
			secretOpened = true
		}
	}
	leaked := strings.Contains(res.Out, "SECRET")
	switch {
	case !cs.NoArgVars:
		// assignments: never a file
		if secretOpened || leaked {
			c.Fail(sig("assignment-operand-opened-as-file"), cs, fmt.Sprintf("opened=%q out=%q", opened, res.Out))
		}
	case cfg.NoFileReads:
		if secretOpened || leaked {
			c.Fail(sig("file-operand-read-under-NoFileReads"), cs, fmt.Sprintf("opened=%q out=%q err=%v", opened, res.Out, res.Err))
		} else if res.Err == nil && cs.Prog == 0 {
			c.Fail(sig("denied-read-did-not-end-run-with-error"), cs, "out="+res.Out)
		}
	default:
		// NoArgVars without NoFileReads: the operand is read like any file
		if !leaked || res.Err != nil {
			c.Fail(sig("file-operand-not-read"), cs, fmt.Sprintf("out=%q err=%v", res.Out, res.Err))
		}
	}
}

func c12bSnapshot(dir string) string {
	var parts []string
	filepath.Walk(dir, func(p string, info os.FileInfo, err error) error {
		if err != nil || info.IsDir() {
			return nil
		}
		b, _ := os.ReadFile(p)
		parts = append(parts, strings.TrimPrefix(p, dir)+"="+string(b))
		return nil
	})
	sort.Strings(parts)
	return strings.Join(parts, ";")
}

func c12bOne(c *core.Ctx, dir string, cs c12bCase) {
	var form struct{ name, class, tmpl string }
	for _, f := range c12bForms {
		if f.name == cs.Form {
			form = f
		}
	}
	expr := ""
	for _, sp := range c12bSpellings(dir) {
		if sp[0] == cs.Spelling {
			expr = sp[1]
		}
	}
	if form.name == "" || expr == "" {
		return
	}
	os.WriteFile(filepath.Join(dir, "t1"), []byte("old1\nold2\n"), 0o644)
	before := c12bSnapshot(dir)
	src := strings.ReplaceAll(form.tmpl, "@N@", expr)
	prog := awk.MustParse(src, nil)
	var writes, reads []string
	rec := func(name string, flag int) {
		if flag&(os.O_WRONLY|os.O_RDWR|os.O_CREATE|os.O_TRUNC|os.O_APPEND) != 0 {
			writes = append(writes, name)
		} else {
			reads = append(reads, name)
		}
	}
	vexp.SetOsFn(func(ev vexp.OsEvent) { rec(ev.Name, ev.Flag) })
	defer vexp.SetOsFn(nil)
	cfg := &interp.Config{Stdin: strings.NewReader("rec1\n"), NoExec: cs.Flags&1 != 0, NoFileWrites: cs.Flags&2 != 0, NoFileReads: cs.Flags&4 != 0}
	if cs.Wrap {
		cfg.OpenFile = func(name string, flag int, perm os.FileMode) (*os.File, error) {
			rec(name, flag)
			return os.OpenFile(name, flag, perm)
		}
	}
	res := awk.Exec(prog, cfg)
	c.Eval(1)
	c.Add("transitions", 1)
	after := c12bSnapshot(dir)
	c.Outcome(fmt.Sprintf("%s %s %d err=%v changed=%v", cs.Form, cs.Spelling, cs.Flags, res.Err != nil, before != after))
	sig := func(s string) string { return "spelling:" + s + ":form=" + cs.Form + ":spelling=" + cs.Spelling }
	if res.Panic != "" {
		c.Fail(sig("panic"), cs, firstLine(res.Panic))
		return
	}
	if cfg.NoFileWrites && form.class == "W" {
		switch {
		case len(writes) > 0:
			c.Fail(sig("file-opened-for-writing-under-NoFileWrites"), cs, fmt.Sprintf("opened %q; err=%v", writes, res.Err))
		case before != after:
			c.Fail(sig("directory-changed-under-NoFileWrites"), cs, after)
		case res.Err == nil:
			c.Fail(sig("denied-write-did-not-end-run-with-error"), cs, "out="+res.Out)
		}
	}
	if cfg.NoFileReads && form.class == "R" {
		switch {
		case len(reads) > 0:
			c.Fail(sig("file-opened-for-reading-under-NoFileReads"), cs, fmt.Sprintf("opened %q; err=%v", reads, res.Err))
		case res.Err == nil:
			c.Fail(sig("denied-read-did-not-end-run-with-error"), cs, "out="+res.Out)
		}
	}
}

func c12bReplay(c *core.Ctx, raw json.RawMessage) bool {
	var cc c12cCase
	if json.Unmarshal(raw, &cc) == nil && cc.Part == "argvars" {
		wd, _ := os.Getwd()
		dir := filepath.Join(wd, "c12c-replay")
		os.MkdirAll(dir, 0o755)
		defer os.RemoveAll(dir)
		old, _ := os.Getwd()
		os.Chdir(dir)
		defer os.Chdir(old)
		c12cOne(c, dir, cc)
		return true
	}
	var cs c12bCase
	if json.Unmarshal(raw, &cs) != nil || cs.Part != "spelling" {
		return false
	}
	wd, _ := os.Getwd()
	dir := filepath.Join(wd, "c12b-replay")
	os.MkdirAll(filepath.Join(dir, "sub"), 0o755)
	defer os.RemoveAll(dir)
	old, _ := os.Getwd()
	os.Chdir(dir)
	defer os.Chdir(old)
	c12bOne(c, dir, cs)
	return true
}

package checks

import (
	"bytes"
	"encoding/json"
	"fmt"
	"os"
	"os/exec"
	"sort"
	"strings"

	"github.com/benhoyt/goawk/interp"
	"github.com/benhoyt/goawk/parser"
	"github.com/benhoyt/goawk/vexp"

	"verifharness/awk"
	"verifharness/core"
	"verifharness/corpus"
	"verifharness/progenum"
	"verifharness/sched"
)

// C19 — deterministic parsing, immutable and shareable Program (shapes D + S).

// ---------------------------------------------------------------- fingerprint

func c19Fingerprint(p *parser.Program) string {
	var b strings.Builder
	c := p.Compiled
	fmt.Fprintf(&b, "begin=%v\n", c.Begin)
	for i, a := range c.Actions {
		fmt.Fprintf(&b, "action%d pattern=%v body=%v\n", i, a.Pattern, a.Body)
	}
	fmt.Fprintf(&b, "end=%v\n", c.End)
	for i, f := range c.Functions {
		fmt.Fprintf(&b, "func%d %s params=%v arrays=%v ns=%d na=%d body=%v\n", i, f.Name, f.Params, f.Arrays, f.NumScalars, f.NumArrays, f.Body)
	}
	fmt.Fprintf(&b, "nums=%v\nstrs=%q\n", c.Nums, c.Strs)
	for _, re := range c.Regexes {
		fmt.Fprintf(&b, "re=%q\n", re.String())
	}
	b.WriteString("source:\n" + p.String() + "\n")
	return b.String()
}

func c19Disasm(p *parser.Program) string {
	var b bytes.Buffer
	if err := p.Disassemble(&b); err != nil {
		return "disassemble error: " + err.Error()
	}
	return b.String()
}

func c19Types(src string, funcs map[string]any) string {
	var b bytes.Buffer
	parser.ParseProgram([]byte(src), &parser.ParserConfig{DebugTypes: true, DebugWriter: &b, Funcs: funcs})
	return b.String()
}

type c19ParseObs struct {
	ok      bool
	errText string
	fp      string
	disasm  string
	panicS  string
}

func c19Parse(src string, funcs map[string]any) c19ParseObs {
	prog, err, pn := awk.Parse(src, funcs)
	if pn != "" {
		return c19ParseObs{panicS: firstLine(pn)}
	}
	if err != nil {
		return c19ParseObs{errText: err.Error()}
	}
	return c19ParseObs{ok: true, fp: c19Fingerprint(prog), disasm: c19Disasm(prog)}
}

// ---------------------------------------------------------------- (1) map orders

// permutation menu for a site execution with n keys (index 0 = sorted order)
func c19Perms(n int) [][]int {
	id := make([]int, n)
	for i := range id {
		id[i] = i
	}
	out := [][]int{id}
	seen := map[string]bool{fmt.Sprint(id): true}
	add := func(p []int) {
		k := fmt.Sprint(p)
		if !seen[k] {
			seen[k] = true
			out = append(out, p)
		}
	}
	if n <= 3 {
		var rec func(cur []int, used []bool)
		rec = func(cur []int, used []bool) {
			if len(cur) == n {
				add(append([]int{}, cur...))
				return
			}
			for i := 0; i < n; i++ {
				if !used[i] {
					used[i] = true
					rec(append(cur, i), used)
					used[i] = false
				}
			}
		}
		rec(nil, make([]bool, n))
		return out
	}
	rev := make([]int, n)
	for i := range rev {
		rev[i] = n - 1 - i
	}
	add(rev)
	for r := 1; r < n; r++ {
		p := make([]int, n)
		for i := range p {
			p[i] = (i + r) % n
		}
		add(p)
	}
	for i := 0; i+1 < n; i++ {
		p := append([]int{}, id...)
		p[i], p[i+1] = p[i+1], p[i]
		add(p)
	}
	return out
}

type c19Prog struct {
	Name  string
	Src   string
	Funcs []string // names of native functions to supply
}

func c19Natives(names []string) map[string]any {
	if len(names) == 0 {
		return nil
	}
	m := map[string]any{}
	for _, n := range names {
		m[n] = func(x float64) float64 { return x + 1 }
	}
	return m
}

func c19Programs(thorough bool) []c19Prog {
	var out []c19Prog
	errFuncs := []string{
		"function f1(a) { a[1] = 1; a = 2 }",
		"function f2(b) { b = 1; b[2] = 2 }",
		"function f3(c) { c[1]; return c + 1 }",
		"function f4(d) { split(\"x\", d); d++ }",
	}
	errMain := []string{
		"BEGIN { x[1] = 1; x = 2 }",
		"BEGIN { y = 1; y[1] = 2 }",
		"BEGIN { nosuch(1) }",
		"BEGIN { f1(1, 2) }",
		"{ z[NR] = $0; print z }",
	}
	// every subset of 2..3 independent errors among the function errors + one main error
	items := append(append([]string{}, errFuncs...), errMain...)
	n := len(items)
	for mask := 1; mask < 1<<n; mask++ {
		cnt := 0
		var parts []string
		for i := 0; i < n; i++ {
			if mask&(1<<i) != 0 {
				cnt++
				parts = append(parts, items[i])
			}
		}
		if cnt < 2 || cnt > 3 {
			continue
		}
		out = append(out, c19Prog{Name: fmt.Sprintf("errors/%03x", mask), Src: strings.Join(parts, "\n")})
	}
	// the same function errors reached through calls (the topological sort decides the order they are seen in)
	calls := []string{"f1(u1)", "f2(u2)", "f3(u3)", "f4(u4)"}
	for mask := 1; mask < 1<<len(errFuncs); mask++ {
		var defs, cs, rev []string
		for i := range errFuncs {
			if mask&(1<<i) != 0 {
				defs = append(defs, errFuncs[i])
				cs = append(cs, calls[i])
				rev = append([]string{calls[i]}, rev...)
			}
		}
		if len(defs) < 2 {
			continue
		}
		out = append(out, c19Prog{Name: fmt.Sprintf("errors-called/%x", mask), Src: strings.Join(defs, "\n") + "\nfunction top() { " + strings.Join(cs, "; ") + " }\nBEGIN { top() }"})
		out = append(out, c19Prog{Name: fmt.Sprintf("errors-called-rev/%x", mask), Src: "function top() { " + strings.Join(rev, "; ") + " }\n" + strings.Join(defs, "\n") + "\nfunction mid() { top(); " + cs[0] + " }\nBEGIN { mid() }"})
	}
	// several errors of a kind the parser itself collects in a map before reporting the first
	for i, src := range []string{
		"BEGIN {\n  x = (1,2)\n  y = (3,4)\n}",
		"BEGIN {\n      x = (1,2)\n  y = (3,4)\n z = (5,6)\n}",
		"BEGIN { x = (1,2)\n}\nEND { y = (3,4); z = (5,6) }",
		"BEGIN {\n  x = (1,2); w = (7,8)\n    y = (3,4)\n v = (9,0)\n}",
		"function f(a) {\n    return (a,1)\n}\nBEGIN {\n  x = (1,2)\n}",
	} {
		out = append(out, c19Prog{Name: fmt.Sprintf("errors-multiexpr/%d", i), Src: src})
	}
	valid := []string{
		"function a(x) { return b(x) } function b(y) { return c(y) } function c(z) { z[1] = 1; return length(z) } BEGIN { print a(arr), arr[1] }",
		"function a(x) { return b(x) + c(x) } function b(y) { return d(y) } function c(y) { return d(y) } function d(z) { z[\"k\"]++; return z[\"k\"] } BEGIN { print a(g); print g[\"k\"] }",
		"function even(n, t) { t[n] = 1; return n == 0 ? 1 : odd(n - 1, t) } function odd(n, t) { t[n] = 2; return n == 0 ? 0 : even(n - 1, t) } BEGIN { print even(4, tr), length(tr) }",
		"function f1(a) { if (0) f5(z1); f2(a) } function f2(b) { if (0) f4(z2); f3(b) } function f3(c) { if (0) f3(z3); f4(c) } function f4(d) { if (0) f2(z4); f5(d) } function f5(i) { if (0) f1(z5); i[1] = 42 } BEGIN { x[1] = 3; f5(x); print x[1] }",
		"function f1(A) {} function f2(x, A) { x[0]; f1(a); f2(a) } BEGIN { }",
		"function unused1(p) { return p } function unused2(q) { q[1] } function used(r) { return r * 2 } BEGIN { print used(21) }",
		"function g(a, b, c) { a[1] = b; return c } BEGIN { zz = 1; yy = 2; xx[1]; print g(xx, yy, zz), ww, vv[1], length(uu) }",
		"function p(a) { q(a) } function q(a) { r(a) } function r(a) { s(a) } function s(a) { a[1] } BEGIN { p(m1); p(m2); q(m3) } END { for (k in m1) print k }",
		"BEGIN { m = 1; l[1]; k = 2; j[2]; i = 3; h[3]; print m, k, i, length(l) + length(j) + length(h) } function zf() { return 1 } function af() { return zf() }",
		"/re1/ { n1++ } /re2/ { n2++ } $1 ~ \"dyn\" { n3++ } END { print n1, n2, n3, 1.5, 2.5, \"s1\", \"s2\", /re1/ ? 1 : 0 }",
	}
	for i, v := range valid {
		out = append(out, c19Prog{Name: fmt.Sprintf("valid/%d", i), Src: v})
	}
	natives := [][]string{{"nf1", "nf2", "nf3"}, {"zeta", "alpha", "mid"}, {"f"}}
	nativeSrcs := []string{
		"function aw1(x) { return nf1(x) + 1 } function aw2(y) { return aw1(y) * nf2(y) } BEGIN { print aw2(nf3(1)) }",
		"function mid(x) { return x * 2 } function other(y) { return zeta(y) + alpha(y) + mid(y) } BEGIN { print other(1) }",
		"function g(x) { return f(x) } function h(x) { return g(x) + f(x) } BEGIN { print h(2) }",
		"BEGIN { print nf1(1), nf2(2), nf3(3) }",
		"function aw1(a) { a[1]; return nf1(a) } BEGIN { }",
	}
	for i, s := range nativeSrcs {
		for j, nf := range natives {
			out = append(out, c19Prog{Name: fmt.Sprintf("native/%d-%d", i, j), Src: s, Funcs: nf})
		}
	}
	// native function names that only an exact, total order keeps apart (case-only differences, prefixes, '_' vs digits)
	for i, e := range []struct {
		names []string
		src   string
	}{
		{[]string{"max", "Max", "MAX"}, "BEGIN { print max(1), Max(2), MAX(3) }"},
		{[]string{"a", "aa", "a_", "A"}, "function w(x) { return a(x) + aa(x) } BEGIN { print w(1), a_(2), A(3) }"},
		{[]string{"f1", "f_1", "F1", "f10"}, "BEGIN { print f1(1) f_1(2) F1(3) f10(4) }"},
		{[]string{"Len", "len", "lEn"}, "function len2(x) { return len(x) + Len(x) } BEGIN { print len2(1), lEn(2) }"},
	} {
		out = append(out, c19Prog{Name: fmt.Sprintf("native-names/%d", i), Src: e.src, Funcs: e.names})
	}
	// the repository's own sources (error cases and valid ones) that define or call functions, or use several globals
	srcs := corpus.AllSources("/repo")
	limit := 150
	if thorough {
		limit = 100000
	}
	k := 0
	for _, s := range srcs {
		if !strings.Contains(s, "function") && !thorough {
			continue
		}
		if len(s) > 1500 {
			continue
		}
		out = append(out, c19Prog{Name: fmt.Sprintf("corpus/%d", k), Src: s})
		k++
		if k >= limit {
			break
		}
	}
	return out
}

type c19Case struct {
	Part    string   `json:"part"`
	Name    string   `json:"name"`
	Src     string   `json:"src"`
	Funcs   []string `json:"funcs,omitempty"`
	Choices []int    `json:"choices,omitempty"`
	Input   string   `json:"input,omitempty"`
	N       int      `json:"n,omitempty"`
}

func c19ParseWithOrder(ch *sched.Chooser, p c19Prog, sites map[string]int) c19ParseObs {
	vexp.SetPermFn(func(site string, n int) []int {
		if !strings.HasPrefix(site, "internal/") && !strings.HasPrefix(site, "parser/") {
			return nil
		}
		perms := c19Perms(n)
		if sites != nil {
			sites[site]++
		}
		return perms[ch.Choose(len(perms), 1, 'e')]
	})
	defer vexp.SetPermFn(nil)
	return c19Parse(p.Src, c19Natives(p.Funcs))
}

func c19MapOrders(c *core.Ctx) {
	bound := 1
	if c.Thorough() {
		bound = 2
	}
	sites := map[string]int{}
	for _, p := range c19Programs(c.Thorough()) {
		if !c.Mine() || c.Expired() {
			continue
		}
		c.Add("states", 1)
		ref := c19ParseWithOrder(sched.NewChooser(nil), p, nil)
		if ref.panicS != "" {
			// parser totality is C03's business; only determinism is checked here
			c.Add("parse_panics_skipped", 1)
			continue
		}
		reported := map[string]bool{}
		maxExec := int64(4000)
		st := sched.Explore(bound, maxExec, nil, func(ch *sched.Chooser) {
			o := c19ParseWithOrder(ch, p, sites)
			cs := c19Case{Part: "maporder", Name: p.Name, Src: p.Src, Funcs: p.Funcs, Choices: ch.Choices()}
			fail := func(sig, d string) {
				if !reported[sig] {
					reported[sig] = true
					c.Fail(sig, cs, d)
				}
			}
			c.Outcome(p.Name + "|" + o.errText + "|" + o.fp + o.disasm)
			switch {
			case o.panicS != "":
				fail("maporder:panic", o.panicS)
			case o.ok != ref.ok:
				fail("maporder:verdict", fmt.Sprintf("sorted order: ok=%v (%s); this order: ok=%v (%s)", ref.ok, ref.errText, o.ok, o.errText))
			case o.errText != ref.errText:
				fail("maporder:error-message-or-position", fmt.Sprintf("sorted order: %q; this order: %q", ref.errText, o.errText))
			case o.fp != ref.fp:
				fail("maporder:compiled-program", "compiled code/constants/function table differ from the sorted-order parse: "+c19FirstDiff(ref.fp, o.fp))
			case o.disasm != ref.disasm:
				fail("maporder:disassembly", c19FirstDiff(ref.disasm, o.disasm))
			}
		})
		c.Eval(st.Executions)
		c.Add("transitions", st.Executions)
		if st.Capped {
			c.Cap("map-order executions capped at 4000 per program")
		}
		if st.ReplayError != nil {
			panic("C19 replay divergence: " + st.ReplayError.Error())
		}
		if c.Shard == 0 {
			c.Sample(map[string]any{"part": "maporder", "program": p.Name, "src": trunc(p.Src, 200), "orders_explored": st.Executions})
		}
	}
	var names []string
	for s := range sites {
		names = append(names, s)
	}
	sort.Strings(names)
	c.Note("map_range_sites_exercised", strings.Join(names, ","))
}

func c19FirstDiff(a, b string) string {
	la, lb := strings.Split(a, "\n"), strings.Split(b, "\n")
	for i := 0; i < len(la) && i < len(lb); i++ {
		if la[i] != lb[i] {
			return fmt.Sprintf("line %d: %q vs %q", i+1, trunc(la[i], 150), trunc(lb[i], 150))
		}
	}
	return fmt.Sprintf("lengths %d vs %d lines", len(la), len(lb))
}

// ---------------------------------------------------------------- (2) immutability

// c19ImmutableEval: deep dump of the Program and of every package-level
// variable around two rounds of executions (second round in the other order).
func c19ImmutableEval(c *core.Ctx, dir string, prog *parser.Program, cs c19Case) {
	before := c19Fingerprint(prog) + c19Disasm(prog) + "deep:\n" + vexp.DeepDump(prog)
	single := ""
	inputs := []string{"a b c\n", "1 2\n3 4\n5"}
	var globals [2]string
	for round := 0; round < 2; round++ {
		for i := range inputs {
			in := inputs[i]
			if round == 1 {
				in = inputs[len(inputs)-1-i] // other order: state left behind by the last run differs
			}
			o := runImpl(prog, in, nil, dir, usesFiles(cs.Src), 200000)
			c.Eval(1)
			c.Add("transitions", 1)
			if round == 0 {
				single += o.String() + "\n"
			} else {
				single = strings.Replace(single, o.String()+"\n", "", 1)
			}
		}
		globals[round] = vexp.DumpGlobals()
	}
	c.Add("states", 1)
	after := c19Fingerprint(prog) + c19Disasm(prog) + "deep:\n" + vexp.DeepDump(prog)
	if before != after {
		c.Fail("immutable:program-modified-by-execution", cs, c19FirstDiff(before, after))
	}
	if globals[0] != globals[1] {
		c.Fail("immutable:package-level-state-modified-by-execution", cs, c19FirstDiff(globals[0], globals[1]))
	}
	if single != "" {
		c.Fail("immutable:repeated-execution-differs", cs, "second execution of the same Program gave different results: "+trunc(single, 300))
	}
}

// c19Environ: with Config.Environ left nil the interpreter reads the process
// environment; a program that changes ENVIRON changes its own copy only, so the
// same Program gives the same result every time and nothing package-level is
// written.
func c19Environ(c *core.Ctx) {
	if !c.Mine() {
		return
	}
	src := `BEGIN { print ("C19X" in ENVIRON), ("PATH" in ENVIRON), (length(ENVIRON) > 0); ENVIRON["C19X"] = NR "v"; delete ENVIRON["PATH"]; ENVIRON["HOME"] = "/changed"; print ENVIRON["HOME"] }`
	prog := awk.MustParse(src, nil)
	cs := c19Case{Part: "environ", Name: "process-environment", Src: src}
	var outs []string
	var globals []string
	for i := 0; i < 3; i++ {
		var out bytes.Buffer
		st, err := interp.ExecProgram(prog, &interp.Config{Stdin: strings.NewReader(""), Output: &out, Error: &bytes.Buffer{}}) // Environ nil
		outs = append(outs, fmt.Sprintf("%q %d %v", out.String(), st, err))
		globals = append(globals, vexp.DumpGlobals())
		c.Eval(1)
		c.Add("transitions", 1)
	}
	c.Add("states", 1)
	c.Outcome("environ " + outs[0])
	if outs[1] != outs[0] || outs[2] != outs[0] {
		c.Fail("immutable:repeated-execution-differs", cs, fmt.Sprintf("executions of one Program with the process environment: %v", outs))
	}
	if globals[1] != globals[2] {
		c.Fail("immutable:package-level-state-modified-by-execution", cs, c19FirstDiff(globals[1], globals[2]))
	}
}

func c19Immutability(c *core.Ctx) {
	c19Environ(c)
	c19Configs(c)
	dir := c01Dir(c)
	f := func(pc progenum.Case) {
		if !c.Mine() || c.Expired() {
			return
		}
		prog, err, pn := awk.Parse(pc.Src, nil)
		if err != nil || pn != "" {
			return
		}
		c19ImmutableEval(c, dir, prog, c19Case{Part: "immutable", Name: pc.Family + "/" + pc.Name, Src: pc.Src})
		c.Outcome(pc.Name)
	}
	for _, sp := range c19SharePrograms {
		if sp.name != "native" {
			f(progenum.Case{Family: "share", Name: sp.name, Src: sp.src})
		}
	}
	for _, sp := range c19CmdPrograms {
		f(progenum.Case{Family: "share-cmd", Name: sp.name, Src: sp.src})
	}
	progenum.EnumMisc(c.Thorough(), f)
	progenum.EnumBuiltins(c.Thorough(), f)
	progenum.EnumCalls(c.Thorough(), f)
	progenum.EnumControl(c.Thorough(), f)
	if c.Thorough() {
		progenum.EnumLvalue(true, f)
	}
}

// ---------------------------------------------------------------- (2b) one Program under different configurations

// c19CfgPrograms use what depends on the configuration of an execution (field
// names of a CSV header, input / output modes, character mode, separators).
var c19CfgPrograms = []struct{ name, src string }{
	{"field-by-name", `{ print @"b" }`},
	{"field-by-name-two", `{ print @"b" "-" @"c"; n = "b"; print @n }`},
	{"field-by-name-func", `function g() { return @"c" } { print g(), @"b" } END { print @"b" }`},
	{"field-by-name-getline", `BEGIN { getline; print @"b"; getline; print @"b" @"c" }`},
	{"fields-array", `{ for (i = 1; i in FIELDS; i++) s = s FIELDS[i] ":"; print s, @"b" }`},
	{"modes-in-begin", `BEGIN { INPUTMODE = "csv header"; OUTPUTMODE = "tsv" } { print @"b", "x y" }`},
	{"rebuild-print", `{ $1 = $1; print; print $1, "x,y\tz" }`},
	{"chars", `{ print length($0), substr($0, 2, 2), index($0, "\303\251"), toupper($1); printf "%c%.2s|\n", $1, $1 }`},
	{"regex-fs-rs", `BEGIN { FS = "[,;]" } { print NF ":" $2; n += gsub(/[a-c]/, "&&") } END { print n }`},
	{"split-seps", `{ n = split($0, p); m = split($0, q, ","); print n, m, p[1], q[1] }`},
}

type c19ExecCfg struct {
	name  string
	stdin string
	mk    func() *interp.Config
}

func c19ExecCfgs() []c19ExecCfg {
	return []c19ExecCfg{
		{"csv-header-b-first", "b,c\n1,2\n3,4\n", func() *interp.Config {
			return &interp.Config{InputMode: interp.CSVMode, CSVInput: interp.CSVInputConfig{Header: true}}
		}},
		{"csv-header-b-second", "c,b\n5,6\n7,8\n", func() *interp.Config {
			return &interp.Config{InputMode: interp.CSVMode, CSVInput: interp.CSVInputConfig{Header: true}}
		}},
		{"csv-no-header", "7,8\n9,b\n", func() *interp.Config { return &interp.Config{InputMode: interp.CSVMode} }},
		{"tsv-header-csv-out", "a\tb\tc\n1\t2\t3 4\n", func() *interp.Config {
			return &interp.Config{InputMode: interp.TSVMode, CSVInput: interp.CSVInputConfig{Header: true}, OutputMode: interp.CSVMode}
		}},
		{"chars", "h\303\251 llo,b;c\n\303\251\n", func() *interp.Config { return &interp.Config{Chars: true} }},
		{"default", "h\303\251 llo,b;c\nb c\n", func() *interp.Config { return &interp.Config{} }},
		{"vars", "x-b-c\n", func() *interp.Config { return &interp.Config{Vars: []string{"FS", "-", "OFS", "+", "CONVFMT", "%.2g"}} }},
	}
}

func c19RunCfg(prog *parser.Program, ec c19ExecCfg) string {
	cfg := ec.mk()
	cfg.Stdin = strings.NewReader(ec.stdin)
	cfg.Environ = []string{}
	res := awk.Exec(prog, cfg)
	if res.Panic != "" {
		return "panic: " + firstLine(res.Panic)
	}
	return fmt.Sprintf("%q status=%d err=%q", res.Out, res.Status, res.ErrString())
}

// c19ConfigEval: one Program executed under every configuration in turn (twice,
// the second round in reverse order); each result must be that of a single
// execution of a freshly parsed Program under the same configuration, and the
// Program must not change.
func c19ConfigEval(c *core.Ctx, cs c19Case) {
	prog, err, pn := awk.Parse(cs.Src, nil)
	if err != nil || pn != "" {
		panic("C19 harness: configuration program does not parse: " + cs.Src)
	}
	cfgs := c19ExecCfgs()
	want := map[string]string{}
	for _, ec := range cfgs {
		fresh, _, _ := awk.Parse(cs.Src, nil)
		want[ec.name] = c19RunCfg(fresh, ec)
		c.Eval(1)
	}
	before := c19Fingerprint(prog) + c19Disasm(prog) + "deep:\n" + vexp.DeepDump(prog)
	order := append([]c19ExecCfg{}, cfgs...)
	for i := len(cfgs) - 1; i >= 0; i-- {
		order = append(order, cfgs[i])
	}
	prev := "(first)"
	for _, ec := range order {
		got := c19RunCfg(prog, ec)
		c.Eval(1)
		c.Add("transitions", 1)
		c.Outcome(cs.Name + " " + ec.name + " " + got)
		if got != want[ec.name] {
			c.Fail("immutable:execution-depends-on-earlier-executions", cs, fmt.Sprintf("configuration %s after %s: got %s; a single execution gives %s", ec.name, prev, trunc(got, 200), trunc(want[ec.name], 200)))
			break
		}
		prev = ec.name
	}
	c.Add("states", 1)
	after := c19Fingerprint(prog) + c19Disasm(prog) + "deep:\n" + vexp.DeepDump(prog)
	if before != after {
		c.Fail("immutable:program-modified-by-execution", cs, c19FirstDiff(before, after))
	}
}

func c19Configs(c *core.Ctx) {
	for _, sp := range c19CfgPrograms {
		if c.Mine() {
			c19ConfigEval(c, c19Case{Part: "configs", Name: sp.name, Src: sp.src})
		}
	}
	for _, sp := range c19SharePrograms {
		if sp.name != "native" && c.Mine() {
			c19ConfigEval(c, c19Case{Part: "configs", Name: sp.name, Src: sp.src})
		}
	}
}

// ---------------------------------------------------------------- (3) sharing

var c19SharePrograms = []struct{ name, src string }{
	{"regex-const", `/b/ { n++ } END { print n, $0 ~ /c$/ }`},
	{"user-func", `function f(x) { return x * 2 } { s += f($1) } END { print s }`},
	{"recursion", `function r(n) { return n ? n + r(n - 1) : 0 } BEGIN { print r(4) }`},
	{"for-in", `BEGIN { a[1]; a[2]; for (k in a) s = s k; print s }`},
	{"getline", `BEGIN { while ((getline l) > 0) n += length(l); print n }`},
	{"native", `BEGIN { print nat(1) + nat(2) }`},
	{"dyn-regex", `{ if ($0 ~ "^" $1) m++ } END { print m }`},
	{"dyn-and-literal-regex", `{ if ($0 ~ /b/) n++; if ($0 ~ ("^" $1)) m++; r = /c$/; sub(/a/, "x"); k += match($0, $2 ".") + split($0, parts, $1) } END { print n, m, r, k }`},
	{"formats", `{ printf "%s-%d|", $1, NR; s = s sprintf("%c", $1); printf($2 "%s\n", NF) } END { print s }`},
	{"sub-field", `{ sub(/a/, "X"); $2 = NR; print }`},
	{"split-array", `{ n = split($0, parts); print parts[n] n }`},
	{"local-array", `function f(la) { la[1] = 1; return length(la) } BEGIN { print f() f() }`},
	{"printf", `BEGIN { printf "%d-%s|", 42, "x"; printf "%5.2f\n", 3.14159 }`},
	{"concat-multi", `{ print $1 "-" $2 "-" NR "-" NF }`},
	{"strs-nums", `BEGIN { print "a" 1.5 "b" 2.5 "a" 1.5 }`},
	{"error", `BEGIN { print "x"; y = 1 / 0 }`},
	{"exit", `{ if (NR == 2) exit 3; print }`},
}

// c19CmdPrograms start real child processes through the default shell (only in
// the immutability part and in the free-running race pass: a few runs each).
var c19CmdPrograms = []struct{ name, src string }{
	{"system", `{ r = system("true " $1); s = s r } END { print s }`},
	{"cmd-getline", `{ ("echo g" $1) | getline v; close("echo g" $1); print v }`},
	{"print-pipe", `{ print $2 | "cat >/dev/null" } END { print close("cat >/dev/null") }`},
}

// C19ShareSources is used by cmd/vrace (free-running -race pass).
func C19ShareSources() []string {
	var out []string
	for _, sp := range c19SharePrograms {
		out = append(out, sp.src)
	}
	for _, sp := range c19CmdPrograms {
		out = append(out, sp.src)
	}
	return out
}

type c19ShareObs struct {
	outs   []string
	panics []string
	dead   bool
}

func c19ShareExec(ch *sched.Chooser, prog *parser.Program, funcs map[string]any, n int, inputs []string) c19ShareObs {
	s := sched.New(ch)
	s.Horizon = 50000
	outs := make([]string, n)
	vexp.SetStepFn(func() { s.Yield() })
	defer vexp.SetStepFn(nil)
	for i := 0; i < n; i++ {
		i := i
		s.Spawn(fmt.Sprintf("interp%d", i), func() {
			res := awk.Exec(prog, &interp.Config{Stdin: strings.NewReader(inputs[i%len(inputs)]), Funcs: funcs})
			outs[i] = fmt.Sprintf("out=%q status=%d err=%v panic=%s", res.Out, res.Status, res.Err, firstLine(res.Panic))
		})
	}
	s.Run()
	return c19ShareObs{outs: outs, panics: s.Panics, dead: s.Deadlock || s.Overrun}
}

func c19Sharing(c *core.Ctx) {
	funcs := map[string]any{"nat": func(x float64) float64 { return x * 10 }}
	inputs := []string{"a b\nb c\n", "abc 2\n"}
	bound := 2
	for _, sp := range c19SharePrograms {
		for _, n := range []int{2, 3} {
			if !c.Mine() || c.Expired() {
				continue
			}
			if n == 3 && !c.Thorough() {
				bound = 1
			} else {
				bound = 2
			}
			prog := awk.MustParse(sp.src, funcs)
			fp := c19Fingerprint(prog)
			// single-run results
			want := make([]string, n)
			for i := 0; i < n; i++ {
				res := awk.Exec(prog, &interp.Config{Stdin: strings.NewReader(inputs[i%len(inputs)]), Funcs: funcs})
				want[i] = fmt.Sprintf("out=%q status=%d err=%v panic=%s", res.Out, res.Status, res.Err, firstLine(res.Panic))
			}
			c.Add("states", 1)
			reported := false
			st := sched.Explore(bound, 30000, nil, func(ch *sched.Chooser) {
				o := c19ShareExec(ch, prog, funcs, n, inputs)
				c.Outcome(sp.name + strings.Join(o.outs, "|"))
				if reported {
					return
				}
				cs := c19Case{Part: "sharing", Name: sp.name, Src: sp.src, N: n, Choices: ch.Choices()}
				if len(o.panics) > 0 || o.dead {
					reported = true
					c.Fail("sharing:panic-or-deadlock", cs, fmt.Sprint(o.panics, o.dead))
					return
				}
				for i := range want {
					if o.outs[i] != want[i] {
						reported = true
						c.Fail("sharing:interleaved-execution-differs", cs, fmt.Sprintf("interpreter %d: %s, alone: %s", i, o.outs[i], want[i]))
						return
					}
				}
			})
			if c19Fingerprint(prog) != fp {
				c.Fail("sharing:program-modified", c19Case{Part: "sharing", Name: sp.name, Src: sp.src, N: n}, "fingerprint changed")
			}
			c.Eval(st.Executions * int64(n))
			c.Add("transitions", st.Executions)
			c.Add("schedules", st.Executions)
			if st.Capped {
				c.Cap("sharing schedules capped at 30000 per program")
			}
			if st.ReplayError != nil {
				panic("C19 replay divergence: " + st.ReplayError.Error())
			}
		}
	}
}

// c19RacePass runs the free-running -race binary (cmd/vrace) once, on shard 0.
// Supplementary: it samples schedules, so silence decides nothing; a report is
// a violation of "without data races".
func c19RacePass(c *core.Ctx) {
	if c.Shard != 0 {
		return
	}
	bin := os.Getenv("VERIF_VRACE")
	if bin == "" {
		c.Note("race_pass", "not run (no -race binary built)")
		return
	}
	tier := "quick"
	if c.Thorough() {
		tier = "thorough"
	}
	cmd := exec.Command(bin, tier)
	cmd.Env = append(os.Environ(), "GORACE=halt_on_error=0 exitcode=0", "GOMAXPROCS=8")
	out, err := cmd.CombinedOutput()
	text := string(out)
	races := strings.Count(text, "WARNING: DATA RACE")
	differs := strings.Count(text, "RESULT-DIFFERS")
	panics := strings.Count(text, "PANIC program=") + strings.Count(text, "fatal error:")
	last := ""
	if lines := strings.Split(strings.TrimSpace(text), "\n"); len(lines) > 0 {
		last = lines[len(lines)-1]
	}
	c.Note("race_pass", fmt.Sprintf("free-running -race pass (supplementary, sampled schedules): %s; data_race_reports=%d result_differs=%d panics=%d", last, races, differs, panics))
	cs := c19Case{Part: "race", Name: "free-running -race pass"}
	switch {
	case races > 0:
		i := strings.Index(text, "WARNING: DATA RACE")
		c.Fail("race:data-race-between-executions-sharing-a-Program", cs, trunc(text[i:], 1500))
	case panics > 0:
		c.Fail("race:panic-in-concurrent-executions", cs, trunc(text, 1500))
	case differs > 0:
		c.Fail("race:concurrent-execution-result-differs", cs, trunc(text, 1500))
	case err != nil:
		panic("C19 harness: race pass failed to run: " + err.Error() + ": " + trunc(text, 500))
	}
}

func c19Run(c *core.Ctx) {
	c19MapOrders(c)
	c19Immutability(c)
	c19Sharing(c)
	c19RacePass(c)
}

func c19Replay(c *core.Ctx, raw json.RawMessage) {
	var cs c19Case
	if err := json.Unmarshal(raw, &cs); err != nil {
		panic(err)
	}
	switch cs.Part {
	case "maporder":
		p := c19Prog{Name: cs.Name, Src: cs.Src, Funcs: cs.Funcs}
		ref := c19ParseWithOrder(sched.NewChooser(nil), p, nil)
		o := c19ParseWithOrder(sched.NewChooser(cs.Choices), p, nil)
		switch {
		case o.ok != ref.ok:
			c.Fail("maporder:verdict", cs, fmt.Sprintf("sorted: %v %s; this: %v %s", ref.ok, ref.errText, o.ok, o.errText))
		case o.errText != ref.errText:
			c.Fail("maporder:error-message-or-position", cs, fmt.Sprintf("sorted order: %q; this order: %q", ref.errText, o.errText))
		case o.fp != ref.fp:
			c.Fail("maporder:compiled-program", cs, c19FirstDiff(ref.fp, o.fp))
		case o.disasm != ref.disasm:
			c.Fail("maporder:disassembly", cs, c19FirstDiff(ref.disasm, o.disasm))
		}
	case "immutable":
		prog, err, _ := awk.Parse(cs.Src, nil)
		if err != nil {
			return
		}
		c19ImmutableEval(c, c01Dir(c), prog, cs)
	case "environ":
		c19Environ(c)
	case "configs":
		c19ConfigEval(c, cs)
	case "race":
		c.Shard = 0
		c19RacePass(c)
	case "sharing":
		funcs := map[string]any{"nat": func(x float64) float64 { return x * 10 }}
		inputs := []string{"a b\nb c\n", "abc 2\n"}
		prog := awk.MustParse(cs.Src, funcs)
		o := c19ShareExec(sched.NewChooser(cs.Choices), prog, funcs, cs.N, inputs)
		for i := 0; i < cs.N; i++ {
			res := awk.Exec(prog, &interp.Config{Stdin: strings.NewReader(inputs[i%len(inputs)]), Funcs: funcs})
			want := fmt.Sprintf("out=%q status=%d err=%v panic=%s", res.Out, res.Status, res.Err, firstLine(res.Panic))
			if o.outs[i] != want {
				c.Fail("sharing:interleaved-execution-differs", cs, o.outs[i]+" vs "+want)
			}
		}
	}
}

func init() {
	core.Register(&core.Check{
		ID:    "C19",
		Level: "model_checking",
		Rule: "(1) map orders: for programs with 2-3 independent type errors (all such subsets of 9 error items), call-graph shapes, native+AWK function mixes, native name sets that differ only in case / by prefix / by _ vs digit, and the repository's own sources, every map-range site executed by the resolver/compiler during ParseProgram is a choice point over a permutation menu (all n! for n<=3, else identity/reverse/rotations/adjacent swaps); all parses with <=1 (thorough <=2) non-sorted site executions; verdict, message+position, compiled code, constants, function table, printed source and disassembly must equal the sorted-order parse; " +
			"(2) immutability: reflective deep dump of everything reachable from the *parser.Program (exported and unexported fields, spare slice capacity, compiled regexes) before = after two rounds of executions (including failing ones; second round with the inputs in the other order), and the deep dump of every package-level variable of the goawk packages after round 1 = after round 2, for the sharing programs, 3 programs that start child processes through the default shell, and the C01 misc/builtins/calls/control space; the second round's results equal the first; (2b) 10 configuration-sensitive programs (@-name field access, FIELDS, modes set in BEGIN, $0 rebuild, character functions, regex FS) and the sharing programs each executed as ONE Program under 7 configurations in turn and back (CSV header with a column at different positions, CSV without header, TSV header with CSV output, character mode, default, Vars): every result equals a single execution of a freshly parsed Program under that configuration, deep dump unchanged; " +
			"(3) sharing: 2 and 3 interpreters over one Program as cooperative threads yielding at every VM instruction, all interleavings with <=2 preemptions (3 interpreters: 1 in quick), each interpreter's result must equal its single run; state = one program, transition = one parse order / execution / schedule",
		Assumptions: []string{
			"Go map iteration order is owned through the overlay's rewrite of every map range to vhook.Keys; orders explored are a menu per site execution, not all n! for n>3",
			"package-level variables are registered by an init() the overlay generates from go/types' package scopes; an idempotent lazy initialisation (same value after both rounds) is not reported, any other run-time write to package-level state is",
			"absence of data races proper is not decided by the exhaustive parts (cooperative scheduling creates happens-before edges); they show absence of writes to the shared Program / package-level state and interleaving-independence at instruction granularity. A supplementary free-running pass (cmd/vrace, built with -race, 6 [12] goroutines x 8 [40] rounds per sharing program plus concurrent parses) reports Go race-detector findings; it samples schedules and its silence is not counted in states/transitions",
		},
		Run:    c19Run,
		Replay: c19Replay,
	})
}

package checks

import (
	"bytes"
	"encoding/json"
	"fmt"
	"os"
	"os/exec"
	"path/filepath"
	"regexp"
	"sort"
	"strconv"
	"strings"
	"time"

	"github.com/benhoyt/goawk/parser"
	"github.com/benhoyt/goawk/vexp"

	"verifharness/awk"
	"verifharness/core"
	"verifharness/progenum"
)

// C18 — coverage instrumentation is transparent and its counts are exact
// (shape B, real CLI binary): complete enumeration of statement trees placed
// in every rule context, rendered in several layouts, each run by the goawk
// binary built from the current tree without and with -coverprofile (both
// modes, one -f file and split over two -f files at every line boundary,
// append off/on); the profile is parsed and compared with the independent
// reference evaluator's per-statement execution counts.

// ------------------------------------------------------------------ trees

type c18Node struct {
	Kind string // s exit next return call break continue | if ifelse while do for forin block
	Body []*c18Node
	Else []*c18Node
}

type c18Env struct {
	loop, next, ret, call bool
	small                 bool // reduced alphabet: no for / for-in (cover.go treats them like while)
}

type c18Gen struct {
	memo map[string][][]*c18Node
}

func (g *c18Gen) key(n int, e c18Env) string {
	return fmt.Sprintf("%d/%v%v%v%v%v", n, e.loop, e.next, e.ret, e.call, e.small)
}

// forests returns all statement lists with exactly n statements (at any
// depth) valid in environment e, simplest first.
func (g *c18Gen) forests(n int, e c18Env) [][]*c18Node {
	if n == 0 {
		return [][]*c18Node{nil}
	}
	k := g.key(n, e)
	if r, ok := g.memo[k]; ok {
		return r
	}
	var out [][]*c18Node
	for first := 1; first <= n; first++ {
		rest := g.forests(n-first, e)
		for _, t := range g.trees(first, e) {
			for _, r := range rest {
				f := make([]*c18Node, 0, 1+len(r))
				f = append(f, t)
				f = append(f, r...)
				out = append(out, f)
			}
		}
	}
	g.memo[k] = out
	return out
}

func (g *c18Gen) trees(n int, e c18Env) []*c18Node {
	var out []*c18Node
	if n == 1 {
		out = append(out, &c18Node{Kind: "s"}, &c18Node{Kind: "exit"})
		if e.next {
			out = append(out, &c18Node{Kind: "next"})
		}
		if e.ret {
			out = append(out, &c18Node{Kind: "return"})
		}
		if e.call {
			out = append(out, &c18Node{Kind: "call"})
		}
		if e.loop {
			out = append(out, &c18Node{Kind: "break"}, &c18Node{Kind: "continue"})
		}
	}
	le := e
	le.loop = true
	for _, kind := range []string{"if", "while", "do", "for", "forin", "block"} {
		if e.small && (kind == "for" || kind == "forin") {
			continue
		}
		be := e
		if kind != "if" && kind != "block" {
			be = le
		}
		for _, b := range g.forests(n-1, be) {
			out = append(out, &c18Node{Kind: kind, Body: b})
		}
	}
	for a := 0; a <= n-1; a++ {
		for _, b1 := range g.forests(a, e) {
			for _, b2 := range g.forests(n-1-a, e) {
				out = append(out, &c18Node{Kind: "ifelse", Body: b1, Else: b2})
			}
		}
	}
	return out
}

// ------------------------------------------------------------------ programs

type c18Rule struct {
	Kind   string // BEGIN ACT PACT END PAT FUNC
	Forest []*c18Node
}

type c18Prog struct {
	Rules   []c18Rule
	Layout  string // kr, bare, dense, line
	Product int    // c18Full, c18Mid, c18Min
	Level   string // A, B, C (counters only)
}

// how the per-program dimensions are crossed
const (
	c18Full = 0 // every split x both modes x (input 1 fresh, input 2 appended, input 2 fresh, input 1 appended)
	c18Mid  = 1 // one file: as full; split files: both modes x (input 1 fresh, input 2 appended)
	c18Min  = 2 // one file: as full; split files: count mode x (input 2 fresh)
)

func c18RuleEnv(kind string, haveFunc bool) c18Env {
	switch kind {
	case "BEGIN", "END":
		return c18Env{call: haveFunc}
	case "ACT", "PACT":
		return c18Env{next: true, call: haveFunc}
	case "FUNC":
		return c18Env{next: true, ret: true}
	}
	return c18Env{}
}

type c18Rend struct {
	lines  []string
	k      int
	layout string
	inFunc bool
}

func (r *c18Rend) head(n *c18Node) (open, close string) {
	k := r.k
	switch n.Kind {
	case "if", "ifelse":
		return fmt.Sprintf("if ((c%d++ + p) %% 2 == 0)", k), ""
	case "while":
		return fmt.Sprintf("while (w%d++ < 2)", k), ""
	case "do":
		return "do", fmt.Sprintf("while (d%d++ < 1)", k)
	case "for":
		return fmt.Sprintf("for (i%d = 0; i%d < 2; i%d++)", k, k, k), ""
	case "forin":
		return fmt.Sprintf("for (k%d in ENVIRON)", k), ""
	case "block":
		return "", ""
	}
	panic("c18: head of leaf")
}

func (r *c18Rend) leaf(n *c18Node) string {
	k := r.k
	switch n.Kind {
	case "s":
		if r.inFunc {
			return fmt.Sprintf(`print "t%d" a`, k)
		}
		return fmt.Sprintf(`print "t%d"`, k)
	case "exit":
		return "exit 3"
	case "next", "return", "break", "continue":
		return n.Kind
	case "call":
		return fmt.Sprintf("f(%d)", k)
	}
	return ""
}

func c18IsLeaf(n *c18Node) bool {
	switch n.Kind {
	case "s", "exit", "next", "return", "call", "break", "continue":
		return true
	}
	return false
}

// text renders a statement list as a single-line string ("line"/"dense" use it).
func (r *c18Rend) inline(f []*c18Node) string {
	var parts []string
	for _, n := range f {
		parts = append(parts, r.inlineStmt(n))
	}
	return strings.Join(parts, "; ")
}

func (r *c18Rend) inlineBody(f []*c18Node) string {
	if len(f) == 0 {
		return "{ }"
	}
	return "{ " + r.inline(f) + " }"
}

func (r *c18Rend) inlineStmt(n *c18Node) string {
	if c18IsLeaf(n) {
		s := r.leaf(n)
		r.k++
		return s
	}
	open, cl := r.head(n)
	r.k++
	s := r.inlineBody(n.Body)
	if open != "" {
		s = open + " " + s
	}
	if n.Kind == "ifelse" {
		s += " else " + r.inlineBody(n.Else)
	}
	if cl != "" {
		s += " " + cl
	}
	return s
}

// multi-line layouts. "kr": every statement on its own line, bodies in braces,
// closers on their own lines. "bare": like kr, but a body that is exactly one
// leaf statement is written without braces on the next line and an empty body
// as ";". "dense": one line per statement, closers appended to the last line.
func (r *c18Rend) block(f []*c18Node, ind string) {
	for _, n := range f {
		r.stmt(n, ind)
	}
}

func (r *c18Rend) add(s string) { r.lines = append(r.lines, s) }

func (r *c18Rend) appendLast(s string) { r.lines[len(r.lines)-1] += s }

func (r *c18Rend) stmt(n *c18Node, ind string) {
	if c18IsLeaf(n) {
		r.add(ind + r.leaf(n))
		r.k++
		return
	}
	open, cl := r.head(n)
	r.k++
	bare := func(b []*c18Node) bool { return r.layout == "bare" && len(b) == 1 && c18IsLeaf(b[0]) }
	switch {
	case r.layout == "bare" && len(n.Body) == 0 && n.Kind != "block":
		if n.Kind == "do" {
			r.add(ind + "do ;")
		} else {
			r.add(ind + open + " ;")
		}
	case bare(n.Body) && n.Kind != "block":
		r.add(ind + open)
		r.stmt(n.Body[0], ind+"  ")
	default:
		if open == "" {
			r.add(ind + "{")
		} else {
			r.add(ind + open + " {")
		}
		r.block(n.Body, ind+"  ")
		r.add(ind + "}")
	}
	if n.Kind == "ifelse" {
		last := r.lines[len(r.lines)-1]
		closed := strings.TrimSpace(last) == "}"
		switch {
		case r.layout == "bare" && len(n.Else) == 0:
			if closed {
				r.appendLast(" else ;")
			} else {
				r.add(ind + "else ;")
			}
		case bare(n.Else):
			if closed {
				r.appendLast(" else")
			} else {
				r.add(ind + "else")
			}
			r.stmt(n.Else[0], ind+"  ")
		default:
			if closed {
				r.appendLast(" else {")
			} else {
				r.add(ind + "else {")
			}
			r.block(n.Else, ind+"  ")
			r.add(ind + "}")
		}
	}
	if cl != "" {
		last := r.lines[len(r.lines)-1]
		if strings.TrimSpace(last) == "}" {
			r.appendLast(" " + cl)
		} else {
			r.add(ind + cl)
		}
	}
}

// dense: one line per statement; "{" stays on the header line, "}" (and the
// do-while tail) are appended to the line of the last statement of the body.
func (r *c18Rend) denseBlock(f []*c18Node, ind string) {
	for _, n := range f {
		r.denseStmt(n, ind)
	}
}

func (r *c18Rend) denseBody(prefix string, b []*c18Node, ind string) {
	// prefix ends with "{"
	if len(b) == 0 {
		r.add(prefix + " }")
		return
	}
	mark := len(r.lines)
	r.denseBlock(b, ind+"  ")
	r.lines[mark] = prefix + " " + strings.TrimLeft(r.lines[mark], " ")
	r.appendLast(" }")
}

func (r *c18Rend) denseStmt(n *c18Node, ind string) {
	if c18IsLeaf(n) {
		r.add(ind + r.leaf(n))
		r.k++
		return
	}
	open, cl := r.head(n)
	r.k++
	p := ind + "{"
	if open != "" {
		p = ind + open + " {"
	}
	r.denseBody(p, n.Body, ind)
	if n.Kind == "ifelse" {
		last := r.lines[len(r.lines)-1]
		r.lines = r.lines[:len(r.lines)-1]
		r.denseBody(last+" else {", n.Else, ind)
	}
	if cl != "" {
		r.appendLast(" " + cl)
	}
}

func c18Render(p c18Prog) []string {
	r := &c18Rend{layout: p.Layout}
	for _, rule := range p.Rules {
		var head string
		switch rule.Kind {
		case "BEGIN", "END":
			head = rule.Kind + " {"
		case "ACT":
			head = "{"
		case "PACT":
			head = "$1 {"
		case "FUNC":
			head = "function f(a) {"
		case "PAT":
			r.add("$1")
			continue
		}
		r.inFunc = rule.Kind == "FUNC"
		switch p.Layout {
		case "line":
			if len(rule.Forest) == 0 {
				r.add(head + " }")
			} else {
				r.add(head + " " + r.inline(rule.Forest) + " }")
			}
		case "dense":
			r.denseBody(head, rule.Forest, "")
		default:
			r.add(head)
			r.block(rule.Forest, "  ")
			r.add("}")
		}
	}
	return r.lines
}

func c18HasBareBody(f []*c18Node) bool {
	for _, n := range f {
		if !c18IsLeaf(n) {
			if n.Kind != "block" && (len(n.Body) == 0 || (len(n.Body) == 1 && c18IsLeaf(n.Body[0]))) {
				return true
			}
			if n.Kind == "ifelse" && (len(n.Else) == 0 || (len(n.Else) == 1 && c18IsLeaf(n.Else[0]))) {
				return true
			}
			if c18HasBareBody(n.Body) || c18HasBareBody(n.Else) {
				return true
			}
		}
	}
	return false
}

// c18Enumerate yields every program of the tier's space, simplest first.
func c18Enumerate(thorough bool, yield func(p c18Prog) bool) {
	g := &c18Gen{memo: map[string][][]*c18Node{}}
	stop := false
	emit := func(level string, rules []c18Rule, layouts []string, product int) {
		for _, l := range layouts {
			if stop {
				return
			}
			if l == "bare" {
				any := false
				for _, r := range rules {
					if c18HasBareBody(r.Forest) {
						any = true
					}
				}
				if !any {
					continue
				}
			}
			if !yield(c18Prog{Rules: rules, Layout: l, Product: product, Level: level}) {
				stop = true
			}
		}
	}
	all := []string{"kr", "bare", "line"}
	single := []string{"BEGIN", "ACT", "PACT", "END"}
	caller := c18Rule{Kind: "ACT", Forest: []*c18Node{{Kind: "call"}}}

	// level A: one rule (plus the pattern-only rule), every context, sizes 0..nA, all layouts;
	// full product (thorough, n=3: K&R layout with the mid product)
	nA := 2
	if thorough {
		nA = 3
	}
	emit("A", []c18Rule{{Kind: "PAT"}}, []string{"kr"}, c18Full)
	for n := 0; n <= nA; n++ {
		one := func(rules []c18Rule) {
			if n <= 2 {
				emit("A", rules, all, c18Full)
			} else {
				emit("A", rules, []string{"kr"}, c18Mid)
				emit("A", rules, []string{"line"}, c18Full)
			}
		}
		for _, kind := range single {
			for _, f := range g.forests(n, c18RuleEnv(kind, false)) {
				one([]c18Rule{{Kind: kind, Forest: f}})
			}
		}
		for _, f := range g.forests(n, c18RuleEnv("FUNC", true)) {
			one([]c18Rule{{Kind: "FUNC", Forest: f}, caller})
			if n <= 1 {
				one([]c18Rule{caller, {Kind: "FUNC", Forest: f}})
			}
		}
		if stop {
			return
		}
	}

	// level B: two rules, every ordered pair of rule kinds with (a,b) statements: a+b <= 1 and
	// (1,1) for the interacting pairs with the full product; thorough: all a+b = 2 (K&R: mid product)
	kinds := []string{"BEGIN", "ACT", "PACT", "END", "PAT", "FUNC"}
	interacting := map[string]bool{"BEGIN ACT": true, "ACT ACT": true, "ACT END": true, "FUNC ACT": true, "ACT FUNC": true, "PACT ACT": true, "BEGIN END": true}
	for tot := 0; tot <= 2; tot++ {
		for a := 0; a <= tot; a++ {
			b := tot - a
			for _, k1 := range kinds {
				for _, k2 := range kinds {
					if k1 == "FUNC" && k2 == "FUNC" {
						continue
					}
					if (k1 == "PAT" && a > 0) || (k2 == "PAT" && b > 0) {
						continue
					}
					core := tot <= 1 || (a == 1 && b == 1 && interacting[k1+" "+k2])
					if !core && !thorough {
						continue
					}
					hf := k1 == "FUNC" || k2 == "FUNC"
					for _, f1 := range g.forests(a, c18RuleEnv(k1, hf)) {
						for _, f2 := range g.forests(b, c18RuleEnv(k2, hf)) {
							rules := []c18Rule{{Kind: k1, Forest: f1}, {Kind: k2, Forest: f2}}
							if core {
								emit("B", rules, []string{"kr", "line"}, c18Full)
							} else {
								emit("B", rules, []string{"kr"}, c18Mid)
								emit("B", rules, []string{"line"}, c18Full)
							}
						}
					}
					if stop {
						return
					}
				}
			}
		}
	}

	// level C: the richest context (function body: every leaf kind is legal) one size further,
	// one line per statement: n=3 with the mid product; thorough also n=4 over the alphabet
	// without for / for-in, min product
	prodC := c18Mid
	if !thorough {
		prodC = c18Min // quick: split files get count mode x one input only at this size
	}
	for _, f := range g.forests(3, c18RuleEnv("FUNC", true)) {
		emit("C", []c18Rule{{Kind: "FUNC", Forest: f}, caller}, []string{"dense"}, prodC)
		if stop {
			return
		}
	}
	if thorough {
		e := c18RuleEnv("FUNC", true)
		e.small = true
		for _, f := range g.forests(4, e) {
			emit("C4", []c18Rule{{Kind: "FUNC", Forest: f}, caller}, []string{"dense"}, c18Min)
			if stop {
				return
			}
		}
	}
}

// ------------------------------------------------------------------ running

var c18Inputs = []string{"0\n", "1\n0\n2\n"}

type c18Case struct {
	Src     string `json:"src"`
	Split   int    `json:"split"`            // number of lines in the first -f file; 0 = one file
	Split2  int    `json:"split2,omitempty"` // > Split: three -f files, the second ends before this line index
	Mode    string `json:"mode"`
	Product int    `json:"product,omitempty"` // 0 full, 1 mid, 2 min
	Step    int    `json:"step"`              // run of the sequence in which the failure was seen (informational)
	Feature string `json:"feature,omitempty"` // empty-action | action-of-empty-blocks: selects the signature of an output difference
}

type c18Runner struct {
	c    *core.Ctx
	dir  string
	bin  string
	caps map[string]int
	cap  int
	// inproc: development aid, see exec
	inproc bool
}

func c18NewRunner(c *core.Ctx, dir string, cap int) *c18Runner {
	return &c18Runner{c: c, dir: dir, bin: core.GoawkBin(), caps: map[string]int{}, cap: cap, inproc: true}
}

func (r *c18Runner) fail(sig string, cs c18Case, obs string) {
	r.caps[sig]++
	if r.cap > 0 && r.caps[sig] > r.cap {
		r.c.Add("violations_beyond_cap", 1)
		return
	}
	r.c.Fail(sig, cs, strings.ReplaceAll(obs, r.dir+string(filepath.Separator), ""))
}

type c18Out struct {
	Stdout, Stderr string
	Status         int
}

// c18Spec describes one run: goawk -v p=<in> [-coverprofile prof -covermode mode [-coverappend]] -f files... < c18Inputs[in]
type c18Spec struct {
	files  []c18File
	in     int
	mode   string // "" = without coverage
	append bool
	prof   string
}

func (r *c18Runner) exec(sp c18Spec) c18Out {
	if r.inproc {
		// development aid (C18_INPROC=1): the same steps as goawk.go's main, inside this process
		var paths []string
		for _, f := range sp.files {
			paths = append(paths, f.path)
		}
		res := vexp.CoverRun(paths, sp.mode, sp.append, sp.prof, c18Inputs[sp.in], []string{"p", strconv.Itoa(sp.in)}, []string{"E1", "x", "E2", "y"})
		r.c.Eval(1)
		return c18Out{res.Stdout, res.Stderr, res.Status}
	}
	args := []string{"-v", "p=" + strconv.Itoa(sp.in)}
	if sp.mode != "" {
		args = append(args, "-coverprofile", sp.prof, "-covermode", sp.mode)
		if sp.append {
			args = append(args, "-coverappend")
		}
	}
	args = append(args, c18FileArgs(sp.files)...)
	return r.run(args, c18Inputs[sp.in])
}

func (r *c18Runner) run(args []string, input string) c18Out {
	var so, se bytes.Buffer
	st := 0
	for attempt := 0; ; attempt++ {
		cmd := exec.Command(r.bin, args...)
		cmd.Dir = r.dir
		cmd.Env = []string{"E1=x", "E2=y"}
		cmd.Stdin = strings.NewReader(input)
		so.Reset()
		se.Reset()
		cmd.Stdout = &so
		cmd.Stderr = &se
		err := cmd.Run()
		if err == nil {
			break
		}
		if ee, ok := err.(*exec.ExitError); ok && ee.ExitCode() >= 0 {
			st = ee.ExitCode()
			break
		}
		// the process could not be started (or was killed by a signal): an
		// environment problem, not an observation; retry, then give up loudly
		if attempt >= 3 {
			panic(fmt.Sprintf("c18: cannot run %s: %v", r.bin, err))
		}
		time.Sleep(200 * time.Millisecond)
	}
	r.c.Eval(1)
	return c18Out{so.String(), se.String(), st}
}

type c18File struct {
	path  string
	lines []string
	off   int // global line number of the file's first line minus 1
}

var c18LineRe = regexp.MustCompile(`^(.+):(\d+)\.(\d+),(\d+)\.(\d+) (\d+) (\d+)$`)

type c18Block struct {
	path           string
	sl, sc, el, ec int
	n, count       int
}

// c18ProgInfo: everything derived from the program text once.
type c18ProgInfo struct {
	lines   []string
	prog    *parser.Program
	lists   [][]vexp.RefPos
	where   map[vexp.RefPos][2]int // statement start -> (list, index)
	nstmts  int
	ref     [2]vexp.RefResult
	refOK   [2]bool
	plain   [2]c18Out
	plainOK bool
}

func (r *c18Runner) writeFiles(lines []string, split int, split2s ...int) []c18File {
	join := func(ls []string, nl bool) []byte {
		s := strings.Join(ls, "\n")
		if nl {
			s += "\n"
		}
		return []byte(s)
	}
	var files []c18File
	if split == 0 {
		files = []c18File{{filepath.Join(r.dir, "prog.awk"), lines, 0}}
	} else {
		files = []c18File{{filepath.Join(r.dir, "a.awk"), lines[:split], 0}, {filepath.Join(r.dir, "b.awk"), lines[split:], split}}
	}
	if len(split2s) > 0 && split2s[0] > split && split != 0 {
		s2 := split2s[0]
		files = []c18File{{filepath.Join(r.dir, "a.awk"), lines[:split], 0}, {filepath.Join(r.dir, "b.awk"), lines[split:s2], split}, {filepath.Join(r.dir, "c.awk"), lines[s2:], s2}}
	}
	for i, f := range files {
		// the trailing newline of a source file is optional: alternate
		nl := (split+i)%2 == 0
		if err := os.WriteFile(f.path, join(f.lines, nl), 0o644); err != nil {
			panic(err)
		}
	}
	return files
}

func c18FileArgs(files []c18File) []string {
	var a []string
	for _, f := range files {
		a = append(a, "-f", f.path)
	}
	return a
}

func (r *c18Runner) prepare(src string) (*c18ProgInfo, string) {
	pi := &c18ProgInfo{lines: strings.Split(src, "\n")}
	prog, err, pn := awk.Parse(src+"\n", nil)
	if pn != "" || err != nil {
		return nil, fmt.Sprintf("%v %s", err, firstLine(pn))
	}
	pi.prog = prog
	pi.lists = vexp.StmtLists(prog)
	pi.where = map[vexp.RefPos][2]int{}
	for i, l := range pi.lists {
		for j, p := range l {
			pi.where[p] = [2]int{i, j}
		}
	}
	pi.nstmts = vexp.StmtCount(prog)
	files := r.writeFiles(pi.lines, 0)
	pi.plainOK = true
	for i, in := range c18Inputs {
		pi.plain[i] = r.exec(c18Spec{files: files, in: i})
		if pi.plain[i].Stderr != "" || pi.plain[i].Status == 2 {
			pi.plainOK = false
		}
		pi.ref[i] = vexp.RunRef(prog, &vexp.RefConfig{Stdin: in, Vars: []string{"p", strconv.Itoa(i)}, Environ: []string{"E1", "x", "E2", "y"}, StepLimit: 100000})
		rf := pi.ref[i]
		pi.refOK[i] = rf.Unsupported == "" && rf.Err == "" && rf.Stdout == pi.plain[i].Stdout && rf.Status == pi.plain[i].Status
	}
	return pi, ""
}

// sequence runs the coverage runs of one (mode, split) on a shared profile file
// and checks every oracle.
func (r *c18Runner) sequence(pi *c18ProgInfo, mode string, split int, product int, feature string, split2s ...int) {
	c := r.c
	files := r.writeFiles(pi.lines, split, split2s...)
	split2 := 0
	if len(files) == 3 {
		split2 = split2s[0]
	}
	prof := filepath.Join(r.dir, "prof.out")
	// the profile either does not exist or holds stale content that must be overwritten
	if split%2 == 0 {
		os.WriteFile(prof, []byte("mode: stale\nstale:1.1,1.2 1 1\n"), 0o644)
	} else {
		os.Remove(prof)
	}
	type step struct {
		in     int
		append bool
	}
	steps := []step{{0, false}, {1, true}, {1, false}, {0, true}}
	if split != 0 && product == c18Mid {
		steps = steps[:2]
	}
	if split != 0 && product == c18Min {
		steps = []step{{1, false}}
	}
	if split2 != 0 {
		steps = []step{{1, false}, {0, true}}
	}
	src := strings.Join(pi.lines, "\n")
	prev := ""
	for si, st := range steps {
		cs := c18Case{Src: src, Split: split, Split2: split2, Mode: mode, Product: product, Step: si, Feature: feature}
		got := r.exec(c18Spec{files: files, in: st.in, mode: mode, append: st.append, prof: prof})
		c.Add("transitions", 1)
		plain := pi.plain[st.in]
		tag := "mode=" + mode
		// --- transparency
		if got.Stdout != plain.Stdout || got.Status != plain.Status {
			// decide against the plain run of exactly the same files
			p2 := plain
			if split != 0 {
				p2 = r.exec(c18Spec{files: files, in: st.in})
			}
			if got.Stdout != p2.Stdout {
				sig := "transparency-stdout "
				if feature != "" {
					sig = "transparency-stdout-" + feature + " "
				}
				r.fail(sig+tag, cs, fmt.Sprintf("input=%q with -coverprofile: stdout=%q status=%d; without: stdout=%q status=%d", c18Inputs[st.in], got.Stdout, got.Status, p2.Stdout, p2.Status))
			} else if got.Status != p2.Status {
				r.fail("transparency-status "+tag, cs, fmt.Sprintf("input=%q with -coverprofile: status=%d stderr=%q; without: status=%d", c18Inputs[st.in], got.Status, firstLine(got.Stderr), p2.Status))
			} else {
				c.Add("plain_depends_on_split", 1)
			}
		}
		data, err := os.ReadFile(prof)
		if err != nil {
			r.fail("profile-missing "+tag, cs, fmt.Sprintf("status=%d stderr=%q", got.Status, firstLine(got.Stderr)))
			prev = ""
			continue
		}
		text := string(data)
		c.Outcome(strings.ReplaceAll(text, r.dir, "") + "\x00" + got.Stdout + "\x00" + strconv.Itoa(got.Status))
		// --- profile framing
		body := text
		header := "mode: " + mode + "\n"
		if st.append {
			if prev == "" { // the previous run left no profile (already reported)
				prev = text
				continue
			}
			if !strings.HasPrefix(text, prev) {
				r.fail("append-lost-previous-profile "+tag, cs, fmt.Sprintf("before: %q after: %q", prev, text))
				prev = text
				continue
			}
			body = text[len(prev):]
		} else {
			if !strings.HasPrefix(text, header) {
				r.fail("profile-header "+tag, cs, fmt.Sprintf("profile: %q", text))
				prev = text
				continue
			}
			body = text[len(header):]
		}
		prev = text
		r.checkBlocks(pi, files, cs, tag, body, st.in, st.append)
	}
}

func (r *c18Runner) checkBlocks(pi *c18ProgInfo, files []c18File, cs c18Case, tag, body string, in int, appended bool) {
	seen := map[string]bool{}
	once := func(sig, obs string) {
		if !seen[sig] {
			seen[sig] = true
			r.fail(sig, cs, obs)
		}
	}
	app := ""
	if appended {
		app = " (lines appended by the second run)"
	}
	ctx := fmt.Sprintf("input=%q%s profile lines: %q", c18Inputs[in], app, body)
	if body != "" && !strings.HasSuffix(body, "\n") {
		once("profile-line-format "+tag, "last line not terminated; "+ctx)
		return
	}
	covered := make([][]int, len(pi.lists))
	for i, l := range pi.lists {
		covered[i] = make([]int, len(l))
	}
	sum := 0
	var rows []string
	if body != "" {
		rows = strings.Split(strings.TrimSuffix(body, "\n"), "\n")
	}
	for _, row := range rows {
		m := c18LineRe.FindStringSubmatch(row)
		if m == nil {
			once("profile-line-format "+tag, fmt.Sprintf("line %q; %s", row, ctx))
			continue
		}
		var b c18Block
		b.path = m[1]
		nums := make([]int, 6)
		for i := range nums {
			nums[i], _ = strconv.Atoi(m[i+2])
		}
		b.sl, b.sc, b.el, b.ec, b.n, b.count = nums[0], nums[1], nums[2], nums[3], nums[4], nums[5]
		sum += b.n
		fi := -1
		for i, f := range files {
			if f.path == b.path {
				fi = i
			}
		}
		if fi < 0 {
			once("block-names-unknown-file "+tag, fmt.Sprintf("block %q; %s", row, ctx))
			continue
		}
		f := files[fi]
		inFile := func(f c18File, l, col int) bool {
			return l >= 1 && l <= len(f.lines) && col >= 1 && col <= len(f.lines[l-1])+1
		}
		startOK := inFile(f, b.sl, b.sc)
		endOK := inFile(f, b.el, b.ec)
		ordered := b.sl < b.el || (b.sl == b.el && b.sc < b.ec)
		if !startOK {
			once("block-start-outside-file "+tag, fmt.Sprintf("block %q (file has %d lines); %s", row, len(f.lines), ctx))
			continue
		}
		if !endOK || !ordered {
			// is the end position a position of the *other* file (a block that runs across the file boundary)?
			if fi+1 < len(files) && inFile(files[fi+1], b.el, b.ec) {
				once("block-spans-two-files", fmt.Sprintf("block %q: start is in one file (%d lines), end line/column are those of the next; %s", row, len(f.lines), ctx))
			} else if !endOK {
				once("block-end-outside-file "+tag, fmt.Sprintf("block %q (file has %d lines); %s", row, len(f.lines), ctx))
			} else {
				once("block-start-not-before-end "+tag, fmt.Sprintf("block %q; %s", row, ctx))
			}
		}
		// --- which statements does the block count?
		gp := vexp.RefPos{Line: f.off + b.sl, Col: b.sc}
		w, ok := pi.where[gp]
		if !ok {
			once("block-start-is-not-a-statement "+tag, fmt.Sprintf("block %q; %s", row, ctx))
			continue
		}
		if b.n < 1 || w[1]+b.n > len(pi.lists[w[0]]) {
			once("block-numstmts-exceeds-statement-list "+tag, fmt.Sprintf("block %q; %s", row, ctx))
		} else {
			for j := w[1]; j < w[1]+b.n; j++ {
				covered[w[0]][j]++
			}
		}
		// --- count
		if pi.refOK[in] {
			want := pi.ref[in].StmtCounts[gp]
			if cs.Mode == "set" && want > 0 {
				want = 1
			}
			if b.count != want {
				once("count-mismatch "+tag, fmt.Sprintf("block %q: count %d, first statement of the block began executing %d times (set mode: 1 iff > 0: want %d); %s", row, b.count, pi.ref[in].StmtCounts[gp], want, ctx))
			}
		}
	}
	if len(seen) > 0 {
		return
	}
	for i, l := range covered {
		for j, n := range l {
			p := pi.lists[i][j]
			if n == 0 {
				once("statement-in-no-block "+tag, fmt.Sprintf("statement at %d:%d; %s", p.Line, p.Col, ctx))
			} else if n > 1 {
				once("statement-in-several-blocks "+tag, fmt.Sprintf("statement at %d:%d is counted in %d blocks; %s", p.Line, p.Col, n, ctx))
			}
		}
	}
	if sum != pi.nstmts {
		once("sum-numstmts "+tag, fmt.Sprintf("sum of numStmts = %d, program has %d statements; %s", sum, pi.nstmts, ctx))
	}
}

// c18Feature names the two program shapes whose output differences get their
// own signature: an action with an empty statement list, and an action whose
// statements are nothing but (nested) empty blocks.
func c18Feature(p c18Prog) string {
	var onlyBlocks func(f []*c18Node) bool
	onlyBlocks = func(f []*c18Node) bool {
		for _, n := range f {
			if n.Kind != "block" || !onlyBlocks(n.Body) {
				return false
			}
		}
		return true
	}
	empty, blocks := false, false
	for _, r := range p.Rules {
		if r.Kind == "ACT" || r.Kind == "PACT" {
			if len(r.Forest) == 0 {
				empty = true
			} else if onlyBlocks(r.Forest) {
				blocks = true
			}
		}
	}
	switch {
	case empty && blocks:
		return "empty-action+action-of-empty-blocks"
	case empty:
		return "empty-action"
	case blocks:
		return "action-of-empty-blocks"
	}
	return ""
}

// evalProgram runs the whole per-program product. only != nil restricts to one (mode, split).
func (r *c18Runner) evalProgram(src string, product int, feature string, only *c18Case) {
	c := r.c
	pi, perr := r.prepare(src)
	if pi == nil {
		c.Add("rejected_by_parser", 1)
		c.Note("rejected_example", src+" :: "+perr)
		return
	}
	if !pi.plainOK {
		c.Add("skipped_plain_run_fails", 1)
		return
	}
	for i := range c18Inputs {
		if pi.refOK[i] {
			c.Add("traces_validated_against_impl", 1)
		} else {
			c.Add("ref_unusable", 1)
			if !strings.Contains(feature, "action-of-empty-blocks") {
				// (for that shape the uninstrumented run itself misbehaves: it prints the records)
				c.Add("ref_unusable_unexplained", 1)
				c.Note("ref_unusable_example", src)
			}
		}
	}
	if only != nil {
		r.sequence(pi, only.Mode, only.Split, only.Product, only.Feature, only.Split2)
		return
	}
	for split := 0; split < len(pi.lines); split++ {
		for _, mode := range []string{"set", "count"} {
			if product == c18Min && split != 0 && mode == "set" {
				continue
			}
			r.sequence(pi, mode, split, product, feature)
		}
	}
	// three -f files: every pair of line boundaries (a statement may start in the
	// second file and end in the third), count mode, input 2 fresh then input 1 appended
	if product == c18Full {
		for split := 1; split < len(pi.lines); split++ {
			for split2 := split + 1; split2 < len(pi.lines); split2++ {
				r.sequence(pi, "count", split, product, feature, split2)
				c.Add("three_file_splits", 1)
			}
		}
	}
}

func c18Dir(c *core.Ctx) string {
	cwd, _ := os.Getwd()
	dir := filepath.Join(cwd, fmt.Sprintf("c18-%d", c.Shard))
	os.MkdirAll(dir, 0o755)
	return dir
}

// c18Transparency: transparency alone (same standard output, standard error
// class and exit status with coverage in set and count mode as without) over
// the expression-level program families of C01: what the statements of the
// structural enumeration above never contain (concatenations, literals,
// builtins, calls, conditions, augmented assignments ...).
func c18Transparency(c *core.Ctx, r *c18Runner) {
	f := func(pc progenum.Case) {
		if !c.Mine() || c.Expired() {
			return
		}
		c18TPEval(c, r, pc)
	}
	th := c.Thorough()
	progenum.EnumConcat(th, f)
	progenum.EnumMisc(th, f)
	progenum.EnumBuiltins(th, f)
	progenum.EnumCalls(th, f)
	progenum.EnumControl(th, f)
	progenum.EnumBoolValue(th, f)
	progenum.EnumEmptyBody(th, f)
	if th {
		progenum.EnumCond(th, f)
		progenum.EnumLvalue(th, f)
	}
}

func c18TPEval(c *core.Ctx, r *c18Runner, pc progenum.Case) {
	path := filepath.Join(r.dir, "tp.awk")
	const input = "a b c\n1 2\n"
	{
		if usesFiles(pc.Src) || strings.Contains(pc.Src, "system(") || strings.Contains(pc.Src, "|") {
			return
		}
		if err := os.WriteFile(path, []byte(pc.Src+"\n"), 0o644); err != nil {
			panic(err)
		}
		var outs [3]vexp.CoverRunResult
		for i, mode := range []string{"", "set", "count"} {
			outs[i] = vexp.CoverRun([]string{path}, mode, false, "", input, []string{"p", "1"}, []string{"E1", "x"})
			c.Eval(1)
		}
		c.Add("states", 1)
		c.Add("transitions", 3)
		c.Add("transparency_programs", 1)
		if outs[0].Status == 2 && outs[0].Stdout == "" {
			return // rejected by the parser or fails before any output: nothing to compare
		}
		c.Outcome(fmt.Sprintf("tp %q %d", outs[0].Stdout, outs[0].Status))
		for i, mode := range []string{"", "set", "count"} {
			if i == 0 {
				continue
			}
			if outs[i].Stdout != outs[0].Stdout || outs[i].Status != outs[0].Status || (outs[i].Stderr == "") != (outs[0].Stderr == "") {
				r.fail("transparency:expression-program:mode="+mode, c18Case{Src: pc.Src, Mode: mode, Feature: "expression:" + pc.Family},
					fmt.Sprintf("without coverage: %q status=%d stderr=%q; with -covermode %s: %q status=%d stderr=%q", trunc(outs[0].Stdout, 200), outs[0].Status, trunc(outs[0].Stderr, 80), mode, trunc(outs[i].Stdout, 200), outs[i].Status, trunc(outs[i].Stderr, 80)))
				break
			}
		}
	}
	os.Remove(path)
}

// c18LargeCounts: count mode with blocks executed 999999 .. 2^24+1 times: every
// profile line is well formed and the loop body's count is the exact number of
// iterations (counts live in AWK numbers, i.e. float64, on the way to the profile).
func c18LargeCounts(c *core.Ctx, r *c18Runner) {
	for _, n := range []int{999999, 1000000, 1000001, 12345678, 16777217} {
		if !c.Mine() || c.Expired() {
			continue
		}
		c18LargeEval(c, r, n)
	}
}

func c18LargeEval(c *core.Ctx, r *c18Runner, n int) {
	path := filepath.Join(r.dir, "lc.awk")
	prof := filepath.Join(r.dir, "lc.prof")
	src := fmt.Sprintf("BEGIN {\n\tfor (i = 0; i < %d; i++) {\n\t\tk++\n\t}\n\tprint k\n}\n", n)
	if err := os.WriteFile(path, []byte(src), 0o644); err != nil {
		panic(err)
	}
	os.Remove(prof)
	cs := c18Case{Src: src, Mode: "count", Feature: fmt.Sprintf("large-count:%d", n)}
	res := vexp.CoverRun([]string{path}, "count", false, prof, "", []string{"p", "1"}, []string{"E1", "x"})
	c.Eval(1)
	c.Add("states", 1)
	c.Add("transitions", 1)
	if res.Status != 0 || res.Stdout != fmt.Sprintf("%d\n", n) {
		r.fail("large-count:run", cs, fmt.Sprintf("status=%d stdout=%q stderr=%q", res.Status, trunc(res.Stdout, 60), trunc(res.Stderr, 100)))
		return
	}
	data, err := os.ReadFile(prof)
	if err != nil {
		r.fail("large-count:no-profile", cs, err.Error())
		return
	}
	rows := strings.Split(strings.TrimSuffix(string(data), "\n"), "\n")
	found := false
	for i, row := range rows {
		if i == 0 {
			continue // mode line
		}
		m := c18LineRe.FindStringSubmatch(row)
		if m == nil {
			r.fail("large-count:profile-line-malformed", cs, fmt.Sprintf("line %d: %q", i+1, row))
			return
		}
		if m[7] == strconv.Itoa(n) {
			found = true
		}
	}
	c.Outcome(fmt.Sprintf("large %d %v", n, found))
	if !found {
		r.fail("large-count:count-not-exact", cs, fmt.Sprintf("no block with count %d in %q", n, trunc(string(data), 300)))
	}
	os.Remove(path)
	os.Remove(prof)
}

func c18Run(c *core.Ctx) {
	// development aid: C18_DRY=1 only enumerates, renders, parses and counts the planned process runs
	dry := os.Getenv("C18_DRY") != ""
	if dry {
		c.Cap("C18_DRY")
	}
	var r *c18Runner
	if !dry {
		r = c18NewRunner(c, c18Dir(c), 8)
	}
	// Process creation costs 10-30 ms in this sandbox, so the bulk of the space is
	// run in-process through vexp.CoverRun (the same steps as goawk.go's main:
	// FileReader, parse, cover.Annotate, re-resolve, re-compile, execute,
	// WriteProfile); every binStride-th program is run on the real CLI binary
	// instead, which keeps the command-line glue itself under observation.
	// C18_INPROC=1 / C18_BIN=1 force one mode for all programs (development aids).
	forceIn, forceBin := os.Getenv("C18_INPROC") != "", os.Getenv("C18_BIN") != ""
	binStride := 40
	if c.Thorough() {
		binStride = 10
	}
	// development aid: C18_STRIDE=k evaluates every k-th program only (reported as a cap)
	stride := 1
	if v, err := strconv.Atoi(os.Getenv("C18_STRIDE")); err == nil && v > 1 {
		stride = v
		c.Cap(fmt.Sprintf("C18_STRIDE=%d", v))
	}
	n := 0
	c18Enumerate(c.Thorough(), func(p c18Prog) bool {
		if c.Expired() {
			return false
		}
		n++
		mine := c.Mine()
		if n%stride != 0 || !mine {
			return true
		}
		lines := c18Render(p)
		src := strings.Join(lines, "\n")
		c.Add("states", 1)
		if n%997 == 1 {
			c.Sample(map[string]any{"layout": p.Layout, "src": src, "splits": len(lines) - 1, "product": []string{"full", "mid", "min"}[p.Product]})
		}
		if dry {
			runs := 2 + 8*len(lines)
			if p.Product == c18Mid {
				runs = 2 + 8 + 4*(len(lines)-1)
			} else if p.Product == c18Min {
				runs = 2 + 8 + (len(lines) - 1)
			}
			c.Add("planned_runs", int64(runs))
			c.Add("planned_runs_"+p.Level+"_"+p.Layout, int64(runs))
			c.Add("programs_"+p.Level+"_"+p.Layout, 1)
			if _, err, pn := awk.Parse(src+"\n", nil); err != nil || pn != "" {
				c.Add("rejected_by_parser", 1)
				c.Note("rejected_example", src)
			}
			return true
		}
		onBinary := forceBin || (!forceIn && n%binStride == 0)
		r.inproc = !onBinary
		if onBinary {
			c.Add("programs_on_real_cli_binary", 1)
		} else {
			c.Add("programs_in_process", 1)
		}
		r.evalProgram(src, p.Product, c18Feature(p), nil)
		return true
	})
	if r != nil && !dry {
		c18Transparency(c, r)
		c18LargeCounts(c, r)
	}
	if r != nil {
		var sigs []string
		for s, k := range r.caps {
			if k > r.cap {
				sigs = append(sigs, fmt.Sprintf("%s:%d", s, k))
			}
		}
		sort.Strings(sigs)
		if len(sigs) > 0 {
			c.Note(fmt.Sprintf("capped_signatures_shard%d", c.Shard), strings.Join(sigs, " "))
		}
		os.RemoveAll(r.dir)
	}
}

func c18Replay(c *core.Ctx, raw json.RawMessage) {
	var cs c18Case
	if err := json.Unmarshal(raw, &cs); err != nil {
		panic(err)
	}
	dir, err := os.MkdirTemp("", "c18-replay-")
	if err != nil {
		panic(err)
	}
	defer os.RemoveAll(dir)
	r := c18NewRunner(c, dir, 0)
	if strings.HasPrefix(cs.Feature, "large-count:") {
		n, _ := strconv.Atoi(strings.TrimPrefix(cs.Feature, "large-count:"))
		c18LargeEval(c, r, n)
		return
	}
	if strings.HasPrefix(cs.Feature, "expression:") {
		c18TPEval(c, r, progenum.Case{Family: strings.TrimPrefix(cs.Feature, "expression:"), Src: cs.Src})
		return
	}
	if cs.Mode == "" {
		r.evalProgram(cs.Src, cs.Product, cs.Feature, nil)
		return
	}
	r.evalProgram(cs.Src, cs.Product, cs.Feature, &cs)
}

func init() {
	core.Register(&core.Check{
		ID:    "C18",
		Level: "model_checking",
		Rule: "grammar-directed complete enumeration of programs: every statement list (forest) with exactly n statements over {print, exit, next, return, call, break, continue, if, if/else, while, do, for, for-in, block} " +
			"(empty bodies included; break/continue only in loops, next only in actions/functions, return only in the function, no recursion) placed in every rule context {BEGIN, action, pattern-action, END, function body + calling rule}, " +
			"plus the pattern-only rule and empty actions (n=0). Level A: one rule, n<=2 (thorough n<=3), layouts K&R multi-line / brace-less single-statement bodies and ';' empty bodies / one line per rule; " +
			"level B: every ordered pair of rule kinds with (a,b) statements, a+b<=1 and (1,1) for the interacting pairs (thorough: all a+b<=2); level C: function body with n=3, one line per statement (thorough: also n=4 without for/for-in). " +
			"Every program x 2 inputs (stdin and -v p, which flips every if condition) x {set,count} x {one -f file, two -f files split at every line boundary} x append {off, on: a second run with -coverappend on the same profile}; " +
			"fully explored levels also: three -f files at every pair of line boundaries x count mode x {input 2 fresh, input 1 appended}; " +
			"full product for levels A and B (thorough A n=3 / B a+b=2 in K&R layout and level C n=3: split files x both modes x {input 1 fresh, input 2 appended}; thorough C n=4: split files x {count, input 2, append off}). " +
			"state = one program text, transition = one goawk process run with -coverprofile; " +
			"each transition is compared with the run without coverage (stdout, status) and every line of its profile with the file contents, the parsed statement lists and the reference evaluator's per-statement execution counts; distinct = distinct (profile, stdout, status) Transparency alone (stdout, stderr class, exit status equal without coverage / set / count) additionally over the expression-level program families of C01 (concatenation groupings, misc, builtins, calls, control, boolean values, empty bodies; thorough: conditions and lvalue forms), in-process. Count mode with a loop body executed 999999 / 10^6 / 10^6+1 / 12345678 / 2^24+1 times: well-formed profile lines, exact count.",
		Assumptions: []string{
			"every 40th (thorough: 10th) program is observed on the real CLI binary built from the current tree (subprocess, environment {E1,E2} only); the others run the same steps as goawk.go's main in-process (vexp.CoverRun: FileReader, parse, cover.Annotate, re-resolve, re-compile, execute, WriteProfile), because a process start costs 10-30 ms in this sandbox",
			"the run without coverage is made once per program and input with a single -f file; when a coverage run on split files differs from it, the run without coverage is repeated on exactly those files and that result decides",
			"execution counts come from the reference evaluator refawk (shares only lexer+parser with the implementation); a case whose reference stdout/status differs from the uninstrumented goawk run is excluded from the count oracle (counted as ref_unusable; that disagreement is C01's subject)",
			"a column is inside a line if 1 <= col <= len(line)+1 (the position of the line's newline token is a legal end)",
			"'counted in exactly one block': a block names its first statement by its start position and counts numStmts consecutive statements of that statement list; the blocks of one run must partition the statements of the program",
			"with -coverappend the profile is the previous profile followed by the new run's block lines without a second mode header (cover.go WriteProfile / docs/cover.md); without it an existing profile is overwritten",
			"for-in loops iterate over ENVIRON (2 entries) and never use the key, so map order cannot influence output or counts",
			"stderr is not part of the transparency oracle (the statement names output and exit status)",
		},
		Run:            c18Run,
		Replay:         c18Replay,
		QuickBudget:    900,
		ThoroughBudget: 5400,
	})
}

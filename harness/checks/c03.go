package checks

import (
	"bytes"
	"encoding/json"
	"fmt"
	"go/ast"
	goparser "go/parser"
	"go/token"
	"hash/fnv"
	"os"
	"os/exec"
	"path/filepath"
	"regexp"
	"runtime/debug"
	"sort"
	"strconv"
	"strings"
	"time"
	"unicode/utf8"

	"github.com/benhoyt/goawk/lexer"
	"github.com/benhoyt/goawk/parser"

	"verifharness/core"
)

// C03 — parsing is total; positions are real (shape B).
//
// Source texts: (a) every sequence of <=4 (quick) / <=5 (thorough) atoms over a
// 41-atom alphabet that reaches every lexer branch, (b) every prefix, every
// single-byte deletion and every single-byte substitution (9 bytes) at every
// offset of every program of the repository corpus, (c) nesting towers and
// flat repetitions up to the 32 KiB limit.
//
// Oracles per text: (4) every lexer call sequence the API allows (Scan, and
// ScanRegex after DIV / DIV_ASSIGN: all 2^k choices) against an independent
// offset-based reference lexer and an independent offset -> (line, column) map;
// (1) ParseProgram returns (no panic); (2) a parse error's position lies inside
// the source; (3) the real goawk binary shows the error with its source line
// and a caret, never a Go panic trace (for every distinct error class).

// ---------------------------------------------------------------- alphabet

var c03Atoms = []string{
	"1", "e", "E", "+", "-", ".", "x", "1e", "1e+",
	"\"a\"", "'a'", "\"\\n\"", "/", "/re/", "#", "\\\n", "\n", "\r\n",
	" ", "\t", "é", "\x00", "(", ")", "{", "}", "$", "=", "==", "!", "~", ",", ";",
	"BEGIN", "function", "getline", "print", "in",
	// three more than DESIGN.md lists: a lone CR, a lone quote and a lone backslash
	// (unterminated strings / escapes at the very end of the text)
	"\r", "\"", "\\",
}

// c03ParseTokens: the alphabet of part (d).
var c03ParseTokens = []string{"for", "(", ")", "print", "printf", "delete", "x", "in", "a", ";", "{", "}", "getline", ",", "=", "1", "\"s\"", "/r/", "$", "if", "else", "while", "do",
	"function", "return", "[", "]", "?", ":", "<", "|", "\n", "next", "exit", "++", "-"}

// c03Stmts: the alphabet of part (e).
var c03Stmts = []string{"while (x) ;", "for (;;) ;", "for (k in a) ;", "do ; while (x)", "while (x) { }", "for (i = 0; i < 1; i++) { }", "do { } while (x)",
	"break", "continue", "next", "nextfile", "return", "return 1", "exit", "getline", "x++", ";", "{ }", "{ break }", "if (x) ;", "if (x) ; else ;", "if (x) break",
	"while (x) break", "for (;;) { continue }", "while (x) { if (y) break; else continue }", "delete a", "print", "f()", "function g() { }"}

var c03SubstBytes = []byte{'\n', '\r', '\\', '"', '/', '(', 'e', 0x00, 0xff}

// ---------------------------------------------------------------- reference lexer

// c03Tok is a token of the reference lexer: a class and the byte range.
type c03Tok struct {
	class    byte // w word, n number, s string, o operator, l newline, e end, r regex, x lexical error
	start    int
	end      int
	dangling bool // number directly followed by an exponent marker without digits ("1e", "1e+")
}

func c03At(src []byte, i int) byte {
	if i < len(src) {
		return src[i]
	}
	return 0
}

func c03IsDigit(b byte) bool { return b >= '0' && b <= '9' }
func c03IsAlpha(b byte) bool { return b == '_' || b >= 'a' && b <= 'z' || b >= 'A' && b <= 'Z' }
func c03Hex(b byte) int {
	switch {
	case b >= '0' && b <= '9':
		return int(b - '0')
	case b >= 'a' && b <= 'f':
		return int(b-'a') + 10
	case b >= 'A' && b <= 'F':
		return int(b-'A') + 10
	}
	return -1
}

// c03RefScan returns the token that starts at or after byte offset off. Only
// blanks, carriage returns, backslash-newline continuations and one comment
// may be skipped in front of a token. A NUL byte ends the text.
func c03RefScan(src []byte, off int) c03Tok {
	i := off
	for {
		b := c03At(src, i)
		if b == ' ' || b == '\t' || b == '\r' {
			i++
			continue
		}
		if b == '\\' {
			j := i + 1
			if c03At(src, j) == '\r' {
				j++
			}
			if c03At(src, j) != '\n' {
				return c03Tok{class: 'x', start: i, end: i}
			}
			i = j + 1
			continue
		}
		break
	}
	if c03At(src, i) == '#' {
		i++
		for c03At(src, i) != '\n' && c03At(src, i) != 0 {
			i++
		}
	}
	b := c03At(src, i)
	if b == 0 {
		return c03Tok{class: 'e', start: i, end: i}
	}
	switch {
	case c03IsAlpha(b):
		j := i + 1
		for c03IsAlpha(c03At(src, j)) || c03IsDigit(c03At(src, j)) {
			j++
		}
		return c03Tok{class: 'w', start: i, end: j}
	case c03IsDigit(b) || b == '.':
		j := i
		got := false
		if b != '.' {
			for c03IsDigit(c03At(src, j)) {
				j++
				got = true
			}
			if c03At(src, j) == '.' {
				j++
			}
		} else {
			j++
		}
		for c03IsDigit(c03At(src, j)) {
			j++
			got = true
		}
		if !got {
			return c03Tok{class: 'x', start: i, end: i}
		}
		t := c03Tok{class: 'n', start: i}
		if e := c03At(src, j); e == 'e' || e == 'E' {
			k := j + 1
			if s := c03At(src, k); s == '+' || s == '-' {
				k++
			}
			if c03IsDigit(c03At(src, k)) {
				for c03IsDigit(c03At(src, k)) {
					k++
				}
				j = k
			} else {
				t.dangling = true
			}
		}
		t.end = j
		return t
	case b == '"' || b == '\'':
		j := i + 1
		for {
			c := c03At(src, j)
			if c == b {
				return c03Tok{class: 's', start: i, end: j + 1}
			}
			if c == 0 || c == '\r' || c == '\n' {
				return c03Tok{class: 'x', start: i, end: i}
			}
			if c != '\\' {
				j++
				continue
			}
			j++
			switch e := c03At(src, j); {
			case e == 'n' || e == 't' || e == 'r' || e == 'a' || e == 'b' || e == 'f' || e == 'v':
				j++
			case e == 'x':
				j++
				if c03Hex(c03At(src, j)) < 0 {
					return c03Tok{class: 'x', start: i, end: i}
				}
				j++
				if c03Hex(c03At(src, j)) >= 0 {
					j++
				}
			case e == 'u':
				j++
				r := c03Hex(c03At(src, j))
				if r < 0 {
					return c03Tok{class: 'x', start: i, end: i}
				}
				j++
				for n := 0; n < 7; n++ {
					d := c03Hex(c03At(src, j))
					if d < 0 {
						break
					}
					j++
					r = r*16 + d
				}
				if !utf8.ValidRune(rune(r)) {
					return c03Tok{class: 'x', start: i, end: i}
				}
			case e >= '0' && e <= '7':
				j++
				for n := 0; n < 2 && c03At(src, j) >= '0' && c03At(src, j) <= '7'; n++ {
					j++
				}
			default:
				// backslash followed by any other byte (also a NUL that is not the end of the text)
				if j < len(src) {
					j++
				}
			}
		}
	case b == '\n':
		return c03Tok{class: 'l', start: i, end: i + 1}
	}
	// operators, longest match first
	n1, n2 := c03At(src, i+1), c03At(src, i+2)
	ln := 0
	switch b {
	case '$', '@', '{', '}', '(', ')', ',', ';', '[', ']', '~', '?', ':':
		ln = 1
	case '=', '<', '/', '%', '^':
		ln = 1
		if n1 == '=' {
			ln = 2
		}
	case '>':
		ln = 1
		if n1 == '=' || n1 == '>' {
			ln = 2
		}
	case '+', '-':
		ln = 1
		if n1 == b || n1 == '=' {
			ln = 2
		}
	case '*':
		ln = 1
		if n1 == '*' {
			ln = 2
			if n2 == '=' {
				ln = 3
			}
		} else if n1 == '=' {
			ln = 2
		}
	case '!':
		ln = 1
		if n1 == '=' || n1 == '~' {
			ln = 2
		}
	case '&':
		if n1 == '&' {
			ln = 2
		}
	case '|':
		ln = 1
		if n1 == '|' {
			ln = 2
		}
	}
	if ln == 0 {
		return c03Tok{class: 'x', start: i, end: i}
	}
	return c03Tok{class: 'o', start: i, end: i + ln}
}

// c03RefRegex: the regex token whose opening slash is the first byte of the
// division token div ("/" or "/=") that was just scanned.
func c03RefRegex(src []byte, div c03Tok) c03Tok {
	j := div.end
	for c03At(src, j) != '/' {
		c := c03At(src, j)
		if c == 0 || c == '\r' || c == '\n' {
			return c03Tok{class: 'x', start: div.start, end: div.start}
		}
		if c == '\\' {
			j++
			if j < len(src) {
				j++
			}
			continue
		}
		j++
	}
	return c03Tok{class: 'r', start: div.start, end: j + 1}
}

// ---------------------------------------------------------------- runner

type c03Gen struct {
	Pre    string `json:"pre"`
	Unit   string `json:"unit"`
	Core   string `json:"core"`
	Closer string `json:"closer"`
	Post   string `json:"post"`
	K      int    `json:"k"`
	Form   int    `json:"form"` // 0 closed, 1 no closers, 2 units only
}

func (g *c03Gen) text() []byte {
	var b bytes.Buffer
	b.WriteString(g.Pre)
	for i := 0; i < g.K; i++ {
		b.WriteString(g.Unit)
	}
	if g.Form <= 1 {
		b.WriteString(g.Core)
	}
	if g.Form == 0 {
		for i := 0; i < g.K; i++ {
			b.WriteString(g.Closer)
		}
		b.WriteString(g.Post)
	}
	return b.Bytes()
}

type c03Case struct {
	Oracle string  `json:"oracle"` // tokpos | parse | errpos | cli
	Origin string  `json:"origin"`
	SrcQ   string  `json:"src_q,omitempty"` // Go-quoted (ASCII) source text
	Gen    *c03Gen `json:"gen,omitempty"`   // generator of a long text
}

type c03Runner struct {
	c *core.Ctx

	src    []byte
	line   []int32
	col    []int32
	origin string
	gen    *c03Gen

	// token walk
	tokFail     string // signature of the first mispositioned token ("" = none)
	tokObs      string
	desync      string
	calls       int64
	seenOut     map[string]bool
	sigCount    map[string]int
	cliSeen     map[string]bool
	cliRuns     int
	cliBudget   int
	cliOOR      int
	cliPath     string
	goawk       string
	noted       bool
	lastErr     string // result of the last text: "" accepted, else the parse error with its position
	callsBefore int64
	silent      bool
	cliInRange  int
	only        string // replay: evaluate only this oracle
	force       bool   // replay: no de-duplication of CLI runs
}

func newC03Runner(c *core.Ctx) *c03Runner {
	r := &c03Runner{c: c, seenOut: map[string]bool{}, sigCount: map[string]int{}, cliSeen: map[string]bool{}}
	r.goawk = core.GoawkBin()
	dir := filepath.Join(core.VerifDir, "work", "c03tmp")
	os.MkdirAll(dir, 0o755)
	r.cliPath = filepath.Join(dir, fmt.Sprintf("w%d.awk", c.Shard))
	r.cliBudget = 100                 // per worker: x16 workers (+ 25 each for positions outside the text) = at most 2000 process runs
	if os.Getenv("C03_NOCLI") != "" { // development knob
		r.cliBudget = 0
		r.cliOOR = 1 << 30
	}
	return r
}

const c03MaxPerSig = 12

func (r *c03Runner) fail(oracle, sig, observed string) {
	r.sigCount[sig]++
	if r.sigCount[sig] > c03MaxPerSig {
		r.c.Add("violations_not_listed", 1)
		return
	}
	cs := c03Case{Oracle: oracle, Origin: r.origin}
	if r.gen != nil {
		cs.Gen = r.gen
	} else {
		cs.SrcQ = strconv.QuoteToASCII(string(r.src))
	}
	r.c.Fail(sig, cs, observed)
}

func (r *c03Runner) outcome(s string) {
	if !r.seenOut[s] {
		r.seenOut[s] = true
		r.c.Outcome(s)
	}
}

// setText installs src and builds the independent offset -> (line, column) map:
// lines are separated by "\n", columns count bytes from 1, a CR counts zero.
func (r *c03Runner) setText(src []byte, origin string, gen *c03Gen) {
	r.src, r.origin, r.gen = src, origin, gen
	n := len(src) + 1
	if cap(r.line) < n {
		r.line = make([]int32, n, n*2)
		r.col = make([]int32, n, n*2)
	}
	r.line, r.col = r.line[:n], r.col[:n]
	ln, cl := int32(1), int32(1)
	for i := 0; i < n; i++ {
		r.line[i], r.col[i] = ln, cl
		if i < len(src) {
			if src[i] == '\n' {
				ln++
				cl = 1
			} else if src[i] != '\r' {
				cl++
			}
		}
	}
	r.tokFail, r.tokObs, r.desync = "", "", ""
}

const (
	c03ModeAll = iota
	c03ModeNever
	c03ModeAlways
	c03ModeHeur
)

func c03OperandEnd(t lexer.Token) bool {
	switch t {
	case lexer.NAME, lexer.NUMBER, lexer.STRING, lexer.REGEX, lexer.RPAREN, lexer.RBRACKET, lexer.INCR, lexer.DECR, lexer.F_LENGTH:
		return true
	}
	return false
}

// walk drives the real lexer from its current state in step with the reference
// lexer at offset off. Returns false when the walk of this text must stop.
func (r *c03Runner) walk(lx *lexer.Lexer, off int, dang bool, prev lexer.Token, mode int, path string) bool {
	for {
		pos, tok, val := lx.Scan()
		rt := c03RefScan(r.src, off)
		r.calls++
		if !r.cmp(pos, tok, val, rt, dang, "scan", path) {
			return false
		}
		if tok == lexer.EOF || tok == lexer.ILLEGAL {
			return true
		}
		off = rt.end
		if rt.dangling {
			dang = true
		}
		if tok == lexer.DIV || tok == lexer.DIV_ASSIGN {
			doRegex := false
			switch mode {
			case c03ModeAll:
				cp := *lx
				if !r.walk(&cp, off, dang, tok, mode, path+"d") {
					return false
				}
				doRegex = true
				path += "r"
			case c03ModeAlways:
				doRegex = true
			case c03ModeHeur:
				doRegex = !c03OperandEnd(prev)
			}
			if doRegex {
				pos, tok2, val2 := lx.ScanRegex()
				rr := c03RefRegex(r.src, rt)
				r.calls++
				if !r.cmp(pos, tok2, val2, rr, dang, "regex", path) {
					return false
				}
				if tok2 == lexer.ILLEGAL {
					return true
				}
				off = rr.end
				tok = tok2
			}
		}
		prev = tok
	}
}

func (r *c03Runner) cmp(pos lexer.Position, tok lexer.Token, val string, rt c03Tok, dang bool, how, path string) bool {
	if rt.class == 'x' || tok == lexer.ILLEGAL {
		if (rt.class == 'x') != (tok == lexer.ILLEGAL) {
			r.desync = fmt.Sprintf("reference class %c at offset %d, lexer %s %q (%s)", rt.class, rt.start, tok, val, how)
			return false
		}
		return true // lexical error: its position is judged by oracle (2) on the parser's error
	}
	text := string(r.src[rt.start:rt.end])
	ok := false
	switch rt.class {
	case 'e':
		ok = tok == lexer.EOF
	case 'l':
		ok = tok == lexer.NEWLINE
	case 'w':
		ok = tok == lexer.NAME && val == text || tok >= lexer.BEGIN && tok <= lexer.LAST_FUNC && tok.String() == text
	case 'n':
		ok = tok == lexer.NUMBER && val == text
	case 's':
		ok = tok == lexer.STRING
	case 'r':
		ok = tok == lexer.REGEX
	case 'o':
		ok = tok.String() == text || text == "**" && tok == lexer.POW || text == "**=" && tok == lexer.POW_ASSIGN
	}
	if !ok {
		r.desync = fmt.Sprintf("reference class %c %q at offset %d, lexer %s %q (%s)", rt.class, text, rt.start, tok, val, how)
		return false
	}
	wl, wc := int(r.line[rt.start]), int(r.col[rt.start])
	if pos.Line == wl && pos.Column == wc {
		return true
	}
	dir := ""
	switch {
	case pos.Line > wl:
		dir = "line-ahead"
	case pos.Line < wl:
		dir = "line-behind"
	case pos.Column > wc:
		dir = "column-ahead"
	default:
		dir = "column-behind"
	}
	ctx := "no-dangling-exponent-before"
	if dang {
		ctx = "after-number-with-dangling-exponent"
	}
	r.tokFail = fmt.Sprintf("tokpos %s %s %s", how, dir, ctx)
	r.tokObs = fmt.Sprintf("token %s %q (first byte at offset %d) reported at %d:%d, true position %d:%d; regex choices %q", tok, trunc(text, 24), rt.start, pos.Line, pos.Column, wl, wc, path)
	return false
}

// tokens runs oracle (4) on the installed text.
func (r *c03Runner) tokens() {
	slashes := bytes.Count(r.src, []byte{'/'})
	before := r.calls
	if slashes <= 10 {
		r.walk(lexer.NewLexer(r.src), 0, false, lexer.ILLEGAL, c03ModeAll, "")
	} else {
		for _, m := range []int{c03ModeNever, c03ModeAlways, c03ModeHeur} {
			if !r.walk(lexer.NewLexer(r.src), 0, false, lexer.ILLEGAL, m, fmt.Sprintf("mode%d", m)) {
				break
			}
		}
	}
	if r.silent {
		return
	}
	r.c.Add("transitions", r.calls-before)
	if r.desync != "" {
		r.c.Add("ref_lexer_disagrees_on_token_kind", 1)
		if !r.noted {
			r.noted = true
			r.c.Note("first_token_kind_disagreement", strconv.QuoteToASCII(string(r.src))+": "+r.desync)
		}
	}
	if r.tokFail != "" && (r.only == "" || r.only == "tokpos") {
		r.fail("tokpos", r.tokFail, r.tokObs)
	}
}

var (
	c03ReHex    = regexp.MustCompile(` \+0x[0-9a-f]+|0x[0-9a-f]+\??`)
	c03ReArgs   = regexp.MustCompile(`\((\{?[ ,?.{}]*\}?)+\)`)
	c03ReQuoted = regexp.MustCompile(`"[^"]*"`)
	c03ReDigits = regexp.MustCompile(`[0-9]+`)
)

func c03MsgKind(msg string) string {
	if i := strings.Index(msg, ": `"); i >= 0 {
		msg = msg[:i]
	}
	if i := strings.IndexByte(msg, '\n'); i >= 0 {
		msg = msg[:i]
	}
	msg = c03ReQuoted.ReplaceAllString(msg, `"_"`)
	msg = c03ReDigits.ReplaceAllString(msg, "N")
	if len(msg) > 80 {
		msg = msg[:80]
	}
	return msg
}

func c03ParseSafe(src []byte) (prog *parser.Program, err error, panicked string) {
	defer func() {
		if rec := recover(); rec != nil {
			st := string(debug.Stack())
			// keep the frames below the panic only
			if i := strings.Index(st, "panic("); i >= 0 {
				st = st[i:]
			}
			// no addresses / argument words: the text must be the same in every run
			st = c03ReHex.ReplaceAllString(st, "")
			st = c03ReArgs.ReplaceAllString(st, "(...)")
			panicked = fmt.Sprintf("%v\n%s", rec, st)
		}
	}()
	prog, err = parser.ParseProgram(src, nil)
	return
}

// c03PosClass classifies a position against the text: "" = inside.
func c03PosClass(src []byte, pos lexer.Position) (bad string, lineCls, colCls string) {
	nl := 1 + bytes.Count(src, []byte{'\n'})
	if pos.Line < 1 || pos.Line > nl {
		if pos.Column < 1 {
			return "line-outside-source", "beyond", "below1"
		}
		return "line-outside-source", "beyond", "any"
	}
	// find the line
	start := 0
	for l := 1; l < pos.Line; l++ {
		start += bytes.IndexByte(src[start:], '\n') + 1
	}
	end := bytes.IndexByte(src[start:], '\n')
	if end < 0 {
		end = len(src)
	} else {
		end += start
	}
	width := end - start - bytes.Count(src[start:end], []byte{'\r'})
	switch {
	case pos.Line == 1 && nl == 1:
		lineCls = "only"
	case pos.Line == 1:
		lineCls = "first"
	case pos.Line == nl:
		lineCls = "last"
	default:
		lineCls = "middle"
	}
	switch {
	case pos.Column < 1:
		return "column-below-1", lineCls, "below1"
	case pos.Column > width+1:
		return "column-beyond-line-end", lineCls, "beyond"
	case pos.Column == width+1:
		colCls = "end"
	case pos.Column == 1:
		colCls = "1"
	default:
		colCls = "mid"
	}
	return "", lineCls, colCls
}

// check runs all oracles on one text.
func (r *c03Runner) check(src []byte, origin string, gen *c03Gen) {
	r.setText(src, origin, gen)
	r.c.Add("states", 1)
	r.lastErr, r.callsBefore = "", r.calls
	r.tokens()
	drift := "token-positions-ok"
	if r.tokFail != "" {
		drift = "token-positions-already-wrong"
	}

	_, err, pn := c03ParseSafe(src)
	r.c.Eval(1)
	if pn != "" {
		if r.only == "" || r.only == "parse" {
			r.fail("parse", "parse-panic "+c03MsgKind(firstLine(pn)), "ParseProgram panicked: "+trunc(pn, 1500))
		}
		r.outcome("panic " + c03MsgKind(firstLine(pn)))
		return
	}
	if err == nil {
		r.outcome("accepted")
		return
	}
	pe, ok := err.(*parser.ParseError)
	if !ok {
		if r.only == "" || r.only == "errpos" {
			r.fail("errpos", "error-without-position", fmt.Sprintf("ParseProgram returned %T: %v", err, err))
		}
		return
	}
	kind := c03MsgKind(pe.Message)
	r.lastErr = fmt.Sprintf("%d:%d: %s", pe.Position.Line, pe.Position.Column, pe.Message)
	bad, lc, cc := c03PosClass(src, pe.Position)
	r.outcome("error " + kind + " line=" + lc + " col=" + cc)
	if bad != "" && (r.only == "" || r.only == "errpos") {
		sig := "errpos " + bad + " " + drift
		if r.tokFail == "" {
			sig += " msg=" + kind
		}
		r.fail("errpos", sig, fmt.Sprintf("parse error %q at %d:%d, but the text has %d line(s)%s",
			pe.Message, pe.Position.Line, pe.Position.Column, 1+bytes.Count(src, []byte{'\n'}), c03LineInfo(src, pe.Position.Line)))
	}
	// (3) the real binary, once per distinct class (always for positions outside the text, a few times)
	if r.only == "" || r.only == "cli" {
		key := kind + "|" + lc + "|" + cc + "|" + drift
		run := false
		if r.force {
			run = true
		} else if !r.cliSeen[key] && c03Owns(key, r.c.Shard, r.c.NShards) {
			if bad != "" && r.cliOOR < 15 {
				run = true
			} else if bad == "" && r.cliInRange < r.cliBudget {
				run = true
			} else {
				r.c.Add("cli_classes_not_run", 1)
				r.cliSeen[key] = true
			}
		}
		if run && r.cli(drift) && !r.force {
			// the class counts as shown only if the binary really got an erroneous program
			r.cliSeen[key] = true
			if bad != "" {
				r.cliOOR++
			} else {
				r.cliInRange++
			}
		}
	}
}

// c03Owns distributes the error classes over the workers, so that each class
// is shown to the real binary by exactly one worker (the first text of the
// class in that worker's share).
func c03Owns(key string, shard, n int) bool {
	if n <= 1 {
		return true
	}
	h := fnv.New32a()
	h.Write([]byte(key))
	return int(h.Sum32()%uint32(n)) == shard
}

func c03LineInfo(src []byte, line int) string {
	lines := bytes.Split(src, []byte{'\n'})
	if line >= 1 && line <= len(lines) {
		l := lines[line-1]
		return fmt.Sprintf("; line %d has %d byte(s), %d of them CR", line, len(l), bytes.Count(l, []byte{'\r'}))
	}
	return ""
}

// cli runs the real binary on the installed text (oracle 3).
func (r *c03Runner) cli(drift string) (ran bool) {
	src := r.src
	// what the command line tool parses: the file plus a newline if it has none at the end
	full := src
	if !bytes.HasSuffix(full, []byte("\n")) {
		full = append(append([]byte{}, src...), '\n')
	}
	_, err, pn := c03ParseSafe(full)
	if pn != "" || err == nil {
		return false // in-process panic is reported by oracle (1) for that text; an accepted program would be executed
	}
	if _, ok := err.(*parser.ParseError); !ok {
		return false
	}
	if len(full) != len(src) {
		// classify by what the binary parses: token positions of the text with the added newline
		sSrc, sFail, sObs, sDesync := r.src, r.tokFail, r.tokObs, r.desync
		r.setText(full, r.origin, r.gen)
		r.silent = true
		r.tokens()
		r.silent = false
		drift = "token-positions-ok"
		if r.tokFail != "" {
			drift = "token-positions-already-wrong"
		}
		r.setText(sSrc, r.origin, r.gen)
		r.tokFail, r.tokObs, r.desync = sFail, sObs, sDesync
	}
	if werr := os.WriteFile(r.cliPath, src, 0o644); werr != nil {
		panic(werr)
	}
	r.cliRuns++
	r.c.Eval(1)
	r.c.Add("cli_runs", 1)
	cmd := exec.Command(r.goawk, "-f", r.cliPath)
	cmd.Env = []string{"PATH=/usr/bin:/bin", "LC_ALL=C"}
	var stderr, stdout bytes.Buffer
	cmd.Stderr, cmd.Stdout = &stderr, &stdout
	if serr := cmd.Start(); serr != nil {
		panic(fmt.Sprintf("cannot start %s: %v", r.goawk, serr))
	}
	done := make(chan error, 1)
	go func() { done <- cmd.Wait() }()
	select {
	case <-done:
	case <-time.After(20 * time.Second):
		cmd.Process.Kill()
		<-done
		r.c.Add("cli_timeouts", 1) // not an oracle
		return true
	}
	code := cmd.ProcessState.ExitCode()
	out := stderr.String()
	out = strings.ReplaceAll(out, r.cliPath, "<file>")
	if strings.Contains(out, "panic:") && strings.Contains(out, "goroutine ") {
		what := "panic"
		for _, l := range strings.Split(out, "\n") {
			if strings.HasPrefix(l, "panic:") {
				what = c03MsgKind(l)
				break
			}
		}
		where := ""
		if i := strings.Index(out, "main.showSourceLine"); i >= 0 {
			where = " in showSourceLine"
		}
		r.fail("cli", "cli-panic"+where+" "+drift, fmt.Sprintf("exit status %d, stderr: %s | %s", code, firstLine(out), what))
		return true
	}
	if code != 1 {
		if code == 0 {
			return true // the binary accepted and ran it: outside this property
		}
		r.fail("cli", "cli-exit-status", fmt.Sprintf("exit status %d, stderr %q", code, trunc(out, 300)))
		return true
	}
	// "<name>:<line>:<col>: <message>\n<source line>\n<spaces>^\n"
	m := c03ReCliHead.FindStringSubmatch(out)
	if m == nil {
		r.fail("cli", "cli-no-position-line", fmt.Sprintf("stderr %q", trunc(out, 300)))
		return true
	}
	if !strings.HasSuffix(out, "^\n") {
		r.fail("cli", "cli-no-caret-line", fmt.Sprintf("stderr %q", trunc(out, 300)))
		return true
	}
	body := strings.TrimRight(out[:len(out)-2], " ")
	if !strings.HasSuffix(body, "\n") {
		r.fail("cli", "cli-no-caret-line", fmt.Sprintf("stderr %q", trunc(out, 300)))
		return true
	}
	body = body[:len(body)-1]
	if m[1] != "<file>" {
		r.fail("cli", "cli-no-file-name "+drift, fmt.Sprintf("stderr %q", trunc(out, 300)))
		return true
	}
	{
		ln, _ := strconv.Atoi(m[2])
		withNL := full
		if !bytes.HasSuffix(withNL, []byte{'\n'}) {
			withNL = append(append([]byte{}, full...), '\n') // the tool appends the missing final newline
		}
		lines := bytes.Split(withNL, []byte{'\n'})
		if ln < 1 || ln > len(lines) {
			r.fail("cli", "cli-line-number-outside-file "+drift, fmt.Sprintf("stderr %q", trunc(out, 300)))
			return true
		}
		want := strings.ReplaceAll(string(lines[ln-1]), "\t", "    ")
		if !strings.HasSuffix(body, "\n"+want) {
			r.fail("cli", "cli-shows-other-line "+drift, fmt.Sprintf("reported line %d is %q, stderr %q", ln, trunc(want, 100), trunc(out, 300)))
			return true
		}
	}
	return true
}

var c03ReCliHead = regexp.MustCompile(`^(<file>|):([0-9]+):(-?[0-9]+): `)

// ---------------------------------------------------------------- corpus

func c03Repo() string {
	if d := os.Getenv("VERIF_REPO"); d != "" {
		return d
	}
	return "/repo"
}

type c03Seed struct {
	name string
	src  []byte
}

// c03Corpus: AWK programs shipped in the repository (testdata) and every string
// literal of the lexer/parser/interp/goawk test files, smallest first.
func c03Corpus(maxFile, maxLit int) []c03Seed {
	repo := c03Repo()
	var seeds []c03Seed
	seen := map[string]bool{}
	add := func(name string, b []byte) {
		if len(b) == 0 || seen[string(b)] {
			return
		}
		seen[string(b)] = true
		seeds = append(seeds, c03Seed{name, b})
	}
	for _, dir := range []string{"testdata", "testdata/gawk", "testdata/other", "testdata/cover"} {
		ents, err := os.ReadDir(filepath.Join(repo, dir))
		if err != nil {
			continue
		}
		for _, e := range ents {
			n := e.Name()
			if e.IsDir() || !(strings.HasSuffix(n, ".awk") || strings.HasPrefix(n, "p.") || strings.HasPrefix(n, "t.") || strings.HasPrefix(n, "tt.")) {
				continue
			}
			b, err := os.ReadFile(filepath.Join(repo, dir, n))
			if err != nil || len(b) > maxFile {
				continue
			}
			add(dir+"/"+n, b)
		}
	}
	for _, f := range []string{"lexer/lexer_test.go", "parser/parser_test.go", "interp/interp_test.go", "goawk_test.go"} {
		fset := token.NewFileSet()
		af, err := goparser.ParseFile(fset, filepath.Join(repo, f), nil, 0)
		if err != nil {
			continue
		}
		k := 0
		ast.Inspect(af, func(n ast.Node) bool {
			if bl, ok := n.(*ast.BasicLit); ok && bl.Kind == token.STRING {
				if s, err := strconv.Unquote(bl.Value); err == nil && len(s) >= 2 && len(s) <= maxLit {
					k++
					add(fmt.Sprintf("%s#%d", f, k), []byte(s))
				}
			}
			return true
		})
	}
	sort.SliceStable(seeds, func(i, j int) bool {
		if len(seeds[i].src) != len(seeds[j].src) {
			return len(seeds[i].src) < len(seeds[j].src)
		}
		return seeds[i].name < seeds[j].name
	})
	return seeds
}

func (r *c03Runner) corpusUnit(sd c03Seed, i int) {
	src := sd.src
	n := len(src)
	// prefix
	r.check(src[:i:i], fmt.Sprintf("%s prefix %d", sd.name, i), nil)
	if i >= n {
		return
	}
	buf := make([]byte, 0, n)
	buf = append(append(buf, src[:i]...), src[i+1:]...)
	r.check(buf, fmt.Sprintf("%s delete %d", sd.name, i), nil)
	for _, sb := range c03SubstBytes {
		if sb == src[i] {
			continue
		}
		b2 := append([]byte{}, src...)
		b2[i] = sb
		r.check(b2, fmt.Sprintf("%s subst %d %#02x", sd.name, i, sb), nil)
	}
}

// ---------------------------------------------------------------- towers

type c03Tower struct {
	pre, unit, core, closer, post string
	maxK                          int // 0 = as many as fit in 32 KiB
}

var c03Towers = []c03Tower{
	{"", "(", "1", ")", "", 0},
	{"BEGIN{x=", "!", "1", "", "}", 0},
	{"BEGIN{x=", "- ", "1", "", "}", 0},
	{"BEGIN{x=", "-", "1", "", "}", 0},
	{"BEGIN{x=", "+ ", "1", "", "}", 0},
	{"BEGIN{x=", "$", "1", "", "}", 0},
	{"BEGIN{x=", "a[", "1", "]", "}", 0},
	{"function f(x){return x}\nBEGIN{x=", "f(", "1", ")", "}", 0},
	{"BEGIN{x=", "f(", "1", ")", "}", 0},
	{"", "{", "", "}", "", 0},
	{"BEGIN{", "if(1)", "x", "", "}", 0},
	{"BEGIN{", "if(1){", "x", "}", "}", 0},
	{"BEGIN{", "if(1)x;else ", "x", "", "}", 0},
	{"BEGIN{", "while(0)", "x", "", "}", 0},
	{"BEGIN{", "for(;;)", "break", "", "}", 0},
	{"BEGIN{", "do ", "x", "\nwhile(0)", "}", 0},
	{"BEGIN{x=", "1^", "1", "", "}", 0},
	{"BEGIN{x=", "y=", "1", "", "}", 0},
	{"BEGIN{x=", "1?", "1", ":1", "}", 0},
	{"BEGIN{x=", "1?1:", "1", "", "}", 0},
	{"BEGIN{x=", "length(", "1", ")", "}", 0},
	{"BEGIN{x=", "substr(", "1", ",1)", "}", 0},
	{"BEGIN{", "getline <", "\"f\"", "", "}", 0},
	// comma-separated groupings: bounded at k=200, because the instrumented build sorts the parser's
	// map of pending groupings by their rendered text at every map range (cubic in k; harness artefact)
	{"BEGIN{x=", "(1,", "1", ") in a", "}", 200},
	{"BEGIN{print ", "(1,", "1", ")", "}", 200},
	{"BEGIN{x=", "1 ", "1", "", "}", 0},
	{"BEGIN{x=", "1+", "1", "", "}", 0},
	{"BEGIN{x=", "1||", "1", "", "}", 0},
	{"BEGIN{x=", "1 in a ", "", "", "}", 0},
	{"BEGIN{x=", "1~", "1", "", "}", 0},
	// flat repetitions
	{"", "1e\n", "", "", "", 0},
	{"", "1e\r\n", "", "", "", 0},
	{"BEGIN{x=1", "\\\n", "", "", "}", 0},
	{"BEGIN{x=1", "\\\r\n", "", "", "}", 0},
	{"", "\r", "x", "", "", 0},
	{"", "\n", "x(", "", "", 0},
	{"", "x", "", "", "", 0},
	{"", "1", "", "", "", 0},
	{"BEGIN{x=", "\"a\"", "", "", "}", 0},
	{"BEGIN{x=\"", "\\\\", "", "", "\"}", 0},
	{"#", "#", "\n(", "", "", 0},
	{"", " ", "(", "", "", 0},
	{"", "\t", "(", "", "", 0},
	{"BEGIN{", ";", "", "", "}", 0},
	{"", "x\n", "(", "", "", 0},
	{"", "é", "", "", "", 0},
	{"BEGIN{x=\"", "é", "", "", "\"}", 0},
	{"", "/re/\n", "(", "", "", 0},
	{"BEGIN{", "x=1;", "", "", "}", 0},
	{"BEGIN{", "x=1\r\n", "(", "", "}", 0},
}

const c03MaxText = 32768

func c03TowerKs(t c03Tower, form int, thorough bool) []int {
	per := len(t.unit)
	fixed := len(t.pre)
	if form <= 1 {
		fixed += len(t.core)
	}
	if form == 0 {
		per += len(t.closer)
		fixed += len(t.post)
	}
	max := (c03MaxText - fixed) / per
	if t.maxK > 0 && max > t.maxK {
		max = t.maxK
	}
	ks := []int{1, 2, 3, 10, 100, 1000}
	if thorough {
		ks = []int{1, 2, 3, 4, 5, 10, 30, 100, 300, 1000, 3000, 10000}
	}
	var out []int
	for _, k := range ks {
		if k < max {
			out = append(out, k)
		}
	}
	return append(out, max)
}

// ---------------------------------------------------------------- run

func c03Run(c *core.Ctx) {
	r := newC03Runner(c)
	thorough := c.Thorough()

	parts := os.Getenv("C03_PARTS") // development knob: run only some of the parts a, b, c
	if parts == "" {
		parts = "abc"
	}
	if parts != "abc" || os.Getenv("C03_NOCLI") != "" {
		c.Cap("development knob C03_PARTS / C03_NOCLI set")
	}
	// (a) atom sequences
	maxAtoms := 4
	if !strings.Contains(parts, "a") {
		maxAtoms = -1
	}
	if thorough {
		maxAtoms = 5
	}
	var buf []byte
	for n := 0; n <= maxAtoms && !c.Expired(); n++ {
		idx := make([]int, n)
		for {
			if c.Mine() {
				if c.Expired() {
					break
				}
				buf = buf[:0]
				for _, i := range idx {
					buf = append(buf, c03Atoms[i]...)
				}
				r.check(buf, "atoms", nil)
				if c.Shard == 0 && n == 3 && r.lastErr != "" {
					c.Sample(map[string]any{"text": strconv.QuoteToASCII(string(buf)), "lexer_calls_compared": r.calls - r.callsBefore, "result": r.lastErr})
				}
			}
			k := n - 1
			for k >= 0 {
				idx[k]++
				if idx[k] < len(c03Atoms) {
					break
				}
				idx[k] = 0
				k--
			}
			if k < 0 {
				break
			}
		}
	}

	// (d) token sequences: the parser's own error paths. Every sequence of <= 4
	// tokens, and every sequence of 5 [thorough: 6] tokens that starts with a
	// statement keyword, over a parser-oriented token alphabet, as the body of
	// BEGIN { ... } and (<= 3 tokens) at the top level.
	if strings.Contains(parts, "a") {
		toks := c03ParseTokens
		starters := map[string]bool{"for": true, "if": true, "while": true, "do": true, "print": true, "printf": true, "delete": true, "getline": true, "return": true, "else": true}
		maxLen, maxFree := 5, 4
		if thorough {
			maxLen = 6
		}
		for n := 1; n <= maxLen && !c.Expired(); n++ {
			idx := make([]int, n)
			for {
				if n <= maxFree || starters[toks[idx[0]]] {
					if c.Mine() {
						if c.Expired() {
							break
						}
						buf = append(buf[:0], "BEGIN { "...)
						for _, i := range idx {
							buf = append(buf, toks[i]...)
							buf = append(buf, ' ')
						}
						buf = append(buf, '}')
						r.check(buf, "tokens", nil)
						if n <= 3 {
							r.check(buf[8:len(buf)-1], "tokens", nil)
						}
					}
				}
				k := n - 1
				for k >= 0 {
					idx[k]++
					if idx[k] < len(toks) {
						break
					}
					idx[k] = 0
					k--
				}
				if k < 0 {
					break
				}
			}
		}
	}

	// (e) statement sequences: every sequence of <= 3 statements over a statement
	// alphabet (loops with empty bodies, jump statements in and out of place,
	// empty statements, blocks) in each of the four containers: parser state
	// that one statement leaves behind for the next (loop depth, function
	// context) decides whether the next one is accepted.
	if strings.Contains(parts, "a") {
		stmts := c03Stmts
		conts := [][2]string{{"BEGIN { ", " }"}, {"{ ", " }"}, {"function f(p) { ", " }"}, {"END { ", " }"}, {"x { ", " } END { break }"}}
		for n := 1; n <= 3 && !c.Expired(); n++ {
			idx := make([]int, n)
			for {
				if c.Mine() {
					if c.Expired() {
						break
					}
					for _, ct := range conts {
						for _, sep := range []string{"; ", "\n"} {
							buf = append(buf[:0], ct[0]...)
							for k, i := range idx {
								if k > 0 {
									buf = append(buf, sep...)
								}
								buf = append(buf, stmts[i]...)
							}
							buf = append(buf, ct[1]...)
							r.check(buf, "statements", nil)
							if n == 1 {
								break
							}
						}
					}
				}
				k := n - 1
				for k >= 0 {
					idx[k]++
					if idx[k] < len(stmts) {
						break
					}
					idx[k] = 0
					k--
				}
				if k < 0 {
					break
				}
			}
		}
	}

	// (f) name-resolution error paths: parsing includes resolving every name to
	// a scalar or an array, and a conflict must come back as a positioned error.
	// One function whose parameter is named like a local, a special variable, a
	// global or the function itself x every pair of uses of that parameter
	// (scalar-like, array-like, passed on) x every use of a global in BEGIN.
	if strings.Contains(parts, "a") {
		names := []string{"p", "NF", "RSTART", "FS", "x", "ENVIRON", "f"}
		uses := []string{"N = 1", "N[1] = 1", "print N", "print N[1]", "N++", "delete N", "delete N[1]", "for (k in N) ;", "split(\"\", N)", "n = length(N)", "g(N)", "f(N)", "getline N", "(1 in N)", "sub(/a/, \"\", N)", "return N", "$N = 1", "N = N[1]"}
		begins := []string{"", "BEGIN { f(x) }", "BEGIN { f(x); x = 1 }", "BEGIN { f(x); x[1] = 1 }", "BEGIN { x[1]; f(x) }", "BEGIN { f(NF) }", "BEGIN { f(ENVIRON) }", "BEGIN { f() }", "BEGIN { NF[1] = 1 }", "BEGIN { f(f) }"}
		for _, name := range names {
			for i, u1 := range uses {
				for j, u2 := range uses {
					if !c.Mine() || c.Expired() {
						continue
					}
					_ = i
					_ = j
					for _, bg := range begins {
						for _, helper := range []string{"function g(q) { q[1] = 1 }", "function g(q) { q = 1 }", ""} {
							body := strings.ReplaceAll(u1+"; "+u2, "N", name)
							buf = append(buf[:0], "function f("...)
							buf = append(buf, name...)
							buf = append(buf, ") { "...)
							buf = append(buf, body...)
							buf = append(buf, " }\n"...)
							buf = append(buf, helper...)
							buf = append(buf, '\n')
							buf = append(buf, bg...)
							r.check(buf, "names", nil)
						}
					}
				}
			}
		}
	}

	// (b) corpus: prefixes, deletions, substitutions
	maxFile, maxLit := 2048, 300
	if thorough {
		maxFile, maxLit = 8192, 1000
	}
	seeds := c03Corpus(maxFile, maxLit)
	if !strings.Contains(parts, "b") {
		seeds = nil
	}
	c.Note("corpus_sources", float64(len(seeds)))
	for _, sd := range seeds {
		if c.Expired() {
			break
		}
		for i := 0; i <= len(sd.src); i++ {
			if !c.Mine() {
				continue
			}
			if c.Expired() {
				break
			}
			r.corpusUnit(sd, i)
		}
	}

	// (c) towers and flat repetitions up to 32 KiB
	towers := c03Towers
	if !strings.Contains(parts, "c") {
		towers = nil
	}
	old := debug.SetMaxStack(1 << 30) // the Go default, which the real binary runs with
	for _, t := range towers {
		for form := 0; form <= 2; form++ {
			if form == 1 && t.closer == "" && t.post == "" {
				continue // same text as form 0
			}
			if form == 2 && t.core == "" {
				continue // same text as form 1 (or 0)
			}
			for _, k := range c03TowerKs(t, form, thorough) {
				if !c.Mine() {
					continue
				}
				if c.Expired() {
					break
				}
				g := &c03Gen{Pre: t.pre, Unit: t.unit, Core: t.core, Closer: t.closer, Post: t.post, K: k, Form: form}
				c.Announce(c03Case{Oracle: "parse", Origin: "tower", Gen: g})
				r.check(g.text(), "tower", g)
			}
		}
	}
	debug.SetMaxStack(old)
}

func c03Replay(c *core.Ctx, raw json.RawMessage) {
	var cs c03Case
	if err := json.Unmarshal(raw, &cs); err != nil {
		panic(err)
	}
	r := newC03Runner(c)
	r.only = cs.Oracle
	r.force = true
	var src []byte
	if cs.Gen != nil {
		src = cs.Gen.text()
		old := debug.SetMaxStack(1 << 30)
		defer debug.SetMaxStack(old)
	} else {
		s, err := strconv.Unquote(cs.SrcQ)
		if err != nil {
			panic(err)
		}
		src = []byte(s)
	}
	r.check(src, cs.Origin, cs.Gen)
}

func init() {
	core.Register(&core.Check{
		ID:    "C03",
		Level: "model_checking",
		Rule: "bounded-exhaustive enumeration of source texts: (a) every sequence of <=4 (quick) / <=5 (thorough) atoms over a 41-atom alphabet covering every lexer branch; " +
			"(b) every prefix, every 1-byte deletion and every 1-byte substitution from 9 bytes at every offset of every corpus source (testdata programs up to 2 KiB quick / 8 KiB thorough and every string literal of the repo's test files); " +
			"(c) 50 nesting towers / flat repetitions at k = 1..max with the text reaching 32 KiB, closed / unclosed / truncated; " +
			"(e) every sequence of <=3 statements over a 29-statement alphabet (loops with empty bodies, jump statements in and out of place, empty statements) in 5 containers x 2 separators; " +
			"(d) token sequences over a 36-token parser-oriented alphabet (statement keywords, brackets, getline, in, regex, ?:, <, |, newline ...): every sequence of <=4 tokens and every sequence of 5 (thorough 6) tokens starting with a statement keyword, as the body of BEGIN { } and (<=3 tokens) at top level; " +
			"(f) name-resolution error paths: one function whose parameter is named like a local, a special variable, a global or the function itself x every ordered pair of 18 uses of it (scalar-like, array-like, passed on) x 10 BEGIN blocks using a global x 3 helper functions. " +
			"A state is one source text; a transition is one lexer API call (Scan, or ScanRegex after a division token — all 2^k choices are explored when the text has <=10 slashes, else 3 fixed policies) compared with the reference lexer; " +
			"evaluations are ParseProgram calls plus runs of the real binary; a distinct outcome is accepted / (error message kind, line class, column class) / panic",
		Assumptions: []string{
			"a NUL byte ends the program text (the lexer's documented end marker); the end-of-text token is positioned at that byte or one past the last byte",
			"an error position may be one past the last byte of a line (column = 1 + number of non-CR bytes) and on the empty line after a final newline",
			"token kinds are used only to keep the reference lexer in step; a disagreement on kind is counted (ref_lexer_disagrees_on_token_kind, 0 on the pinned tree) but is not a violation — only positions are",
			"the position of a lexical error (ILLEGAL) is judged through the parse error that carries it (oracle 2), not at the lexer level",
			"the binary is observed with -f <file> (it appends a newline to a file that lacks one); only exit status 1, absence of a Go panic trace, the 'line:col: message' head, the displayed source line (when a file name is shown) and a caret line are required; the ':0:col' head shown for errors at end of input is not judged",
			"each distinct class (message kind x line class x column class x token-drift) is shown to the binary by one worker, first text of the class; at most 110 runs per worker for in-range positions plus 15 for positions outside the text (<= 2000 process runs; cli_classes_not_run counts classes beyond that)",
			"towers are parsed with Go's default 1 GB stack limit (the limit of the real binary), not the harness's 256 MB",
		},
		Run:    c03Run,
		Replay: c03Replay,
		// soft deadlines generous enough for a heavily shared machine (quick needs ~20-40 s of an idle 16-core box, thorough ~5 min)
		QuickBudget:    1200,
		ThoroughBudget: 3600,
	})
}

package checks

import (
	"fmt"
	"strings"

	"github.com/benhoyt/goawk/interp"

	"verifharness/awk"
	"verifharness/core"
)

// C05 part 2 — subscripts and print: a number used as a subscript is converted
// like any number-to-string conversion (integers as integers, anything else
// through the CONVFMT in force at that moment), whether it is written as a
// literal, held in a variable or computed; print uses OFMT the same way in
// every output mode. Every number x CONVFMT x spelling; the element named by
// the literal must be the element named by the variable.

type c05bCase struct {
	Part    string `json:"part"`
	Num     string `json:"num"`
	ConvFmt string `json:"convfmt"`
	Src     string `json:"src"`
}

var c05bNums = []string{"0.5", "3.14159", "0.1", "100000.5", "1e-5", "2.50", "17", "1e3", "-0.75", "123456789.25", "1e6", ".5"}
var c05bFmts = []string{"%.6g", "%.2f", "%.2g", "%d", "%.10g", "%5.1f", "%e"}

func c05bRun(c *core.Ctx) {
	for _, n := range c05bNums {
		for _, cf := range c05bFmts {
			if !c.Mine() || c.Expired() {
				continue
			}
			c.Add("states", 1)
			// key() reports the one key of the array; the four arrays are filled through different spellings
			src := fmt.Sprintf(`function key(arr, k) { for (k in arr) return k; return "<none>" }
BEGIN {
	CONVFMT = "%s"
	x = %s
	lit[%s] = 1; var[x] = 1; cmp[x + 0] = 1; str[x ""] = 1; multi[1, %s] = 1; mv[1, x] = 1
	print key(lit) "|" key(var) "|" key(cmp) "|" key(str) "|" (x "")
	print (%s in var) (x in lit) ((1, %s) in mv) ((1, x) in multi)
	delete lit[x]; delete var[%s]; print length(lit) length(var)
	CONVFMT = "%%.3g"; late[%s] = 1; y = %s; late2[y] = 1; print key(late) "|" key(late2) "|" (y "")
}`, cf, n, n, n, n, n, n, n, n)
			prog := awk.MustParse(src, nil)
			res := awk.Exec(prog, &interp.Config{})
			c.Eval(1)
			c.Add("transitions", 1)
			cs := c05bCase{Part: "subscript", Num: n, ConvFmt: cf, Src: src}
			if res.Panic != "" || res.Err != nil {
				c.Fail("subscript:run-failed", cs, fmt.Sprintf("panic=%s err=%v", firstLine(res.Panic), res.Err))
				continue
			}
			c.Outcome("subscript " + res.Out)
			lines := strings.Split(res.Out, "\n")
			if len(lines) < 4 {
				c.Fail("subscript:output-shape", cs, res.Out)
				continue
			}
			k := strings.Split(lines[0], "|")
			switch {
			case len(k) != 5 || k[0] != k[1] || k[1] != k[2] || k[2] != k[3] || k[3] != k[4]:
				c.Fail("subscript:literal-variable-computed-and-string-form-name-different-elements", cs, "keys (literal|variable|computed|x \"\"|x \"\"): "+lines[0])
			case lines[1] != "1111":
				c.Fail("subscript:in-operator-disagrees-between-literal-and-variable", cs, lines[1])
			case lines[2] != "00":
				c.Fail("subscript:delete-through-the-other-spelling-left-the-element", cs, lines[2])
			}
			k2 := strings.Split(lines[3], "|")
			if len(k2) != 3 || k2[0] != k2[1] || k2[1] != k2[2] {
				c.Fail("subscript:literal-subscript-ignores-the-CONVFMT-in-force", cs, "after CONVFMT=%.3g (literal|variable|y \"\"): "+lines[3])
			}
		}
	}
}

package checks

import (
	"encoding/json"
	"fmt"
	"os"
	"runtime/debug"
	"sort"
	"strconv"
	"strings"

	"github.com/benhoyt/goawk/parser"
	"github.com/benhoyt/goawk/vexp"

	"verifharness/awk"
	"verifharness/core"
)

// C16 — scalar/array typing is sound, exact and independent of declaration
// order (shapes B + D).
//
// A program is a *set of usage atoms* over a universe (functions x parameters,
// globals, BEGIN).  All atom sets up to a size bound are enumerated, smallest
// first.  For each program:
//   (1) the verdict of parser.ParseProgram is compared with an independent
//       union-find unifier;
//   (2) accepted programs are executed and compared with a direct simulation
//       of the atom program (arrays by reference, scalars copied, missing
//       arguments fresh) and with the reference evaluator refawk;
//   (3) every permutation of the top-level items and two renamings must give
//       the same verdict and output;
//   (4) for a reduced set, every execution of the parser with <=2 deviations
//       from sorted order at the executed map-range sites must give the same
//       verdict (and, with one deviation, the same behaviour).

// ---------------------------------------------------------------- universe

type c16Univ struct {
	Name  string
	K     []int // parameters per function
	NG    int   // globals
	GInF  bool  // globals may be used inside function bodies
	UseL  bool  // length(v) atoms
	EIn   int   // constant-argument atoms: 0 none, 1 in BEGIN only, 2 in every scope
	ZCall bool  // zero-argument call atoms
	X     bool  // per-variable "passed as non-variable expression" atoms: f(v "")
	GFwd  bool  // with GInF: globals inside functions get only the passing atoms

	pbase []int
	nodes int
	atoms []c16Atom
}

// c16Atom is one usage atom. Scope 0 is BEGIN, scope i+1 is function i.
type c16Atom struct {
	Scope int
	Kind  byte // S scalar use, A array use, L length(v), P passed to F's parameter J, X passed as v "" to F/J, E constant passed to F/J, C F()
	Var   int  // node: globals 0..NG-1, then parameters
	F, J  int
}

func (u *c16Univ) init() *c16Univ {
	u.pbase = make([]int, len(u.K))
	n := u.NG
	for i, k := range u.K {
		u.pbase[i] = n
		n += k
	}
	u.nodes = n
	for s := 0; s <= len(u.K); s++ {
		var vis []int
		own := map[int]bool{}
		if s > 0 {
			for j := 0; j < u.K[s-1]; j++ {
				vis = append(vis, u.pbase[s-1]+j)
				own[u.pbase[s-1]+j] = true
			}
		}
		if s == 0 || u.GInF {
			for g := 0; g < u.NG; g++ {
				vis = append(vis, g)
			}
		}
		for _, v := range vis {
			fwdOnly := s > 0 && !own[v] && u.GFwd
			if !fwdOnly {
				u.atoms = append(u.atoms, c16Atom{Scope: s, Kind: 'S', Var: v}, c16Atom{Scope: s, Kind: 'A', Var: v})
				if u.UseL {
					u.atoms = append(u.atoms, c16Atom{Scope: s, Kind: 'L', Var: v})
				}
			}
			for f, k := range u.K {
				for j := 0; j < k; j++ {
					u.atoms = append(u.atoms, c16Atom{Scope: s, Kind: 'P', Var: v, F: f, J: j})
					if u.X && !fwdOnly {
						u.atoms = append(u.atoms, c16Atom{Scope: s, Kind: 'X', Var: v, F: f, J: j})
					}
				}
			}
		}
		for f, k := range u.K {
			if u.EIn == 2 || (u.EIn == 1 && s == 0) {
				for j := 0; j < k; j++ {
					u.atoms = append(u.atoms, c16Atom{Scope: s, Kind: 'E', Var: -1, F: f, J: j})
				}
			}
			if u.ZCall {
				u.atoms = append(u.atoms, c16Atom{Scope: s, Kind: 'C', Var: -1, F: f})
			}
		}
	}
	return u
}

func (u *c16Univ) nodeLabel(v int) string {
	if v < u.NG {
		return fmt.Sprintf("G%d", v+1)
	}
	for i := len(u.K) - 1; i >= 0; i-- {
		if v >= u.pbase[i] {
			return fmt.Sprintf("F%d.p%d", i+1, v-u.pbase[i]+1)
		}
	}
	return "?"
}

func (u *c16Univ) atomLabel(a c16Atom) string {
	sc := "BEGIN"
	if a.Scope > 0 {
		sc = fmt.Sprintf("F%d", a.Scope)
	}
	switch a.Kind {
	case 'S':
		return sc + ": scalar use of " + u.nodeLabel(a.Var)
	case 'A':
		return sc + ": array use of " + u.nodeLabel(a.Var)
	case 'L':
		return sc + ": length(" + u.nodeLabel(a.Var) + ")"
	case 'P':
		return fmt.Sprintf("%s: %s passed to F%d.p%d", sc, u.nodeLabel(a.Var), a.F+1, a.J+1)
	case 'X':
		return fmt.Sprintf("%s: (%s \"\") passed to F%d.p%d", sc, u.nodeLabel(a.Var), a.F+1, a.J+1)
	case 'E':
		return fmt.Sprintf("%s: constant passed to F%d.p%d", sc, a.F+1, a.J+1)
	default:
		return fmt.Sprintf("%s: F%d()", sc, a.F+1)
	}
}

func c16Universes() []*c16Univ {
	return []*c16Univ{
		// 2 functions x 2 parameters, 2 globals visible everywhere, every atom kind
		(&c16Univ{Name: "2x2", K: []int{2, 2}, NG: 2, GInF: true, UseL: true, EIn: 2, ZCall: true}).init(),
		// the same without length(), zero-argument calls and constants outside BEGIN (one more atom affordable)
		(&c16Univ{Name: "2x2core", K: []int{2, 2}, NG: 2, GInF: true, EIn: 1}).init(),
		// 3 functions x 1 parameter, 2 globals visible everywhere
		(&c16Univ{Name: "3x1", K: []int{1, 1, 1}, NG: 2, GInF: true, UseL: true, EIn: 2, ZCall: true}).init(),
		// 3 functions x 1 parameter, one global that functions can only forward: deep call graphs
		(&c16Univ{Name: "3x1deep", K: []int{1, 1, 1}, NG: 1, GInF: true, GFwd: true, EIn: 1}).init(),
		// mixed arity with expression arguments built from variables
		(&c16Univ{Name: "2x(1,2)expr", K: []int{1, 2}, NG: 1, GInF: false, UseL: true, EIn: 1, ZCall: true, X: true}).init(),
	}
}

func c16FindUniv(name string) *c16Univ {
	for _, u := range c16Universes() {
		if u.Name == name {
			return u
		}
	}
	return nil
}

// ---------------------------------------------------------------- program IR

type c16Arg struct {
	Kind byte // v variable, x `v ""`, c constant 1, z fresh global
	Node int
	Z    int
}

type c16Stmt struct {
	Op   byte // s pre scalar, a pre array, c call, S post scalar, A post array, L post length
	Node int
	Tag  string
	Form int
	F    int
	Args []c16Arg
}

type c16IR struct {
	Scopes [][]c16Stmt
	NZ     int
	ATags  []string
}

func (u *c16Univ) build(set []int) *c16IR {
	ir := &c16IR{Scopes: make([][]c16Stmt, len(u.K)+1)}
	type slot struct{ pos [][]c16Arg }
	tagNo := 0
	tagOf := map[int]string{}
	for _, ai := range set {
		switch u.atoms[ai].Kind {
		case 'S', 'A', 'L':
			tagOf[ai] = "t" + string(rune('a'+tagNo))
			if u.atoms[ai].Kind == 'A' {
				ir.ATags = append(ir.ATags, tagOf[ai])
			}
			tagNo++
		}
	}
	for s := 0; s <= len(u.K); s++ {
		var pre, calls, post []c16Stmt
		pos := make([][][]c16Arg, len(u.K))
		for f, k := range u.K {
			pos[f] = make([][]c16Arg, k)
		}
		zero := make([]bool, len(u.K))
		for ord, ai := range set {
			a := u.atoms[ai]
			if a.Scope != s {
				continue
			}
			switch a.Kind {
			case 'S':
				pre = append(pre, c16Stmt{Op: 's', Node: a.Var, Tag: tagOf[ai], Form: ord})
				post = append(post, c16Stmt{Op: 'S', Node: a.Var, Tag: tagOf[ai]})
			case 'A':
				pre = append(pre, c16Stmt{Op: 'a', Node: a.Var, Tag: tagOf[ai], Form: ord})
				post = append(post, c16Stmt{Op: 'A', Node: a.Var, Tag: tagOf[ai]})
			case 'L':
				post = append(post, c16Stmt{Op: 'L', Node: a.Var, Tag: tagOf[ai]})
			case 'P':
				pos[a.F][a.J] = append(pos[a.F][a.J], c16Arg{Kind: 'v', Node: a.Var})
			case 'X':
				pos[a.F][a.J] = append(pos[a.F][a.J], c16Arg{Kind: 'x', Node: a.Var})
			case 'E':
				pos[a.F][a.J] = append(pos[a.F][a.J], c16Arg{Kind: 'c'})
			case 'C':
				zero[a.F] = true
			}
		}
		for f, k := range u.K {
			if zero[f] {
				calls = append(calls, c16Stmt{Op: 'c', F: f})
			}
			n := 0
			for j := 0; j < k; j++ {
				if len(pos[f][j]) > n {
					n = len(pos[f][j])
				}
			}
			for idx := 0; idx < n; idx++ {
				last := -1
				for j := 0; j < k; j++ {
					if idx < len(pos[f][j]) {
						last = j
					}
				}
				var args []c16Arg
				for j := 0; j <= last; j++ {
					if idx < len(pos[f][j]) {
						args = append(args, pos[f][j][idx])
					} else {
						ir.NZ++
						args = append(args, c16Arg{Kind: 'z', Z: ir.NZ})
					}
				}
				calls = append(calls, c16Stmt{Op: 'c', F: f, Args: args})
			}
		}
		ir.Scopes[s] = append(append(pre, calls...), post...)
	}
	return ir
}

// ---------------------------------------------------------------- oracle 1: unifier

const (
	c16TS = 1
	c16TA = 2
)

// c16Expect returns, per node, the type set of its class (bit 1 scalar, bit 2
// array) and whether some class needs both.
func (u *c16Univ) expect(set []int) (reject bool, types []int) {
	parent := make([]int, u.nodes)
	mask := make([]int, u.nodes)
	for i := range parent {
		parent[i] = i
	}
	var find func(int) int
	find = func(x int) int {
		for parent[x] != x {
			parent[x] = parent[parent[x]]
			x = parent[x]
		}
		return x
	}
	for _, ai := range set {
		a := u.atoms[ai]
		switch a.Kind {
		case 'S':
			mask[find(a.Var)] |= c16TS
		case 'A':
			mask[find(a.Var)] |= c16TA
		case 'P':
			x, y := find(a.Var), find(u.pbase[a.F]+a.J)
			if x != y {
				parent[x] = y
				mask[y] |= mask[x]
			}
		case 'X':
			mask[find(a.Var)] |= c16TS
			mask[find(u.pbase[a.F]+a.J)] |= c16TS
		case 'E':
			mask[find(u.pbase[a.F]+a.J)] |= c16TS
		}
	}
	types = make([]int, u.nodes)
	for i := range types {
		types[i] = mask[find(i)]
		if types[i] == c16TS|c16TA {
			reject = true
		}
	}
	return
}

// ---------------------------------------------------------------- text

type c16Names struct {
	F []string
	P [][]string
	G []string
	N string
	Z func(i int) string
}

func c16BaseNames() *c16Names {
	return &c16Names{F: []string{"f", "g", "h"}, P: [][]string{{"a", "b"}, {"c", "d"}, {"e", "k"}}, G: []string{"x", "y"}, N: "n",
		Z: func(i int) string { return "z" + strconv.Itoa(i) }}
}

// alpha-renaming: parameters of different functions share names, other relative orders
func c16AltNames() *c16Names {
	return &c16Names{F: []string{"m", "k", "l"}, P: [][]string{{"p", "q"}, {"p", "q"}, {"q", "p"}}, G: []string{"B", "A"}, N: "C",
		Z: func(i int) string { return "Z" + strconv.Itoa(9-i) }}
}

// c16ShadowNames: base names, but parameter j of a function is given the name
// of global j wherever the function's body does not use that global (a
// consistent renaming: the parameter shadows a global the body never refers to).
func c16ShadowNames(u *c16Univ, set []int) *c16Names {
	nm := c16BaseNames()
	for f, k := range u.K {
		ps := append([]string(nil), nm.P[f]...)
		for j := 0; j < k && j < u.NG; j++ {
			used := false
			for _, ai := range set {
				if a := u.atoms[ai]; a.Scope == f+1 && a.Var == j {
					used = true
				}
			}
			if !used {
				ps[j] = nm.G[j]
			}
		}
		nm.P[f] = ps
	}
	return nm
}

// c16SpecialNames: base names, but the parameters are named like special
// scalar variables (a parameter is an ordinary local whatever its name: it may
// be an array, and assigning it does not touch the special variable).
func c16SpecialNames() *c16Names {
	nm := c16BaseNames()
	nm.P = [][]string{{"NR", "RSTART"}, {"RLENGTH", "NR"}, {"FNR", "SUBSEP"}}
	return nm
}

// c16CollideNames: names whose concatenations coincide (function name +
// parameter name, or a global's name): "a"+"bc" = "ab"+"c" = global "abc",
// "a"+"rr" = global "arr". Nothing may be keyed by such a concatenation.
func c16CollideNames() *c16Names {
	return &c16Names{F: []string{"a", "ab", "abx"}, P: [][]string{{"bc", "rr"}, {"c", "xrr"}, {"rr", "c"}}, G: []string{"abc", "arr"}, N: "abxrr",
		Z: func(i int) string { return "abc" + strconv.Itoa(i) }}
}

// c16ReverseNames maps the sorted list of the names used by the program onto
// itself in reverse order.
func c16ReverseNames(u *c16Univ, nz int) *c16Names {
	b := c16BaseNames()
	var all []string
	all = append(all, b.F[:len(u.K)]...)
	for i, k := range u.K {
		all = append(all, b.P[i][:k]...)
	}
	all = append(all, b.G[:u.NG]...)
	all = append(all, b.N)
	for i := 1; i <= nz; i++ {
		all = append(all, b.Z(i))
	}
	sort.Strings(all)
	m := map[string]string{}
	for i, s := range all {
		m[s] = all[len(all)-1-i]
	}
	r := &c16Names{N: m[b.N]}
	for i, k := range u.K {
		r.F = append(r.F, m[b.F[i]])
		var ps []string
		for j := 0; j < k; j++ {
			ps = append(ps, m[b.P[i][j]])
		}
		r.P = append(r.P, ps)
	}
	for g := 0; g < u.NG; g++ {
		r.G = append(r.G, m[b.G[g]])
	}
	r.Z = func(i int) string { return m[b.Z(i)] }
	return r
}

func (u *c16Univ) name(nm *c16Names, v int) string {
	if v < u.NG {
		return nm.G[v]
	}
	for i := len(u.K) - 1; i >= 0; i-- {
		if v >= u.pbase[i] {
			return nm.P[i][v-u.pbase[i]]
		}
	}
	panic("bad node")
}

const c16Depth = 3

var c16BareS = []string{`%s = 1`, `%s++`, `sub(/a/, "b", %s)`, `print %s`}
var c16BareA = []string{`%s[1] = 1`, `delete %s`, `split("a b", %s)`, `(1 in %s)`, `delete %s[1]`, `for (i in %s) break`}

// emit renders the top-level items: index i = function i, index len(K) = BEGIN.
// style 0: observable bodies with a recursion-depth guard; style 1: bare uses
// in varying syntactic forms (never executed).
func (u *c16Univ) emit(ir *c16IR, nm *c16Names, style int) []string {
	items := make([]string, len(u.K)+1)
	for s := 0; s <= len(u.K); s++ {
		var st []string
		for _, x := range ir.Scopes[s] {
			v := ""
			if x.Op != 'c' {
				v = u.name(nm, x.Node)
			}
			switch x.Op {
			case 's':
				if style == 0 {
					st = append(st, fmt.Sprintf(`%s = %s "%s"`, v, v, x.Tag))
				} else {
					st = append(st, fmt.Sprintf(c16BareS[x.Form%len(c16BareS)], v))
				}
			case 'a':
				if style == 0 {
					st = append(st, fmt.Sprintf(`%s["%s"]++`, v, x.Tag))
				} else {
					st = append(st, fmt.Sprintf(c16BareA[x.Form%len(c16BareA)], v))
				}
			case 'S':
				if style == 0 {
					st = append(st, fmt.Sprintf(`print "%s" %s`, x.Tag, v))
				}
			case 'A':
				if style == 0 {
					var b strings.Builder
					fmt.Fprintf(&b, `print "%s"`, x.Tag)
					for i, t := range ir.ATags {
						if i > 0 {
							b.WriteString(` ":"`)
						}
						fmt.Fprintf(&b, ` %s["%s"]`, v, t)
					}
					st = append(st, b.String())
				}
			case 'L':
				if style == 0 {
					st = append(st, fmt.Sprintf(`print "%s" length(%s)`, x.Tag, v))
				} else {
					st = append(st, fmt.Sprintf(`length(%s)`, v))
				}
			case 'c':
				var args []string
				for _, a := range x.Args {
					switch a.Kind {
					case 'v':
						args = append(args, u.name(nm, a.Node))
					case 'x':
						args = append(args, u.name(nm, a.Node)+` ""`)
					case 'c':
						args = append(args, "1")
					case 'z':
						args = append(args, nm.Z(a.Z))
					}
				}
				st = append(st, nm.F[x.F]+"("+strings.Join(args, ", ")+")")
			}
		}
		body := strings.Join(st, "; ")
		if s == 0 {
			items[len(u.K)] = "BEGIN { " + body + " }"
		} else {
			f := s - 1
			if style == 0 {
				if body != "" {
					body += "; "
				}
				body = fmt.Sprintf("if (%s >= %d) return; %s++; %s%s--", nm.N, c16Depth, nm.N, body, nm.N)
			}
			items[f] = "function " + nm.F[f] + "(" + strings.Join(nm.P[f][:u.K[f]], ", ") + ") { " + body + " }"
		}
	}
	return items
}

func c16Join(items []string, perm []int) string {
	var b strings.Builder
	for i, p := range perm {
		if i > 0 {
			b.WriteByte('\n')
		}
		b.WriteString(items[p])
	}
	return b.String()
}

func c16Perms(n int) [][]int {
	var out [][]int
	cur := make([]int, 0, n)
	used := make([]bool, n)
	var rec func()
	rec = func() {
		if len(cur) == n {
			out = append(out, append([]int(nil), cur...))
			return
		}
		for i := 0; i < n; i++ {
			if !used[i] {
				used[i] = true
				cur = append(cur, i)
				rec()
				cur = cur[:len(cur)-1]
				used[i] = false
			}
		}
	}
	rec()
	return out
}

// ---------------------------------------------------------------- oracle 2: simulation

type c16Cell struct {
	arr map[string]int // present keys -> count (0 = created by a read)
	s   string
	isA bool
}

type c16Sim struct {
	u     *c16Univ
	ir    *c16IR
	types []int
	out   strings.Builder
	depth int
	glob  []*c16Cell
	zs    map[int]*c16Cell
	steps int
}

func c16NewCell(isA bool) *c16Cell {
	c := &c16Cell{isA: isA}
	if isA {
		c.arr = map[string]int{}
	}
	return c
}

func (u *c16Univ) simulate(ir *c16IR, types []int) string {
	sm := &c16Sim{u: u, ir: ir, types: types, zs: map[int]*c16Cell{}}
	for g := 0; g < u.NG; g++ {
		sm.glob = append(sm.glob, c16NewCell(types[g] == c16TA))
	}
	sm.run(0, nil)
	return sm.out.String()
}

func (sm *c16Sim) cell(scope int, locals []*c16Cell, node int) *c16Cell {
	if node < sm.u.NG {
		return sm.glob[node]
	}
	return locals[node-sm.u.pbase[scope-1]]
}

func (sm *c16Sim) run(scope int, locals []*c16Cell) {
	u := sm.u
	for _, x := range sm.ir.Scopes[scope] {
		sm.steps++
		if sm.steps > 100000 {
			panic("c16 simulation runaway")
		}
		switch x.Op {
		case 's':
			c := sm.cell(scope, locals, x.Node)
			c.s += x.Tag
		case 'a':
			c := sm.cell(scope, locals, x.Node)
			c.arr[x.Tag]++
		case 'S':
			sm.out.WriteString(x.Tag + sm.cell(scope, locals, x.Node).s + "\n")
		case 'A':
			c := sm.cell(scope, locals, x.Node)
			sm.out.WriteString(x.Tag)
			for i, t := range sm.ir.ATags {
				if i > 0 {
					sm.out.WriteString(":")
				}
				n, ok := c.arr[t]
				if !ok {
					c.arr[t] = 0 // a read creates the element
				}
				if n > 0 {
					sm.out.WriteString(strconv.Itoa(n))
				}
			}
			sm.out.WriteString("\n")
		case 'L':
			c := sm.cell(scope, locals, x.Node)
			if c.isA {
				sm.out.WriteString(x.Tag + strconv.Itoa(len(c.arr)) + "\n")
			} else {
				sm.out.WriteString(x.Tag + strconv.Itoa(len(c.s)) + "\n")
			}
		case 'c':
			// arguments are evaluated in the caller, then the callee's guard runs
			k := u.K[x.F]
			nl := make([]*c16Cell, k)
			for j := 0; j < k; j++ {
				isA := sm.types[u.pbase[x.F]+j] == c16TA
				if j >= len(x.Args) {
					nl[j] = c16NewCell(isA) // missing argument: fresh
					continue
				}
				a := x.Args[j]
				switch a.Kind {
				case 'v':
					src := sm.cell(scope, locals, a.Node)
					if isA {
						nl[j] = src // by reference
					} else {
						nl[j] = &c16Cell{s: src.s} // copied
					}
				case 'x':
					nl[j] = &c16Cell{s: sm.cell(scope, locals, a.Node).s}
				case 'c':
					nl[j] = &c16Cell{s: "1"}
				case 'z':
					// a "fresh" variable is a global used at this one call site only
					// (shared by all activations of the calling function)
					zc := sm.zs[a.Z]
					if zc == nil {
						zc = c16NewCell(isA)
						sm.zs[a.Z] = zc
					}
					if isA {
						nl[j] = zc
					} else {
						nl[j] = &c16Cell{s: zc.s}
					}
				}
			}
			if sm.depth >= c16Depth {
				continue
			}
			sm.depth++
			sm.run(x.F+1, nl)
			sm.depth--
		}
	}
}

// ---------------------------------------------------------------- running the real code

type c16Case struct {
	Univ     string   `json:"univ"`
	Atoms    []int    `json:"atoms"`
	Desc     []string `json:"desc"`
	Variant  string   `json:"variant"`
	Src      string   `json:"src"`
	Sched    [][2]int `json:"sched,omitempty"` // map-order deviations: (site execution index, choice)
	Level    int      `json:"level"`
	MapOrder int      `json:"map_order"`
}

func c16Typing(msg string) bool {
	return strings.Contains(msg, "can't use ") || strings.Contains(msg, "can't pass ")
}

// c16Verdict parses src: "accept", "reject" (a scalar/array typing error),
// "other:<msg>" (rejected for another reason) or "panic:<text>".
func c16Verdict(src string) (string, *parser.Program) {
	prog, err, pn := awk.Parse(src, nil)
	if pn != "" {
		return "panic:" + firstLine(pn), nil
	}
	if err != nil {
		msg := err.Error()
		if pe, ok := err.(*parser.ParseError); ok {
			msg = pe.Message
		}
		if c16Typing(msg) {
			return "reject", nil
		}
		return "other:" + msg, nil
	}
	return "accept", prog
}

func c16Want(reject bool) string {
	if reject {
		return "reject"
	}
	return "accept"
}

type c16SE struct {
	Site string
	N    int
}

// c16Choice returns the k-th non-identity order for n keys: k=0 reverse, k>=1
// rotation by k (for n=2 only the reverse).
func c16NChoices(n int) int {
	if n <= 2 {
		return 1
	}
	return n // reverse + rotations 1..n-1
}

func c16Choice(n, k int) []int {
	p := make([]int, n)
	if k == 0 {
		for i := range p {
			p[i] = n - 1 - i
		}
		return p
	}
	for i := range p {
		p[i] = (i + k) % n
	}
	return p
}

// c16ParseSched parses src with the given deviations from sorted map order.
func c16ParseSched(src string, dev [][2]int) (string, *parser.Program, []c16SE) {
	var trace []c16SE
	vexp.SetPermFn(func(site string, n int) []int {
		i := len(trace)
		trace = append(trace, c16SE{site, n})
		for _, d := range dev {
			if d[0] == i {
				return c16Choice(n, d[1])
			}
		}
		return nil
	})
	defer vexp.SetPermFn(nil)
	v, prog := c16Verdict(src)
	return v, prog, trace
}

type c16State struct {
	dir   string
	perms map[int][][]int
	vars  map[int][]c16Variant
}

func (st *c16State) permsOf(n int) [][]int {
	if st.perms == nil {
		st.perms = map[int][][]int{}
	}
	if p, ok := st.perms[n]; ok {
		return p
	}
	p := c16Perms(n)
	st.perms[n] = p
	return p
}

func c16VerdictSig(want, got string) string {
	switch {
	case strings.HasPrefix(got, "panic:"):
		return "parse-panic"
	case strings.HasPrefix(got, "other:"):
		return "rejected-for-non-typing-reason"
	case want == "reject":
		return "accepts-conflicting-use"
	default:
		return "rejects-consistent-program"
	}
}

type c16Opts struct {
	Variants int // 2 full: all permutations x 3 namings (+ bare spelling); 1 medium; 0 light (see variants)
	MapOrder int // explore all parser executions with up to this many map-order deviations (0, 1, 2)
}

type c16Variant struct {
	Naming int // 0 base, 1 reversed alphabetical order, 2 alpha-renaming, 3 parameters shadowing unused globals, 4 parameters named like special scalar variables
	Perm   []int
	Run    bool
}

// variants lists the (naming, order of top-level items) combinations tried at
// each level; the first is always the base variant. Items: functions 0..NF-1, BEGIN = NF.
func (st *c16State) variants(nf, level int) []c16Variant {
	key := nf*10 + level
	if v, ok := st.vars[key]; ok {
		return v
	}
	perms := c16Perms(nf + 1)
	rev := perms[len(perms)-1]
	var out []c16Variant
	switch level {
	case 2:
		for ni := 0; ni < 6; ni++ {
			for _, p := range perms {
				out = append(out, c16Variant{ni, p, true})
			}
		}
	case 1:
		for _, p := range perms {
			// for 3 functions: every order of the functions with BEGIN last, plus the fully reversed order
			if nf >= 3 && p[nf] != nf {
				continue
			}
			out = append(out, c16Variant{0, p, true})
		}
		if nf >= 3 {
			out = append(out, c16Variant{0, rev, true})
		}
		out = append(out, c16Variant{1, perms[0], true}, c16Variant{2, perms[0], true}, c16Variant{3, perms[0], true}, c16Variant{4, perms[0], true}, c16Variant{5, perms[0], true}, c16Variant{5, rev, true}, c16Variant{1, rev, true})
	default:
		out = append(out, c16Variant{0, perms[0], true}, c16Variant{1, rev, false}, c16Variant{4, perms[0], true}, c16Variant{5, perms[0], true})
	}
	if st.vars == nil {
		st.vars = map[int][]c16Variant{}
	}
	st.vars[key] = out
	return out
}

var c16NamingIDs = []string{"base", "reversed", "alpha", "shadow", "special", "collide"}

func (u *c16Univ) eval(c *core.Ctx, st *c16State, set []int, o c16Opts) {
	ir := u.build(set)
	reject, types := u.expect(set)
	want := c16Want(reject)
	desc := make([]string, len(set))
	for i, ai := range set {
		desc[i] = u.atomLabel(u.atoms[ai])
	}
	mk := func(variant, src string) c16Case {
		return c16Case{Univ: u.Name, Atoms: set, Desc: desc, Variant: variant, Src: src, Level: o.Variants, MapOrder: o.MapOrder}
	}
	n := len(u.K) + 1

	// bare spelling: verdict only
	if o.Variants >= 1 {
		ident := make([]int, n)
		for i := range ident {
			ident[i] = i
		}
		src := c16Join(u.emit(ir, c16BaseNames(), 1), ident)
		got, _ := c16Verdict(src)
		c.Eval(1)
		c.Add("transitions", 1)
		if got != want {
			c.Fail("verdict:"+c16VerdictSig(want, got)+":bare", mk("bare", src), "unifier: "+want+"; parser: "+got)
		}
	}

	expOut := ""
	if !reject {
		expOut = u.simulate(ir, types)
	}
	baseOK := true
	var items [6][]string
	var baseSrc string
	for vi, va := range st.variants(len(u.K), o.Variants) {
		if items[va.Naming] == nil {
			var nm *c16Names
			switch va.Naming {
			case 0:
				nm = c16BaseNames()
			case 1:
				nm = c16ReverseNames(u, ir.NZ)
			case 2:
				nm = c16AltNames()
			case 4:
				nm = c16SpecialNames()
			case 5:
				nm = c16CollideNames()
			default:
				nm = c16ShadowNames(u, set)
			}
			items[va.Naming] = u.emit(ir, nm, 0)
		}
		src := c16Join(items[va.Naming], va.Perm)
		variant := fmt.Sprintf("names=%s order=%v", c16NamingIDs[va.Naming], va.Perm)
		isBase := vi == 0
		if isBase {
			baseSrc = src
		}
		kind := "reordered"
		if va.Naming > 0 {
			kind = "renamed"
			if vi > 0 && !c16IsIdent(va.Perm) {
				kind = "renamed-and-reordered"
			}
		}
		got, prog := c16Verdict(src)
		c.Eval(1)
		c.Add("transitions", 1)
		if got != want {
			if isBase || !baseOK {
				baseOK = false
				c.Fail("verdict:"+c16VerdictSig(want, got), mk(variant, src), "unifier: "+want+"; parser: "+got)
			} else {
				c.Fail("verdict-changes-when-"+kind+":"+c16VerdictSig(want, got), mk(variant, src), "unifier and base variant: "+want+"; this variant: "+got)
			}
			continue
		}
		if isBase {
			c.Outcome(got + "\x00" + expOut)
		}
		if got != "accept" || !va.Run {
			continue
		}
		impl := runImpl(prog, "", nil, st.dir, false, 50000)
		c.Eval(1)
		c.Add("transitions", 1)
		if sig, obs := c16RunBad(impl, expOut); sig != "" {
			if isBase || !baseOK {
				baseOK = false
				c.Fail(sig, mk(variant, src), "impl: "+obs+" || simulation: out="+strconv.Quote(expOut))
			} else {
				c.Fail(sig+"-changes-when-"+kind, mk(variant, src), "impl: "+obs+" || base variant and simulation: out="+strconv.Quote(expOut))
			}
			continue
		}
		if isBase && o.Variants >= 1 {
			ref, unsup := refObs(prog, "", nil)
			if unsup != "" {
				c.Add("ref_unsupported", 1)
			} else {
				c.Add("traces_validated_against_impl", 1)
				if ok, k := sameObs(impl, ref, false); !ok {
					c.Fail("ref-mismatch:"+k, mk(variant, src), "impl: "+impl.String()+" || refawk: "+ref.String()+" ("+ref.ErrMsg+")")
				}
			}
		}
	}

	if o.MapOrder == 0 || !baseOK {
		return
	}
	// shape D: <=2 deviations from sorted order at the executed map-range sites
	v0, _, trace0 := c16ParseSched(baseSrc, nil)
	if v0 != want {
		c.Fail("hooked-parse-differs", mk("map-order", baseSrc), "plain: "+want+" hooked: "+v0)
		return
	}
	c.Add("map_order_programs", 1)
	c.NoteMax("max_site_executions", int64(len(trace0)))
	check := func(dev [][2]int, run bool) ([]c16SE, bool) {
		v, prog, tr := c16ParseSched(baseSrc, dev)
		c.Eval(1)
		c.Add("transitions", 1)
		c.Add("map_order_executions", 1)
		if v != want {
			cs := mk("map-order", baseSrc)
			cs.Sched = dev
			where := ""
			for _, d := range dev {
				if d[0] < len(tr) {
					where += fmt.Sprintf(" %s(n=%d)->%v", tr[d[0]].Site, tr[d[0]].N, c16Choice(tr[d[0]].N, d[1]))
				}
			}
			c.Fail("verdict-depends-on-map-order:"+c16VerdictSig(want, v), cs, "sorted order: "+want+"; with deviations"+where+": "+v)
			return tr, false
		}
		if run && v == "accept" {
			impl := runImpl(prog, "", nil, st.dir, false, 50000)
			c.Eval(1)
			if sig, obs := c16RunBad(impl, expOut); sig != "" {
				cs := mk("map-order", baseSrc)
				cs.Sched = dev
				c.Fail(sig+"-depends-on-map-order", cs, "with deviation at "+tr[dev[0][0]].Site+": "+obs+" || sorted order and simulation: out="+strconv.Quote(expOut))
				return tr, false
			}
		}
		return tr, true
	}
	for i := 0; i < len(trace0); i++ {
		for k := 0; k < c16NChoices(trace0[i].N); k++ {
			tr1, ok := check([][2]int{{i, k}}, true)
			if !ok {
				continue // already a violation with one deviation: do not report its extensions
			}
			for j := i + 1; j < len(tr1) && o.MapOrder >= 2; j++ {
				for k2 := 0; k2 < c16NChoices(tr1[j].N); k2++ {
					check([][2]int{{i, k}, {j, k2}}, false)
				}
			}
		}
	}
}

func c16IsIdent(p []int) bool {
	for i, x := range p {
		if i != x {
			return false
		}
	}
	return true
}

// c16RunBad classifies an execution of an accepted program against the expected output.
func c16RunBad(impl implObs, expOut string) (sig, obs string) {
	obs = impl.String()
	switch {
	case impl.Panic != "":
		return "run-panic", "panic: " + firstLine(impl.Panic)
	case impl.Budget:
		return "runaway", "step budget exceeded"
	case impl.Err:
		return "run-time-error-in-accepted-program", obs + " (" + impl.ErrMsg + ")"
	case impl.Status != 0 || impl.Out != expOut:
		return "behaviour", obs
	}
	return "", obs
}

// c16Subsets calls f with every k-subset of 0..n-1 in lexicographic order.
func c16Subsets(n, k int, f func(set []int) bool) {
	if k > n {
		return
	}
	idx := make([]int, k)
	for i := range idx {
		idx[i] = i
	}
	for {
		if !f(idx) {
			return
		}
		i := k - 1
		for i >= 0 && idx[i] == n-k+i {
			i--
		}
		if i < 0 {
			return
		}
		idx[i]++
		for j := i + 1; j < k; j++ {
			idx[j] = idx[j-1] + 1
		}
	}
}

// c16Plan: atom sets of exactly K atoms of universe Univ are evaluated at the
// given variant level, with or without map-order exploration.
type c16Plan struct {
	Univ     string
	K        int
	Level    int
	MapOrder int
}

func c16Plans(thorough bool) []c16Plan {
	spec := "2x2:0-2:2 2x2:3:1 2x2core:0-2:0:m2 2x2core:4:0 " +
		"3x1:0-2:2 3x1:3:1 " +
		"3x1deep:0-2:2:m2 3x1deep:3:1:m1 3x1deep:4:1 3x1deep:5:0 " +
		"2x(1,2)expr:0-2:2:m2 2x(1,2)expr:3:1 2x(1,2)expr:4:0"
	if thorough {
		spec = "2x2:0-3:2 2x2core:4:1 2x2:4:0 2x2core:0-2:0:m2 2x2core:3:0:m1 " +
			"3x1:0-2:2:m2 3x1:3:1 3x1:4:0 " +
			"3x1deep:0-3:2:m2 3x1deep:4:2:m1 3x1deep:5:1 3x1deep:6:0 " +
			"2x(1,2)expr:0-3:2:m2 2x(1,2)expr:4:1 2x(1,2)expr:5:0"
	}
	if e := os.Getenv("C16_PLAN"); e != "" { // debugging aid
		spec = e
	}
	var out []c16Plan
	for _, f := range strings.Fields(spec) {
		p := strings.Split(f, ":")
		lo, hi, ok := strings.Cut(p[1], "-")
		if !ok {
			hi = lo
		}
		a, _ := strconv.Atoi(lo)
		b, _ := strconv.Atoi(hi)
		lv, _ := strconv.Atoi(p[2])
		for k := a; k <= b; k++ {
			mo := 0
			if len(p) > 3 {
				mo, _ = strconv.Atoi(strings.TrimPrefix(p[3], "m"))
			}
			out = append(out, c16Plan{p[0], k, lv, mo})
		}
	}
	return out
}

func c16Run(c *core.Ctx) {
	// many tiny parses and runs: trade memory for fewer collections
	defer debug.SetGCPercent(debug.SetGCPercent(800))
	st := &c16State{dir: c01Dir(c)}
	plans := c16Plans(c.Thorough())
	maxK := 0
	for _, p := range plans {
		if p.K > maxK {
			maxK = p.K
		}
	}
	univs := map[string]*c16Univ{}
	for _, u := range c16Universes() {
		univs[u.Name] = u
		c.Note("universe_"+u.Name+"_atoms", float64(len(u.atoms)))
	}
	sampled := 0
	// simplest first: by atom count across universes
	for k := 0; k <= maxK; k++ {
		for _, p := range plans {
			if p.K != k {
				continue
			}
			u := univs[p.Univ]
			o := c16Opts{Variants: p.Level, MapOrder: p.MapOrder}
			c16Subsets(len(u.atoms), k, func(set []int) bool {
				if c.Expired() {
					return false
				}
				if !c.Mine() {
					return true
				}
				c.Add("states", 1)
				c.Add(fmt.Sprintf("programs_%s_level%d", u.Name, p.Level), 1)
				cp := append([]int(nil), set...)
				u.eval(c, st, cp, o)
				if sampled < 3 && k >= 3 && c.Shard == 0 {
					sampled++
					c.Sample(map[string]any{"universe": u.Name, "atoms": cp, "src": c16Join(u.emit(u.build(cp), c16BaseNames(), 0), c16Perms(len(u.K) + 1)[0])})
				}
				return true
			})
		}
	}
}

func c16Replay(c *core.Ctx, raw json.RawMessage) {
	var cs c16Case
	if err := json.Unmarshal(raw, &cs); err != nil {
		panic(err)
	}
	u := c16FindUniv(cs.Univ)
	if u == nil {
		panic("unknown universe " + cs.Univ)
	}
	st := &c16State{dir: c01Dir(c)}
	u.eval(c, st, cs.Atoms, c16Opts{Variants: cs.Level, MapOrder: cs.MapOrder})
}

func init() {
	core.Register(&core.Check{
		ID:    "C16",
		Level: "model_checking",
		Rule: "a program is a set of usage atoms {scalar use, array use, length(v), v passed to parameter j of function i, constant or (v \"\") passed to parameter j of i, i() with no arguments} " +
			"placed in BEGIN or in a function body, over universes: 2x2 (2 functions x 2 parameters + 2 globals usable everywhere), 2x2core (same without length/zero-argument calls/constants outside BEGIN), 3x1 (3 functions x 1 parameter + 2 globals), " +
			"3x1deep (3x1, one global that functions only forward: deep call graphs), 2x(1,2)expr (arities 1 and 2, expression arguments). " +
			"ALL atom sets of each size up to the per-universe bound are enumerated, smallest first (counters programs_<universe>_level<n>); every call graph on the functions incl. self/mutual recursion, " +
			"calls with fewer arguments than parameters, unused and only-forwarded parameters arise as atom sets. Arguments at the same call position are combined into one call; a missing earlier argument is a fresh global. " +
			"state = one atom set; transition = one parse or one execution on the real code. Variant levels: 2 = bare spelling + observable spelling x all permutations of the top-level items x 4 namings " +
			"(base, alphabetical order reversed, alpha-renaming with shared parameter names, parameters shadowing unused globals); 1 = bare + all orders of the functions (3 functions: BEGIN last, plus the fully reversed order) + the 3 renamings + reversed names in reversed order; " +
			"0 = base + reversed names in reversed order (verdict only). Every parsed variant must give the unifier's verdict; accepted variants are executed and compared with a direct simulation (by-reference arrays, copied scalars, fresh missing arguments); at levels 1-2 the base variant also with refawk. " +
			"Map order (map_order_programs): for the smaller atom sets every execution of ParseProgram with <=2 (largest sets: 1) deviations — the reverse or a rotation of the sorted key order at one executed map-range site — is explored (map_order_executions): same verdict, and same behaviour under 1 deviation. " +
			"distinct = distinct (verdict, expected output) of the base variant",
		Assumptions: []string{
			"antecedent of the property: only defined functions are called, never with more arguments than parameters, names of functions/parameters/globals are pairwise distinct (except parameters of different functions) and no specials/keywords; programs outside it are not generated",
			"length(v) constrains nothing; a class with no scalar/array use is free (the code picks scalar) — the simulation only observes length 0 for it",
			"a rejection must be one of the resolver's scalar/array messages (can't use … as …, can't pass … as … param); which message/position is reported is not compared (C19)",
			"under permuted map orders only the verdict (and with one deviation the behaviour) is compared, not the error message",
			"recursion is bounded by a depth guard on a global counter that every observable function body increments (adds one scalar global to every program)",
			"for-in / uninitialised-read semantics used by the simulation: reading v[k] creates the element",
		},
		Run:    c16Run,
		Replay: c16Replay,
	})
}

package checks

import (
	"bufio"
	"encoding/json"
	"errors"
	"fmt"
	"io"
	"os"
	"os/exec"
	"path/filepath"
	"strings"
	"syscall"

	"github.com/benhoyt/goawk/interp"
	"github.com/benhoyt/goawk/parser"

	"verifharness/awk"
	"verifharness/core"
	"verifharness/sched"
	"verifharness/vworld"
)

// C13 — output delivery (shapes X + S + D).
//  X: every operation sequence up to a length bound, run on the real interpreter
//     over virtual child processes, compared with a destination model.
//  S: for sequences with a live child sharing stdout, every interleaving of
//     {program, children, copy threads} up to a preemption bound.
//  D: a write failure injected at every byte offset of standard output.

// ---------------------------------------------------------------- shared writer

type c13WEvent struct {
	Thread string
	Data   string
}

type c13Writer struct {
	s        *sched.Sched
	busy     bool
	busyBy   string
	Log      []c13WEvent
	Overlaps []string
	FailAt   int // byte offset at which writes start failing (-1 = never)
	Written  int
	Failed   bool
}

var errC13Fail = errors.New("injected stdout write failure")

func (w *c13Writer) Write(p []byte) (int, error) {
	name := "main"
	if w.s != nil {
		name = w.s.CurrentName()
	}
	if w.busy {
		w.Overlaps = append(w.Overlaps, fmt.Sprintf("%s began a Write while %s was inside Write", name, w.busyBy))
	}
	w.busy, w.busyBy = true, name
	if w.s != nil {
		w.s.Yield()
	}
	defer func() { w.busy = false }()
	if w.FailAt >= 0 && w.Written+len(p) > w.FailAt {
		n := w.FailAt - w.Written
		if n < 0 {
			n = 0
		}
		if n > 0 {
			w.Log = append(w.Log, c13WEvent{name, string(p[:n])})
			w.Written += n
		}
		w.Failed = true
		return n, errC13Fail
	}
	w.Log = append(w.Log, c13WEvent{name, string(p)})
	w.Written += len(p)
	return len(p), nil
}

// c13BufWriter models a buffered, non-thread-safe Config.Output (like the
// bufio.Writer the CLI uses) while keeping the attribution of every byte to
// the thread that wrote it: bytes become visible in the underlying log only
// when flushed (goawk calls Flush through its flusher interface).
type c13BufWriter struct {
	w       *c13Writer
	pending []c13WEvent
	size    int
}

func (b *c13BufWriter) Write(p []byte) (int, error) {
	w := b.w
	name := w.s.CurrentName()
	if w.busy {
		w.Overlaps = append(w.Overlaps, fmt.Sprintf("%s began a Write while %s was inside Write", name, w.busyBy))
	}
	w.busy, w.busyBy = true, name
	w.s.Yield()
	b.pending = append(b.pending, c13WEvent{name, string(p)})
	b.size += len(p)
	w.busy = false
	if b.size > 4096 {
		return len(p), b.Flush()
	}
	return len(p), nil
}

func (b *c13BufWriter) Flush() error {
	w := b.w
	name := w.s.CurrentName()
	if w.busy {
		w.Overlaps = append(w.Overlaps, fmt.Sprintf("%s began a Flush while %s was inside Write", name, w.busyBy))
	}
	w.busy, w.busyBy = true, name
	w.s.Yield()
	w.Log = append(w.Log, b.pending...)
	b.pending, b.size = nil, 0
	w.busy = false
	return nil
}

func (w *c13Writer) String() string {
	var b strings.Builder
	for _, e := range w.Log {
		b.WriteString(e.Data)
	}
	return b.String()
}

// ---------------------------------------------------------------- operations + model

type c13Op struct {
	Kind string // see c13Ops
}

var c13Ops = []string{"print", "printf", "tofile", "append", "pipe1", "pipe2", "closef", "closea", "closep", "fflush", "fflushf", "system", "cmdget", "fileget", "status", "exit", "error"}

// statement text for op kind at position i
func c13Stmt(kind string, i int) string {
	switch kind {
	case "print":
		return fmt.Sprintf(`print "A%d"`, i)
	case "printf":
		return fmt.Sprintf(`printf "B%d;"`, i)
	case "tofull":
		return fmt.Sprintf(`print "E%d" > "/dev/full"`, i)
	case "emptyf":
		return `printf "" > "f1"`
	case "emptyt":
		return `printf "%s", nosuchvar > "f2"`
	case "emptya":
		return `printf "" >> "f2"`
	case "emptyp":
		return `printf "" | "cat"`
	case "csvemptyf": // a record of one empty field in CSV output mode is written as ""
		return `OUTPUTMODE = "csv"; print "" > "f1"; OUTPUTMODE = ""`
	case "csvemptyp":
		return `OUTPUTMODE = "csv"; print "" | "cat"; OUTPUTMODE = ""`
	case "csvempty":
		return `OUTPUTMODE = "csv"; print ""; OUTPUTMODE = ""`
	case "tofile":
		return fmt.Sprintf(`print "F%d" > "f1"`, i)
	case "append":
		return fmt.Sprintf(`print "G%d" >> "f2"`, i)
	case "pipe1":
		return fmt.Sprintf(`print "C%d" | "cat"`, i)
	case "pipe2":
		return fmt.Sprintf(`printf "D%d;" | "cat2"`, i)
	case "closef":
		return fmt.Sprintf(`r = close("f1"); print "R%d=" r`, i)
	case "closea":
		return fmt.Sprintf(`r = close("f2"); print "R%d=" r`, i)
	case "closep":
		return fmt.Sprintf(`r = close("cat"); print "R%d=" r`, i)
	case "fflush":
		return fmt.Sprintf(`r = fflush(); print "L%d=" r`, i)
	case "fflushf":
		return fmt.Sprintf(`r = fflush("f1"); print "L%d=" r`, i)
	case "system":
		return fmt.Sprintf(`r = system("emit:<S%d>"); print "Y%d=" r`, i, i)
	case "cmdget":
		return fmt.Sprintf(`v = "none"; r = ("emit:W%d" | getline v); print "V%d=" r ":" v`, i, i)
	case "fileget":
		return fmt.Sprintf(`v = "none"; r = (getline v < "f2"); print "U%d=" r ":" v`, i)
	case "status":
		return fmt.Sprintf(`print "q" | "exit:5"; r = close("exit:5"); print "X%d=" r; print "q" | "sig:2"; r = close("sig:2"); print "Z%d=" r`, i, i)
	case "exit":
		return "exit 3"
	case "error":
		return "r = 1 / 0"
	}
	panic("op kind " + kind)
}

type c13Child struct {
	proc    int // process number in start order
	name    string
	out     string // expected output on shared stdout
	startAt int    // index into prog tokens: number of program tokens emitted before start
	waitAt  int    // number of program tokens emitted before it was waited for (-1: end of run)
}

type c13Model struct {
	files     map[string]string
	openOut   map[string]string // name -> kind ("file","cmd")
	openIn    map[string]int    // name -> records consumed
	progTok   []string          // program's own stdout tokens, in order
	children  []*c13Child
	liveChild map[string]*c13Child
	status    int
	err       bool
	stderrAny bool
	nproc     int
	sysSnaps  []c13StartSnap // expected file contents / command input at the start of each system() child
}

func c13Expect(ops []string) *c13Model {
	m := &c13Model{files: map[string]string{"f2": "old\n"}, openOut: map[string]string{}, openIn: map[string]int{}, liveChild: map[string]*c13Child{}}
	emit := func(s string) { m.progTok = append(m.progTok, s) }
	closeOut := func(name string) int {
		kind, ok := m.openOut[name]
		if !ok {
			return -1
		}
		delete(m.openOut, name)
		if kind == "cmd" {
			c := m.liveChild[name]
			c.waitAt = len(m.progTok)
			delete(m.liveChild, name)
		}
		return 0
	}
	pipeTo := func(name, text string) {
		if _, ok := m.openOut[name]; !ok {
			m.openOut[name] = "cmd"
			c := &c13Child{proc: m.nproc, name: name, startAt: len(m.progTok), waitAt: -1}
			m.nproc++
			m.children = append(m.children, c)
			m.liveChild[name] = c
		}
		m.liveChild[name].out += text
	}
loop:
	for i, k := range ops {
		switch k {
		case "print":
			emit(fmt.Sprintf("A%d\n", i))
		case "printf":
			emit(fmt.Sprintf("B%d;", i))
		case "tofull":
			// a stream that accepts data into its buffer and fails every flush
			m.openOut["/dev/full"] = "full"
		case "emptyf": // writing nothing still opens (creates / truncates) the destination
			if _, ok := m.openIn["f1"]; ok {
				m.err = true
				break loop
			}
			if _, ok := m.openOut["f1"]; !ok {
				m.openOut["f1"] = "file"
				m.files["f1"] = ""
			}
		case "emptyt":
			if _, ok := m.openIn["f2"]; ok {
				m.err = true
				break loop
			}
			if _, ok := m.openOut["f2"]; !ok {
				m.openOut["f2"] = "file"
				m.files["f2"] = "" // > truncates on the first open
			}
		case "emptya":
			if _, ok := m.openIn["f2"]; ok {
				m.err = true
				break loop
			}
			if _, ok := m.openOut["f2"]; !ok {
				m.openOut["f2"] = "file"
			}
		case "emptyp":
			pipeTo("cat", "")
		case "csvemptyf":
			if _, ok := m.openIn["f1"]; ok {
				m.err = true
				break loop
			}
			if _, ok := m.openOut["f1"]; !ok {
				m.openOut["f1"] = "file"
				m.files["f1"] = ""
			}
			m.files["f1"] += "\"\"\n"
		case "csvemptyp":
			pipeTo("cat", "\"\"\n")
		case "csvempty":
			emit("\"\"\n")
		case "tofile":
			if _, ok := m.openIn["f1"]; ok {
				m.err = true
				break loop
			}
			if _, ok := m.openOut["f1"]; !ok {
				m.openOut["f1"] = "file"
				m.files["f1"] = ""
			}
			m.files["f1"] += fmt.Sprintf("F%d\n", i)
		case "append":
			if _, ok := m.openIn["f2"]; ok {
				m.err = true
				break loop
			}
			if _, ok := m.openOut["f2"]; !ok {
				m.openOut["f2"] = "file"
			}
			m.files["f2"] += fmt.Sprintf("G%d\n", i)
		case "pipe1":
			pipeTo("cat", fmt.Sprintf("C%d\n", i))
		case "pipe2":
			pipeTo("cat2", fmt.Sprintf("D%d;", i))
		case "closef":
			emit(fmt.Sprintf("R%d=%d\n", i, closeOut("f1")))
		case "closea":
			r := closeOut("f2")
			if r == -1 {
				if _, ok := m.openIn["f2"]; ok {
					delete(m.openIn, "f2")
					r = 0
				}
			}
			emit(fmt.Sprintf("R%d=%d\n", i, r))
		case "closep":
			emit(fmt.Sprintf("R%d=%d\n", i, closeOut("cat")))
		case "fflush":
			if m.openOut["/dev/full"] == "full" {
				// one stream cannot be flushed: -1 and a message, the others are still flushed
				m.stderrAny = true
				emit(fmt.Sprintf("L%d=-1\n", i))
			} else {
				emit(fmt.Sprintf("L%d=0\n", i))
			}
		case "fflushf":
			if _, ok := m.openOut["f1"]; ok {
				emit(fmt.Sprintf("L%d=0\n", i))
			} else {
				m.stderrAny = true
				emit(fmt.Sprintf("L%d=-1\n", i))
			}
		case "system":
			c := &c13Child{proc: m.nproc, name: "system", out: fmt.Sprintf("<S%d>", i), startAt: len(m.progTok), waitAt: len(m.progTok)}
			// system() flushes every open output stream first: what was printed to files
			// and commands so far must have reached them when the child starts
			snap := c13StartSnap{Proc: m.nproc, Files: map[string]string{}, CmdIn: map[string]int{}}
			for name, kind := range m.openOut {
				if kind == "file" {
					snap.Files[name] = m.files[name]
				} else if lc := m.liveChild[name]; lc != nil {
					snap.CmdIn[name] = len(lc.out)
				}
			}
			m.sysSnaps = append(m.sysSnaps, snap)
			m.nproc++
			m.children = append(m.children, c)
			emit(fmt.Sprintf("Y%d=0\n", i))
		case "cmdget":
			emit(fmt.Sprintf("V%d=1:W%d\n", i, i))
			m.nproc++
			m.openIn[fmt.Sprintf("emit:W%d", i)] = 1
		case "fileget":
			if _, ok := m.openOut["f2"]; ok {
				m.err = true
				break loop
			}
			n := m.openIn["f2"]
			// the reader sees the file as it was when first opened; only reached when f2 is not open for writing
			lines := strings.SplitAfter(m.files["f2"], "\n")
			if lines[len(lines)-1] == "" {
				lines = lines[:len(lines)-1]
			}
			if n == 0 {
				m.openIn["f2"] = 0
			}
			if n < len(lines) {
				emit(fmt.Sprintf("U%d=1:%s\n", i, strings.TrimSuffix(lines[n], "\n")))
				m.openIn["f2"] = n + 1
			} else {
				emit(fmt.Sprintf("U%d=0:none\n", i))
			}
		case "status":
			m.nproc += 2
			emit(fmt.Sprintf("X%d=5\n", i))
			emit(fmt.Sprintf("Z%d=258\n", i))
		case "exit":
			m.status = 3
			break loop
		case "error":
			m.err = true
			break loop
		}
	}
	return m
}

// c13ReaderStale: "fileget" after an earlier reader was opened and the file was
// appended+closed in between sees a stale view in the model only if the model
// tracked content at open; we avoid the ambiguity by not generating sequences
// where f2 is re-read after being modified while the reader stayed open.
func c13Ambiguous(ops []string) bool {
	readerOpen, modified := false, false
	for _, k := range ops {
		switch k {
		case "fileget":
			if readerOpen && modified {
				return true
			}
			readerOpen = true
		case "append":
			if readerOpen {
				modified = true
			}
		case "closea":
			// closes whichever stream "f2" is; if a reader was open and then a writer... keep simple
			readerOpen, modified = false, false
		}
	}
	return false
}

type c13Case struct {
	Ops      []string `json:"ops"`
	Buffered bool     `json:"buffered"`
	Choices  []int    `json:"choices,omitempty"`
	Part     string   `json:"part"`
	FailAt   int      `json:"fail_at,omitempty"`
	Path     string   `json:"path,omitempty"`
}

func c13Source(ops []string) string {
	var b strings.Builder
	b.WriteString("BEGIN {\n")
	for i, k := range ops {
		b.WriteString("  " + c13Stmt(k, i) + "\n")
	}
	b.WriteString("}\n")
	return b.String()
}

type c13StartSnap struct {
	Proc    int
	Cmdline string
	Files   map[string]string
	CmdIn   map[string]int // command line -> bytes delivered to that (still running) child's stdin
}

type c13Obs struct {
	Starts   []c13StartSnap
	Res      awk.Result
	Out      *c13Writer
	Files    map[string]string
	Deadlock bool
	Overrun  bool
	Panics   []string
	Events   []string
}

var c13Dir string

var c13ProgCache = map[string]*parser.Program{}

func c13Parse(src string) *parser.Program {
	if p, ok := c13ProgCache[src]; ok {
		return p
	}
	if len(c13ProgCache) > 100 {
		c13ProgCache = map[string]*parser.Program{}
	}
	p := awk.MustParse(src, nil)
	c13ProgCache[src] = p
	return p
}

// c13Reuse: the observed execution is the second one of a reused Interpreter (part R).
var c13Reuse bool

func c13HasCommand(ops []string) bool {
	for _, k := range ops {
		switch k {
		case "pipe1", "pipe2", "closep", "system", "cmdget", "status", "emptyp", "csvemptyp":
			return true
		}
	}
	return false
}

// c13Exec runs one execution under the scheduler with the given choices.
func c13Exec(ch *sched.Chooser, src string, buffered bool, noPreempt bool, failAt int) c13Obs {
	os.Remove(filepath.Join(c13Dir, "f1"))
	os.WriteFile(filepath.Join(c13Dir, "f2"), []byte("old\n"), 0o644)
	prog := c13Parse(src)
	s := sched.New(ch)
	s.NoPreempt = noPreempt
	s.Horizon = 20000
	w := vworld.New(s)
	w.Install()
	defer w.Uninstall()
	out := &c13Writer{s: s, FailAt: failAt}
	var output io.Writer = out
	if buffered {
		output = &c13BufWriter{w: out}
	}
	var o c13Obs
	o.Out = out
	w.OnStart = func(p *vworld.Proc) {
		snap := c13StartSnap{Proc: p.ID, Cmdline: p.Cmdline, Files: map[string]string{}, CmdIn: map[string]int{}}
		for _, n := range []string{"f1", "f2"} {
			if b, err := os.ReadFile(filepath.Join(c13Dir, n)); err == nil {
				snap.Files[n] = string(b)
			}
		}
		for _, q := range w.Procs {
			if q != p && q.Started && !q.Exited() {
				snap.CmdIn[q.Cmdline] = q.StdinDelivered()
			}
		}
		o.Starts = append(o.Starts, snap)
	}
	s.Spawn("main", func() {
		cfg := &interp.Config{Output: output, Stdin: strings.NewReader(""), ShellCommand: []string{"sh", "-c"}}
		if c13Reuse {
			// the observed run is the second Execute of one Interpreter; the first one ran the
			// same program with a writer of its own, after which the files are put back
			ip, err := interp.New(prog)
			if err != nil {
				panic(err)
			}
			func() {
				defer func() { recover() }()
				ip.Execute(&interp.Config{Output: &c13Writer{s: s, FailAt: -1}, Error: io.Discard, Environ: []string{}, Stdin: strings.NewReader(""), ShellCommand: []string{"sh", "-c"}})
			}()
			os.Remove(filepath.Join(c13Dir, "f1"))
			os.WriteFile(filepath.Join(c13Dir, "f2"), []byte("old\n"), 0o644)
			saved := awk.ExecHook
			awk.ExecHook = func(_ *parser.Program, cfg *interp.Config) (int, error) { return ip.Execute(cfg) }
			defer func() { awk.ExecHook = saved }()
		}
		o.Res = awk.Exec(prog, cfg)
	})
	s.Run()
	o.Deadlock, o.Overrun, o.Panics, o.Events = s.Deadlock, s.Overrun, s.Panics, w.Events
	o.Files = map[string]string{}
	for _, n := range []string{"f1", "f2"} {
		if b, err := os.ReadFile(filepath.Join(c13Dir, n)); err == nil {
			o.Files[n] = string(b)
		}
	}
	return o
}

// c13Judge compares one execution with the model. Returns (sig, detail) pairs.
func c13Judge(ops []string, m *c13Model, o c13Obs) [][2]string {
	var v [][2]string
	add := func(sig, d string) { v = append(v, [2]string{sig, d}) }
	if len(o.Panics) > 0 {
		add("panic", firstLine(o.Panics[0]))
		return v
	}
	if o.Res.Panic != "" {
		add("panic", firstLine(o.Res.Panic))
		return v
	}
	if o.Deadlock {
		add("deadlock", strings.Join(o.Events, "; "))
		return v
	}
	if o.Overrun {
		add("horizon-overrun", "")
		return v
	}
	if len(o.Out.Overlaps) > 0 {
		add("overlap:concurrent-writes-to-Config.Output", o.Out.Overlaps[0])
	}
	if (o.Res.Err != nil) != m.err {
		add("error-outcome", fmt.Sprintf("err=%v want error=%v", o.Res.Err, m.err))
	} else if !m.err && o.Res.Status != m.status {
		add("exit-status", fmt.Sprintf("status=%d want %d", o.Res.Status, m.status))
	}
	for _, n := range []string{"f1", "f2"} {
		want, wantOK := m.files[n]
		got, gotOK := o.Files[n]
		if want != got || wantOK != gotOK {
			add("file-content", fmt.Sprintf("%s: got %q want %q", n, got, want))
		}
	}
	// at the start of every system() child, output printed so far to open files and commands has been flushed to them
	for _, want := range m.sysSnaps {
		for _, got := range o.Starts {
			if got.Proc != want.Proc {
				continue
			}
			for name, content := range want.Files {
				if got.Files[name] != content {
					add("system-started-before-file-output-flushed", fmt.Sprintf("when system() child p%d started, %s held %q, printed so far: %q", want.Proc, name, got.Files[name], content))
				}
			}
			for name, n := range want.CmdIn {
				if got.CmdIn[name] != n {
					add("system-started-before-command-output-flushed", fmt.Sprintf("when system() child p%d started, command %q had received %d bytes, printed so far: %d", want.Proc, name, got.CmdIn[name], n))
				}
			}
		}
	}
	// stdout, by source: the program's own writes, in order and complete; each
	// child's output complete and in order; nothing else.
	var mainBytes strings.Builder
	childBytes := map[string]*strings.Builder{}
	type span struct{ first, last int }
	childSpan := map[string]*span{}
	var mainEnd []int // cumulative main bytes after log entry i (or -1 if not main)
	for i, e := range o.Out.Log {
		if e.Thread == "main" {
			mainBytes.WriteString(e.Data)
			mainEnd = append(mainEnd, mainBytes.Len())
			continue
		}
		mainEnd = append(mainEnd, -1)
		if childBytes[e.Thread] == nil {
			childBytes[e.Thread] = &strings.Builder{}
			childSpan[e.Thread] = &span{i, i}
		}
		childBytes[e.Thread].WriteString(e.Data)
		childSpan[e.Thread].last = i
	}
	wantMain := strings.Join(m.progTok, "")
	if mainBytes.String() != wantMain {
		add("stdout-program-output", fmt.Sprintf("program's own output %q want %q", mainBytes.String(), wantMain))
		return v
	}
	tokOff := make([]int, len(m.progTok)+1)
	for i, t := range m.progTok {
		tokOff[i+1] = tokOff[i] + len(t)
	}
	expectedThreads := map[string]bool{}
	for _, c := range m.children {
		th := fmt.Sprintf("copy-out-p%d", c.proc)
		if c.out == "" {
			continue
		}
		expectedThreads[th] = true
		got := ""
		if childBytes[th] != nil {
			got = childBytes[th].String()
		}
		if got != c.out {
			add("stdout-child-output", fmt.Sprintf("child %s (%s) output %q want %q; stdout=%q", th, c.name, got, c.out, o.Out.String()))
			continue
		}
		sp := childSpan[th]
		// everything the program wrote before the child was started precedes the child's output
		for i := sp.first + 1; i < len(o.Out.Log); i++ {
			if mainEnd[i] >= 0 && mainEnd[i] <= tokOff[c.startAt] {
				add("stdout-order:child-output-before-earlier-program-output", fmt.Sprintf("stdout=%q child=%q", o.Out.String(), c.out))
				break
			}
		}
		// everything the program wrote after waiting for the child follows the child's output
		if c.waitAt >= 0 {
			for i := 0; i < sp.last; i++ {
				if mainEnd[i] >= 0 && mainEnd[i] > tokOff[c.waitAt] {
					add("stdout-order:child-output-after-later-program-output", fmt.Sprintf("stdout=%q child=%q", o.Out.String(), c.out))
					break
				}
			}
		}
	}
	for th, b := range childBytes {
		if !expectedThreads[th] {
			add("stdout-unexpected-writer", fmt.Sprintf("%s wrote %q", th, b.String()))
		}
	}
	return v
}

func c13HasSharedChild(ops []string) bool {
	for _, k := range ops {
		if k == "pipe1" || k == "pipe2" || k == "system" {
			return true
		}
	}
	return false
}

func c13RunSeq(c *core.Ctx, ops []string, bound int) {
	if c13Ambiguous(ops) {
		return
	}
	m := c13Expect(ops)
	src := c13Source(ops)
	c.Add("states", 1)
	for _, buffered := range []bool{false, true} {
		// X: default schedule
		ch := sched.NewChooser(nil)
		o := c13Exec(ch, src, buffered, false, -1)
		c.Eval(1)
		c.Add("transitions", 1)
		c.Outcome(o.Out.String() + fmt.Sprint(o.Files, o.Res.Status, o.Res.Err != nil))
		for _, f := range c13Judge(ops, m, o) {
			c.Fail("X:"+f[0], c13Case{Ops: ops, Buffered: buffered, Part: "X"}, f[1])
		}
		// R: the same sequence as the second run of a reused Interpreter (sequences without commands)
		if !c13HasCommand(ops) {
			c13Reuse = true
			o := c13Exec(sched.NewChooser(nil), src, buffered, false, -1)
			c13Reuse = false
			c.Eval(2)
			c.Add("transitions", 1)
			for _, f := range c13Judge(ops, m, o) {
				c.Fail("R:"+f[0], c13Case{Ops: ops, Buffered: buffered, Part: "R"}, f[1])
			}
		}
		// S: all interleavings up to the bound, for sequences with a child sharing stdout
		if bound > 0 && c13HasSharedChild(ops) {
			seen := map[string]bool{}
			st := sched.Explore(bound, 3000, nil, func(ch *sched.Chooser) {
				o := c13Exec(ch, src, buffered, false, -1)
				c.Outcome(o.Out.String())
				for _, f := range c13Judge(ops, m, o) {
					if seen[f[0]] {
						continue // one report per signature per scenario
					}
					seen[f[0]] = true
					c.Fail("S:"+f[0], c13Case{Ops: ops, Buffered: buffered, Part: "S", Choices: ch.Choices()}, f[1])
				}
			})
			c.Eval(st.Executions)
			c.Add("transitions", st.Executions)
			c.Add("schedules", st.Executions)
			if st.Capped {
				c.Cap("schedule cap 3000 per scenario")
			}
			if st.ReplayError != nil {
				panic("C13 replay divergence (nondeterminism not owned): " + st.ReplayError.Error())
			}
		}
	}
}

func c13Run(c *core.Ctx) {
	c13Dir = c01Dir(c)
	maxLen, bound := 3, 2
	if c.Thorough() {
		maxLen, bound = 4, 3
	}
	nsamples := 0
	for n := 1; n <= maxLen; n++ {
		idx := make([]int, n)
		for {
			if c.Expired() {
				break
			}
			ops := make([]string, n)
			for i, k := range idx {
				ops[i] = c13Ops[k]
			}
			// nothing runs after exit/error: skip sequences with operations after them
			dead := false
			for i, k := range ops {
				if (k == "exit" || k == "error") && i < n-1 {
					dead = true
				}
			}
			if !dead && c.Mine() {
				b := bound
				if n == maxLen && n >= 3 {
					b = bound - 1 // longest sequences: one deviation less
				}
				c13RunSeq(c, ops, b)
				if nsamples < 2 && c13HasSharedChild(ops) && n >= 2 {
					c.Sample(map[string]any{"ops": ops, "program": c13Source(ops)})
					nsamples++
				}
			}
			k := n - 1
			for k >= 0 {
				idx[k]++
				if idx[k] < len(c13Ops) {
					break
				}
				idx[k] = 0
				k--
			}
			if k < 0 {
				break
			}
		}
	}
	c13FailingStream(c, bound)
	c13EmptyOutput(c, bound)
	c13TwoNames(c)
	c13OpenFaults(c)
	c13Faults(c)
}

// c13EmptyOutput: a printf that formats to nothing still opens its destination:
// the file is created / truncated, the command is started, the name is an open
// stream that close() knows. All sequences of <= 3 operations with at least one
// such printf.
func c13EmptyOutput(c *core.Ctx, bound int) {
	alpha := []string{"emptyf", "emptyt", "emptya", "emptyp", "csvemptyf", "csvemptyp", "csvempty", "tofile", "append", "pipe1", "closef", "closea", "closep", "print"}
	for n := 1; n <= 3; n++ {
		idx := make([]int, n)
		for {
			ops := make([]string, n)
			has := false
			for i, k := range idx {
				ops[i] = alpha[k]
				has = has || strings.Contains(ops[i], "empty")
			}
			if has && !c.Expired() && c.Mine() {
				c13RunSeq(c, ops, bound-1)
			}
			k := n - 1
			for k >= 0 {
				idx[k]++
				if idx[k] < len(alpha) {
					break
				}
				idx[k] = 0
				k--
			}
			if k < 0 {
				break
			}
		}
	}
}

// c13TwoNames: ">>" never truncates and never overwrites: one file appended to
// through two names at once ("f2" and "./f2" are two streams on one file), and
// by the program and a real child process in turn. Whatever the flush order,
// the file must end up with its old content followed by every line written,
// each exactly once. Sequences of <= 4 operations (no scheduler: real files,
// real child processes for the `sys` operation).
type c13TwoCase struct {
	Part string   `json:"part"`
	Ops  []string `json:"ops"`
}

func c13TwoEval(c *core.Ctx, cs c13TwoCase) {
	os.WriteFile(filepath.Join(c13Dir, "f2"), []byte("old\n"), 0o644)
	var b strings.Builder
	var want []string
	b.WriteString("BEGIN {\n")
	for i, op := range cs.Ops {
		switch op {
		case "a1":
			fmt.Fprintf(&b, "  print \"G%d\" >> \"f2\"\n", i)
			want = append(want, fmt.Sprintf("G%d", i))
		case "a2":
			fmt.Fprintf(&b, "  print \"H%d\" >> \"./f2\"\n", i)
			want = append(want, fmt.Sprintf("H%d", i))
		case "fl":
			b.WriteString("  fflush()\n")
		case "c1":
			b.WriteString("  close(\"f2\")\n")
		case "c2":
			b.WriteString("  close(\"./f2\")\n")
		case "sys":
			fmt.Fprintf(&b, "  system(\"echo S%d >> f2\")\n", i)
			want = append(want, fmt.Sprintf("S%d", i))
		}
	}
	b.WriteString("}\n")
	prog := awk.MustParse(b.String(), nil)
	old, _ := os.Getwd()
	os.Chdir(c13Dir)
	res := awk.Exec(prog, &interp.Config{Stdin: strings.NewReader("")})
	os.Chdir(old)
	c.Eval(1)
	c.Add("transitions", 1)
	data, _ := os.ReadFile(filepath.Join(c13Dir, "f2"))
	got := string(data)
	c.Outcome("two-names " + got)
	if res.Panic != "" || res.Err != nil {
		c.Fail("D:two-names:run-failed", cs, fmt.Sprintf("panic=%s err=%v", firstLine(res.Panic), res.Err))
		return
	}
	lines := strings.Split(strings.TrimSuffix(got, "\n"), "\n")
	ok := strings.HasPrefix(got, "old\n") && strings.HasSuffix(got, "\n") && len(lines) == len(want)+1
	if ok {
		seen := map[string]int{}
		for _, l := range lines[1:] {
			seen[l]++
		}
		for _, w := range want {
			if seen[w] != 1 {
				ok = false
			}
		}
	}
	if !ok {
		c.Fail("D:append-lost-or-overwrote-data", cs, fmt.Sprintf("file f2 = %q; want \"old\" followed by each of %q exactly once (any order); program:\n%s", got, want, b.String()))
	}
}

func c13TwoNames(c *core.Ctx) {
	alpha := []string{"a1", "a2", "fl", "c1", "c2", "sys"}
	for n := 2; n <= 4; n++ {
		idx := make([]int, n)
		for {
			ops := make([]string, n)
			writes := 0
			for i, k := range idx {
				ops[i] = alpha[k]
				if ops[i] == "a1" || ops[i] == "a2" || ops[i] == "sys" {
					writes++
				}
			}
			if writes >= 2 && c.Mine() && !c.Expired() {
				c.Add("states", 1)
				c13TwoEval(c, c13TwoCase{Part: "two-names", Ops: ops})
			}
			k := n - 1
			for k >= 0 {
				idx[k]++
				if idx[k] < len(alpha) {
					break
				}
				idx[k] = 0
				k--
			}
			if k < 0 {
				break
			}
		}
	}
}

// ---------------------------------------------------------------- D3: failing opens

// c13OpenFaults: the environment answer "this open fails" (EMFILE, as when the
// process is out of descriptors) injected at every open of every sequence of
// <= 4 operations over three files written with > and >>, fflush and close. The
// run may fail with an error; if it reports success, every file must hold
// exactly what the destination rules say (> truncates once per open stream,
// later writes append, >> never truncates): a name may not silently lose what
// was written to it.
type c13OpenCase struct {
	Part   string   `json:"part"`
	Ops    []string `json:"ops"`
	FailAt int      `json:"fail_at"` // the k-th OpenFile call fails once (1-based)
}

func c13OpenEval(c *core.Ctx, cs c13OpenCase) (opens int) {
	for _, f := range []string{"g1", "g2", "g3"} {
		os.WriteFile(filepath.Join(c13Dir, f), []byte("old\n"), 0o644)
	}
	var b strings.Builder
	want := map[string]string{"g1": "old\n", "g2": "old\n", "g3": "old\n"}
	open := map[string]bool{}
	b.WriteString("BEGIN {\n")
	for i, op := range cs.Ops {
		name := "g" + op[1:]
		switch op[0] {
		case 'w': // print > name
			fmt.Fprintf(&b, "  print \"W%d\" > \"%s\"\n", i, name)
			if !open[name] {
				want[name] = ""
				open[name] = true
			}
			want[name] += fmt.Sprintf("W%d\n", i)
		case 'a': // print >> name
			fmt.Fprintf(&b, "  print \"A%d\" >> \"%s\"\n", i, name)
			open[name] = true
			want[name] += fmt.Sprintf("A%d\n", i)
		case 'c':
			fmt.Fprintf(&b, "  close(\"%s\")\n", name)
			delete(open, name)
		case 'f':
			b.WriteString("  fflush()\n")
		}
	}
	b.WriteString("}\n")
	prog := awk.MustParse(b.String(), nil)
	old, _ := os.Getwd()
	os.Chdir(c13Dir)
	calls := 0
	injected := false
	res := awk.Exec(prog, &interp.Config{Stdin: strings.NewReader(""), OpenFile: func(name string, flag int, perm os.FileMode) (*os.File, error) {
		calls++
		if calls == cs.FailAt {
			injected = true
			return nil, &os.PathError{Op: "open", Path: name, Err: syscall.EMFILE}
		}
		return os.OpenFile(name, flag, perm)
	}})
	os.Chdir(old)
	c.Eval(1)
	c.Add("transitions", 1)
	if res.Panic != "" {
		c.Fail("D3:panic", cs, firstLine(res.Panic))
		return calls
	}
	c.Outcome(fmt.Sprintf("open-fault %v %v", injected, res.Err != nil))
	if res.Err != nil {
		if !injected {
			c.Fail("D3:run-failed-without-fault", cs, res.Err.Error())
		}
		return calls // a failed open may end the run with an error
	}
	for _, f := range []string{"g1", "g2", "g3"} {
		data, _ := os.ReadFile(filepath.Join(c13Dir, f))
		if string(data) != want[f] {
			sig := "D3:file-content-after-failed-open"
			if !injected {
				sig = "D3:file-content"
			}
			c.Fail(sig, cs, fmt.Sprintf("run reported success; file %s = %q, want %q; program:\n%s", f, string(data), want[f], b.String()))
			return calls
		}
	}
	return calls
}

func c13OpenFaults(c *core.Ctx) {
	alpha := []string{"w1", "w2", "w3", "a1", "a2", "c1", "c2", "f0"}
	maxLen := 4
	if c.Thorough() {
		maxLen = 5
	}
	for n := 1; n <= maxLen; n++ {
		idx := make([]int, n)
		for {
			if c.Mine() && !c.Expired() {
				ops := make([]string, n)
				for i, k := range idx {
					ops[i] = alpha[k]
				}
				c.Add("states", 1)
				opens := c13OpenEval(c, c13OpenCase{Part: "open-fault", Ops: ops, FailAt: 0})
				for k := 1; k <= opens; k++ {
					c13OpenEval(c, c13OpenCase{Part: "open-fault", Ops: ops, FailAt: k})
				}
			}
			k := n - 1
			for k >= 0 {
				idx[k]++
				if idx[k] < len(alpha) {
					break
				}
				idx[k] = 0
				k--
			}
			if k < 0 {
				break
			}
		}
	}
}

// c13FailingStream: one named stream (/dev/full) fails every flush; whatever
// was printed to the healthy files and commands must still have reached them
// when a system() child starts, and fflush() reports -1.
func c13FailingStream(c *core.Ctx, bound int) {
	if _, err := os.Stat("/dev/full"); err != nil {
		c.Note("failing_stream_part", "skipped: no /dev/full")
		return
	}
	alpha := []string{"tofile", "append", "pipe1", "print", "fflush", "system"}
	for n := 1; n <= 3; n++ {
		idx := make([]int, n)
		for {
			seq := make([]string, n)
			hasSys := false
			for i, k := range idx {
				seq[i] = alpha[k]
				hasSys = hasSys || seq[i] == "system" || seq[i] == "fflush"
			}
			if hasSys && !c.Expired() {
				for pos := 0; pos < n; pos++ {
					if c.Mine() {
						ops := append(append(append([]string{}, seq[:pos]...), "tofull"), seq[pos:]...)
						c13RunSeq(c, ops, bound-1)
					}
				}
			}
			k := n - 1
			for k >= 0 {
				idx[k]++
				if idx[k] < len(alpha) {
					break
				}
				idx[k] = 0
				k--
			}
			if k < 0 {
				break
			}
		}
	}
}

// ---------------------------------------------------------------- D: write failures

var c13FaultProgs = []struct{ name, src, input string }{
	{"print", `BEGIN { print "hello"; print "world", 42 }`, ""},
	{"printf", `BEGIN { printf "%s-%d\n", "abc", 7; printf "tail" }`, ""},
	{"pattern-only", `NR > 0`, "line one\nline two\n"},
	{"print-in-rule", `{ print NR, $1 } END { print "done" }`, "a b\nc d\ne\n"},
	{"csv-print", `BEGIN { OUTPUTMODE = "csv"; print "a,b", "c"; print 1, 2 }`, ""},
	{"fflush", `BEGIN { print "one"; fflush(); print "two" }`, ""},
	{"exit", `BEGIN { print "before"; exit 2 }`, ""},
	{"end-flush-only", `BEGIN { printf "x" }`, ""},
	{"dev-stdout", `BEGIN { print "via-dev" > "/dev/stdout"; print "dash" > "-" }`, ""},
	{"getline-prompt", `BEGIN { printf "prompt> "; getline line; print "got " line }`, "answer\n"},
	{"loop", `BEGIN { for (i = 0; i < 12; i++) printf "%d,", i; print "" }`, ""},
}

func c13Faults(c *core.Ctx) {
	for _, fp := range c13FaultProgs {
		prog := awk.MustParse(fp.src, nil)
		// total bytes written without failure
		base := &c13Writer{FailAt: -1}
		res := awk.Exec(prog, &interp.Config{Output: base, Stdin: strings.NewReader(fp.input)})
		if res.Err != nil || res.Panic != "" {
			panic("C13 fault program fails without fault: " + fp.name)
		}
		total := base.Written
		for _, buffered := range []bool{false, true} {
			for at := 0; at < total; at++ {
				if !c.Mine() {
					continue
				}
				w := &c13Writer{FailAt: at}
				var out io.Writer = w
				if buffered {
					out = bufio.NewWriterSize(w, 4096)
				}
				res := awk.Exec(prog, &interp.Config{Output: out, Stdin: strings.NewReader(fp.input)})
				c.Eval(1)
				c.Add("transitions", 1)
				c.Add("fault_points", 1)
				cs := c13Case{Part: "D", Path: fp.name, Buffered: buffered, FailAt: at}
				kind := "unbuffered"
				if buffered {
					kind = "bufio"
				}
				c.Outcome(fmt.Sprintf("%s %v %v", fp.name, buffered, res.Err != nil))
				if res.Panic != "" {
					c.Fail("D:panic", cs, firstLine(res.Panic))
				} else if res.Err == nil && w.Failed {
					c.Fail("D:stdout-write-failure-ignored:output="+kind+":path="+fp.name, cs, fmt.Sprintf("write failed at byte %d of %d but the run returned status %d, nil error", at, total, res.Status))
				} else if !w.Failed {
					c.Fail("D:fault-not-reached", cs, "harness: injected failure was never hit")
				}
			}
		}
	}
	// CLI: standard output is a failing file (/dev/full)
	if c.Shard == 0 {
		if _, err := os.Stat("/dev/full"); err == nil {
			for _, fp := range c13FaultProgs {
				f, err := os.OpenFile("/dev/full", os.O_WRONLY, 0)
				if err != nil {
					break
				}
				cmd := exec.Command(core.GoawkBin(), fp.src)
				cmd.Stdin = strings.NewReader(fp.input)
				cmd.Stdout = f
				err = cmd.Run()
				f.Close()
				c.Eval(1)
				c.Add("fault_points", 1)
				if err == nil {
					c.Fail("D:stdout-write-failure-ignored:output=cli-devfull:path="+fp.name, c13Case{Part: "D-cli", Path: fp.name}, "goawk exited 0 although every write to standard output failed (ENOSPC)")
				}
			}
		}
	}
}

func c13Replay(c *core.Ctx, raw json.RawMessage) {
	var cs c13Case
	if err := json.Unmarshal(raw, &cs); err != nil {
		panic(err)
	}
	c13Dir = c01Dir(c)
	switch cs.Part {
	case "two-names":
		c13TwoEval(c, c13TwoCase{Part: cs.Part, Ops: cs.Ops})
	case "open-fault":
		var oc c13OpenCase
		json.Unmarshal(raw, &oc)
		c13OpenEval(c, oc)
	case "X", "S", "R":
		m := c13Expect(cs.Ops)
		c13Reuse = cs.Part == "R"
		defer func() { c13Reuse = false }()
		o := c13Exec(sched.NewChooser(cs.Choices), c13Source(cs.Ops), cs.Buffered, false, -1)
		for _, f := range c13Judge(cs.Ops, m, o) {
			c.Fail(cs.Part+":"+f[0], cs, f[1])
		}
	case "D":
		for _, fp := range c13FaultProgs {
			if fp.name != cs.Path {
				continue
			}
			prog := awk.MustParse(fp.src, nil)
			w := &c13Writer{FailAt: cs.FailAt}
			var out io.Writer = w
			kind := "unbuffered"
			if cs.Buffered {
				out = bufio.NewWriterSize(w, 4096)
				kind = "bufio"
			}
			res := awk.Exec(prog, &interp.Config{Output: out, Stdin: strings.NewReader(fp.input)})
			if res.Err == nil && w.Failed {
				c.Fail("D:stdout-write-failure-ignored:output="+kind+":path="+fp.name, cs, fmt.Sprintf("write failed at byte %d but the run returned status %d, nil error", cs.FailAt, res.Status))
			}
		}
	case "D-cli":
		for _, fp := range c13FaultProgs {
			if fp.name != cs.Path {
				continue
			}
			f, _ := os.OpenFile("/dev/full", os.O_WRONLY, 0)
			cmd := exec.Command(core.GoawkBin(), fp.src)
			cmd.Stdin = strings.NewReader(fp.input)
			cmd.Stdout = f
			if cmd.Run() == nil {
				c.Fail("D:stdout-write-failure-ignored:output=cli-devfull:path="+fp.name, cs, "goawk exited 0 although every write to standard output failed (ENOSPC)")
			}
			f.Close()
		}
	}
}

func init() {
	core.Register(&core.Check{
		ID:    "C13",
		Level: "model_checking",
		Rule: "X: every sequence of <=3 (thorough <=4) operations over 17 kinds (print/printf to stdout, > file, >> file, | two commands, close, fflush, system, cmd|getline, getline<file, exit status of closed commands, exit, run-time error) run on the real interpreter over virtual processes, with unbuffered and bufio-wrapped Config.Output, against a destination model (state = one sequence); R: every such sequence without commands again as the second Execute of a reused Interpreter (files put back in between), judged by the same model; " +
			"S: for sequences with a child sharing stdout, every schedule of program/child/copy threads with up to 2 (thorough 3; one less for the longest sequences) deviations from the default scheduler (a preemption or a non-default pick at a blocking point) under a cooperative scheduler where each Write to Config.Output is a two-event critical section (transition = one schedule); " +
			"D2: one file appended to (>>) through two names and by a real child in turn, every sequence of <=4 operations over {>> f2, >> ./f2, fflush, close either, system(echo >> f2)}: old content plus every line exactly once; " +
			"D3: every sequence of <=4 (thorough 5) operations over {> three files, >> two files, close, fflush} with the k-th open failing once with EMFILE for every k (through Config.OpenFile): the run fails, or every file holds what the destination rules say; " +
			"D: a write failure at every byte offset of stdout for 11 output paths x {unbuffered, bufio}, plus the CLI with stdout=/dev/full; distinct = distinct stdout/file observations",
		Assumptions: []string{
			"child processes and os/exec are replaced by the vexec model (scripted processes, bounded in-memory pipes, a copy thread for a non-*os.File Stdout exactly as os/exec does); kernel pipe buffering is not modelled",
			"Config.Output is an arbitrary io.Writer that is not safe for concurrent use (like bytes.Buffer or bufio.Writer): two overlapping Write calls are a violation",
			"the child's stdin copy from Config.Stdin is not modelled (children in the alphabet do not read stdin unless fed through a pipe)",
		},
		Run:    c13Run,
		Replay: c13Replay,
	})
}

// C13Debug runs one sequence verbosely (development aid).
func C13Debug(ops []string) {
	c13Dir, _ = os.MkdirTemp("", "c13dbg")
	os.Chdir(c13Dir)
	m := c13Expect(ops)
	src := c13Source(ops)
	fmt.Println(src)
	for _, buffered := range []bool{false, true} {
		o := c13Exec(sched.NewChooser(nil), src, buffered, false, -1)
		fmt.Printf("buffered=%v out=%q files=%v err=%v status=%d deadlock=%v events=%v\n", buffered, o.Out.String(), o.Files, o.Res.Err, o.Res.Status, o.Deadlock, o.Events)
		fmt.Println("judge:", c13Judge(ops, m, o))
	}
}

// C13DebugExplore prints exploration statistics for one sequence.
func C13DebugExplore(ops []string, bound int) {
	c13Dir, _ = os.MkdirTemp("", "c13dbg")
	os.Chdir(c13Dir)
	m := c13Expect(ops)
	src := c13Source(ops)
	sigs := map[string]int{}
	outs := map[string]int{}
	st := sched.Explore(bound, 200000, nil, func(ch *sched.Chooser) {
		o := c13Exec(ch, src, false, false, -1)
		outs[o.Out.String()]++
		for _, f := range c13Judge(ops, m, o) {
			sigs[f[0]]++
		}
	})
	fmt.Printf("ops=%v bound=%d executions=%d maxpoints=%d capped=%v err=%v sigs=%v distinct_outs=%d\n", ops, bound, st.Executions, st.MaxPoints, st.Capped, st.ReplayError, sigs, len(outs))
}

package checks

import (
	"fmt"
	"strings"

	"github.com/benhoyt/goawk/interp"
	"github.com/benhoyt/goawk/vexp"

	"verifharness/awk"
	"verifharness/corpus"
)

// refValidate runs the reference evaluator on the repository's own test table.
// A case where refawk disagrees with the *expected output recorded in the
// repository* while the implementation agrees with it is a model bug.
type refValidation struct {
	Total, Agreed, Unsupported, ImplDiffers int
	ModelBugs                               []string
	Differs                                 []string
	UnsupportedWhy                          map[string]int
}

func refValidate() refValidation {
	var rv refValidation
	rv.UnsupportedWhy = map[string]int{}
	for _, t := range corpus.InterpTests("/repo") {
		if strings.Contains(t.Src, "!windows-gawk") {
			continue
		}
		prog, err, pn := awk.Parse(t.Src, nil)
		if err != nil || pn != "" {
			continue
		}
		rv.Total++
		ref := vexp.RunRef(prog, &vexp.RefConfig{Stdin: t.In, Environ: []string{}})
		if ref.Unsupported != "" {
			rv.Unsupported++
			rv.UnsupportedWhy[ref.Unsupported]++
			continue
		}
		steps := 0
		vexp.SetStepFn(func() {
			steps++
			if steps > 2000000 {
				panic(stepBudget{})
			}
		})
		impl := awk.Exec(prog, &interp.Config{Stdin: strings.NewReader(t.In)})
		vexp.SetStepFn(nil)
		implOK := impl.Panic == "" && ((t.Err == "") == (impl.Err == nil)) && impl.Out == t.Out
		refOK := ((t.Err == "") == (ref.Err == "")) && ref.Stdout == t.Out
		switch {
		case refOK:
			rv.Agreed++
		case implOK:
			rv.ModelBugs = append(rv.ModelBugs, fmt.Sprintf("src=%q in=%q want=%q/%q ref=%q/%q", t.Src, t.In, t.Out, t.Err, ref.Stdout, ref.Err))
		default:
			rv.ImplDiffers++
			rv.Differs = append(rv.Differs, fmt.Sprintf("src=%q in=%q want=%q/%q impl=%q/%v ref=%q/%q", t.Src, t.In, t.Out, t.Err, impl.Out, impl.Err, ref.Stdout, ref.Err))
		}
	}
	return rv
}

type RefValidation = refValidation

func RefValidateExport() RefValidation { return refValidate() }

package checks

import (
	"bytes"
	"encoding/csv"
	"encoding/json"
	"fmt"
	"io"
	"os"
	"path/filepath"
	"runtime/debug"
	"strconv"
	"strings"
	"unicode/utf8"

	"github.com/benhoyt/goawk/interp"
	"github.com/benhoyt/goawk/parser"

	"verifharness/awk"
	"verifharness/core"
)

// C08 — CSV/TSV input follows RFC 4180 (lenient quotes), $0 is the record's
// own text, a leading BOM is ignored, nothing depends on chunking; values
// written in CSV/TSV output mode read back unchanged (shapes D + B).
//
// Sub-checks:
//   read   every input over a per-configuration alphabet x BOM on/off x every
//          chunking x 2 EOF styles, pattern-action and getline reading paths
//   assign `$0 = s` and two-argument split(s, a) in CSV mode for every s that
//          is at most one record
//   files  header mode over two files (names come from each file's first row)
//   rt     write-then-read round trip of field-value lists (print $1..$n,
//          $i=v rebuild, and the documented `$1=$1; print` conversion)

const c08BOM = "\xef\xbb\xbf"

type c08Cfg struct {
	Mode    string `json:"mode"`    // csv | tsv
	Sep     string `json:"sep"`     // "" = default of the mode
	Comment string `json:"comment"` // "" = none
	Header  bool   `json:"header"`
	ViaVar  bool   `json:"via_var"` // configure through INPUTMODE instead of Config fields
}

func (g c08Cfg) sepRune() rune {
	if g.Sep == "" {
		if g.Mode == "tsv" {
			return '\t'
		}
		return ','
	}
	r, _ := utf8.DecodeRuneInString(g.Sep)
	return r
}

func (g c08Cfg) commentRune() rune {
	if g.Comment == "" {
		return 0
	}
	r, _ := utf8.DecodeRuneInString(g.Comment)
	return r
}

func (g c08Cfg) String() string {
	s := g.Mode
	if g.Sep != "" {
		s += " separator=" + g.Sep
	}
	if g.Comment != "" {
		s += " comment=" + g.Comment
	}
	if g.Header {
		s += " header"
	}
	return s
}

func (g c08Cfg) apply(cfg *interp.Config) {
	if g.ViaVar {
		cfg.Vars = append(cfg.Vars, "INPUTMODE", g.String())
		return
	}
	if g.Mode == "tsv" {
		cfg.InputMode = interp.TSVMode
	} else {
		cfg.InputMode = interp.CSVMode
	}
	if g.Sep != "" {
		cfg.CSVInput.Separator = g.sepRune()
	}
	cfg.CSVInput.Comment = g.commentRune()
	cfg.CSVInput.Header = g.Header
}

// ---------------------------------------------------------------- oracle

type c08Want struct {
	Fields  []string
	Raw     string // the record's own bytes without its line terminator
	EOFNoNL bool   // the record ends at end of input without a newline
}

// c08Oracle: encoding/csv (LazyQuotes, FieldsPerRecord=-1) on the BOM-free
// content; record extents from InputOffset, leading blank/comment lines of an
// extent are not part of the record.
func c08Oracle(content string, sep, comment rune) []c08Want {
	r := csv.NewReader(strings.NewReader(content))
	r.Comma = sep
	r.Comment = comment
	r.LazyQuotes = true
	r.FieldsPerRecord = -1
	var out []c08Want
	prev := 0
	for {
		f, err := r.Read()
		if err == io.EOF {
			break
		}
		if err != nil {
			panic(fmt.Sprintf("c08 oracle: encoding/csv error on %q: %v", content, err))
		}
		end := int(r.InputOffset())
		pos := prev
		for pos < end {
			lineEnd := end
			if nl := strings.IndexByte(content[pos:end], '\n'); nl >= 0 {
				lineEnd = pos + nl + 1
			}
			line := content[pos:lineEnd]
			first, _ := utf8.DecodeRuneInString(line)
			if (comment != 0 && first == comment) || line == "\n" || line == "\r\n" {
				pos = lineEnd
				continue
			}
			break
		}
		raw := content[pos:end]
		w := c08Want{Fields: f}
		switch {
		case strings.HasSuffix(raw, "\r\n"):
			raw = raw[:len(raw)-2]
		case strings.HasSuffix(raw, "\n"):
			raw = raw[:len(raw)-1]
		default:
			w.EOFNoNL = true
		}
		w.Raw = raw
		out = append(out, w)
		prev = end
	}
	return out
}

// c08DollarForms: the forms of $0 the property accepts for a record. The
// statement fixes "own text without terminator"; a CRLF inside a quoted field
// (which reading normalises to LF) and a lone CR right before EOF (dropped from
// the field) are left open, so both renderings are accepted.
func c08DollarForms(w c08Want) []string {
	forms := []string{w.Raw}
	if n := strings.ReplaceAll(w.Raw, "\r\n", "\n"); n != w.Raw {
		forms = append(forms, n)
	}
	if w.EOFNoNL {
		for _, f := range forms {
			if strings.HasSuffix(f, "\r") {
				forms = append(forms, f[:len(f)-1])
			}
		}
	}
	return forms
}

func c08In(s string, list []string) bool {
	for _, x := range list {
		if x == s {
			return true
		}
	}
	return false
}

func c08Eq(a, b []string) bool {
	if len(a) != len(b) {
		return false
	}
	for i := range a {
		if a[i] != b[i] {
			return false
		}
	}
	return true
}

// ---------------------------------------------------------------- runner

type c08Rec struct {
	NR, NF int
	Rec    string
	Fields []string
	Names  []string // FIELDS[1..] as seen at this record (header mode)
	Named  []string // @(FIELDS[i])
	File   string
}

type c08Obs struct {
	Recs []c08Rec
	HdrN int // number of keys in FIELDS at END (-1: not reported)
	Hdr  []string
}

func (o *c08Obs) String() string {
	var b strings.Builder
	for _, r := range o.Recs {
		fmt.Fprintf(&b, "NR=%d NF=%d $0=%q %q", r.NR, r.NF, r.Rec, r.Fields)
		if r.Names != nil {
			fmt.Fprintf(&b, " FIELDS=%q @=%q", r.Names, r.Named)
		}
		b.WriteString("; ")
	}
	if o.HdrN >= 0 {
		fmt.Fprintf(&b, "END FIELDS(%d)=%q", o.HdrN, o.Hdr)
	}
	return b.String()
}

const (
	c08Body    = `rec(NR, NF, $0, FILENAME); for (i=1; i<=NF; i++) fld($i)`
	c08BodyHdr = c08Body + `; for (i=1; i in FIELDS; i++) named(FIELDS[i], @(FIELDS[i]))`
	c08End     = ` END { n=0; for (k in FIELDS) n++; hdrn(n); for (i=1; i<=n; i++) hdr((i in FIELDS) ? FIELDS[i] : "<missing>") }`
)

// programs: index = 2*prog + header
var c08ProgSrc = []string{
	`{ ` + c08Body + ` }`,
	`{ ` + c08BodyHdr + ` }` + c08End,
	`BEGIN { while ((getline) > 0) { ` + c08Body + ` } }`,
	`BEGIN { while ((getline) > 0) { ` + c08BodyHdr + ` } }` + c08End,
}

var c08ProgNames = []string{"pattern-action", "getline"}

type c08Runner struct {
	progs []*parser.Program
	its   []*interp.Interpreter // reused interpreters (fast path), one per program
	out   bytes.Buffer
	errb  bytes.Buffer
	obs   *c08Obs
	funcs map[string]any

	// assign sub-check
	asProg  *parser.Program
	asIn    []string
	asPos   int
	asOut   []c08AssignObs
	rtProgs map[string]*parser.Program
	rtVals  [][]string
	rtMode  string // "-switch" writers: the OUTPUTMODE under test, assigned at run time ...
	rtPrev  string // ... after a row was written in this other output mode
	rtPos   int
	rtRecs  [][]string
}

type c08AssignObs struct {
	NF     int
	Rec    string
	Fields []string
	N      int
	Parts  []string
}

func newC08Runner() *c08Runner {
	r := &c08Runner{}
	r.funcs = map[string]any{
		"rec": func(nr, nf int, rec, file string) {
			r.obs.Recs = append(r.obs.Recs, c08Rec{NR: nr, NF: nf, Rec: rec, File: file})
		},
		"fld": func(v string) {
			if n := len(r.obs.Recs); n > 0 {
				r.obs.Recs[n-1].Fields = append(r.obs.Recs[n-1].Fields, v)
			}
		},
		"named": func(name, v string) {
			if n := len(r.obs.Recs); n > 0 {
				r.obs.Recs[n-1].Names = append(r.obs.Recs[n-1].Names, name)
				r.obs.Recs[n-1].Named = append(r.obs.Recs[n-1].Named, v)
			}
		},
		"hdrn": func(n int) { r.obs.HdrN = n },
		"hdr":  func(v string) { r.obs.Hdr = append(r.obs.Hdr, v) },
		// assign sub-check
		"more": func() int {
			if r.asPos < len(r.asIn) {
				return 1
			}
			return 0
		},
		"inp": func() string { s := r.asIn[r.asPos]; r.asPos++; return s },
		"arec": func(nf int, rec string) {
			r.asOut = append(r.asOut, c08AssignObs{NF: nf, Rec: rec})
		},
		"afld": func(v string) { a := &r.asOut[len(r.asOut)-1]; a.Fields = append(a.Fields, v) },
		"aspl": func(n int) { r.asOut[len(r.asOut)-1].N = n },
		"apart": func(v string) {
			a := &r.asOut[len(r.asOut)-1]
			a.Parts = append(a.Parts, v)
		},
		// round trip
		"nextlist": func() int {
			if r.rtPos >= len(r.rtVals) {
				return 0
			}
			r.rtPos++
			return len(r.rtVals[r.rtPos-1])
		},
		"v":      func(i int) string { return r.rtVals[r.rtPos-1][i-1] },
		"rtmode": func() string { return r.rtMode },
		"rtprev": func() string { return r.rtPrev },
		"rtrec": func(nf int) {
			r.rtRecs = append(r.rtRecs, make([]string, 0, nf))
		},
		"rtfld": func(v string) { n := len(r.rtRecs) - 1; r.rtRecs[n] = append(r.rtRecs[n], v) },
	}
	for _, src := range c08ProgSrc {
		r.progs = append(r.progs, awk.MustParse(src, r.funcs))
	}
	r.its = make([]*interp.Interpreter, len(r.progs))
	r.asProg = awk.MustParse(`BEGIN { while (more()) { s = inp(); $0 = s; arec(NF, $0); for (i=1; i<=NF; i++) afld($i)
		delete arr; n = split(s, arr); aspl(n); for (i=1; i<=n; i++) apart(arr[i]) } }`, r.funcs)
	r.rtProgs = map[string]*parser.Program{}
	for name, src := range c08RTSrc {
		r.rtProgs[name] = awk.MustParse(src, r.funcs)
	}
	return r
}

// ---------------------------------------------------------------- read sub-check

type c08Case struct {
	Kind     string `json:"kind"` // read
	Cfg      c08Cfg `json:"cfg"`
	InputQ   string `json:"input"` // Go-quoted content (without BOM)
	BOM      bool   `json:"bom"`
	Mask     uint64 `json:"mask"`
	EOFStyle int    `json:"eof_style"`
	Prog     int    `json:"prog"` // 0 pattern-action, 1 getline
}

// exec runs program pi. fresh: on a new interpreter (interp.ExecProgram);
// otherwise on a reused Interpreter (ResetVars + Execute), which is ~25x
// cheaper. Deviations seen on the reused interpreter are always re-evaluated
// on a fresh one before they are reported.
func (r *c08Runner) exec(pi int, cfg *interp.Config, fresh bool) (res awk.Result) {
	if fresh {
		return awk.Exec(r.progs[pi], cfg)
	}
	if r.its[pi] == nil {
		it, err := interp.New(r.progs[pi])
		if err != nil {
			panic(err)
		}
		r.its[pi] = it
	}
	it := r.its[pi]
	r.out.Reset()
	r.errb.Reset()
	cfg.Output, cfg.Error, cfg.Environ = &r.out, &r.errb, []string{}
	defer func() {
		if rec := recover(); rec != nil {
			res.Panic = fmt.Sprintf("%v\n%s", rec, debug.Stack())
			r.its[pi] = nil
		}
		res.Out = r.out.String()
		res.Stderr = r.errb.String()
	}()
	it.ResetVars()
	res.Status, res.Err = it.Execute(cfg)
	return
}

func (r *c08Runner) runRead(cs c08Case, content string, fresh bool) (*c08Obs, awk.Result) {
	data := content
	if cs.BOM {
		data = c08BOM + content
	}
	r.obs = &c08Obs{HdrN: -1}
	rd := awk.NewChunkReader([]byte(data), cs.Mask, cs.EOFStyle)
	cfg := &interp.Config{Stdin: rd, Funcs: r.funcs}
	cs.Cfg.apply(cfg)
	h := 0
	if cs.Cfg.Header {
		h = 1
	}
	res := r.exec(2*cs.Prog+h, cfg, fresh)
	o := r.obs
	r.obs = nil
	return o, res
}

// c08Judge compares one observation with the oracle. Returns "" if it
// conforms, else a signature (failure kind) and a description.
func c08Judge(cfg c08Cfg, bom bool, o *c08Obs, res awk.Result, want []c08Want, multiFile, reparse bool) (string, string) {
	if res.Panic != "" {
		return "panic", "panic: " + firstLine(res.Panic)
	}
	if res.Err != nil {
		return "unexpected-error", res.Err.Error()
	}
	var names []string
	data := want
	if cfg.Header && !multiFile {
		if len(want) > 0 {
			names = want[0].Fields
			data = want[1:]
		}
	}
	wantText := func() string {
		var b strings.Builder
		if cfg.Header && !multiFile {
			fmt.Fprintf(&b, "header=%q ", names)
		}
		for i, w := range data {
			fmt.Fprintf(&b, "NR=%d $0=%q %q; ", i+1, w.Raw, w.Fields)
		}
		return b.String()
	}
	fail := func(sig, what string) (string, string) {
		return sig, what + " :: got " + o.String() + " :: want " + wantText()
	}
	// A byte-order mark that was not ignored shows up at the start of the first thing read.
	if bom {
		if len(o.Hdr) > 0 && strings.HasPrefix(o.Hdr[0], c08BOM) && (len(names) == 0 || !strings.HasPrefix(names[0], c08BOM)) {
			return fail("bom-kept-in-header", "byte-order mark is part of the first header name")
		}
		if len(o.Recs) > 0 && len(o.Recs[0].Names) > 0 && strings.HasPrefix(o.Recs[0].Names[0], c08BOM) {
			return fail("bom-kept-in-header", "byte-order mark is part of the first header name")
		}
		if len(o.Recs) > 0 && len(o.Recs[0].Fields) > 0 && strings.HasPrefix(o.Recs[0].Fields[0], c08BOM) {
			return fail("bom-kept-in-field", "byte-order mark is part of $1 of the first record")
		}
		if len(o.Recs) > 0 && strings.HasPrefix(o.Recs[0].Rec, c08BOM) {
			return fail("bom-kept-in-field", "byte-order mark is part of $0 of the first record")
		}
	}
	if cfg.Header && len(o.Recs) == 0 && len(data) > 0 && (multiFile || o.HdrN < 0 || c08Eq(o.Hdr, names)) {
		return fail("header-rows-dropped", fmt.Sprintf("header row was read but none of the %d data rows", len(data)))
	}
	if len(o.Recs) != len(data) {
		return fail("record-count", fmt.Sprintf("%d records, want %d", len(o.Recs), len(data)))
	}
	for i, rc := range o.Recs {
		w := data[i]
		if !multiFile && rc.NR != i+1 {
			return fail("nr", fmt.Sprintf("record %d has NR=%d", i+1, rc.NR))
		}
		// $0
		forms := c08DollarForms(w)
		if !c08In(rc.Rec, forms) {
			noCR := strings.ReplaceAll(w.Raw, "\r", "")
			gotNoCR := strings.ReplaceAll(rc.Rec, "\r", "")
			switch {
			case len(gotNoCR) > len(noCR) && strings.HasPrefix(gotNoCR, noCR):
				if bom {
					return fail("bom-dollar0-overrun", fmt.Sprintf("$0 of record %d extends %d bytes past the record's own text", i+1, len(gotNoCR)-len(noCR)))
				}
				return fail("dollar0-overrun", fmt.Sprintf("$0 of record %d extends past the record's own text", i+1))
			case gotNoCR == noCR && strings.Count(rc.Rec, "\r") >= strings.Count(w.Raw, "\r"):
				return fail("dollar0-cr-mismatch", fmt.Sprintf("$0 of record %d has carriage returns that are not in the record's own text (terminator kept?)", i+1))
			case gotNoCR == noCR:
				return fail("dollar0-lone-cr-dropped", fmt.Sprintf("$0 of record %d lost a carriage return that is not part of a CRLF line break", i+1))
			default:
				return fail("dollar0-mismatch", fmt.Sprintf("$0 of record %d is not the record's own text", i+1))
			}
		}
		// NF and fields
		if rc.NF != len(rc.Fields) {
			return fail("nf-inconsistent", fmt.Sprintf("record %d: NF=%d but %d fields", i+1, rc.NF, len(rc.Fields)))
		}
		if !c08Eq(rc.Fields, w.Fields) {
			ok := false
			if reparse {
				// plain getline re-parses $0 (already found to be the record's text):
				// the fields of (the first record of) that text are accepted too
				alt := c08Oracle(rc.Rec, cfg.sepRune(), cfg.commentRune())
				if (len(alt) >= 1 && c08Eq(rc.Fields, alt[0].Fields)) || (len(alt) == 0 && len(rc.Fields) == 0) {
					ok = true
				}
			}
			if !ok {
				return fail("fields-mismatch", fmt.Sprintf("fields of record %d differ from the RFC 4180 reader", i+1))
			}
		}
		// header names as seen at this record
		if cfg.Header && !multiFile {
			if !c08Eq(rc.Names, names) {
				return fail("header-names", fmt.Sprintf("FIELDS at record %d is not the first row", i+1))
			}
		}
		if cfg.Header {
			// @"name" is a field of this record whose header name is "name"
			for k, nm := range rc.Names {
				ok := false
				found := false
				for j, nm2 := range rc.Names {
					if nm2 == nm {
						found = true
						v := ""
						if j < len(rc.Fields) {
							v = rc.Fields[j]
						}
						if v == rc.Named[k] {
							ok = true
						}
					}
				}
				if found && !ok {
					return fail("named-field", fmt.Sprintf("@%q at record %d is %q", nm, i+1, rc.Named[k]))
				}
			}
		}
	}
	if cfg.Header && !multiFile && o.HdrN >= 0 {
		if o.HdrN != len(names) || !c08Eq(o.Hdr, names) {
			return fail("header-names", "FIELDS at END is not the first row")
		}
	}
	return "", ""
}

type c08State struct {
	c         *core.Ctx
	r         *c08Runner
	nfails    map[string]int
	reuseOnly int
	noReuse   bool
}

const c08MaxFailsPerSig = 6 // listed per worker and signature; the rest is only counted

func (st *c08State) fail(sig string, cs any, observed string) {
	st.nfails[sig]++
	if st.nfails[sig] > c08MaxFailsPerSig {
		st.c.Add("violations_not_listed", 1)
		return
	}
	st.c.Fail(sig, cs, observed)
}

// verdictRead runs one delivery and returns ("", obs) if it conforms to the
// oracle, else (signature, description).
func (st *c08State) verdictRead(cs c08Case, content string, want []c08Want, fresh bool) (sig, detail, obs string) {
	o, res := st.r.runRead(cs, content, fresh)
	st.c.Eval(1)
	sig, detail = c08Judge(cs.Cfg, cs.BOM, o, res, want, false, cs.Prog == 1)
	return sig, detail, o.String()
}

// checkRead checks one delivery. ref: observation of the first (whole)
// delivery of this (cfg, input, bom, prog) for the differential oracle.
func (st *c08State) checkRead(cs c08Case, content string, want []c08Want, ref *string) {
	st.c.Add("transitions", 1)
	fresh := st.noReuse
	sig, detail, obs := st.verdictRead(cs, content, want, fresh)
	st.c.Outcome(obs)
	if sig == "" {
		if *ref == "\x00unset" {
			*ref = obs
			return
		}
		if *ref == obs {
			return
		}
		sig, detail = "chunking-dependent", "this delivery: "+obs+" :: whole: "+*ref
	}
	if fresh {
		st.fail(sig, cs, detail)
		return
	}
	// Deviation on the reused interpreter: decide on a fresh one.
	if st.nfails[sig] >= c08MaxFailsPerSig {
		st.c.Add("violations_not_listed", 1)
		return
	}
	sig2, detail2, obs2 := st.verdictRead(cs, content, want, true)
	if sig2 == "" {
		whole := cs
		whole.Mask, whole.EOFStyle = 0, 0
		if whole != cs {
			if s3, _, obs3 := st.verdictRead(whole, content, want, true); s3 == "" && obs3 != obs2 {
				sig2, detail2 = "chunking-dependent", "this delivery: "+obs2+" :: whole: "+obs3
			}
		}
	}
	if sig2 == "" {
		// only with a reused interpreter: state carried between executions, not a C08 matter
		st.c.Add("reuse_only_deviations", 1)
		st.reuseOnly++
		if st.reuseOnly > 200 {
			st.noReuse = true
		}
		return
	}
	st.fail(sig2, cs, detail2)
}

type c08Plan struct {
	Cfg      c08Cfg
	Alphabet []string
	// maximum number of alphabet symbols: without BOM, with BOM, getline path
	Len, LenBOM, LenGetline [2]int // [quick, thorough]
}

func c08Plans() []c08Plan {
	return []c08Plan{
		// core alphabets, default separators
		{c08Cfg{Mode: "csv"}, []string{"a", ",", "\"", "\n", "\r"}, [2]int{6, 7}, [2]int{5, 6}, [2]int{5, 6}},
		{c08Cfg{Mode: "csv", Comment: "#"}, []string{"a", ",", "\"", "\n", "\r", "#"}, [2]int{6, 6}, [2]int{4, 6}, [2]int{4, 5}},
		{c08Cfg{Mode: "csv", Comment: "#", Header: true}, []string{"a", ",", "\"", "\n", "#"}, [2]int{6, 7}, [2]int{5, 6}, [2]int{5, 5}},
		{c08Cfg{Mode: "csv", Header: true}, []string{"a", ",", "\"", "\n", "\r"}, [2]int{6, 6}, [2]int{5, 6}, [2]int{5, 5}},
		{c08Cfg{Mode: "tsv"}, []string{"a", "\t", "\"", "\n", "\r", ","}, [2]int{5, 6}, [2]int{4, 5}, [2]int{4, 5}},
		{c08Cfg{Mode: "tsv", Comment: "#", Header: true, ViaVar: true}, []string{"a", "\t", "\"", "\n", "#"}, [2]int{5, 6}, [2]int{4, 5}, [2]int{4, 5}},
		// other separators (single-byte and multi-byte), configured through INPUTMODE
		{c08Cfg{Mode: "csv", Sep: "|", Comment: "#", ViaVar: true}, []string{"a", "|", "\"", "\n", ",", "#"}, [2]int{5, 6}, [2]int{4, 5}, [2]int{4, 5}},
		{c08Cfg{Mode: "csv", Sep: "é"}, []string{"a", "é", "\"", "\n", "\r", "ê"}, [2]int{5, 6}, [2]int{3, 4}, [2]int{4, 4}},
		{c08Cfg{Mode: "tsv", Sep: ",", Comment: "é", ViaVar: true}, []string{"a", ",", "\"", "\n", "é", "\t"}, [2]int{5, 6}, [2]int{3, 4}, [2]int{4, 5}},
		// extended alphabet of DESIGN §5 (space and a multi-byte payload character; '#' is payload when no comment character is set)
		{c08Cfg{Mode: "csv", Comment: "#"}, []string{"a", ",", "\"", "\n", "\r", "#", " ", "é"}, [2]int{5, 6}, [2]int{4, 4}, [2]int{3, 4}},
		{c08Cfg{Mode: "csv"}, []string{"a", ",", "\"", "\n", "\r", "#", " ", "é"}, [2]int{4, 5}, [2]int{4, 5}, [2]int{3, 4}},
		// bytes that collide with in-band sentinels: NUL (rune 0 = "no comment character") and an invalid UTF-8 byte (decodes to U+FFFD)
		{c08Cfg{Mode: "csv"}, []string{"a", ",", "\"", "\n", "\x00", "\xff"}, [2]int{5, 6}, [2]int{4, 5}, [2]int{4, 5}},
		{c08Cfg{Mode: "csv", Comment: "#", Header: true}, []string{"\x00", ",", "\n", "#", "\xff"}, [2]int{5, 6}, [2]int{4, 5}, [2]int{4, 5}},
		{c08Cfg{Mode: "tsv"}, []string{"\x00", "\t", "\n", "\xff", "\\"}, [2]int{5, 6}, [2]int{4, 5}, [2]int{4, 5}},
	}
}

func c08Masks(nbytes int) uint64 {
	if nbytes <= 1 {
		return 1
	}
	return 1 << uint(nbytes-1)
}

func c08RunRead(st *c08State) {
	c := st.c
	t := 0
	if c.Thorough() {
		t = 1
	}
	for _, pl := range c08Plans() {
		sep, com := pl.Cfg.sepRune(), pl.Cfg.commentRune()
		maxLen := pl.Len[t]
		for n := 0; n <= maxLen; n++ {
			enumStrings(pl.Alphabet, n, func(in string) {
				if exp := c.Expired(); !c.Mine() || exp {
					return
				}
				c.Add("states", 1) // one state = one (configuration, input)
				want := c08Oracle(in, sep, com)
				for bom := 0; bom < 2; bom++ {
					if bom == 1 && n > pl.LenBOM[t] {
						continue
					}
					nb := len(in) + 3*bom
					if nb > 11 {
						continue // keeps 2^(bytes-1) chunkings per input bounded (only inputs with several 2-byte characters)
					}
					for prog := 0; prog < 2; prog++ {
						if prog == 1 && n > pl.LenGetline[t] {
							continue
						}
						ref := "\x00unset"
						nmasks := c08Masks(nb)
						for mask := uint64(0); mask < nmasks; mask++ {
							for eof := 0; eof < 2; eof++ {
								if prog == 1 && eof == 1 {
									continue
								}
								cs := c08Case{Kind: "read", Cfg: pl.Cfg, InputQ: strconv.Quote(in), BOM: bom == 1, Mask: mask, EOFStyle: eof, Prog: prog}
								st.checkRead(cs, in, want, &ref)
							}
						}
						if c.Shard == 0 && bom == 0 && prog == 0 && n == maxLen {
							c.Sample(map[string]any{"mode": pl.Cfg.String(), "input": in, "chunkings": nmasks, "records": ref})
						}
					}
				}
			})
		}
	}
}

// ---------------------------------------------------------------- assign sub-check

type c08AssignCase struct {
	Kind   string `json:"kind"` // assign
	Cfg    c08Cfg `json:"cfg"`
	InputQ string `json:"input"`
}

func (st *c08State) runAssign(cfg c08Cfg, inputs []string) bool {
	r := st.r
	r.asIn, r.asPos, r.asOut = inputs, 0, nil
	icfg := &interp.Config{Funcs: r.funcs}
	cfg.apply(icfg)
	res := awk.Exec(r.asProg, icfg)
	st.c.Eval(int64(len(inputs)))
	if res.Panic != "" || res.Err != nil || len(r.asOut) != len(inputs) {
		if len(inputs) == 1 {
			st.fail("assign-error", c08AssignCase{"assign", cfg, strconv.Quote(inputs[0])}, res.ErrString())
		}
		return false
	}
	sep, com := cfg.sepRune(), cfg.commentRune()
	for i, in := range inputs {
		o := r.asOut[i]
		want := c08Oracle(in, sep, com)
		var wf []string
		if len(want) == 1 {
			wf = want[0].Fields
		} else if len(want) > 1 {
			continue // several records in one string: not covered by the statement
		}
		st.c.Outcome(fmt.Sprintf("assign %q %q", o.Fields, o.Parts))
		cs := c08AssignCase{"assign", cfg, strconv.Quote(in)}
		if o.Rec != in {
			st.fail("assign-dollar0", cs, fmt.Sprintf("$0=%q after assigning %q", o.Rec, in))
		} else if o.NF != len(o.Fields) || !c08Eq(o.Fields, wf) {
			st.fail("assign-fields-mismatch", cs, fmt.Sprintf("$0=%q: NF=%d fields %q, RFC 4180 reader: %q", in, o.NF, o.Fields, wf))
		} else if o.N != len(o.Parts) || !c08Eq(o.Parts, wf) {
			st.fail("split-fields-mismatch", cs, fmt.Sprintf("split(%q): n=%d parts %q, RFC 4180 reader: %q", in, o.N, o.Parts, wf))
		}
	}
	return true
}

func c08RunAssign(st *c08State) {
	c := st.c
	t := 0
	if c.Thorough() {
		t = 1
	}
	for _, pl := range c08Plans() {
		if pl.Cfg.Header {
			continue
		}
		var batch []string
		flush := func() {
			if len(batch) == 0 {
				return
			}
			if exp := c.Expired(); c.Mine() && !exp {
				c.Add("states", int64(len(batch)))
				c.Add("transitions", int64(len(batch)))
				if !st.runAssign(pl.Cfg, batch) {
					for _, in := range batch {
						st.runAssign(pl.Cfg, []string{in})
					}
				}
			}
			batch = nil
		}
		for n := 0; n <= pl.Len[t]; n++ {
			enumStrings(pl.Alphabet, n, func(in string) {
				batch = append(batch, in)
				if len(batch) == 512 {
					flush()
				}
			})
		}
		flush()
	}
}

// ---------------------------------------------------------------- files sub-check

type c08FilesCase struct {
	Kind string   `json:"kind"` // files
	Cfg  c08Cfg   `json:"cfg"`
	Q    []string `json:"files"` // Go-quoted contents (with BOM where present)
}

func (st *c08State) checkFiles(dir string, cfg c08Cfg, contents []string) {
	var names, q []string
	var want []c08Want
	var wantNames [][]string
	for i, ct := range contents {
		p := filepath.Join(dir, fmt.Sprintf("f%d.csv", i))
		if err := os.WriteFile(p, []byte(ct), 0o644); err != nil {
			panic(err)
		}
		names = append(names, p)
		q = append(q, strconv.Quote(ct))
		w := c08Oracle(strings.TrimPrefix(ct, c08BOM), cfg.sepRune(), cfg.commentRune())
		if len(w) > 0 {
			for range w[1:] {
				wantNames = append(wantNames, w[0].Fields)
			}
			want = append(want, w[1:]...)
		}
	}
	r := st.r
	r.obs = &c08Obs{HdrN: -1}
	icfg := &interp.Config{Funcs: r.funcs, Args: names}
	cfg.apply(icfg)
	res := awk.Exec(r.progs[1], icfg)
	o := r.obs
	r.obs = nil
	st.c.Eval(1)
	st.c.Add("transitions", 1)
	st.c.Outcome(o.String())
	cs := c08FilesCase{"files", cfg, q}
	sig, detail := c08Judge(cfg, true, o, res, want, true, false)
	if sig == "" {
		for i, rc := range o.Recs {
			if !c08Eq(rc.Names, wantNames[i]) {
				sig, detail = "header-names-per-file", fmt.Sprintf("record %d (%s): FIELDS=%q, first row of its file: %q :: %s", i+1, filepath.Base(rc.File), rc.Names, wantNames[i], o.String())
				break
			}
		}
	}
	if sig != "" {
		st.fail(sig, cs, detail)
	}
}

func c08RunFiles(st *c08State) {
	c := st.c
	dir := filepath.Join(core.VerifDir, "work", fmt.Sprintf("c08-files-%d", c.Shard))
	os.MkdirAll(dir, 0o755)
	defer os.RemoveAll(dir)
	maxLen := 3
	if c.Thorough() {
		maxLen = 4
	}
	var contents []string
	for n := 0; n <= maxLen; n++ {
		enumStrings([]string{"a", "b", ",", "\n"}, n, func(s string) { contents = append(contents, s) })
	}
	cfg := c08Cfg{Mode: "csv", Header: true}
	for _, f1 := range contents {
		if exp := c.Expired(); !c.Mine() || exp {
			continue
		}
		for _, f2 := range contents {
			c.Add("states", 1)
			for bom := 0; bom < 4; bom++ {
				a, b := f1, f2
				if bom&1 != 0 {
					a = c08BOM + a
				}
				if bom&2 != 0 {
					b = c08BOM + b
				}
				st.checkFiles(dir, cfg, []string{a, b})
			}
		}
	}
}

// ---------------------------------------------------------------- round trip

var c08RTSrc = map[string]string{
	// values -> print $1..$n in output mode (fields set by assignment), one sentinel line after each list
	"print": `BEGIN { while ((n = nextlist()) > 0) { $0 = ""; for (i=1; i<=n; i++) $i = v(i)
		if (n == 1) print $1; else if (n == 2) print $1, $2; else print $1, $2, $3
		printf "\003\n" } }`,
	// values -> $i = v rebuilds $0 in output mode; bare print writes it
	"rebuild": `BEGIN { while ((n = nextlist()) > 0) { $0 = ""; for (i=1; i<=n; i++) $i = v(i)
		print; printf "\003\n" } }`,
	// the same two writers with the output mode assigned by the program, after another output mode was in
	// force and used for a row (to a file, so that it is not part of the text that is read back)
	"print-switch": `BEGIN { OUTPUTMODE = rtprev(); print "p q", "r,s\tt|u" > "/dev/null"; OUTPUTMODE = rtmode()
	while ((n = nextlist()) > 0) { $0 = ""; for (i=1; i<=n; i++) $i = v(i)
		if (n == 1) print $1; else if (n == 2) print $1, $2; else print $1, $2, $3
		printf "\003\n" } }`,
	"rebuild-switch": `BEGIN { OUTPUTMODE = rtprev(); $0 = "p q"; $2 = "r,s\tt|u"; print > "/dev/null"; OUTPUTMODE = rtmode()
	while ((n = nextlist()) > 0) { $0 = ""; for (i=1; i<=n; i++) $i = v(i)
		print; printf "\003\n" } }`,
	// the documented conversion idiom: read in input mode, $1=$1, bare print in output mode
	"convert": `{ $1 = $1; print }`,
	"read":    `{ rtrec(NF); for (i=1; i<=NF; i++) rtfld($i) }`,
}

type c08RTCase struct {
	Kind   string   `json:"kind"` // rt
	Writer string   `json:"writer"`
	Sep    string   `json:"sep"`  // output/input separator ("" = default of mode)
	Mode   string   `json:"mode"` // csv | tsv
	Sep2   string   `json:"sep2"` // separator after conversion
	Vals   []string `json:"vals"` // Go-quoted
}

func c08ModeOf(mode, sep string) (interp.IOMode, rune) {
	m := interp.CSVMode
	if mode == "tsv" {
		m = interp.TSVMode
	}
	var r rune
	if sep != "" {
		r, _ = utf8.DecodeRuneInString(sep)
	}
	return m, r
}

// readBack parses text in input mode and splits the records at the sentinels.
func (st *c08State) rtReadBack(text, mode, sep string) ([][][]string, string) {
	r := st.r
	r.rtRecs = nil
	m, sp := c08ModeOf(mode, sep)
	cfg := &interp.Config{Funcs: r.funcs, Stdin: strings.NewReader(text), InputMode: m, CSVInput: interp.CSVInputConfig{Separator: sp}}
	res := awk.Exec(r.rtProgs["read"], cfg)
	if res.Panic != "" || res.Err != nil {
		return nil, res.ErrString()
	}
	var groups [][][]string
	var cur [][]string
	for _, rec := range r.rtRecs {
		if len(rec) == 1 && rec[0] == "\x03" {
			groups = append(groups, cur)
			cur = nil
			continue
		}
		cur = append(cur, rec)
	}
	if cur != nil {
		groups = append(groups, cur)
	}
	return groups, ""
}

// rtBatch writes the lists with the given writer and reads them back; returns
// the indexes of lists that did not come back unchanged (nil, false on a
// batch-level problem that prevents attribution).
func (st *c08State) rtBatch(writer, mode, sep, sep2 string, lists [][]string) (bad []int, obs []string, ok bool) {
	r := st.r
	r.rtVals, r.rtPos = lists, 0
	m, sp := c08ModeOf(mode, sep)
	cfg := &interp.Config{Funcs: r.funcs, OutputMode: m, CSVOutput: interp.CSVOutputConfig{Separator: sp}}
	if strings.HasSuffix(writer, "-switch") {
		cfg = &interp.Config{Funcs: r.funcs}
		r.rtMode = mode
		if sep != "" {
			r.rtMode += " separator=" + sep
		}
		r.rtPrev = "csv"
		if r.rtMode == "csv" {
			r.rtPrev = "tsv"
		}
	}
	res := awk.Exec(r.rtProgs[writer], cfg)
	st.c.Eval(int64(len(lists)))
	if res.Panic != "" || res.Err != nil {
		return nil, []string{"writer: " + res.ErrString()}, false
	}
	text := res.Out
	stage := "read back"
	if sep2 != "-" {
		// conversion stage: input (mode, sep) -> `$1=$1; print` -> output csv with sep2
		m2, sp2 := c08ModeOf("csv", sep2)
		cfg2 := &interp.Config{Funcs: r.funcs, Stdin: strings.NewReader(text), InputMode: m, CSVInput: interp.CSVInputConfig{Separator: sp},
			OutputMode: m2, CSVOutput: interp.CSVOutputConfig{Separator: sp2}}
		res2 := awk.Exec(r.rtProgs["convert"], cfg2)
		if res2.Panic != "" || res2.Err != nil {
			return nil, []string{"convert: " + res2.ErrString()}, false
		}
		text = res2.Out
		mode, sep = "csv", sep2
		stage = "read back after conversion"
	}
	groups, errs := st.rtReadBack(text, mode, sep)
	if errs != "" {
		return nil, []string{"reader: " + errs}, false
	}
	if len(groups) != len(lists) {
		return nil, []string{fmt.Sprintf("%s: %d groups for %d lists; text %q", stage, len(groups), len(lists), trunc(text, 200))}, false
	}
	for i, l := range lists {
		g := groups[i]
		if len(g) != 1 || !c08Eq(g[0], l) {
			bad = append(bad, i)
			obs = append(obs, fmt.Sprintf("wrote %q, %s gives %q (text %q)", l, stage, g, trunc(text, 120)))
		}
		st.c.Outcome(fmt.Sprintf("%q", g))
	}
	return bad, obs, true
}

func (st *c08State) rtCheck(writer, mode, sep, sep2 string, lists [][]string) {
	report := func(l []string, obs string) {
		q := make([]string, len(l))
		for i, v := range l {
			q[i] = strconv.Quote(v)
		}
		kind := "roundtrip-mismatch"
		if len(l) == 1 && l[0] == "" {
			kind = "roundtrip-single-empty-field"
		}
		sig := kind + " writer=" + writer
		if sep2 != "-" {
			sig += "+convert"
		}
		st.fail(sig, c08RTCase{"rt", writer, sep, mode, sep2, q}, obs)
	}
	bad, obs, ok := st.rtBatch(writer, mode, sep, sep2, lists)
	if ok && len(lists) > 1 && len(bad) > 0 {
		ok = false // re-run individually so that the observation is that of the list alone
	}
	if ok {
		for k, i := range bad {
			report(lists[i], obs[k])
		}
		return
	}
	if len(lists) == 1 {
		report(lists[0], strings.Join(obs, "; "))
		return
	}
	for _, l := range lists {
		st.rtCheck(writer, mode, sep, sep2, [][]string{l})
	}
}

func c08RunRT(st *c08State) {
	c := st.c
	vlen := 2
	if c.Thorough() {
		vlen = 3
	}
	type rtCfg struct{ mode, sep, sep2 string }
	cfgs := []rtCfg{{"csv", "", "-"}, {"tsv", "", "-"}, {"csv", "|", "-"}, {"csv", "é", "-"}, {"csv", "", "\t"}, {"tsv", "", ","}, {"csv", "é", "|"}}
	for _, rc := range cfgs {
		sepS := rc.sep
		if sepS == "" {
			sepS = ","
			if rc.mode == "tsv" {
				sepS = "\t"
			}
		}
		alpha := []string{"a", sepS, "\"", "\n", " "}
		if rc.sep2 != "-" {
			alpha = append(alpha, rc.sep2) // the target separator is payload for the first stage
		}
		var vals []string
		for n := 0; n <= vlen; n++ {
			if rc.sep2 != "-" && n == vlen && vlen > 2 {
				continue
			}
			enumStrings(alpha, n, func(s string) { vals = append(vals, s) })
		}
		writers := []string{"print", "rebuild", "print-switch", "rebuild-switch"}
		if rc.sep2 != "-" {
			writers = []string{"print"}
		}
		var batch [][]string
		flush := func() {
			if len(batch) == 0 {
				return
			}
			if exp := c.Expired(); c.Mine() && !exp {
				c.Add("states", int64(len(batch)))
				for _, w := range writers {
					c.Add("transitions", int64(len(batch)))
					st.rtCheck(w, rc.mode, rc.sep, rc.sep2, batch)
				}
			}
			batch = nil
		}
		add := func(l ...string) {
			batch = append(batch, l)
			if len(batch) == 1024 {
				flush()
			}
		}
		for _, a := range vals {
			add(a)
		}
		for _, a := range vals {
			for _, b := range vals {
				add(a, b)
			}
		}
		for _, a := range vals {
			for _, b := range vals {
				for _, d := range vals {
					add(a, b, d)
				}
			}
		}
		flush()
	}
}

// ---------------------------------------------------------------- long sub-check

// Records around the 64 KiB read buffer: the first scan call then holds the
// BOM but no complete line even when the input arrives in large reads.
type c08LongCase struct {
	Kind   string `json:"kind"` // long
	Size   int    `json:"size"` // length of the first field
	Quoted bool   `json:"quoted"`
	BOM    bool   `json:"bom"`
	Header bool   `json:"header"`
	Split  int    `json:"split"` // 0 = whole, else one split point
}

func (st *c08State) checkLong(cs c08LongCase) {
	first := strings.Repeat("q", cs.Size)
	if cs.Quoted {
		first = "\"" + strings.Repeat("q", cs.Size-4) + "\n,\"\"\""
	}
	content := first + ",b\r\nc,d\n\ne,\"f\ng\""
	data := content
	if cs.BOM {
		data = c08BOM + content
	}
	cfg := c08Cfg{Mode: "csv", Header: cs.Header}
	want := c08Oracle(content, ',', 0)
	chunks := [][]byte{[]byte(data)}
	if cs.Split > 0 {
		chunks = [][]byte{[]byte(data[:cs.Split]), []byte(data[cs.Split:])}
	}
	r := st.r
	r.obs = &c08Obs{HdrN: -1}
	icfg := &interp.Config{Stdin: &awk.ChunkReader{Chunks: chunks, EmptyAt: -1, ErrAt: -1}, Funcs: r.funcs}
	cfg.apply(icfg)
	h := 0
	if cs.Header {
		h = 1
	}
	res := r.exec(h, icfg, true)
	o := r.obs
	r.obs = nil
	st.c.Eval(1)
	st.c.Add("transitions", 1)
	sig, detail := c08Judge(cfg, cs.BOM, o, res, want, false, false)
	short := func(s string) string {
		return strings.ReplaceAll(s, strings.Repeat("q", cs.Size-4), "q…")
	}
	st.c.Outcome(short(o.String()))
	if sig != "" {
		st.fail("long-"+sig, cs, trunc(short(detail), 600))
	}
}

func c08RunLong(st *c08State) {
	c := st.c
	for d := -6; d <= 2; d++ {
		for v := 0; v < 8; v++ {
			if !c.Mine() {
				continue
			}
			c.Add("states", 1)
			cs := c08LongCase{Kind: "long", Size: 65536 + d, Quoted: v&1 != 0, BOM: v&2 != 0, Header: v&4 != 0}
			st.checkLong(cs)
			for _, sp := range []int{1, 3, 4, 65535, 65536, 65537} {
				cs.Split = sp
				st.checkLong(cs)
			}
		}
	}
}

// ---------------------------------------------------------------- driver

func c08Run(c *core.Ctx) {
	// The live heap of a worker is a few MB while every execution allocates
	// short-lived scanner/record objects: collect less often (3x less CPU).
	debug.SetGCPercent(1600)
	st := &c08State{c: c, r: newC08Runner(), nfails: map[string]int{}}
	c08RunRT(st)
	c08RunAssign(st)
	c08RunFiles(st)
	c08RunLong(st)
	c08RunRead(st)
}

func c08Replay(c *core.Ctx, raw json.RawMessage) {
	st := &c08State{c: c, r: newC08Runner(), nfails: map[string]int{}}
	var probe struct {
		Kind string `json:"kind"`
	}
	json.Unmarshal(raw, &probe)
	switch probe.Kind {
	case "read":
		var cs c08Case
		if err := json.Unmarshal(raw, &cs); err != nil {
			panic(err)
		}
		in := unquoteGo(cs.InputQ)
		want := c08Oracle(in, cs.Cfg.sepRune(), cs.Cfg.commentRune())
		st.noReuse = true
		ref := "\x00unset"
		whole := cs
		whole.Mask, whole.EOFStyle = 0, 0
		if whole != cs {
			// the reference delivery (only its observation matters here)
			if sg, _, obs := st.verdictRead(whole, in, want, true); sg == "" {
				ref = obs
			}
		}
		st.checkRead(cs, in, want, &ref)
	case "assign":
		var cs c08AssignCase
		json.Unmarshal(raw, &cs)
		st.runAssign(cs.Cfg, []string{unquoteGo(cs.InputQ)})
	case "files":
		var cs c08FilesCase
		json.Unmarshal(raw, &cs)
		dir := filepath.Join(core.VerifDir, "work", "c08-files-replay")
		os.MkdirAll(dir, 0o755)
		defer os.RemoveAll(dir)
		var contents []string
		for _, q := range cs.Q {
			contents = append(contents, unquoteGo(q))
		}
		st.checkFiles(dir, cs.Cfg, contents)
	case "long":
		var cs c08LongCase
		json.Unmarshal(raw, &cs)
		st.checkLong(cs)
	case "rt":
		var cs c08RTCase
		json.Unmarshal(raw, &cs)
		var l []string
		for _, q := range cs.Vals {
			l = append(l, unquoteGo(q))
		}
		st.rtCheck(cs.Writer, cs.Mode, cs.Sep, cs.Sep2, [][]string{l})
	default:
		panic("c08: unknown case kind " + probe.Kind)
	}
}

func init() {
	core.Register(&core.Check{
		ID:    "C08",
		Level: "model_checking",
		Rule: "bounded-exhaustive enumeration, simplest first: (read) every input string up to the length bound over a per-configuration alphabet " +
			"{payload, separator, quote, LF, CR, comment char, space, multi-byte char} x BOM absent/present x every chunking (2^(bytes-1), BOM bytes included) x 2 EOF styles, " +
			"for 11 (mode, separator, comment, header) configurations and 2 reading paths (pattern-action, getline; inputs of more than 11 bytes incl. BOM, possible only with several 2-byte characters, are left out); (assign) `$0=s` and split(s,a) for every such s that is at most one record; " +
			"(files) header mode over all pairs of short files x BOM; (long) records of 65530..65538 bytes around the read-buffer size, whole and with one split point; (rt) every list of <=3 CR-free values over {a, sep, quote, LF, space} written by print $1..$n / $0 rebuild / `$1=$1` conversion and read back, the first two also with the output mode assigned by the program after a row was written in another output mode. " +
			"a state is one (configuration, input) or one value list, a transition one delivery / one write-read cycle; distinct = distinct observed (NR, NF, $0, fields, FIELDS, @name) sequences",
		Assumptions: []string{
			"oracle for fields: Go's encoding/csv Reader (LazyQuotes, FieldsPerRecord=-1, same Comma/Comment) on the BOM-free input is the reference RFC 4180 reader with lenient quotes",
			"record extent: from csv.Reader.InputOffset, minus leading blank/comment lines; $0 must equal that text without one trailing LF or CRLF",
			"left open by the statement and accepted in either form: CRLF inside a quoted field rendered as LF in $0; a lone CR right before end of input kept in or dropped from $0",
			"bufio.Scanner depends only on the (n, err) results of Read, so enumerating chunk sequences enumerates pipe timings",
			"`$0=s` / split(s,a) are compared only when s holds at most one record; a BOM at the start of an assigned string is not covered",
			"duplicate header names: @\"name\" may be any field whose header is that name",
			"plain getline re-parses $0: on that path the fields of the first record of the (already checked) $0 text are accepted as well (differs only for malformed records: unterminated quoted field, lone CR at the end of the text, quote followed by CR CR LF)",
			"executions of the read sub-check run on one reused Interpreter per program (ResetVars + Execute); every deviation seen there is re-evaluated on a fresh interpreter and reported only from that run; at most 6 violations per signature and worker are listed, the rest counted as violations_not_listed",
			"round trip: reader without comment character; values starting with a BOM are not enumerated (the BOM rule would apply); CR-free values only",
		},
		Run:    c08Run,
		Replay: c08Replay,
	})
}

package checks

import (
	"bufio"
	"bytes"
	"context"
	"encoding/json"
	"errors"
	"fmt"
	"io"
	"strings"
	"time"

	"github.com/benhoyt/goawk/interp"
	"github.com/benhoyt/goawk/parser"
	"github.com/benhoyt/goawk/vexp"

	"verifharness/awk"
	"verifharness/core"
	"verifharness/progenum"
	"verifharness/sched"
	"verifharness/vworld"
)

// C15 — cancellation (shape D, with S for child waits): the context is
// cancelled at every VM step k (a deviation of the environment from "never
// cancelled"), by a hook in the dispatch loop; for programs waiting on child
// processes, at every scheduling point of the virtual process world.

const c15AlarmSteps = 1500 // "about a thousand": the code polls every 1000; 1.5x tolerance for harmless changes of the period

type c15Prog struct {
	Name, Src, Input string
}

func c15Input(n int) string {
	var b strings.Builder
	for i := 1; i <= n; i++ {
		fmt.Fprintf(&b, "%d f%d x\n", i, i%7)
	}
	return b.String()
}

var c15Progs = []c15Prog{
	{"tight-while", `BEGIN { while (i < 4000) i++; print "done", i }`, ""},
	{"nested-calls", `function f(n) { return g(n) + 1 } function g(n) { return h(n) * 1 } function h(n) { return n + 1 } BEGIN { for (i = 0; i < 600; i++) s += f(i); print s }`, ""},
	{"deep-recursion", `function r(n) { return n ? r(n - 1) + 1 : 0 } BEGIN { for (i = 0; i < 12; i++) s += r(150); print s }`, ""},
	{"for-in", `BEGIN { for (i = 0; i < 2000; i++) a[i]; for (k in a) { n++; m += k } print n, m }`, ""},
	{"rules", `$1 % 2 { odd++ } $2 == "f3" { f3++ } { s += $1; t = t + length($0) } END { print odd, f3, s, t }`, c15Input(300)},
	{"end-loop", `{ n++ } END { for (i = 0; i < 3000; i++) s += i; print n, s }`, c15Input(20)},
	{"printf-loop", `BEGIN { for (i = 0; i < 900; i++) printf "%d,", i; print "" }`, ""},
	{"print-rule", `{ print NR ":" $2 } END { print "end" }`, c15Input(300)},
	{"pattern-only", `NR % 3`, c15Input(300)},
	{"getline-loop", `BEGIN { while ((getline line) > 0) { n++; s = s substr(line, 1, 1) } print n, length(s) }`, c15Input(400)},
	{"nested-loops", `BEGIN { for (i = 0; i < 60; i++) for (j = 0; j < 40; j++) if (i != j) c++; print c }`, ""},
	{"forin-in-func", `function sum(arr,   k, t) { for (k in arr) t += arr[k]; return t } BEGIN { for (i = 0; i < 300; i++) a[i] = i; for (r = 0; r < 6; r++) s += sum(a); print s }`, ""},
	{"error-after", `BEGIN { for (i = 0; i < 2500; i++) s += i; print s; x = 1 / 0 }`, ""},
	{"error-early", `BEGIN { x = 1 / 0 }`, ""},
	{"error-in-func", `function f(n) { return 1 / (n - 40) } BEGIN { for (i = 0; i < 100; i++) s += f(i); print s }`, ""},
	{"error-in-rule", `{ s += 1 / (25 - NR); print s }`, c15Input(40)},
	{"error-in-end", `{ n++ } END { for (i = 0; i < 50; i++) s += i; print s; x = 1 / (n - 20) }`, c15Input(20)},
	{"error-in-forin", `BEGIN { for (i = 0; i < 30; i++) a[i] = 15 - i; for (k in a) s += 1 / a[k]; print s }`, ""},
	// long runs: cancellation late in a run (hundreds of thousands of steps in), in a loop, in nested calls and in END
	{"long-while", `BEGIN { while (i < 250000) i++; print "done", i }`, ""},
	{"long-calls", `function f(n) { return g(n) + 1 } function g(n) { return n * 2 } BEGIN { for (i = 0; i < 60000; i++) s += f(i); print s }`, ""},
	{"long-end", `{ n++ } END { for (i = 0; i < 200000; i++) s += i; print n, s }`, c15Input(5)},
	{"exit-in-loop", `BEGIN { for (i = 0; ; i++) if (i > 2500) exit 4 } END { for (j = 0; j < 1500; j++) t += j; print t }`, ""},
}

type c15Case struct {
	Prog     string `json:"prog"`
	CancelAt int    `json:"cancel_at"`
	Buffered bool   `json:"buffered"`
	Kind     string `json:"kind"` // step, pre-cancelled, deadline, child, never
	Warm     int    `json:"warm,omitempty"`
	Src      string `json:"src,omitempty"`
	Choices  []int  `json:"choices,omitempty"`
}

type c15Base struct {
	out    string
	status int
	err    bool
	steps  int
}

func c15Baseline(prog *parser.Program, input string) c15Base {
	steps := 0
	vexp.SetStepFn(func() { steps++ })
	defer vexp.SetStepFn(nil)
	it, _ := interp.New(prog)
	var out bytes.Buffer
	st, err := it.Execute(&interp.Config{Stdin: strings.NewReader(input), Output: &out, Error: &bytes.Buffer{}, Environ: []string{}})
	return c15Base{out.String(), st, err != nil, steps}
}

// c15CancelAt cancels before instruction number k+1 (k = 0: before the first).
// warm > 0: the Interpreter is a reused one whose earlier run completed (1) under
// another context that is still live and never cancelled, (2) under a context
// cancelled after that run had ended, (3) through plain Execute.
func c15CancelAt(c *core.Ctx, p c15Prog, prog *parser.Program, base c15Base, k int, buffered bool, warm int) {
	it, _ := interp.New(prog)
	if warm > 0 {
		wcfg := &interp.Config{Stdin: strings.NewReader(p.Input), Output: &bytes.Buffer{}, Error: &bytes.Buffer{}, Environ: []string{}}
		switch warm {
		case 1:
			wctx, wcancel := context.WithCancel(context.Background())
			defer wcancel() // stays live for the whole of the observed run
			it.ExecuteContext(wctx, wcfg)
		case 2:
			wctx, wcancel := context.WithCancel(context.Background())
			it.ExecuteContext(wctx, wcfg)
			wcancel()
		case 3:
			it.Execute(wcfg)
		}
		it.ResetVars() // the program's variables legitimately carry over otherwise (C14); this check compares with a first run
	}
	// every third point uses a context with a recorded cause: what the call
	// returns is the context's error (ctx.Err()), not the caller's cause
	var ctx context.Context
	var cancel func()
	if k%3 == 1 {
		c2, cc := context.WithCancelCause(context.Background())
		ctx, cancel = c2, func() { cc(errors.New("the caller's reason")) }
	} else {
		ctx, cancel = context.WithCancel(context.Background())
	}
	defer cancel()
	var rec bytes.Buffer
	var bw *bufio.Writer
	cfg := &interp.Config{Stdin: strings.NewReader(p.Input), Error: &bytes.Buffer{}, Environ: []string{}}
	if buffered {
		bw = bufio.NewWriterSize(&rec, 65536)
		cfg.Output = bw
	} else {
		cfg.Output = &rec
	}
	steps, after, printedAtCancel := 0, 0, -1
	cancelled := false
	vexp.SetStepFn(func() {
		if steps == k && !cancelled {
			cancelled = true
			printedAtCancel = rec.Len()
			if bw != nil {
				printedAtCancel += bw.Buffered()
			}
			cancel()
		}
		steps++
		if cancelled {
			after++
		}
	})
	var st int
	var err error
	panicked := ""
	func() {
		defer func() {
			if r := recover(); r != nil {
				panicked = fmt.Sprint(r)
			}
		}()
		st, err = it.ExecuteContext(ctx, cfg)
	}()
	vexp.SetStepFn(nil)
	c.Eval(1)
	c.Add("transitions", 1)
	cs := c15Case{Prog: p.Name, CancelAt: k, Buffered: buffered, Kind: "step", Warm: warm}
	sig := func(s string) string {
		if warm > 0 {
			s += ":reused-interpreter"
		}
		return s + ":prog=" + p.Name
	}
	if panicked != "" {
		c.Fail(sig("panic"), cs, panicked)
		return
	}
	got := rec.String()
	if !cancelled {
		// the program ended before step k: must equal the baseline
		if got != base.out || st != base.status || (err != nil) != base.err {
			c.Fail(sig("uncancelled-run-differs"), cs, fmt.Sprintf("out=%q status=%d err=%v", trunc(got, 80), st, err))
		}
		c.Outcome("complete")
		return
	}
	c.NoteMax("max_steps_after_cancel", int64(after))
	c.Outcome(fmt.Sprintf("%s after=%d err=%v", p.Name, after/100, err))
	if after > c15AlarmSteps {
		c.Fail(sig("late-stop"), cs, fmt.Sprintf("%d interpreter steps executed after cancellation (limit %d); err=%v", after, c15AlarmSteps, err))
		return
	}
	if err != nil && err == ctx.Err() {
		if !strings.HasPrefix(base.out, got) {
			c.Fail(sig("output-not-a-prefix"), cs, fmt.Sprintf("got %q", trunc(got, 100)))
		}
		if len(got) < printedAtCancel {
			c.Fail(sig("printed-output-lost"), cs, fmt.Sprintf("%d bytes had been printed when the context was cancelled, %d delivered", printedAtCancel, len(got)))
		}
		return
	}
	// not the context error: only acceptable if the program ran to its normal,
	// error-free end within the allowed steps. A run that fails after the
	// cancellation must report the context's error, not the secondary one.
	if err == nil && got == base.out && st == base.status && !base.err {
		return
	}
	c.Fail(sig("wrong-result-after-cancel"), cs, fmt.Sprintf("err=%v status=%d out=%q (baseline err=%v status=%d)", err, st, trunc(got, 80), base.err, base.status))
}

func c15Points(total int, thorough bool) []int {
	seen := map[int]bool{}
	var out []int
	add := func(k int) {
		if k >= 0 && k <= total+1 && !seen[k] {
			seen[k] = true
			out = append(out, k)
		}
	}
	if thorough {
		for k := 0; k <= 3000; k++ {
			add(k)
		}
		for k := 3000; k <= total && k <= 40000; k += 7 {
			add(k)
		}
	} else {
		for k := 0; k <= 300; k++ {
			add(k)
		}
		for k := 300; k <= 3000; k += 7 {
			add(k)
		}
		for k := 3000; k <= total && k <= 40000; k += 61 {
			add(k)
		}
	}
	// late points of long runs
	late := 49999
	if thorough {
		late = 9973
	}
	for k := 40000 + late; k <= total; k += late {
		add(k)
	}
	for k := total - 40; k <= total+1; k++ {
		add(k)
	}
	return out
}

func c15Run(c *core.Ctx) {
	for _, p := range c15Progs {
		prog := awk.MustParse(p.Src, nil)
		base := c15Baseline(prog, p.Input)
		c.Add("states", 1)
		if c.Shard == 0 {
			c.Sample(map[string]any{"prog": p.Name, "src": p.Src, "total_steps": base.steps})
		}
		for _, buffered := range []bool{false, true} {
			for _, k := range c15Points(base.steps, c.Thorough()) {
				if !c.Mine() || c.Expired() {
					continue
				}
				c15CancelAt(c, p, prog, base, k, buffered, 0)
			}
		}
		// the same on a reused Interpreter (three kinds of earlier run), every 9th point (thorough: 3rd)
		stride := 9
		if c.Thorough() {
			stride = 3
		}
		for i, k := range c15Points(base.steps, c.Thorough()) {
			if i%stride != 0 || !c.Mine() || c.Expired() {
				continue
			}
			for warm := 1; warm <= 3; warm++ {
				c15CancelAt(c, p, prog, base, k, i%2 == 1, warm)
			}
		}
		// pre-cancelled and already-expired contexts
		if c.Mine() {
			for _, kind := range []string{"pre-cancelled", "pre-cancelled-cause", "deadline-cause", "deadline"} {
				var ctx context.Context
				var cancel context.CancelFunc
				want := context.Canceled
				if kind == "pre-cancelled" {
					ctx, cancel = context.WithCancel(context.Background())
					cancel()
				} else if kind == "pre-cancelled-cause" {
					c2, cc := context.WithCancelCause(context.Background())
					cc(errors.New("the caller's reason"))
					ctx, cancel = c2, func() {}
				} else if kind == "deadline-cause" {
					ctx, cancel = context.WithDeadlineCause(context.Background(), time.Unix(1, 0), errors.New("the caller's reason"))
					want = context.DeadlineExceeded
				} else {
					ctx, cancel = context.WithDeadline(context.Background(), time.Unix(1, 0))
					want = context.DeadlineExceeded
				}
				steps := 0
				vexp.SetStepFn(func() { steps++ })
				it, _ := interp.New(prog)
				var out bytes.Buffer
				st, err := it.ExecuteContext(ctx, &interp.Config{Stdin: strings.NewReader(p.Input), Output: &out, Error: &bytes.Buffer{}, Environ: []string{}})
				vexp.SetStepFn(nil)
				cancel()
				c.Eval(1)
				c.Add("transitions", 1)
				cs := c15Case{Prog: p.Name, Kind: kind}
				c.NoteMax("max_steps_after_cancel", int64(steps))
				if steps > c15AlarmSteps {
					c.Fail("late-stop:"+kind+":prog="+p.Name, cs, fmt.Sprintf("%d steps with an already finished context", steps))
				} else if err != want && !(err == nil && out.String() == base.out && st == base.status && !base.err) {
					c.Fail("wrong-result:"+kind+":prog="+p.Name, cs, fmt.Sprintf("err=%v want %v", err, want))
				}
			}
		}
	}
	c15Children(c)
	c15Never(c)
	c15NeverChildren(c)
	c15Records(c)
}

// ---- waiting for child processes: cancellation at every scheduling point ----

var c15ChildProgs = []c15Prog{
	{"system-sleep", `BEGIN { print "before"; r = system("sleep"); for (i = 0; i < 4000; i++) s += i; print "after", r }`, ""},
	{"getline-sleep", `BEGIN { print "before"; r = ("sleep" | getline x); for (i = 0; i < 4000; i++) s += i; print "after", r }`, ""},
	{"pipe-sleep-close", `BEGIN { print "before"; print "data" | "sleep"; r = close("sleep"); for (i = 0; i < 4000; i++) s += i; print "after", r }`, ""},
	{"system-in-func-loop", `function f() { return system("sleep") } BEGIN { for (i = 0; i < 3000; i++) { if (i < 3) { print "iter", i; f() } } print "after" }`, ""},
	{"end-system", `END { print "end"; system("sleep"); for (i = 0; i < 4000; i++) s += i; print "after" }`, "x\n"},
	{"short-tail", `BEGIN { print "before"; r = system("sleep"); print "after" }`, ""},
	// the killed shell leaves a descendant that keeps the output pipe open: the wait must still end
	{"system-orphan", `BEGIN { print "before"; r = system("sleep-orphan"); for (i = 0; i < 4000; i++) s += i; print "after", r }`, ""},
	{"pipe-orphan-close", `BEGIN { print "before"; print "data" | "sleep-orphan"; r = close("sleep-orphan"); for (i = 0; i < 4000; i++) s += i; print "after", r }`, ""},
}

type c15ChildObs struct {
	err      error
	out      string
	deadlock bool
	overrun  bool
	panics   []string
	after    int
	events   []string
}

func c15ChildExec(ch *sched.Chooser, p c15Prog, prog *parser.Program) c15ChildObs {
	s := sched.New(ch)
	s.Horizon = 20000
	w := vworld.New(s)
	w.Install()
	defer w.Uninstall()
	ctx, cancel := context.WithCancel(context.Background())
	defer cancel()
	var o c15ChildObs
	var out bytes.Buffer
	cancelled := false
	vexp.SetStepFn(func() {
		if cancelled {
			o.after++
		}
	})
	defer vexp.SetStepFn(nil)
	s.Spawn("main", func() {
		it, _ := interp.New(prog)
		_, o.err = it.ExecuteContext(ctx, &interp.Config{Stdin: strings.NewReader(p.Input), Output: &out, Error: &bytes.Buffer{}, Environ: []string{}, ShellCommand: []string{"sh", "-c"}})
	})
	s.Spawn("canceller", func() {
		cancelled = true
		cancel()
	})
	s.Run()
	o.out = out.String()
	o.deadlock, o.overrun, o.panics, o.events = s.Deadlock, s.Overrun, s.Panics, w.Events
	return o
}

func c15Children(c *core.Ctx) {
	bound := 2
	if c.Thorough() {
		bound = 3
	}
	for _, p := range c15ChildProgs {
		if !c.Mine() {
			continue
		}
		prog := awk.MustParse(p.Src, nil)
		c.Add("states", 1)
		seen := map[string]bool{}
		st := sched.Explore(bound, 50000, nil, func(ch *sched.Chooser) {
			o := c15ChildExec(ch, p, prog)
			cs := c15Case{Prog: p.Name, Kind: "child", Choices: ch.Choices()}
			fail := func(sig, d string) {
				if !seen[sig] {
					seen[sig] = true
					c.Fail(sig+":prog="+p.Name, cs, d)
				}
			}
			c.Outcome(p.Name + o.out + fmt.Sprint(o.err))
			switch {
			case len(o.panics) > 0:
				fail("child:panic", firstLine(o.panics[0]))
			case o.deadlock:
				fail("child:deadlock-after-cancel", strings.Join(o.events, "; "))
			case o.overrun:
				fail("child:horizon", "")
			case o.after > c15AlarmSteps:
				fail("child:late-stop", fmt.Sprintf("%d steps after cancel; err=%v", o.after, o.err))
			case !errors.Is(o.err, context.Canceled) && (o.err != nil || !strings.HasSuffix(o.out, "after\n") && !strings.Contains(o.out, "after ")):
				// not the context error: only acceptable if the program ran to its normal end within the allowed steps
				fail("child:wrong-result-after-cancel", fmt.Sprintf("err=%v out=%q events=%v", o.err, o.out, o.events))
			}
		})
		c.Eval(st.Executions)
		c.Add("transitions", st.Executions)
		c.Add("schedules", st.Executions)
		if st.Capped {
			c.Cap("schedule cap")
		}
		if st.ReplayError != nil {
			panic("C15 replay divergence: " + st.ReplayError.Error())
		}
	}
}

// ---- never cancelled: ExecuteContext behaves exactly like Execute ----

func c15Never(c *core.Ctx) {
	dir := c01Dir(c)
	n := 0
	f := func(pc progenum.Case) {
		if !c.Mine() || c.Expired() {
			return
		}
		prog, err, pn := awk.Parse(pc.Src, nil)
		if err != nil || pn != "" {
			return
		}
		for _, in := range []string{"a b c\n", "1 2\n3 4\n5"} {
			a := runImpl(prog, in, nil, dir, usesFiles(pc.Src), 300000)
			b := c15RunCtx(prog, in, dir, usesFiles(pc.Src))
			c.Eval(2)
			c.Add("transitions", 1)
			n++
			if a.Budget || b.Budget {
				continue
			}
			if ok, kind := sameObs(a, b, usesFiles(pc.Src)); !ok || a.Panic != b.Panic {
				c.Fail("never-cancelled-differs:"+kind, c15Case{Kind: "never", Prog: pc.Family + "/" + pc.Name, Src: pc.Src}, "Execute: "+a.String()+" || ExecuteContext: "+b.String())
			}
		}
	}
	progenum.EnumMisc(c.Thorough(), f)
	progenum.EnumBuiltins(c.Thorough(), f)
	progenum.EnumCalls(c.Thorough(), f)
	progenum.EnumControl(c.Thorough(), f)
	if c.Thorough() {
		progenum.EnumLvalue(true, f)
	}
}

// ---- record-driven programs: work measured in records consumed ----
//
// Evaluating a rule's pattern for a record is an interpreter step whatever
// machinery does it. The input (6000 records) is delivered one record per
// Read, so the number of Reads after the cancellation is the number of
// records still processed: it must stay within the same allowance, and the
// call must return the context's error (the input is far from exhausted).

var c15RecordProgs = []c15Prog{
	{"regex-pattern-only", `/f3/`, ""},
	{"regex-rules-not-matching", `/zzz/ { n++ } /yyy/ { m++ } END { print NR }`, ""},
	{"regex-bare-matching", `/x/`, ""},
	{"negated-regex", `!/f3/ { n++ } END { print n }`, ""},
	{"expr-pattern", `$1 % 2`, ""},
	{"range-pattern", `/f1/, /f5/ { n++ } END { print n }`, ""},
	{"two-rules", `/f1/ { a++ } $1 > 5 { b++ } END { print a, b }`, ""},
	{"action-only", `{ s += $1 } END { print s }`, ""},
}

type c15LineReader struct {
	lines  [][]byte
	i      int
	onRead func(i int)
}

func (r *c15LineReader) Read(p []byte) (int, error) {
	if r.i >= len(r.lines) {
		return 0, io.EOF
	}
	if r.onRead != nil {
		r.onRead(r.i)
	}
	n := copy(p, r.lines[r.i])
	r.i++
	return n, nil
}

func c15Records(c *core.Ctx) {
	const total = 6000
	var lines [][]byte
	for i := 1; i <= total; i++ {
		lines = append(lines, []byte(fmt.Sprintf("%d f%d x\n", i, i%7)))
	}
	for _, p := range c15RecordProgs {
		if !c.Mine() {
			continue
		}
		prog := awk.MustParse(p.Src, nil)
		c.Add("states", 1)
		for _, cancelAt := range []int{-1, 0, 1, 10, 2000} { // -1: context cancelled before the call
			c15RecordRun(c, p, prog, lines, cancelAt)
		}
	}
}

func c15RecordRun(c *core.Ctx, p c15Prog, prog *parser.Program, lines [][]byte, cancelAt int) {
	ctx, cancel := context.WithCancel(context.Background())
	defer cancel()
	cancelledAt := -1
	if cancelAt < 0 {
		cancel()
		cancelledAt = 0
	}
	rd := &c15LineReader{lines: lines}
	rd.onRead = func(i int) {
		if i == cancelAt && cancelledAt < 0 {
			cancelledAt = i
			cancel()
		}
	}
	it, _ := interp.New(prog)
	var out bytes.Buffer
	_, err := it.ExecuteContext(ctx, &interp.Config{Stdin: rd, Output: &out, Error: &bytes.Buffer{}, Environ: []string{}})
	c.Eval(1)
	c.Add("transitions", 1)
	after := rd.i - cancelledAt
	c.NoteMax("max_records_after_cancel", int64(after))
	c.Outcome(fmt.Sprintf("records %s after=%d err=%v", p.Name, after/100, err))
	cs := c15Case{Prog: p.Name, CancelAt: cancelAt, Kind: "records"}
	switch {
	case after > c15AlarmSteps:
		c.Fail("late-stop:records:prog="+p.Name, cs, fmt.Sprintf("%d records were still read and matched against the patterns after the cancellation (limit %d); err=%v", after, c15AlarmSteps, err))
	case !errors.Is(err, context.Canceled):
		c.Fail("wrong-result:records:prog="+p.Name, cs, fmt.Sprintf("err=%v after %d of %d records", err, rd.i, len(lines)))
	}
}

// ---- never cancelled, with child processes (virtual world, default schedule) ----

var c15NeverChildProgs = []c15Prog{
	{"system-emit", `BEGIN { print "a"; r = system("emit:xy"); print "b", r }`, ""},
	{"system-exit", `BEGIN { r = system("exit:3"); print r }`, ""},
	{"system-orphan", `BEGIN { print "a"; r = system("orphan"); print "b", r }`, ""},
	{"pipe-cat-close", `BEGIN { print "d1" | "cat"; print "d2" | "cat"; r = close("cat"); print "c", r }`, ""},
	{"pipe-orphan-close", `BEGIN { print "d" | "orphan"; r = close("orphan"); print "c", r }`, ""},
	{"pipe-cat-unclosed", `BEGIN { print "d" | "cat"; print "e" }`, ""},
	{"cmd-getline", `BEGIN { while (("emit:l1\nl2\n" | getline v) > 0) print "g", v; print close("emit:l1\nl2\n") }`, ""},
	{"cmd-getline-fail", `BEGIN { r = ("fail-start" | getline v); print r; r = system("fail-start"); print r }`, ""},
	{"end-system", `END { r = system("emit:z"); print NR, r }`, "x\ny\n"},
}

type c15NeverObs struct {
	out, errOut string
	status      int
	err         string
	dead        bool
	events      string
}

func c15NeverChildRun(p c15Prog, prog *parser.Program, useCtx bool) c15NeverObs {
	s := sched.New(sched.NewChooser(nil))
	s.Horizon = 20000
	w := vworld.New(s)
	w.Install()
	defer w.Uninstall()
	var o c15NeverObs
	var out, errb bytes.Buffer
	s.Spawn("main", func() {
		it, _ := interp.New(prog)
		cfg := &interp.Config{Stdin: strings.NewReader(p.Input), Output: &out, Error: &errb, Environ: []string{}, ShellCommand: []string{"sh", "-c"}}
		var err error
		if useCtx {
			ctx, cancel := context.WithCancel(context.WithValue(context.Background(), c15Key{}, 1))
			defer cancel()
			o.status, err = it.ExecuteContext(ctx, cfg)
		} else {
			o.status, err = it.Execute(cfg)
		}
		if err != nil {
			o.err = err.Error()
		}
	})
	s.Run()
	o.out, o.errOut = out.String(), errb.String()
	o.dead = s.Deadlock || s.Overrun
	var ev []string
	for _, e := range w.Events {
		if !strings.HasPrefix(e, "kill ") { // the context watcher's bookkeeping is not an observation
			ev = append(ev, e)
		}
	}
	o.events = strings.Join(ev, "; ")
	return o
}

type c15Key struct{}

func c15NeverChildren(c *core.Ctx) {
	for _, p := range c15NeverChildProgs {
		if !c.Mine() {
			continue
		}
		prog := awk.MustParse(p.Src, nil)
		a := c15NeverChildRun(p, prog, false)
		b := c15NeverChildRun(p, prog, true)
		c.Eval(2)
		c.Add("transitions", 2)
		c.Add("states", 1)
		c.Outcome("never-child " + p.Name + a.out)
		if a != b {
			c.Fail("never-cancelled-differs:child:prog="+p.Name, c15Case{Kind: "never-child", Prog: p.Name, Src: p.Src},
				fmt.Sprintf("Execute: %+v || ExecuteContext (never cancelled): %+v", a, b))
		}
	}
}

func c15RunCtx(prog *parser.Program, input string, dir string, uf bool) implObs {
	// same as runImpl but through ExecuteContext with a context that is never cancelled
	saved := awk.ExecHook
	ctx, cancel := context.WithCancel(context.Background())
	defer cancel()
	awk.ExecHook = func(p *parser.Program, cfg *interp.Config) (int, error) {
		it, err := interp.New(p)
		if err != nil {
			return 0, err
		}
		return it.ExecuteContext(ctx, cfg)
	}
	defer func() { awk.ExecHook = saved }()
	return runImpl(prog, input, nil, dir, uf, 300000)
}

func c15Replay(c *core.Ctx, raw json.RawMessage) {
	var cs c15Case
	if err := json.Unmarshal(raw, &cs); err != nil {
		panic(err)
	}
	switch cs.Kind {
	case "records":
		var lines [][]byte
		for i := 1; i <= 6000; i++ {
			lines = append(lines, []byte(fmt.Sprintf("%d f%d x\n", i, i%7)))
		}
		for _, p := range c15RecordProgs {
			if p.Name == cs.Prog {
				c15RecordRun(c, p, awk.MustParse(p.Src, nil), lines, cs.CancelAt)
			}
		}
	case "never-child":
		for _, p := range c15NeverChildProgs {
			if p.Name == cs.Prog {
				prog := awk.MustParse(p.Src, nil)
				if a, b := c15NeverChildRun(p, prog, false), c15NeverChildRun(p, prog, true); a != b {
					c.Fail("never-cancelled-differs:child:prog="+p.Name, cs, fmt.Sprintf("Execute: %+v || ExecuteContext (never cancelled): %+v", a, b))
				}
			}
		}
	case "step":
		for _, p := range c15Progs {
			if p.Name == cs.Prog {
				prog := awk.MustParse(p.Src, nil)
				c15CancelAt(c, p, prog, c15Baseline(prog, p.Input), cs.CancelAt, cs.Buffered, cs.Warm)
			}
		}
	case "child":
		for _, p := range c15ChildProgs {
			if p.Name == cs.Prog {
				o := c15ChildExec(sched.NewChooser(cs.Choices), p, awk.MustParse(p.Src, nil))
				if o.deadlock || len(o.panics) > 0 || !errors.Is(o.err, context.Canceled) || o.after > c15AlarmSteps {
					c.Fail("child:replayed:prog="+p.Name, cs, fmt.Sprintf("err=%v deadlock=%v after=%d out=%q", o.err, o.deadlock, o.after, o.out))
				}
			}
		}
	case "never":
		prog, err, _ := awk.Parse(cs.Src, nil)
		if err != nil {
			return
		}
		dir := c01Dir(c)
		for _, in := range []string{"a b c\n", "1 2\n3 4\n5"} {
			a := runImpl(prog, in, nil, dir, usesFiles(cs.Src), 300000)
			b := c15RunCtx(prog, in, dir, usesFiles(cs.Src))
			if ok, kind := sameObs(a, b, usesFiles(cs.Src)); !ok {
				c.Fail("never-cancelled-differs:"+kind, cs, "Execute: "+a.String()+" || ExecuteContext: "+b.String())
			}
		}
	default:
		// pre-cancelled / deadline: re-run the whole (tiny) family
		c15Run(c)
	}
}

func init() {
	core.Register(&core.Check{
		ID:    "C15",
		Level: "model_checking",
		Rule: "deviation-bounded environment exploration: for 22 programs (tight loop, three long runs of 0.7-1.2 million steps cancelled every ~50000 (thorough ~10000) steps, nested calls, recursion, for-in, main-loop rules, END loop, pending printf output, getline loop, exit after loops, runtime error in BEGIN / function / rule / END / for-in body) the context is cancelled before VM step k for every k<=300 + every 7th k<=3000 + every 61st up to the end (thorough: every k<=3000 + every 7th), with unbuffered and bufio-wrapped output (every third point on a context with a recorded cause), plus pre-cancelled and expired contexts with and without a cause: the error returned is ctx.Err() itself; every 9th (thorough 3rd) of these points again on a reused Interpreter whose earlier run completed under another context that is still live / under a context cancelled afterwards / through plain Execute; " +
			"for 8 programs waiting on child processes (system, cmd|getline, print|cmd+close, inside a function/loop, in END, a killed shell whose descendant keeps the output pipe open) every placement of the cancel among the scheduling points of the virtual process world up to 2 (thorough 3) deviations; 8 record-driven programs (bare regex patterns matching / not matching, negated, expression, range, several rules) on 6000 records delivered one per Read, cancelled before the call or at record 0/1/10/2000: records consumed after the cancellation <= the same allowance; never-cancelled ExecuteContext vs Execute on the C01 misc/builtins/calls/control program space and on 9 programs with child processes in the virtual world; " +
			"state = one program, transition = one execution; distinct = distinct (program, steps-after-cancel bucket, result)",
		Assumptions: []string{
			"alarm threshold for 'a fixed small number (about a thousand)' of further steps is 1500 (the code polls every 1000 instructions); the measured maximum is reported as note_max_steps_after_cancel",
			"a run that ends with a non-context error after the cancellation is a violation (the context's error is preferred over secondary errors); only an error-free normal end within the step allowance is accepted in place of the context's error",
			"for record-driven programs the evaluation of a rule's pattern (or the execution of a pattern-less action) for one record counts as at least one interpreter step however it is implemented; a program with END only is not in that set (reading records without evaluating anything is not an interpreter step)",
			"a VM step = one iteration of the dispatch loop (hook spliced in by the overlay)",
			"child processes are the vexec model; CommandContext kills the child when the context is done; WaitDelay is modelled without a clock: it expires exactly when the process has exited and a descendant still holds its output pipe (scripts orphan / sleep-orphan), without it Wait blocks as long as the pipe is held",
		},
		Run:    c15Run,
		Replay: c15Replay,
	})
}

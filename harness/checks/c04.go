package checks

import (
	"encoding/json"
	"fmt"
	"strings"

	"github.com/benhoyt/goawk/vexp"

	"verifharness/awk"
	"verifharness/core"
)

// C04 — expressions group by the POSIX precedence/associativity table (shape B).
//
// The generator (c04gen.go) owns every tree T. T is written fully
// parenthesised and with only the parentheses the table requires, in several
// statement contexts; the parsed tree (vexp.CanonTree) must be T each time.

type c04Ctx struct {
	Name      string
	Pre, Post []string
	Print     bool // an unparenthesised > in the expression would be a redirection
	CanonPre  string
	CanonPost string
	Bracket   bool // extra context, used for trees with <= 2 operators only
}

var c04Ctxs = []*c04Ctx{
	{Name: "stmt", Pre: []string{"BEGIN", "{"}, Post: []string{"}"}, CanonPre: "(BEGIN {(expr ", CanonPost: ")})\n"},
	{Name: "print", Pre: []string{"BEGIN", "{", "print"}, Post: []string{"}"}, Print: true, CanonPre: "(BEGIN {(print [", CanonPost: "] <illegal> nil)})\n"},
	{Name: "pattern", Pre: nil, Post: []string{"{", "}"}, CanonPre: "(ACTION [", CanonPost: "] {})\n"},
	{Name: "if", Pre: []string{"BEGIN", "{", "if", "("}, Post: []string{")", "x99", "}"}, CanonPre: "(BEGIN {(if ", CanonPost: " {(expr (var x99))} nil)})\n"},
	{Name: "print-redirect", Pre: []string{"BEGIN", "{", "print"}, Post: []string{">", `"o"`, "}"}, Print: true, CanonPre: "(BEGIN {(print [", CanonPost: "] > (str \"o\"))})\n"},
	{Name: "subscript", Pre: []string{"BEGIN", "{", "x99", "=", "a", "["}, Post: []string{"]", "}"}, CanonPre: "(BEGIN {(expr (= (var x99) (index a [", CanonPost: "])))})\n", Bracket: true},
	{Name: "call-arg", Pre: []string{"BEGIN", "{", "f("}, Post: []string{")", "}"}, CanonPre: "(BEGIN {(expr (ucall f [", CanonPost: "]))})\n", Bracket: true},
	{Name: "printf", Pre: []string{"BEGIN", "{", "printf"}, Post: []string{"}"}, Print: true, CanonPre: "(BEGIN {(printf [", CanonPost: "] <illegal> nil)})\n", Bracket: true},
	{Name: "print-arg2", Pre: []string{"BEGIN", "{", "print", "x99", ","}, Post: []string{"}"}, Print: true, CanonPre: "(BEGIN {(print [(var x99) ", CanonPost: "] <illegal> nil)})\n", Bracket: true},
	{Name: "print-pipe", Pre: []string{"BEGIN", "{", "print"}, Post: []string{"|", `"c"`, "}"}, Print: true, CanonPre: "(BEGIN {(print [", CanonPost: "] | (str \"c\"))})\n", Bracket: true},
	{Name: "while", Pre: []string{"BEGIN", "{", "while", "("}, Post: []string{")", "x99", "}"}, CanonPre: "(BEGIN {(while ", CanonPost: " {(expr (var x99))})})\n", Bracket: true},
}

const c04FuncSrc = "\nfunction f(p) { return p }"
const c04FuncCanon = "(FUNC f (p) {(return (var p))})\n"

// c04Case is the replayable description of one parsed text.
type c04Case struct {
	Src    string `json:"src"`
	Want   string `json:"want"`   // expected canonical tree ("" for oracle reject)
	Oracle string `json:"oracle"` // strict | permissive | reject | match-chain | no-gt-comparison
	Alt    string `json:"alt,omitempty"`
	Sig    string `json:"sig"`
	Mode   string `json:"mode"`
	Ctx    string `json:"ctx"`
	Tree   string `json:"tree"`
}

type c04Checker struct {
	c *core.Ctx
	*c04Sharder
}

// c04Parse parses src on the real parser and renders the tree.
func c04Parse(src string) (canon string, perr string, panicked string) {
	prog, err, pn := awk.Parse(src, nil)
	if pn != "" {
		return "", "", pn
	}
	if err != nil {
		return "", err.Error(), ""
	}
	return vexp.CanonTree(prog, vexp.CanonOpts{}), "", ""
}

func c04WithFunc(src, want string) (string, string) {
	if strings.Contains(src, "f(") {
		return src + c04FuncSrc, want + c04FuncCanon
	}
	return src, want
}

func (k *c04Checker) failCase(cs c04Case, observed string) {
	k.fail(cs.Sig, cs, observed)
}

// c04Judge evaluates one case; returns the failure text ("" if fine).
func c04Judge(cs c04Case) (observedOutcome string, failure string) {
	canon, perr, pn := c04Parse(cs.Src)
	if pn != "" {
		return "panic", "parser panicked: " + firstLine(pn)
	}
	switch cs.Oracle {
	case "strict":
		if perr != "" {
			return "reject", "rejected: " + perr + " ; want " + cs.Want
		}
		if canon != cs.Want {
			return canon, "got " + canon + " want " + cs.Want
		}
	case "permissive":
		if perr != "" {
			return "reject", ""
		}
		if canon != cs.Want {
			return canon, "accepted with another grouping: got " + canon + " want (or a syntax error) " + cs.Want
		}
	case "reject":
		if perr == "" {
			return canon, "accepted, but no grouping exists for it: got " + canon
		}
		return "reject", ""
	case "match-chain":
		if perr != "" {
			return "reject", ""
		}
		if canon != cs.Want {
			return canon, "got " + canon + " want a syntax error or the left grouping " + cs.Want
		}
	case "no-gt-comparison":
		// a bare > in a print argument: whatever happens, it may not be a comparison
		if perr != "" {
			return "reject", ""
		}
		if strings.Contains(canon, "(> ") {
			return canon, "the unparenthesised > became a comparison: got " + canon
		}
	}
	return canon, ""
}

func (k *c04Checker) run(cs c04Case) {
	k.c.Eval(1)
	k.c.Add("transitions", 1)
	out, failure := c04Judge(cs)
	k.c.Outcome(out)
	if failure != "" {
		k.failCase(cs, failure)
	}
}

func c04Shape(n *c04Node) string {
	if n.Op == nil {
		return "_"
	}
	parts := make([]string, n.Op.Arity)
	for i := range parts {
		parts[i] = c04Shape(n.Kids[i])
	}
	return c04KindName[n.Op.Kind] + "(" + strings.Join(parts, ",") + ")"
}

// c04DiffSig names the place where two canonical trees diverge: the operator
// enclosing the first difference and the two differing tokens (digits stripped,
// so that leaf ordinals do not leak into the signature).
func c04DiffSig(want, got string) string {
	i := 0
	for i < len(want) && i < len(got) && want[i] == got[i] {
		i++
	}
	// back up to the start of the token (including its opening parenthesis)
	for i > 0 && want[i-1] != ' ' && want[i-1] != '[' && want[i-1] != '\n' {
		i--
	}
	tok := func(s string) string {
		if i >= len(s) {
			return "end"
		}
		e := i
		for e < len(s) && s[e] != ' ' && s[e] != ')' && s[e] != ']' && s[e] != '\n' {
			e++
		}
		t := strings.Map(func(r rune) rune {
			if r >= '0' && r <= '9' {
				return -1
			}
			return r
		}, s[i:e])
		switch t {
		case "(var", "(num", "(str", "(index", "(ucall", "(call", "(regex", "(strregex":
			return "leaf"
		}
		if strings.HasPrefix(t, "(") {
			return "(" + c04OpClass(t[1:])
		}
		return t
	}
	// enclosing operator: innermost unclosed "(" before i
	depth := 0
	enc := "top"
	for j := i - 1; j >= 0; j-- {
		if want[j] == ')' {
			depth++
		} else if want[j] == '(' {
			if depth == 0 {
				e := j + 1
				for e < len(want) && want[e] != ' ' {
					e++
				}
				enc = c04OpClass(want[j+1 : e])
				break
			}
			depth--
		}
	}
	return "in=" + enc + " want=" + tok(want) + " got=" + tok(got)
}

// c04OpClass maps a canonical operator name to its precedence class, so that
// one slip does not produce one signature per operator of the class.
func c04OpClass(op string) string {
	switch op {
	case "=", "+=", "-=", "*=", "/=", "%=", "^=":
		return "assign"
	case "<", "<=", "!=", "==", ">", ">=":
		return "relational"
	case "~", "!~":
		return "match"
	case "+", "-":
		return "additive"
	case "*", "/", "%":
		return "multiplicative"
	case "u+", "u-", "u!":
		return "unary"
	case "pre++", "pre--":
		return "pre-incr"
	case "post++", "post--":
		return "post-incr"
	}
	return op
}

// c04NameSig computes the signature of a failed case from the kind of failure.
func c04NameSig(cs c04Case, out, failure string) string {
	switch {
	case cs.Oracle == "no-gt-comparison":
		return "print: bare > between ? and : parsed as comparison"
	case cs.Ctx == "print-redirect" && out != "reject" && out != "panic" && strings.Contains(out, "<illegal> nil)") && strings.Contains(out, "(> ") && strings.Contains(cs.Tree, "(?: "):
		return "print: redirection > absorbed as comparison by the false branch of ?:"
	case cs.Ctx == "print-pipe" && out == "reject" && strings.Contains(failure, "expected getline instead of") && strings.Contains(cs.Tree, "(?: "):
		return "print: | after the false branch of ?: taken for | getline"
	case out == "reject" && strings.Contains(cs.Tree, "~ ") && strings.Contains(cs.Tree, "(regex "):
		return "regex literal first in the right operand of ~ ends the operand"
	}
	kind := "wrong-tree"
	if cs.Oracle == "permissive" {
		kind = "wrong-tree-when-accepted"
	}
	switch out {
	case "panic":
		return "panic mode=" + cs.Mode + " ctx=" + cs.Ctx
	case "reject":
		msg := failure
		if i := strings.Index(msg, ": "); i >= 0 { // "rejected: parse error at L:C: msg ; want ..."
			msg = msg[i+2:]
		}
		if i := strings.Index(msg, " ; want "); i >= 0 {
			msg = msg[:i]
		}
		if i := strings.Index(msg, ": "); i >= 0 && strings.HasPrefix(msg, "parse error at") {
			msg = msg[i+2:]
		}
		return "rejected (" + msg + ") mode=" + cs.Mode + " ctx=" + cs.Ctx
	}
	return kind + " mode=" + cs.Mode + " ctx=" + cs.Ctx + " " + c04DiffSig(cs.Want, out)
}

// c04Spellings runs every spelling of one typed tree in one context.
func (k *c04Checker) tree(tree *c04Node, leaves []int, ctxs []*c04Ctx, fullCtx map[string]bool) {
	tcanon := c04CanonOf(tree, leaves)
	for _, ctx := range ctxs {
		for mode := c04ModeFull; mode <= c04ModeBareGt; mode++ {
			if mode == c04ModeFull && !fullCtx[ctx.Name] {
				continue
			}
			if mode == c04ModeBareGt && !ctx.Print {
				continue
			}
			src, ok := c04Spell(tree, leaves, mode, ctx.Print, ctx.Pre, ctx.Post)
			if !ok {
				continue
			}
			want := ctx.CanonPre + tcanon + ctx.CanonPost
			src, want = c04WithFunc(src, want)
			cs := c04Case{Src: src, Want: want, Mode: c04ModeName[mode], Ctx: ctx.Name, Tree: tcanon}
			switch mode {
			case c04ModeBareAsg:
				cs.Oracle = "permissive"
			case c04ModeBareGt:
				cs.Oracle = "no-gt-comparison"
				cs.Want = ""
			default:
				cs.Oracle = "strict"
			}
			// signature (only used when the case fails; cheap enough to defer)
			out, failure := c04Judge(cs)
			k.c.Eval(1)
			k.c.Add("transitions", 1)
			k.c.Outcome(out)
			if failure == "" {
				continue
			}
			cs.Sig = c04NameSig(cs, out, failure)
			k.failCase(cs, failure)
		}
	}
}

// typings enumerates leaf typings for a tree: all combinations (all=true) or
// the given rotations (leaf ordinal o gets type (k + stride*o) mod 7).
func c04Typings(tree *c04Node, all bool, rots [][2]int, f func(leaves []int)) {
	nl := tree.countLeaves()
	leaves := make([]int, nl)
	if !all {
		for _, r := range rots {
			for o := range leaves {
				leaves[o] = (r[0] + r[1]*o) % c04NLeafTypes
			}
			f(leaves)
		}
		return
	}
	// which ordinals are lvalue positions (only 3 types there)
	lv := make([]bool, 0, nl)
	var walk func(n *c04Node, l bool)
	walk = func(n *c04Node, l bool) {
		if n.Op == nil {
			lv = append(lv, l)
			return
		}
		for i := 0; i < n.Op.Arity; i++ {
			walk(n.Kids[i], c04NeedsLvalue(n.Op, i))
		}
	}
	walk(tree, false)
	for {
		f(leaves)
		i := nl - 1
		for i >= 0 {
			leaves[i]++
			lim := c04NLeafTypes
			if lv[i] {
				lim = c04NLvalueType
			}
			if leaves[i] < lim {
				break
			}
			leaves[i] = 0
			i--
		}
		if i < 0 {
			return
		}
	}
}

func c04Run(c *core.Ctx) {
	k := &c04Checker{c: c, c04Sharder: c04NewSharder(c)}
	c04RunWith(k)
	k.finish()
}

func c04RunWith(k *c04Checker) {
	c := k.c
	all, reduced := c04MkOps()
	var mainCtxs, allCtxs []*c04Ctx
	for _, x := range c04Ctxs {
		allCtxs = append(allCtxs, x)
		if !x.Bracket {
			mainCtxs = append(mainCtxs, x)
		}
	}
	fullQuick := map[string]bool{"stmt": true, "print": true}
	fullAll := map[string]bool{}
	for _, x := range c04Ctxs {
		fullAll[x.Name] = true
	}
	trees := c04Trees(all, 3)
	rot1 := [][2]int{{0, 1}}
	rot2 := [][2]int{{0, 1}, {3, 2}}
	rot7 := [][2]int{{0, 1}, {1, 1}, {2, 1}, {3, 1}, {4, 1}, {5, 1}, {6, 1}, {0, 3}, {2, 3}, {4, 3}}
	sampled := 0
	for n := 0; n <= 3; n++ {
		for _, t := range trees[n] {
			if c.Expired() {
				return
			}
			if !k.mine() {
				continue
			}
			allTypings := n <= 1 || (n == 2 && k.thorough)
			rots := rot7
			ctxs := allCtxs
			full := fullAll
			if n == 3 {
				ctxs = mainCtxs
				full = fullQuick
				if !k.thorough {
					rots = rot2
				}
			}
			if n == 2 && !k.thorough {
				full = fullQuick
			}
			c04Typings(t, allTypings, rots, func(leaves []int) {
				c.Add("states", 1)
				k.tree(t, leaves, ctxs, full)
				if sampled < 1 && c.Shard == 0 && n == 2 {
					sampled++
					src, _ := c04Spell(t, leaves, c04ModeMin, false, c04Ctxs[0].Pre, c04Ctxs[0].Post)
					c.Sample(map[string]any{"tree": c04CanonOf(t, leaves), "min_spelling": src})
				}
			})
		}
	}
	c.Note("trees_1op", int64(len(trees[1])))
	c.Note("trees_2op", int64(len(trees[2])))
	c.Note("trees_3op", int64(len(trees[3])))
	c04Families(k, all)
	c04AfterGetline(k)
	if k.thorough {
		t4 := c04Trees(reduced, 4)
		c.Note("trees_4op_reduced", int64(len(t4[4])))
		for _, t := range t4[4] {
			if c.Expired() {
				return
			}
			if !k.mine() {
				continue
			}
			c04Typings(t, false, rot1, func(leaves []int) {
				c.Add("states", 1)
				k.tree(t, leaves, mainCtxs, map[string]bool{"stmt": true})
			})
		}
	}
}

// c04Families: the separately enumerated families — regex leaves, chains of
// non-associative operators, `expr | getline`.
func c04Families(k *c04Checker, all []*c04Op) {
	c := k.c
	trees := c04Trees(all, 2)
	// (1) one regex leaf at every non-lvalue leaf position of every tree with <= 2 operators
	regexCtxs := []*c04Ctx{c04Ctxs[0], c04Ctxs[1], c04Ctxs[2]}
	full := map[string]bool{"stmt": true}
	for n := 0; n <= 2; n++ {
		for _, t := range trees[n] {
			if !k.mine() {
				continue
			}
			nl := t.countLeaves()
			var lv []bool
			var walk func(n *c04Node, l bool)
			walk = func(n *c04Node, l bool) {
				if n.Op == nil {
					lv = append(lv, l)
					return
				}
				for i := 0; i < n.Op.Arity; i++ {
					walk(n.Kids[i], c04NeedsLvalue(n.Op, i))
				}
			}
			walk(t, false)
			for j := 0; j < nl; j++ {
				if lv[j] {
					continue
				}
				for _, base := range []int{0, 3} {
					leaves := make([]int, nl)
					for o := range leaves {
						leaves[o] = (base + o) % c04NLeafTypes
					}
					leaves[j] = c04LRegex
					c.Add("states", 1)
					k.tree(t, leaves, regexCtxs, full)
				}
			}
		}
	}
	// (2) chains of two relational operators: no grouping exists (outside print)
	var rels, matches []*c04Op
	for _, op := range all {
		if op.Kind == c04KRel {
			rels = append(rels, op)
		}
		if op.Kind == c04KMatch {
			matches = append(matches, op)
		}
	}
	chainCtxs := []*c04Ctx{c04Ctxs[0], c04Ctxs[2], c04Ctxs[3]}
	for _, o1 := range rels {
		for _, o2 := range rels {
			if !k.mine() {
				continue
			}
			for rot := 0; rot < c04NLeafTypes; rot++ {
				l := func(o int) string { return c04LeafSrc((rot+o)%c04NLeafTypes, o) }
				for _, ctx := range chainCtxs {
					toks := append([]string{}, ctx.Pre...)
					toks = append(toks, l(0), o1.Tok, l(1), o2.Tok, l(2))
					toks = append(toks, ctx.Post...)
					src := strings.Join(toks, " ")
					if strings.Contains(src, "f(") {
						src += c04FuncSrc
					}
					c.Add("states", 1)
					k.run(c04Case{Src: src, Oracle: "reject", Mode: "chain", Ctx: ctx.Name, Sig: "chain of two relational operators accepted ctx=" + ctx.Name,
						Tree: "rel-chain " + o1.Tok + " " + o2.Tok})
				}
			}
		}
	}
	// (3) chains of ~ / !~ : a syntax error or the left grouping
	for _, o1 := range matches {
		for _, o2 := range matches {
			if !k.mine() {
				continue
			}
			for rot := 0; rot < c04NLeafTypes; rot++ {
				ty := func(o int) int { return (rot + o) % c04NLeafTypes }
				for _, ctx := range []*c04Ctx{c04Ctxs[0], c04Ctxs[1], c04Ctxs[2], c04Ctxs[3]} {
					toks := append([]string{}, ctx.Pre...)
					toks = append(toks, c04LeafSrc(ty(0), 0), o1.Tok, c04LeafSrc(ty(1), 1), o2.Tok, c04LeafSrc(ty(2), 2))
					toks = append(toks, ctx.Post...)
					src := strings.Join(toks, " ")
					want := ctx.CanonPre + "(" + o2.Canon + " (" + o1.Canon + " " + c04LeafCanon(ty(0), 0, false) + " " + c04LeafCanon(ty(1), 1, false) + ") " + c04LeafCanon(ty(2), 2, false) + ")" + ctx.CanonPost
					src, want = c04WithFunc(src, want)
					c.Add("states", 1)
					k.run(c04Case{Src: src, Want: want, Oracle: "match-chain", Mode: "chain", Ctx: ctx.Name, Sig: "chain of two match operators grouped to the right ctx=" + ctx.Name,
						Tree: "match-chain " + o1.Tok + " " + o2.Tok})
				}
			}
		}
	}
	// (4) `L | getline [lvalue]` with every tree L (<= 2 operators) whose root binds at least as tightly as concatenation
	type gctx struct {
		name, pre, mid, post string
		canonPre, canonPost  string
	}
	gctxs := []gctx{
		{"getline-stmt", "BEGIN { ", " | getline", " }", "(BEGIN {(expr (getline ", " nil nil))})\n"},
		{"getline-var", "BEGIN { ", " | getline x98", " }", "(BEGIN {(expr (getline ", " (var x98) nil))})\n"},
		{"getline-cond", "BEGIN { while ( ( ", " | getline x98 ) > 0 ) x99 }", "", "(BEGIN {(while (> (getline ", " (var x98) nil) (num 0)) {(expr (var x99))})})\n"},
		{"getline-pattern", "", " | getline $ 0", " { }", "(ACTION [(getline ", " ($ (num 0)) nil)] {})\n"},
	}
	for n := 0; n <= 2; n++ {
		for _, t := range trees[n] {
			if t.Op != nil && t.Op.Prec < c04PConcat {
				continue
			}
			if !k.mine() {
				continue
			}
			c04Typings(t, n <= 1, [][2]int{{0, 1}, {3, 1}, {4, 2}}, func(leaves []int) {
				tcanon := c04CanonOf(t, leaves)
				src0, _ := c04Spell(t, leaves, c04ModeMin, false, nil, nil)
				for _, g := range gctxs {
					src := g.pre + src0 + g.mid + g.post
					want := g.canonPre + tcanon + g.canonPost
					src, want = c04WithFunc(src, want)
					c.Add("states", 1)
					cs := c04Case{Src: src, Want: want, Oracle: "strict", Mode: "min", Ctx: g.name, Tree: tcanon}
					out, failure := c04Judge(cs)
					c.Eval(1)
					c.Add("transitions", 1)
					c.Outcome(out)
					if failure != "" {
						cs.Sig = c04NameSig(cs, out, failure)
						k.failCase(cs, failure)
					}
				}
			})
		}
	}
}

// c04AfterGetline — family (5): what FOLLOWS a getline form. The grammar gives
// `unary_expr | simple_get` and `simple_get < expr` (the latter only for the
// form without a command, its operand not extending over a binary operator):
// after `cmd | getline [lvalue]` every binary operator, `<` included, applies
// to the whole getline expression; after `getline [lvalue] < file` likewise.
// The expected tree is the parse of the explicitly parenthesised spelling.
func c04AfterGetline(k *c04Checker) {
	c := k.c
	heads := []string{`"c" | getline`, `"c" | getline x98`, `"c" | getline a98 [ 1 ]`, `x97 y97 | getline x98`, `getline x98 < "f"`, `getline < "f"`}
	ops := []string{"<", "<=", "==", "!=", ">", ">=", "+", "-", "*", "/", "%", "^", "~", "!~", "&&", "||", "", "in a97", "? 1 : 2"}
	rights := []string{"y96", "1", `"s"`, "- 1", "y96 + 1", "$ 1"}
	ctxs := [][2]string{{"BEGIN { r99 = ", " }"}, {"BEGIN { if ( ", " ) x99 }"}, {"BEGIN { while ( ", " ) x99 }"}, {"", " { }"}, {"BEGIN { r99 = ! ( ", " ) }"}}
	for _, h := range heads {
		for _, op := range ops {
			if !k.mine() {
				continue
			}
			for _, r := range rights {
				tail := " " + op + " " + r
				if strings.HasPrefix(op, "in ") || strings.HasPrefix(op, "?") {
					tail = " " + op
					if r != rights[0] {
						continue
					}
				}
				if op == "" && !strings.Contains(h, "x98") && !strings.Contains(h, "a98") {
					continue // `cmd | getline y`: the operand is the lvalue, not a concatenation
				}
				if op == "" && strings.HasSuffix(h, `"f"`) {
					continue // `getline x < "f" y`: the file operand is what is in question (primary only), decided by C04's own families
				}
				if op == "" && r == "- 1" {
					continue // `x - 1` is a subtraction
				}
				for ci, cx := range ctxs {
					src := cx[0] + h + tail + cx[1]
					ref := cx[0] + "( " + h + " )" + tail + cx[1]
					want, perr, pn := c04Parse(ref)
					if perr != "" || pn != "" {
						continue // the parenthesised spelling is not a program in this context
					}
					c.Add("states", 1)
					cs := c04Case{Src: src, Want: want, Oracle: "strict", Mode: "min", Ctx: fmt.Sprintf("after-getline-%d", ci), Tree: h + " " + op}
					out, failure := c04Judge(cs)
					c.Eval(1)
					c.Add("transitions", 1)
					c.Outcome(out)
					if failure != "" {
						cs.Sig = "operator after a getline form does not apply to the whole getline expression: head=" + strings.ReplaceAll(h, " ", "") + " op=" + strings.Fields(op + " _")[0]
						k.failCase(cs, failure)
					}
				}
			}
		}
	}
}

func c04Replay(c *core.Ctx, raw json.RawMessage) {
	var agg c04Aggregate
	if json.Unmarshal(raw, &agg) == nil && agg.Aggregate {
		k := &c04Checker{c: c, c04Sharder: c04ReplaySharder(c, agg)}
		c04RunWith(k)
		k.finish()
		return
	}
	var cs c04Case
	if err := json.Unmarshal(raw, &cs); err != nil {
		panic(err)
	}
	_, failure := c04Judge(cs)
	c.Eval(1)
	if failure != "" {
		c.Fail(cs.Sig, cs, failure)
	}
}

func init() {
	core.Register(&core.Check{
		ID:    "C04",
		Level: "model_checking",
		Rule: "bounded-exhaustive enumeration (odometer) of all expression trees with <= 3 operator nodes over all 34 operators of the POSIX table " +
			"(7 assignments, ?:, ||, &&, in, (i,j) in, ~ !~, 6 relational, concatenation, + -, * / %, unary - + !, ^, pre/post ++ --, $) x leaf typings over " +
			"{var, a[i], $n, number, string, f(x), length} (all typings for <= 1 operator [thorough: <= 2], fixed rotations otherwise) x statement contexts " +
			"{expression statement, print, pattern, if, print > file; for <= 2 operators also subscript, call argument, printf, 2nd print argument, print | cmd, while} " +
			"x spellings {fully parenthesised, table-minimal, nothing between ? and :, bare prefix operator after ^ or $, `1 && x = 1` (may be rejected), bare > between ? and : in print (may not be a comparison)}; " +
			"plus families: one regex-literal leaf at every position, all 36 relational chains (must be rejected), all 4 match chains (rejected or left-grouped), `L | getline [lvalue]` for every L with <= 2 operators binding at least as tightly as concatenation, every binary operator x 6 right operands after 6 getline forms in 5 contexts (expected tree = parse of the explicitly parenthesised spelling); " +
			"thorough adds all trees with 4 operators over one representative per level. A state is one typed tree, a transition one parsed text; distinct = distinct parsed trees. At most 20 violations per signature and worker are stored individually; all failing cases of a signature are folded into one aggregate violation (count + digest) per worker, replayable by re-running that shard",
		Assumptions: []string{
			"`a < b < c` has no grouping (POSIX: non-associative): acceptance is the alarm; `a ~ b ~ c` may be rejected or grouped to the left",
			"`1 && x = 1`, `c ? a : x = 1` (assignment bare where the table would need parentheses): may be rejected; if accepted the only possible tree is demanded",
			"purely lexical ambiguities are parenthesised and not tested: right operand of concatenation beginning with + - ++ -- or a regex literal, `a ++ b`, `length (`",
			"`$ $ x ++` is `$(($x)++)` (documented post-increment rule, pinned by interp_test.go `$$a++++`)",
			"a bare prefix operator after ^ or $ takes the longest operand the table allows (`2 ^ - 3 ^ 2` is `2 ^ (-(3 ^ 2))`); spellings where ^, ++, -- or an assignment operator follows the bare operand are skipped as ambiguous",
			"`expr | getline` is only compared for left operands that bind at least as tightly as concatenation (what the statement says)",
			"grouping of (i, j) in arr: the index list counts as parenthesised",
		},
		Run:         c04Run,
		Replay:      c04Replay,
		QuickBudget: 600, ThoroughBudget: 3600,
	})
}

package checks

import (
	"crypto/sha256"
	"encoding/json"
	"fmt"
	"hash"
	"sort"
	"strconv"
	"strings"

	"verifharness/core"
)

// Expression-tree generator shared by C04 (precedence) and C20 (printed form).
//
// The generator owns the tree: it enumerates all trees with exactly n operator
// nodes over an operator list (odometer over shapes and operators), renders a
// tree as AWK source in several spellings and renders the canonical
// S-expression that vexp.CanonExpr must produce for it.

// precedence levels of the POSIX table, lowest to highest
const (
	c04PAssign = iota
	c04PCond
	c04POr
	c04PAnd
	c04PIn
	c04PMatch
	c04PRel
	c04PConcat
	c04PAdd
	c04PMul
	c04PUnary
	c04PPow
	c04PPreInc
	c04PPostInc
	c04PDollar
)

const (
	c04KAssign = iota
	c04KCond
	c04KOr
	c04KAnd
	c04KIn
	c04KIn2
	c04KMatch
	c04KRel
	c04KConcat
	c04KAdd
	c04KMul
	c04KUnary
	c04KPow
	c04KPreInc
	c04KPostInc
	c04KDollar
)

var c04KindName = []string{"assign", "cond", "or", "and", "in", "in2", "match", "rel", "concat", "add", "mul", "unary", "pow", "preinc", "postinc", "dollar"}

type c04Op struct {
	Kind  int
	Tok   string // source spelling
	Canon string // operator name in the canonical form
	Arity int
	Prec  int
}

func c04MkOps() (all []*c04Op, reduced []*c04Op) {
	add := func(kind int, prec, arity int, red bool, toks ...string) {
		for i, t := range toks {
			canon := t
			switch kind {
			case c04KCond:
				canon = "?:"
			case c04KConcat:
				canon = "<concat>"
			case c04KUnary:
				canon = "u" + t
			case c04KPreInc:
				canon = "pre" + t
			case c04KPostInc:
				canon = "post" + t
			case c04KIn, c04KIn2:
				canon = "in"
			}
			op := &c04Op{Kind: kind, Tok: t, Canon: canon, Arity: arity, Prec: prec}
			all = append(all, op)
			if red && i == 0 {
				reduced = append(reduced, op)
			}
		}
	}
	add(c04KAssign, c04PAssign, 2, true, "=", "+=", "-=", "*=", "/=", "%=", "^=")
	add(c04KCond, c04PCond, 3, true, "?")
	add(c04KOr, c04POr, 2, true, "||")
	add(c04KAnd, c04PAnd, 2, true, "&&")
	add(c04KIn, c04PIn, 1, true, "in")
	add(c04KIn2, c04PIn, 2, false, "in")
	add(c04KMatch, c04PMatch, 2, true, "~", "!~")
	add(c04KRel, c04PRel, 2, true, "<", "<=", "!=", "==", ">", ">=")
	add(c04KConcat, c04PConcat, 2, true, "")
	add(c04KAdd, c04PAdd, 2, true, "+", "-")
	add(c04KMul, c04PMul, 2, true, "*", "/", "%")
	add(c04KUnary, c04PUnary, 1, true, "-", "+", "!")
	add(c04KPow, c04PPow, 2, true, "^")
	add(c04KPreInc, c04PPreInc, 1, true, "++", "--")
	add(c04KPostInc, c04PPostInc, 1, true, "++", "--")
	add(c04KDollar, c04PDollar, 1, true, "$")
	// the reduced set keeps "!" as well (it is the unary operator real awks disagree on)
	for _, op := range all {
		if op.Kind == c04KUnary && op.Tok == "!" {
			reduced = append(reduced, op)
		}
	}
	return
}

type c04Node struct {
	Op   *c04Op // nil: leaf placeholder
	Kids [3]*c04Node
}

var c04LeafNode = &c04Node{}

func (n *c04Node) isLeaf() bool { return n.Op == nil }

// lvalue-capable: a leaf (typed later) or a $ node
func (n *c04Node) lvalueCapable() bool { return n.Op == nil || n.Op.Kind == c04KDollar }

func c04NeedsLvalue(op *c04Op, pos int) bool {
	switch op.Kind {
	case c04KAssign:
		return pos == 0
	case c04KPreInc, c04KPostInc:
		return true
	}
	return false
}

func (n *c04Node) countLeaves() int {
	if n.Op == nil {
		return 1
	}
	c := 0
	for i := 0; i < n.Op.Arity; i++ {
		c += n.Kids[i].countLeaves()
	}
	return c
}

func (n *c04Node) countOps() int {
	if n.Op == nil {
		return 0
	}
	c := 1
	for i := 0; i < n.Op.Arity; i++ {
		c += n.Kids[i].countOps()
	}
	return c
}

// c04Trees returns, for k = 0..n, all trees with exactly k operator nodes
// over ops, in a deterministic order (operator order, then split of the
// remaining operator count over the operands left to right, then operands).
func c04Trees(ops []*c04Op, n int) [][]*c04Node {
	trees := make([][]*c04Node, n+1)
	trees[0] = []*c04Node{c04LeafNode}
	for k := 1; k <= n; k++ {
		var out []*c04Node
		for _, op := range ops {
			switch op.Arity {
			case 1:
				for _, a := range trees[k-1] {
					if c04NeedsLvalue(op, 0) && !a.lvalueCapable() {
						continue
					}
					out = append(out, &c04Node{Op: op, Kids: [3]*c04Node{a}})
				}
			case 2:
				for i := 0; i <= k-1; i++ {
					for _, a := range trees[i] {
						if c04NeedsLvalue(op, 0) && !a.lvalueCapable() {
							continue
						}
						for _, b := range trees[k-1-i] {
							out = append(out, &c04Node{Op: op, Kids: [3]*c04Node{a, b}})
						}
					}
				}
			case 3:
				for i := 0; i <= k-1; i++ {
					for j := 0; i+j <= k-1; j++ {
						for _, a := range trees[i] {
							for _, b := range trees[j] {
								for _, cc := range trees[k-1-i-j] {
									out = append(out, &c04Node{Op: op, Kids: [3]*c04Node{a, b, cc}})
								}
							}
						}
					}
				}
			}
		}
		trees[k] = out
	}
	return trees
}

// ---- leaves ----

const (
	c04LVar = iota
	c04LIndex
	c04LField
	c04LNum
	c04LStr
	c04LCall
	c04LLength
	c04LRegex
	c04NLeafTypes  = 7 // regular alphabet (regex is used by a separate family)
	c04NLvalueType = 3
)

func c04LeafSrc(typ, ord int) string {
	o := strconv.Itoa(ord)
	switch typ {
	case c04LVar:
		return "x" + o
	case c04LIndex:
		return "a[i" + o + "]"
	case c04LField:
		return "$" + strconv.Itoa(ord+1)
	case c04LNum:
		return strconv.Itoa(ord + 1)
	case c04LStr:
		return `"s` + o + `"`
	case c04LCall:
		return "f(x" + o + ")"
	case c04LLength:
		return "length"
	case c04LRegex:
		return "/r" + o + "/"
	}
	panic("leaf type")
}

func c04LeafCanon(typ, ord int, regexOperand bool) string {
	o := strconv.Itoa(ord)
	switch typ {
	case c04LVar:
		return "(var x" + o + ")"
	case c04LIndex:
		return "(index a [(var i" + o + ")])"
	case c04LField:
		return "($ (num " + strconv.Itoa(ord+1) + "))"
	case c04LNum:
		return "(num " + strconv.Itoa(ord+1) + ")"
	case c04LStr:
		return `(str "s` + o + `")`
	case c04LCall:
		return "(ucall f [(var x" + o + ")])"
	case c04LLength:
		return "(call length [])"
	case c04LRegex:
		if regexOperand {
			return `(strregex "r` + o + `")`
		}
		return `(regex "r` + o + `")`
	}
	panic("leaf type")
}

// c04LeafType gives the type of the leaf with ordinal ord: leaves[ord], mapped
// into the lvalue types where an lvalue is required.
func c04LeafType(leaves []int, ord int, lvalue bool) int {
	t := leaves[ord]
	if lvalue && t >= c04NLvalueType {
		t = t % c04NLvalueType
	}
	return t
}

// ---- canonical form (same format as vexp.CanonExpr) ----

type c04Canon struct {
	b      strings.Builder
	ord    int
	leaves []int
}

func (c *c04Canon) expr(n *c04Node, lvalue, regexOperand bool) {
	if n.Op == nil {
		c.b.WriteString(c04LeafCanon(c04LeafType(c.leaves, c.ord, lvalue), c.ord, regexOperand))
		c.ord++
		return
	}
	op := n.Op
	switch op.Kind {
	case c04KIn:
		c.b.WriteString("(in [")
		c.expr(n.Kids[0], false, false)
		c.b.WriteString("] b)")
	case c04KIn2:
		c.b.WriteString("(in [")
		c.expr(n.Kids[0], false, false)
		c.b.WriteString(" ")
		c.expr(n.Kids[1], false, false)
		c.b.WriteString("] b)")
	default:
		c.b.WriteString("(" + op.Canon)
		for i := 0; i < op.Arity; i++ {
			c.b.WriteString(" ")
			c.expr(n.Kids[i], c04NeedsLvalue(op, i), op.Kind == c04KMatch && i == 1)
		}
		c.b.WriteString(")")
	}
}

func c04CanonOf(n *c04Node, leaves []int) string {
	c := &c04Canon{leaves: leaves}
	c.expr(n, false, false)
	return c.b.String()
}

// ---- source rendering ----

const (
	c04ModeFull    = iota // every operator node parenthesised
	c04ModeMin            // only the parentheses the table requires (+ purely lexical ones)
	c04ModeBracket        // Min, but nothing between ? and :
	c04ModePrefix         // Min, but prefix operators bare as right operand of ^ / operand of $ ; `$ $ x ++`
	c04ModeBareAsg        // Min, but the assignment that is the right operand of the root (|| && ~ !~ relational) or the false branch of a root ?: is bare ("1 && x = 1")
	c04ModeBareGt         // print contexts only: a > directly between ? and : is left bare (must be rejected)
)

var c04ModeName = []string{"full", "min", "bracket", "prefix", "bare-assign", "bare-gt"}

type c04Render struct {
	mode     int
	printCtx bool // an unparenthesised > would be a redirection
	leaves   []int
	toks     []string
	ord      int
	depth    int   // parenthesis depth
	used     bool  // the mode's special rule was applied at least once
	bareEnds []int // token indexes just after a bare prefix operand (mode prefix)
	root     *c04Node
}

func c04IsAssocRightOK(parent *c04Op, pos int) bool {
	// equal precedence child at position pos of parent: true if no parentheses needed
	switch parent.Kind {
	case c04KOr, c04KAnd, c04KConcat, c04KAdd, c04KMul, c04KIn:
		return pos == 0
	case c04KAssign:
		return pos == 1
	case c04KPow:
		return pos == 1
	case c04KCond:
		return pos != 0
	case c04KUnary, c04KDollar, c04KPreInc:
		return true
	}
	return false // match, rel: non-associative; in2 is bracketed (handled before)
}

func (r *c04Render) wrapFrom(start int) {
	r.toks = append(r.toks, "")
	copy(r.toks[start+1:], r.toks[start:])
	r.toks[start] = "("
	for i := range r.bareEnds {
		if r.bareEnds[i] > start {
			r.bareEnds[i]++
		}
	}
	r.toks = append(r.toks, ")")
}

// emit renders n as operand number pos of parent (nil at the root). lvalue:
// n is in an lvalue position (never parenthesised itself). postLv: the parent is a
// post-increment (the `$ $ x ++` rule applies to the operand of a $ here).
func (r *c04Render) emit(n *c04Node, parent *c04Node, pos int, lvalue bool) {
	if n.Op == nil {
		r.toks = append(r.toks, c04LeafSrc(c04LeafType(r.leaves, r.ord, lvalue), r.ord))
		r.ord++
		return
	}
	op := n.Op
	paren := false
	barePrefix := false
	switch {
	case lvalue:
		paren = false
	case parent == nil && (r.mode != c04ModeFull || n != r.root):
		paren = false
	case r.mode == c04ModeFull:
		paren = true
	case parent.Op.Kind == c04KIn2:
		paren = false // bracketed by the index list parentheses
	case op.Prec < parent.Op.Prec:
		paren = true
		switch {
		case r.mode == c04ModeBracket && parent.Op.Kind == c04KCond && pos == 1:
			paren, r.used = false, true
		case r.mode == c04ModePrefix && op.Kind == c04KUnary && (parent.Op.Kind == c04KPow && pos == 1 || parent.Op.Kind == c04KDollar):
			paren, r.used, barePrefix = false, true, true
		case r.mode == c04ModePrefix && op.Kind == c04KPreInc && parent.Op.Kind == c04KDollar:
			paren, r.used, barePrefix = false, true, true
		case r.mode == c04ModePrefix && op.Kind == c04KPostInc && parent.Op.Kind == c04KDollar && n.Kids[0].Op != nil && n.Kids[0].Op.Kind == c04KDollar:
			// `$ $ x ++` is `$(($x)++)`: the documented post-increment rule
			paren, r.used = false, true
		case r.mode == c04ModeBareAsg && op.Kind == c04KAssign && parent == r.root && r.depth == 0 &&
			(parent.Op.Kind == c04KCond && pos == 2 || pos == 1 && (parent.Op.Kind == c04KOr || parent.Op.Kind == c04KAnd || parent.Op.Kind == c04KMatch || parent.Op.Kind == c04KRel)):
			paren, r.used = false, true
		}
	case op.Prec == parent.Op.Prec:
		paren = !c04IsAssocRightOK(parent.Op, pos)
	}
	if r.printCtx && !paren && r.depth == 0 && op.Kind == c04KRel && op.Tok == ">" {
		if r.mode == c04ModeBareGt && parent != nil && parent.Op.Kind == c04KCond && pos == 1 {
			r.used = true
		} else {
			paren = true
		}
	}
	if paren {
		r.toks = append(r.toks, "(")
		r.depth++
	}
	switch op.Kind {
	case c04KCond:
		r.emit(n.Kids[0], n, 0, false)
		r.toks = append(r.toks, "?")
		r.emit(n.Kids[1], n, 1, false)
		r.toks = append(r.toks, ":")
		r.emit(n.Kids[2], n, 2, false)
	case c04KIn:
		r.emit(n.Kids[0], n, 0, false)
		r.toks = append(r.toks, "in", "b")
	case c04KIn2:
		r.toks = append(r.toks, "(")
		r.depth++
		r.emit(n.Kids[0], n, 0, false)
		r.toks = append(r.toks, ",")
		r.emit(n.Kids[1], n, 1, false)
		r.depth--
		r.toks = append(r.toks, ")", "in", "b")
	case c04KUnary, c04KPreInc:
		r.toks = append(r.toks, op.Tok)
		r.emit(n.Kids[0], n, 0, c04NeedsLvalue(op, 0))
	case c04KPostInc:
		r.emit(n.Kids[0], n, 0, true)
		r.toks = append(r.toks, op.Tok)
	case c04KDollar:
		r.toks = append(r.toks, "$")
		k := n.Kids[0]
		closeOperand := false
		if r.mode == c04ModeFull && lvalue {
			closeOperand = true // `$ ( E )` : the operand is closed whatever it is
		}
		if parent != nil && parent.Op.Kind == c04KPostInc && (k.Op != nil || c04LeafType(r.leaves, r.ord, false) == c04LField) {
			closeOperand = true // a post-increment after `$ <operator...>` (or `$ $1`) would attach inside
		}
		if closeOperand && !(k.Op != nil && r.mode == c04ModeFull) {
			s := len(r.toks)
			r.depth++
			r.emitNoParen(k)
			r.depth--
			r.wrapFrom(s)
		} else {
			r.emit(k, n, 0, false)
		}
	case c04KConcat:
		ls := len(r.toks)
		r.emit(n.Kids[0], n, 0, false)
		if last := r.toks[len(r.toks)-1]; last == "++" || last == "--" {
			// `a ++ b`: lexically ambiguous with `a (++ b)`
			r.wrapFrom(ls)
		}
		rs := len(r.toks)
		r.emit(n.Kids[1], n, 1, false)
		if first := r.toks[rs]; first == "+" || first == "-" || first == "++" || first == "--" || strings.HasPrefix(first, "/") {
			// `a - b` is a subtraction, `a /r/` a division: lexical, not a matter of precedence
			r.wrapFrom(rs)
		}
	default: // binary
		r.emit(n.Kids[0], n, 0, c04NeedsLvalue(op, 0))
		r.toks = append(r.toks, op.Tok)
		r.emit(n.Kids[1], n, 1, false)
	}
	if paren {
		r.toks = append(r.toks, ")")
		r.depth--
	}
	if barePrefix {
		r.bareEnds = append(r.bareEnds, len(r.toks))
	}
}

// emitNoParen renders n without parentheses of its own (the caller wraps it):
// n is rendered as if it had no parent.
func (r *c04Render) emitNoParen(n *c04Node) {
	r.emit(n, nil, 0, false)
}

var c04Absorb = map[string]bool{"^": true, "++": true, "--": true, "=": true, "+=": true, "-=": true, "*=": true, "/=": true, "%=": true, "^=": true}

// c04Spell renders tree n with the given leaf typing in the given mode. ok is
// false if the mode's special rule did not apply to this tree (the spelling
// would equal the Min spelling) or the spelling would be ambiguous.
func c04Spell(n *c04Node, leaves []int, mode int, printCtx bool, pre, post []string) (src string, ok bool) {
	r := &c04Render{mode: mode, printCtx: printCtx, leaves: leaves, root: n}
	r.toks = append(r.toks, pre...)
	r.emit(n, nil, 0, false)
	r.toks = append(r.toks, post...)
	if mode >= c04ModeBracket && !r.used {
		return "", false
	}
	for _, e := range r.bareEnds {
		if e < len(r.toks) && c04Absorb[r.toks[e]] {
			return "", false
		}
	}
	for i := 0; i+1 < len(r.toks); i++ {
		if r.toks[i] == "length" && r.toks[i+1] == "(" {
			r.toks[i] = "(length)" // `length (x)` would be a call
		}
	}
	return strings.Join(r.toks, " "), true
}

// ---- work ownership and bounded violation storage (shared by C04 and C20) ----

// c04Sharder decides which units of work this worker owns and stores at most
// c04StoreCap violations per signature; all failing cases of a signature are
// folded into a digest that is reported as one extra "aggregate" violation, so
// that a new failing case under an already saturated signature still changes
// what the driver sees.
type c04Sharder struct {
	c        *core.Ctx
	shard, n int
	thorough bool
	idx      int64
	only     string // replay of an aggregate: only this signature is reported
	seen     map[string]int
	digest   map[string]hash.Hash
}

const c04StoreCap = 20

type c04Aggregate struct {
	Aggregate bool   `json:"aggregate"`
	Sig       string `json:"sig"`
	Shard     int    `json:"shard"`
	N         int    `json:"n"`
	Tier      string `json:"tier"`
}

func c04NewSharder(c *core.Ctx) *c04Sharder {
	n := c.NShards
	if n < 1 {
		n = 1
	}
	return &c04Sharder{c: c, shard: c.Shard, n: n, thorough: c.Thorough(), seen: map[string]int{}, digest: map[string]hash.Hash{}}
}

func c04ReplaySharder(c *core.Ctx, a c04Aggregate) *c04Sharder {
	s := c04NewSharder(c)
	s.shard, s.n, s.thorough, s.only = a.Shard, a.N, a.Tier == "thorough", strings.ReplaceAll(a.Sig, " ", "_")
	return s
}

// mine: every worker calls it in the same order, once per unit of work.
func (s *c04Sharder) mine() bool {
	i := s.idx
	s.idx++
	s.c.Mine() // keeps the driver's deadline check going
	return int(i%int64(s.n)) == s.shard
}

func (s *c04Sharder) tier() string {
	if s.thorough {
		return "thorough"
	}
	return "quick"
}

func (s *c04Sharder) fail(sig string, cs any, observed string) {
	key := strings.ReplaceAll(sig, " ", "_")
	s.seen[key]++
	h := s.digest[key]
	if h == nil {
		h = sha256.New()
		s.digest[key] = h
	}
	b, _ := json.Marshal(cs)
	h.Write(b)
	h.Write([]byte{0})
	h.Write([]byte(observed))
	h.Write([]byte{0})
	if s.only != "" {
		return
	}
	if s.seen[key] > c04StoreCap {
		s.c.Add("violations_only_in_aggregate", 1)
		return
	}
	s.c.Fail(sig, cs, observed)
}

// finish reports the aggregates.
func (s *c04Sharder) finish() {
	var sigs []string
	for k := range s.seen {
		sigs = append(sigs, k)
	}
	sort.Strings(sigs)
	for _, k := range sigs {
		if s.only != "" && k != s.only {
			continue
		}
		if s.only == "" && s.seen[k] <= c04StoreCap {
			continue
		}
		s.c.Fail(k, c04Aggregate{Aggregate: true, Sig: k, Shard: s.shard, N: s.n, Tier: s.tier()},
			fmt.Sprintf("%d failing cases with this signature in shard %d/%d of the %s tier (the first %d are stored individually); digest of all of them: %x",
				s.seen[k], s.shard, s.n, s.tier(), c04StoreCap, s.digest[k].Sum(nil)[:8]))
	}
}

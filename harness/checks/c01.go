package checks

import (
	"encoding/json"
	"fmt"
	"hash/fnv"
	"os"
	"path/filepath"
	"sort"
	"strings"

	"github.com/benhoyt/goawk/interp"
	"github.com/benhoyt/goawk/parser"
	"github.com/benhoyt/goawk/vexp"

	"verifharness/awk"
	"verifharness/core"
	"verifharness/progenum"
)

// C01 — compiled execution ≡ direct evaluation of the syntax tree (shape B):
// grammar-directed complete enumeration of a feature product, each program run
// on the real compiler+VM and on the independent tree-walking evaluator, plus
// metamorphic groups (equivalent spellings must behave identically).

var c01Inputs = []string{"a b c\n", "1 2\n3 4\n5", " x  y \n\n10 9\n", "", "a b c d\ne\n7 08 9.0\n"}

const c01Pre = "p1 p2\np3\n"

type c01Case struct {
	Family string `json:"family"`
	Name   string `json:"name"`
	Src    string `json:"src"`
	Input  string `json:"input"`
	Group  string `json:"group,omitempty"`
	Other  string `json:"other_src,omitempty"` // for metamorphic failures: the equivalent spelling
}

type implObs struct {
	Out    string
	Status int
	Err    bool
	ErrMsg string
	Files  map[string]string
	Panic  string
	Budget bool
}

func (o implObs) String() string {
	var names []string
	for n := range o.Files {
		names = append(names, n)
	}
	sort.Strings(names)
	var fs strings.Builder
	for _, n := range names {
		fmt.Fprintf(&fs, " file[%s]=%q", n, o.Files[n])
	}
	return fmt.Sprintf("out=%q status=%d err=%v%s", o.Out, o.Status, o.Err, fs.String())
}

type stepBudget struct{}

// runImplInDir runs prog on the real code inside dir (cwd must be dir), with
// the standard file fixture.
func runImpl(prog *parser.Program, input string, args []string, dir string, usesFiles bool, budget int) implObs {
	var o implObs
	if usesFiles {
		ents, _ := os.ReadDir(dir)
		for _, e := range ents {
			os.Remove(filepath.Join(dir, e.Name()))
		}
		os.WriteFile(filepath.Join(dir, "pre"), []byte(c01Pre), 0o644)
	}
	steps := 0
	vexp.SetStepFn(func() {
		steps++
		if steps > budget {
			panic(stepBudget{})
		}
	})
	defer vexp.SetStepFn(nil)
	func() {
		defer func() {
			if r := recover(); r != nil {
				if _, ok := r.(stepBudget); ok {
					o.Budget = true
					return
				}
				panic(r)
			}
		}()
		res := awk.Exec(prog, &interp.Config{Stdin: strings.NewReader(input), Args: args, Environ: []string{"HOME", "/h"}})
		o.Out, o.Status, o.Err, o.Panic = res.Out, res.Status, res.Err != nil, res.Panic
		if strings.Contains(res.Panic, "stepBudget") {
			o.Budget = true
			o.Panic = ""
		}
		if res.Err != nil {
			o.ErrMsg = res.Err.Error()
			o.Status = 0
		}
	}()
	if usesFiles {
		o.Files = map[string]string{}
		ents, _ := os.ReadDir(dir)
		for _, e := range ents {
			b, _ := os.ReadFile(filepath.Join(dir, e.Name()))
			if e.Name() == "pre" && string(b) == c01Pre {
				continue
			}
			o.Files[e.Name()] = string(b)
		}
	}
	return o
}

func refObs(prog *parser.Program, input string, args []string) (implObs, string) {
	return refObsLimit(prog, input, args, 20000)
}

func refObsLimit(prog *parser.Program, input string, args []string, limit int) (implObs, string) {
	r := vexp.RunRef(prog, &vexp.RefConfig{Stdin: input, Args: args, Files: map[string]string{"pre": c01Pre}, Environ: []string{"HOME", "/h"}, StepLimit: limit})
	o := implObs{Out: r.Stdout, Status: r.Status, Err: r.Err != "", ErrMsg: r.Err, Files: r.Files}
	return o, r.Unsupported
}

func sameObs(a, b implObs, files bool) (bool, string) {
	if a.Err != b.Err {
		return false, "error-outcome"
	}
	if a.Out != b.Out {
		return false, "stdout"
	}
	if a.Status != b.Status {
		return false, "status"
	}
	if files {
		names := map[string]bool{}
		for n := range a.Files {
			names[n] = true
		}
		for n := range b.Files {
			names[n] = true
		}
		for n := range names {
			if a.Files[n] != b.Files[n] {
				return false, "file-output"
			}
		}
	}
	return true, ""
}

func usesFiles(src string) bool {
	return strings.Contains(src, ">") || strings.Contains(src, "getline") || strings.Contains(src, "pre") || strings.Contains(src, "close")
}

type c01State struct {
	dir    string
	groups map[string]struct {
		obs implObs
		src string
	}
}

func c01Dir(c *core.Ctx) string {
	dir, _ := os.Getwd()
	dir = filepath.Join(dir, fmt.Sprintf("fs-%s-%d", c.ID, c.Shard))
	os.MkdirAll(dir, 0o755)
	os.Chdir(dir)
	return dir
}

func owner(key string, n int) int {
	h := fnv.New32a()
	h.Write([]byte(key))
	return int(h.Sum32() % uint32(n))
}

func c01Eval(c *core.Ctx, st *c01State, pc progenum.Case, inputs []string) {
	prog, err, pn := awk.Parse(pc.Src, nil)
	if pn != "" {
		c.Fail("parse-panic:"+pc.Family, c01Case{Family: pc.Family, Name: pc.Name, Src: pc.Src}, firstLine(pn))
		return
	}
	if err != nil {
		c.Add("rejected_by_parser", 1)
		return
	}
	uf := usesFiles(pc.Src)
	for _, in := range inputs {
		cs := c01Case{Family: pc.Family, Name: pc.Name, Src: pc.Src, Input: in, Group: pc.Group}
		budget, refLimit := 200000, 20000
		if pc.Family == "longrun" {
			budget, refLimit = 20000000, 3000000
		}
		impl := runImpl(prog, in, nil, st.dir, uf, budget)
		c.Eval(1)
		c.Add("transitions", 1)
		if impl.Panic != "" {
			c.Fail("panic:"+pc.Family, cs, firstLine(impl.Panic))
			continue
		}
		ref, unsup := refObsLimit(prog, in, nil, refLimit)
		if unsup != "" {
			c.Add("ref_unsupported", 1)
			if impl.Budget && unsup != "step limit" {
				c.Fail("runaway:"+pc.Family, cs, "implementation exceeded the step budget; model: unsupported ("+unsup+")")
			}
		} else if impl.Budget {
			c.Fail("runaway:"+pc.Family, cs, "implementation exceeded the step budget, model terminates: "+ref.String())
			continue
		} else {
			c.Add("traces_validated_against_impl", 1)
			if ok, kind := sameObs(impl, ref, uf); !ok {
				c.Fail("ref-mismatch:"+pc.Family+":"+kind, cs, "impl: "+impl.String()+" ("+impl.ErrMsg+") || model: "+ref.String()+" ("+ref.ErrMsg+")")
			}
		}
		c.Outcome(impl.String())
		if pc.Group != "" && !impl.Budget {
			key := pc.Group + "\x00" + in
			if first, ok := st.groups[key]; ok {
				if same, kind := sameObs(first.obs, impl, uf); !same {
					cs.Other = first.src
					c.Fail("metamorphic:"+pc.Family+":"+kind, cs, "this: "+impl.String()+" || equivalent spelling: "+first.obs.String())
				}
			} else {
				st.groups[key] = struct {
					obs implObs
					src string
				}{impl, pc.Src}
			}
		}
	}
}

func c01Run(c *core.Ctx) {
	if c.Shard == 0 {
		rv := refValidate()
		c.Note("model_validation", fmt.Sprintf("repo test table: total=%d agreed=%d unsupported=%d impl_differs=%d model_bugs=%d", rv.Total, rv.Agreed, rv.Unsupported, rv.ImplDiffers, len(rv.ModelBugs)))
		if len(rv.ModelBugs) > 0 {
			panic("reference model disagrees with the repository's recorded expectations: " + strings.Join(rv.ModelBugs, " ;; "))
		}
	}
	st := &c01State{dir: c01Dir(c), groups: map[string]struct {
		obs implObs
		src string
	}{}}
	n := 0
	progenum.EnumC01(c.Thorough(), func(pc progenum.Case) {
		if c.Expired() {
			return
		}
		c.Mine() // keep the shared counter moving (deadline checks)
		key := pc.Group
		if key == "" {
			key = pc.Family + "/" + pc.Name
		}
		if c.NShards > 1 && owner(key, c.NShards) != c.Shard {
			return
		}
		n++
		c.Add("states", 1)
		inputs := c01Inputs
		if pc.Family == "cond" || pc.Family == "concat" || pc.Family == "boolvalue" || pc.Family == "selfassign" || pc.Family == "emptybody" {
			inputs = []string{"10 9 abc\n", "a b\n"}
		}
		if pc.Family == "longrun" {
			inputs = []string{progenum.LongInput(1300)}
		}
		if pc.Family == "pairs" && c.Thorough() {
			inputs = []string{"1 2\n3 4\n5"}
		}
		c01Eval(c, st, pc, inputs)
		if n%500 == 1 {
			c.Sample(map[string]any{"family": pc.Family, "name": pc.Name, "src": trunc(pc.Src, 300)})
		}
	})
}

func c01Replay(c *core.Ctx, raw json.RawMessage) {
	var cs c01Case
	if err := json.Unmarshal(raw, &cs); err != nil {
		panic(err)
	}
	st := &c01State{dir: c01Dir(c), groups: map[string]struct {
		obs implObs
		src string
	}{}}
	if cs.Other != "" {
		c01Eval(c, st, progenum.Case{Family: cs.Family, Name: cs.Name + "(other)", Src: cs.Other, Group: cs.Group}, []string{cs.Input})
	}
	c01Eval(c, st, progenum.Case{Family: cs.Family, Name: cs.Name, Src: cs.Src, Group: cs.Group}, []string{cs.Input})
}

func init() {
	core.Register(&core.Check{
		ID:    "C01",
		Level: "model_checking",
		Rule: "bounded-exhaustive enumeration of a feature-product program grammar (families: lvalue kind x operation x rhs x form x scope; comparison/boolean conditions x 11 constructs; statements whose bodies are all empty around 25 side-effecting / failing conditions in 12 spellings (if / if-else / ?: / for / while / do, grouped with a harmless-body spelling); self-referencing assignments (v = v op e, v = e op v, v op= e where e changes v, over 8 lvalue kinds x 8 side effects, grouped with their parenthesised / expression-position spellings); long-run programs (1300 records: next/nextfile/exit/return/getline/close/delete inside functions and loops, >100 distinct dynamic regexes and formats: state that leaks per record or per call); values of !, && and || over 12 left x 14 right operands in 8 value contexts, each grouped with its ?: spelling; " +
			"concatenation chains in every grouping; user-call shapes; builtins; loop nests x break/continue placements; patterns/getline/IO forms; thorough: all ordered pairs of 50 statements) x inputs; " +
			"state = one program, transition = one execution on the real compiler+VM; each execution is compared with the reference tree evaluator (traces_validated_against_impl) and with its metamorphic group; distinct = distinct observations",
		Assumptions: []string{
			"reference evaluator refawk shares only lexer+parser with the implementation; validated on every run against the repository's own interp test table (model bug = harness error)",
			"evaluation order where POSIX is silent: operands left to right, right-hand side before the subscripts of the assignment target (what the code does)",
			"for-in visits keys in sorted order in the model and in the instrumented build",
			"programs using commands, hex/inf/nan numeric strings, printf flags/%g without precision are outside the model (counted as ref_unsupported, still run for panics/metamorphic groups)",
			"Go regexp, strconv and math are trusted leaves shared by model and implementation",
		},
		Run:    c01Run,
		Replay: c01Replay,
	})
}

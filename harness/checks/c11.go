package checks

import (
	"encoding/json"
	"fmt"
	"os"
	"path/filepath"
	"regexp"
	"runtime"
	"runtime/debug"
	"strconv"
	"strings"

	"github.com/benhoyt/goawk/parser"
	"github.com/benhoyt/goawk/vexp"

	"verifharness/awk"
	"verifharness/core"
	"verifharness/progenum"
)

// C11 — input bookkeeping: NR, FNR, FILENAME, operands, getline, ranges, next,
// nextfile, exit (shape B). Generated programs (progenum.EnumC11) x operand
// lists x file fixtures are run on the real code (real files, in-process) and
// on the reference evaluator; in addition the trace printed by the program is
// checked against invariants derived directly from the property statement.

type c11Fixture struct {
	A, B, G, Stdin string
}

// every record is unique; several records split differently under FS=" " and FS=","
var c11Fixtures = []c11Fixture{
	{A: "a1 x\na2,y,w z\na3 u\n", B: "b1\nb2,q\n", G: "g1 p\ng2\n", Stdin: "s1 t\ns2\n"},
	{A: "a1,k\n", B: "b1 m\nb2\nb3,n o\n", G: "g1\n", Stdin: ""},
	{A: "a1\na2 x,y\n", B: "", G: "", Stdin: "s1\ns2 2\ns3,w\n"},
}

var c11OperandAlphabet = []string{"A", "B", "E", "-", "", "v=1", "FS=,", "M"}

func (f c11Fixture) files() map[string]string {
	return map[string]string{"A": f.A, "B": f.B, "E": "", "G": f.G}
}

func c11Recs(s string) []string {
	if s == "" {
		return nil
	}
	return strings.Split(strings.TrimSuffix(s, "\n"), "\n")
}

type c11Case struct {
	Family string   `json:"family"`
	Name   string   `json:"name"`
	Src    string   `json:"src"`
	Begin  string   `json:"begin"`
	Lean   bool     `json:"lean"`
	Args   []string `json:"args"`
	Fix    int      `json:"fixture"`
}

type c11Line struct {
	Loc, Wrap, Kind, Phase string
	NR, FNR, NF            int
	FN, D, V, R            string
}

func (l c11Line) tag() string { return l.Loc + ":" + l.Wrap + ":" + l.Kind + ":" + l.Phase }
func (l c11Line) String() string {
	return fmt.Sprintf("%s|%d|%d|%s|%d|%s|%s|%s", l.tag(), l.NR, l.FNR, l.FN, l.NF, l.D, l.V, l.R)
}

// c11Parse parses the trace; ok=false if some line is not a well-formed trace line.
func c11Parse(out string) ([]c11Line, bool) {
	var lines []c11Line
	if out == "" {
		return nil, true
	}
	if !strings.HasSuffix(out, "\n") {
		return nil, false
	}
	for _, s := range strings.Split(strings.TrimSuffix(out, "\n"), "\n") {
		p := strings.Split(s, "|")
		if len(p) != 8 {
			return nil, false
		}
		t := strings.Split(p[0], ":")
		if len(t) != 4 {
			return nil, false
		}
		nr, e1 := strconv.Atoi(p[1])
		fnr, e2 := strconv.Atoi(p[2])
		nf, e3 := strconv.Atoi(p[4])
		if e1 != nil || e2 != nil || e3 != nil {
			return nil, false
		}
		lines = append(lines, c11Line{Loc: t[0], Wrap: t[1], Kind: t[2], Phase: t[3], NR: nr, FNR: fnr, NF: nf, FN: p[3], D: p[5], V: p[6], R: p[7]})
	}
	return lines, true
}

// c11Normalise removes what the statement does not prescribe from a trace:
// the value of FILENAME while no named file has been opened (BEGIN) or while
// standard input is read ("" and "-" are both written "?").
func c11Normalise(out string) string {
	lines, ok := c11Parse(out)
	if !ok {
		return out
	}
	var sb strings.Builder
	for _, l := range lines {
		if l.FN == "" || l.FN == "-" {
			l.FN = "?"
		}
		sb.WriteString(l.String())
		sb.WriteByte('\n')
	}
	return sb.String()
}

type c11Feat struct {
	gl, glv, glf, glvf, next, nextfile, exit bool
	pats                                     []string // rule patterns (full mode only)
}

var (
	c11ReGl   = regexp.MustCompile(`r = getline(;| \})`)
	c11ReGlv  = regexp.MustCompile(`r = getline (v|lv|a\[i\])(;| \})`)
	c11ReGlf  = regexp.MustCompile(`\(getline < `)
	c11ReGlvf = regexp.MustCompile(`\(getline (v|lv|a\[i\]) < `)
	c11ReNext = regexp.MustCompile(`\bnext(;| \})`)
)

func c11Features(src string) c11Feat {
	f := c11Feat{gl: c11ReGl.MatchString(src), glv: c11ReGlv.MatchString(src), glf: c11ReGlf.MatchString(src), glvf: c11ReGlvf.MatchString(src),
		next: c11ReNext.MatchString(src), nextfile: strings.Contains(src, "nextfile"), exit: strings.Contains(src, "exit")}
	for _, line := range strings.Split(src, "\n") {
		for k := 1; k <= 2; k++ {
			if i := strings.Index(line, fmt.Sprintf(`{ tr("R%d.0:`, k)); i >= 0 && !strings.HasPrefix(line, "function") {
				for len(f.pats) < k {
					f.pats = append(f.pats, "?")
				}
				f.pats[k-1] = strings.TrimSpace(line[:i])
			}
		}
	}
	return f
}

var c11AssignRe = regexp.MustCompile(`^[_a-zA-Z][_a-zA-Z0-9]*=`)

// c11Effective: the operand list after the BEGIN block's ARGV/ARGC edit.
func c11Effective(begin string, args []string) []string {
	eff := append([]string{}, args...)
	switch begin {
	case "argv1":
		if len(eff) >= 1 {
			eff[0] = "B"
		}
	case "argc":
		if len(eff) > 1 {
			eff = eff[:1]
		}
	case "append":
		eff = append(eff, "A")
	case "argvsplit":
		eff = []string{"B", "A"}
	case "argvfunc":
		eff = []string{"A"}
	case "argvdelete":
		if len(eff) >= 1 {
			eff = eff[1:] // a deleted element is skipped
		}
	}
	return eff
}

type c11World struct {
	recs  map[string][]string // A B E G
	stdin []string
	eff   []string
}

// total number of main-input records of the effective operand list; ok=false if
// a missing file is among the operands.
func (w *c11World) total() (int, bool) {
	n, hadFiles, stdinUsed := 0, false, false
	for _, a := range w.eff {
		switch {
		case c11AssignRe.MatchString(a), a == "":
		case a == "M":
			return 0, false
		case a == "-":
			hadFiles = true
			if !stdinUsed {
				n += len(w.stdin)
				stdinUsed = true
			}
		default:
			hadFiles = true
			n += len(w.recs[a])
		}
	}
	if !hadFiles {
		n += len(w.stdin)
	}
	return n, true
}

func (w *c11World) has(op string) bool {
	for _, a := range w.eff {
		if a == op {
			return true
		}
	}
	return false
}

// before reports, for the instances of file f in the operand list, whether the
// assignment operand op precedes all of them / none of them.
func (w *c11World) before(f, op string) (all, none bool) {
	all, none = true, true
	seen, n := false, 0
	for _, a := range w.eff {
		if a == op {
			seen = true
		}
		if a == f {
			n++
			if seen {
				none = false
			} else {
				all = false
			}
		}
	}
	if n == 0 {
		return false, false
	}
	return
}

func c11NFBlank(s string) int { return len(strings.Fields(s)) }
func c11NFComma(s string) int {
	if s == "" {
		return 0
	}
	return len(strings.Split(s, ","))
}

// c11Invariants checks the trace of one error-free run directly against the
// property statement. Returns a signature and a message for the first violation.
func c11Invariants(cs c11Case, lines []c11Line, status int, ft c11Feat, w *c11World) (string, string) {
	fail := func(sig string, i int, format string, a ...any) (string, string) {
		ctx := ""
		if i > 0 {
			ctx = " prev=[" + lines[i-1].String() + "]"
		}
		if i >= 0 && i < len(lines) {
			ctx += " line=[" + lines[i].String() + "]"
		}
		return sig, fmt.Sprintf(format, a...) + ctx
	}
	isFile := func(fn string) bool { _, ok := w.recs[fn]; return ok && fn != "G" }
	total, totalOK := w.total()
	hasM := w.has("M")
	vForms := ft.glv || ft.glvf
	full := !cs.Lean

	fileReads := map[string]int{}
	lastExit := 0
	for i, l := range lines {
		var prev *c11Line
		if i > 0 {
			prev = &lines[i-1]
		}
		// ---- counters are consistent (NR counts every record, FNR restarts per file)
		if l.FNR > l.NR || l.FNR < 0 {
			return fail("fnr-exceeds-nr", i, "FNR outside 0..NR")
		}
		if prev != nil {
			dn, df := l.NR-prev.NR, l.FNR-prev.FNR
			if dn < 0 {
				return fail("nr-decreases", i, "NR went down")
			}
			if dn != df && l.FNR > dn {
				return fail("nr-fnr-step", i, "NR grew by %d, FNR by %d and FNR did not restart", dn, df)
			}
			if l.FN != prev.FN && isFile(l.FN) && l.FNR > dn {
				return fail("fnr-not-restarted", i, "FILENAME changed but FNR counts more records than were read since")
			}
		}
		if isFile(l.FN) && l.FNR > len(w.recs[l.FN]) {
			return fail("fnr-beyond-file", i, "FNR larger than the number of records of FILENAME")
		}
		// ---- the record most recently taken from the main input is in $0 or in v
		if isFile(l.FN) && l.FNR >= 1 && !ft.glf && !ft.glvf && !(ft.glv && w.has("v=1")) {
			rec := w.recs[l.FN][l.FNR-1]
			if l.D != rec && !(ft.glv && l.V == rec) {
				return fail("record-content", i, "record %d of %s is %q but neither $0 nor the getline variable holds it", l.FNR, l.FN, rec)
			}
		}
		// ---- var=value operands
		if !vForms {
			if !w.has("v=1") && l.V != "" {
				return fail("assign-operand-phantom", i, "v set without a v=1 operand")
			}
			if l.Loc == "B.0" && l.V != "" {
				return fail("assign-operand-early", i, "v=1 operand assigned before BEGIN")
			}
			if isFile(l.FN) && l.FNR >= 1 {
				all, none := w.before(l.FN, "v=1")
				if all && l.V != "1" {
					return fail("assign-operand-late", i, "v=1 precedes %s in the operand list but v is not set while reading it", l.FN)
				}
				if none && l.FNR < len(w.recs[l.FN]) && !(ft.nextfile && l.Loc[0] == 'E') && l.V != "" {
					return fail("assign-operand-early", i, "v=1 follows %s in the operand list but is already set before its end", l.FN)
				}
			}
			if l.Loc == "E.0" && l.Phase == "s" && w.has("v=1") && !ft.exit && !hasM && l.V != "1" {
				return fail("assign-operand-lost", i, "all operands consumed but v=1 not assigned at END")
			}
		}
		if !ft.glf && isFile(l.FN) && l.FNR >= 1 && l.D == w.recs[l.FN][l.FNR-1] {
			all, none := w.before(l.FN, "FS=,")
			if all && l.NF != c11NFComma(l.D) {
				return fail("fs-operand-late", i, "FS=, precedes %s but NF=%d", l.FN, l.NF)
			}
			if none && l.FNR < len(w.recs[l.FN]) && !(ft.nextfile && l.Loc[0] == 'E') && l.NF != c11NFBlank(l.D) {
				return fail("fs-operand-early", i, "FS=, follows %s but NF=%d", l.FN, l.NF)
			}
		}
		// ---- getline forms: what the operation just before this :post line did
		if l.Phase == "post" {
			kind, file := l.Kind, ""
			if strings.HasPrefix(l.Kind, "glf.") {
				kind, file = "glf", l.Kind[4:]
			} else if strings.HasPrefix(l.Kind, "glvf.") {
				kind, file = "glvf", l.Kind[5:]
			}
			var pre *c11Line
			if full && prev != nil && prev.Phase == "pre" && prev.Loc == l.Loc && prev.Kind == l.Kind && prev.Wrap == l.Wrap {
				pre = prev
			}
			switch kind {
			case "gl", "glv":
				if l.R != "1" && l.R != "0" && !(l.R == "-1" && hasM) {
					return fail("getline-result", i, "getline returned %q", l.R)
				}
				if l.R == "1" && isFile(l.FN) && l.FNR >= 1 {
					rec := w.recs[l.FN][l.FNR-1]
					if kind == "gl" && l.D != rec {
						return fail("getline-record", i, "plain getline: $0 is not record FNR of FILENAME (%q)", rec)
					}
					if kind == "glv" && l.V != rec {
						return fail("getline-var-record", i, "getline v: v is not record FNR of FILENAME (%q)", rec)
					}
				}
				if pre != nil {
					if l.R == "1" {
						if l.NR != pre.NR+1 {
							return fail("getline-nr", i, "successful getline must add 1 to NR")
						}
						if l.FNR != pre.FNR+1 && l.FNR != 1 {
							return fail("getline-fnr", i, "successful getline must add 1 to FNR or start a new file")
						}
					} else if l.NR != pre.NR {
						return fail("getline-nr", i, "unsuccessful getline changed NR")
					}
					if kind == "glv" || l.R != "1" {
						if l.D != pre.D || l.NF != pre.NF {
							return fail("getline-var-clobbers-record", i, "getline v / failed getline changed $0 or NF")
						}
					}
					if kind == "gl" && !w.has("v=1") && l.V != pre.V {
						return fail("getline-clobbers-var", i, "plain getline changed v")
					}
				}
			case "glf", "glvf":
				recs, exists := w.recs[file]
				k := fileReads[file]
				want := "1"
				if !exists {
					want = "-1"
				} else if k >= len(recs) {
					want = "0"
				}
				if l.R != want {
					return fail("getline-file-result", i, "read %d from %s must return %s", k+1, file, want)
				}
				if want == "1" {
					fileReads[file] = k + 1
					if kind == "glf" && l.D != recs[k] {
						return fail("getline-file-record", i, "getline < file: $0 must be %q", recs[k])
					}
					if kind == "glvf" && l.V != recs[k] {
						return fail("getline-file-var-record", i, "getline v < file: v must be %q", recs[k])
					}
				}
				if pre != nil {
					if l.NR != pre.NR || l.FNR != pre.FNR || l.FN != pre.FN {
						return fail("getline-file-counters", i, "getline from a named file changed NR, FNR or FILENAME")
					}
					if kind == "glvf" || want != "1" {
						if l.D != pre.D || l.NF != pre.NF {
							return fail("getline-var-clobbers-record", i, "getline v < file / failed getline changed $0 or NF")
						}
					}
					if kind == "glf" && l.V != pre.V {
						return fail("getline-clobbers-var", i, "getline < file changed v")
					}
				}
			}
		}
		// ---- next / nextfile / exit (full mode: the :pre line is printed right before)
		if full && prev != nil && prev.Phase == "pre" {
			switch {
			case prev.Kind == "next":
				if !(l.Phase == "s" && (l.Loc == "E.0" || (strings.HasPrefix(l.Loc, "R") && l.NR > prev.NR))) {
					return fail("next-not-abandoning", i, "after next the following trace must start a later record or END")
				}
			case prev.Kind == "nextfile":
				if !(l.Phase == "s" && (l.Loc == "E.0" || (strings.HasPrefix(l.Loc, "R") && l.NR-l.FNR >= prev.NR))) {
					return fail("nextfile-not-abandoning", i, "after nextfile the following trace must be in a file opened later, or END")
				}
			case strings.HasPrefix(prev.Kind, "exit="):
				if strings.HasPrefix(prev.Loc, "E.") {
					return fail("exit-in-end-continues", i, "output after exit in END")
				}
				if !(l.Loc == "E.0" && l.Phase == "s") {
					return fail("exit-not-to-end", i, "after exit the following trace must be the start of END")
				}
				if l.NR != prev.NR || l.D != prev.D || l.NF != prev.NF {
					return fail("end-record", i, "END after exit must see the record and NR current at the exit")
				}
			}
		}
		if l.Phase == "pre" && strings.HasPrefix(l.Kind, "exit=") {
			if v := l.Kind[5:]; v != "" {
				lastExit, _ = strconv.Atoi(v)
			}
		}
		// ---- END
		if l.Loc == "E.0" && l.Phase == "s" {
			if totalOK && !ft.exit && !ft.nextfile && l.NR != total {
				return fail("end-nr-total", i, "no exit/nextfile: NR at END must be the number of records of all operands (%d)", total)
			}
			if totalOK && l.NR > total {
				return fail("end-nr-total", i, "NR at END larger than the number of records of all operands (%d)", total)
			}
			if prev != nil && !strings.HasPrefix(prev.Loc, "B.") && prev.NR == l.NR && prev.Phase != "pre" {
				// nothing was read between the previous trace line and END
				if l.D != prev.D || l.NF != prev.NF {
					return fail("end-record", i, "END must see $0 and NF of the last record")
				}
			}
		}
	}
	if full {
		if n := len(lines); n > 0 {
			l := lines[n-1]
			if l.Phase == "pre" && (l.Kind == "next" || l.Kind == "nextfile" || (strings.HasPrefix(l.Kind, "exit=") && !strings.HasPrefix(l.Loc, "E."))) {
				return fail("end-not-run", n-1, "END block did not run")
			}
			if !strings.HasPrefix(l.Loc, "E.") {
				return fail("end-not-run", n-1, "END block did not run")
			}
		}
		if status != lastExit {
			return fail("exit-status", -1, "exit status %d, last exit value executed %d", status, lastExit)
		}
		if sig, msg := c11RangeInvariant(lines, ft); sig != "" {
			return sig, msg
		}
	}
	return "", ""
}

var c11NRRange = regexp.MustCompile(`^NR == (\d+), NR == (\d+)$`)

// c11RangeInvariant: rule 1 = NR==i,NR==j and rule 2 = plain rule: the set of
// main-loop records is visible in the trace, so the records selected by the
// range can be computed directly.
func c11RangeInvariant(lines []c11Line, ft c11Feat) (string, string) {
	if len(ft.pats) != 2 || ft.pats[1] != "" {
		return "", ""
	}
	m := c11NRRange.FindStringSubmatch(ft.pats[0])
	if m == nil {
		return "", ""
	}
	lo, _ := strconv.Atoi(m[1])
	hi, _ := strconv.Atoi(m[2])
	type rec struct {
		nr    int
		fired bool
	}
	var recs []rec
	i := 0
	for i < len(lines) {
		l := lines[i]
		switch {
		case l.Loc == "R1.0" && l.Phase == "s":
			recs = append(recs, rec{l.NR, true})
			i++
			term := false
			for i < len(lines) && strings.HasPrefix(lines[i].Loc, "R1.") && lines[i].Phase != "s" {
				k := lines[i].Kind
				if lines[i].Phase == "pre" && (k == "next" || k == "nextfile" || strings.HasPrefix(k, "exit=")) {
					term = true
				}
				i++
			}
			if !term {
				if i >= len(lines) || lines[i].Loc != "R2.0" {
					return "range-second-rule-skipped", fmt.Sprintf("rule 1 finished without next/nextfile/exit at NR=%d but the plain rule 2 did not run", l.NR)
				}
				i++
				for i < len(lines) && strings.HasPrefix(lines[i].Loc, "R2.") && lines[i].Phase != "s" {
					i++
				}
			}
		case l.Loc == "R2.0" && l.Phase == "s":
			recs = append(recs, rec{l.NR, false})
			i++
			for i < len(lines) && strings.HasPrefix(lines[i].Loc, "R2.") && lines[i].Phase != "s" {
				i++
			}
		default:
			i++
		}
	}
	in := false
	for _, r := range recs {
		if !in {
			in = r.nr == lo
		}
		want := in
		if in {
			in = !(r.nr == hi)
		}
		if want != r.fired {
			return "range-selection", fmt.Sprintf("range NR==%d,NR==%d: main-loop record with NR=%d selected=%v, expected %v (records seen by the main loop: %v)", lo, hi, r.nr, r.fired, want, recs)
		}
	}
	return "", ""
}

// ---------------------------------------------------------------- running

type c11State struct {
	base string
	cur  int
}

func (st *c11State) useFixture(k int) {
	if st.cur == k {
		return
	}
	dir := filepath.Join(st.base, fmt.Sprintf("fix%d", k))
	if _, err := os.Stat(dir); err != nil {
		os.MkdirAll(dir, 0o755)
		for name, data := range c11Fixtures[k].files() {
			if err := os.WriteFile(filepath.Join(dir, name), []byte(data), 0o644); err != nil {
				panic(err)
			}
		}
	}
	if err := os.Chdir(dir); err != nil {
		panic(err)
	}
	st.cur = k
}

func c11NewState(c *core.Ctx) *c11State {
	base := c01Dir(c)
	os.RemoveAll(base)
	os.MkdirAll(base, 0o755)
	return &c11State{base: base, cur: -1}
}

func c11Ref(prog *parser.Program, fx c11Fixture, args []string) (implObs, string) {
	r := vexp.RunRef(prog, &vexp.RefConfig{Stdin: fx.Stdin, Args: args, Files: fx.files(), Environ: []string{"HOME", "/h"}, StepLimit: 20000})
	o := implObs{Out: r.Stdout, Status: r.Status, Err: r.Err != "", ErrMsg: r.Err}
	return o, r.Unsupported
}

func c11Eval(c *core.Ctx, st *c11State, prog *parser.Program, ft c11Feat, cs c11Case) {
	fx := c11Fixtures[cs.Fix]
	st.useFixture(cs.Fix)
	impl := runImpl(prog, fx.Stdin, cs.Args, "", false, 200000)
	c.Eval(1)
	c.Add("transitions", 1)
	if impl.Panic != "" {
		c.Fail("panic:"+cs.Family, cs, firstLine(impl.Panic))
		return
	}
	if impl.Budget {
		c.Fail("runaway:"+cs.Family, cs, "implementation exceeded the step budget (all loops in the program are bounded)")
		return
	}
	c.Outcome(impl.String())
	implN := impl
	implN.Out = c11Normalise(impl.Out)

	// oracle 1: reference evaluator
	ref, unsup := c11Ref(prog, fx, cs.Args)
	if unsup != "" {
		c.Add("ref_unsupported", 1)
	} else {
		c.Add("traces_validated_against_impl", 1)
		ref.Out = c11Normalise(ref.Out)
		if ok, kind := sameObs(implN, ref, false); !ok {
			c.Fail("ref-mismatch:"+kind, cs, "impl: "+implN.String()+" ("+impl.ErrMsg+") || model: "+ref.String()+" ("+ref.ErrMsg+")")
		}
	}

	// oracle 2: invariants from the statement
	if impl.Err {
		c.Add("runs_ending_in_error", 1)
		return
	}
	lines, ok := c11Parse(impl.Out)
	if !ok {
		c.Fail("trace-malformed", cs, "impl: "+impl.String())
		return
	}
	w := &c11World{recs: map[string][]string{}, stdin: c11Recs(fx.Stdin), eff: c11Effective(cs.Begin, cs.Args)}
	for n, d := range fx.files() {
		w.recs[n] = c11Recs(d)
	}
	c.Add("invariant_checked_runs", 1)
	c.Add("trace_lines_checked", int64(len(lines)))
	if sig, msg := c11Invariants(cs, lines, impl.Status, ft, w); sig != "" {
		c.Fail("inv:"+sig, cs, msg+" || impl: "+impl.String())
	}
}

func c11Lists(n int) [][]string {
	out := [][]string{{}}
	var rec func(prefix []string, left int)
	for k := 1; k <= n; k++ {
		rec = func(prefix []string, left int) {
			if left == 0 {
				out = append(out, append([]string{}, prefix...))
				return
			}
			for _, a := range c11OperandAlphabet {
				rec(append(prefix, a), left-1)
			}
		}
		rec(nil, k)
	}
	return out
}

// representative operand lists for the families that vary the program
var c11ListsMid = [][]string{{}, {"A"}, {"A", "B"}, {"B", "A"}, {"A", "v=1", "B"}, {"FS=,", "A", "B"}, {"A", "FS=,", "B"}, {"E", "A"}, {"A", "", "B"}, {"-", "A"}, {"A", "A"}, {"A", "M"},
	{"A", "E", "B"}, {"v=1", "A", "FS=,"}, {"A", "-", "B"}, {"B", "v=1"}}
var c11ListsSmall = [][]string{{"A", "B"}, {"A", "v=1", "FS=,", "B"}, {"B", "E", "-"}, {}}
var c11ListsTwoThorough = [][]string{{"A", "B"}, {"A", "v=1", "FS=,", "B"}, {"B", "E", "-"}, {}, {"A", "", "B"}, {"A", "M"}, {"-", "A"}, {"A", "A"}, {"FS=,", "B", "A"}}

func c11Run(c *core.Ctx) {
	// every run of the interpreter allocates several 64 KiB buffers: keep the
	// collector and its background threads from dominating the run time
	debug.SetGCPercent(800)
	runtime.GOMAXPROCS(2)
	st := c11NewState(c)
	thorough := c.Thorough()
	all3, all4 := c11Lists(3), [][]string(nil)
	if thorough {
		all4 = c11Lists(4)
	}
	n := 0
	progenum.EnumC11(thorough, func(pc progenum.C11Prog) {
		if c.Expired() {
			return
		}
		c.Mine()
		if c.NShards > 1 && owner(pc.Family+"/"+pc.Name, c.NShards) != c.Shard {
			return
		}
		prog, err, pn := awk.Parse(pc.Src, nil)
		if pn != "" {
			c.Fail("parse-panic", c11Case{Family: pc.Family, Name: pc.Name, Src: pc.Src}, firstLine(pn))
			return
		}
		if err != nil {
			c.Fail("generated-program-rejected", c11Case{Family: pc.Family, Name: pc.Name, Src: pc.Src}, err.Error())
			return
		}
		c.Add("states", 1)
		c.Add("programs:"+pc.Family, 1)
		ft := c11Features(pc.Src)
		var lists [][]string
		fixes := []int{0}
		switch pc.Family {
		case "ops1":
			lists = all3
			if thorough {
				switch {
				case strings.Count(pc.Name, "+") > 0: // two operations
				case pc.Lean:
					fixes = []int{0, 1, 2}
				default:
					fixes = []int{0, 1, 2}
					lists = all4 // fixtures 1, 2: lists of <= 3 only
				}
			}
		case "act2", "act2be":
			lists = c11ListsMid
			if thorough && pc.Family == "act2" && !pc.Lean {
				fixes = []int{0, 1, 2}
			}
		default:
			lists = c11ListsSmall
			if thorough {
				lists = c11ListsTwoThorough
			}
		}
		for _, fix := range fixes {
			for li, args := range lists {
				if fix > 0 && len(args) > 3 {
					continue
				}
				cs := c11Case{Family: pc.Family, Name: pc.Name, Src: pc.Src, Begin: pc.Begin, Lean: pc.Lean, Args: args, Fix: fix}
				c11Eval(c, st, prog, ft, cs)
				n++
				if n%20000 == 1 && li > 0 {
					c.Sample(cs)
				}
			}
		}
	})
	c11Long(c)
	c11Assigned(c, st)
}

// c11Assigned: NR / FNR assigned by the program or by an operand (a number, a
// numeric string from input, a string): counting continues from the assigned
// value. Reference evaluator only.
var c11AssignedProgs = []struct {
	src  string
	args []string
}{
	{`{ print FILENAME, NR, FNR }`, []string{"A", "NR=100", "B"}},
	{`{ print FILENAME, NR, FNR }`, []string{"A", "FNR=7", "NR=3", "B", "A"}},
	{`{ print FILENAME, NR, FNR }`, []string{"NR=5", "A", "B"}},
	{`NR == 1 { NR = $1 + 6; FNR = $1 } { print NR, FNR } END { print NR, FNR }`, []string{"A", "B"}},
	{`FNR == 1 { NR = substr($1, 2); FNR = substr($1, 2) "" } { print NR, FNR, $0 } END { print NR }`, []string{"A", "B"}},
	{`FNR == 2 { split("40 41", p); NR = p[1]; FNR = p[2] } { print NR, FNR }`, []string{"A", "B"}},
	{`NR == 1 { getline NR < "G"; getline FNR < "G" } { print NR, FNR } END { print NR }`, []string{"A", "B"}},
	{`BEGIN { NR = 10; FNR = "20" } { print NR, FNR } END { print NR, FNR }`, []string{"A", "B"}},
	{`{ r = (getline v); print r, v, NR, FNR }`, []string{"A", "NR=50", "B"}},
	{`NR == 2 { NR = "x"; FNR = "" } { print NR, FNR }`, []string{"A", "B"}},
	// next / nextfile executed by a function that a pattern calls
	{`function f() { if (FNR == 2) next; return 1 } f() { print FILENAME, FNR, NR, $0 } END { print NR }`, []string{"A", "B"}},
	{`function f() { if (FNR == 2) nextfile; return 1 } f() { print FILENAME, FNR, NR, $0 } { print "x" } END { print NR, FILENAME }`, []string{"A", "B", "A"}},
	{`function f(n) { if (NR == n) next; return NR == 1 } f(2), f(3) { print "r", NR } { print "x", NR, $0 }`, []string{"A", "B"}},
	{`function g() { if (FNR == 1) nextfile; return 0 } { print "a", FILENAME, FNR } FNR == 2, g() { print "r", FILENAME, FNR }`, []string{"A", "B"}},
}

func c11Assigned(c *core.Ctx, st *c11State) {
	for i, ap := range c11AssignedProgs {
		if !c.Mine() || c.Expired() {
			continue
		}
		for fix := range c11Fixtures {
			cs := c11Case{Family: "assigned", Name: fmt.Sprintf("a%d", i), Src: ap.src, Args: ap.args, Fix: fix}
			c11AssignedEval(c, st, cs)
		}
	}
}

func c11AssignedEval(c *core.Ctx, st *c11State, cs c11Case) {
	prog, err, pn := awk.Parse(cs.Src, nil)
	if err != nil || pn != "" {
		panic("C11 harness: program rejected: " + cs.Src)
	}
	fx := c11Fixtures[cs.Fix]
	st.useFixture(cs.Fix)
	c.Add("states", 1)
	impl := runImpl(prog, fx.Stdin, cs.Args, "", false, 200000)
	c.Eval(1)
	c.Add("transitions", 1)
	if impl.Panic != "" || impl.Budget {
		c.Fail("panic-or-runaway:assigned", cs, firstLine(impl.Panic))
		return
	}
	c.Outcome(impl.String())
	ref, unsup := c11Ref(prog, fx, cs.Args)
	if unsup != "" {
		c.Add("ref_unsupported", 1)
		return
	}
	c.Add("traces_validated_against_impl", 1)
	if ok, kind := sameObs(impl, ref, false); !ok {
		c.Fail("ref-mismatch:assigned:"+kind, cs, "impl: "+trunc(impl.String(), 400)+" || model: "+trunc(ref.String(), 400))
	}
}

// c11Long: the main-loop bookkeeping over 1300 records (next / nextfile /
// exit / getline / range patterns inside functions and rules): state that
// leaks per record only shows after many records. Oracle: reference evaluator.
func c11Long(c *core.Ctx) {
	in := progenum.LongInput(1300)
	for i, src := range progenum.LongPrograms() {
		if strings.Contains(src, "\"pre\"") || strings.Contains(src, "\"out") {
			continue
		}
		if !c.Mine() || c.Expired() {
			continue
		}
		cs := c11Case{Family: "long", Name: fmt.Sprintf("l%d", i), Src: src}
		c11LongEval(c, cs, in)
	}
}

func c11LongEval(c *core.Ctx, cs c11Case, in string) {
	prog, err, pn := awk.Parse(cs.Src, nil)
	if err != nil || pn != "" {
		panic("C11 harness: long program rejected: " + cs.Src)
	}
	c.Add("states", 1)
	c.Add("programs:long", 1)
	impl := runImpl(prog, in, nil, "", false, 20000000)
	c.Eval(1)
	c.Add("transitions", 1)
	if impl.Panic != "" {
		c.Fail("panic:long", cs, firstLine(impl.Panic))
		return
	}
	if impl.Budget {
		c.Fail("runaway:long", cs, "implementation exceeded the step budget")
		return
	}
	c.Outcome(impl.String())
	ref, unsup := refObsLimit(prog, in, nil, 3000000)
	if unsup != "" {
		c.Add("ref_unsupported", 1)
		return
	}
	c.Add("traces_validated_against_impl", 1)
	if ok, kind := sameObs(impl, ref, false); !ok {
		c.Fail("ref-mismatch:long:"+kind, cs, "impl: "+trunc(impl.String(), 300)+" ("+impl.ErrMsg+") || model: "+trunc(ref.String(), 300)+" ("+ref.ErrMsg+")")
	}
}

func c11Replay(c *core.Ctx, raw json.RawMessage) {
	var cs c11Case
	if err := json.Unmarshal(raw, &cs); err != nil {
		panic(err)
	}
	if cs.Family == "assigned" {
		c11AssignedEval(c, c11NewState(c), cs)
		return
	}
	if cs.Family == "long" {
		c11LongEval(c, cs, progenum.LongInput(1300))
		return
	}
	st := c11NewState(c)
	prog, err, pn := awk.Parse(cs.Src, nil)
	if pn != "" || err != nil {
		c.Fail("generated-program-rejected", cs, fmt.Sprint(err, pn))
		return
	}
	c11Eval(c, st, prog, c11Features(cs.Src), cs)
}

func init() {
	core.Register(&core.Check{
		ID:    "C11",
		Level: "model_checking",
		Rule: "complete enumeration of generated programs {BEGIN in none/getline/getline v/ARGV[1] edit/ARGC edit/ARGV append/operand list replaced by split() directly and through an array parameter/ARGV[1] deleted/exit} x {one or two rules; patterns: none, expression, regex, NR ranges closing later/on the same record/never, range on field values} x " +
			"{actions of <= 2 operations from getline, getline v, getline < f, getline v < f, next, nextfile, exit k, each also inside a function (getline variable = local) and inside a loop (getline variable = array element)} x {END in trace/exit/getline}, in full-trace and lean-trace spelling, " +
			"x operand lists (family ops1: every list of <= 3, thorough <= 4, operands from A, B, empty file, -, \"\", v=1, FS=,, missing file; other families: 4 to 16 fixed lists) x file fixtures with 0-3 records; plus 10 programs x 3 fixtures in which NR / FNR are assigned (number, numeric string from input / operand / split / getline, string) and counting must continue from there; plus a family of long runs (1300 records; next / nextfile / exit / getline / ranges inside functions, recursion and loops; reference evaluator only); " +
			"state = one program, transition = one execution on the real interpreter with real files; every execution is compared with the reference evaluator (stdout, exit status, error/no error) and its trace is checked against invariants derived from the statement; distinct = distinct observations",
		Assumptions: []string{
			"FILENAME before any named file was opened and while standard input is read is not prescribed: \"\" and \"-\" are treated as equal",
			"a plain getline that reaches a missing operand file returns -1, uses the operand up and leaves FILENAME, FNR and NR unchanged (no file was entered); a missing operand file reached by the main loop must end the run with an error in model and implementation, with equal output before it",
			"reading \"-\" a second time yields no records (standard input already consumed)",
			"a record is split with the FS in effect when it was read (POSIX); the direct FS invariant is only applied to records read while later operands cannot have been reached",
			"reference evaluator refawk shares only lexer+parser with the implementation",
			"next inside a function called from BEGIN/END, getline < \"-\", commands and output redirection are not generated",
		},
		Run:    c11Run,
		Replay: c11Replay,
	})
}

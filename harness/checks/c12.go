package checks

import (
	"encoding/json"
	"fmt"
	"io"
	"os"
	"path/filepath"
	"runtime"
	"sort"
	"strconv"
	"strings"

	"github.com/benhoyt/goawk/interp"
	"github.com/benhoyt/goawk/parser"
	"github.com/benhoyt/goawk/vexp"

	"verifharness/awk"
	"verifharness/core"
)

// C12 — NoExec / NoFileWrites / NoFileReads confine every program (shape B):
// every sequence of <=2 I/O forms x 5 ways of computing the file/command name
// x the 8 flag combinations x Config.OpenFile {nil, recording wrapper}, run on
// the real interpreter in a per-worker directory with real (trivial) child
// processes. Observed: process starts (exec shim), raw os file calls made by
// package interp (redirected os functions), wrapper calls, directory contents
// before/after, the error result, stdout/stderr evidence lines.

const (
	c12NoExec   = 1
	c12NoWrites = 2
	c12NoReads  = 4
)

// name table: field k of every input record, ARGV[4+k], and the constants.
var c12Table = []string{
	"wa", "wb", "wc", "wd", "pre", "nonex", "/dev/stdout", "/dev/stderr", "-", // 1..9
	"read l1; echo $l1", "read l2; echo $l2", "read l3; echo $l3", // 10..12  print | c          (one per step index)
	"echo g1", "echo g2", "echo g3", // 13..15  c | getline
	"echo v1", "echo v2", "echo v3", // 16..18  c | getline v
	"echo s1", "echo s2", "echo s3", // 19..21  system(c)
	"read m1; echo $m1", "read m2; echo $m2", "read m3; echo $m3", // 22..24  print | c ; close ; print | c
	"echo k1", "echo k2", "echo k3", // 25..27  c | getline ; close ; c | getline
}

var c12Variants = []string{"const", "concat", "field", "argv", "func"}

// fixture files present in the directory before every run
var c12Fixture = map[string]string{
	"pre": "", // filled in init: three records, each the name table
	"wa":  "old-a\n",
	"wb":  "old-b\n",
}

var c12Line string

func init() {
	c12Line = strings.Join(c12Table, ",")
	c12Fixture["pre"] = c12Line + "\n" + c12Line + "\n" + c12Line + "\n"
}

// one attempted I/O action of the program, in execution order
type c12Atom struct {
	Kind    byte   // W file write, R file read (getline), O operand open, X process, S stdin by name "-", D write to /dev/stdout /dev/stderr "-", C close
	Name    string // file or command
	Append  bool
	Data    string   // W: bytes that end up in the file
	XMode   byte     // 'o' print|c, 'i' c|getline, 's' system
	Tok     []string // stdout lines present when the atom was performed
	ErrTok  []string // stderr lines
	AnyTok  []string // at least one of these stdout lines (S)
	Touch   bool     // Tok[0] proves the file Name was read
	Missing bool     // read of a nonexistent file: -1, no error, when reads are allowed
	Step    int      // index of the step (0/1/2) this atom belongs to
	Form    string
}

type c12Form struct {
	ID        string
	Operand   string // "" | "static" (const variant = Config.Args; others = ARGV[ARGC++]=name at run time) | "getline" (plain getline in BEGIN with the operand in Config.Args)
	OpName    int    // table index of the operand name
	ConstOnly bool
	Gen       func(i int, n func(k int) string) string
	Atoms     func(i int) []c12Atom
}

func c12Forms() []c12Form {
	I := func(i int) string { return strconv.Itoa(i) }
	T := c12Table
	return []c12Form{
		{ID: "print>", Gen: func(i int, n func(int) string) string { return `print "A` + I(i) + `" > ` + n(1) },
			Atoms: func(i int) []c12Atom { return []c12Atom{{Kind: 'W', Name: "wa", Data: "A" + I(i) + "\n"}} }},
		{ID: "print>>", Gen: func(i int, n func(int) string) string { return `print "B` + I(i) + `" >> ` + n(2) },
			Atoms: func(i int) []c12Atom {
				return []c12Atom{{Kind: 'W', Name: "wb", Append: true, Data: "B" + I(i) + "\n"}}
			}},
		{ID: "printf>", Gen: func(i int, n func(int) string) string { return `printf "C` + I(i) + `" > ` + n(3) },
			Atoms: func(i int) []c12Atom { return []c12Atom{{Kind: 'W', Name: "wc", Data: "C" + I(i)}} }},
		{ID: "print|", Gen: func(i int, n func(int) string) string { return `print "P` + I(i) + `" | ` + n(9+i) },
			Atoms: func(i int) []c12Atom {
				return []c12Atom{{Kind: 'X', XMode: 'o', Name: T[9+i-1], Tok: []string{"P" + I(i)}}}
			}},
		{ID: "cmd|getline", Gen: func(i int, n func(int) string) string {
			return n(12+i) + ` | getline; print "G` + I(i) + `:" $0; $0 = sv`
		},
			Atoms: func(i int) []c12Atom {
				return []c12Atom{{Kind: 'X', XMode: 'i', Name: T[12+i-1], Tok: []string{"G" + I(i) + ":g" + I(i)}}}
			}},
		{ID: "cmd|getline-v", Gen: func(i int, n func(int) string) string {
			return n(15+i) + ` | getline v; print "V` + I(i) + `:" v`
		},
			Atoms: func(i int) []c12Atom {
				return []c12Atom{{Kind: 'X', XMode: 'i', Name: T[15+i-1], Tok: []string{"V" + I(i) + ":v" + I(i)}}}
			}},
		{ID: "system", Gen: func(i int, n func(int) string) string {
			return `r = system(` + n(18+i) + `); print "Y` + I(i) + `:" r`
		},
			Atoms: func(i int) []c12Atom {
				return []c12Atom{{Kind: 'X', XMode: 's', Name: T[18+i-1], Tok: []string{"s" + I(i), "Y" + I(i) + ":0"}}}
			}},
		{ID: "getline<", Gen: func(i int, n func(int) string) string {
			return `r = (getline < ` + n(5) + `); print "R` + I(i) + `:" r; $0 = sv`
		},
			Atoms: func(i int) []c12Atom {
				return []c12Atom{{Kind: 'R', Name: "pre", Tok: []string{"R" + I(i) + ":1"}, Touch: true}}
			}},
		{ID: "getline-v<", Gen: func(i int, n func(int) string) string {
			return `r = (getline x < ` + n(5) + `); print "Q` + I(i) + `:" r`
		},
			Atoms: func(i int) []c12Atom {
				return []c12Atom{{Kind: 'R', Name: "pre", Tok: []string{"Q" + I(i) + ":1"}, Touch: true}}
			}},
		{ID: "getline<missing", Gen: func(i int, n func(int) string) string {
			return `r = (getline < ` + n(6) + `); print "M` + I(i) + `:" r; $0 = sv`
		},
			Atoms: func(i int) []c12Atom {
				return []c12Atom{{Kind: 'R', Name: "nonex", Missing: true, Tok: []string{"M" + I(i) + ":-1"}}}
			}},
		{ID: "getline-v<missing", Gen: func(i int, n func(int) string) string {
			return `r = (getline x < ` + n(6) + `); print "N` + I(i) + `:" r`
		},
			Atoms: func(i int) []c12Atom {
				return []c12Atom{{Kind: 'R', Name: "nonex", Missing: true, Tok: []string{"N" + I(i) + ":-1"}}}
			}},
		{ID: "operand", Operand: "static", OpName: 5,
			Atoms: func(i int) []c12Atom {
				return []c12Atom{{Kind: 'O', Name: "pre", Tok: []string{"O:pre"}, Touch: true}}
			}},
		{ID: "operand-getline", Operand: "getline", OpName: 5, ConstOnly: true,
			Gen: func(i int, n func(int) string) string { return `r = getline; print "L` + I(i) + `:" r ":" FILENAME` },
			Atoms: func(i int) []c12Atom {
				return []c12Atom{{Kind: 'O', Name: "pre", Tok: []string{"L" + I(i) + ":1:pre"}, Touch: true}}
			}},
		{ID: "operand-getline-v", Operand: "getline", OpName: 5, ConstOnly: true,
			Gen: func(i int, n func(int) string) string {
				return `r = (getline ln); print "LV` + I(i) + `:" r ":" FILENAME`
			},
			Atoms: func(i int) []c12Atom {
				return []c12Atom{{Kind: 'O', Name: "pre", Tok: []string{"LV" + I(i) + ":1:pre"}, Touch: true}}
			}},
		{ID: "write-close-write", Gen: func(i int, n func(int) string) string {
			return `print "D` + I(i) + `a" > ` + n(4) + `; close(` + n(4) + `); print "D` + I(i) + `b" > ` + n(4)
		},
			Atoms: func(i int) []c12Atom {
				return []c12Atom{{Kind: 'W', Name: "wd", Data: "D" + I(i) + "a\n"}, {Kind: 'C', Name: "wd"}, {Kind: 'W', Name: "wd", Data: "D" + I(i) + "b\n"}}
			}},
		{ID: "read-close-read", Gen: func(i int, n func(int) string) string {
			return `r = (getline x < ` + n(5) + `); close(` + n(5) + `); r2 = (getline y < ` + n(5) + `); print "E` + I(i) + `:" r r2`
		},
			Atoms: func(i int) []c12Atom {
				return []c12Atom{{Kind: 'R', Name: "pre"}, {Kind: 'C', Name: "pre"}, {Kind: 'R', Name: "pre", Tok: []string{"E" + I(i) + ":11"}, Touch: true}}
			}},
		{ID: "write-close-read", Gen: func(i int, n func(int) string) string {
			return `print "F` + I(i) + `" > ` + n(4) + `; close(` + n(4) + `); r = (getline x < ` + n(4) + `); print "H` + I(i) + `:" r; close(` + n(4) + `)`
		},
			Atoms: func(i int) []c12Atom {
				return []c12Atom{{Kind: 'W', Name: "wd", Data: "F" + I(i) + "\n"}, {Kind: 'C', Name: "wd"},
					{Kind: 'R', Name: "wd", Tok: []string{"H" + I(i) + ":1"}, Touch: true}, {Kind: 'C', Name: "wd"}}
			}},
		{ID: "pipe-close-pipe", Gen: func(i int, n func(int) string) string {
			return `print "I` + I(i) + `a" | ` + n(21+i) + `; close(` + n(21+i) + `); print "I` + I(i) + `b" | ` + n(21+i)
		},
			Atoms: func(i int) []c12Atom {
				return []c12Atom{{Kind: 'X', XMode: 'o', Name: T[21+i-1], Tok: []string{"I" + I(i) + "a"}}, {Kind: 'C', Name: T[21+i-1]},
					{Kind: 'X', XMode: 'o', Name: T[21+i-1], Tok: []string{"I" + I(i) + "b"}}}
			}},
		{ID: "cmd-close-cmd", Gen: func(i int, n func(int) string) string {
			return n(24+i) + ` | getline x; close(` + n(24+i) + `); ` + n(24+i) + ` | getline y; print "U` + I(i) + `:" x y`
		},
			Atoms: func(i int) []c12Atom {
				return []c12Atom{{Kind: 'X', XMode: 'i', Name: T[24+i-1]}, {Kind: 'C', Name: T[24+i-1]},
					{Kind: 'X', XMode: 'i', Name: T[24+i-1], Tok: []string{"U" + I(i) + ":k" + I(i) + "k" + I(i)}}}
			}},
		{ID: ">/dev/stdout", Gen: func(i int, n func(int) string) string { return `print "J` + I(i) + `" > ` + n(7) },
			Atoms: func(i int) []c12Atom {
				return []c12Atom{{Kind: 'D', Name: "/dev/stdout", Tok: []string{"J" + I(i)}}}
			}},
		{ID: ">/dev/stderr", Gen: func(i int, n func(int) string) string { return `print "K` + I(i) + `" > ` + n(8) },
			Atoms: func(i int) []c12Atom {
				return []c12Atom{{Kind: 'D', Name: "/dev/stderr", ErrTok: []string{"K" + I(i)}}}
			}},
		{ID: ">-", Gen: func(i int, n func(int) string) string { return `print "Z` + I(i) + `" > ` + n(9) },
			Atoms: func(i int) []c12Atom { return []c12Atom{{Kind: 'D', Name: "-", Tok: []string{"Z" + I(i)}}} }},
		{ID: "getline-v<-", Gen: func(i int, n func(int) string) string {
			return `r = (getline x < ` + n(9) + `); print "S` + I(i) + `:" r`
		},
			Atoms: func(i int) []c12Atom {
				return []c12Atom{{Kind: 'S', Name: "-", AnyTok: []string{"S" + I(i) + ":1", "S" + I(i) + ":0"}}}
			}},
		{ID: "getline<-", Gen: func(i int, n func(int) string) string {
			return `r = (getline < ` + n(9) + `); print "T` + I(i) + `:" r; $0 = sv`
		},
			Atoms: func(i int) []c12Atom {
				return []c12Atom{{Kind: 'S', Name: "-", AnyTok: []string{"T" + I(i) + ":1", "T" + I(i) + ":0"}}}
			}},
		{ID: "operand-", Operand: "static", OpName: 9,
			Atoms: func(i int) []c12Atom { return []c12Atom{{Kind: 'S', Name: "-"}} }},
	}
}

var c12FormList = c12Forms()

func c12FormByID(id string) *c12Form {
	for i := range c12FormList {
		if c12FormList[i].ID == id {
			return &c12FormList[i]
		}
	}
	return nil
}

type c12StepID struct {
	Form string `json:"form"`
	Var  string `json:"var"`
}

type c12Case struct {
	Reuse bool        `json:"reuse,omitempty"` // observed run = second Execute on an Interpreter whose first run had the opposite restrictions
	Steps []c12StepID `json:"steps"`
	Flags int         `json:"flags"` // 1 NoExec, 2 NoFileWrites, 4 NoFileReads
	Wrap  bool        `json:"custom_openfile"`
	Src   string      `json:"src,omitempty"`  // informational
	Args  []string    `json:"args,omitempty"` // informational
}

func c12AwkStr(s string) string {
	s = strings.ReplaceAll(s, `\`, `\\`)
	s = strings.ReplaceAll(s, `"`, `\"`)
	return `"` + s + `"`
}

func c12NameExpr(variant string, k int) string {
	v := c12Table[k-1]
	h := len(v) / 2
	switch variant {
	case "const":
		return c12AwkStr(v)
	case "concat":
		return "(" + c12AwkStr(v[:h]) + " " + c12AwkStr(v[h:]) + ")"
	case "field":
		return "$" + strconv.Itoa(k)
	case "argv":
		return "ARGV[" + strconv.Itoa(4+k) + "]"
	case "func":
		return "f(" + c12AwkStr(v[:h]) + ", " + c12AwkStr(v[h:]) + ")"
	}
	panic("bad variant " + variant)
}

type c12Built struct {
	Src   string
	Args  []string
	Atoms []c12Atom
}

// c12Build lays the steps out over BEGIN (position 0), the first record of
// the main input (2) and END (4); operand files are opened between those
// (positions 1 and 3). ok=false: the sequence cannot be expressed in this order.
func c12Build(steps []c12StepID) (b c12Built, ok bool) {
	base := 0
	for _, s := range steps {
		if s.Var == "field" {
			base = 2
		}
	}
	var code [5][]string
	var slots []string
	var atoms []c12Atom
	pos := base
	hadDynamic := false
	gap1Used := false
	gap1Name := ""   // operand added at run time in BEGIN
	drained := false // BEGIN read standard input by name: the interpreter's scanner for "-" buffers all of it
	readsMain := base == 2
	actionPhase := func(p int) int {
		if p < base {
			p = base
		}
		if p == 1 || p == 3 {
			p++
		}
		return p
	}
	for si, s := range steps {
		f := c12FormByID(s.Form)
		if f == nil || (f.ConstOnly && s.Var != "const") {
			return b, false
		}
		i := si + 1
		n := func(k int) string { return c12NameExpr(s.Var, k) }
		as := f.Atoms(i)
		stepPos := 0
		switch {
		case f.Operand == "static" && s.Var == "const":
			if hadDynamic || pos > 3 {
				return b, false
			}
			g := 3
			if !gap1Used && pos <= 2 && len(code[2]) == 0 && len(code[4]) == 0 {
				g = 1
				gap1Used = true
			}
			if g == 3 && len(slots) == 0 {
				slots = append(slots, "-") // the first record comes from standard input
			}
			slots = append(slots, c12Table[f.OpName-1])
			if len(slots) > 2 {
				return b, false
			}
			pos = g
			stepPos = g
			readsMain = true
		case f.Operand == "static":
			a := actionPhase(pos)
			if a > 2 {
				return b, false
			}
			code[a] = append(code[a], "ARGV[ARGC++] = "+n(f.OpName))
			hadDynamic = true
			pos = a + 1
			if a == 0 && (len(slots) > 0 || gap1Used) {
				pos = 3 // opened when the operand already being read is exhausted
			}
			if pos == 1 {
				gap1Used = true
				gap1Name = c12Table[f.OpName-1]
			}
			stepPos = pos
			readsMain = true
		case f.Operand == "getline":
			if pos != 0 || len(slots) > 0 || hadDynamic {
				return b, false
			}
			slots = append(slots, c12Table[f.OpName-1])
			code[0] = append(code[0], f.Gen(i, n))
			stepPos = 0
		default:
			a := actionPhase(pos)
			code[a] = append(code[a], f.Gen(i, n))
			pos = a
			stepPos = a
			if a > 0 {
				readsMain = true
			}
		}
		for k := range as {
			as[k].Step = i
			as[k].Form = f.ID
			if as[k].Kind == 'S' && stepPos == 0 && len(as[k].AnyTok) > 0 {
				as[k].AnyTok = as[k].AnyTok[:1] // in BEGIN standard input is untouched: the read must succeed
				drained = true
			}
		}
		atoms = append(atoms, as...)
	}
	if drained && len(code[2]) > 0 {
		// the steps placed on the first record need a first record: not from a drained standard input
		first := gap1Name
		for _, sl := range slots {
			if sl != "" {
				first = sl
				break
			}
		}
		if first == "" || first == "-" {
			return b, false
		}
	}
	var sb strings.Builder
	sb.WriteString("function f(a, b) { return a b }\n")
	sb.WriteString("BEGIN { ARGC = 3")
	for _, c := range code[0] {
		sb.WriteString("; " + c)
	}
	sb.WriteString(" }\n")
	if readsMain {
		sb.WriteString("!o[FILENAME]++ { print \"O:\" FILENAME }\n")
	}
	if len(code[2]) > 0 {
		sb.WriteString("!d++ { sv = $0; " + strings.Join(code[2], "; ") + " }\n")
	}
	if len(code[4]) > 0 {
		sb.WriteString("END { " + strings.Join(code[4], "; ") + " }\n")
	}
	for len(slots) < 2 {
		slots = append(slots, "")
	}
	args := append([]string{}, slots...)
	args = append(args, "", "")
	args = append(args, c12Table...)
	return c12Built{Src: sb.String(), Args: args, Atoms: atoms}, true
}

// ---- model ---------------------------------------------------------------

type c12Outcome struct {
	Err        bool
	Denied     byte // class of the refused attempt
	DeniedForm string
	Tok        []string
	ErrTok     []string
	Any        [][]string
	OwnTok     []string          // lines of the refused attempt itself
	Forbidden  []string          // stdout/stderr lines that would show the run continued
	LaterFiles map[string]bool   // files named by write attempts at or after the refusal
	Files      map[string]string // directory contents afterwards
	TouchR     map[string]string // file -> evidence line: file was read
	TouchW     map[string]bool   // files written
	Starts     int
}

// c12Walk computes the expected outcome. dmask decides, for the k-th write to
// /dev/stdout, /dev/stderr or "-" under NoFileWrites, whether it is refused
// (bit set) or allowed: the statement leaves that open.
func c12Walk(atoms []c12Atom, flags int, dmask int) c12Outcome {
	o := c12Outcome{Files: map[string]string{}, TouchR: map[string]string{}, TouchW: map[string]bool{}, LaterFiles: map[string]bool{}}
	for k, v := range c12Fixture {
		o.Files[k] = v
	}
	streams := map[string]byte{}
	dIdx := 0
	deny := func(ai int, kind byte) {
		o.Err = true
		o.Denied = kind
		o.DeniedForm = atoms[ai].Form
		o.OwnTok = append(append([]string{}, atoms[ai].Tok...), atoms[ai].ErrTok...)
		earlier := map[string]bool{}
		for _, t := range o.Tok {
			earlier[t] = true
		}
		for _, t := range o.ErrTok {
			earlier[t] = true
		}
		for _, a := range atoms[ai:] {
			for _, t := range append(append(append([]string{}, a.Tok...), a.ErrTok...), a.AnyTok...) {
				if !earlier[t] { // e.g. "O:pre" of a second operand step is also the evidence of the first
					o.Forbidden = append(o.Forbidden, t)
				}
			}
			if a.Kind == 'W' {
				o.LaterFiles[a.Name] = true
			}
		}
	}
	perform := func(a c12Atom) {
		o.Tok = append(o.Tok, a.Tok...)
		o.ErrTok = append(o.ErrTok, a.ErrTok...)
		if len(a.AnyTok) > 0 {
			o.Any = append(o.Any, a.AnyTok)
		}
		if a.Touch && len(a.Tok) > 0 {
			o.TouchR[a.Name] = a.Tok[0]
		}
	}
	for ai, a := range atoms {
		switch a.Kind {
		case 'C':
			delete(streams, a.Name)
		case 'W':
			if streams[a.Name] != 'o' {
				if flags&c12NoWrites != 0 {
					deny(ai, 'W')
					return o
				}
				if !a.Append {
					o.Files[a.Name] = ""
				}
				streams[a.Name] = 'o'
			}
			o.Files[a.Name] += a.Data
			o.TouchW[a.Name] = true
		case 'R':
			if streams[a.Name] != 'i' {
				if flags&c12NoReads != 0 {
					deny(ai, 'R')
					return o
				}
				if !a.Missing {
					streams[a.Name] = 'i'
				}
			}
			perform(a)
		case 'O':
			if flags&c12NoReads != 0 {
				deny(ai, 'R')
				return o
			}
			perform(a)
		case 'X':
			if a.XMode == 's' || streams[a.Name] == 0 {
				if flags&c12NoExec != 0 {
					deny(ai, 'X')
					return o
				}
				o.Starts++
				if a.XMode != 's' {
					streams[a.Name] = a.XMode
				}
			}
			perform(a)
		case 'S':
			perform(a)
		case 'D':
			if flags&c12NoWrites != 0 {
				refused := dmask&(1<<uint(dIdx)) != 0
				dIdx++
				if refused {
					deny(ai, 'D')
					return o
				}
			}
			perform(a)
		}
	}
	return o
}

func c12Outcomes(atoms []c12Atom, flags int) []c12Outcome {
	nd := 0
	if flags&c12NoWrites != 0 {
		for _, a := range atoms {
			if a.Kind == 'D' {
				nd++
			}
		}
	}
	var outs []c12Outcome
	for m := 0; m < 1<<uint(nd); m++ {
		outs = append(outs, c12Walk(atoms, flags, m))
	}
	return outs
}

// ---- running ---------------------------------------------------------------

type c12Obs struct {
	Err    string
	HasErr bool
	Panic  string
	Out    string
	Stderr string
	Starts []string
	Raw    []vexp.OsEvent
	Wrap   []vexp.OsEvent
	Files  map[string]string
}

type c12Env struct {
	dir       string
	stdinPath string
	dirty     bool
	outF      *os.File
	errF      *os.File
	// alphabet coverage
	osSeen     map[string]bool // "interp/io.go:138:os.OpenFile" style caller lines and "func:<Name>"
	startSeen  bool
	startSites map[string]bool
}

func c12NewEnv(c *core.Ctx) *c12Env {
	base := filepath.Join(core.VerifDir, "work", "c12fs", fmt.Sprintf("s%d-%d", c.Shard, os.Getpid()))
	dir := filepath.Join(base, "cwd")
	os.RemoveAll(base)
	if err := os.MkdirAll(dir, 0o755); err != nil {
		panic(err)
	}
	if err := os.Chdir(dir); err != nil {
		panic(err)
	}
	e := &c12Env{dir: dir, stdinPath: filepath.Join(base, "stdin.txt"), dirty: true, osSeen: map[string]bool{}, startSites: map[string]bool{}}
	if err := os.WriteFile(e.stdinPath, []byte(c12Fixture["pre"]), 0o644); err != nil {
		panic(err)
	}
	var err1, err2, err3 error
	e.outF, err2 = os.Create(filepath.Join(base, "out.txt"))
	e.errF, err3 = os.Create(filepath.Join(base, "err.txt"))
	if err1 != nil || err2 != nil || err3 != nil {
		panic(fmt.Sprint(err1, err2, err3))
	}
	return e
}

func (e *c12Env) cleanup() {
	e.outF.Close()
	e.errF.Close()
	os.Chdir("/")
	os.RemoveAll(filepath.Dir(e.dir))
}

func (e *c12Env) reset() {
	if !e.dirty {
		return
	}
	ents, _ := os.ReadDir(e.dir)
	for _, en := range ents {
		os.RemoveAll(filepath.Join(e.dir, en.Name()))
	}
	for k, v := range c12Fixture {
		if err := os.WriteFile(filepath.Join(e.dir, k), []byte(v), 0o644); err != nil {
			panic(err)
		}
	}
	e.dirty = false
}

func (e *c12Env) listing() map[string]string {
	m := map[string]string{}
	ents, _ := os.ReadDir(e.dir)
	for _, en := range ents {
		if en.IsDir() {
			m[en.Name()+"/"] = "<dir>"
			continue
		}
		b, _ := os.ReadFile(filepath.Join(e.dir, en.Name()))
		m[en.Name()] = string(b)
	}
	return m
}

// interpCaller returns the innermost frames inside package interp as "interp/file.go:line".
func c12InterpFrames() []string {
	pcs := make([]uintptr, 24)
	n := runtime.Callers(3, pcs)
	fr := runtime.CallersFrames(pcs[:n])
	var out []string
	for {
		f, more := fr.Next()
		if strings.Contains(f.Function, "goawk/interp.") {
			out = append(out, "interp/"+filepath.Base(f.File)+":"+strconv.Itoa(f.Line))
		}
		if !more {
			break
		}
	}
	return out
}

func (e *c12Env) run(prog *parser.Program, b c12Built, flags int, wrap bool) c12Obs {
	return e.runReuse(prog, b, flags, wrap, false)
}

// runReuse: with reuse set, the observed run is the SECOND Execute on one
// Interpreter whose first Execute ran the same program with the opposite
// restrictions (none if this run has some, all three if this run has none):
// the flags are per run, not per Interpreter.
func (e *c12Env) runReuse(prog *parser.Program, b c12Built, flags int, wrap bool, reuse bool) c12Obs {
	e.reset()
	var ip *interp.Interpreter
	if reuse {
		var err error
		ip, err = interp.New(prog)
		if err != nil {
			panic(err)
		}
		prior := 0
		if flags == 0 {
			prior = 7
		}
		func() {
			defer func() { recover() }() // a panic here is reported by the fresh runs of the same program
			ip.Execute(&interp.Config{Stdin: strings.NewReader(c12Line), Output: io.Discard, Error: io.Discard, Args: b.Args, Vars: []string{"FS", ","}, Environ: []string{},
				NoExec: prior&c12NoExec != 0, NoFileWrites: prior&c12NoWrites != 0, NoFileReads: prior&c12NoReads != 0})
		}()
		ip.ResetVars() // variables legitimately carry over between runs; the restrictions must not
		e.dirty = true // the first run was free to write
		e.reset()
		awk.ExecHook = func(_ *parser.Program, cfg *interp.Config) (int, error) { return ip.Execute(cfg) }
		defer func() { awk.ExecHook = nil }()
	}
	var o c12Obs
	vexp.SetStartFn(func(path string, args []string) {
		o.Starts = append(o.Starts, path+" "+strings.Join(args[1:], " "))
		e.startSeen = true
		if fr := c12InterpFrames(); len(fr) > 0 {
			e.startSites[fr[0]] = true
		}
	})
	vexp.SetOsFn(func(ev vexp.OsEvent) {
		o.Raw = append(o.Raw, ev)
		e.osSeen["func:"+ev.Func] = true
		if fr := c12InterpFrames(); len(fr) > 0 {
			e.osSeen[fr[0]+":os."+ev.Func] = true
		}
	})
	defer vexp.SetStartFn(nil)
	defer vexp.SetOsFn(nil)
	// real files for input, output and error output: child processes then use the
	// descriptors directly (no copying goroutines sharing the interpreter's buffers)
	stdin, err := os.Open(e.stdinPath) // the interpreter closes its main input, even standard input
	if err != nil {
		panic(err)
	}
	defer stdin.Close()
	outF, errF := e.outF, e.errF
	for _, f := range []*os.File{outF, errF} {
		if _, err := f.Seek(0, 0); err != nil {
			panic(err)
		}
	}
	outF.Truncate(0)
	errF.Truncate(0)
	cfg := &interp.Config{
		Stdin:        stdin,
		Output:       outF,
		Error:        errF,
		Args:         b.Args,
		Vars:         []string{"FS", ","},
		NoExec:       flags&c12NoExec != 0,
		NoFileWrites: flags&c12NoWrites != 0,
		NoFileReads:  flags&c12NoReads != 0,
	}
	if wrap {
		cfg.OpenFile = func(name string, flag int, perm os.FileMode) (*os.File, error) {
			o.Wrap = append(o.Wrap, vexp.OsEvent{Func: "Config.OpenFile", Name: name, Flag: flag})
			return os.OpenFile(name, flag, perm)
		}
		cfg.ShellCommand = []string{"/bin/sh", "-c"}
	}
	res := awk.Exec(prog, cfg)
	ob, eb := c12ReadAll(outF), c12ReadAll(errF)
	o.Out, o.Stderr, o.Panic = c12SortLines(string(ob)), c12SortLines(string(eb)), res.Panic
	if res.Err != nil {
		o.HasErr = true
		o.Err = res.Err.Error()
	}
	o.Files = e.listing()
	if !c12SameFiles(o.Files, c12Fixture) {
		e.dirty = true
	}
	return o
}

func c12ReadAll(f *os.File) []byte {
	st, err := f.Stat()
	if err != nil {
		panic(err)
	}
	b := make([]byte, st.Size())
	n, _ := f.ReadAt(b, 0)
	return b[:n]
}

func c12SortLines(s string) string {
	l := strings.Split(strings.TrimSuffix(s, "\n"), "\n")
	sort.Strings(l)
	return strings.Join(l, "\n")
}

func c12SameFiles(a, b map[string]string) bool {
	if len(a) != len(b) {
		return false
	}
	for k, v := range a {
		if w, ok := b[k]; !ok || w != v {
			return false
		}
	}
	return true
}

func c12IsWriteEvent(ev vexp.OsEvent) bool {
	switch ev.Func {
	case "OpenFile", "Config.OpenFile":
		return ev.Flag&(os.O_WRONLY|os.O_RDWR|os.O_CREATE|os.O_TRUNC|os.O_APPEND) != 0
	case "Open", "ReadFile":
		return false
	}
	return true // Create, WriteFile, Remove, Rename, Mkdir, MkdirAll
}

func c12IsReadEvent(ev vexp.OsEvent) bool {
	switch ev.Func {
	case "OpenFile", "Config.OpenFile":
		return ev.Flag&os.O_WRONLY == 0
	case "Open", "ReadFile":
		return true
	}
	return false
}

func c12Lines(s string) map[string]bool {
	m := map[string]bool{}
	for _, l := range strings.Split(s, "\n") {
		m[l] = true
	}
	return m
}

func c12FlagNames(flags int) string {
	var p []string
	if flags&c12NoExec != 0 {
		p = append(p, "NoExec")
	}
	if flags&c12NoWrites != 0 {
		p = append(p, "NoFileWrites")
	}
	if flags&c12NoReads != 0 {
		p = append(p, "NoFileReads")
	}
	if len(p) == 0 {
		return "none"
	}
	return strings.Join(p, "+")
}

func c12FmtEvents(evs []vexp.OsEvent) string {
	var p []string
	for _, ev := range evs {
		p = append(p, fmt.Sprintf("%s(%q,%#x)", ev.Func, ev.Name, ev.Flag))
	}
	return "[" + strings.Join(p, " ") + "]"
}

func c12FmtFiles(m map[string]string) string {
	var names []string
	for n := range m {
		names = append(names, n)
	}
	sort.Strings(names)
	var p []string
	for _, n := range names {
		if n == "pre" && m[n] == c12Fixture["pre"] {
			p = append(p, "pre=<fixture>")
			continue
		}
		p = append(p, fmt.Sprintf("%s=%q", n, m[n]))
	}
	return strings.Join(p, " ")
}

func (o c12Obs) String() string {
	return fmt.Sprintf("err=%q starts=%q raw=%s wrapper=%s stdout=%q stderr=%q files: %s", o.Err, o.Starts, c12FmtEvents(o.Raw), c12FmtEvents(o.Wrap),
		strings.ReplaceAll(o.Out, c12Line, "<table>"), trunc(o.Stderr, 200), c12FmtFiles(o.Files))
}

// formOf attributes a file event to the form of the step that names the file
// (kinds: the atom kinds that can cause such an event).
func c12FormOf(atoms []c12Atom, name string, kinds string) string {
	base := filepath.Base(name)
	for pass := 0; pass < 2; pass++ {
		for _, a := range atoms {
			if a.Kind == 'C' || (pass == 0 && !strings.ContainsRune(kinds, rune(a.Kind))) {
				continue
			}
			if a.Name == name || a.Name == base {
				return a.Form
			}
		}
	}
	return "?"
}

// c12Judge applies the oracle to one observed run. It returns the soft
// problems (allowed effects that could not be confirmed).
func c12Judge(c *core.Ctx, cs c12Case, b c12Built, o c12Obs) []string {
	cs.Src, cs.Args = b.Src, nil
	desc := func() string {
		return "flags=" + c12FlagNames(cs.Flags) + " program: " + strings.ReplaceAll(b.Src, "\n", " ¶ ") + " => " + o.String()
	}
	if o.Panic != "" {
		c.Fail("panic", cs, firstLine(o.Panic))
		return nil
	}
	failed := false
	all := append(append([]vexp.OsEvent{}, o.Raw...), o.Wrap...)
	// invariants that need no model
	if cs.Flags&c12NoExec != 0 && len(o.Starts) > 0 {
		cmd := o.Starts[0]
		form := "?"
		for _, a := range b.Atoms {
			if a.Kind == 'X' && strings.HasSuffix(cmd, a.Name) {
				form = a.Form
				break
			}
		}
		c.Fail("process-started-under-NoExec form="+form, cs, desc())
		failed = true
	}
	if cs.Flags&c12NoWrites != 0 {
		for _, ev := range all {
			if c12IsWriteEvent(ev) {
				c.Fail("file-opened-for-writing-under-NoFileWrites form="+c12FormOf(b.Atoms, ev.Name, "WD"), cs, desc())
				failed = true
				break
			}
		}
		if !failed && !c12SameFiles(o.Files, c12Fixture) {
			c.Fail("directory-changed-under-NoFileWrites", cs, desc())
			failed = true
		}
	}
	if cs.Flags&c12NoReads != 0 {
		for _, ev := range all {
			if c12IsReadEvent(ev) {
				c.Fail("file-opened-for-reading-under-NoFileReads form="+c12FormOf(b.Atoms, ev.Name, "ROS"), cs, desc())
				failed = true
				break
			}
		}
	}
	if cs.Wrap && len(o.Raw) > 0 {
		kinds := "ROS"
		if c12IsWriteEvent(o.Raw[0]) {
			kinds = "WD"
		}
		c.Fail("raw-os-call-bypasses-Config.OpenFile form="+c12FormOf(b.Atoms, o.Raw[0].Name, kinds), cs, desc())
		failed = true
	}
	if failed {
		return nil
	}
	// model
	outs := c12Outcomes(b.Atoms, cs.Flags)
	var cands []c12Outcome
	outLines, errLines := c12Lines(o.Out), c12Lines(o.Stderr)
	for _, m := range outs {
		if m.Err != o.HasErr {
			continue
		}
		if m.Denied == 'D' && len(m.OwnTok) > 0 {
			// "the write to /dev/stdout-style name was refused" does not apply if its line was written
			written := true
			for _, t := range m.OwnTok {
				written = written && (outLines[t] || errLines[t])
			}
			if written {
				continue
			}
		}
		cands = append(cands, m)
	}
	if len(cands) == 0 {
		if !o.HasErr {
			m := outs[0]
			c.Fail(fmt.Sprintf("denied-attempt-did-not-end-run-with-error class=%c form=%s", m.Denied, m.DeniedForm), cs, desc())
			return nil
		}
		// an attempt the flags allow was refused: find the first step whose evidence is missing
		m := outs[0]
		form := "?"
		for _, a := range b.Atoms {
			miss := false
			for _, t := range a.Tok {
				if !outLines[t] {
					miss = true
				}
			}
			for _, t := range a.ErrTok {
				if !errLines[t] {
					miss = true
				}
			}
			if len(a.AnyTok) > 0 {
				any := false
				for _, t := range a.AnyTok {
					any = any || outLines[t]
				}
				miss = miss || !any
			}
			if a.Kind == 'W' && o.Files[a.Name] != m.Files[a.Name] {
				miss = true
			}
			if miss {
				form = a.Form
				break
			}
		}
		c.Fail("allowed-attempt-refused form="+form, cs, desc())
		return nil
	}
	type verdict struct {
		hard, soft []string
	}
	var best *verdict
	for _, m := range cands {
		v := &verdict{}
		for _, t := range m.Tok {
			if !outLines[t] {
				v.soft = append(v.soft, "stdout line "+t+" missing")
			}
		}
		for _, t := range m.ErrTok {
			if !errLines[t] {
				v.soft = append(v.soft, "stderr line "+t+" missing")
			}
		}
		for _, alts := range m.Any {
			any := false
			for _, t := range alts {
				any = any || outLines[t]
			}
			if !any {
				v.soft = append(v.soft, "stdout line "+alts[0]+" missing")
			}
		}
		for _, t := range m.Forbidden {
			if outLines[t] || errLines[t] {
				v.hard = append(v.hard, fmt.Sprintf("continued-after-refused-attempt class=%c form=%s", m.Denied, m.DeniedForm))
				break
			}
		}
		names := map[string]bool{}
		for n := range o.Files {
			names[n] = true
		}
		for n := range m.Files {
			names[n] = true
		}
		for n := range names {
			got, gok := o.Files[n]
			want, wok := m.Files[n]
			if gok == wok && got == want {
				continue
			}
			if m.Err && m.LaterFiles[n] {
				v.hard = append(v.hard, fmt.Sprintf("continued-after-refused-attempt class=%c form=%s", m.Denied, m.DeniedForm))
			} else {
				v.soft = append(v.soft, fmt.Sprintf("file %s: got %q want %q", n, got, want))
			}
		}
		// every file the program touched went through the recorded open path
		opened := func(name string, write bool) bool {
			for _, ev := range all {
				if filepath.Base(ev.Name) == name && ((write && c12IsWriteEvent(ev)) || (!write && c12IsReadEvent(ev))) {
					return true
				}
			}
			return false
		}
		for n, tok := range m.TouchR {
			if outLines[tok] && !opened(n, false) {
				if cs.Wrap {
					v.hard = append(v.hard, "file-read-not-opened-through-Config.OpenFile form="+c12FormOf(b.Atoms, n, "RO"))
				} else {
					v.soft = append(v.soft, "read of "+n+" not recorded by the os hook")
				}
			}
		}
		for n := range o.Files {
			if o.Files[n] != c12Fixture[n] || !c12Has(c12Fixture, n) {
				if !opened(n, true) {
					if cs.Wrap {
						v.hard = append(v.hard, "file-written-not-opened-through-Config.OpenFile form="+c12FormOf(b.Atoms, n, "W"))
					} else {
						v.soft = append(v.soft, "write of "+n+" not recorded by the os hook")
					}
				}
			}
		}
		if len(o.Starts) < m.Starts {
			v.soft = append(v.soft, fmt.Sprintf("%d process starts recorded, %d expected", len(o.Starts), m.Starts))
		}
		if best == nil || len(v.hard) < len(best.hard) || (len(v.hard) == len(best.hard) && len(v.soft) < len(best.soft)) {
			best = v
		}
	}
	if len(best.hard) > 0 {
		c.Fail(best.hard[0], cs, desc())
		return nil
	}
	return best.soft
}

func c12Has(m map[string]string, k string) bool { _, ok := m[k]; return ok }

func c12OutcomeKey(cs c12Case, o c12Obs) string {
	return fmt.Sprintf("%d|%v|%v|%d|%s|%s|%s|%s", cs.Flags, cs.Wrap, o.HasErr, len(o.Starts), c12FmtEvents(o.Raw), c12FmtEvents(o.Wrap), o.Out, c12FmtFiles(o.Files))
}

// c12Program runs one program under all (or the given) configurations.
func c12Program(c *core.Ctx, e *c12Env, steps []c12StepID, only *c12Case, count bool) bool {
	b, ok := c12Build(steps)
	if !ok {
		return false
	}
	prog := awk.MustParse(b.Src, nil)
	for flags := 0; flags < 8; flags++ {
		for w := 0; w < 2; w++ {
			cs := c12Case{Steps: steps, Flags: flags, Wrap: w == 1}
			if only != nil && (only.Flags != flags || only.Wrap != cs.Wrap) {
				continue
			}
			o := e.run(prog, b, flags, cs.Wrap)
			if !count {
				continue
			}
			c.Eval(1)
			c.Add("transitions", 1)
			c.Outcome(c12OutcomeKey(cs, o))
			soft := c12Judge(c, cs, b, o)
			if len(soft) > 0 {
				c.Add("allowed_effects_unconfirmed", 1)
				c.Cap("allowed effect not observed (evidence incomplete)")
				c.Note("unconfirmed_example", fmt.Sprintf("flags=%s wrap=%v %s :: %s :: %s", c12FlagNames(flags), cs.Wrap, strings.ReplaceAll(b.Src, "\n", " ¶ "), strings.Join(soft, "; "), o.String()))
			}
			if o.HasErr {
				c.Add("runs_ended_by_refusal", 1)
			}
			// the same case as the second run of a reused Interpreter (single-step programs)
			if len(steps) == 1 && !cs.Wrap {
				rcs := cs
				rcs.Reuse = true
				if only == nil || only.Reuse {
					ro := e.runReuse(prog, b, flags, false, true)
					c.Eval(2)
					c.Add("transitions", 1)
					c.Add("reused_interpreter_runs", 1)
					c.Outcome(c12OutcomeKey(rcs, ro))
					c12Judge(c, rcs, b, ro)
				}
			}
		}
	}
	return true
}

func c12AllSteps() []c12StepID {
	var out []c12StepID
	variants := c12Variants
	if dv := os.Getenv("C12_DEV_VARIANTS"); dv != "" { // development only: the run is marked non-exhaustive
		variants = strings.Split(dv, ",")
	}
	for _, v := range variants {
		for _, f := range c12FormList {
			if f.ConstOnly && v != "const" {
				continue
			}
			out = append(out, c12StepID{f.ID, v})
		}
	}
	return out
}

func c12Run(c *core.Ctx) {
	c12bRun(c) // part 2: path spellings (c12b.go)
	c12cRun(c) // part 3: NoArgVars x operands shaped like var=value (c12b.go)
	e := c12NewEnv(c)
	defer e.cleanup()
	steps := c12AllSteps()
	if os.Getenv("C12_DEV_VARIANTS") != "" {
		c.Cap("development restriction C12_DEV_VARIANTS")
	}
	// coverage pass, identical in every worker: each single form with nothing denied (not counted)
	for _, s := range steps {
		b, ok := c12Build([]c12StepID{s})
		if !ok {
			continue
		}
		prog := awk.MustParse(b.Src, nil)
		e.run(prog, b, 0, false)
		e.run(prog, b, 0, true)
	}
	c12AlphabetGuard(c, e)

	nsample := 0
	one := func(seq []c12StepID) {
		if c.Expired() {
			return
		}
		if !c.Mine() {
			return
		}
		if !c12Program(c, e, seq, nil, true) {
			c.Add("sequences_not_expressible", 1)
			return
		}
		c.Add("states", 1)
		if nsample < 3 && len(seq) == 2 && seq[0].Var != seq[1].Var {
			b, _ := c12Build(seq)
			c.Sample(map[string]any{"steps": seq, "src": b.Src, "args_operands": b.Args[:2]})
			nsample++
		}
	}
	for _, s := range steps {
		one([]c12StepID{s})
	}
	// pairs, simplest first: blocks ordered by the most elaborate name computation used
	vidx := map[string]int{}
	for i, v := range c12Variants {
		vidx[v] = i
	}
	for level := 0; level < len(c12Variants); level++ {
		for _, s1 := range steps {
			for _, s2 := range steps {
				l := vidx[s1.Var]
				if vidx[s2.Var] > l {
					l = vidx[s2.Var]
				}
				if l == level {
					one([]c12StepID{s1, s2})
				}
			}
		}
	}
	if c.Thorough() {
		// sequences of three forms, names constant
		var cst []c12StepID
		for _, s := range steps {
			if s.Var == "const" {
				cst = append(cst, s)
			}
		}
		for _, s1 := range cst {
			for _, s2 := range cst {
				for _, s3 := range cst {
					one([]c12StepID{s1, s2, s3})
				}
			}
		}
	}
}

// c12AlphabetGuard: every syntactic reference in package interp to a
// file-opening function of os (listed by mkoverlay) and the process start path
// must have been executed during the exploration.
func c12AlphabetGuard(c *core.Ctx, e *c12Env) {
	var meta struct {
		OsSites []string `json:"os_sites"`
	}
	data, err := os.ReadFile(filepath.Join(core.VerifDir, "work", "overlay_meta.json"))
	if err != nil || json.Unmarshal(data, &meta) != nil {
		c.Note("alphabet_guard", "overlay_meta.json unreadable")
		c.Cap("alphabet gap")
		return
	}
	var gaps []string
	// direct call sites: the interp frame calling the redirected function is the site itself
	unmatched := map[string][]string{} // func -> sites not executed as direct calls
	for _, site := range meta.OsSites {
		if !e.osSeen[site] {
			fn := site[strings.LastIndex(site, ":os.")+4:]
			unmatched[fn] = append(unmatched[fn], site)
		}
	}
	for fn, sites := range unmatched {
		// a reference stored as a function value (the default opener) is executed through
		// another call site: an event of that function whose caller is not itself a listed site
		indirect := false
		for k := range e.osSeen {
			if strings.HasSuffix(k, ":os."+fn) {
				listed := false
				for _, s := range meta.OsSites {
					listed = listed || s == k
				}
				indirect = indirect || !listed
			}
		}
		if indirect && len(sites) == 1 {
			continue
		}
		gaps = append(gaps, sites...)
	}
	if !e.startSeen {
		gaps = append(gaps, "interp:exec.Cmd.Start")
	}
	sort.Strings(gaps)
	var ss []string
	for s := range e.startSites {
		ss = append(ss, s)
	}
	sort.Strings(ss)
	c.Note("os_sites", strings.Join(meta.OsSites, " "))
	c.Note("exec_start_callers_executed", strings.Join(ss, " "))
	if len(gaps) == 0 {
		c.Note("alphabet_guard", fmt.Sprintf("all %d os sites and the process start path executed", len(meta.OsSites)))
		return
	}
	c.Note("alphabet_guard", "ALPHABET-GAP "+strings.Join(gaps, " "))
	c.Cap("alphabet gap")
	if c.Shard == 0 {
		for _, g := range gaps {
			c12Say("ALPHABET-GAP site=" + g + " (never executed during the exploration: the I/O forms enumerated do not reach it)\n")
		}
	}
}

// c12Say prints a line on the driver's standard output (workers' own output
// goes to a scratch file that is shown only on harness errors).
func c12Say(line string) {
	fmt.Fprint(os.Stderr, line)
	p := fmt.Sprintf("/proc/%d/fd/1", os.Getppid())
	st, err := os.Stat(p)
	if err != nil || st.Mode().IsRegular() {
		return
	}
	if f, err := os.OpenFile(p, os.O_WRONLY|os.O_APPEND, 0); err == nil {
		f.WriteString(line)
		f.Close()
	}
}

func c12Replay(c *core.Ctx, raw json.RawMessage) {
	if c12bReplay(c, raw) {
		return
	}
	var cs c12Case
	if err := json.Unmarshal(raw, &cs); err != nil {
		panic(err)
	}
	e := c12NewEnv(c)
	defer e.cleanup()
	c12Program(c, e, cs.Steps, &cs, true)
}

func init() {
	core.Register(&core.Check{
		ID:    "C12",
		Level: "model_checking",
		Rule: "complete enumeration of programs = every sequence of <=2 I/O steps (thorough: plus every sequence of 3 with constant names) over 25 forms " +
			"(print > n, print >> n, printf > n, print | c, c | getline, c | getline v, system(c), getline < n, getline v < n, the same two on a missing file, operand file, operand read by plain getline / getline v in BEGIN, " +
			"write/close/write, read/close/read, write/close/read, pipe/close/pipe, cmd/close/cmd, > /dev/stdout, > /dev/stderr, > \"-\", getline < \"-\", getline v < \"-\", operand \"-\") " +
			"x 5 ways of computing the name (constant, concatenation, input field, ARGV element, user function; operands: Config.Args or ARGV[ARGC++]=name at run time) " +
			"x 8 flag combinations x Config.OpenFile {nil, recording wrapper}; steps are laid out over BEGIN / first record / END so that they happen in sequence order; " +
			"a state is one program, a transition one execution on the real interpreter in a scratch directory with real child processes; " +
			"observed per transition: process starts (exec shim), raw os file calls of package interp (redirected os functions), wrapper calls, directory contents after vs fixture, error result, evidence lines; " +
			"part 2: every file-touching form x 10 spellings of one target x flags x OpenFile; part 3: NoArgVars on/off x operands shaped like var=value (5 operand lists, main loop / getline loop / both) x flags x OpenFile: with NoArgVars such an operand is a file (refused under NoFileReads, read otherwise), without it an assignment (never opened); every single-step case also as the second Execute of a reused Interpreter; " +
			"distinct = distinct observation tuples",
		Assumptions: []string{
			"package interp reaches the file system only through the os functions redirected by the overlay (OpenFile Open Create ReadFile WriteFile Remove Rename Mkdir MkdirAll) and processes only through os/exec; the ALPHABET-GAP guard reports listed sites never executed",
			"writing to /dev/stdout, /dev/stderr or \"-\" touches no file: under NoFileWrites both 'refused with an error' and 'allowed' are accepted (today the first two are refused, \"-\" is allowed)",
			"an attempt the flags do not deny must not be refused (allowed effects are a function of the flags only); its expected output/file content is checked as evidence that the path ran — a missing effect makes the run non-exhaustive (cap), it is not a violation of this property",
			"an open attempt on a nonexistent file counts as opening a file for reading (under NoFileReads it must be refused with an error, not answered with -1)",
			"sequences that cannot be ordered as written (a Config.Args operand after a run-time operand, an operand step needed after END, steps on the first record of a standard input already drained by getline < \"-\" in BEGIN) are counted as sequences_not_expressible and skipped",
			"child processes are /bin/sh -c with builtin-only commands (echo, read)",
		},
		Run:            c12Run,
		Replay:         c12Replay,
		QuickBudget:    900,
		ThoroughBudget: 5400,
	})
}

package checks

import (
	"bytes"
	"crypto/sha256"
	"encoding/csv"
	"encoding/json"
	"fmt"
	"os"
	"regexp"
	"strconv"
	"strings"
	"unicode/utf8"

	"github.com/benhoyt/goawk/interp"
	"github.com/benhoyt/goawk/parser"

	"verifharness/awk"
	"verifharness/core"
)

// C06 — $0, the fields and NF stay mutually consistent under every update
// (shape X: explicit-state search over histories of record operations).
//
// Part 1: a small executable model of the record (c06Model, written from the
// property statement; it does NOT share code with goawk or refawk) is driven
// through every history of operations; each history is rendered as one AWK
// program, run from scratch on the real interpreter, and the stream of
// observations delivered through a native Go function must equal the model's.
// Part 2: the FS splitting rules on all short strings.

// ---------------------------------------------------------------- alphabet

// index expressions usable in $(...)
var c06IdxSrc = []string{"0", "1", "2", "NF", "NF+1", "NF+2", "-1", "-NF", "-NF-1", "1e6+1"}

func c06IdxEval(k, nf int) int {
	switch k {
	case 0, 1, 2:
		return k
	case 3:
		return nf
	case 4:
		return nf + 1
	case 5:
		return nf + 2
	case 6:
		return -1
	case 7:
		return -nf
	case 8:
		return -nf - 1
	}
	return 1000001
}

func c06IdxUsesNF(k int) bool { return k == 3 || k == 4 || k == 5 || k == 7 || k == 8 }

var c06NFSrc = []string{"0", "1", "NF-1", "NF", "NF+2"}

func c06NFEval(k, nf int) int {
	switch k {
	case 0:
		return 0
	case 1:
		return 1
	case 2:
		return nf - 1
	case 3:
		return nf
	}
	return nf + 2
}

var c06ValSrc = []string{`""`, `"x"`, `"a b"`, `7`, `2.5`}
var c06ValStr = []string{"", "x", "a b", "7", "2.5"}
var c06RecVals = []string{"", "p q r", " lead", "a,b"}
var c06FSVals = []string{" ", ",", "ab", "[0-9]+", "x*", "\t"}
var c06OFSVals = []string{"-", ""}

// initial records x separators
var c06Recs = []string{"a b c", "  lead  and trail\t ", "a,b,,c", "1ab2abab3", "", `x "q,r" 7x2.5`}

// records that follow the first one on the main input (for getline)
var c06Follow = []string{"g1 g2,g3", "5x6ab7"}

// lines of the fixture file read by getline < file (relative name: the check
// runs in a scratch directory)
var c06FileLines = []string{"f1 f2,f3", "7x8"}

const c06FileName = "c06in.txt"

// c06Op is one operation of a history. K: kind, I: index-expression number
// (or table index for nf/rec/fs/ofs), V: value number.
type c06Op struct {
	K string `json:"k"`
	I int    `json:"i"`
	V int    `json:"v"`
}

func c06Quote(s string) string {
	var b strings.Builder
	b.WriteByte('"')
	for i := 0; i < len(s); i++ {
		switch s[i] {
		case '"':
			b.WriteString(`\"`)
		case '\\':
			b.WriteString(`\\`)
		case '\t':
			b.WriteString(`\t`)
		case '\n':
			b.WriteString(`\n`)
		default:
			b.WriteByte(s[i])
		}
	}
	b.WriteByte('"')
	return b.String()
}

// c06Src renders the operation as an AWK statement. Values returned by the
// operation are handed to the native function o(tag, value): tag -2 = value
// read, tag -3 = return value of sub/gsub/getline.
func c06Src(op c06Op) string {
	ix := ""
	if op.I >= 0 && op.I < len(c06IdxSrc) {
		ix = "$(" + c06IdxSrc[op.I] + ")"
	}
	switch op.K {
	case "rd":
		return "o(-2, " + ix + ")"
	case "rdnf":
		return "o(-2, NF)"
	case "as":
		return ix + " = " + c06ValSrc[op.V]
	case "nf":
		return "NF = " + c06NFSrc[op.I]
	case "rec":
		return "$0 = " + c06Quote(c06RecVals[op.I])
	case "fs":
		return "FS = " + c06Quote(c06FSVals[op.I])
	case "ofs":
		return "OFS = " + c06Quote(c06OFSVals[op.I])
	case "csv":
		return `OUTPUTMODE = "csv"`
	case "nocsv":
		return `OUTPUTMODE = ""`
	case "sub":
		return `o(-3, sub(/a/, "z", ` + ix + `))`
	case "gsub":
		return `o(-3, gsub(/a/, "zz", ` + ix + `))`
	case "ghat":
		return `o(-3, gsub(/^/, "-", ` + ix + `))`
	case "inc":
		return ix + "++"
	case "add":
		return ix + " += 1"
	case "gl":
		return "o(-3, (getline))"
	case "glv":
		return "o(-3, (getline v))"
	case "glf":
		return "o(-3, (getline " + ix + "))"
	case "glr":
		return `o(-3, (getline < "` + c06FileName + `"))`
	case "glrf":
		return "o(-3, (getline " + ix + ` < "` + c06FileName + `"))`
	}
	panic("c06: unknown op " + op.K)
}

// c06Class is the value-independent class of an operation (for signatures).
func c06Class(op c06Op) string {
	switch op.K {
	case "rd", "as", "sub", "gsub", "ghat", "inc", "add", "glf", "glrf":
		return op.K + "[$(" + c06IdxSrc[op.I] + ")]"
	case "nf":
		return "nf[" + c06NFSrc[op.I] + "]"
	case "fs":
		return "fs[" + c06FSVals[op.I] + "]"
	case "ofs":
		return "ofs[" + c06OFSVals[op.I] + "]"
	}
	return op.K
}

func c06Alphabet(full bool) []c06Op {
	var ops []c06Op
	add := func(k string, i, v int) { ops = append(ops, c06Op{k, i, v}) }
	if full {
		for i := range c06IdxSrc {
			add("rd", i, 0)
		}
		add("rdnf", 0, 0)
		for i := range c06IdxSrc {
			for v := range c06ValSrc {
				add("as", i, v)
			}
		}
		for i := range c06NFSrc {
			add("nf", i, 0)
		}
		for i := range c06RecVals {
			add("rec", i, 0)
		}
		for i := range c06FSVals {
			add("fs", i, 0)
		}
		for i := range c06OFSVals {
			add("ofs", i, 0)
		}
		add("csv", 0, 0)
		add("nocsv", 0, 0)
		for _, i := range []int{0, 1, 3, 4} {
			add("sub", i, 0)
		}
		for _, i := range []int{0, 1, 6} {
			add("gsub", i, 0)
		}
		for _, i := range []int{0, 1, 5, 8} {
			add("ghat", i, 0)
		}
		for _, i := range []int{0, 1, 3, 5, 6} {
			add("inc", i, 0)
		}
		for _, i := range []int{1, 4, 7, 9} {
			add("add", i, 0)
		}
		add("gl", 0, 0)
		add("glv", 0, 0)
		add("glf", 2, 0)
		add("glf", 5, 0)
		add("glr", 0, 0)
		add("glrf", 2, 0)
		add("glrf", 6, 0)
		return ops
	}
	// quick tier: reduced alphabet (every kind of operation is kept; fewer
	// index expressions / values per kind)
	for _, i := range []int{0, 1, 4, 6, 8, 9} {
		add("rd", i, 0)
	}
	add("rdnf", 0, 0)
	for _, iv := range [][2]int{{1, 0}, {1, 2}, {3, 1}, {3, 3}, {5, 1}, {5, 0}, {6, 2}, {7, 4}, {8, 1}, {0, 2}, {2, 3}, {9, 1}} {
		add("as", iv[0], iv[1])
	}
	for _, i := range []int{0, 2, 3, 4} {
		add("nf", i, 0)
	}
	for _, i := range []int{0, 2, 3} {
		add("rec", i, 0)
	}
	for _, i := range []int{0, 1, 4} {
		add("fs", i, 0)
	}
	add("ofs", 0, 0)
	add("csv", 0, 0)
	add("nocsv", 0, 0)
	add("sub", 1, 0)
	add("gsub", 0, 0)
	add("ghat", 5, 0)
	add("inc", 6, 0)
	add("add", 4, 0)
	add("gl", 0, 0)
	add("glv", 0, 0)
	add("glf", 2, 0)
	add("glrf", 2, 0)
	return ops
}

// ---------------------------------------------------------------- the model

// c06Model is the record as the property statement describes it. The split
// is done eagerly with the FS in force when the record text was set; touched
// and recFS are ghost state (they do not influence the model's behaviour, only
// the de-duplication key: the implementation splits lazily).
type c06Model struct {
	rec     string
	fields  []string
	recFS   string
	touched bool
	fs, ofs string
	csv     bool
	in      int // following input records consumed
	fin     int // lines of the fixture file consumed
}

func c06IsBlank(c byte) bool { return c == ' ' || c == '\t' || c == '\n' }

var c06ReCache = map[string]*regexp.Regexp{}

func c06Regex(fs string) *regexp.Regexp {
	re := c06ReCache[fs]
	if re == nil {
		re = regexp.MustCompile(fs)
		re.Longest()
		c06ReCache[fs] = re
	}
	return re
}

// c06Split: the FS rules of the statement.
func c06Split(rec, fs string) []string {
	var out []string
	if fs == " " {
		i := 0
		for i < len(rec) {
			for i < len(rec) && c06IsBlank(rec[i]) {
				i++
			}
			j := i
			for j < len(rec) && !c06IsBlank(rec[j]) {
				j++
			}
			if j > i {
				out = append(out, rec[i:j])
			}
			i = j
		}
		return out
	}
	if rec == "" {
		return nil
	}
	if utf8.RuneCountInString(fs) == 1 {
		// literal
		prev := 0
		for i := 0; i+len(fs) <= len(rec); {
			if rec[i:i+len(fs)] == fs {
				out = append(out, rec[prev:i])
				i += len(fs)
				prev = i
			} else {
				i++
			}
		}
		return append(out, rec[prev:])
	}
	// regular expression: leftmost non-empty match, longest at that start
	re := c06Regex(fs)
	prev, pos := 0, 0
	for pos <= len(rec) {
		loc := re.FindStringIndex(rec[pos:])
		if loc == nil {
			break
		}
		s, e := pos+loc[0], pos+loc[1]
		if s == e {
			// empty match: ignored; look for a match starting further right
			_, w := utf8.DecodeRuneInString(rec[s:])
			if w == 0 {
				break
			}
			pos = s + w
			continue
		}
		out = append(out, rec[prev:s])
		prev, pos = e, e
	}
	return append(out, rec[prev:])
}

func c06CSVJoin(fields []string) string {
	if len(fields) == 1 && fields[0] == "" {
		// a single empty field must be written quoted to read back as a record
		// (the round trip of C08); encoding/csv alone would write an empty line
		return `""`
	}
	var b bytes.Buffer
	w := csv.NewWriter(&b)
	w.Write(fields)
	w.Flush()
	return strings.TrimSuffix(b.String(), "\n")
}

func (m *c06Model) join() string {
	if m.csv {
		return c06CSVJoin(m.fields)
	}
	return strings.Join(m.fields, m.ofs)
}

func (m *c06Model) setRec(t string) {
	m.rec = t
	m.fields = c06Split(t, m.fs)
	m.recFS = m.fs
	m.touched = false
}

func (m *c06Model) clone() c06Model {
	n := *m
	n.fields = append([]string(nil), m.fields...)
	return n
}

// get: value of $(i); any = not prescribed by the statement.
func (m *c06Model) get(i int) (val string, any bool) {
	if i == 0 {
		return m.rec, false
	}
	m.touched = true
	if i < 0 {
		i = len(m.fields) + 1 + i
		if i < 1 {
			return "", true
		}
	}
	if i > len(m.fields) {
		return "", false
	}
	return m.fields[i-1], false
}

// set: $(i) = v; mayErr = "error or no-op" (not prescribed).
func (m *c06Model) set(i int, v string) (mayErr bool) {
	if i == 0 {
		m.setRec(v)
		return false
	}
	m.touched = true
	if i < 0 {
		i = len(m.fields) + 1 + i
		if i < 1 {
			return true
		}
	}
	if i > 1000000 {
		return true
	}
	for len(m.fields) < i {
		m.fields = append(m.fields, "")
	}
	m.fields[i-1] = v
	m.rec = m.join()
	return false
}

// c06Num: numeric value of a string (leading numeric prefix); ok=false when
// the string is of a form whose numeric value awks disagree on (hex, inf,
// nan, exponent) — such histories are not generated.
func c06Num(s string) (float64, bool) {
	i := 0
	for i < len(s) && (c06IsBlank(s[i]) || s[i] == '\r' || s[i] == '\v' || s[i] == '\f') {
		i++
	}
	start := i
	if i < len(s) && (s[i] == '+' || s[i] == '-') {
		i++
	}
	rest := strings.ToLower(s[i:])
	if strings.HasPrefix(rest, "0x") || strings.HasPrefix(rest, "nan") || strings.HasPrefix(rest, "inf") {
		return 0, false
	}
	digits := false
	for i < len(s) && s[i] >= '0' && s[i] <= '9' {
		i++
		digits = true
	}
	if i < len(s) && s[i] == '.' {
		i++
		for i < len(s) && s[i] >= '0' && s[i] <= '9' {
			i++
			digits = true
		}
	}
	if !digits {
		return 0, true
	}
	if i < len(s) && (s[i] == 'e' || s[i] == 'E') {
		return 0, false
	}
	f, err := strconv.ParseFloat(strings.TrimSuffix(s[start:i], "."), 64)
	if err != nil {
		return 0, false
	}
	return f, true
}

func c06NumStr(f float64) string {
	if f == float64(int64(f)) {
		return strconv.FormatInt(int64(f), 10)
	}
	return strconv.FormatFloat(f, 'g', 6, 64)
}

// c06Ev is one expected observation.
type c06Ev struct {
	Tag  int
	Val  string
	Any  bool
	Step int
	Pass int
}

// apply performs op on the model. evs: the observations the statement itself
// delivers; mayErr: the implementation may instead stop with an error here;
// ok=false: the history is outside the alphabet (pruned).
func (m *c06Model) apply(op c06Op) (evs []c06Ev, mayErr bool, ok bool) {
	nf := len(m.fields)
	idx := 0
	switch op.K {
	case "rd", "as", "sub", "gsub", "ghat", "inc", "add", "glf", "glrf":
		if c06IdxUsesNF(op.I) {
			m.touched = true
		}
		idx = c06IdxEval(op.I, nf)
	}
	ok = true
	switch op.K {
	case "rd":
		v, any := m.get(idx)
		evs = append(evs, c06Ev{Tag: -2, Val: v, Any: any})
	case "rdnf":
		m.touched = true
		evs = append(evs, c06Ev{Tag: -2, Val: strconv.Itoa(nf)})
	case "as":
		mayErr = m.set(idx, c06ValStr[op.V])
	case "nf":
		m.touched = true
		n := c06NFEval(op.I, nf)
		if n < 0 {
			return nil, true, true
		}
		if n < len(m.fields) {
			m.fields = m.fields[:n]
		}
		for len(m.fields) < n {
			m.fields = append(m.fields, "")
		}
		m.rec = m.join()
	case "rec":
		m.setRec(c06RecVals[op.I])
	case "fs":
		m.fs = c06FSVals[op.I]
	case "ofs":
		m.ofs = c06OFSVals[op.I]
	case "csv":
		m.csv = true
	case "nocsv":
		m.csv = false
	case "sub", "gsub", "ghat":
		old, any := m.get(idx)
		if any {
			// target before the first field: the value read is not prescribed
			// and the assignment is "error or no-op"
			return []c06Ev{{Tag: -3, Any: true}}, true, true
		}
		var nw string
		n := 0
		switch op.K {
		case "sub":
			if strings.Contains(old, "a") {
				n = 1
			}
			nw = strings.Replace(old, "a", "z", 1)
		case "gsub":
			n = strings.Count(old, "a")
			nw = strings.ReplaceAll(old, "a", "zz")
		default:
			n = 1
			nw = "-" + old
		}
		if n > 0 {
			mayErr = m.set(idx, nw)
		}
		evs = append(evs, c06Ev{Tag: -3, Val: strconv.Itoa(n)})
	case "inc", "add":
		old, _ := m.get(idx)
		f, numOK := c06Num(old)
		if !numOK {
			return nil, false, false
		}
		mayErr = m.set(idx, c06NumStr(f+1))
	case "gl":
		if m.in < len(c06Follow) {
			m.setRec(c06Follow[m.in])
			m.in++
			evs = append(evs, c06Ev{Tag: -3, Val: "1"})
		} else {
			evs = append(evs, c06Ev{Tag: -3, Val: "0"})
		}
	case "glv":
		if m.in < len(c06Follow) {
			m.in++
			evs = append(evs, c06Ev{Tag: -3, Val: "1"})
		} else {
			evs = append(evs, c06Ev{Tag: -3, Val: "0"})
		}
	case "glf":
		if m.in < len(c06Follow) {
			mayErr = m.set(idx, c06Follow[m.in])
			m.in++
			evs = append(evs, c06Ev{Tag: -3, Val: "1"})
		} else {
			evs = append(evs, c06Ev{Tag: -3, Val: "0"})
		}
	case "glr":
		if m.fin < len(c06FileLines) {
			m.setRec(c06FileLines[m.fin])
			m.fin++
			evs = append(evs, c06Ev{Tag: -3, Val: "1"})
		} else {
			evs = append(evs, c06Ev{Tag: -3, Val: "0"})
		}
	case "glrf":
		if m.fin < len(c06FileLines) {
			mayErr = m.set(idx, c06FileLines[m.fin])
			m.fin++
			evs = append(evs, c06Ev{Tag: -3, Val: "1"})
		} else {
			evs = append(evs, c06Ev{Tag: -3, Val: "0"})
		}
	default:
		panic("c06: unknown op " + op.K)
	}
	return evs, mayErr, ok
}

func (m *c06Model) dump(step, pass int, evs []c06Ev) []c06Ev {
	evs = append(evs, c06Ev{Tag: -1, Val: strconv.Itoa(len(m.fields)), Step: step, Pass: pass})
	evs = append(evs, c06Ev{Tag: 0, Val: m.rec, Step: step, Pass: pass})
	for i, f := range m.fields {
		evs = append(evs, c06Ev{Tag: i + 1, Val: f, Step: step, Pass: pass})
	}
	evs = append(evs, c06Ev{Tag: len(m.fields) + 1, Val: "", Step: step, Pass: pass})
	return evs
}

func (m *c06Model) triple(step int, evs []c06Ev) []c06Ev {
	for pass := 0; pass < 3; pass++ {
		evs = append(evs, c06Ev{Tag: -7, Val: strconv.Itoa(pass), Step: step, Pass: pass})
		evs = m.dump(step, pass, evs)
	}
	return evs
}

// key: de-duplication key of the model state (with the ghost lazy-split state)
func (m *c06Model) key() [16]byte {
	var b strings.Builder
	b.WriteString(m.rec)
	b.WriteByte(0)
	b.WriteString(strconv.Itoa(len(m.fields)))
	for _, f := range m.fields {
		b.WriteByte(1)
		b.WriteString(f)
	}
	b.WriteByte(0)
	b.WriteString(m.fs)
	b.WriteByte(0)
	b.WriteString(m.ofs)
	b.WriteByte(0)
	if m.csv {
		b.WriteByte('c')
	}
	if m.touched {
		b.WriteByte('t')
	} else {
		b.WriteString(m.recFS)
	}
	b.WriteByte(0)
	b.WriteString(strconv.Itoa(m.in))
	b.WriteByte(0)
	b.WriteString(strconv.Itoa(m.fin))
	h := sha256.Sum256([]byte(b.String()))
	var k [16]byte
	copy(k[:], h[:16])
	return k
}

// c06StartT is an initial situation: the first record of the main input read
// by the main loop with FS=FS (Begin=false), or the BEGIN block before any
// record has been read (Begin=true; $0 is empty, NF is 0).
type c06StartT struct {
	Rec   string `json:"rec"`
	FS    string `json:"fs"`
	Begin bool   `json:"begin,omitempty"`
}

func c06Start(st c06StartT) c06Model {
	m := c06Model{fs: st.FS, ofs: " "}
	if st.Begin {
		m.touched = false
		return m
	}
	m.setRec(st.Rec)
	return m
}

// ---------------------------------------------------------------- programs

const c06Prelude = `function D(  i, n) { n = NF; o(-1, n); o(0, $0); for (i = 1; i <= n+1; i++) o(i, $(i)) }
function T() { o(-7, 0); D(); o(-7, 1); D(); o(-7, 2); D() }
`

// variant 0: the full triple dump after every step; variant 1 ("lazy"): only
// $0 is read after intermediate steps (which must not force the split), the
// triple dump comes after the last step; variant 2 ("silent"): nothing is read
// between the steps (a rebuild of $0 that is deferred to the next read must
// still use the OFS / output mode in force when the field or NF was assigned).
func c06Program(ops []c06Op, variant int, begin bool) string {
	var b strings.Builder
	b.WriteString(c06Prelude)
	if begin {
		b.WriteString("BEGIN ")
	}
	b.WriteString("{\n")
	if len(ops) == 0 {
		b.WriteString("o(-8, 0); T()\n")
	}
	for k, op := range ops {
		fmt.Fprintf(&b, "o(-8, %d); %s\n", k+1, c06Src(op))
		if variant == 0 || k == len(ops)-1 {
			b.WriteString("T()\n")
		} else if variant == 1 {
			b.WriteString("o(0, $0)\n")
		}
	}
	b.WriteString("exit\n}\n")
	return b.String()
}

// c06Expect: the model's observation stream for the same program; cuts = the
// stream positions at which the implementation may stop with an error.
func c06Expect(st c06StartT, ops []c06Op, variant int) (evs []c06Ev, cuts map[int]bool, final c06Model, ok bool) {
	m := c06Start(st)
	cuts = map[int]bool{}
	if len(ops) == 0 {
		evs = append(evs, c06Ev{Tag: -8, Val: "0"})
		evs = m.triple(0, evs)
	}
	for k, op := range ops {
		step := k + 1
		evs = append(evs, c06Ev{Tag: -8, Val: strconv.Itoa(step), Step: step})
		opEvs, mayErr, opOK := m.apply(op)
		if !opOK {
			return nil, nil, m, false
		}
		if mayErr {
			cuts[len(evs)] = true
		}
		for _, e := range opEvs {
			e.Step = step
			evs = append(evs, e)
		}
		if variant == 0 || k == len(ops)-1 {
			if variant == 0 {
				m.touched = true
			}
			evs = m.triple(step, evs)
		} else if variant == 1 {
			evs = append(evs, c06Ev{Tag: 0, Val: m.rec, Step: step})
		}
	}
	return evs, cuts, m, true
}

type c06Obs struct {
	Tag int
	Val string
}

type c06Runner struct {
	obs   []c06Obs
	funcs map[string]any
}

func newC06Runner() *c06Runner {
	r := &c06Runner{}
	r.funcs = map[string]any{"o": func(tag int, val string) { r.obs = append(r.obs, c06Obs{tag, val}) }}
	return r
}

func c06Input(st c06StartT) string {
	if st.Begin {
		return strings.Join(c06Follow, "\n") + "\n"
	}
	return st.Rec + "\n" + strings.Join(c06Follow, "\n") + "\n"
}

func (r *c06Runner) run(prog *parser.Program, st c06StartT) ([]c06Obs, awk.Result) {
	r.obs = r.obs[:0]
	res := awk.Exec(prog, &interp.Config{Stdin: strings.NewReader(c06Input(st)), Vars: []string{"FS", st.FS}, Funcs: r.funcs})
	return r.obs, res
}

func c06TagKind(tag int) string {
	switch {
	case tag == -1:
		return "nf"
	case tag == 0:
		return "rec"
	case tag >= 1:
		return "field"
	case tag == -2:
		return "read-value"
	case tag == -3:
		return "retval"
	}
	return "stream"
}

func c06ErrClass(s string) string {
	var b strings.Builder
	for _, r := range s {
		if r >= '0' && r <= '9' {
			continue
		}
		b.WriteRune(r)
	}
	return trunc(b.String(), 60)
}

// c06Compare returns "" if the observations agree with the expectation.
func c06Compare(exp []c06Ev, cuts map[int]bool, act []c06Obs, res awk.Result) (kind string, step int, detail string) {
	if res.Panic != "" {
		st := 0
		if len(act) > 0 && len(act) <= len(exp) {
			st = exp[len(act)-1].Step
		}
		return "panic", st, "panic: " + firstLine(res.Panic)
	}
	n := len(exp)
	if len(act) < n {
		n = len(act)
	}
	for i := 0; i < n; i++ {
		e, a := exp[i], act[i]
		if e.Tag != a.Tag || (!e.Any && e.Val != a.Val) {
			k := c06TagKind(e.Tag)
			if e.Tag != a.Tag {
				// the dump has a different shape: NF (loop bound) is what differs
				k = "shape"
			}
			if e.Pass > 0 {
				k = "reread-" + k
			}
			return k, e.Step, fmt.Sprintf("step %d pass %d: expected tag %d = %q, observed tag %d = %q", e.Step, e.Pass, e.Tag, e.Val, a.Tag, a.Val)
		}
	}
	if res.Err != nil {
		if cuts[len(act)] && len(act) < len(exp) {
			return "", 0, ""
		}
		st := 0
		if len(act) < len(exp) {
			st = exp[len(act)].Step
		}
		return "unexpected-error:" + c06ErrClass(res.Err.Error()), st, "error: " + res.Err.Error()
	}
	if len(act) < len(exp) {
		return "truncated", exp[len(act)].Step, fmt.Sprintf("stream ended after %d of %d observations without error", len(act), len(exp))
	}
	if len(act) > len(exp) {
		return "extra", exp[len(exp)-1].Step, fmt.Sprintf("extra observation tag %d = %q", act[len(exp)].Tag, act[len(exp)].Val)
	}
	return "", 0, ""
}

type c06Case struct {
	Part  string    `json:"part"`
	Start c06StartT `json:"start"`
	Ops   []c06Op   `json:"ops"`
	Src   string    `json:"program"`
	Input string    `json:"input"`
	Dup   bool      `json:"discarded_equivalent,omitempty"`
}

func c06Stream(act []c06Obs) string {
	var b strings.Builder
	for _, a := range act {
		switch a.Tag {
		case -8:
			fmt.Fprintf(&b, "| step %s: ", a.Val)
		case -7:
			fmt.Fprintf(&b, "/ ")
		case -1:
			fmt.Fprintf(&b, "NF=%s ", a.Val)
		case -2:
			fmt.Fprintf(&b, "read=%q ", a.Val)
		case -3:
			fmt.Fprintf(&b, "ret=%s ", a.Val)
		default:
			fmt.Fprintf(&b, "$%d=%q ", a.Tag, a.Val)
		}
	}
	return b.String()
}

// c06CheckHistory runs one (start, history) in both variants. progs may be
// nil (then the programs are parsed here).
func c06CheckHistory(c *core.Ctx, r *c06Runner, st c06StartT, ops []c06Op, progs []*parser.Program, dup bool) {
	var kinds [3]string
	var steps [3]int
	var details [3]string
	var final string
	for variant := 0; variant < 3; variant++ {
		if variant >= 1 && len(ops) < 2 {
			kinds[1], kinds[2] = kinds[0], kinds[0] // identical programs
			break
		}
		exp, cuts, m, ok := c06Expect(st, ops, variant)
		if !ok {
			return
		}
		var prog *parser.Program
		if progs != nil {
			prog = progs[variant]
		} else {
			prog = awk.MustParse(c06Program(ops, variant, st.Begin), r.funcs)
		}
		act, res := r.run(prog, st)
		c.Eval(1)
		kinds[variant], steps[variant], details[variant] = c06Compare(exp, cuts, act, res)
		if kinds[variant] != "" {
			details[variant] += " :: observed: " + trunc(c06Stream(act), 700)
		}
		if variant == 0 {
			// outcome = the observed final dump (last pass)
			last := 0
			for i, a := range act {
				if a.Tag == -7 {
					last = i
				}
			}
			final = c06Stream(act[last:])
			_ = m
		}
	}
	c.Outcome(final)
	if kinds[0] == "" && kinds[1] == "" && kinds[2] == "" {
		return
	}
	v := 0
	only := ""
	if kinds[0] == "" && kinds[1] == "" {
		v = 2
		only = " only=silent-variant"
	} else if kinds[0] == "" {
		v = 1
		only = " only=lazy-variant"
	} else if kinds[1] == "" && len(ops) >= 2 {
		only = " only=dump-every-step-variant"
	}
	after := "start"
	if steps[v] >= 1 && steps[v] <= len(ops) {
		after = c06Class(ops[steps[v]-1])
	}
	cs := c06Case{Part: "history", Start: st, Ops: ops, Src: c06Program(ops, v, st.Begin), Input: c06Input(st), Dup: dup}
	c.Fail(fmt.Sprintf("%s after=%s%s", kinds[v], after, only), cs, details[v])
}

// ---------------------------------------------------------------- part 1 drivers

func c06Starts() []c06StartT {
	var out []c06StartT
	for _, rec := range c06Recs {
		for _, fs := range c06FSVals {
			out = append(out, c06StartT{Rec: rec, FS: fs})
		}
	}
	for _, fs := range c06FSVals {
		out = append(out, c06StartT{FS: fs, Begin: true})
	}
	return out
}

// c06QuickStarts: 6 records x FS in {" ", ",", "x*"} + BEGIN with FS=" ".
func c06QuickStarts() []c06StartT {
	var out []c06StartT
	for _, st := range c06Starts() {
		if st.Begin && st.FS == " " || !st.Begin && (st.FS == " " || st.FS == "," || st.FS == "x*") {
			out = append(out, st)
		}
	}
	return out
}

// quick: every history of depth <= maxDepth over the alphabet, every start.
func c06AllHistories(c *core.Ctx, r *c06Runner, alpha []c06Op, starts []c06StartT, maxDepth int) {
	for d := 0; d <= maxDepth; d++ {
		idx := make([]int, d)
		ops := make([]c06Op, d)
		for {
			if c.Expired() {
				return
			}
			if c.Mine() {
				for i, k := range idx {
					ops[i] = alpha[k]
				}
				var progs, bprogs [3]*parser.Program
				for v := 0; v < 3; v++ {
					if v >= 1 && d < 2 {
						break
					}
					progs[v] = awk.MustParse(c06Program(ops, v, false), r.funcs)
					bprogs[v] = awk.MustParse(c06Program(ops, v, true), r.funcs)
				}
				for _, st := range starts {
					c.Add("transitions", 1)
					c.Add("states", 1)
					ps := progs[:]
					if st.Begin {
						ps = bprogs[:]
					}
					c06CheckHistory(c, r, st, append([]c06Op(nil), ops...), ps, false)
				}
				if c.Shard == 0 && d == maxDepth {
					c.Sample(map[string]any{"history": c06Program(ops, 1, false), "starts": len(starts)})
				}
			}
			k := d - 1
			for k >= 0 {
				idx[k]++
				if idx[k] < len(alpha) {
					break
				}
				idx[k] = 0
				k--
			}
			if k < 0 {
				break
			}
		}
	}
}

type c06Node struct {
	parent int32
	op     int16
	start  int16
}

// thorough: breadth-first over model states with de-duplication; all roots
// (starts) share one visited set. Every candidate (retained or discarded as
// equivalent) up to fullReplayDepth is replayed on the implementation, deeper
// ones: every retained one and every stride-th discarded one.
func c06BFS(c *core.Ctx, r *c06Runner, label string, alpha []c06Op, starts []c06StartT, maxDepth, fullReplayDepth, stride int) {
	seen := map[[16]byte]struct{}{}
	var nodes []c06Node
	var level []int32
	var states []c06Model // states[i] belongs to node level[i]
	for i, st := range starts {
		m := c06Start(st)
		seen[m.key()] = struct{}{}
		nodes = append(nodes, c06Node{parent: -1, start: int16(i)})
		level = append(level, int32(i))
		states = append(states, m)
		c.Add("states", 1)
		if c.Mine() {
			c.Add("transitions", 1)
			c06CheckHistory(c, r, st, nil, nil, false)
		}
	}
	history := func(n int32, last int) (c06StartT, []c06Op) {
		var rev []c06Op
		rev = append(rev, alpha[last])
		for nodes[n].parent >= 0 {
			rev = append(rev, alpha[nodes[n].op])
			n = nodes[n].parent
		}
		for i, j := 0, len(rev)-1; i < j; i, j = i+1, j-1 {
			rev[i], rev[j] = rev[j], rev[i]
		}
		return starts[nodes[n].start], rev
	}
	dupCount := int64(0)
	sampled := false
	for d := 1; d <= maxDepth; d++ {
		var next []int32
		var nextStates []c06Model
		retained := int64(0)
		for li, ni := range level {
			if c.Expired() {
				return
			}
			for oi, op := range alpha {
				m := states[li].clone()
				_, _, ok := m.apply(op)
				if !ok {
					continue
				}
				k := m.key()
				_, dup := seen[k]
				runIt := true
				if !dup {
					seen[k] = struct{}{}
					retained++
					if d < maxDepth {
						nodes = append(nodes, c06Node{parent: ni, op: int16(oi), start: nodes[ni].start})
						next = append(next, int32(len(nodes)-1))
						nextStates = append(nextStates, m)
					}
				} else if d > fullReplayDepth {
					dupCount++
					runIt = dupCount%int64(stride) == 0
				}
				if !runIt || !c.Mine() {
					continue
				}
				if !dup {
					c.Add("states", 1)
				} else {
					c.Add("discarded_equivalent_replayed", 1)
				}
				c.Add("transitions", 1)
				st, ops := history(ni, oi)
				c06CheckHistory(c, r, st, ops, nil, dup)
				if c.Shard == 0 && d == maxDepth && !sampled {
					sampled = true
					c.Sample(map[string]any{"search": label, "start": st, "history": c06Program(ops, 1, st.Begin)})
				}
			}
		}
		c.NoteMax(fmt.Sprintf("%s_retained_depth_%d", label, d), retained)
		level, states = next, nextStates
	}
	c.NoteMax(label+"_discarded_not_replayed", dupCount-dupCount/int64(stride))
}

// ---------------------------------------------------------------- part 2: FS splitting rules

type c06SplitSetting struct {
	FS    string
	Alpha []string
}

var c06Base = []string{"a", "b", " ", "\t", ","}

func c06SplitSettings() []c06SplitSetting {
	return []c06SplitSetting{
		{" ", c06Base},
		{" ", []string{"a", " ", "\t", "\n", ","}},
		{",", c06Base},
		{"\t", c06Base},
		{".", []string{"a", "b", ".", " ", ","}},
		{"|", []string{"a", "b", "|", " ", ","}},
		{"ab", c06Base},
		{"a|ab", c06Base},
		{"a*", c06Base},
	}
}

const c06SplitPrelude = `function D(  i, n) { n = NF; o(-1, n); o(0, $0); for (i = 1; i <= n+1; i++) o(i, $(i)) }
`

// program order 0: dump starts with NF; order 1: $1 is read first; order 2: $(NF) first
func c06SplitProgram(fs2 string, change bool, order int) string {
	pre := ""
	switch order {
	case 1:
		pre = "o(-2, $1); "
	case 2:
		pre = "o(-2, $(NF)); "
	}
	if !change {
		return c06SplitPrelude + "{ o(-8, 1); " + pre + "D() }\n"
	}
	return c06SplitPrelude + "{ f1 = FS; FS = " + c06Quote(fs2) + "; o(-8, 1); " + pre + "D(); $0 = $0; o(-8, 2); " + pre + "D(); FS = f1 }\n"
}

type c06SplitCase struct {
	Part   string   `json:"part"`
	FS     string   `json:"fs"`
	FS2    string   `json:"fs2"`
	Change bool     `json:"change"`
	Order  int      `json:"order"`
	Recs   []string `json:"recs"`
	Src    string   `json:"program"`
}

func c06SplitExpect(evs []c06Ev, rec, fs string, step, order int) []c06Ev {
	f := c06Split(rec, fs)
	evs = append(evs, c06Ev{Tag: -8, Val: strconv.Itoa(step), Step: step})
	switch order {
	case 1:
		v := ""
		if len(f) > 0 {
			v = f[0]
		}
		evs = append(evs, c06Ev{Tag: -2, Val: v, Step: step})
	case 2:
		v := rec // $(0)
		if len(f) > 0 {
			v = f[len(f)-1]
		}
		evs = append(evs, c06Ev{Tag: -2, Val: v, Step: step})
	}
	m := c06Model{rec: rec, fields: f}
	return m.dump(step, 0, evs)
}

// c06SplitBatch runs one program over recs (one exec) and compares per record.
// On a mismatch in a batch each record is re-run alone to get a minimal case.
func c06SplitBatch(c *core.Ctx, r *c06Runner, prog *parser.Program, fs, fs2 string, change bool, order int, recs []string, single bool) (failed bool) {
	var in strings.Builder
	for _, s := range recs {
		in.WriteString(s)
		in.WriteByte(';')
	}
	r.obs = r.obs[:0]
	res := awk.Exec(prog, &interp.Config{Stdin: strings.NewReader(in.String()), Vars: []string{"FS", fs, "RS", ";"}, Funcs: r.funcs})
	c.Eval(1)
	act := r.obs
	var exp []c06Ev
	for _, s := range recs {
		exp = c06SplitExpect(exp, s, fs, 1, order)
		if change {
			exp = c06SplitExpect(exp, s, fs2, 2, order)
		}
	}
	kind, step, detail := c06Compare(exp, nil, act, res)
	if kind == "" {
		if single {
			c.Outcome(c06Stream(act))
		}
		return false
	}
	if !single {
		// locate the offending records
		n := 0
		for _, s := range recs {
			if c06SplitBatch(c, r, prog, fs, fs2, change, order, []string{s}, true) {
				n++
				if n >= 5 {
					break
				}
			}
		}
		if n > 0 {
			return true
		}
		// only the batch fails (state leaking from one record to the next)
		if len(recs) > 40 {
			recs = recs[:40]
		}
	}
	what := "split"
	if change && step == 1 {
		what = "fs-change-resplits-current-record"
		if single {
			// does the same record split wrongly even without any FS change?
			r.obs = r.obs[:0]
			plain := awk.MustParse(c06SplitProgram("", false, order), r.funcs)
			pres := awk.Exec(plain, &interp.Config{Stdin: strings.NewReader(in.String()), Vars: []string{"FS", fs, "RS", ";"}, Funcs: r.funcs})
			if k, _, _ := c06Compare(c06SplitExpect(nil, recs[0], fs, 1, order), nil, r.obs, pres); k != "" {
				what = "split"
			}
		}
	} else if change {
		what = "resplit-after-fs-change"
	}
	if !single {
		what += "-batch-only"
	}
	sig := fmt.Sprintf("%s %s fs=%q", what, kind, fs)
	if change && step == 2 {
		sig = fmt.Sprintf("%s %s fs=%q", what, kind, fs2)
	}
	cs := c06SplitCase{Part: "split", FS: fs, FS2: fs2, Change: change, Order: order, Recs: recs, Src: c06SplitProgram(fs2, change, order)}
	c.Fail(sig, cs, detail+" :: observed: "+trunc(c06Stream(act), 500))
	return true
}

func c06SplitRun(c *core.Ctx, r *c06Runner, maxLen int) {
	sets := c06SplitSettings()
	for _, st := range sets {
		progs := make([]*parser.Program, 3)
		for order := 0; order < 3; order++ {
			progs[order] = awk.MustParse(c06SplitProgram("", false, order), r.funcs)
		}
		var chg [][]*parser.Program
		for _, st2 := range sets {
			ps := make([]*parser.Program, 2)
			for order := 0; order < 2; order++ {
				ps[order] = awk.MustParse(c06SplitProgram(st2.FS, true, order), r.funcs)
			}
			chg = append(chg, ps)
		}
		for n := 0; n <= maxLen; n++ {
			var recs []string
			enumStrings(st.Alpha, n, func(s string) { recs = append(recs, s) })
			if c.Expired() {
				return
			}
			for order := 0; order < 3; order++ {
				if c.Mine() {
					c.Add("states", int64(len(recs)))
					c.Add("transitions", int64(len(recs)))
					c06SplitBatch(c, r, progs[order], st.FS, "", false, order, recs, false)
				}
			}
			for j, st2 := range sets {
				if j > 0 && sets[j-1].FS == st2.FS {
					continue // same FS value listed with another alphabet
				}
				for order := 0; order < 2; order++ {
					if c.Mine() {
						c.Add("transitions", int64(2*len(recs)))
						c06SplitBatch(c, r, chg[j][order], st.FS, st2.FS, true, order, recs, false)
					}
				}
			}
		}
	}
}

// ---------------------------------------------------------------- entry points

// c06Scratch makes a scratch directory with the fixture file the current directory.
func c06Scratch() (cleanup func()) {
	dir, err := os.MkdirTemp("", "c06-")
	if err != nil {
		panic(err)
	}
	old, _ := os.Getwd()
	if err := os.Chdir(dir); err != nil {
		panic(err)
	}
	if err := os.WriteFile(c06FileName, []byte(strings.Join(c06FileLines, "\n")+"\n"), 0o644); err != nil {
		panic(err)
	}
	return func() {
		if old != "" {
			os.Chdir(old)
		}
		os.RemoveAll(dir)
	}
}

func c06Run(c *core.Ctx) {
	defer c06Scratch()()
	r := newC06Runner()
	c06EncRun(c)
	c06GlRun(c)
	if c.Thorough() {
		c06SplitRun(c, r, 6)
		// T1: full alphabet, depth 3, every candidate replayed
		c06BFS(c, r, "full106", c06Alphabet(true), c06Starts(), 3, 3, 1)
		// T2: reduced alphabet, depth 5; discarded equivalents: all up to depth 4, every 20th at depth 5
		c06BFS(c, r, "reduced40", c06Alphabet(false), c06Starts(), 5, 4, 20)
	} else {
		depth, full := 3, false
		if v := os.Getenv("C06_DEPTH"); v != "" { // debugging knobs
			depth, _ = strconv.Atoi(v)
		}
		if os.Getenv("C06_FULL") != "" {
			full = true
		}
		if os.Getenv("C06_NOSPLIT") == "" {
			c06SplitRun(c, r, 5)
		}
		starts := c06Starts()
		if os.Getenv("C06_ALLSTARTS") == "" {
			starts = c06QuickStarts()
		}
		c06AllHistories(c, r, c06Alphabet(full), starts, depth)
	}
}

// ---------------------------------------------------------------- part 3: $0 rebuilt in CSV / TSV output mode
//
// Every field list of <= 3 fields over values that matter to the encoder (CR
// inside / alone / trailing, quote, separator, leading space, newline, "\.",
// empty) is assigned field by field; the rebuilt $0 must be the CSV encoding
// of the fields (csv mode: encoding/csv's writer is the definition) and must
// be exactly what `print $1, ..., $n` writes (both modes).

var c06EncVals = []string{"", "a", "c\rd", "\r", "e\r", "q\"r", "s,t", " x", "l\nm", "\\.", "t\tu", "\xc3\xa9"}

type c06EncCase struct {
	Part   string   `json:"part"`
	Mode   string   `json:"mode"`
	Fields []string `json:"fields"`
	ViaNF  bool     `json:"via_nf"`
}

func c06EncEval(c *core.Ctx, cs c06EncCase) {
	var got []string
	funcs := map[string]any{"o": func(s string) { got = append(got, s) }}
	var b strings.Builder
	b.WriteString("BEGIN { OUTPUTMODE = \"" + cs.Mode + "\"; ")
	var args []string
	if cs.ViaNF {
		// fields set while $0 is rebuilt by an NF assignment at the end
		for i := range cs.Fields {
			fmt.Fprintf(&b, "$%d = ARGV[%d]; ", i+1, i+1)
		}
		fmt.Fprintf(&b, "NF = %d; ", len(cs.Fields))
	} else {
		for i := range cs.Fields {
			fmt.Fprintf(&b, "$%d = ARGV[%d]; ", i+1, i+1)
		}
	}
	for i := range cs.Fields {
		args = append(args, fmt.Sprintf("$%d", i+1))
	}
	b.WriteString("o($0); ARGC = 1; print " + strings.Join(args, ", ") + " }")
	prog := awk.MustParse(b.String(), funcs)
	res := awk.Exec(prog, &interp.Config{Funcs: funcs, Args: cs.Fields, NoArgVars: true})
	c.Eval(1)
	c.Add("transitions", 1)
	if res.Panic != "" || res.Err != nil {
		c.Fail("enc:run-failed_mode="+cs.Mode, cs, fmt.Sprintf("panic=%s err=%v", firstLine(res.Panic), res.Err))
		return
	}
	if len(got) != 1 {
		panic("c06 part 3: observation function not called")
	}
	c.Outcome("enc " + got[0])
	if got[0]+"\n" != res.Out {
		c.Fail("enc:rebuilt-record-differs-from-printed-fields_mode="+cs.Mode, cs, fmt.Sprintf("$0=%q, print of the fields wrote %q", got[0], res.Out))
		return
	}
	if cs.Mode == "csv" {
		if want := c06CSVJoin(cs.Fields); got[0] != want {
			c.Fail("enc:rebuilt-record-is-not-the-csv-encoding", cs, fmt.Sprintf("$0=%q want %q", got[0], want))
		}
	}
}

func c06EncRun(c *core.Ctx) {
	for n := 1; n <= 3; n++ {
		idx := make([]int, n)
		for {
			if c.Mine() && !c.Expired() {
				fields := make([]string, n)
				for i, k := range idx {
					fields[i] = c06EncVals[k]
				}
				c.Add("states", 1)
				for _, mode := range []string{"csv", "tsv"} {
					c06EncEval(c, c06EncCase{Part: "enc", Mode: mode, Fields: fields})
					c06EncEval(c, c06EncCase{Part: "enc", Mode: mode, Fields: fields, ViaNF: true})
				}
			}
			k := n - 1
			for k >= 0 {
				idx[k]++
				if idx[k] < len(c06EncVals) {
					break
				}
				idx[k] = 0
				k--
			}
			if k < 0 {
				break
			}
		}
	}
}

// ---------------------------------------------------------------- part 4: getline var in CSV / TSV input mode
//
// `getline var` (from the main input, from a file) never touches the current
// record: whatever is done before the first field access (nothing, reading $0,
// reading NF, switching INPUTMODE off after the fields are fixed), NF, the
// fields and $0 afterwards are those of the current record, and a field
// assignment rebuilds $0 from them.

type c06GlCase struct {
	Part string   `json:"part"`
	Mode string   `json:"mode"`
	Rec  string   `json:"record"`
	Ops  []string `json:"ops"`
}

var c06GlOps = map[string]string{
	"rd0":   `x = $0`,
	"nf":    `n = NF`,
	"glv":   `r = (getline v)`,
	"glvf":  `r = (getline v < "c06gl.txt")`,
	"glvf2": `r = (getline w < "c06gl.txt")`,
	"mode0": `INPUTMODE = ""`,
}

func c06GlEval(c *core.Ctx, cs c06GlCase) {
	sep := ","
	if cs.Mode == "tsv" {
		sep = "\t"
	}
	rec := strings.ReplaceAll(cs.Rec, ",", sep)
	next := strings.ReplaceAll("1,2,3,4", ",", sep)
	os.WriteFile("c06gl.txt", []byte(strings.ReplaceAll("f1,f2,f3,f4,f5\ng1\n", ",", sep)), 0o644)
	var want []string
	if cs.Mode == "csv" {
		rd := csv.NewReader(strings.NewReader(rec))
		rd.LazyQuotes = true
		want, _ = rd.Read()
	} else {
		want = strings.Split(rec, "\t")
	}
	var got []string
	funcs := map[string]any{"o": func(s string) { got = append(got, s) }}
	var b strings.Builder
	b.WriteString("NR == 1 { ")
	for _, op := range cs.Ops {
		b.WriteString(c06GlOps[op] + "; ")
	}
	b.WriteString(`o(NF); o($1); o($2); o($3); o($4); o($0); $1 = "Z"; o($0); o(NF) }`)
	prog := awk.MustParse(b.String(), funcs)
	res := awk.Exec(prog, &interp.Config{Funcs: funcs, Stdin: strings.NewReader(rec + "\n" + next + "\n"), Vars: []string{"INPUTMODE", cs.Mode}})
	c.Eval(1)
	c.Add("transitions", 1)
	sig := "getline-var:" + cs.Mode + ":" + strings.Join(cs.Ops, "+")
	if res.Panic != "" {
		c.Fail("panic:"+sig, cs, firstLine(res.Panic))
		return
	}
	if res.Err != nil {
		c.Fail("error:"+sig, cs, res.Err.Error())
		return
	}
	f := func(i int) string {
		if i < len(want) {
			return want[i]
		}
		return ""
	}
	after := append([]string{"Z"}, want[1:]...)
	exp := []string{strconv.Itoa(len(want)), f(0), f(1), f(2), f(3), rec, strings.Join(after, " "), strconv.Itoa(len(want))}
	c.Outcome("gl " + strings.Join(got, "|"))
	if strings.Join(got, "\x00") != strings.Join(exp, "\x00") {
		c.Fail("record-disturbed-by-"+sig, cs, fmt.Sprintf("got NF,$1..$4,$0,$0',NF' = %q want %q", got, exp))
	}
}

func c06GlRun(c *core.Ctx) {
	alpha := []string{"rd0", "nf", "glv", "glvf", "glvf2", "mode0"}
	for _, mode := range []string{"csv", "tsv"} {
		for _, rec := range []string{"a,b", "p", "k,l,m,n,o"} {
			for n := 1; n <= 3; n++ {
				idx := make([]int, n)
				for {
					ops := make([]string, n)
					ok := true
					seenNF := false
					for i, k := range idx {
						ops[i] = alpha[k]
						if ops[i] == "mode0" && !seenNF {
							ok = false // the mode may only change once the record's fields are fixed
						}
						if ops[i] == "nf" {
							seenNF = true
						}
					}
					if ok && c.Mine() && !c.Expired() {
						c.Add("states", 1)
						c06GlEval(c, c06GlCase{Part: "glcsv", Mode: mode, Rec: rec, Ops: ops})
					}
					k := n - 1
					for k >= 0 {
						idx[k]++
						if idx[k] < len(alpha) {
							break
						}
						idx[k] = 0
						k--
					}
					if k < 0 {
						break
					}
				}
			}
		}
	}
}

func c06Replay(c *core.Ctx, raw json.RawMessage) {
	defer c06Scratch()()
	r := newC06Runner()
	var probe struct {
		Part string `json:"part"`
	}
	json.Unmarshal(raw, &probe)
	if probe.Part == "glcsv" {
		var cs c06GlCase
		if err := json.Unmarshal(raw, &cs); err != nil {
			panic(err)
		}
		c06GlEval(c, cs)
		return
	}
	if probe.Part == "enc" {
		var cs c06EncCase
		if err := json.Unmarshal(raw, &cs); err != nil {
			panic(err)
		}
		c06EncEval(c, cs)
		return
	}
	if probe.Part == "split" {
		var cs c06SplitCase
		if err := json.Unmarshal(raw, &cs); err != nil {
			panic(err)
		}
		prog := awk.MustParse(c06SplitProgram(cs.FS2, cs.Change, cs.Order), r.funcs)
		c06SplitBatch(c, r, prog, cs.FS, cs.FS2, cs.Change, cs.Order, cs.Recs, len(cs.Recs) == 1)
		return
	}
	var cs c06Case
	if err := json.Unmarshal(raw, &cs); err != nil {
		panic(err)
	}
	c06CheckHistory(c, r, cs.Start, cs.Ops, nil, cs.Dup)
}

func init() {
	core.Register(&core.Check{
		ID:    "C06",
		Level: "model_checking",
		Rule: "Part 1, explicit-state search over histories of record operations. A state is one state of the record model (record text, field list = NF, FS in force for the record + " +
			"pending-lazy-split flag, FS, OFS, output mode, positions in the main input and in the getline file); a transition is one (start, history) rendered as one AWK program and replayed from scratch " +
			"on the real interpreter in three variants (triple dump of NF/$0/$1..$(NF+1) after every step; only $0 read after intermediate steps, so that the lazy split stays pending, and the triple dump at the end; nothing read between the steps, so that a deferred rebuild of $0 would stay pending across OFS / OUTPUTMODE changes) " +
			"and compared observation by observation (values read, return values of sub/gsub/getline, dumps, re-read dumps) with the model. " +
			"Starts: 6 first records x 6 FS values read by the main loop + the BEGIN block (no record yet) x 6 FS = 42. " +
			"quick: every history of depth<=3 (no de-duplication) over a reduced 40-operation alphabet (every kind of operation kept, fewer index expressions/values per kind) x 19 starts (6 records x FS in {space, comma, x*} + BEGIN). " +
			"thorough: (T1) breadth-first to depth 3 over the full 106-operation alphabet x 42 starts, every candidate replayed; (T2) breadth-first to depth 5 over the 40-operation alphabet x 42 starts with " +
			"de-duplication on the model state (one visited set for all starts), every retained history replayed, every discarded equivalent history up to depth 4 and every 20th at depth 5 replayed too " +
			"(same model state reached another way => same dump). states = retained model states (quick: start x history pairs), transitions = histories replayed. " +
			"Part 3: every field list of <=3 fields over 12 encoder-relevant values (CR inside/alone/trailing, quote, separator, leading space, newline, \\., tab, empty, multi-byte) assigned field by field (and via NF) in csv and tsv output mode: the rebuilt $0 must equal what print of the fields writes and (csv) encoding/csv's encoding. " +
			"Part 4: CSV/TSV input mode, every sequence of <=3 operations over {read $0, read NF, getline v, getline v < file (twice), INPUTMODE=\"\" after NF} before the first observation x 3 records x 2 modes: NF, the fields and $0 stay those of the current record and a field assignment rebuilds $0 from them. " +
			"Part 2: FS splitting rules on every string up to length 6 (quick 5) over 5-symbol alphabets x 8 FS values (space [also with newline in the alphabet], comma, tab, '.', '|', ab, a|ab, a*), three read orders, " +
			"plus every ordered pair (FS when the record was read, FS assigned before the first field access) and the re-split by $0=$0; records delivered in one run per batch with RS=';'. " +
			"distinct = distinct observed final dumps",
		Assumptions: []string{
			"blanks for FS=\" \" are space, tab, newline only (\\v \\f \\r NBSP are not in the record alphabet: the statement does not settle them)",
			"NF is only assigned integral counts (NF=2.7 / \"3.14x\" read back raw is pinned by the repository's tests and not covered by the statement)",
			"assignment through a negative index reaching before field 1, field indexes above 1000000 and NF=-1 are 'error or no-op' (not prescribed); a value read through such a negative index is not compared",
			"CSV output mode: the join oracle is Go's encoding/csv (quoting of fields with a leading space is that library's choice), except that a single empty field is encoded as \"\" so that it reads back as a record (C08)",
			"histories in which ++/+= would have to take the numeric value of a string starting with 0x, inf, nan or carrying an exponent are pruned (number parsing is property C05's subject)",
			"Go regexp with Longest() is a trusted leaf of the model's regex splitter; FS=\"\" is not in the alphabet",
			"number-to-string conversion of $i++ / $i += 1 results is modelled for integers and short decimals only (CONVFMT default)",
		},
		QuickBudget:    900,
		ThoroughBudget: 5400,
		Run:            c06Run,
		Replay:         c06Replay,
	})
}

package checks

import (
	"encoding/json"
	"fmt"
	"math"
	"math/bits"
	"regexp"
	"runtime/debug"
	"sort"
	"strconv"
	"strings"
	"unicode/utf8"

	"github.com/benhoyt/goawk/interp"
	"github.com/benhoyt/goawk/parser"

	"verifharness/awk"
	"verifharness/core"
)

// C10 — string, regex and int() builtins obey their defining equations
// (shape B): every subject string up to a length bound over {a,b,é,\xff} x
// every numeric position/length of a fixed list (fractional, negative, huge,
// non-finite) x every regex of <=3 atoms x every replacement of <=3 tokens,
// in byte mode and in character mode, on the real interpreter; results are
// observed through native Go functions and compared with the statement's
// equations, evaluated by a small model written here (own leftmost-longest
// matcher; Go's regexp is only cross-checked against it, never the oracle).

// ---------------------------------------------------------------- alphabets

// "\xa9" alone is a stray UTF-8 continuation byte (and the second byte of é): one character in character mode
var c10SubjAlpha = []string{"a", "b", "é", "\xff", "\xa9"}

var c10Two63 = 9223372036854775808.0

// numeric positions / lengths
var c10Nums = []float64{
	math.Inf(-1), -1e30, -c10Two63 * 2, -c10Two63, -9223372036854774784, -4294967296, -2147483649, -2147483648, -2, -1.5, -1, -0.9, -0.1,
	0, 0.1, 0.9, 1, 1.5, 1.9, 2, 2.5, 3, 3.9, 4, 5, 6, 7, 8, 9, 10,
	2147483647, 2147483648, 2147483648.5, 4294967296, 9007199254740992, 4611686018427387904, 9223372036854774784,
	c10Two63, c10Two63 * 2, 1e19, 1e30, 1e308, math.Inf(1), math.NaN(),
}

// arguments of int(): finite ones are compared with truncation
var c10IntArgs = func() []float64 {
	pos := []float64{0, 5e-324, 1e-300, 0.1, 0.5, 0.9999999999999999, 1, 1.5, 1.9999999999999998, 2, 2.5, 3.999, 41.99, 255.5, 1e6 + 0.5,
		2147483647, 2147483647.9, 2147483648, 4294967295.5, 4294967296, 1e15 + 0.5, 4503599627370495.5, 9007199254740991, 9007199254740992, 9007199254740994,
		1e18, 4611686018427387904, 9223372036854774784, c10Two63, 9223372036854777856, c10Two63 * 2, 1e19, 1e20, 1e30, 1e100, 1e300, 1e308, math.MaxFloat64}
	var out []float64
	for _, x := range pos {
		out = append(out, x)
		if x != 0 {
			out = append(out, -x)
		}
	}
	out = append(out, math.Inf(1), math.Inf(-1), math.NaN())
	return out
}()

var c10SplitSeps = []string{",", ".", "|", "*", "[", "\\", "^", "$", "b", "0", "é", "\xff", "\t", "\n"}

// regex atoms with their meaning for the model matcher
const (
	c10Lit = iota
	c10Any
	c10Star
	c10Plus
	c10Opt
	c10Alt
	c10StarSeq
	c10Bol
	c10Eol
	c10TopAlt // a whole pattern "X|Y": branches are atom sequences
)

type c10Atom struct {
	src      string
	kind     int
	c        string       // for Lit/Star/Plus/Opt
	alts     [][]string   // for Alt (alternatives) and StarSeq (alts[0] is the repeated sequence)
	branches [][]*c10Atom // for TopAlt
}

var c10Atoms = []c10Atom{
	{src: "a", kind: c10Lit, c: "a"},
	{src: "b", kind: c10Lit, c: "b"},
	{src: ".", kind: c10Any},
	{src: "a*", kind: c10Star, c: "a"},
	{src: "b?", kind: c10Opt, c: "b"},
	{src: "(a|b)", kind: c10Alt, alts: [][]string{{"a"}, {"b"}}},
	{src: "[ab]", kind: c10Alt, alts: [][]string{{"a"}, {"b"}}},
	{src: "^", kind: c10Bol},
	{src: "$", kind: c10Eol},
	{src: "a+", kind: c10Plus, c: "a"},
	{src: "(ab)*", kind: c10StarSeq, alts: [][]string{{"a", "b"}}},
	{src: "x*", kind: c10Star, c: "x"},
	// not in DESIGN.md's list: the only atom on which leftmost-first and
	// leftmost-longest differ (added so that a lost Longest() is visible)
	{src: "(a|ab)", kind: c10Alt, alts: [][]string{{"a"}, {"a", "b"}}},
}

var c10ReplTokens = []string{"&", `\&`, `\\`, "x", `\`}

// ---------------------------------------------------------------- model

// c10Units splits s into the counting units of the mode: bytes, or characters
// (a valid UTF-8 sequence, or one byte that is not part of one).
func c10Units(s string, chars bool) []string {
	var u []string
	if !chars {
		for i := 0; i < len(s); i++ {
			u = append(u, s[i:i+1])
		}
		return u
	}
	for i := 0; i < len(s); {
		_, w := utf8.DecodeRuneInString(s[i:])
		u = append(u, s[i:i+w])
		i += w
	}
	return u
}

func c10IsASCII(s string) bool {
	for i := 0; i < len(s); i++ {
		if s[i] >= 0x80 {
			return false
		}
	}
	return true
}

// c10SubstrModel is the statement's formula. Arguments are finite or infinite,
// never NaN.
func c10SubstrModel(u []string, m float64, hasN bool, n float64) string {
	L := float64(len(u))
	mt := math.Trunc(m)
	if mt < 1 {
		mt = 1
	}
	if mt > L {
		return ""
	}
	start := int(mt) - 1
	if !hasN {
		return strings.Join(u[start:], "")
	}
	nt := math.Trunc(n)
	if nt <= 0 {
		return ""
	}
	if nt >= L-float64(start) {
		return strings.Join(u[start:], "")
	}
	return strings.Join(u[start:start+int(nt)], "")
}

func (a *c10Atom) step(u []string, p int) uint32 {
	L := len(u)
	switch a.kind {
	case c10Lit:
		if p < L && u[p] == a.c {
			return 1 << uint(p+1)
		}
	case c10Any:
		if p < L {
			return 1 << uint(p+1)
		}
	case c10Star, c10Plus:
		var m uint32
		if a.kind == c10Star {
			m = 1 << uint(p)
		}
		for q := p; q < L && u[q] == a.c; q++ {
			m |= 1 << uint(q+1)
		}
		return m
	case c10Opt:
		m := uint32(1) << uint(p)
		if p < L && u[p] == a.c {
			m |= 1 << uint(p+1)
		}
		return m
	case c10Alt:
		var m uint32
		for _, alt := range a.alts {
			if c10SeqAt(u, p, alt) {
				m |= 1 << uint(p+len(alt))
			}
		}
		return m
	case c10StarSeq:
		m := uint32(1) << uint(p)
		for q := p; c10SeqAt(u, q, a.alts[0]); q += len(a.alts[0]) {
			m |= 1 << uint(q+len(a.alts[0]))
		}
		return m
	case c10Bol:
		if p == 0 {
			return 1 << uint(p)
		}
	case c10Eol:
		if p == L {
			return 1 << uint(p)
		}
	case c10TopAlt:
		var m uint32
		for _, br := range a.branches {
			m |= c10SeqEnds(br, u, p)
		}
		return m
	}
	return 0
}

// c10SeqEnds: the set of positions at which a match of the atom sequence
// starting at p can end.
func c10SeqEnds(atoms []*c10Atom, u []string, p int) uint32 {
	cur := uint32(1) << uint(p)
	for _, a := range atoms {
		var nxt uint32
		for rest := cur; rest != 0; rest &= rest - 1 {
			nxt |= a.step(u, bits.TrailingZeros32(rest))
		}
		cur = nxt
		if cur == 0 {
			break
		}
	}
	return cur
}

func c10SeqAt(u []string, p int, seq []string) bool {
	if p+len(seq) > len(u) {
		return false
	}
	for i, x := range seq {
		if u[p+i] != x {
			return false
		}
	}
	return true
}

// c10Find: leftmost start >= from at which the atom sequence matches, and the
// longest end for that start.
func c10Find(atoms []*c10Atom, u []string, from int) (st, en int, ok bool) {
	for i := from; i <= len(u); i++ {
		cur := uint32(1) << uint(i)
		for _, a := range atoms {
			var nxt uint32
			for rest := cur; rest != 0; rest &= rest - 1 {
				nxt |= a.step(u, bits.TrailingZeros32(rest))
			}
			cur = nxt
			if cur == 0 {
				break
			}
		}
		if cur != 0 {
			return i, 31 - bits.LeadingZeros32(cur), true
		}
	}
	return 0, 0, false
}

type c10Span struct{ b0, b1 int } // byte offsets

// c10AllMatches: the successive non-overlapping leftmost-longest matches, an
// empty match directly after the previous match not being one (the convention
// of every awk), as byte offsets into the subject.
func c10AllMatches(atoms []*c10Atom, u []string) []c10Span {
	off := make([]int, len(u)+1)
	for i, x := range u {
		off[i+1] = off[i] + len(x)
	}
	var out []c10Span
	pos, prevEnd := 0, -1
	for pos <= len(u) {
		st, en, ok := c10Find(atoms, u, pos)
		if !ok {
			break
		}
		if st == en && st == prevEnd {
			pos = st + 1
			continue
		}
		out = append(out, c10Span{off[st], off[en]})
		prevEnd = en
		if en > st {
			pos = en
		} else {
			pos = st + 1
		}
	}
	return out
}

// c10Expand: replacement text for one match. & is the match, \& a literal
// ampersand; a run of k backslashes before & gives k/2 backslashes (then & is
// literal if k is odd). For backslashes not before & two documented behaviours
// exist and both are accepted: POSIX (pairs collapse) and gawk (kept).
func c10Expand(repl, m string, gawk bool) string {
	var b []byte
	for i := 0; i < len(repl); {
		ch := repl[i]
		if ch == '&' {
			b = append(b, m...)
			i++
			continue
		}
		if ch != '\\' {
			b = append(b, ch)
			i++
			continue
		}
		j := i
		for j < len(repl) && repl[j] == '\\' {
			j++
		}
		k := j - i
		if j < len(repl) && repl[j] == '&' {
			b = append(b, strings.Repeat(`\`, k/2)...)
			if k%2 == 1 {
				b = append(b, '&')
			} else {
				b = append(b, m...)
			}
			i = j + 1
		} else {
			if gawk {
				b = append(b, strings.Repeat(`\`, k)...)
			} else {
				b = append(b, strings.Repeat(`\`, (k+1)/2)...)
			}
			i = j
		}
	}
	return string(b)
}

func c10Replace(s string, ms []c10Span, repl string, gawk bool) string {
	var b strings.Builder
	prev := 0
	for _, m := range ms {
		b.WriteString(s[prev:m.b0])
		b.WriteString(c10Expand(repl, s[m.b0:m.b1], gawk))
		prev = m.b1
	}
	b.WriteString(s[prev:])
	return b.String()
}

// ---------------------------------------------------------------- cases

type c10Case struct {
	Kind string `json:"kind"` // length substr2 substr3 int index split regex
	Mode string `json:"mode,omitempty"`
	S    string `json:"s,omitempty"` // Go-quoted
	T    string `json:"t,omitempty"`
	Sep  string `json:"sep,omitempty"`
	Pat  string `json:"pat,omitempty"`
	Repl string `json:"repl,omitempty"`
	All  bool   `json:"all_repls,omitempty"`
	Pos  string `json:"pos,omitempty"`
	Len  string `json:"len,omitempty"`
	X    string `json:"x,omitempty"`
	Prog string `json:"awk,omitempty"`  // equivalent one-liner, for humans
	Fill int    `json:"fill,omitempty"` // regex: other regexes compiled first
	Pre  int    `json:"pre,omitempty"`  // regex: first used by ~ (1), !~ (2), split (3)
}

func c10Q(s string) string   { return strconv.QuoteToASCII(s) }
func c10F(x float64) string  { return strconv.FormatFloat(x, 'g', -1, 64) }
func c10PF(s string) float64 { f, _ := strconv.ParseFloat(s, 64); return f }
func c10ModeName(chars bool) string {
	if chars {
		return "chars"
	}
	return "bytes"
}

const (
	c10KLength = 1 + iota
	c10KSubstr2
	c10KSubstr3
	c10KInt
	c10KIndex
	c10KSplit
)

var c10KindNames = map[int]string{c10KLength: "length", c10KSubstr2: "substr2", c10KSubstr3: "substr3", c10KInt: "int", c10KIndex: "index", c10KSplit: "split"}

type c10Flat struct {
	kind      int
	s, t, sep string
	p, l, x   float64
}

type c10FlatObs struct {
	done  bool
	num   float64
	num2  float64
	str   string
	keys  map[string]string
	dup   bool
	panic string
	err   string
}

func c10AwkNum(x float64) string {
	switch {
	case math.IsNaN(x):
		return `-log(-1)`
	case math.IsInf(x, 1):
		return `-log(0)`
	case math.IsInf(x, -1):
		return `log(0)`
	}
	return c10F(x)
}

func c10AwkStr(s string) string {
	var b strings.Builder
	b.WriteByte('"')
	for i := 0; i < len(s); i++ {
		ch := s[i]
		switch {
		case ch == '"' || ch == '\\':
			b.WriteByte('\\')
			b.WriteByte(ch)
		case ch == '\n':
			b.WriteString(`\n`)
		case ch == '\t':
			b.WriteString(`\t`)
		case ch < 0x20 || ch == 0xff:
			fmt.Fprintf(&b, `\x%02x`, ch)
		default:
			b.WriteByte(ch)
		}
	}
	b.WriteByte('"')
	return b.String()
}

func (f c10Flat) toCase(chars bool) c10Case {
	cs := c10Case{Kind: c10KindNames[f.kind], Mode: c10ModeName(chars)}
	flag := "goawk "
	if chars {
		flag = "goawk -c "
	}
	switch f.kind {
	case c10KLength:
		cs.S = c10Q(f.s)
		cs.Prog = flag + "'BEGIN{print length(" + c10AwkStr(f.s) + ")}'"
	case c10KSubstr2:
		cs.S, cs.Pos = c10Q(f.s), c10F(f.p)
		cs.Prog = flag + "'BEGIN{print substr(" + c10AwkStr(f.s) + ", " + c10AwkNum(f.p) + ")}'"
	case c10KSubstr3:
		cs.S, cs.Pos, cs.Len = c10Q(f.s), c10F(f.p), c10F(f.l)
		cs.Prog = flag + "'BEGIN{print substr(" + c10AwkStr(f.s) + ", " + c10AwkNum(f.p) + ", " + c10AwkNum(f.l) + ")}'"
	case c10KInt:
		cs.X = c10F(f.x)
		cs.Mode = ""
		cs.Prog = "goawk 'BEGIN{printf \"%.17g\\n\", int(" + c10AwkNum(f.x) + ")}'"
	case c10KIndex:
		cs.S, cs.T = c10Q(f.s), c10Q(f.t)
		cs.Prog = flag + "'BEGIN{print index(" + c10AwkStr(f.s) + ", " + c10AwkStr(f.t) + ")}'"
	case c10KSplit:
		cs.S, cs.Sep = c10Q(f.s), c10Q(f.sep)
		cs.Prog = flag + "'BEGIN{n=split(" + c10AwkStr(f.s) + ", a, " + c10AwkStr(f.sep) + "); print n; for(i=1;i<=n;i++) print i, a[i]}'"
	}
	return cs
}

func c10FlatFromCase(cs c10Case) (c10Flat, bool) {
	f := c10Flat{s: unquoteGo(cs.S), t: unquoteGo(cs.T), sep: unquoteGo(cs.Sep), p: c10PF(cs.Pos), l: c10PF(cs.Len), x: c10PF(cs.X)}
	for k, n := range c10KindNames {
		if n == cs.Kind {
			f.kind = k
			return f, true
		}
	}
	return f, false
}

// ---------------------------------------------------------------- failure cap

// A planted or real defect in sub/gsub can fail millions of cases; only the
// first c10MaxFailPerSig per signature and worker are recorded as violations
// (simplest first), the rest are counted in "violations_not_recorded".
const c10MaxFailPerSig = 40

var c10FailCount = map[*core.Ctx]map[string]int{}

func c10Capped(c *core.Ctx, sig string) bool {
	m := c10FailCount[c]
	if m == nil {
		m = map[string]int{}
		c10FailCount[c] = m
	}
	m[sig]++
	if m[sig] > c10MaxFailPerSig {
		c.Add("violations_not_recorded", 1)
		return true
	}
	return false
}

func c10Fail(c *core.Ctx, sig string, cs any, observed string) {
	if !c10Capped(c, sig) {
		c.Fail(sig, cs, observed)
	}
}

// ---------------------------------------------------------------- runner

const c10FlatSrc = `
BEGIN {
	while ((k = nx()) != 0) {
		if (k == 1) onum(length(S()))
		else if (k == 2) ostr(substr(S(), P()))
		else if (k == 3) ostr(substr(S(), P(), L()))
		else if (k == 4) onum(int(X()))
		else if (k == 5) { s = S(); t = T(); i = index(s, t); oidx(i, substr(s, i, length(t))) }
		else if (k == 6) { delete a; n = split(S(), a, SEP()); for (key in a) okey(key, a[key]); osplit(n, length(a)) }
	}
}`

const c10RegexSrc = `
BEGIN {
	# fill > 0: that many other dynamic regexes are compiled first (regex cache full)
	for (i = 0; i < fill; i++) zz += ("q" i) ~ ("^q" i "$")
	r = R()
	# pre > 0: the same regex text is first used by another consumer of regular expressions
	if (pre == 1) zz += ("xaby" ~ r)
	if (pre == 2) zz += ("xaby" !~ r)
	if (pre == 3) zz += split("xaby", tmp, r)
	while (nxs()) {
		s = S()
		m = match(s, r)
		omatch(m, RSTART, RLENGTH, substr(s, RSTART, RLENGTH))
		t = s; n = gsub(r, "&", t)
		oamp(n, t)
		while (nxr()) {
			rp = RP()
			t = s; n1 = sub(r, rp, t)
			u = s; n2 = gsub(r, rp, u)
			osub(n1, t, n2, u)
		}
	}
}`

type c10Rx struct {
	c     *core.Ctx
	pat   string
	atoms []*c10Atom
	chars bool
	subs  []string
	repls []string
	si    int
	ri    int
	stage string
	fill  int
	pre   int
	// per subject
	s        string
	models   [][]c10Span // acceptable match lists (1 or 2)
	unitsMod [][]string
	emptyPat bool
	gore     *regexp.Regexp
}

type c10Runner struct {
	fill     int // regex program: number of other regexes compiled first
	pre      int // regex program: the regex is first used by ~ (1), !~ (2), split (3)
	funcs    map[string]any
	flatProg *parser.Program
	rxProg   *parser.Program

	cases []c10Flat
	obs   []c10FlatObs
	cur   int

	rx *c10Rx
}

func newC10Runner() *c10Runner {
	r := &c10Runner{}
	cur := func() *c10Flat { return &r.cases[r.cur] }
	ob := func() *c10FlatObs { return &r.obs[r.cur] }
	r.funcs = map[string]any{
		"nx": func() int {
			r.cur++
			if r.cur >= len(r.cases) {
				return 0
			}
			return r.cases[r.cur].kind
		},
		"S": func() string {
			if r.rx != nil {
				return r.rx.s
			}
			return cur().s
		},
		"T":    func() string { return cur().t },
		"SEP":  func() string { return cur().sep },
		"P":    func() float64 { return cur().p },
		"L":    func() float64 { return cur().l },
		"X":    func() float64 { return cur().x },
		"onum": func(x float64) { o := ob(); o.done, o.num = true, x },
		"ostr": func(s string) { o := ob(); o.done, o.str = true, s },
		"oidx": func(i float64, s string) { o := ob(); o.done, o.num, o.str = true, i, s },
		"okey": func(k, v string) {
			o := ob()
			if o.keys == nil {
				o.keys = map[string]string{}
			}
			if _, ok := o.keys[k]; ok {
				o.dup = true
			}
			o.keys[k] = v
		},
		"osplit": func(n, ln float64) { o := ob(); o.done, o.num, o.num2 = true, n, ln },
		// regex program
		"R":      func() string { return r.rx.pat },
		"RP":     func() string { return r.rx.repls[r.rx.ri] },
		"nxs":    func() int { return r.rx.nextSubject() },
		"nxr":    func() int { return r.rx.nextRepl() },
		"omatch": func(m, rstart, rlength float64, sub string) { r.rx.onMatch(m, rstart, rlength, sub) },
		"oamp":   func(n float64, t string) { r.rx.onAmp(n, t) },
		"osub":   func(n1 float64, t string, n2 float64, u string) { r.rx.onSub(n1, t, n2, u) },
	}
	r.flatProg = awk.MustParse(c10FlatSrc, r.funcs)
	r.rxProg = awk.MustParse(c10RegexSrc, r.funcs)
	return r
}

// runFlat executes the cases in one mode and returns the observations.
func (r *c10Runner) runFlat(c *core.Ctx, cases []c10Flat, chars bool) []c10FlatObs {
	r.rx = nil
	r.cases = cases
	r.obs = make([]c10FlatObs, len(cases))
	r.cur = -1
	for r.cur < len(cases)-1 {
		before := r.cur
		res := awk.Exec(r.flatProg, &interp.Config{Funcs: r.funcs, Chars: chars})
		if r.cur == before {
			panic("c10: batch program made no progress: " + res.ErrString())
		}
		if r.cur >= 0 && r.cur < len(cases) && !r.obs[r.cur].done {
			if res.Panic != "" {
				r.obs[r.cur].panic = firstLine(res.Panic)
			} else if res.Err != nil {
				r.obs[r.cur].err = res.Err.Error()
			}
		}
		if res.Panic == "" && res.Err == nil {
			break
		}
	}
	c.Eval(int64(len(cases)))
	obs := r.obs
	r.cases, r.obs = nil, nil
	return obs
}

// ---------------------------------------------------------------- flat oracles

func c10Huge(x float64) string {
	if math.IsInf(x, 0) || math.Abs(x) >= c10Two63 {
		if x < 0 {
			return "neghuge"
		}
		return "huge"
	}
	return ""
}

func c10SubstrSig(f c10Flat) string {
	// a positive out-of-range value is the one whose conversion goes wrong, so
	// it is named first; negative ones second
	hp, hl := c10Huge(f.p), ""
	if f.kind == c10KSubstr3 {
		hl = c10Huge(f.l)
	}
	switch {
	case hp == "huge":
		return "substr-pos-huge"
	case hl == "huge":
		return "substr-len-huge"
	case hp == "neghuge":
		return "substr-pos-neghuge"
	case hl == "neghuge":
		return "substr-len-neghuge"
	}
	return "substr-mismatch"
}

func c10CharAligned(s, sub string) bool {
	u := c10Units(s, true)
	off := 0
	for i := 0; i <= len(u); i++ {
		if strings.HasPrefix(s[off:], sub) {
			// end must be on a boundary too
			end := off + len(sub)
			o2 := off
			for j := i; j <= len(u); j++ {
				if o2 == end {
					return true
				}
				if j < len(u) {
					o2 += len(u[j])
				}
			}
		}
		if i < len(u) {
			off += len(u[i])
		}
	}
	return false
}

func c10CheckFlat(c *core.Ctx, f c10Flat, o c10FlatObs, chars bool) {
	mode := " mode=" + c10ModeName(chars)
	cs := f.toCase(chars)
	kn := c10KindNames[f.kind]
	if o.panic != "" {
		c10Fail(c, "panic "+kn+mode, cs, "panic: "+o.panic)
		return
	}
	if o.err != "" {
		c10Fail(c, "error "+kn+mode, cs, "error: "+o.err)
		return
	}
	if !o.done {
		c10Fail(c, "not-evaluated "+kn+mode, cs, "the call produced no result")
		return
	}
	u := c10Units(f.s, chars)
	switch f.kind {
	case c10KLength:
		c.Outcome(fmt.Sprintf("length %v", o.num))
		if o.num != float64(len(u)) {
			c10Fail(c, "length"+mode, cs, fmt.Sprintf("length(%q) = %v, want %d", f.s, o.num, len(u)))
		}
	case c10KSubstr2, c10KSubstr3:
		c.Outcome("substr " + o.str)
		if math.IsNaN(f.p) || (f.kind == c10KSubstr3 && math.IsNaN(f.l)) {
			// no-crash only; in character mode the result must still be made of whole characters of s
			if chars && !c10CharAligned(f.s, o.str) {
				c10Fail(c, "substr-nan-cuts-char"+mode, cs, fmt.Sprintf("got %q which is not a run of whole characters of %q", o.str, f.s))
			}
			return
		}
		want := c10SubstrModel(u, f.p, f.kind == c10KSubstr3, f.l)
		if o.str != want {
			args := c10F(f.p)
			if f.kind == c10KSubstr3 {
				args += ", " + c10F(f.l)
			}
			c10Fail(c, c10SubstrSig(f)+mode, cs, fmt.Sprintf("substr(%q, %s) = %q, want %q", f.s, args, o.str, want))
		}
	case c10KInt:
		c.Outcome("int " + c10F(o.num))
		if math.IsNaN(f.x) || math.IsInf(f.x, 0) {
			return
		}
		want := math.Trunc(f.x)
		if o.num != want {
			sig := "int-mismatch"
			if c10Huge(f.x) != "" {
				sig = "int-huge"
			}
			c10Fail(c, sig, cs, fmt.Sprintf("int(%s) = %s, want %s", c10F(f.x), c10F(o.num), c10F(want)))
		}
	case c10KIndex:
		c.Outcome(fmt.Sprintf("index %v %s", o.num, o.str))
		if f.t == "" {
			return // index(s, "") is 0 in some awks and 1 in others: no-crash only
		}
		// first occurrence; in character mode an occurrence begins and ends between
		// characters of s (only then substr(s, index(s, t), length(t)) == t can hold)
		bound := map[int]bool{0: true}
		off := 0
		for _, x := range c10Units(f.s, true) {
			off += len(x)
			bound[off] = true
		}
		b := -1
		for i := 0; i+len(f.t) <= len(f.s); i++ {
			if f.s[i:i+len(f.t)] == f.t && (!chars || bound[i] && bound[i+len(f.t)]) {
				b = i
				break
			}
		}
		want := 0.0
		if b >= 0 {
			want = float64(len(c10Units(f.s[:b], chars)) + 1)
		}
		if o.num != want {
			c10Fail(c, "index-pos"+mode, cs, fmt.Sprintf("index(%q, %q) = %v, want %v", f.s, f.t, o.num, want))
		} else if b >= 0 && o.str != f.t {
			c10Fail(c, "index-substr"+mode, cs, fmt.Sprintf("i=index(%q, %q)=%v but substr(s, i, length(t)) = %q", f.s, f.t, o.num, o.str))
		}
	case c10KSplit:
		n := int(o.num)
		var pieces []string
		bad := ""
		if o.dup {
			bad = "duplicate keys"
		}
		if float64(n) != o.num || o.num2 != o.num || len(o.keys) != n {
			bad = fmt.Sprintf("returned %v but the array has %d elements (length() says %v)", o.num, len(o.keys), o.num2)
		} else {
			for i := 1; i <= n; i++ {
				p, ok := o.keys[strconv.Itoa(i)]
				if !ok {
					bad = fmt.Sprintf("element %d of %d is missing", i, n)
					break
				}
				pieces = append(pieces, p)
			}
		}
		obs := fmt.Sprintf("n=%v pieces=%q", o.num, pieces)
		c.Outcome("split " + obs)
		if bad != "" {
			ks := make([]string, 0, len(o.keys))
			for k := range o.keys {
				ks = append(ks, k)
			}
			sort.Strings(ks)
			c10Fail(c, "split-array"+mode, cs, fmt.Sprintf("split(%q, a, %q): %s; keys %q", f.s, f.sep, bad, ks))
			return
		}
		if strings.Join(pieces, f.sep) != f.s {
			c10Fail(c, "split-join"+mode, cs, fmt.Sprintf("split(%q, a, %q): %s; joined %q", f.s, f.sep, obs, strings.Join(pieces, f.sep)))
			return
		}
		for _, p := range pieces {
			if strings.Contains(p, f.sep) {
				c10Fail(c, "split-piece-contains-sep"+mode, cs, fmt.Sprintf("split(%q, a, %q): %s", f.s, f.sep, obs))
				return
			}
		}
		if f.s != "" && n == 0 {
			c10Fail(c, "split-join"+mode, cs, fmt.Sprintf("split(%q, a, %q): %s", f.s, f.sep, obs))
		}
	}
}

// c10FlatUnit runs the cases in the given modes, checks each, and (when both
// modes are run) checks that NaN arguments, for which nothing but "no crash"
// is demanded otherwise, at least give the same result in both modes on ASCII.
func c10FlatUnit(c *core.Ctx, r *c10Runner, cases []c10Flat, modes []bool) {
	var all [][]c10FlatObs
	for _, chars := range modes {
		c.Announce(map[string]any{"kind": "flat-batch", "mode": c10ModeName(chars), "first": cases[0].toCase(chars), "n": len(cases)})
		obs := r.runFlat(c, cases, chars)
		for i := range cases {
			c10CheckFlat(c, cases[i], obs[i], chars)
		}
		all = append(all, obs)
		c.Add("states", int64(len(cases)))
		c.Add("transitions", int64(len(cases)))
	}
	if len(all) == 2 {
		for i, f := range cases {
			if (f.kind == c10KSubstr2 || f.kind == c10KSubstr3) && c10IsASCII(f.s) && (math.IsNaN(f.p) || (f.kind == c10KSubstr3 && math.IsNaN(f.l))) {
				a, b := all[0][i], all[1][i]
				if a.done && b.done && a.str != b.str {
					c10Fail(c, "substr-nan-ascii-modes-disagree", f.toCase(false), fmt.Sprintf("bytes %q, chars %q", a.str, b.str))
				}
			}
		}
	}
}

// ---------------------------------------------------------------- regex group

func c10ParsePat(pat string) ([]*c10Atom, bool) {
	// top-level alternation: X|Y (the | inside (a|b) is at depth 1)
	depth := 0
	for i := 0; i < len(pat); i++ {
		switch pat[i] {
		case '(', '[':
			depth++
		case ')', ']':
			depth--
		case '|':
			if depth == 0 {
				l, ok1 := c10ParsePat(pat[:i])
				r, ok2 := c10ParsePat(pat[i+1:])
				if !ok1 || !ok2 {
					return nil, false
				}
				var branches [][]*c10Atom
				for _, side := range [][]*c10Atom{l, r} {
					if len(side) == 1 && side[0].kind == c10TopAlt {
						branches = append(branches, side[0].branches...)
					} else {
						branches = append(branches, side)
					}
				}
				return []*c10Atom{{src: pat, kind: c10TopAlt, branches: branches}}, true
			}
		}
	}
	var atoms []*c10Atom
	for pat != "" {
		best := -1
		for i := range c10Atoms {
			if strings.HasPrefix(pat, c10Atoms[i].src) && (best < 0 || len(c10Atoms[i].src) > len(c10Atoms[best].src)) {
				best = i
			}
		}
		if best < 0 {
			return nil, false
		}
		atoms = append(atoms, &c10Atoms[best])
		pat = pat[len(c10Atoms[best].src):]
	}
	return atoms, true
}

func (x *c10Rx) caseFor(repl string, all bool) c10Case {
	cs := c10Case{Kind: "regex", Mode: c10ModeName(x.chars), S: c10Q(x.s), Pat: c10Q(x.pat), Repl: c10Q(repl), All: all, Fill: x.fill, Pre: x.pre}
	flag := "goawk "
	if x.chars {
		flag = "goawk -c "
	}
	rp := repl
	if all {
		rp = "&"
	}
	cs.Prog = flag + "'BEGIN{s=" + c10AwkStr(x.s) + "; r=" + c10AwkStr(x.pat) + "; print match(s,r), RSTART, RLENGTH; t=s; print sub(r," + c10AwkStr(rp) + ",t), t; t=s; print gsub(r," + c10AwkStr(rp) + ",t), t}'"
	return cs
}

func (x *c10Rx) nextSubject() int {
	x.si++
	if x.si >= len(x.subs) {
		return 0
	}
	x.s = x.subs[x.si]
	x.ri = -1
	x.stage = "match"
	x.models = x.models[:0]
	x.unitsMod = x.unitsMod[:0]
	// character-stepping model always; in byte mode on non-ASCII subjects a
	// byte-stepping matcher is an equally valid reading, accept either.
	u := c10Units(x.s, true)
	x.unitsMod = append(x.unitsMod, u)
	x.models = append(x.models, c10AllMatches(x.atoms, u))
	if !x.chars && !c10IsASCII(x.s) {
		ub := c10Units(x.s, false)
		x.unitsMod = append(x.unitsMod, ub)
		x.models = append(x.models, c10AllMatches(x.atoms, ub))
	}
	x.c.Add("states", 1)
	return 1
}

func (x *c10Rx) nextRepl() int {
	x.ri++
	if x.ri >= len(x.repls) {
		return 0
	}
	x.stage = "sub"
	return 1
}

func (x *c10Rx) sigTail() string {
	e := "0"
	if x.emptyPat {
		e = "1"
	}
	t := " empty=" + e + " mode=" + c10ModeName(x.chars)
	if x.pre > 0 {
		t += " after-other-regex-use"
	}
	return t
}

func (x *c10Rx) onMatch(m, rstart, rlength float64, sub string) {
	c := x.c
	c.Eval(2)
	c.Add("transitions", 2)
	x.stage = "gsub-amp"
	obs := fmt.Sprintf("match(%q, %q) = %v RSTART=%v RLENGTH=%v substr(s,RSTART,RLENGTH)=%q", x.s, x.pat, m, rstart, rlength, sub)
	c.Outcome(fmt.Sprintf("m %v %v %q", rstart, rlength, sub))
	// cross-check of the model matcher against Go's regexp (a note, not an oracle)
	if x.gore != nil {
		loc := x.gore.FindStringIndex(x.s)
		ms := x.models[0]
		if (loc == nil) != (len(ms) == 0) || (loc != nil && (loc[0] != ms[0].b0 || loc[1] != ms[0].b1)) {
			c.NoteMax("model_vs_go_regexp_disagreements", 1)
		}
	}
	var wants []string
	for _, ms := range x.models {
		var ws, wl float64 = 0, -1
		wsub := ""
		if len(ms) > 0 {
			first := ms[0]
			wsub = x.s[first.b0:first.b1]
			if x.chars {
				ws = float64(len(c10Units(x.s[:first.b0], true)) + 1)
				wl = float64(len(c10Units(wsub, true)))
			} else {
				ws = float64(first.b0 + 1)
				wl = float64(first.b1 - first.b0)
			}
		}
		if m == ws && rstart == ws && rlength == wl {
			if len(ms) > 0 && sub != wsub {
				c10Fail(c, "match-substr"+x.sigTail(), x.caseFor("&", true), obs+fmt.Sprintf("; want the match %q", wsub))
			}
			return
		}
		wants = append(wants, fmt.Sprintf("RSTART=%v RLENGTH=%v (match %q)", ws, wl, wsub))
	}
	c10Fail(c, "match-pos"+x.sigTail(), x.caseFor("&", true), obs+"; want "+strings.Join(wants, " or "))
}

func (x *c10Rx) onAmp(n float64, t string) {
	c := x.c
	c.Eval(1)
	c.Add("transitions", 1)
	x.stage = "repl"
	c.Outcome(fmt.Sprintf("amp %v %q", n, t))
	if t != x.s {
		c10Fail(c, "gsub-amp-changed"+x.sigTail(), x.caseFor("&", false), fmt.Sprintf("t=%q; gsub(%q, \"&\", t) gave t=%q", x.s, x.pat, t))
		return
	}
	var wants []string
	for _, ms := range x.models {
		if n == float64(len(ms)) {
			return
		}
		wants = append(wants, strconv.Itoa(len(ms)))
	}
	c10Fail(c, "gsub-amp-count"+x.sigTail(), x.caseFor("&", false), fmt.Sprintf("gsub(%q, \"&\", %q) returned %v, want %s", x.pat, x.s, n, strings.Join(wants, " or ")))
}

func (x *c10Rx) onSub(n1 float64, t string, n2 float64, u string) {
	c := x.c
	c.Eval(2)
	c.Add("transitions", 2)
	repl := x.repls[x.ri]
	c.Outcome("s" + t + "\x00" + u)
	var wants []string
	for _, ms := range x.models {
		for _, gawk := range []bool{false, true} {
			first := ms
			if len(first) > 1 {
				first = first[:1]
			}
			wt := c10Replace(x.s, first, repl, gawk)
			wu := c10Replace(x.s, ms, repl, gawk)
			if n1 == float64(len(first)) && n2 == float64(len(ms)) && t == wt && u == wu {
				return
			}
			if w := fmt.Sprintf("sub=%d,%q gsub=%d,%q", len(first), wt, len(ms), wu); len(wants) == 0 || wants[len(wants)-1] != w {
				wants = append(wants, w)
			}
			if !strings.Contains(repl, `\`) {
				break
			}
		}
	}
	// classify
	ms := x.models[0]
	nf := 0
	if len(ms) > 0 {
		nf = 1
	}
	sig := "gsub-result"
	switch {
	case n1 != float64(nf):
		sig = "sub-count"
	case n2 != float64(len(ms)):
		sig = "gsub-count"
	case t != c10Replace(x.s, ms[:nf], repl, false) && t != c10Replace(x.s, ms[:nf], repl, true):
		sig = "sub-result"
	}
	bs := " bs=0"
	if strings.Contains(repl, `\`) {
		bs = " bs=1"
	}
	if c10Capped(c, sig+bs+x.sigTail()) {
		return
	}
	c.Fail(sig+bs+x.sigTail(), x.caseFor(repl, false),
		fmt.Sprintf("s=%q r=%q repl=%q: sub=%v,%q gsub=%v,%q; want %s", x.s, x.pat, repl, n1, t, n2, u, strings.Join(wants, " or ")))
}

// c10RegexUnit: one pattern, one mode, all subjects x all replacements.
func c10RegexUnit(c *core.Ctx, r *c10Runner, pat string, chars bool, subs, repls []string) {
	atoms, ok := c10ParsePat(pat)
	if !ok {
		panic("c10: pattern not in the atom grammar: " + pat)
	}
	x := &c10Rx{c: c, pat: pat, atoms: atoms, chars: chars, subs: subs, repls: repls, si: -1, fill: r.fill, pre: r.pre}
	_, _, x.emptyPat = c10Find(atoms, nil, 0)
	if re, err := regexp.Compile("(?s:" + pat + ")"); err == nil {
		re.Longest()
		x.gore = re
	}
	r.rx = x
	defer func() { r.rx = nil }()
	c.Announce(map[string]any{"kind": "regex-batch", "pat": c10Q(pat), "mode": c10ModeName(chars)})
	for x.si < len(subs)-1 {
		res := awk.Exec(r.rxProg, &interp.Config{Funcs: r.funcs, Chars: chars, Vars: []string{"fill", strconv.Itoa(r.fill), "pre", strconv.Itoa(r.pre)}})
		if res.Panic == "" && res.Err == nil {
			break
		}
		repl, all := "&", true
		if x.ri >= 0 && x.ri < len(repls) {
			repl, all = repls[x.ri], false
		}
		if x.si < 0 {
			x.s = ""
		}
		if res.Panic != "" {
			c10Fail(c, "panic regex stage="+x.stage+x.sigTail(), x.caseFor(repl, all), "panic: "+firstLine(res.Panic))
		} else {
			c10Fail(c, "error regex stage="+x.stage+x.sigTail(), x.caseFor(repl, all), "error: "+res.Err.Error())
			break // a run-time error for this pattern would repeat for every subject
		}
		if x.si < 0 {
			break
		}
	}
}

// ---------------------------------------------------------------- enumeration

func c10Subjects(maxLen int) []string {
	var out []string
	for n := 0; n <= maxLen; n++ {
		enumStrings(c10SubjAlpha, n, func(s string) { out = append(out, s) })
	}
	return out
}

func c10Patterns(maxAtoms int) []string {
	src := make([]string, len(c10Atoms))
	for i := range c10Atoms {
		src[i] = c10Atoms[i].src
	}
	var out []string
	for n := 0; n <= maxAtoms; n++ {
		enumStrings(src, n, func(s string) { out = append(out, s) })
	}
	return out
}

// c10AltPatterns: X|Y for all sequences X, Y of 1..2 atoms over {a b ^ $ a*}
// (an anchor that binds only one branch: "^a|b", "a|b$", "^a*|b").
func c10AltPatterns() []string {
	var seqs []string
	for n := 1; n <= 2; n++ {
		enumStrings([]string{"a", "b", "^", "$", "a*"}, n, func(s string) { seqs = append(seqs, s) })
	}
	var out []string
	for _, x := range seqs {
		for _, y := range seqs {
			out = append(out, x+"|"+y)
		}
	}
	return out
}

func c10Repls(maxTok int) []string {
	seen := map[string]bool{}
	var out []string
	for n := 0; n <= maxTok; n++ {
		enumStrings(c10ReplTokens, n, func(s string) {
			if !seen[s] {
				seen[s] = true
				out = append(out, s)
			}
		})
	}
	return out
}

var c10BothModes = []bool{false, true}

func c10Run(c *core.Ctx) {
	// the live heap is tiny and the allocation rate high: collect less often
	defer debug.SetGCPercent(debug.SetGCPercent(800))
	r := newC10Runner()
	subjLen := 3
	if c.Thorough() {
		subjLen = 4
	}
	subjects := c10Subjects(subjLen)

	// (1) int()
	if c.Mine() {
		var cases []c10Flat
		for _, x := range c10IntArgs {
			cases = append(cases, c10Flat{kind: c10KInt, x: x})
		}
		c10FlatUnit(c, r, cases, []bool{false})
		c.Sample(map[string]any{"group": "int", "args": len(cases)})
	}

	// (2) length / substr: every subject x every position x every length
	for _, s := range subjects {
		if c.Expired() {
			return
		}
		if !c.Mine() {
			continue
		}
		cases := []c10Flat{{kind: c10KLength, s: s}}
		for _, p := range c10Nums {
			cases = append(cases, c10Flat{kind: c10KSubstr2, s: s, p: p})
			for _, l := range c10Nums {
				cases = append(cases, c10Flat{kind: c10KSubstr3, s: s, p: p, l: l})
			}
		}
		c10FlatUnit(c, r, cases, c10BothModes)
		if s == "aé" {
			c.Sample(map[string]any{"group": "substr", "subject": s, "positions": len(c10Nums), "lengths": len(c10Nums) + 1, "modes": 2})
		}
	}

	// (3) index: every subject x every needle of length <= 2
	needles := c10Subjects(2)
	for _, s := range subjects {
		if !c.Mine() {
			continue
		}
		var cases []c10Flat
		for _, t := range needles {
			cases = append(cases, c10Flat{kind: c10KIndex, s: s, t: t})
		}
		c10FlatUnit(c, r, cases, c10BothModes)
	}

	// (4) split with a single-character separator: every string over {a, é, \xff, sep}
	for _, sep := range c10SplitSeps {
		if !c.Mine() {
			continue
		}
		alpha := []string{"a", sep}
		if sep != "é" {
			alpha = append(alpha, "é")
		}
		if sep != "\xff" {
			alpha = append(alpha, "\xff")
		}
		var cases []c10Flat
		for n := 0; n <= subjLen+1; n++ {
			enumStrings(alpha, n, func(s string) { cases = append(cases, c10Flat{kind: c10KSplit, s: s, sep: sep}) })
		}
		c10FlatUnit(c, r, cases, c10BothModes)
	}

	// (5) match / sub / gsub: every pattern x every subject x every replacement
	pats := append(c10Patterns(3), c10AltPatterns()...)
	repls := c10Repls(3)
	for _, pat := range pats {
		if c.Expired() {
			return
		}
		if !c.Mine() {
			continue
		}
		for _, chars := range c10BothModes {
			c10RegexUnit(c, r, pat, chars, subjects, repls)
		}
		if pat == "a*b?" {
			c.Sample(map[string]any{"group": "regex", "pattern": pat, "subjects": len(subjects), "replacements": len(repls), "modes": 2})
		}
	}

	// (5b) the same with the regex cache already full (130 other dynamic regexes
	// compiled first) for the patterns on which leftmost-first and
	// leftmost-longest differ: what is compiled late must behave like what is
	// compiled first
	r.fill = 130
	for _, pat := range pats {
		if !strings.Contains(pat, "(a|ab)") && !(strings.Contains(pat, "|") && !strings.Contains(pat, "(")) {
			continue
		}
		if c.Expired() {
			return
		}
		if !c.Mine() {
			continue
		}
		for _, chars := range c10BothModes {
			c10RegexUnit(c, r, pat, chars, subjects, repls[:6])
		}
	}
	r.fill = 0

	// (5c) the same regex text first used by ~, !~ or split (for which the kind of
	// match does not matter) and only then by match / sub / gsub
	for pre := 1; pre <= 3; pre++ {
		r.pre = pre
		for _, pat := range pats {
			if !strings.Contains(pat, "(a|ab)") && !(strings.Contains(pat, "|") && !strings.Contains(pat, "(")) {
				continue
			}
			if c.Expired() {
				break
			}
			if !c.Mine() {
				continue
			}
			for _, chars := range c10BothModes {
				c10RegexUnit(c, r, pat, chars, subjects, repls[:6])
			}
		}
	}
	r.pre = 0

	// (6) thorough only: longer subjects (length 5) for the patterns of <=2 atoms
	if c.Thorough() {
		var long []string
		enumStrings(c10SubjAlpha, 5, func(s string) { long = append(long, s) })
		for _, pat := range c10Patterns(2) {
			if c.Expired() {
				return
			}
			if !c.Mine() {
				continue
			}
			for _, chars := range c10BothModes {
				c10RegexUnit(c, r, pat, chars, long, repls)
			}
		}
	}
}

func c10Replay(c *core.Ctx, raw json.RawMessage) {
	var cs c10Case
	if err := json.Unmarshal(raw, &cs); err != nil {
		panic(err)
	}
	r := newC10Runner()
	if cs.Kind == "regex" {
		repls := []string{unquoteGo(cs.Repl)}
		if cs.All {
			repls = c10Repls(3)
		}
		r.fill, r.pre = cs.Fill, cs.Pre
		c10RegexUnit(c, r, unquoteGo(cs.Pat), cs.Mode == "chars", []string{unquoteGo(cs.S)}, repls)
		return
	}
	f, ok := c10FlatFromCase(cs)
	if !ok {
		// announced batch of a crashed worker: nothing to re-run exactly
		return
	}
	modes := []bool{cs.Mode == "chars"}
	if (f.kind == c10KSubstr2 || f.kind == c10KSubstr3) && (math.IsNaN(f.p) || math.IsNaN(f.l)) {
		modes = c10BothModes
	}
	c10FlatUnit(c, r, []c10Flat{f}, modes)
}

func init() {
	core.Register(&core.Check{
		ID:    "C10",
		Level: "model_checking",
		Rule: "bounded-exhaustive enumeration against an executable model: every string of length <=3 (thorough <=4) over {a,b,é,\\xff} x " +
			"every position x every length from a fixed list of 44 numbers (fractions, negatives, 2^31, 2^53, 2^63-1024, 2^63, 2^64, 1e30, 1e308, +-inf, nan) for substr; " +
			"78 arguments for int() (75 finite); every subject x every needle of length <=2 for index; every string of length <=4 (5) over {a,é,\\xff,sep} for 14 single-character separators for split; " +
			"every regex of <=3 atoms from 13 atoms, and every top-level alternation X|Y of sequences of 1..2 atoms over {a b ^ $ a*} (900 patterns; these and the (a|ab) patterns also with 130 other regexes compiled first = regex cache full, and with the same regex text first used by ~, !~ or split), x every subject x every replacement of <=3 tokens over {&,\\&,\\\\,x,\\} for match/sub/gsub (thorough: also subjects of length 5 for regexes of <=2 atoms); all in byte mode and character mode. " +
			"A state is one argument tuple (mode, builtin, arguments); a transition is one builtin call on the real interpreter; distinct = distinct observed results",
		Assumptions: []string{
			"amd64 float-to-int conversion (out-of-range values become MinInt64); the model never relies on it",
			"a 'character' is a valid UTF-8 sequence or a single byte that is not part of one",
			"NaN positions/lengths and int(nan), int(+-inf): only 'no crash' (and, for substr, whole characters in character mode and equal results of both modes on ASCII)",
			"index(s, \"\") is 0 in some awks and 1 in others: no-crash only",
			"replacement backslashes not followed by &: both the POSIX reading (pairs collapse: goawk, mawk) and the gawk reading (kept literally) are accepted, consistently for sub and gsub; a run of k backslashes before & gives k/2 backslashes in both",
			"an empty match directly after the previous match is not a match (gsub(/a*/,\"-\",\"baaac\") = \"-b-c-\": goawk, mawk, gawk, POSIX examples)",
			"byte mode on non-ASCII subjects: the regex may step by characters or by bytes; results of either reading are accepted. Character mode and ASCII subjects: one answer",
			"split: besides join(pieces, sep) == s the check demands keys 1..n, n == length(a), and that no piece contains sep; split(\"\") may give 0 or 1 piece",
			"the model's own leftmost-longest matcher is the oracle; Go's regexp is only cross-checked against it (evidence note model_vs_go_regexp_disagreements, absent = 0)",
		},
		Run:    c10Run,
		Replay: c10Replay,
	})
}

package checks

import "strconv"

func unquoteGo(s string) string {
	q, err := strconv.Unquote(s)
	if err != nil {
		return ""
	}
	return q
}

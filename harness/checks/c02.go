package checks

import (
	"encoding/json"
	"fmt"
	"os"
	"path/filepath"
	"regexp"
	"strings"

	"github.com/benhoyt/goawk/interp"
	"github.com/benhoyt/goawk/parser"
	"github.com/benhoyt/goawk/vexp"

	"verifharness/awk"
	"verifharness/core"
	"verifharness/corpus"
	"verifharness/progenum"
)

// C02 — execution never crashes the host (shape B + bytecode automaton):
//  (a) hostile values in every argument position x configurations
//  (b) record-state interleavings in CSV mode
//  (c) every accepted program of a byte-level token space and of C01's space, under non-default configurations
//  (d) bytecode verifier on the compiled code of every program of (a)-(c) and the corpus (all inputs of that program)

var c02Values = []string{
	"log(-1)", "-log(0)", "log(0)", "1e30", "-1e30", "2^63", "-2^63", "2^53+1", "2^31", "1e6+1", "1e6", "-1", "-0", "0.5", "0", "1", "3",
	`""`, `"abc"`, `"\xff"`, `"a\x00b"`, `"１"`, `big`, `"("`, `"[["`, `"*"`, `"\\"`, `"%"`, `"%d%d%d"`, `"%*d"`, `"-"`, `"/dev/stdout"`, `"x=1"`, "$1", "$2", "u",
}

var c02ValuesQuick = []string{"log(-1)", "-log(0)", "1e30", "-1e30", "2^63", "-1", "0.5", "0", `""`, `"abc"`, `"\xff"`, `"a\x00b"`, `big`, `"("`, `"%*d"`, `"%"`, "$1", "u"}

// templates with V as the hostile value
var c02Templates = []string{
	`x = substr(V, 2, 3)`, `x = substr("hello", V)`, `x = substr("hello", V, 2)`, `x = substr("hello", 2, V)`, `x = substr(V, V, V)`,
	`x = index(V, "l")`, `x = index("hello", V)`, `x = length(V)`, `n = split(V, arr)`, `n = split("a b.c", arr, V)`, `n = split(V, arr, V)`,
	`s = "banana"; n = sub(V, "x", s)`, `s = "banana"; n = sub(/a/, V, s)`, `s = "banana"; n = gsub(V, "x", s)`, `s = "banana"; n = gsub(/a/, V, s)`, `n = gsub(/a/, "x", $V)`, `n = sub(V, V)`,
	`x = match(V, /a/)`, `x = match("abc", V)`, `x = match(V, V)`,
	`x = sprintf(V)`, `x = sprintf(V, 1, 2, 3)`, `x = sprintf(V, 1, 2, 3); y = sprintf(V, 1); z = sprintf(V)`, `printf V, 1, 2, 3; printf V, 1; printf V`, `x = sprintf("%c", V)`, `x = sprintf("%d", V)`, `x = sprintf("%*d", V, 5)`, `x = sprintf("%.*f", V, 1.5)`, `x = sprintf("%5.3s", V)`,
	`x = sprintf("%x %o %u %e %g %i %E %G %X", V, V, V, V, V, V, V, V, V)`, `x = sprintf("%-*s|%*c", V, "x", V, 65)`, `printf V`, `printf "%s %d %c\n", V, V, V`, `printf("%5.2f\n", V)`,
	`x = tolower(V)`, `x = toupper(V)`, `x = int(V)`, `x = sin(V) + cos(V)`, `x = atan2(V, 1)`, `x = atan2(1, V)`, `x = exp(V)`, `x = log(V)`, `x = sqrt(V)`, `x = srand(V); y = rand(); z = srand()`,
	`x = close(V)`, `x = fflush(V)`, `x = $V`, `$V = 1`, `$(V) = "x y"`, `$V++`, `$V += V`, `x = $V $V`, `NF = V`, `NF += V`, `NF++`, `x = NF; NF = V; x = $0`, `ARGC = V`, `NR = V`, `FNR = V; x = FNR`,
	`arr[V] = 1`, `x = (V in arr)`, `delete arr[V]`, `arr[V, V] = V`, `x = arr[V]++`, `for (k in arr) delete arr[k]`,
	`x = 2 ^ V`, `x = V ^ 2`, `x = V ^ V`, `x = 5 % V`, `x = V % 5`, `x = 1 / V`, `x = V * V + V - V`, `x = -V; y = +V; z = !V`, `x++ ; x = V; x++; x--; x += V; x ^= V`,
	`x = (V ~ V)`, `x = ("abc" ~ V)`, `x = ($0 ~ V)`, `x = (V !~ "a")`, `x = (V < V) (V <= 1) (V == "a") (V != V) (V > 0) (V >= $1)`, `x = V ? V : V`, `x = V && V || V`,
	`x = (getline line < V)`, `x = (getline < V)`, `print "p" > V`, `print "p" >> V`, `printf "p" > V`,
	`print V, V`, `print V V`, `for (i = 0; i < V; i++) break`, `while (V) break`, `do { n++ } while (V && n < 3)`, `if (V) x = 1; else x = 2`,
	`CONVFMT = V; x = 0.1 ""; y = arr[0.1]`, `OFMT = V; print 0.1, 17`, `SUBSEP = V; arr[1, 2] = 3; for (k in arr) x = k`, `OFS = V; $2 = "q"; print; print 1, 2`, `ORS = V; print "r"`,
	`FS = V; $0 = "a b,c"; x = $1 NF`, `RS = V; x = (getline y)`,
	// a reader that is already splitting with a regex RS (or paragraph mode) when RS / FS change
	`RS = "[ ,b]+"; x = (getline y); RS = V; x = x (getline z) (getline w); print x, y, z, w`, `RS = ""; x = (getline y); RS = V; x = x (getline z); print y z`,
	`RS = "(1|h)+"; getline; RS = V; getline; getline; print NF, $0`,
	`RS = "[1,]+"; x = (getline y < "f.csv"); RS = V; x = x (getline z < "f.csv") (getline w < "f.csv"); close("f.csv"); RS = "\n"; print x, y, z, w`,
	`RS = ""; x = (getline y < "f.csv"); RS = V; x = x (getline z < "f.csv"); close("f.csv"); RS = "\n"`, `FS = "[ ,]+"; $0 = "a b,c"; x = $2; FS = V; $0 = "d e,f"; x = x $2 NF`, `RSTART = V; RLENGTH = V; x = substr("abc", RSTART, RLENGTH)`, `FILENAME = V; x = FILENAME`, `RT = V`,
	`$0 = huge; x = NF length($1) length()`, `print huge; printf "%s|%5s|%.3s|%c\n", huge, huge, huge, huge`, `x = tolower(huge) toupper(huge); y = substr(huge, V, V) index(huge, "y") index(huge, V)`, `arr[huge] = huge; x = (huge in arr); $2 = huge; $(V) = huge`,
	`n = split(huge, arr); n = split(huge, arr, "y"); n = split(huge, arr, V)`, `x = huge ""; x = huge + 0; x = (huge < V); x = -huge`, `print huge > "/dev/stdout"; print huge | "cat"; close("cat")`, `s = huge; n = gsub(/y/, V, s); n = sub(/ +/, "&&", s)`,
	`x = (getline l < "-"); y = close("-"); z = close("-")`, `x = (getline < "-"); print close("-") close("nosuch") close("")`, `x = (getline l < V); y = close(V); z = close(V)`,
	`print "p" > V; y = close(V); z = close(V); w = fflush(V)`, `y = close(V); w = fflush(V)`, `print "p" | "cat"; y = close("cat"); z = close("cat"); "echo e" | getline l; close("echo e"); close("echo e")`,
	`INPUTMODE = V`, `OUTPUTMODE = V; print 1, "a,b"`, `x = @V`, `exit V`, `return_(V)`, `x = f2(V, V)`, `x = deep(V)`,
}

const c02Funcs = `
function return_(v) { return v }
function f2(a, b) { a = a b; return length(a) }
function deep(n) { if (n > 3) n = 3; return n > 0 ? deep(n - 1) + 1 : 0 }
`

type c02Config struct {
	Chars bool   `json:"chars"`
	Mode  string `json:"mode"` // default, csv, tsv, csvheader
	Flags bool   `json:"flags"`
}

func c02Configs(thorough bool) []c02Config {
	var out []c02Config
	for _, ch := range []bool{false, true} {
		for _, m := range []string{"default", "csv", "tsv", "csvheader"} {
			for _, fl := range []bool{false, true} {
				if !thorough && ((ch && m == "tsv") || (!ch && m == "csvheader" && fl)) {
					continue
				}
				out = append(out, c02Config{ch, m, fl})
			}
		}
	}
	return out
}

func (cf c02Config) apply(cfg *interp.Config) {
	cfg.Chars = cf.Chars
	switch cf.Mode {
	case "csv":
		cfg.InputMode = interp.CSVMode
	case "tsv":
		cfg.InputMode = interp.TSVMode
		cfg.OutputMode = interp.TSVMode
	case "csvheader":
		cfg.InputMode = interp.CSVMode
		cfg.CSVInput.Header = true
		cfg.OutputMode = interp.CSVMode
	}
	if cf.Flags {
		cfg.NoExec, cfg.NoFileReads, cfg.NoFileWrites = true, true, true
	}
}

type c02Case struct {
	Part   string    `json:"part"`
	Src    string    `json:"src"`
	Input  string    `json:"input"`
	Cfg    c02Config `json:"cfg"`
	Vars   []string  `json:"vars,omitempty"`
	Args   []string  `json:"args,omitempty"`
	Expect string    `json:"expect,omitempty"` // "error": the run must return an error
}

var c02Inputs = []string{"a b c\n", "1,2,\"x,y\"\n3,4\n", "h1,h2\n\"q\"\"uote\",é\n\n# c\n\xff\xfe,\x00\n", ""}

var c02Dir string

// c02Exec runs one case; returns the outcome class.
func c02Exec(c *core.Ctx, cs c02Case, prog *parser.Program) {
	if prog == nil {
		p, err, pn := awk.Parse(cs.Src, nil)
		if pn != "" {
			c.Fail("parse-panic", cs, firstLine(pn))
			return
		}
		if err != nil {
			c.Add("rejected_by_parser", 1)
			return
		}
		prog = p
	}
	c.Announce(cs)
	cfg := &interp.Config{Stdin: strings.NewReader(cs.Input), Vars: cs.Vars, Args: cs.Args, Environ: []string{"HOME", "/h"}, ShellCommand: []string{"/bin/true"}}
	cs.Cfg.apply(cfg)
	steps := 0
	vexp.SetStepFn(func() {
		steps++
		if steps > 20000 {
			panic(stepBudget{})
		}
	})
	res := awk.Exec(prog, cfg)
	vexp.SetStepFn(nil)
	c.Eval(1)
	c.Add("transitions", 1)
	switch {
	case strings.Contains(res.Panic, "stepBudget"):
		c.Add("step_budget_reached", 1)
		c.Outcome("budget")
	case res.Panic != "":
		c.Fail("panic:"+c02PanicClass(res.Panic), cs, firstLine(res.Panic)+" @ "+c02Where(res.Panic))
	case res.Err != nil:
		c.Outcome("error:" + c02ErrClass(res.Err.Error()))
	default:
		c.Outcome(fmt.Sprintf("ok:%d", res.Status))
		if cs.Expect == "error" {
			c.Fail("expected-error-missing", cs, fmt.Sprintf("status=%d out=%q", res.Status, trunc(res.Out, 80)))
		}
	}
}

func c02ErrClass(s string) string {
	f := strings.Fields(s)
	if len(f) > 3 {
		f = f[:3]
	}
	return strings.Join(f, " ")
}

func c02PanicClass(p string) string {
	l := firstLine(p)
	switch {
	case strings.Contains(l, "index out of range"):
		l = "index out of range"
	case strings.Contains(l, "slice bounds out of range"):
		l = "slice bounds out of range"
	case strings.Contains(l, "nil pointer"):
		l = "nil pointer dereference"
	case strings.Contains(l, "regexp"):
		l = "regexp compile"
	}
	return strings.ReplaceAll(l, " ", "-") + "@" + c02Where(p)
}

// c02Where: first goawk frame of the panic trace (function name only; stable across line shifts)
func c02Where(p string) string {
	for _, line := range strings.Split(p, "\n") {
		line = strings.TrimSpace(line)
		if strings.HasPrefix(line, "github.com/benhoyt/goawk/") && !strings.Contains(line, "/vexp") && !strings.Contains(line, "/internal/vhook") {
			if i := strings.LastIndexByte(line, '('); i > 0 {
				line = line[:i]
			}
			return strings.TrimPrefix(line, "github.com/benhoyt/goawk/")
		}
	}
	return "?"
}

var c02VRe = regexp.MustCompile(`\bV\b`)

func c02Subst(t, v string) string {
	return c02VRe.ReplaceAllLiteralString(t, v)
}

func c02Wrap(stmt string) string {
	return "BEGIN { big = sprintf(\"%3000s\", \"x\"); huge = sprintf(\"%70000s\", \"y\"); arr[1] = 1 }\n{ " + stmt + " }\nEND { " + stmt + " }" + c02Funcs
}

func c02Hostile(c *core.Ctx) {
	vals := c02ValuesQuick
	if c.Thorough() {
		vals = c02Values
	}
	cfgs := c02Configs(c.Thorough())
	for ti, t := range c02Templates {
		for _, v := range vals {
			if !c02VRe.MatchString(t) {
				if v != vals[0] {
					continue
				}
			}
			if !c.Mine() || c.Expired() {
				continue
			}
			src := c02Wrap(c02Subst(t, v))
			prog, err, pn := awk.Parse(src, nil)
			if pn != "" {
				c.Fail("parse-panic", c02Case{Part: "a", Src: src}, firstLine(pn))
				continue
			}
			if err != nil {
				c.Add("rejected_by_parser", 1)
				continue
			}
			c.Add("states", 1)
			c02Verify(c, src, prog)
			for _, cf := range cfgs {
				in := c02Inputs[(ti+len(v))%len(c02Inputs)]
				c02Exec(c, c02Case{Part: "a", Src: src, Input: in, Cfg: cf}, prog)
				if cf.Mode == "default" {
					c02Exec(c, c02Case{Part: "a", Src: src, Input: c02Inputs[0], Cfg: cf}, prog)
				}
			}
			if c.Shard == 0 && ti%20 == 0 {
				c.Sample(map[string]any{"part": "hostile value", "stmt": c02Subst(t, v)})
			}
		}
	}
	// runaway recursion, oversized indexes, invalid dynamic regexes: must be errors
	mustErr := []string{
		`function r(n) { return r(n + 1) } BEGIN { r(0) }`, `function a(n) { return b(n + 1) } function b(n) { return a(n) } BEGIN { a(0) }`,
		`function r(arr, n) { arr[n] = 1; r(arr, n + 1) } BEGIN { r(x, 0) }`, `BEGIN { $1000001 = 1 }`, `BEGIN { $(2^31) = 1 }`, `BEGIN { NF = 1000001 }`, `BEGIN { NF = -1 }`, `BEGIN { NF = 2^40 }`,
		`BEGIN { ARGC = 1000001 }`, `BEGIN { x = "abc" ~ "(" }`, `BEGIN { x = match("a", "[") }`, `BEGIN { sub("*", "x") }`, `BEGIN { n = split("a", arr, "(()") }`, `BEGIN { FS = "(("; $0 = "a b" }`, `BEGIN { RS = "[z" }`,
		`BEGIN { x = "a" ~ "\xff(" }`, `BEGIN { printf "%d" }`, `BEGIN { printf "%z", 1 }`, `BEGIN { x = 1 / 0 }`, `BEGIN { x = 1 % 0 }`, `BEGIN { INPUTMODE = "xyz" }`, `BEGIN { OUTPUTMODE = "csv separator=ab" }`,
		`BEGIN { INPUTMODE = "csv separator=\"" }`, `BEGIN { x = @"nofield" }`,
	}
	for _, src := range mustErr {
		if !c.Mine() {
			continue
		}
		prog, err, pn := awk.Parse(src, nil)
		if err != nil || pn != "" {
			continue
		}
		c.Add("states", 1)
		c02Verify(c, src, prog)
		for _, cf := range cfgs {
			c02Exec(c, c02Case{Part: "a-must-error", Src: src, Input: "x\n", Cfg: cf, Expect: "error"}, prog)
		}
	}
}

// separators and formats set through Vars: all byte strings of length <= 2 over 10 bytes
func c02Specials(c *core.Ctx) {
	alpha := []string{"a", "\n", "\xff", "\xc3", "\xa9", ".", "*", "(", "[", "\\"}
	progs := []string{
		`{ print $1, NF; $3 = "x"; print; n = split($0, a); x = a[1] 0.5 ""; y[0.5] = 1; print 0.25 } END { print NR, RT }`,
		`BEGIN { while ((getline line) > 0) n++; print n, 0.1 + 0.2, 1e6, 123456789012; a[1, 2] = 3; for (k in a) print k }`,
	}
	var parsed []*parser.Program
	for _, p := range progs {
		parsed = append(parsed, awk.MustParse(p, nil))
	}
	names := []string{"FS", "RS", "SUBSEP", "OFS", "ORS", "CONVFMT", "OFMT"}
	inputs := []string{"a b\nc\n", "a\xffb.a\n\n*(", "\xc3\xa9 \xc3(", "", "aa\na[a\\\n"}
	cfgs := []c02Config{{false, "default", false}, {true, "default", false}, {false, "csv", false}, {true, "tsv", true}}
	if !c.Thorough() {
		cfgs = cfgs[:2]
	}
	for _, name := range names {
		for n := 0; n <= 2; n++ {
			enumStrings(alpha, n, func(val string) {
				if !c.Mine() || c.Expired() {
					return
				}
				c.Add("states", 1)
				for pi, prog := range parsed {
					for ii, in := range inputs {
						if !c.Thorough() && (ii+pi)%2 == 1 {
							continue
						}
						for _, cf := range cfgs {
							c02Exec(c, c02Case{Part: "a-specials", Src: progs[pi], Input: in, Cfg: cf, Vars: []string{name, val}}, prog)
						}
					}
				}
			})
		}
	}
	modes := []string{"", "csv", "tsv", "csv header", "csv separator=|", "csv separator=", "csv separator=\xff", "csv comment=#", "csv comment=,", "xyz", "csv foo=bar", "csv separator=ab", "tsv header=maybe",
		"csv separator=\"", "csv separator=\n", "csv  header  comment=;", "csv separator=é", "csv separator=\x00", "tsv separator=\t comment=\t", "CSV", " csv", "csv header=false", "csv header=true comment=#"}
	for _, name := range []string{"INPUTMODE", "OUTPUTMODE"} {
		for _, val := range modes {
			if !c.Mine() {
				continue
			}
			c.Add("states", 1)
			for pi, prog := range parsed {
				for _, in := range c02Inputs {
					c02Exec(c, c02Case{Part: "a-modes", Src: progs[pi], Input: in, Cfg: c02Config{}, Vars: []string{name, val}}, prog)
				}
			}
		}
	}
}

// (b) record-state interleavings in CSV mode
func c02CSVStates(c *core.Ctx) {
	ops := []string{`x = $1 $3`, `getline`, `getline v`, `getline v < "f.csv"`, `getline < "f.csv"`, `$0 = "p,\"q,r\""`, `NF = 2`, `n = split($0, a); x = a[1]`, `$2 = "z"`, `x = $0; y = NF`, `$5 = "e"`, `sub(/,/, ";")`, `x = @"h1"`, `print; print $1, $2`, `INPUTMODE = ""`, `INPUTMODE = "tsv"`, `x = $3 $4; $4 = "w"`}
	os.WriteFile(filepath.Join(c02Dir, "f.csv"), []byte("f1,f2,\"f,3\"\ng1\n"), 0o644)
	maxLen := 3
	cfgs := []c02Config{{false, "csv", false}, {true, "csvheader", false}, {false, "tsv", false}}
	inputs := []string{"h1,h2,h3\n1,2,3\n4,\"5,5\",6\n7\n", "h1\n\"a\nb\",c\n", ""}
	for n := 1; n <= maxLen; n++ {
		idx := make([]int, n)
		for {
			if c.Mine() && !c.Expired() {
				var parts []string
				for _, k := range idx {
					parts = append(parts, ops[k])
				}
				src := "{ " + strings.Join(parts, "; ") + "; print NF, $0, $1, $3, $4; $3 = \"t\"; print }\nEND { " + strings.Join(parts, "; ") + " }"
				prog, err, pn := awk.Parse(src, nil)
				if pn != "" {
					c.Fail("parse-panic", c02Case{Part: "b", Src: src}, firstLine(pn))
				} else if err == nil {
					c.Add("states", 1)
					c02Verify(c, src, prog)
					for _, cf := range cfgs {
						for _, in := range inputs {
							c02Exec(c, c02Case{Part: "b", Src: src, Input: in, Cfg: cf}, prog)
						}
					}
				}
			}
			k := n - 1
			for k >= 0 {
				idx[k]++
				if idx[k] < len(ops) {
					break
				}
				idx[k] = 0
				k--
			}
			if k < 0 {
				break
			}
		}
	}
}

// (c) byte-level token space + C01's program space under non-default configurations
var c02Atoms = []string{"1", "e", "+", "-", ".", "x", `"a"`, "/", "/re/", "#", "\\\n", "\n", " ", "é", "(", ")", "{", "}", "$", "=", "==", "!", "~", ",", ";", "BEGIN", "function", "getline", "print", "in", "[", "]", "<", ">", "|", "++", "?", ":", "NF", "a", "f", "while", "%", "^", "*"}

func c02Programs(c *core.Ctx) {
	maxAtoms := 3
	if c.Thorough() {
		maxAtoms = 4
	}
	cfgs := []c02Config{{false, "default", false}, {true, "csvheader", true}}
	for n := 1; n <= maxAtoms; n++ {
		enumStrings(c02Atoms, n, func(src string) {
			if !c.Mine() || c.Expired() {
				return
			}
			prog, err, pn := awk.Parse(src, nil)
			if pn != "" {
				c.Fail("parse-panic", c02Case{Part: "c-atoms", Src: src}, firstLine(pn))
				return
			}
			c.Add("sources_tried", 1)
			if err != nil {
				return
			}
			c.Add("states", 1)
			c02Verify(c, src, prog)
			for _, cf := range cfgs {
				c02Exec(c, c02Case{Part: "c-atoms", Src: src, Input: "a b\n1,2\n", Cfg: cf}, prog)
			}
		})
	}
	f := func(pc progenum.Case) {
		if !c.Mine() || c.Expired() {
			return
		}
		prog, err, pn := awk.Parse(pc.Src, nil)
		if err != nil || pn != "" {
			return
		}
		c.Add("states", 1)
		c02Verify(c, pc.Src, prog)
		for _, cf := range []c02Config{{true, "csv", false}, {false, "tsv", true}} {
			c02Exec(c, c02Case{Part: "c-c01", Src: pc.Src, Input: "a b c\n1,2\n", Cfg: cf}, prog)
		}
	}
	progenum.EnumMisc(c.Thorough(), f)
	progenum.EnumBuiltins(c.Thorough(), f)
	progenum.EnumCalls(c.Thorough(), f)
	progenum.EnumControl(c.Thorough(), f)
	progenum.EnumPairs(c.Thorough(), f)
	if c.Thorough() {
		progenum.EnumLvalue(true, f)
		progenum.EnumCond(true, f)
	}
	// the repository's own sources
	for _, src := range corpus.AllSources("/repo") {
		if !c.Mine() {
			continue
		}
		prog, err, pn := awk.Parse(src, nil)
		if err != nil || pn != "" {
			continue
		}
		c.Add("states", 1)
		c02Verify(c, src, prog)
	}
}

// (d) bytecode verifier
func c02Verify(c *core.Ctx, src string, prog *parser.Program) {
	problems, st := vexp.VerifyBytecode(prog)
	c.Add("bytecode_blocks", int64(st.Blocks))
	c.Add("bytecode_states", int64(st.States))
	c.Add("bytecode_transitions", int64(st.Transitions))
	c.Add("programs_verified", 1)
	if len(problems) > 0 {
		kind := problems[0]
		if i := strings.Index(kind, ": "); i >= 0 {
			kind = kind[i+2:]
		}
		f := strings.Fields(kind)
		if len(f) > 4 {
			f = f[:4]
		}
		c.Fail("bytecode:"+strings.Join(f, "-"), c02Case{Part: "d", Src: src}, strings.Join(problems, " ;; "))
	}
}

// (e) var=value operands: the assignment happens in the middle of input
// processing (main loop or getline), where a failing setter is not fatal
func c02Operands(c *core.Ctx) {
	progs := []string{
		`BEGIN { r = getline; $0 = "a b"; print $1, r, NF }`,
		`BEGIN { r = getline; r2 = (getline x); print r, r2, x; $0 = "c,d e"; $3 = "z"; print }`,
		`{ print $1, NF } END { $0 = "c d"; print $2; n = split("a b", arr); print n, 0.5 "" }`,
		`BEGIN { while ((getline l) > 0) n++; $0 = "a b"; print NF, n; print 1, 2; printf "%s\n", 0.25 }`,
		`BEGIN { getline; getline; print; a[1, 2] = 3; for (k in a) print k; print substr("abc", RSTART, RLENGTH) }`,
	}
	var parsed []*parser.Program
	for _, p := range progs {
		parsed = append(parsed, awk.MustParse(p, nil))
	}
	names := []string{"FS", "RS", "OFS", "ORS", "CONVFMT", "OFMT", "SUBSEP", "NF", "NR", "FNR", "ARGC", "RSTART", "RLENGTH", "INPUTMODE", "OUTPUTMODE", "FILENAME", "RT", "x", "arr", "ARGV", "getline", "1x"}
	vals := []string{"[[", "(", "*", "\\xff", "", "a", "ab", "1e30", "-1", "1e6", "2.5", "csv", "xyz", "csv separator=ab", "csv separator=# comment=#", "csv separator=\\xff", "csv separator=\\\"", "csv separator=\\n", "csv separator=\\x00", "tsv separator=\\t comment=\\t", "csv comment=,", "tsv header", "%d", "%s%s", "%*d", "%", "\\", "a\\nb"}
	os.WriteFile(filepath.Join(c02Dir, "data"), []byte("l1 x,y\nl2\n\nl4,4\n"), 0o644)
	os.WriteFile(filepath.Join(c02Dir, "data2"), []byte("ab\xff\n\"q\",\x00\t#\n\xff\xff,\"\n"), 0o644)
	for _, name := range names {
		for _, val := range vals {
			if !c.Mine() || c.Expired() {
				continue
			}
			c.Add("states", 1)
			op := name + "=" + val
			for pi, prog := range parsed {
				for _, args := range [][]string{{op, "data"}, {"data", op, "data"}, {op}, {"data", op}, {op, "data2"}, {"data2", op, "data2"}} {
					for _, cf := range []c02Config{{false, "default", false}, {true, "csv", false}} {
						c02Exec(c, c02Case{Part: "e-operand", Src: progs[pi], Input: "s1 s2\ns3\n", Cfg: cf, Args: args}, prog)
					}
				}
			}
		}
	}
}

func c02Run(c *core.Ctx) {
	c02Dir = c01Dir(c)
	os.WriteFile(filepath.Join(c02Dir, "f.csv"), []byte("f1,f2,\"f,3\"\ng1\n"), 0o644)
	c02Operands(c)
	c02Hostile(c)
	c02Specials(c)
	c02CSVStates(c)
	c02Programs(c)
}

func c02Replay(c *core.Ctx, raw json.RawMessage) {
	var cs c02Case
	if err := json.Unmarshal(raw, &cs); err != nil {
		panic(err)
	}
	c02Dir = c01Dir(c)
	os.WriteFile(filepath.Join(c02Dir, "f.csv"), []byte("f1,f2,\"f,3\"\ng1\n"), 0o644)
	if cs.Part == "d" {
		prog, err, _ := awk.Parse(cs.Src, nil)
		if err == nil {
			c02Verify(c, cs.Src, prog)
		}
		return
	}
	c02Exec(c, cs, nil)
}

func init() {
	core.Register(&core.Check{
		ID:    "C02",
		Level: "model_checking",
		Rule: "(a) 120 statement templates x hostile values (nan, +-inf, +-1e30, +-2^63, 2^53+1, 2^31, 1e6+1, negative, fractional, empty, invalid UTF-8, NUL, full-width digit, 70000-byte string, regex/format metacharacters) in every argument position x {Chars} x {default, CSV, TSV, CSV+header} x {no flags, all sandbox flags}; FS/RS/SUBSEP/OFS/ORS/CONVFMT/OFMT = every byte string of length <=2 over 10 bytes; INPUTMODE/OUTPUTMODE strings; programs that must yield an error (runaway recursion, oversized field/NF/ARGC, invalid dynamic regex); " +
			"(e) 22 variable names x 22 hostile values as var=value operands reached by the main loop or by getline, x 5 programs x 4 operand lists x 2 modes; (b) every sequence of <=3 of 14 record operations in CSV/TSV/header mode; (c) every accepted source among all sequences of <=3 (thorough <=4) of 45 token atoms, and the C01 program space, under non-default configurations with a VM step budget; " +
			"(d) bytecode verifier: exhaustive exploration of the (ip, stack depth) automaton of every compiled block of every program of (a)-(c) and the repository's sources — no pop below base, equal depth at joins, jump targets on instruction boundaries, operand indexes inside their tables, call arity (holds for ALL inputs of each verified program); state = one program (bytecode_states counts automaton states), transition = one execution",
		Assumptions: []string{
			"a Go fatal error (stack exhaustion, concurrent map write) kills the worker; the driver attributes it to the case announced last",
			"float-to-int conversions of out-of-range values are amd64 behaviour; only absence of panics is judged for them",
			"the bytecode verifier's stack-effect table is derived by hand from interp/vm.go and keyed by opcode name",
			"executions are cut at 20000 VM steps (deterministic step hook), counted as step_budget_reached",
		},
		Run:    c02Run,
		Replay: c02Replay,
	})
}

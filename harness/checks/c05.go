package checks

import (
	"encoding/json"
	"fmt"
	"math"
	"os"
	"path/filepath"
	"runtime/debug"
	"strconv"
	"strings"

	"github.com/benhoyt/goawk/interp"
	"github.com/benhoyt/goawk/parser"

	"verifharness/awk"
	"verifharness/core"
)

// C05 — number/string conversion and comparison typing follow the AWK value
// model (shape B). Every string up to a length bound over a numeric alphabet
// plus a fixed list of exotic strings, in every provenance, is probed on the
// real interpreter (truth tests, arithmetic, string conversion, the six
// comparison operators in plain and fused form against partners of every
// kind) and compared with the reference model in c05model.go.

// ---------------------------------------------------------------- AWK side

const c05Lib = `
function c6(x, y) { return (x<y) + 2*(x<=y) + 4*(x==y) + 8*(x!=y) + 16*(x>y) + 32*(x>=y) }
function f6(x, y,   f) {
	f = 0
	if (x<y) f += 1
	if (x<=y) f += 2
	if (x==y) f += 4
	if (x!=y) f += 8
	if (x>y) f += 16
	if (x>=y) f += 32
	return f
}
function d6(x, y,   g, n) {
	g = 0
	n = 0; do { if (++n == 2) break } while (x<y); if (n == 2) g += 1
	n = 0; do { if (++n == 2) break } while (x<=y); if (n == 2) g += 2
	n = 0; do { if (++n == 2) break } while (x==y); if (n == 2) g += 4
	n = 0; do { if (++n == 2) break } while (x!=y); if (n == 2) g += 8
	n = 0; do { if (++n == 2) break } while (x>y); if (n == 2) g += 16
	n = 0; do { if (++n == 2) break } while (x>=y); if (n == 2) g += 32
	return g
}
function t6(x, y) { return (x<y?1:0) + (x<=y?2:0) + (x==y?4:0) + (x!=y?8:0) + (x>y?16:0) + (x>=y?32:0) }
function pr(i, k, j, x, y) { po(i, k, j, c6(x, y), c6(y, x), f6(x, y), d6(x, y), t6(x, y)) }
function pm(i, k, j, x, y) { po(i, k, j, c6(x, y), c6(y, x), f6(x, y), -1, -1) }
function pq(i, k, j, x, y) { po(i, k, j, c6(x, y), c6(y, x), -1, -1, -1) }
function un(i, x,   b, w, j, m, unset) {
	b = !x
	if (x) b += 2
	b += (x ? 4 : 0)
	b += 8 * (x && 1)
	b += 16 * (x || 0)
	w = 0; while (x) { w = 1; break }
	b += 32 * w
	w = 0; do { if (++w == 2) break } while (x)
	b += 64 * (w == 2)
	uo(i, x+0, -x, +x, b, x "")
	pr(i, 0, 0, x, x+0)
	pr(i, 1, 0, x, x "")
	pr(i, 2, 0, x, unset)
	for (j = 1; j <= nF; j++) {
		if (j <= 2) {
			pr(i, 3, j, x, F[j])
			pr(i, 4, j, x, F[j] "")
			pr(i, 5, j, x, F[j]+0)
		} else {
			pq(i, 3, j, x, F[j])
			pq(i, 4, j, x, F[j] "")
			pq(i, 5, j, x, F[j]+0)
		}
	}
	for (j = 1; j <= nG; j++) pq(i, 7, j, x, G[j] "")
	m = pc(i)
	for (j = 0; j < m; j++) pm(i, 6, j, x, pn(i, j))
}
BEGIN { nF = split(FPART, F, ";"); nG = split(GPART, G, ";") }
`

// partners with a prescribed class (used as strnum, as string and as number)
// (the first c05LightF are used in every run, the others in "heavy" runs only)
var c05F = []string{"1", "abc", "12", "", "0", " 1", "-1", "10", "9", "2", "+1", "1.0", "1e3", ".5",
	"x", "1x", "-", ".", "00", "1e", " ", "-0", "26", "0.1"}

const c05LightF = 2

// partners used as strings only (any text)
var c05G = []string{"0.3", "1e+06", "inf", "nan", "-inf", "0x1A", "1e400", "0.30000000000000004", "1e+15", "9.22337e+18",
	"9223372036854775808", "-9223372036854775808", "1e+300", "100000", "1000000", "0.333", "3.1", "3.14159", "1.23457e+06"}

const c05VarsBatch = 256

type c05Pair struct{ K, J, P, R, F, D, T int }

type c05Obs struct {
	Have          bool
	A, Neg, Pos   float64
	Truth         int
	Cat           string
	Pairs         []c05Pair
	Key, Printed  string // num2str part
	HaveKey       bool
	X1            float64
	HaveX1        bool
	PairsAllpairs []c05Pair
}

type c05Runner struct {
	funcs  map[string]any
	progs  map[string]*parser.Program
	obs    []c05Obs    // 1-based
	dyn    [][]float64 // per value (1-based), number partners
	floats []float64   // fl(i), 1-based
	yA     []float64   // all-pairs: arithmetic value of partner j (1-based)
	dir    string
	capped map[string]int
}

func c05NewRunner() *c05Runner {
	r := &c05Runner{progs: map[string]*parser.Program{}, capped: map[string]int{}}
	at := func(i int) *c05Obs {
		if i >= 1 && i < len(r.obs) {
			return &r.obs[i]
		}
		return nil
	}
	r.funcs = map[string]any{
		"uo": func(i int, a, neg, pos float64, b int, cat string) {
			if o := at(i); o != nil {
				o.Have, o.A, o.Neg, o.Pos, o.Truth, o.Cat = true, a, neg, pos, b, cat
			}
		},
		"po": func(i, k, j, p, rr, f, d, t int) {
			if o := at(i); o != nil {
				o.Pairs = append(o.Pairs, c05Pair{k, j, p, rr, f, d, t})
			}
		},
		"pc": func(i int) int {
			if i >= 1 && i < len(r.dyn) {
				return len(r.dyn[i])
			}
			return 0
		},
		"pn": func(i, j int) float64 {
			if i >= 1 && i < len(r.dyn) && j >= 0 && j < len(r.dyn[i]) {
				return r.dyn[i][j]
			}
			return 0
		},
		"fl": func(i int) float64 {
			if i >= 1 && i < len(r.floats) {
				return r.floats[i]
			}
			return 0
		},
		"yo": func(j int, a float64) {
			if j >= 1 && j < len(r.yA) {
				r.yA[j] = a
			}
		},
		"xo": func(i int, a float64) {
			if o := at(i); o != nil {
				o.X1, o.HaveX1 = a, true
			}
		},
		"ns": func(i int, cat, key string) {
			if o := at(i); o != nil {
				o.Cat, o.Key, o.HaveKey = cat, key, true
			}
		},
	}
	return r
}

func (r *c05Runner) scratch() string {
	if r.dir == "" {
		base := filepath.Join(core.VerifDir, "work")
		os.MkdirAll(base, 0o755)
		d, err := os.MkdirTemp(base, "c05-scratch-")
		if err != nil {
			panic(err)
		}
		r.dir = d
	}
	return r.dir
}

func (r *c05Runner) cleanup() {
	if r.dir != "" {
		os.RemoveAll(r.dir)
	}
}

func (r *c05Runner) prog(name, src string) *parser.Program {
	if p, ok := r.progs[name]; ok {
		return p
	}
	p := awk.MustParse(src, r.funcs)
	r.progs[name] = p
	return p
}

// provenances: name -> kind of value the probe sees
type c05Prov struct {
	Name string
	Kind string // strnum, str, num, unset
	Src  string // AWK main part ("" = built per batch)
	In   string // stdin-rec, stdin-field, file, split, argv, environ, vars, operand, const, floats, none
}

var c05Provs = []c05Prov{
	{"field", "strnum", `{ un(NR, $1) }`, "stdin-field"},
	{"record", "strnum", `{ un(NR, $0) }`, "stdin-rec"},
	{"getline-var", "strnum", `BEGIN { while ((getline v) > 0) un(++i, v) }`, "stdin-rec"},
	{"getline-var-file", "strnum", `BEGIN { while ((getline v < FILE) > 0) un(++i, v) }`, "file"},
	{"split", "strnum", `BEGIN { n = split(ALL, A, ";"); for (i = 2; i <= n; i++) un(i-1, A[i]) }`, "split"},
	{"argv", "strnum", `BEGIN { for (i = 1; i < ARGC; i++) un(i, ARGV[i]) }`, "argv"},
	{"environ", "strnum", `BEGIN { for (i = 1; i <= NV; i++) un(i, ENVIRON["k" i]) }`, "environ"},
	{"vars", "strnum", "", "vars"},
	{"operand", "strnum", `{ un(NR, v) }`, "operand"},
	{"const", "str", "", "const"},
	{"computed-str", "str", `{ un(NR, $1 "") }`, "stdin-field"},
	{"computed-num", "num", `{ un(NR, $1+0) }`, "stdin-field"},
	{"native-num", "num", `BEGIN { for (i = 1; i <= NV; i++) un(i, fl(i)) }`, "floats"},
	{"unset", "unset", `BEGIN { un(1, nothing) }`, "none"},
	// further ways input text reaches a variable
	{"getline-array-file", "strnum", `BEGIN { while ((getline A[i+1] < FILE) > 0) { i++; un(i, A[i]) } }`, "file"},
	{"getline-record", "strnum", `BEGIN { while ((getline) > 0) un(++i, $0) }`, "stdin-rec"},
	{"getline-record-file", "strnum", `BEGIN { while ((getline < FILE) > 0) un(++i, $0) }`, "file"},
	{"getline-local", "strnum", `function rd(   v, i) { while ((getline v) > 0) un(++i, v) } BEGIN { rd() }`, "stdin-rec"},
	{"split-regex", "strnum", `BEGIN { n = split(ALL, A, /;/); for (i = 2; i <= n; i++) un(i-1, A[i]) }`, "split"},
	{"copy-global", "strnum", `{ g = $1; un(NR, g) }`, "stdin-field"},
	{"copy-array", "strnum", `{ B["k"] = $1; h = B["k"]; un(NR, h) }`, "stdin-field"},
	{"field-last", "strnum", `{ un(NR, $NF) }`, "stdin-field2"},
	// the field is assigned (becomes a true string) after it was observed: the next record's field is input text again
	{"field-after-assign", "strnum", `{ un(NR, $1); $1 = "x" }`, "stdin-field"},
	{"field-after-assign-resplit", "strnum", `{ un(NR, $1); $1 = "x"; $0 = "y z" }`, "stdin-field"},
}

func c05ProvByName(n string) *c05Prov {
	for i := range c05Provs {
		if c05Provs[i].Name == n {
			return &c05Provs[i]
		}
	}
	return nil
}

func c05AwkQuote(s string) string {
	var b strings.Builder
	b.WriteByte('"')
	for i := 0; i < len(s); i++ {
		ch := s[i]
		switch {
		case ch == '"':
			b.WriteString(`\"`)
		case ch == '\\':
			b.WriteString(`\\`)
		case ch == '\n':
			b.WriteString(`\n`)
		case ch == '\t':
			b.WriteString(`\t`)
		case ch == '\r':
			b.WriteString(`\r`)
		case ch < 0x20 || ch == 0x7f:
			fmt.Fprintf(&b, `\%03o`, ch)
		default:
			b.WriteByte(ch)
		}
	}
	b.WriteByte('"')
	return b.String()
}

// a value under test
type c05Val struct {
	S string  // text (strnum/str and the source text of computed-num)
	N float64 // native-num
}

type c05Case struct {
	Part    string `json:"part"` // value | pair | num2str
	Prov    string `json:"prov,omitempty"`
	S       string `json:"s"`
	Y       string `json:"y,omitempty"`
	Bits    string `json:"bits,omitempty"` // float64 bits (hex) for numeric values
	Convfmt string `json:"convfmt,omitempty"`
	Ofmt    string `json:"ofmt,omitempty"`
}

func c05BitsHex(f float64) string { return strconv.FormatUint(math.Float64bits(f), 16) }
func c05FromHex(s string) float64 {
	u, _ := strconv.ParseUint(s, 16, 64)
	return math.Float64frombits(u)
}

func (r *c05Runner) fail(c *core.Ctx, sig string, cs c05Case, observed string) {
	r.capped[sig]++
	if r.capped[sig] > 40 {
		c.Add("violations_not_stored", 1)
		return
	}
	c.Fail(sig, cs, observed)
}

// usable reports whether string s can be delivered through the provenance.
func c05Usable(p *c05Prov, s string) bool {
	switch p.In {
	case "stdin-rec", "file", "split":
		return !strings.Contains(s, ";")
	case "stdin-field", "stdin-field2":
		return !strings.ContainsAny(s, ";,")
	case "operand":
		// the operand splitter stops the value at a newline and processes escapes: not this property's business
		return !strings.ContainsAny(s, "\n\\\x00")
	case "environ", "argv", "vars":
		return !strings.Contains(s, "\x00") || true
	}
	return true
}

// runProv executes one provenance on a batch and evaluates every value.
func (r *c05Runner) runProv(c *core.Ctx, p *c05Prov, vals []c05Val, convfmt string, heavy bool) {
	n := len(vals)
	r.obs = make([]c05Obs, n+1)
	r.dyn = make([][]float64, n+1)
	r.floats = nil
	texts := make([]string, n)
	for i, v := range vals {
		texts[i] = v.S
	}
	if p.In == "floats" {
		r.floats = make([]float64, n+1)
		for i, v := range vals {
			r.floats[i+1] = v.N
			// number partners: the whole standard list
			r.dyn[i+1] = c05CmpFloats()
		}
	} else if p.Kind != "unset" {
		for i, v := range vals {
			r.dyn[i+1] = c05LenientReadings(v.S)
		}
	}
	cfg := &interp.Config{Funcs: r.funcs}
	fpart, gpart := strings.Join(c05F[:c05LightF], ";"), ""
	if heavy {
		fpart, gpart = strings.Join(c05F, ";"), strings.Join(c05G, ";")
	}
	cfg.Vars = []string{"RS", ";", "FS", ",", "CONVFMT", convfmt, "FPART", fpart, "GPART", gpart, "NV", strconv.Itoa(n)}
	src := c05Lib + p.Src
	name := p.Name
	joined := strings.Join(texts, ";") + ";"
	switch p.In {
	case "stdin-rec":
		cfg.Stdin = strings.NewReader(joined)
	case "stdin-field":
		cfg.Stdin = strings.NewReader(strings.Join(texts, ",z;") + ",z;")
	case "stdin-field2":
		cfg.Stdin = strings.NewReader("z," + strings.Join(texts, ";z,") + ";")
	case "file":
		f := filepath.Join(r.scratch(), "in.txt")
		if err := os.WriteFile(f, []byte(joined), 0o644); err != nil {
			panic(err)
		}
		cfg.Vars = append(cfg.Vars, "FILE", f)
	case "split":
		cfg.Vars = append(cfg.Vars, "ALL", "D;"+strings.Join(texts, ";"))
	case "argv":
		cfg.Args = texts
	case "environ":
		for i, t := range texts {
			cfg.Environ = append(cfg.Environ, "k"+strconv.Itoa(i+1), t)
		}
	case "vars":
		if src == c05Lib {
			var b strings.Builder
			b.WriteString("BEGIN {")
			for i := 1; i <= c05VarsBatch; i++ {
				fmt.Fprintf(&b, " un(%d, v%d);", i, i)
			}
			b.WriteString(" }")
			src += b.String()
		}
		if n > c05VarsBatch {
			panic("c05: vars batch too large")
		}
		for i, t := range texts {
			cfg.Vars = append(cfg.Vars, "v"+strconv.Itoa(i+1), t)
		}
	case "operand":
		one := filepath.Join(r.scratch(), "one.txt")
		if _, err := os.Stat(one); err != nil {
			if err := os.WriteFile(one, []byte("r;"), 0o644); err != nil {
				panic(err)
			}
		}
		for _, t := range texts {
			cfg.Args = append(cfg.Args, "v="+t, one)
		}
	case "const":
		var b strings.Builder
		b.WriteString("BEGIN {")
		for i, t := range texts {
			fmt.Fprintf(&b, " un(%d, %s);", i+1, c05AwkQuote(t))
		}
		b.WriteString(" }")
		src += b.String()
		name = "" // not cached
	}
	var prog *parser.Program
	if name == "" {
		prog = awk.MustParse(src, r.funcs)
	} else {
		prog = r.prog(name, src)
	}
	res := awk.Exec(prog, cfg)
	c.Eval(1)
	if res.Panic != "" || res.Err != nil {
		cs := c05Case{Part: "value", Prov: p.Name, S: strings.Join(texts, ";"), Convfmt: convfmt}
		r.fail(c, "run-error prov="+p.Name, cs, trunc(res.ErrString(), 300))
		return
	}
	for i := range vals {
		r.evalValue(c, p, vals[i], &r.obs[i+1], r.dyn[i+1], convfmt)
	}
}

func c05Desc(e c05Eff) string {
	switch e.kind {
	case c05EffNum:
		return fmt.Sprintf("number %v", e.n)
	case c05EffStr:
		return fmt.Sprintf("string %q", e.s)
	}
	return "unset"
}

var c05OpNames = []string{"<", "<=", "==", "!=", ">", ">="}

func c05BitsText(b int) string {
	var parts []string
	for i, n := range c05OpNames {
		if b&(1<<uint(i)) != 0 {
			parts = append(parts, n)
		}
	}
	return "{" + strings.Join(parts, " ") + "}"
}

// partner operand of pair observation (k, j)
func c05Partner(k, j int, o *c05Obs, dyn []float64, text string) (c05Eff, string, bool) {
	switch k {
	case 0:
		return c05Eff{kind: c05EffNum, n: o.A}, "own number (x+0)", true
	case 1:
		return c05Eff{kind: c05EffStr, s: text}, `own text (x "")`, true
	case 2:
		return c05Eff{kind: c05EffUnset}, "unset variable", true
	case 3:
		s := c05F[j-1]
		cl, v, _ := c05Classify(s)
		if cl == c05NUM {
			return c05Eff{kind: c05EffNum, n: v, s: s, hasText: true}, fmt.Sprintf("split element %q", s), true
		}
		return c05Eff{kind: c05EffStr, s: s}, fmt.Sprintf("split element %q", s), true
	case 4:
		return c05Eff{kind: c05EffStr, s: c05F[j-1]}, fmt.Sprintf("string %q", c05F[j-1]), true
	case 5:
		v, _ := c05Prefix(c05F[j-1])
		return c05Eff{kind: c05EffNum, n: v}, fmt.Sprintf("number %v", v), true
	case 6:
		if j < len(dyn) {
			return c05Eff{kind: c05EffNum, n: dyn[j]}, fmt.Sprintf("number %v", dyn[j]), true
		}
	case 7:
		return c05Eff{kind: c05EffStr, s: c05G[j-1]}, fmt.Sprintf("string %q", c05G[j-1]), true
	}
	return c05Eff{}, "", false
}

func c05In(v int, acc []int) bool {
	for _, a := range acc {
		if a == v {
			return true
		}
	}
	return false
}

// evalValue compares the observations of one value with the model.
func (r *c05Runner) evalValue(c *core.Ctx, p *c05Prov, v c05Val, o *c05Obs, dyn []float64, convfmt string) {
	cs := c05Case{Part: "value", Prov: p.Name, S: v.S, Convfmt: convfmt}
	if p.In == "floats" {
		cs.Bits = c05BitsHex(v.N)
	}
	c.Add("states", 1)
	if !o.Have {
		r.fail(c, "value-not-delivered prov="+p.Name, cs, "the probe never saw this value")
		return
	}
	c.Add("transitions", int64(len(o.Pairs)))
	c.Outcome(fmt.Sprintf("%s %v %v %d %q %v", p.Kind, o.A, o.Neg, o.Truth, o.Cat, o.Pairs))

	// --- forms of the truth test agree
	T := o.Truth&2 != 0
	wantBits := 0
	if T {
		wantBits = 2 | 4 | 8 | 16 | 32 | 64
	} else {
		wantBits = 1
	}
	if o.Truth != wantBits {
		r.fail(c, "truth-forms-disagree", cs, fmt.Sprintf("bits (!x, if, ?:, &&, ||, while, do-while) = %07b", o.Truth))
	}
	// --- arithmetic forms agree
	if !c05SameNum(o.Pos, o.A) || !c05SameNum(o.Neg, -o.A) {
		r.fail(c, "arith-forms-disagree", cs, fmt.Sprintf("x+0=%v +x=%v -x=%v", o.A, o.Pos, o.Neg))
	}

	// --- candidates
	var cands []c05Eff
	class, sub := -1, ""
	text := v.S
	switch p.Kind {
	case "unset":
		cands = []c05Eff{{kind: c05EffUnset}}
		text = ""
		if o.A != 0 {
			r.fail(c, "unset-arith", cs, fmt.Sprintf("x+0=%v", o.A))
		}
		if o.Cat != "" {
			r.fail(c, "unset-string", cs, fmt.Sprintf("x \"\"=%q", o.Cat))
		}
	case "num":
		cands = []c05Eff{{kind: c05EffNum, n: o.A}}
		if p.In == "floats" {
			if !c05SameNum(o.A, v.N) {
				r.fail(c, "number-changed", cs, fmt.Sprintf("x+0=%v want %v", o.A, v.N))
			}
		} else if want, open := c05Prefix(v.S); !open && !c05SameNum(o.A, want) {
			r.fail(c, "arith-prefix prov="+p.Name, cs, fmt.Sprintf("%q+0 = %v, want %v", v.S, o.A, want))
		}
		acc := c05NumStr(o.A, convfmt)
		ok := false
		for _, a := range acc {
			if a == o.Cat {
				ok = true
			}
		}
		if !ok {
			r.fail(c, "num-to-string-concat", cs, fmt.Sprintf("(%v \"\") = %q, want %q (CONVFMT=%s)", o.A, o.Cat, acc[0], convfmt))
		}
		text = o.Cat
	case "str":
		cands = []c05Eff{{kind: c05EffStr, s: v.S}}
	case "strnum":
		var mv float64
		class, mv, sub = c05Classify(v.S)
		switch class {
		case c05NUM:
			cands = []c05Eff{{kind: c05EffNum, n: mv, s: v.S, hasText: true}}
		case c05STR:
			cands = []c05Eff{{kind: c05EffStr, s: v.S}}
		default:
			cands = []c05Eff{{kind: c05EffStr, s: v.S}, {kind: c05EffNum, n: o.A, s: v.S, hasText: true}}
		}
	}
	if p.Kind == "str" || p.Kind == "strnum" {
		if o.Cat != v.S {
			r.fail(c, "text-changed prov="+p.Name, cs, fmt.Sprintf("x \"\" = %q, want %q", o.Cat, v.S))
		}
		if want, open := c05Prefix(v.S); !open && !c05SameNum(o.A, want) {
			r.fail(c, "arith-prefix prov="+p.Name, cs, fmt.Sprintf("%q+0 = %v, want %v", v.S, o.A, want))
		}
	}

	// --- each candidate against truth and all comparisons
	misses := make([]string, len(cands))
	missKind := make([]string, len(cands))
	nanSeen := math.IsNaN(o.A)
	for ci, cand := range cands {
		if c05Truth(cand) != T {
			misses[ci] = fmt.Sprintf("truth test gives %v", T)
			missKind[ci] = "truth"
			continue
		}
		for _, pr := range o.Pairs {
			y, ydesc, ok := c05Partner(pr.K, pr.J, o, dyn, text)
			if !ok {
				continue
			}
			acc, defined, _ := c05Expect(cand, y, convfmt)
			if !defined {
				continue
			}
			got := pr.P | pr.R<<6
			if !c05In(got, acc) {
				misses[ci] = fmt.Sprintf("x vs %s: true operators x?y %s, y?x %s; expected %s / %s",
					ydesc, c05BitsText(pr.P), c05BitsText(pr.R), c05BitsText(acc[0]&63), c05BitsText(acc[0]>>6))
				// what would explain the observation?
				missKind[ci] = "cmp-result"
				alts := []c05Eff{{kind: c05EffStr, s: text}, {kind: c05EffNum, n: o.A, s: text, hasText: p.Kind != "num"}}
				for ai, alt := range alts {
					if alt.kind == cand.kind {
						continue
					}
					if a2, d2, _ := c05Expect(alt, y, convfmt); d2 && c05In(got, a2) {
						if ai == 0 {
							missKind[ci] = "cmp-mode want=number got=string"
						} else {
							missKind[ci] = "cmp-mode want=string got=number"
						}
					}
				}
				break
			}
		}
	}
	okIdx := -1
	for ci := range cands {
		if misses[ci] == "" {
			okIdx = ci
			break
		}
	}
	what := fmt.Sprintf("%s %q", p.Kind, v.S)
	if p.Kind == "num" {
		what = fmt.Sprintf("number %v", o.A)
	}
	if okIdx < 0 {
		if len(cands) == 1 {
			sig := missKind[0] + " kind=" + p.Kind + " prov=" + p.Name
			r.fail(c, sig, cs, fmt.Sprintf("%s should behave as %s (x+0=%v) but %s", what, c05Desc(cands[0]), o.A, misses[0]))
		} else {
			r.fail(c, "open-form-inconsistent family="+sub, cs,
				fmt.Sprintf("%s: arithmetic gives x+0=%v; read as a string: %s; read as the number %v: %s", what, o.A, misses[0], o.A, misses[1]))
		}
	} else if class == c05OPEN && sub == "overflow" && cands[okIdx].kind == c05EffStr {
		r.fail(c, "overflow-numeric-text-compared-as-string", cs,
			fmt.Sprintf("%s is entirely a decimal number; arithmetic reads it as %v but comparisons and truth tests treat it as a string", what, o.A))
	}

	// --- fused forms against the plain operators, and operator consistency
	seen := map[string]bool{}
	for _, pr := range o.Pairs {
		y, ydesc, ok := c05Partner(pr.K, pr.J, o, dyn, text)
		if !ok {
			continue
		}
		nan := nanSeen || (y.kind == c05EffNum && math.IsNaN(y.n))
		for fi, fv := range []int{pr.F, pr.D, pr.T} {
			if fv >= 0 && fv != pr.P {
				form := []string{"if", "do-while", "ternary"}[fi]
				sig := fmt.Sprintf("fused-differs-from-plain form=%s nan=%v", form, nan)
				if !seen[sig] {
					seen[sig] = true
					r.fail(c, sig, cs, fmt.Sprintf("%s vs %s: as values the true operators are %s, as %s conditions %s", what, ydesc, c05BitsText(pr.P), form, c05BitsText(fv)))
				}
			}
		}
		if nan || okIdx < 0 {
			continue
		}
		P, R := pr.P, pr.R
		b := func(v, m int) bool { return v&m != 0 }
		cnt := 0
		for _, m := range []int{c05LT, c05EQ, c05GT} {
			if b(P, m) {
				cnt++
			}
		}
		bad := cnt != 1 || b(P, c05LE) == b(P, c05GT) || b(P, c05GE) == b(P, c05LT) || b(P, c05NE) == b(P, c05EQ) ||
			b(R, c05LT) != b(P, c05GT) || b(R, c05GT) != b(P, c05LT) || b(R, c05EQ) != b(P, c05EQ) ||
			b(R, c05LE) != b(P, c05GE) || b(R, c05GE) != b(P, c05LE) || b(R, c05NE) != b(P, c05NE)
		if bad && !seen["op"] {
			seen["op"] = true
			r.fail(c, "operators-inconsistent", cs, fmt.Sprintf("%s vs %s: x?y %s, y?x %s", what, ydesc, c05BitsText(P), c05BitsText(R)))
		}
	}
}

// ---------------------------------------------------------------- value lists

var c05Alphabet = []string{"0", "1", "9", ".", "+", "-", "e", "E", "x", " "}

func c05Exotic() []string {
	l := []string{
		// ASCII white space
		"\t12", "12\t", "\n12", "12\n", "\v12", "\f12", "\r12", "12\r", " \t12 \t", "1 2", "\t", "\n", " \n 12", "\n-1.5e1\n",
		// non-ASCII blanks and look-alikes
		"\u00a012", "12\u00a0", "\u00a0", "\u008512", "\u168012", "\u200312", "12\u2003", "\u300012", "\u202812", "\u202f12", "\u205f12",
		"\u00a0-1.5e1", "\u00a00", "\u00a01", "\u200b12", "\ufeff12", "\u00a0 12", " \u00a012", "\u00a012\u00a0", "\u00a00x1A", "\u00a0abc", "\u20031e400", "\u00a0+nan",
		// single bytes that are blanks only when mistaken for code points (Latin-1 NBSP / NEL, not valid UTF-8)
		"\xa05", "\x855", "\xa012", " \xa012", "\xa0 5", "\x85-1.5", "5\xa0", "\xa0", "\xa00x1A", "\xa01e3",
		// hex
		"0x1A", "0X1a", "0x1p3", "0x1P-1", "-0x10", "+0x2", "0x", "0x.", "0x.8", "0xg", "0x1Ag", "0x1.8p1", " 0x10 ", "0x1p", "0x1p+", "1x", "0xfffffffffffffffff", "0x0", "-0x0", "0x1A ", "0x1_0",
		// inf / nan
		"inf", "INF", "+inf", "-inf", "Infinity", "-infinity", "infinit", "infinityx", "nan", "NaN", "+nan", "-nan", "nanx", "na", "in", "+in", "i", " inf", "inf ", "-Inf ", "+NAN", "nan(1)", "+infinity",
		// overflow / underflow / long
		"1e400", "-1e400", "1e309", "1e308", "1.8e308", "1.7976931348623157e308", "1.7976931348623159e308", "1e-400", "-1e-400", "5e-324", "2e-324", "4.9e-324",
		"1e999999999999", "1e-999999999999", " 1e400 ", "+1e400", strings.Repeat("9", 400), "1" + strings.Repeat("0", 308), "1" + strings.Repeat("0", 309), "0." + strings.Repeat("0", 400) + "1",
		"2.2250738585072011e-308", "0.1000000000000000055511151231257827", "1e400x",
		// other number-like texts
		"1_000", "1_0", "\uff11\uff12", "\u0663", "1e+", "1e-", "1.e", ".e1", "+.", "-.5e-1x", "1..2", "1.2.3", "--1", "+-1", "1e1e1", "1e1.5", "0.1e1", "00012", "012", "1d2", "1f", "1l", "0b11", "1e+05",
		"123456789012345678901234567890", "9007199254740993", "9223372036854775807", "9223372036854775808", "-9223372036854775808", "18446744073709551616",
		"0.1", "0.30000000000000004", "1e15", ".", "", "+", "-", "e", "E1", "\x00", "12\x00", "\x0012", "1\x002", "abc", "-0", "+0", "0.0", "-0.0e0", " 0 ", "1e0", "1E+1", "+1.5E-1",
	}
	return l
}

// numbers compared with each other and with strings (native-num provenance)
func c05CmpFloats() []float64 {
	p53 := math.Ldexp(1, 53)
	p63 := math.Ldexp(1, 63)
	return []float64{0, math.Copysign(0, -1), 1, -1, 2, 10, 12, 0.5, 0.1, 0.1 + 0.2, 0.3, 1.0 / 3, 3.14159, 3.1, 100000, 1e6, 1234567.8, 123456.7, 0.0001, 0.00001,
		p53 - 1, p53, p53 + 2, -p53, p63 - 1024, p63, p63 + 2048, -p63, -p63 - 2048, math.Ldexp(1, 64), 1e15, 1e15 + 0.5, 1e16, 1e17, 1e18, 1e19, 1e300, -1e300,
		5e-324, -5e-324, 2.2250738585072014e-308, math.MaxFloat64, -math.MaxFloat64, math.Inf(1), math.Inf(-1), math.NaN(), 26, 9, 0.333, 1e-7, 999999.5, 9999995, 2.5, 1.5, -2.5, 1e5 + 0.5, 255, 1000}
}

var c05Formats = []string{"%.6g", "%.3g", "%.0f", "%.2f", "%.10g", "%.17g", "%e", "%.1e", "%.5G"}

// numbers for the number->string part
func c05StrFloats() []float64 {
	var l []float64
	add := func(f float64) { l = append(l, f, -f) }
	for e := -1074; e <= 1023; e++ {
		f := math.Ldexp(1, e)
		add(f)
		add(math.Nextafter(f, math.Inf(1)))
		if e > -1074 {
			add(math.Nextafter(f, 0))
		}
	}
	for k := 0; k <= 64; k++ {
		for d := -2; d <= 2; d++ {
			add(math.Ldexp(1, k) + float64(d))
		}
		add(math.Ldexp(1, k) + 0.5)
		add(math.Ldexp(1, k) * 1.5)
	}
	for k := -30; k <= 30; k++ {
		p := math.Pow(10, float64(k))
		for _, m := range []float64{1, 1.5, 9.999995, 0.9999995, 9.9999949, 1.234565, 1.2345, 2.5, 0.5, 1.0000005} {
			add(p * m)
		}
	}
	for k := 0; k <= 64; k++ {
		add(float64(k) / 8)
	}
	for k := 0; k <= 100; k++ {
		add(float64(k) / 10)
		add(float64(k) + 0.5)
	}
	l = append(l, c05CmpFloats()...)
	return l
}

// ---------------------------------------------------------------- all pairs

const c05PairSrc = `
BEGIN { n = split(ALL, Y, ";"); for (j = 2; j <= n; j++) yo(j-1, Y[j]+0) }
{ xo(NR, $1+0); if (FULL) for (j = 2; j <= n; j++) pr(NR, 8, j-1, $1, Y[j]); else for (j = 2; j <= n; j++) pm(NR, 8, j-1, $1, Y[j]) }
`
const c05PairSrc2 = `
BEGIN { while ((getline Y[++n] < FILE) > 0) yo(n, Y[n]+0); n-- }
{ g = $0; xo(NR, g+0); if (FULL) for (j = 1; j <= n; j++) pr(NR, 8, j, g, Y[j]); else for (j = 1; j <= n; j++) pm(NR, 8, j, g, Y[j]) }
`

func c05Cands(s string, a float64) ([]c05Eff, int, string) {
	class, mv, sub := c05Classify(s)
	switch class {
	case c05NUM:
		return []c05Eff{{kind: c05EffNum, n: mv, s: s, hasText: true}}, class, sub
	case c05STR:
		return []c05Eff{{kind: c05EffStr, s: s}}, class, sub
	}
	return []c05Eff{{kind: c05EffStr, s: s}, {kind: c05EffNum, n: a, s: s, hasText: true}}, class, sub
}

// runPairs compares every x with every y (both input-derived text).
func (r *c05Runner) runPairs(c *core.Ctx, variant int, xs, ys []string, full bool) {
	r.obs = make([]c05Obs, len(xs)+1)
	r.dyn = nil
	r.yA = make([]float64, len(ys)+1)
	cfg := &interp.Config{Funcs: r.funcs}
	cfg.Vars = []string{"RS", ";", "FS", ",", "FPART", "", "GPART", ""}
	if full {
		cfg.Vars = append(cfg.Vars, "FULL", "1")
	}
	var prog *parser.Program
	if variant == 0 {
		cfg.Vars = append(cfg.Vars, "ALL", "D;"+strings.Join(ys, ";"))
		cfg.Stdin = strings.NewReader(strings.Join(xs, ",z;") + ",z;")
		prog = r.prog("pairs0", c05Lib+c05PairSrc)
	} else {
		f := filepath.Join(r.scratch(), "ys.txt")
		if err := os.WriteFile(f, []byte(strings.Join(ys, ";")+";"), 0o644); err != nil {
			panic(err)
		}
		cfg.Vars = append(cfg.Vars, "FILE", f)
		cfg.Stdin = strings.NewReader(strings.Join(xs, ";") + ";")
		prog = r.prog("pairs1", c05Lib+c05PairSrc2)
	}
	res := awk.Exec(prog, cfg)
	c.Eval(1)
	if res.Panic != "" || res.Err != nil {
		r.fail(c, "run-error pairs", c05Case{Part: "pair", S: strings.Join(xs, ";"), Y: strings.Join(ys, ";")}, trunc(res.ErrString(), 300))
		return
	}
	for i, x := range xs {
		o := &r.obs[i+1]
		if !o.HaveX1 || len(o.Pairs) != len(ys) {
			r.fail(c, "value-not-delivered prov=pairs", c05Case{Part: "pair", S: x}, fmt.Sprintf("got %d of %d comparisons", len(o.Pairs), len(ys)))
			continue
		}
		c.Add("states", 1)
		c.Add("transitions", int64(len(o.Pairs)))
		xc, _, xsub := c05Cands(x, o.X1)
		for _, pr := range o.Pairs {
			y := ys[pr.J-1]
			cs := c05Case{Part: "pair", S: x, Y: y, Prov: strconv.Itoa(variant)}
			yc, _, _ := c05Cands(y, r.yA[pr.J])
			got := pr.P | pr.R<<6
			c.Outcome(fmt.Sprintf("pair %d %d %d", got, pr.F, pr.D))
			ok, anyDefined, nan := false, false, false
			var first []int
			for _, a := range xc {
				for _, b := range yc {
					acc, defined, _ := c05Expect(a, b, "%.6g")
					if !defined {
						nan = true
						ok = true
						continue
					}
					anyDefined = true
					if first == nil {
						first = acc
					}
					if c05In(got, acc) {
						ok = true
					}
				}
			}
			_ = anyDefined
			if !ok {
				nan = true // already reported below; no operator-consistency follow-up
				sig := "pair-cmp-result"
				// which mode was used?
				sx, sy := c05Eff{kind: c05EffStr, s: x}, c05Eff{kind: c05EffStr, s: y}
				nx, ny := c05Eff{kind: c05EffNum, n: o.X1, s: x, hasText: true}, c05Eff{kind: c05EffNum, n: r.yA[pr.J], s: y, hasText: true}
				if a, d, _ := c05Expect(sx, sy, "%.6g"); d && c05In(got, a) {
					sig = "pair-cmp-mode want=number got=string"
				} else if a, d, _ := c05Expect(nx, ny, "%.6g"); d && c05In(got, a) {
					sig = "pair-cmp-mode want=string got=number"
				}
				if len(xc) > 1 || len(yc) > 1 {
					fam := xsub
					_, _, ysub := c05Cands(y, 0)
					if len(xc) == 1 || ysub == "uniblank" {
						fam = ysub
					}
					sig = "pair-open-form-inconsistent family=" + fam
				}
				r.fail(c, sig, cs, fmt.Sprintf("%q vs %q (x+0=%v, y+0=%v): true operators x?y %s, y?x %s; expected %s / %s",
					x, y, o.X1, r.yA[pr.J], c05BitsText(pr.P), c05BitsText(pr.R), c05BitsText(first[0]&63), c05BitsText(first[0]>>6)))
			}
			nanv := nan || math.IsNaN(o.X1) || math.IsNaN(r.yA[pr.J])
			for fi, fv := range []int{pr.F, pr.D, pr.T} {
				if fv >= 0 && fv != pr.P {
					form := []string{"if", "do-while", "ternary"}[fi]
					r.fail(c, fmt.Sprintf("fused-differs-from-plain form=%s nan=%v", form, nanv), cs,
						fmt.Sprintf("%q vs %q: as values the true operators are %s, as %s conditions %s", x, y, c05BitsText(pr.P), form, c05BitsText(fv)))
				}
			}
			if nanv {
				continue
			}
			P, R := pr.P, pr.R
			b := func(v, m int) bool { return v&m != 0 }
			cnt := 0
			for _, m := range []int{c05LT, c05EQ, c05GT} {
				if b(P, m) {
					cnt++
				}
			}
			if cnt != 1 || b(P, c05LE) == b(P, c05GT) || b(P, c05GE) == b(P, c05LT) || b(P, c05NE) == b(P, c05EQ) ||
				b(R, c05LT) != b(P, c05GT) || b(R, c05GT) != b(P, c05LT) || b(R, c05EQ) != b(P, c05EQ) ||
				b(R, c05LE) != b(P, c05GE) || b(R, c05GE) != b(P, c05LE) || b(R, c05NE) != b(P, c05NE) {
				r.fail(c, "operators-inconsistent", cs, fmt.Sprintf("%q vs %q: x?y %s, y?x %s", x, y, c05BitsText(P), c05BitsText(R)))
			}
		}
	}
}

// ---------------------------------------------------------------- number -> string

const c05StrSrc = `
BEGIN {
	for (i = 1; i <= NV; i++) {
		x = fl(i)
		delete K
		K[x] = 1
		key = ""
		for (k in K) key = k
		ns(i, x "", key)
		print x
		print x "", x
	}
}
`

func (r *c05Runner) runNumStr(c *core.Ctx, fs []float64, convfmt, ofmt string) {
	n := len(fs)
	r.obs = make([]c05Obs, n+1)
	r.floats = append([]float64{0}, fs...)
	cfg := &interp.Config{Funcs: r.funcs}
	cfg.Vars = []string{"CONVFMT", convfmt, "OFMT", ofmt, "NV", strconv.Itoa(n), "FPART", "", "GPART", ""}
	prog := r.prog("numstr", c05Lib+c05StrSrc)
	res := awk.Exec(prog, cfg)
	c.Eval(1)
	if res.Panic != "" || res.Err != nil {
		r.fail(c, "run-error num2str", c05Case{Part: "num2str", Convfmt: convfmt, Ofmt: ofmt}, trunc(res.ErrString(), 300))
		return
	}
	lines := strings.Split(res.Out, "\n")
	in := func(s string, acc []string) bool {
		for _, a := range acc {
			if a == s {
				return true
			}
		}
		return false
	}
	for i, f := range fs {
		cs := c05Case{Part: "num2str", Bits: c05BitsHex(f), S: strconv.FormatFloat(f, 'g', -1, 64), Convfmt: convfmt, Ofmt: ofmt}
		o := &r.obs[i+1]
		c.Add("states", 1)
		c.Add("transitions", 4)
		if !o.HaveKey || 2*i+1 >= len(lines) {
			r.fail(c, "value-not-delivered prov=num2str", cs, "no observation")
			continue
		}
		wantC := c05NumStr(f, convfmt)
		wantO := c05NumStr(f, ofmt)
		kind := "fraction"
		switch {
		case math.IsNaN(f) || math.IsInf(f, 0):
			kind = "infnan"
		case f == math.Trunc(f) && math.Abs(f) < 9223372036854775808.0:
			kind = "integer"
		case f == math.Trunc(f):
			kind = "huge-integer"
		}
		c.Outcome(o.Cat + "|" + lines[2*i])
		if !in(o.Cat, wantC) {
			r.fail(c, "num-to-string-concat kind="+kind, cs, fmt.Sprintf("(x \"\") = %q, want %q", o.Cat, wantC[0]))
		}
		if !in(o.Key, wantC) {
			r.fail(c, "num-to-string-subscript kind="+kind, cs, fmt.Sprintf("subscript = %q, want %q", o.Key, wantC[0]))
		}
		if !in(lines[2*i], wantO) {
			r.fail(c, "num-to-string-print kind="+kind, cs, fmt.Sprintf("print x = %q, want %q (OFMT)", lines[2*i], wantO[0]))
		}
		ok := false
		for _, a := range wantC {
			for _, b := range wantO {
				if lines[2*i+1] == a+" "+b {
					ok = true
				}
			}
		}
		if !ok {
			r.fail(c, "num-to-string-print2 kind="+kind, cs, fmt.Sprintf("print x \"\", x = %q, want %q", lines[2*i+1], wantC[0]+" "+wantO[0]))
		}
	}
}

// ---------------------------------------------------------------- driver

func c05Strings(maxLen int) []string {
	var l []string
	for n := 0; n <= maxLen; n++ {
		enumStrings(c05Alphabet, n, func(s string) { l = append(l, s) })
	}
	return l
}

func c05Run(c *core.Ctx) {
	debug.SetGCPercent(800) // the probes produce much short-lived garbage (failed number parses)
	c05bRun(c)              // part 2: subscripts written as literals / variables / computed under every CONVFMT (c05b.go)
	r := c05NewRunner()
	defer r.cleanup()
	maxLen, shortLen := 4, 2
	if c.Thorough() {
		maxLen, shortLen = 5, 3
	}
	exotic := c05Exotic()
	short := append(append([]string{}, exotic...), c05Strings(shortLen)...)
	long := c05Strings(maxLen)[len(c05Strings(shortLen)):]
	if c.Shard == 0 {
		c.Sample(map[string]any{"part": "value", "strings_heavy": len(short), "strings_light": len(long), "provenances": len(c05Provs),
			"partners_heavy": 3 + 3*len(c05F) + len(c05G) + 6, "partners_light": 3 + 3*c05LightF + 6})
	}
	only := os.Getenv("C05_PARTS") // debugging aid: comma-separated provenance names / "pairs" / "numstr" / "fmt"
	want := func(n string) bool {
		if only == "" {
			return true
		}
		for _, w := range strings.Split(only, ",") {
			if w == n {
				return true
			}
		}
		return false
	}
	batches := func(p *c05Prov, strs []string, size int, convfmt string, heavy bool) {
		var batch []c05Val
		flush := func() {
			if len(batch) == 0 {
				return
			}
			if c.Mine() && !c.Expired() {
				r.runProv(c, p, batch, convfmt, heavy)
			}
			batch = batch[:0]
		}
		for _, s := range strs {
			if !c05Usable(p, s) {
				continue
			}
			batch = append(batch, c05Val{S: s})
			if len(batch) == size {
				flush()
			}
		}
		flush()
	}

	// Part 1: every string in every provenance
	for pi := range c05Provs {
		p := &c05Provs[pi]
		if !want(p.Name) {
			continue
		}
		switch p.In {
		case "floats":
			fl := c05CmpFloats()
			vals := make([]c05Val, len(fl))
			for i, f := range fl {
				vals[i] = c05Val{N: f}
			}
			for _, cf := range c05Formats {
				if c.Mine() {
					r.runProv(c, p, vals, cf, true)
				}
			}
			continue
		case "none":
			if c.Mine() {
				r.runProv(c, p, []c05Val{{}}, "%.6g", true)
			}
			continue
		}
		batches(p, short, 64, "%.6g", true)
		batches(p, long, c05VarsBatch, "%.6g", p.Name == "field")
	}
	// exotic and short strings under other CONVFMT settings (numbers compared with strings use it)
	if want("fmt") {
		for _, cf := range c05Formats[1:] {
			for _, pn := range []string{"field", "computed-num", "const"} {
				batches(c05ProvByName(pn), short, 64, cf, true)
			}
		}
	}

	// Part 2: all pairs of input-derived texts
	if want("pairs") {
		xs := c05Strings(3)
		variants := 1
		if c.Thorough() {
			variants = 2
		}
		for variant := 0; variant < variants; variant++ {
			for i := 0; i < len(xs); i += 16 {
				j := i + 16
				if j > len(xs) {
					j = len(xs)
				}
				if c.Mine() && !c.Expired() {
					r.runPairs(c, variant, xs[i:j], xs, c.Thorough())
				}
			}
		}
		// exotic strings against all short strings and against each other
		var ex []string
		for _, s := range exotic {
			if !strings.ContainsAny(s, ";,") {
				ex = append(ex, s)
			}
		}
		yy := append(append([]string{}, ex...), c05Strings(2)...)
		for i := 0; i < len(ex); i += 8 {
			j := i + 8
			if j > len(ex) {
				j = len(ex)
			}
			if c.Mine() && !c.Expired() {
				r.runPairs(c, 0, ex[i:j], yy, true)
			}
		}
		if c.Thorough() {
			// length-4 strings against all strings of length <= 2
			x4 := c05Strings(4)[len(c05Strings(3)):]
			y2 := c05Strings(2)
			for i := 0; i < len(x4); i += 128 {
				j := i + 128
				if j > len(x4) {
					j = len(x4)
				}
				if c.Mine() && !c.Expired() {
					r.runPairs(c, 0, x4[i:j], y2, false)
				}
			}
		}
	}

	// Part 3: number -> string under every CONVFMT / OFMT
	if want("numstr") {
		fs := c05StrFloats()
		for ci, cf := range c05Formats {
			for _, of := range []string{c05Formats[(ci+1)%len(c05Formats)], c05Formats[(ci+4)%len(c05Formats)], cf} {
				for i := 0; i < len(fs); i += 2048 {
					j := i + 2048
					if j > len(fs) {
						j = len(fs)
					}
					if c.Mine() && !c.Expired() {
						r.runNumStr(c, fs[i:j], cf, of)
					}
				}
			}
		}
	}
}

func c05Replay(c *core.Ctx, raw json.RawMessage) {
	var cs c05Case
	if err := json.Unmarshal(raw, &cs); err != nil {
		panic(err)
	}
	r := c05NewRunner()
	defer r.cleanup()
	switch cs.Part {
	case "value":
		p := c05ProvByName(cs.Prov)
		if p == nil {
			panic("c05: unknown provenance " + cs.Prov)
		}
		cf := cs.Convfmt
		if cf == "" {
			cf = "%.6g"
		}
		v := c05Val{S: cs.S}
		if cs.Bits != "" {
			v.N = c05FromHex(cs.Bits)
		}
		r.runProv(c, p, []c05Val{v}, cf, true)
	case "pair":
		variant, _ := strconv.Atoi(cs.Prov)
		r.runPairs(c, variant, []string{cs.S}, []string{cs.Y}, true)
	case "num2str":
		r.runNumStr(c, []float64{c05FromHex(cs.Bits)}, cs.Convfmt, cs.Ofmt)
	}
}

func init() {
	core.Register(&core.Check{
		ID:    "C05",
		Level: "model_checking",
		Rule: "part 2: 12 numbers x 7 CONVFMT values, each used as a subscript written as a literal / held in a variable / computed / converted with \"\", alone and in a multi-dimensional subscript, with in and delete through the other spelling and again after CONVFMT changes: all spellings must name the same element; " +
			"part 1: bounded-exhaustive enumeration against a reference value model: every string of length <= 4 (thorough 5) over {0 1 9 . + - e E x space} plus a fixed list of ~200 exotic strings " +
			"(ASCII/non-ASCII blanks, hex, inf/nan, overflow, underflow, long digits), delivered through every provenance (field, $0, getline forms, split, ARGV, ENVIRON, -v, operand, constant, computed string/number, native number, unset); " +
			"for each value: 7 truth-test forms, 3 arithmetic forms, string conversion, and the 6 comparison operators x?y and y?x as values plus as if / do-while / ternary conditions against ~130 partners of every kind " +
			"(strnum, string, number, unset, own number, own text, numbers any lenient reading of the text could mean); all pairs of strings of length <= 3 as strnum vs strnum; 56 boundary numbers x 9 CONVFMT; " +
			"~17000 numbers x 9 CONVFMT x 3 OFMT for number->string (concatenation, subscript, print). " +
			"A state is one (value, provenance, CONVFMT); a transition is one operand pair (30 operator evaluations); distinct outcomes are distinct observation vectors",
		Assumptions: []string{
			"string comparison is bytewise (POSIX locale)",
			"strconv.ParseFloat on a pure decimal text and strconv.FormatFloat with explicit precision are trusted leaves (C09 owns printf conformance)",
			"classification of hex, inf/nan spellings, overflowing decimals, and texts surrounded by \\n \\v \\f \\r or non-ASCII blanks is open: only one consistent reading (string everywhere, or the arithmetic value everywhere) is demanded; an overflowing pure decimal treated as a string has its own signature",
			"arithmetic value of texts starting with 0x / inf / nan (after sign) is not prescribed",
			"comparisons with a NaN operand: only 'condition form agrees with value form' is demanded",
			"-0 may convert to \"0\" or \"-0\"; inf/nan to [+-]inf / [+-]nan; comparisons of such numbers with strings accept either",
			"a nonexistent field ($1 when NF=0) is not probed (C06); operand values containing newline or backslash are not probed (C11)",
			"amd64 float->int conversion (the integer test of the implementation)",
		},
		Run:    c05Run,
		Replay: c05Replay,
	})
}

package checks

import (
	"context"
	"encoding/json"
	"errors"
	"fmt"
	"io"
	"math"
	"os"
	"reflect"
	"runtime/debug"
	"sort"
	"strconv"
	"strings"
	"unsafe"

	"github.com/benhoyt/goawk/interp"
	"github.com/benhoyt/goawk/parser"
	"github.com/benhoyt/goawk/vexp"

	"verifharness/awk"
	"verifharness/core"
)

// C17 — Go functions exposed to AWK convert arguments and results as
// documented (shape B). Function signatures are synthesised with
// reflect.FuncOf/reflect.MakeFunc; the synthesised function records the Go
// values it receives and returns values from a per-kind table. The expected
// values come from hand-written tables (AWK value -> number / truth / string)
// and an independent per-kind conversion, never from goawk code.

// ---------------------------------------------------------------- types

type (
	c17DBool    bool
	c17DInt     int
	c17DInt8    int8
	c17DInt16   int16
	c17DInt32   int32
	c17DInt64   int64 // like time.Duration
	c17DUint    uint
	c17DUint8   uint8
	c17DUint16  uint16
	c17DUint32  uint32
	c17DUint64  uint64
	c17DFloat32 float32
	c17DFloat64 float64
	c17DString  string
	c17DBytes   []byte
)

type c17Err struct{ at int }

func (e *c17Err) Error() string { return fmt.Sprintf("c17 sentinel error at call %d", e.at) }

var c17ErrorType = reflect.TypeOf((*error)(nil)).Elem()

var c17Kinds = []string{"bool", "int", "int8", "int16", "int32", "int64", "uint", "uint8", "uint16", "uint32", "uint64",
	"float32", "float64", "string", "[]byte"}

// defined (named) types whose kind is a documented kind; value: underlying documented kind
var c17Defined = []string{"dbool", "dint", "dint8", "dint16", "dint32", "dint64", "duint", "duint8", "duint16", "duint32", "duint64",
	"dfloat32", "dfloat64", "dstring", "dbytes", "[]duint8", "uintptr"}

var c17Underlying = map[string]string{"dbool": "bool", "dint": "int", "dint8": "int8", "dint16": "int16", "dint32": "int32", "dint64": "int64",
	"duint": "uint", "duint8": "uint8", "duint16": "uint16", "duint32": "uint32", "duint64": "uint64", "dfloat32": "float32",
	"dfloat64": "float64", "dstring": "string", "dbytes": "[]byte", "[]duint8": "[]byte", "uintptr": "uint"}

// types that are not among the documented kinds
var c17Invalid = []string{"complex64", "complex128", "chan int", "struct{}", "struct{X int}", "map[string]int", "*int", "*string",
	"interface{}", "error", "func()", "[2]int", "[1]byte", "[]int", "[]string", "[][]byte", "[]bool", "[]float64", "[]int8", "[]uint16",
	"unsafe.Pointer", "*c17Err"}

var c17Types = map[string]reflect.Type{
	"bool": reflect.TypeOf(false), "int": reflect.TypeOf(int(0)), "int8": reflect.TypeOf(int8(0)), "int16": reflect.TypeOf(int16(0)),
	"int32": reflect.TypeOf(int32(0)), "int64": reflect.TypeOf(int64(0)), "uint": reflect.TypeOf(uint(0)), "uint8": reflect.TypeOf(uint8(0)),
	"uint16": reflect.TypeOf(uint16(0)), "uint32": reflect.TypeOf(uint32(0)), "uint64": reflect.TypeOf(uint64(0)),
	"float32": reflect.TypeOf(float32(0)), "float64": reflect.TypeOf(float64(0)), "string": reflect.TypeOf(""), "[]byte": reflect.TypeOf([]byte(nil)),

	"dbool": reflect.TypeOf(c17DBool(false)), "dint": reflect.TypeOf(c17DInt(0)), "dint8": reflect.TypeOf(c17DInt8(0)),
	"dint16": reflect.TypeOf(c17DInt16(0)), "dint32": reflect.TypeOf(c17DInt32(0)), "dint64": reflect.TypeOf(c17DInt64(0)),
	"duint": reflect.TypeOf(c17DUint(0)), "duint8": reflect.TypeOf(c17DUint8(0)), "duint16": reflect.TypeOf(c17DUint16(0)),
	"duint32": reflect.TypeOf(c17DUint32(0)), "duint64": reflect.TypeOf(c17DUint64(0)), "dfloat32": reflect.TypeOf(c17DFloat32(0)),
	"dfloat64": reflect.TypeOf(c17DFloat64(0)), "dstring": reflect.TypeOf(c17DString("")), "dbytes": reflect.TypeOf(c17DBytes(nil)),
	"[]duint8": reflect.TypeOf([]c17DUint8(nil)), "uintptr": reflect.TypeOf(uintptr(0)),

	"error": c17ErrorType, "complex64": reflect.TypeOf(complex64(0)), "complex128": reflect.TypeOf(complex128(0)),
	"chan int": reflect.TypeOf((chan int)(nil)), "struct{}": reflect.TypeOf(struct{}{}), "struct{X int}": reflect.TypeOf(struct{ X int }{}),
	"map[string]int": reflect.TypeOf(map[string]int(nil)), "*int": reflect.TypeOf((*int)(nil)), "*string": reflect.TypeOf((*string)(nil)),
	"interface{}": reflect.TypeOf((*interface{})(nil)).Elem(), "func()": reflect.TypeOf(func() {}), "[2]int": reflect.TypeOf([2]int{}),
	"[1]byte": reflect.TypeOf([1]byte{}), "[]int": reflect.TypeOf([]int(nil)), "[]string": reflect.TypeOf([]string(nil)),
	"[][]byte": reflect.TypeOf([][]byte(nil)), "[]bool": reflect.TypeOf([]bool(nil)), "[]float64": reflect.TypeOf([]float64(nil)),
	"[]int8": reflect.TypeOf([]int8(nil)), "[]uint16": reflect.TypeOf([]uint16(nil)), "unsafe.Pointer": reflect.TypeOf(unsafe.Pointer(nil)),
	"*c17Err": reflect.TypeOf((*c17Err)(nil)),
}

func c17OracleKind(name string) string {
	if u, ok := c17Underlying[name]; ok {
		return u
	}
	return name
}

// ---------------------------------------------------------------- AWK argument values

// c17Val is one AWK argument expression with its hand-written meaning:
// numeric value, truth value and string form (StrOK=false: string form not
// fixed by the documentation, excluded from the equality oracle).
type c17Val struct {
	Expr  string
	Class string // num, nan, inf, str, numstr, unset
	Num   float64
	Truth bool
	Str   string
	StrOK bool
}

const c17Input = "0; 12 ;abc;2.50;-3.9;;1e3;255.99\n"

// OFMT differs from CONVFMT: a number handed to a string parameter is converted with CONVFMT
var c17Vars = []string{"OFMT", "%.2g", "FS", ";", "VZ", "0", "VS", " 12 ", "VF", "2.50", "VE", "1e3", "VA", "abc", "VZZ", "0.0", "VP", "+7", "VD", ".5", "VN", "-129"}

func c17Vals() []c17Val {
	var vs []c17Val
	num := func(expr string, x float64, s string) {
		vs = append(vs, c17Val{expr, "num", x, x != 0, s, s != "?"})
	}
	str := func(expr string, x float64, s string) {
		vs = append(vs, c17Val{expr, "str", x, s != "", s, true})
	}
	numstr := func(expr string, x float64, s string) {
		vs = append(vs, c17Val{expr, "numstr", x, x != 0, s, true})
	}
	// numbers: small, negative, fractional (truncation toward zero), every width boundary, huge
	num("0", 0, "0")
	num("1", 1, "1")
	num("-1", -1, "-1")
	num("2.5", 2.5, "2.5")
	num("-2.5", -2.5, "-2.5")
	num("0.9", 0.9, "0.9")
	num("-0.9", -0.9, "-0.9")
	num("127", 127, "127")
	num("127.9", 127.9, "127.9")
	num("128", 128, "128")
	num("-128", -128, "-128")
	num("-128.9", -128.9, "-128.9")
	num("-129", -129, "-129")
	num("255", 255, "255")
	num("256", 256, "256")
	num("32767", 32767, "32767")
	num("32768", 32768, "32768")
	num("-32768", -32768, "-32768")
	num("-32769", -32769, "-32769")
	num("65535", 65535, "65535")
	num("65536", 65536, "65536")
	num("2147483647", 2147483647, "2147483647")
	num("2147483648", 2147483648, "2147483648")
	num("-2147483648", -2147483648, "-2147483648")
	num("-2147483649", -2147483649, "-2147483649")
	num("4294967295", 4294967295, "4294967295")
	num("4294967296", 4294967296, "4294967296")
	num("9007199254740992", 9007199254740992, "9007199254740992")
	num("1e18", 1e18, "1000000000000000000")
	num("-1e18", -1e18, "-1000000000000000000")
	num("9223372036854774784", 9223372036854774784, "?")   // largest float64 below 2^63
	num("9223372036854775808", 9223372036854775808, "?")   // 2^63
	num("-9223372036854775808", -9223372036854775808, "?") // -2^63: smallest int64
	num("-9223372036854777856", -9223372036854777856, "?") // next float64 below -2^63
	num("1e19", 1e19, "?")                                 // within uint64
	num("18446744073709549568", 18446744073709549568, "?") // largest float64 below 2^64
	num("18446744073709551616", 18446744073709551616, "?") // 2^64
	num("1e30", 1e30, "?")
	num("-1e30", -1e30, "?")
	pt1, pt2 := 0.1, 0.2
	num("0.1+0.2", pt1+pt2, "0.3") // 0.30000000000000004
	num("1234567.5", 1234567.5, "1.23457e+06")
	num("1e-5", 1e-5, "1e-05")
	num("length(\"abc\")", 3, "3")
	num("(1==1)", 1, "1")
	vs = append(vs, c17Val{"log(-1)", "nan", math.NaN(), true, "", false})
	vs = append(vs, c17Val{"-log(0)", "inf", math.Inf(1), true, "", false})
	vs = append(vs, c17Val{"log(0)", "inf", math.Inf(-1), true, "", false})
	// string constants: never numeric strings (truth = non-empty), number = leading numeric prefix
	str(`""`, 0, "")
	str(`"abc"`, 0, "abc")
	str(`"0"`, 0, "0")
	str(`"3x"`, 3, "3x")
	str(`" 12 "`, 12, " 12 ")
	str(`"1e3"`, 1000, "1e3")
	str(`"-2.5"`, -2.5, "-2.5")
	str(`".5"`, 0.5, ".5")
	str(`"+7"`, 7, "+7")
	str(`"  -129.7xyz"`, -129.7, "  -129.7xyz")
	str(`"a\tb"`, 0, "a\tb")
	str(`"\303\251"`, 0, "\xc3\xa9")
	str(`"x" "y"`, 0, "xy")
	str(`"-"`, 0, "-")
	str(`substr("hello", 2, 3)`, 0, "ell")
	str(`$3`, 0, "abc")
	str(`VA`, 0, "abc")
	// numeric strings (from -v style variables and from input fields)
	numstr("VZ", 0, "0")
	numstr("VS", 12, " 12 ")
	numstr("VF", 2.5, "2.50")
	numstr("VE", 1000, "1e3")
	numstr("VZZ", 0, "0.0")
	numstr("VP", 7, "+7")
	numstr("VD", 0.5, ".5")
	numstr("VN", -129, "-129")
	numstr("$1", 0, "0")
	numstr("$2", 12, " 12 ")
	numstr("$4", 2.5, "2.50")
	numstr("$5", -3.9, "-3.9")
	numstr("$7", 1000, "1e3")
	numstr("$8", 255.99, "255.99")
	// unset / empty
	vs = append(vs, c17Val{"U", "unset", 0, false, "", true})
	vs = append(vs, c17Val{"$6", "unset", 0, false, "", true})
	vs = append(vs, c17Val{"$11", "unset", 0, false, "", true})
	return vs
}

var c17IntBits = map[string]int{"int": strconv.IntSize, "int8": 8, "int16": 16, "int32": 32, "int64": 64,
	"uint": strconv.IntSize, "uint8": 8, "uint16": 16, "uint32": 32, "uint64": 64}

// c17ExpectArg: the Go value (canonical text) a parameter of the given kind
// must receive for AWK value v. exact=false: outside the documented range
// (implementation-defined float->integer conversion, or undocumented string
// form) — only "no panic" is required.
func c17ExpectArg(kind string, v c17Val) (want string, exact bool, class string) {
	class = v.Class
	switch kind {
	case "bool":
		return strconv.FormatBool(v.Truth), true, class
	case "float64":
		return strconv.FormatFloat(v.Num, 'g', -1, 64), true, class
	case "float32":
		return strconv.FormatFloat(float64(float32(v.Num)), 'g', -1, 32), true, class
	case "string":
		return strconv.Quote(v.Str), v.StrOK, class
	case "[]byte":
		return "b" + strconv.Quote(v.Str), v.StrOK, class
	}
	bits, ok := c17IntBits[kind]
	if !ok {
		panic("c17: unknown kind " + kind)
	}
	if math.IsNaN(v.Num) || math.IsInf(v.Num, 0) {
		return "", false, class
	}
	t := math.Trunc(v.Num)
	if kind[0] == 'u' {
		if t < 0 || t >= math.Ldexp(1, bits) {
			return "", false, class
		}
		if t >= math.Ldexp(1, 63) {
			class = "num>=2^63"
		}
		return strconv.FormatUint(uint64(t), 10), true, class
	}
	if t < -math.Ldexp(1, bits-1) || t >= math.Ldexp(1, bits-1) {
		return "", false, class
	}
	return strconv.FormatInt(int64(t), 10), true, class
}

func c17ZeroArg(kind string) string {
	switch kind {
	case "bool":
		return "false"
	case "string":
		return `""`
	case "[]byte":
		return `b""`
	}
	return "0"
}

func c17Canon(v reflect.Value) string {
	switch v.Kind() {
	case reflect.Bool:
		return strconv.FormatBool(v.Bool())
	case reflect.Int, reflect.Int8, reflect.Int16, reflect.Int32, reflect.Int64:
		return strconv.FormatInt(v.Int(), 10)
	case reflect.Uint, reflect.Uint8, reflect.Uint16, reflect.Uint32, reflect.Uint64, reflect.Uintptr:
		return strconv.FormatUint(v.Uint(), 10)
	case reflect.Float32:
		return strconv.FormatFloat(v.Float(), 'g', -1, 32)
	case reflect.Float64:
		return strconv.FormatFloat(v.Float(), 'g', -1, 64)
	case reflect.String:
		return strconv.Quote(v.String())
	case reflect.Slice:
		if v.Type().Elem().Kind() == reflect.Uint8 {
			return "b" + strconv.Quote(string(v.Bytes()))
		}
	}
	return "?" + v.Type().String()
}

// ---------------------------------------------------------------- result values

// c17Res: a Go value returned by the synthesised function and the AWK value
// it must become: a number (IsStr=false) or a string.
type c17Res struct {
	Go      any
	IsStr   bool
	Num     float64 // numeric value seen by AWK
	Str     string  // string form seen by AWK
	StrOK   bool
	TruthOK bool
	NumOK   bool
}

func c17ResVals(kind string) []c17Res {
	n := func(g any, x float64, s string) c17Res { return c17Res{g, false, x, s, s != "?", true, true} }
	s := func(g any, str string, x float64, numOK, truthOK bool) c17Res {
		return c17Res{g, true, x, str, true, truthOK, numOK}
	}
	switch kind {
	case "bool":
		return []c17Res{n(false, 0, "0"), n(true, 1, "1")}
	case "int":
		return []c17Res{n(int(0), 0, "0"), n(int(-1), -1, "-1"), n(int(math.MaxInt32), 2147483647, "2147483647"), n(int(math.MinInt32), -2147483648, "-2147483648"),
			n(int(math.MaxInt), float64(math.MaxInt), "?")}
	case "int8":
		return []c17Res{n(int8(-128), -128, "-128"), n(int8(-1), -1, "-1"), n(int8(0), 0, "0"), n(int8(127), 127, "127")}
	case "int16":
		return []c17Res{n(int16(-32768), -32768, "-32768"), n(int16(32767), 32767, "32767"), n(int16(0), 0, "0")}
	case "int32":
		return []c17Res{n(int32(math.MinInt32), -2147483648, "-2147483648"), n(int32(math.MaxInt32), 2147483647, "2147483647"), n(int32(-1), -1, "-1")}
	case "int64":
		return []c17Res{n(int64(math.MinInt64), -9223372036854775808, "?"), n(int64(math.MaxInt64), 9223372036854775807, "?"), n(int64(-1), -1, "-1"),
			n(int64(1)<<53, 9007199254740992, "9007199254740992"), n(int64(0), 0, "0")}
	case "uint":
		return []c17Res{n(uint(0), 0, "0"), n(uint(math.MaxUint32), 4294967295, "4294967295"), n(^uint(0), float64(^uint(0)), "?")}
	case "uint8":
		return []c17Res{n(uint8(0), 0, "0"), n(uint8(128), 128, "128"), n(uint8(255), 255, "255")}
	case "uint16":
		return []c17Res{n(uint16(65535), 65535, "65535"), n(uint16(0), 0, "0"), n(uint16(32768), 32768, "32768")}
	case "uint32":
		return []c17Res{n(uint32(math.MaxUint32), 4294967295, "4294967295"), n(uint32(1), 1, "1"), n(uint32(1)<<31, 2147483648, "2147483648")}
	case "uint64":
		return []c17Res{n(uint64(0), 0, "0"), n(uint64(1)<<63, 9223372036854775808, "?"), n(uint64(math.MaxUint64), 18446744073709551615, "?"),
			n(uint64(1)<<53, 9007199254740992, "9007199254740992")}
	case "float32":
		return []c17Res{n(float32(0), 0, "0"), n(float32(0.5), 0.5, "0.5"), n(float32(-2.5), -2.5, "-2.5"), n(float32(0.1), float64(float32(0.1)), "0.1"),
			n(float32(math.MaxFloat32), math.MaxFloat32, "?"), n(float32(math.NaN()), math.NaN(), "?"), n(float32(math.Inf(1)), math.Inf(1), "?")}
	case "float64":
		return []c17Res{n(float64(0), 0, "0"), n(0.1, 0.1, "0.1"), n(-2.5, -2.5, "-2.5"), n(1e300, 1e300, "?"), n(math.NaN(), math.NaN(), "?"),
			n(math.Inf(-1), math.Inf(-1), "?"), n(5e-324, 5e-324, "4.94066e-324"), n(123456789.0, 123456789, "123456789"), n(1234567.5, 1234567.5, "1.23457e+06")}
	case "string":
		return []c17Res{s("", "", 0, true, true), s("abc", "abc", 0, true, true), s("0", "0", 0, false, false), s(" 12 ", " 12 ", 12, true, false),
			s("3x", "3x", 3, true, true), s("\xff\x00z", "\xff\x00z", 0, false, true), s("a\nb", "a\nb", 0, true, true)}
	case "[]byte":
		return []c17Res{s([]byte(nil), "", 0, true, true), s([]byte{}, "", 0, true, true), s([]byte("abc"), "abc", 0, true, true),
			s([]byte("0"), "0", 0, false, false), s([]byte{0xff, 0, 'z'}, "\xff\x00z", 0, false, true), s([]byte(" 12 "), " 12 ", 12, true, false)}
	}
	panic("c17: no result values for " + kind)
}

func c17ResValue(typeName string, r c17Res) reflect.Value {
	t := c17Types[typeName]
	v := reflect.ValueOf(r.Go)
	if typeName == "[]duint8" {
		b := r.Go.([]byte)
		if b == nil {
			return reflect.Zero(t)
		}
		s := reflect.MakeSlice(t, len(b), len(b))
		for i := range b {
			s.Index(i).SetUint(uint64(b[i]))
		}
		return s
	}
	if v.Type() != t {
		return v.Convert(t)
	}
	return v
}

// ---------------------------------------------------------------- case description

type c17Sig struct {
	Group    string   `json:"group"` // valid, wide, defined, invalid, keyword, multi, nonfunc
	Name     string   `json:"name"`
	Params   []string `json:"params"`
	Variadic bool     `json:"variadic"`
	Results  []string `json:"results"`
	Extra    string   `json:"extra,omitempty"`
	Names    []string `json:"names,omitempty"` // multi: indexes into the invalid list are in Extra
}

func (s c17Sig) String() string {
	ps := append([]string(nil), s.Params...)
	if s.Variadic && len(ps) > 0 {
		ps[len(ps)-1] = "..." + ps[len(ps)-1]
	}
	r := ""
	if len(s.Results) == 1 {
		r = " " + s.Results[0]
	} else if len(s.Results) > 1 {
		r = " (" + strings.Join(s.Results, ", ") + ")"
	}
	return "func " + s.Name + "(" + strings.Join(ps, ", ") + ")" + r
}

func c17FuncType(s c17Sig) (t reflect.Type, problem string) {
	defer func() {
		if r := recover(); r != nil {
			problem = fmt.Sprint(r)
		}
	}()
	var in, out []reflect.Type
	for i, p := range s.Params {
		pt, ok := c17Types[p]
		if !ok {
			return nil, "unknown type " + p
		}
		if s.Variadic && i == len(s.Params)-1 {
			pt = reflect.SliceOf(pt)
		}
		in = append(in, pt)
	}
	for _, p := range s.Results {
		pt, ok := c17Types[p]
		if !ok {
			return nil, "unknown type " + p
		}
		out = append(out, pt)
	}
	return reflect.FuncOf(in, out, s.Variadic), ""
}

// ---------------------------------------------------------------- runner

type c17Call struct {
	Name string
	Args []string
}

type c17Obs struct {
	N float64
	S string
	T bool
}

type c17Runner struct {
	vals      []c17Val
	calls     []c17Call
	obs       []c17Obs
	decoys    []string
	errAt     int
	sentinel  *c17Err
	resVals   []reflect.Value
	capOn     bool
	failCount map[string]int
	base      map[string]any // decoys + observer
	order     int            // map iteration order used by goawk: 0 sorted keys, -1 reversed, k>0 rotated by k
}

// c17Perm is installed as the map-iteration hook of the instrumented build: Go
// leaves map iteration order open, so every order is a legal environment.
func (r *c17Runner) perm(site string, n int) []int {
	if r.order == 0 {
		return nil
	}
	p := make([]int, n)
	for i := range p {
		if r.order < 0 {
			p[i] = n - 1 - i
		} else {
			p[i] = (i + r.order) % n
		}
	}
	return p
}

// names for the function under test; all others are present as decoys, so the
// name-sorted native function table has entries before, between and after it
var c17Names = []string{"f", "F", "_f", "f0", "ff", "a", "zz", "Begin", "lengthy", "c17obr", "c17obt", "A", "in_", "nextfil", "END_"}

func newC17Runner() *c17Runner {
	r := &c17Runner{vals: c17Vals(), errAt: -1, failCount: map[string]int{}, base: map[string]any{}}
	vexp.SetPermFn(r.perm)
	r.base["c17obs"] = func(n float64, s string, t bool) { r.obs = append(r.obs, c17Obs{n, s, t}) }
	for i, name := range c17Names {
		name := name
		switch i % 4 {
		case 0:
			r.base[name] = func(s string) string { r.decoys = append(r.decoys, name); return "decoy" }
		case 1:
			r.base[name] = func(a ...int) int { r.decoys = append(r.decoys, name); return -7 }
		case 2:
			r.base[name] = func() { r.decoys = append(r.decoys, name) }
		default:
			r.base[name] = func(a, b float64) (float64, error) { r.decoys = append(r.decoys, name); return -9, nil }
		}
	}
	return r
}

func (r *c17Runner) reset() {
	r.calls, r.obs, r.decoys, r.errAt, r.sentinel = nil, nil, nil, -1, nil
}

func (r *c17Runner) fail(c *core.Ctx, sig string, cs c17Sig, observed string) {
	if r.capOn {
		r.failCount[sig]++
		if r.failCount[sig] > 2 {
			c.Add("violations_not_listed_again", 1)
			return
		}
	}
	c.Fail(sig, cs, observed)
}

// makeFn builds the recording implementation of signature s.
func (r *c17Runner) makeFn(s c17Sig, ft reflect.Type) any {
	nres := len(s.Results)
	fn := reflect.MakeFunc(ft, func(args []reflect.Value) []reflect.Value {
		idx := len(r.calls)
		call := c17Call{Name: s.Name}
		for i, a := range args {
			if s.Variadic && i == len(args)-1 {
				for j := 0; j < a.Len(); j++ {
					call.Args = append(call.Args, c17Canon(a.Index(j)))
				}
			} else {
				call.Args = append(call.Args, c17Canon(a))
			}
		}
		r.calls = append(r.calls, call)
		outs := make([]reflect.Value, 0, nres)
		for i := 0; i < nres; i++ {
			rt := ft.Out(i)
			switch {
			case i == 0 && len(r.resVals) > 0:
				outs = append(outs, r.resVals[idx%len(r.resVals)])
			case rt == c17ErrorType && idx == r.errAt && r.sentinel != nil:
				outs = append(outs, reflect.ValueOf(r.sentinel))
			default:
				outs = append(outs, reflect.Zero(rt))
			}
		}
		return outs
	})
	return fn.Interface()
}

func (r *c17Runner) funcs(name string, fn any) map[string]any {
	m := make(map[string]any, len(r.base)+1)
	for k, v := range r.base {
		m[k] = v
	}
	m[name] = fn
	return m
}

// c17Plan: the calls of one program: every argument count 0..maxM, and for
// each count every AWK value in the first slot with the other slots taking
// the value list at a stride, so every slot sees every value.
func c17Plan(nvals, maxM int) [][]int {
	plan := [][]int{{}}
	for m := 1; m <= maxM; m++ {
		for vi := 0; vi < nvals; vi++ {
			args := make([]int, m)
			for i := range args {
				args[i] = (vi + i*7) % nvals
			}
			plan = append(plan, args)
		}
	}
	// ... and back down: a call with fewer arguments AFTER calls with more
	// (missing arguments are zero values, not what an earlier call supplied)
	for m := maxM - 1; m >= 0; m-- {
		for _, vi := range []int{1, 3} {
			args := make([]int, m)
			for i := range args {
				args[i] = (vi + i*5) % nvals
			}
			plan = append(plan, args)
			if m == 0 {
				break
			}
		}
	}
	return plan
}

func c17CallExpr(name string, vals []c17Val, args []int) string {
	var b strings.Builder
	b.WriteString(name)
	b.WriteByte('(')
	for i, a := range args {
		if i > 0 {
			b.WriteString(", ")
		}
		b.WriteString(vals[a].Expr)
	}
	b.WriteByte(')')
	return b.String()
}

func c17Program(name string, vals []c17Val, plan [][]int) string {
	var b strings.Builder
	b.WriteString("{\n")
	for _, args := range plan {
		b.WriteString("r = ")
		b.WriteString(c17CallExpr(name, vals, args))
		b.WriteString("; c17obs(r, r, r)\n")
	}
	b.WriteString("}\n")
	return b.String()
}

func c17FloatEq(a, b float64) bool {
	if math.IsNaN(a) || math.IsNaN(b) {
		return math.IsNaN(a) && math.IsNaN(b)
	}
	return a == b
}

func (r *c17Runner) exec(prog *parser.Program, funcs map[string]any) awk.Result {
	return awk.Exec(prog, &interp.Config{Stdin: strings.NewReader(c17Input), Vars: c17Vars, Funcs: funcs})
}

// c17CheckCallable: signature whose types are all of documented kinds (or, if
// either is set, defined types of such kinds where set-up rejection is also
// acceptable). Decides conversion of every argument, zero fill, variadic
// spread, result conversion, error abort, and the too-many-arguments rule.
func c17CheckCallable(c *core.Ctx, r *c17Runner, s c17Sig, either bool) {
	seen := map[string]bool{}
	fail := func(sig, observed string) {
		if !seen[sig] {
			seen[sig] = true
			r.fail(c, sig, s, s.String()+": "+observed)
		}
	}
	ft, problem := c17FuncType(s)
	if problem != "" {
		panic("c17: cannot build " + s.String() + ": " + problem)
	}
	// result table
	r.resVals = nil
	var resTab []c17Res
	if len(s.Results) > 0 {
		resTab = c17ResVals(c17OracleKind(s.Results[0]))
		for _, rv := range resTab {
			r.resVals = append(r.resVals, c17ResValue(s.Results[0], rv))
		}
	}
	fn := r.makeFn(s, ft)
	funcs := r.funcs(s.Name, fn)
	n := len(s.Params)
	nFixed := n
	maxM := n
	if s.Variadic {
		nFixed = n - 1
		maxM = n + 2
	}
	kindAt := func(i int) string {
		if i < nFixed {
			return c17OracleKind(s.Params[i])
		}
		return c17OracleKind(s.Params[n-1])
	}
	plan := c17Plan(len(r.vals), maxM)
	src := c17Program(s.Name, r.vals, plan)
	c.Announce(s)
	r.order = -1
	defer func() { r.order = 0 }()
	prog, perr, ppanic := awk.Parse(src, funcs)
	if ppanic != "" {
		fail("parse-panic callable", "parser panicked: "+firstLine(ppanic))
		return
	}
	if perr != nil {
		fail("valid-call-rejected-by-parser", "parse error for calls with 0.."+strconv.Itoa(maxM)+" arguments: "+perr.Error())
		return
	}
	r.reset()
	res := r.exec(prog, funcs)
	c.Eval(1)
	role := ""
	if either {
		role = " defined-type " + s.Extra
		for _, t := range append(append([]string{}, s.Params...), s.Results...) {
			if t == "uintptr" {
				role = " uintptr " + s.Extra
			}
		}
	}
	if res.Panic != "" {
		at := len(r.calls)
		expr := ""
		if at > 0 && len(r.obs) < at {
			expr = c17CallExpr(s.Name, r.vals, plan[at-1]) + " (result conversion)"
		} else if at < len(plan) {
			expr = c17CallExpr(s.Name, r.vals, plan[at])
		}
		fail("call-panic"+role, "panic at call time in "+expr+": "+firstLine(res.Panic))
		c.Outcome("panic " + firstLine(res.Panic))
		return
	}
	if res.Err != nil {
		if either && len(r.calls) == 0 {
			c.Outcome("rejected at set-up: " + res.Err.Error())
			return
		}
		fail("valid-signature-rejected", "ExecProgram error: "+res.Err.Error())
		return
	}
	c.Add("transitions", int64(len(plan)))
	if len(r.decoys) > 0 {
		fail("dispatch", fmt.Sprintf("other native functions were called: %v", r.decoys[:1]))
	}
	if len(r.calls) != len(plan) || len(r.obs) != len(plan) {
		fail("call-count", fmt.Sprintf("%d calls and %d results observed, want %d", len(r.calls), len(r.obs), len(plan)))
		return
	}
	for ci, args := range plan {
		call := r.calls[ci]
		m := len(args)
		wantN := n
		if s.Variadic {
			wantN = nFixed
			if m > nFixed {
				wantN = m
			}
		}
		expr := ""
		lazyExpr := func() string {
			if expr == "" {
				expr = c17CallExpr(s.Name, r.vals, args)
			}
			return expr
		}
		if call.Name != s.Name {
			fail("dispatch", lazyExpr()+" reached "+call.Name)
		}
		if len(call.Args) != wantN {
			what := "zero-fill-count"
			if s.Variadic && m > nFixed {
				what = "variadic-spread-count"
			}
			fail(what, fmt.Sprintf("%s: function received %d values %v, want %d", lazyExpr(), len(call.Args), call.Args, wantN))
		} else {
			for i := 0; i < wantN; i++ {
				k := kindAt(i)
				if i >= m {
					if call.Args[i] != c17ZeroArg(k) {
						fail("zero-fill kind="+k, fmt.Sprintf("%s: missing argument %d (%s) received %s, want zero value", lazyExpr(), i, k, call.Args[i]))
					}
					continue
				}
				want, exact, class := c17ExpectArg(k, r.vals[args[i]])
				if exact && call.Args[i] != want {
					fail("arg-convert kind="+k+" val="+class, fmt.Sprintf("%s: argument %d (%s) received %s, want %s", lazyExpr(), i, k, call.Args[i], want))
				}
			}
		}
		// result
		o := r.obs[ci]
		if len(s.Results) == 0 {
			if o.S != "" || o.N != 0 || o.T {
				fail("result-convert none", fmt.Sprintf("%s: function without result gave number %v string %q truth %v", lazyExpr(), o.N, o.S, o.T))
			}
		} else {
			rv := resTab[ci%len(resTab)]
			rk := c17OracleKind(s.Results[0])
			bad := false
			if rv.IsStr {
				bad = o.S != rv.Str || (rv.TruthOK && o.T != (rv.Str != "")) || (rv.NumOK && !c17FloatEq(o.N, rv.Num))
			} else {
				bad = !c17FloatEq(o.N, rv.Num) || o.T != (rv.Num != 0) || (rv.StrOK && o.S != rv.Str)
			}
			if bad {
				fail("result-convert kind="+rk, fmt.Sprintf("%s returning %s %#v: AWK saw number %v string %q truth %v; want number %v string %q",
					lazyExpr(), s.Results[0], rv.Go, o.N, o.S, o.T, rv.Num, rv.Str))
			}
		}
		if len(args) <= 1 || (len(args) == 2 && ci%16 == 0) {
			c.Outcome(strings.Join(call.Args, ",") + "->" + strconv.FormatFloat(o.N, 'g', -1, 64) + "|" + o.S)
		}
	}
	// non-nil error aborts the run with exactly that error
	if len(s.Results) == 2 {
		ats := []int{0, len(plan) / 2}
		if s.Group != "valid" {
			ats = append(ats, len(plan)-1)
		}
		for _, at := range ats {
			r.reset()
			r.errAt = at
			r.order = 1 + at%5
			r.sentinel = &c17Err{at}
			sent := r.sentinel
			res := r.exec(prog, funcs)
			c.Eval(1)
			c.Add("transitions", 1)
			switch {
			case res.Panic != "":
				fail("error-abort", fmt.Sprintf("error returned at call %d: panic %s", at, firstLine(res.Panic)))
			case res.Err == nil:
				fail("error-abort", fmt.Sprintf("error returned at call %d: run finished without error (%d calls)", at, len(r.calls)))
			case !errors.Is(res.Err, sent):
				fail("error-abort", fmt.Sprintf("error returned at call %d: ExecProgram returned a different error: %v", at, res.Err))
			case len(r.calls) != at+1 || len(r.obs) != at:
				fail("error-abort", fmt.Sprintf("error returned at call %d: run continued (%d calls, %d results observed)", at, len(r.calls), len(r.obs)))
			}
			c.Outcome("error-abort")
		}
		r.reset()
	}
	// too many arguments to a non-variadic function: parse error
	if !s.Variadic {
		for extra := 1; extra <= 2; extra++ {
			args := make([]string, n+extra)
			for i := range args {
				args[i] = "1"
			}
			for _, form := range []string{"BEGIN { %s(%s) }", "function g(x) { return %s(%s) }"} {
				src := fmt.Sprintf(form, s.Name, strings.Join(args, ", "))
				_, perr, ppanic := awk.Parse(src, funcs)
				c.Add("transitions", 1)
				var pe *parser.ParseError
				switch {
				case ppanic != "":
					fail("too-many-args", src+": parser panicked: "+firstLine(ppanic))
				case perr == nil:
					fail("too-many-args", src+": accepted by the parser")
				case !errors.As(perr, &pe):
					fail("too-many-args", src+": error is not a *parser.ParseError: "+perr.Error())
				}
			}
		}
	}
}

// c17CheckRejected: a function that is not of a documented shape (or has a
// keyword name) must make ExecProgram return an error — without panicking and
// without running anything.
func c17CheckRejected(c *core.Ctx, r *c17Runner, s c17Sig, what string) {
	ft, problem := c17FuncType(s)
	if problem != "" {
		panic("c17: cannot build " + s.String() + ": " + problem)
	}
	r.resVals = nil
	fn := r.makeFn(s, ft)
	funcs := map[string]any{s.Name: fn, "c17obs": r.base["c17obs"], "ok": r.base["f"]}
	srcs := []string{`BEGIN { c17obs(1, "x", 1) }`}
	if what != "keyword" {
		srcs = append(srcs, fmt.Sprintf(`BEGIN { c17obs(1, "x", 1); %s() }`, s.Name))
	}
	c.Announce(s)
	for _, src := range srcs {
		prog, perr, ppanic := awk.Parse(src, funcs)
		if ppanic != "" {
			r.fail(c, what+"-parse-panic", s, s.String()+": "+src+": parser panicked: "+firstLine(ppanic))
			continue
		}
		if perr != nil {
			// rejected even earlier; fine
			c.Outcome("parse error")
			continue
		}
		r.reset()
		res := r.exec(prog, funcs)
		c.Eval(1)
		c.Add("transitions", 1)
		switch {
		case res.Panic != "":
			r.fail(c, what+"-panic", s, s.String()+": "+src+": panic instead of set-up error: "+firstLine(res.Panic))
		case res.Err == nil:
			r.fail(c, what+"-accepted", s, s.String()+": "+src+": ExecProgram returned no error")
		case len(r.obs) > 0 || len(r.calls) > 0:
			r.fail(c, what+"-ran", s, s.String()+": "+src+": program ran before the error: "+res.Err.Error())
		default:
			c.Outcome(c17Generalise(res.Err.Error()))
		}
	}
}

func c17Generalise(msg string) string {
	// drop the quoted function name so that outcomes count kinds of messages
	if i := strings.IndexByte(msg, '"'); i >= 0 {
		if j := strings.IndexByte(msg[i+1:], '"'); j >= 0 {
			return msg[:i] + "NAME" + msg[i+1+j+1:]
		}
	}
	return msg
}

// AWK keywords and built-in function names (POSIX list plus fflush/nextfile,
// which GoAWK documents as supported), written out by hand.
var c17Keywords = []string{"BEGIN", "END", "break", "continue", "delete", "do", "else", "exit", "for", "function", "getline", "if", "in",
	"next", "nextfile", "print", "printf", "return", "while",
	"atan2", "close", "cos", "exp", "fflush", "gsub", "index", "int", "length", "log", "match", "rand", "sin", "split", "sprintf", "sqrt",
	"srand", "sub", "substr", "system", "tolower", "toupper"}

// invalid functions used together (order dependence of the reported error)
var c17MultiPool = []c17Sig{
	{Name: "bad1", Params: []string{"complex64"}},
	{Name: "bad2", Results: []string{"map[string]int"}},
	{Name: "bad3", Results: []string{"int", "int"}},
	{Name: "print", Params: []string{"int"}},
	{Name: "bad4", Params: []string{"float64", "[]int"}, Variadic: true},
}

func c17CheckMulti(c *core.Ctx, r *c17Runner, s c17Sig) {
	// s.Extra: bitmask over c17MultiPool
	mask, _ := strconv.Atoi(s.Extra)
	funcs := map[string]any{"c17obs": r.base["c17obs"], "ok": r.base["f"], "ok2": r.base["F"]}
	r.resVals = nil
	for i, m := range c17MultiPool {
		if mask&(1<<uint(i)) != 0 {
			ft, problem := c17FuncType(m)
			if problem != "" {
				panic(problem)
			}
			funcs[m.Name] = r.makeFn(m, ft)
		}
	}
	prog, perr, ppanic := awk.Parse(`BEGIN { c17obs(1, "x", 1) }`, funcs)
	if perr != nil || ppanic != "" {
		r.fail(c, "multi-invalid-parse", s, fmt.Sprintf("%v %s", perr, firstLine(ppanic)))
		return
	}
	msgs := map[string]bool{}
	defer func() { r.order = 0 }()
	for order := -1; order < len(funcs); order++ { // reversed, sorted, every rotation: each key comes first once
		r.order = order
		r.reset()
		res := r.exec(prog, funcs)
		c.Eval(1)
		c.Add("transitions", 1)
		switch {
		case res.Panic != "":
			r.fail(c, "multi-invalid-panic", s, "panic instead of set-up error: "+firstLine(res.Panic))
			return
		case res.Err == nil:
			r.fail(c, "multi-invalid-accepted", s, "several invalid native functions: ExecProgram returned no error")
			return
		case len(r.obs) > 0:
			r.fail(c, "multi-invalid-ran", s, "program ran before the error: "+res.Err.Error())
			return
		}
		msgs[res.Err.Error()] = true
	}
	c.Outcome("multi rejected")
	if len(msgs) > 1 {
		// observation only: the property demands rejection, not which function is named
		c.Note("observation_setup_error_names_different_function_from_run_to_run", "with several invalid native functions the function named in the set-up error depends on Go map iteration order (initNativeFuncs ranges over the map)")
	}
}

// c17CheckNonFunc: values in Funcs that are not functions at all. Only the
// harness' own robustness and observations; see Assumptions.
func c17CheckNonFunc(c *core.Ctx, r *c17Runner, s c17Sig) {
	var typedNil func(float64) float64
	x := 5
	vals := map[string]any{"int": 0, "string": "s", "float": 3.5, "struct": struct{}{}, "bytes": []byte("x"), "map": map[string]int{},
		"pointer": &x, "pointer-to-func": &typedNil, "nil": nil, "typed-nil-func": typedNil}
	v, ok := vals[s.Extra]
	if !ok {
		return
	}
	funcs := map[string]any{"c17obs": r.base["c17obs"], "nf": v}
	c.Announce(s)
	// not called by the program
	prog, perr, ppanic := awk.Parse(`BEGIN { c17obs(1, "x", 1) }`, funcs)
	if perr != nil || ppanic != "" {
		c.Note("observation_nonfunc_"+s.Extra+"_parser", fmt.Sprintf("parser: err=%v panic=%s", perr, firstLine(ppanic)))
		return
	}
	r.reset()
	res := r.exec(prog, funcs)
	c.Eval(1)
	c.Add("transitions", 1)
	switch {
	case s.Extra == "typed-nil-func":
		// a nil function value of a documented type: accepted at set-up (nothing calls it here)
		c.Outcome("typed nil: " + res.ErrString())
	case s.Extra == "nil":
		if res.Panic != "" {
			c.Note("observation_untyped_nil_in_Funcs", "ExecProgram panics at set-up instead of returning an error: "+firstLine(res.Panic))
		}
		c.Outcome("nil: " + firstLine(res.ErrString()))
	case res.Panic != "":
		r.fail(c, "nonfunc-panic", s, "non-function value ("+s.Extra+") in Funcs: panic at set-up: "+firstLine(res.Panic))
	case res.Err == nil:
		r.fail(c, "nonfunc-accepted", s, "non-function value ("+s.Extra+") in Funcs: ExecProgram returned no error")
	case len(r.obs) > 0:
		r.fail(c, "nonfunc-ran", s, "non-function value ("+s.Extra+") in Funcs: program ran before the error")
	default:
		c.Outcome(c17Generalise(res.Err.Error()))
	}
	// called by the program: the parser reflects on the value (observation only)
	_, perr, ppanic = awk.Parse(`BEGIN { nf() }`, funcs)
	if ppanic != "" {
		c.Note("observation_nonfunc_called_parser_panics", "parser.ParseProgram panics when the program calls a Funcs entry that is not a function (e.g. "+s.Extra+"): "+firstLine(ppanic))
	}
	if s.Extra == "typed-nil-func" && perr == nil && ppanic == "" {
		prog, _, _ := awk.Parse(`BEGIN { nf(1) }`, funcs)
		if prog != nil {
			res := r.exec(prog, funcs)
			if res.Panic != "" {
				c.Note("observation_typed_nil_func_called", "calling a nil func value panics at call time (as a direct Go call would): "+firstLine(res.Panic))
			}
		}
	}
}

// ---------------------------------------------------------------- enumeration

func c17ResultShapes() [][]string {
	shapes := [][]string{{}}
	for _, k := range c17Kinds {
		shapes = append(shapes, []string{k})
	}
	for _, k := range c17Kinds {
		shapes = append(shapes, []string{k, "error"})
	}
	return shapes
}

// c17ParamConfigs: every kind tuple up to fullN parameters; for fullN < n <= maxN
// one position takes every kind and the others are float64.
func c17ParamConfigs(fullN, maxN int) [][]string {
	cfgs := [][]string{{}}
	for n := 1; n <= maxN; n++ {
		if n <= fullN {
			idx := make([]int, n)
			for {
				p := make([]string, n)
				for i, k := range idx {
					p[i] = c17Kinds[k]
				}
				cfgs = append(cfgs, p)
				j := n - 1
				for j >= 0 {
					idx[j]++
					if idx[j] < len(c17Kinds) {
						break
					}
					idx[j] = 0
					j--
				}
				if j < 0 {
					break
				}
			}
			continue
		}
		all := make([]string, n)
		for i := range all {
			all[i] = "float64"
		}
		cfgs = append(cfgs, all)
		for pos := 0; pos < n; pos++ {
			for _, k := range c17Kinds {
				if k == "float64" {
					continue
				}
				p := make([]string, n)
				copy(p, all)
				p[pos] = k
				cfgs = append(cfgs, p)
			}
		}
	}
	return cfgs
}

func c17OfLen(cfgs [][]string, n int) [][]string {
	var out [][]string
	for _, p := range cfgs {
		if len(p) == n {
			out = append(out, p)
		}
	}
	return out
}

func c17Enumerate(thorough bool, f func(s c17Sig)) {
	nameIdx := 0
	nextName := func() string {
		nameIdx++
		return c17Names[nameIdx%len(c17Names)]
	}
	// 1. documented shapes
	shapes := c17ResultShapes()
	emit := func(cfgs [][]string, shapes [][]string) {
		for _, p := range cfgs {
			for v := 0; v < 2; v++ {
				if v == 1 && len(p) == 0 {
					continue
				}
				for _, res := range shapes {
					f(c17Sig{Group: "valid", Name: nextName(), Params: p, Variadic: v == 1, Results: res})
				}
			}
		}
	}
	three := [][]string{{}, {"float64"}, {"string", "error"}}
	// every kind for 0..1 parameters and one position over all kinds (others float64) for 2 and 3 parameters, x every result shape
	emit(c17ParamConfigs(1, 3), shapes)
	// every kind pair x three result shapes
	emit(c17OfLen(c17ParamConfigs(2, 2), 2), three)
	if thorough {
		// every kind pair x every result shape; every kind triple x three result shapes;
		// one position over all kinds for 4 parameters x every result shape
		emit(c17OfLen(c17ParamConfigs(2, 2), 2), shapes[1:])
		emit(c17OfLen(c17ParamConfigs(3, 3), 3), three)
		emit(c17OfLen(c17ParamConfigs(0, 4), 4), shapes)
	}
	// 2. wide signatures (the interpreter keeps up to 7 argument values on the stack)
	for n := 6; n <= 9; n++ {
		for k0 := range c17Kinds {
			p := make([]string, n)
			for i := range p {
				p[i] = c17Kinds[(k0+i)%len(c17Kinds)]
			}
			for v := 0; v < 2; v++ {
				f(c17Sig{Group: "wide", Name: nextName(), Params: p, Variadic: v == 1, Results: []string{c17Kinds[(k0+n)%len(c17Kinds)], "error"}})
			}
		}
	}
	// 3. defined types of documented kinds: either rejected at set-up or working
	for _, d := range c17Defined {
		f(c17Sig{Group: "defined", Name: nextName(), Params: []string{d}, Extra: "param"})
		f(c17Sig{Group: "defined", Name: nextName(), Params: []string{"float64", d}, Results: []string{"float64"}, Extra: "param"})
		f(c17Sig{Group: "defined", Name: nextName(), Params: []string{d}, Variadic: true, Extra: "variadic"})
		f(c17Sig{Group: "defined", Name: nextName(), Params: []string{"string", d}, Variadic: true, Results: []string{"string", "error"}, Extra: "variadic"})
		f(c17Sig{Group: "defined", Name: nextName(), Results: []string{d}, Extra: "result"})
		f(c17Sig{Group: "defined", Name: nextName(), Params: []string{"float64"}, Results: []string{d, "error"}, Extra: "result"})
	}
	// 4. undocumented shapes: must be rejected at set-up
	for _, t := range c17Invalid {
		for n := 1; n <= 3; n++ {
			for pos := 0; pos < n; pos++ {
				for v := 0; v < 2; v++ {
					p := make([]string, n)
					for i := range p {
						p[i] = "float64"
					}
					p[pos] = t
					f(c17Sig{Group: "invalid", Name: nextName(), Params: p, Variadic: v == 1, Extra: "param"})
					f(c17Sig{Group: "invalid", Name: nextName(), Params: p, Variadic: v == 1, Results: []string{"string", "error"}, Extra: "param"})
				}
			}
		}
		if t != "error" {
			f(c17Sig{Group: "invalid", Name: nextName(), Results: []string{t, "error"}, Extra: "result"})
			f(c17Sig{Group: "invalid", Name: nextName(), Params: []string{"int"}, Results: []string{"float64", t}, Extra: "result"})
		} else {
			f(c17Sig{Group: "invalid", Name: nextName(), Results: []string{"error", "error"}, Extra: "result"})
		}
		f(c17Sig{Group: "invalid", Name: nextName(), Results: []string{t}, Extra: "result"})
		f(c17Sig{Group: "invalid", Name: nextName(), Params: []string{"string"}, Variadic: true, Results: []string{t}, Extra: "result"})
	}
	for _, k := range c17Kinds {
		// second result of a documented kind instead of error; three and four results
		f(c17Sig{Group: "invalid", Name: nextName(), Results: []string{"float64", k}, Extra: "result"})
		f(c17Sig{Group: "invalid", Name: nextName(), Params: []string{k}, Results: []string{k, k}, Extra: "result"})
		f(c17Sig{Group: "invalid", Name: nextName(), Results: []string{k, k, "error"}, Extra: "result"})
		f(c17Sig{Group: "invalid", Name: nextName(), Results: []string{k, "error", "error"}, Extra: "result"})
		f(c17Sig{Group: "invalid", Name: nextName(), Params: []string{k}, Variadic: true, Results: []string{k, k, k}, Extra: "result"})
		f(c17Sig{Group: "invalid", Name: nextName(), Results: []string{k, k, k, "error"}, Extra: "result"})
	}
	// 5. keyword names with otherwise documented shapes
	for _, kw := range c17Keywords {
		f(c17Sig{Group: "keyword", Name: kw})
		f(c17Sig{Group: "keyword", Name: kw, Params: []string{"float64", "string"}, Results: []string{"float64"}})
		f(c17Sig{Group: "keyword", Name: kw, Params: []string{"int"}, Variadic: true, Results: []string{"string", "error"}})
	}
	// 6. several invalid functions at once
	for mask := 1; mask < 1<<uint(len(c17MultiPool)); mask++ {
		if mask&(mask-1) == 0 {
			continue // single ones are covered above
		}
		f(c17Sig{Group: "multi", Extra: strconv.Itoa(mask)})
	}
	// 8. Go functions shadowed by AWK functions of the same name: every subset
	// of three Go functions x three name sets (different sort positions)
	for ns := 0; ns < len(c17ShadowNames); ns++ {
		for mask := 0; mask < 8; mask++ {
			f(c17Sig{Group: "shadow", Extra: fmt.Sprintf("%d/%d", ns, mask)})
		}
	}
	// 9. error results: whatever error value a Go function returns, the run ends with it
	for ei := range c17ErrValues {
		for ci := range c17ErrContexts {
			f(c17Sig{Group: "errident", Extra: fmt.Sprintf("%d/%d", ei, ci)})
		}
	}
	// 10. string and []byte results with the same text are the same AWK value
	f(c17Sig{Group: "strbytes"})
	// 7. non-function values
	nf := []string{"int", "string", "float", "struct", "bytes", "map", "pointer", "pointer-to-func", "nil", "typed-nil-func"}
	sort.Strings(nf)
	for _, x := range nf {
		f(c17Sig{Group: "nonfunc", Extra: x})
	}
}

func c17Dispatch(c *core.Ctx, r *c17Runner, s c17Sig) {
	switch s.Group {
	case "valid", "wide":
		c17CheckCallable(c, r, s, false)
	case "defined":
		c17CheckCallable(c, r, s, true)
	case "invalid":
		c17CheckRejected(c, r, s, "invalid-"+s.Extra)
	case "keyword":
		c17CheckRejected(c, r, s, "keyword")
	case "multi":
		c17CheckMulti(c, r, s)
	case "nonfunc":
		c17CheckNonFunc(c, r, s)
	case "shadow":
		c17CheckShadow(c, r, s)
	case "errident":
		c17CheckErrIdent(c, r, s)
	case "strbytes":
		c17CheckStrBytes(c, r, s)
	}
}

// c17CheckStrBytes: both string kinds give the same AWK value: a string result
// and a []byte result with the same text behave identically in truth tests and
// comparisons (which behaviour a numeric-looking text has is not asserted).
func c17CheckStrBytes(c *core.Ctx, r *c17Runner, s c17Sig) {
	texts := []string{"0", "10", " 5 ", "1e3", "abc", "", "0.0", "+7", "-1", ".5"}
	var got []string
	funcs := map[string]any{
		"rs":  func(i int) string { return texts[i] },
		"rb":  func(i int) []byte { return []byte(texts[i]) },
		"obs": func(v string) { got = append(got, v) },
	}
	src := `function probe(x) { return (x ? "T" : "F") (x < 9 ? "a" : "b") (x < "9" ? "c" : "d") (x == 1000 ? "e" : "f") (x == 0 ? "g" : "h") (!x ? "i" : "j") (x "" == x ? "k" : "l") }
BEGIN { for (i = 0; i < n; i++) { obs(probe(rs(i)) " " probe(rb(i))); y = rs(i); z = rb(i); obs((y < z) (y == z) (y > z) (y ? 1 : 0) (z ? 1 : 0)) } }`
	c.Announce(s)
	prog := awk.MustParse(src, funcs)
	res := awk.Exec(prog, &interp.Config{Funcs: funcs, Vars: []string{"n", strconv.Itoa(len(texts))}})
	c.Eval(1)
	c.Add("transitions", 1)
	if res.Panic != "" || res.Err != nil {
		r.fail(c, "strbytes-run-failed", s, fmt.Sprintf("%s %v", firstLine(res.Panic), res.Err))
		return
	}
	c.Outcome("strbytes " + strings.Join(got, ","))
	for i := 0; i+1 < len(got); i += 2 {
		w := strings.Fields(got[i])
		if len(w) != 2 || w[0] != w[1] {
			r.fail(c, "string-and-bytes-results-differ", s, fmt.Sprintf("text %q: a string result behaves as %q, a []byte result as %q", texts[i/2], w[0], w[len(w)-1]))
		}
		if got[i+1][:3] != "010" || got[i+1][3] != got[i+1][4] {
			r.fail(c, "string-and-bytes-results-differ", s, fmt.Sprintf("text %q: rs() vs rb(): (<)(==)(>)(truth)(truth) = %s", texts[i/2], got[i+1]))
		}
	}
}

// error values a Go function may return (some are sentinels the interpreter
// itself uses internally for end of input, exit, cancellation)
var c17ErrValues = []error{errors.New("custom failure"), io.EOF, io.ErrUnexpectedEOF, context.Canceled, os.ErrNotExist, fmt.Errorf("wrapped: %w", io.EOF)}

// where the failing call is made
var c17ErrContexts = []struct {
	name, src string
	never     []string // observations that can only be made if the run went on after the error
}{
	{"BEGIN", `BEGIN { obs("b"); fail(); obs("after") } { obs("r") } END { obs("e") }`, []string{"after", "r", "e"}},
	{"action", `{ obs("r" NR); if (NR == 2) fail(); obs("after" NR) } END { obs("e") }`, []string{"after2", "r3", "after3", "e"}},
	{"pattern", `NR == 2 && fail() { obs("m") } { obs("r" NR) } END { obs("e") }`, []string{"m", "r2", "r3", "e"}},
	{"function", `function f(n) { if (n == 0) return fail(); return f(n - 1) } { obs("r" NR); f(3); obs("after") } END { obs("e") }`, []string{"after", "r2", "r3", "e"}},
	{"END", `{ obs("r" NR) } END { obs("e"); fail(); obs("after") }`, []string{"after"}},
	{"getline-loop", `BEGIN { while ((getline l) > 0) { obs("g" l); if (l == "2") fail() } obs("after") } END { obs("e") }`, []string{"g3", "after", "e"}},
}

func c17CheckErrIdent(c *core.Ctx, r *c17Runner, s c17Sig) {
	var ei, ci int
	fmt.Sscanf(s.Extra, "%d/%d", &ei, &ci)
	want := c17ErrValues[ei]
	ctxt := c17ErrContexts[ci]
	var got []string
	funcs := map[string]any{
		"obs":  func(v string) { got = append(got, v) },
		"fail": func() (int, error) { return 1, want },
	}
	c.Announce(s)
	prog := awk.MustParse(ctxt.src, funcs)
	res := awk.Exec(prog, &interp.Config{Funcs: funcs, Stdin: strings.NewReader("1\n2\n3\n")})
	c.Eval(1)
	c.Add("transitions", 1)
	c.Outcome(fmt.Sprintf("errident %s %v %v", ctxt.name, res.Err, got))
	for _, g := range got {
		for _, nv := range ctxt.never {
			if g == nv {
				r.fail(c, "error-result-did-not-abort-the-run_ctx="+ctxt.name, s, fmt.Sprintf("error %q returned by the Go function; the program went on: %q; run result: %v", want, got, res.Err))
				return
			}
		}
	}
	switch {
	case res.Panic != "":
		r.fail(c, "error-result-panic_ctx="+ctxt.name, s, firstLine(res.Panic))
	case res.Err == nil:
		r.fail(c, "error-result-lost_ctx="+ctxt.name, s, fmt.Sprintf("error %q returned by the Go function; run returned nil; trace %q", want, got))
	case !errors.Is(res.Err, want) && !strings.Contains(res.Err.Error(), want.Error()):
		r.fail(c, "error-result-replaced_ctx="+ctxt.name, s, fmt.Sprintf("want %q, run returned %q", want, res.Err))
	}
}

// c17ShadowNames: names for the three Go functions (one-string, one-int and
// three-string parameter lists), in different alphabetical positions relative
// to each other and to the other names in Funcs.
var c17ShadowNames = [][3]string{{"alpha", "beta", "gamma"}, {"zz", "mid", "aa"}, {"f2", "f10", "f1"}}

// c17CheckShadow: a function defined in the AWK program takes precedence over a
// Go function of the same name; the other Go functions are still the ones
// called under their names, with their own signatures.
func c17CheckShadow(c *core.Ctx, r *c17Runner, s c17Sig) {
	var ns, mask int
	fmt.Sscanf(s.Extra, "%d/%d", &ns, &mask)
	names := c17ShadowNames[ns]
	var got []string
	funcs := map[string]any{
		names[0]: func(x string) string { return "go0(" + x + ")" },
		names[1]: func(n int) int { return n * 10 },
		names[2]: func(a, b, c string) string { return "go2(" + a + "," + b + "," + c + ")" },
		"obs":    func(v string) { got = append(got, v) },
	}
	var src strings.Builder
	var want []string
	for i, n := range names {
		if mask&(1<<uint(i)) != 0 {
			fmt.Fprintf(&src, "function %s(p, q, r) { return \"awk%d(\" p \",\" q \",\" r \")\" }\n", n, i)
		}
	}
	src.WriteString("BEGIN {\n")
	calls := []string{names[0] + "(\"s\")", names[1] + "(4.9)", names[2] + "(1, 2, 3)"}
	goRes := []string{"go0(s)", "40", "go2(1,2,3)"}
	awkRes := []string{"awk0(s,,)", "awk1(4.9,,)", "awk2(1,2,3)"}
	for i := range names {
		fmt.Fprintf(&src, "  obs(%s \"\")\n", calls[i])
		if mask&(1<<uint(i)) != 0 {
			want = append(want, awkRes[i])
		} else {
			want = append(want, goRes[i])
		}
	}
	src.WriteString("}\n")
	c.Announce(s)
	prog, perr, ppanic := awk.Parse(src.String(), funcs)
	c.Eval(1)
	c.Add("transitions", 1)
	if perr != nil || ppanic != "" {
		r.fail(c, "shadow-parse", s, fmt.Sprintf("%v %s :: %s", perr, firstLine(ppanic), src.String()))
		return
	}
	res := awk.Exec(prog, &interp.Config{Funcs: funcs})
	c.Outcome("shadow " + strings.Join(got, " "))
	switch {
	case res.Panic != "":
		r.fail(c, "shadow-call-panic", s, firstLine(res.Panic)+" :: "+src.String())
	case res.Err != nil:
		r.fail(c, "shadow-error", s, res.Err.Error()+" :: "+src.String())
	case strings.Join(got, "|") != strings.Join(want, "|"):
		r.fail(c, "shadow-wrong-function-called", s, fmt.Sprintf("got %q want %q :: %s", got, want, src.String()))
	}
}

func c17Run(c *core.Ctx) {
	// many short interpreter runs, each allocating its I/O buffers afresh: collect less often
	defer debug.SetGCPercent(debug.SetGCPercent(400))
	r := newC17Runner()
	r.capOn = true
	c17Enumerate(c.Thorough(), func(s c17Sig) {
		if c.Expired() {
			return
		}
		if !c.Mine() {
			return
		}
		c.Add("states", 1)
		c.Add("signatures_"+s.Group, 1)
		c17Dispatch(c, r, s)
		if c.Shard == 0 && s.Group == "valid" && len(s.Params) >= 2 {
			c.Sample(map[string]any{"signature": s.String(), "argument_counts": "0.." + strconv.Itoa(len(s.Params)+map[bool]int{false: 0, true: 2}[s.Variadic]),
				"awk_values": len(r.vals)})
		}
	})
}

func c17Replay(c *core.Ctx, raw json.RawMessage) {
	var s c17Sig
	if err := json.Unmarshal(raw, &s); err != nil {
		panic(err)
	}
	r := newC17Runner()
	c17Dispatch(c, r, s)
}

func init() {
	core.Register(&core.Check{
		ID:    "C17",
		Level: "model_checking",
		Rule: "bounded-exhaustive enumeration of native function signatures built with reflect.FuncOf/MakeFunc: every one of the 15 documented kinds for 0..1 parameters and " +
			"one position over all kinds (others float64) for 2 and 3 parameters, x variadic on/off x results {none, K, (K,error)} for each of the 15 kinds K; every kind pair x variadic x " +
			"{none, float64, (string,error)} (thorough: every kind pair x all result shapes, every kind triple x the three shapes, one position over all kinds for 4 parameters x all shapes); wide signatures with 6..9 parameters; " +
			"defined types of documented kinds; undocumented types in every parameter position / result shape; 41 keyword names; all subsets of 5 invalid functions; non-function values. " +
			"Per signature one program calls it with every argument count 0..params (+2 if variadic) x every one of the AWK argument values (numbers at every width boundary, fractional, " +
			"negative, huge, nan/inf; string constants; numeric strings from variables and fields; unset) in the leading slot with the other slots offset through the same list. " +
			"state = one signature; transition = one native call (or set-up / parse attempt) whose received Go values and AWK-visible result are compared with hand-written conversion tables; " +
			"distinct = distinct (received values, observed result) tuples and distinct rejection messages",
		Assumptions: []string{
			"float->integer conversions outside the target range (incl. NaN/Inf and negative numbers into unsigned kinds) are implementation-defined in Go: only absence of a panic is required",
			"string form of NaN, +-Inf and of integral numbers >= 2^63 in magnitude is not fixed by the documentation: excluded for string kinds (no-panic only)",
			"truth value / numeric value of numeric-looking strings returned by a Go function (\"0\", \" 12 \") is not documented: only their string form is compared",
			"which invalid function the set-up error names when several are invalid is not part of the statement: any error is accepted (order dependence is recorded as an observation)",
			"Go leaves map iteration order open: goawk's ranges over the Funcs map are driven (instrumentation hook) in reversed key order for the main run, rotated orders for the error runs, and every rotation for several invalid functions",
			"values in Funcs that are not functions (incl. untyped nil), nil function values, and the parser panicking on a called non-function are observations, not violations: the statement speaks about functions",
			"defined (named) types whose kind is documented, and uintptr: either rejection at set-up or correct conversion by the underlying kind is accepted; a panic at call time is not",
			"the observer c17obs(float64,string,bool) used to look at results goes through the same argument conversion that is checked directly on every signature",
		},
		Run:    c17Run,
		Replay: c17Replay,
	})
}

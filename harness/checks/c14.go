package checks

import (
	"bytes"
	"context"
	"encoding/json"
	"errors"
	"fmt"
	"io"
	"os"
	"path/filepath"
	"runtime/debug"
	"strings"

	"github.com/benhoyt/goawk/interp"
	"github.com/benhoyt/goawk/parser"
	"github.com/benhoyt/goawk/vexp"

	"verifharness/awk"
	"verifharness/core"
)

// C14 — a reused Interpreter behaves like a fresh one (shape X).
//
// One AWK program contains every history behaviour and the probe behaviour;
// the behaviour of a run is selected by the variable `mode` set through
// Config.Vars. A state is the history of operations applied to one
// interp.Interpreter; successors are computed by replaying the history on a
// fresh Interpreter plus one more operation; states are de-duplicated by
// (*Interpreter).VerifDump(). In every state both oracles of the design are
// evaluated for every probe configuration.

const c14Src = `
function rec(n, loc, i) {
	loc[n] = n
	depth = n
	if (n > 0) return rec(n - 1) + 1
	if (mode == "errfunc") { for (i = 0; i < 3; i++) loc[i] = 6 / (2 - i) }
	if (mode == "spinfunc") { while (1) { loc[i % 3] = i++ } }
	return 0
}
function wipe(wa) { split("", wa) }
function cntlocal(la, k3, c3) { for (k3 in la) c3++; la["x"] = 1; la["y"] = 2; return c3 + 0 }
function exitfunc(la, lb) { la[1] = 1; la[2] = 2; lb["q"] = 3; if (mode == "exitfunc") exit 3; return 1 / (mode == "errfunc2" ? 0 : 1) }
function dumpvars(tag, k2) {
	printf "%s spec.FS [%s]\n", tag, FS
	printf "%s spec.OFS [%s]\n", tag, OFS
	printf "%s spec.ORS [%s]\n", tag, ORS
	printf "%s spec.RS [%s]\n", tag, RS
	printf "%s spec.RT [%s]\n", tag, RT
	printf "%s spec.SUBSEP [%s]\n", tag, SUBSEP
	printf "%s spec.CONVFMT [%s]\n", tag, CONVFMT
	printf "%s spec.OFMT [%s]\n", tag, OFMT
	printf "%s spec.RSTART [%s]\n", tag, RSTART
	printf "%s spec.RLENGTH [%s]\n", tag, RLENGTH
	printf "%s spec.ARGC [%s]\n", tag, ARGC
	printf "%s glob.xyz [%s] [%s] [%s]\n", tag, x, y, z
	printf "%s glob.loop [%s] [%s] [%s] [%s]\n", tag, n, i, k, depth
	printf "%s glob.plain [%s] [%s] [%s] [%s] [%s] [%s]\n", tag, cnt, last, r, rs, nf, len
	printf "%s glob.csv [%s] [%s]\n", tag, v, fld
	printf "%s glob.misc [%s] [%s] [%s]\n", tag, sr, s, j
	printf "%s glob.getline [%s] [%s] [%s] [%s] [%s] [%s] [%s]\n", tag, l1, r1, r2, r4, gr, pl, q
	for (k2 in arr) printf "%s arr [%s] [%s]\n", tag, k2, arr[k2]
	for (k2 in ARGV) printf "%s ARGV [%s] [%s]\n", tag, k2, ARGV[k2]
	for (k2 in ENVIRON) printf "%s ENVIRON [%s] [%s]\n", tag, k2, ENVIRON[k2]
	for (k2 in FIELDS) printf "%s FIELDS [%s] [%s]\n", tag, k2, FIELDS[k2]
	printf "%s rand %.9f %.9f\n", tag, rand(), rand()
	printf "%s srand %s\n", tag, srand(9)
}
BEGIN {
	if (mode == "exitbegin") { x = 1; arr["k"] = "v"; $0 = "be gin"; exit 3 }
	if (mode == "exit-then-errend") { exit 5 }
	if (mode == "errfunc" || mode == "spinfunc") { arr["f"] = 1; x = rec(3) }
	if (mode == "errloop") { for (i = 3; i >= 0; i--) { y = y + 6 / i } }
	if (mode == "errforin") { arr["a"] = 1; arr["b"] = 0; arr["c"] = 2; for (k in arr) { z = z + 1 / arr[k] } }
	if (mode == "wopen") { print "w1" > "out1"; print "w2" > "out2"; printf "a" >> "out1"; x = "wopen" }
	if (mode == "ropen") { r1 = (getline l1 < "f1"); r2 = (getline < "f2"); r5 = (getline l5 < "-"); r4 = (getline) }
	if (mode == "sys") { x = system("true") }
	if (mode == "srandonly") { sr = srand(7) }
	if (mode == "exitfunc" || mode == "errfunc2") { x = exitfunc() }
	if (mode == "srandrand") { sr = srand(7); r = rand(); sr = srand(11) }
	if (mode == "cmdopen") { print "to-cat" | "cat"; r1 = ("emit a b" | getline l1); x = system("emit s0"); print "again" | "cat" }
	if (mode == "setmodes") { INPUTMODE = "csv header"; OUTPUTMODE = "tsv" }
	if (mode == "splitspecial") { n = split("u v w", ARGV); wipe(ENVIRON); arr["k"] = 1; split("p q", arr) }
	if (mode == "delspecial") { delete ARGV; delete ENVIRON; ENVIRON["NEW"] = "x"; ARGV[5] = "z"; delete arr }
	if (mode == "probe") {
		print "B first", "x y", "p,q" # the first output of the run goes through print (CSV / TSV writer in those modes)
		if (full) dumpvars("B")
		printf "B rec [%s] NF=%s NR=%s FNR=%s FILENAME=[%s] $1=[%s]\n", $0, NF, NR, FNR, FILENAME, $1
		printf "B modes [%s] [%s]\n", INPUTMODE, OUTPUTMODE
		gr = (getline); printf "B getline %s [%s] NF=%s NR=%s FNR=%s FILENAME=[%s]\n", gr, $0, NF, NR, FNR, FILENAME
		gr = (getline pl < "-"); printf "B dash %s [%s] NR=%s\n", gr, pl, NR
		if (io) {
			gr = (getline pl < "f1"); printf "B f1 %s [%s] NR=%s\n", gr, pl, NR
			print "w" > "out1"; gr = close("out1"); printf "B close %s\n", gr
			gr = (getline pl < "out1"); printf "B out1 %s [%s]\n", gr, pl
			gr = (getline pl < "out2"); printf "B out2 %s [%s]\n", gr, pl
		}
		print "B print", "o", "p,q"
		s = 0; for (j = 0; j < 300; j++) s += j; printf "B loop %s\n", s
		printf "B length %s\n", length("h\303\251")
		printf "B locarr %s %s\n", cntlocal(), cntlocal()
		printf "B fmtc [%s]\n", sprintf("%c%c", "\303\251x", 233)
		printf "B dynre %s %s\n", ("abc" ~ ("^" "a")), ("h\303\251" ~ ("^h." "$"))
		if (cmd) {
			gr = system("emit s1"); printf "B system %s\n", gr
			gr = ("emit g1 g2" | getline pl); printf "B cmdgetline %s [%s]\n", gr, pl
			print "to-cat" | "cat"; gr = close("cat"); printf "B closecat %s\n", gr
		}
	}
}
$1 == "a" || $1 == "s", $1 == "never" { inr++; if (mode == "probe") printf "R range [%s]\n", $0 }
mode == "plain" { fc = sprintf("%c%c", "\303\251x", 233); dr = ($0 ~ ("^" "a")) + ($0 ~ ("^h." "$")); if (NR == 2) sr = srand(5); cnt++; last = $0; arr[NR] = $1; if (match($0, /[b-d2-3]+/)) rs = RSTART; r = rand(); $2 = "X"; nf = NF; len = length("h\303\251") }
mode == "csv" || mode == "setmodes" { v = @"b"; fld = FIELDS[1]; cnt++; print v, fld }
mode == "printrec" { print $1, $2; cnt++ }
mode == "exitrule" && NR == 2 { exit 3 }
mode == "exitrule-then-errend" && NR == 2 { exit 4 }
mode == "exitrule" { cnt++ }
mode == "errrule" { cnt++; x = 1 / (2 - NR) }
mode == "spinrule" { while (1) n++ }
mode == "probe" {
	printf "R rec NR=%s FNR=%s FILENAME=[%s] [%s] NF=%s $1=[%s]\n", NR, FNR, FILENAME, $0, NF, $1
	if (at == 1) printf "R at [%s]\n", @"b"
}
END {
	if (mode == "exitend") { $0 = "e n d"; exit 3 }
	if (mode == "exit-then-errend" || mode == "exitrule-then-errend") { x = 1 / 0 } # END still runs after exit, and fails
	if (mode == "probe") {
		printf "E rec NR=%s FNR=%s FILENAME=[%s] [%s] NF=%s\n", NR, FNR, FILENAME, $0, NF
		if (at == 2) printf "E at [%s]\n", @"b"
		exit
	}
}
`

const (
	c14F1 = "f1a f1b\nf1c\n"
	c14F2 = "f2a\nf2b f2c\n"
)

type c14Cfg struct {
	Stdin        string   `json:"stdin,omitempty"`
	Vars         []string `json:"vars,omitempty"`
	Args         []string `json:"args,omitempty"`
	InputMode    int      `json:"input_mode,omitempty"`
	Header       bool     `json:"header,omitempty"`
	Sep          rune     `json:"sep,omitempty"`
	OutputMode   int      `json:"output_mode,omitempty"`
	NoExec       bool     `json:"no_exec,omitempty"`
	NoFileReads  bool     `json:"no_file_reads,omitempty"`
	NoFileWrites bool     `json:"no_file_writes,omitempty"`
	NoArgVars    bool     `json:"no_arg_vars,omitempty"`
	Chars        bool     `json:"chars,omitempty"`
	CRLF         bool     `json:"crlf,omitempty"`
	// SharedOut: Config.Output is the environment's one shared writer object (the
	// same value in every run that sets it); with FailOut it fails every write of this run
	SharedOut bool `json:"shared_out,omitempty"`
	FailOut   bool `json:"fail_out,omitempty"`
}

// c14SharedWriter is handed to several runs as the same io.Writer value.
type c14SharedWriter struct {
	fail bool
	buf  bytes.Buffer
}

func (w *c14SharedWriter) Write(p []byte) (int, error) {
	if w.fail {
		return 0, errors.New("disk quota exceeded")
	}
	return w.buf.Write(p)
}

// c14Op is one operation on the Interpreter.
type c14Op struct {
	Name     string `json:"name"`
	Kind     string `json:"kind"` // exec | ctx | resetvars | resetrand
	Cfg      c14Cfg `json:"cfg"`
	CancelAt int    `json:"cancel_at,omitempty"` // kind ctx: cancel() at this VM step (0 = never)
}

type c14Probe struct {
	Name string `json:"name"`
	Ctx  bool   `json:"ctx,omitempty"` // run the probe through ExecuteContext with a live context
	Cfg  c14Cfg `json:"cfg"`
}

type c14Case struct {
	History []c14Op  `json:"history"`
	Probe   c14Probe `json:"probe"`
	Oracle  int      `json:"oracle"` // 1: ResetVars+ResetRand+Execute; 2: ResetRand+Execute, specials pinned, no variable reads
}

type c14Res struct {
	Out, Stderr string
	Status      int
	Err         string
	Panic       string
}

func (r c14Res) String() string {
	return fmt.Sprintf("status=%d err=%q out=%q stderr=%q", r.Status, r.Err, r.Out, r.Stderr)
}

func (cf c14Cfg) config(out, errw *bytes.Buffer) *interp.Config {
	c := &interp.Config{
		Stdin: strings.NewReader(cf.Stdin), Output: out, Error: errw, Argv0: "awk",
		Vars: cf.Vars, Args: cf.Args, Environ: []string{"HOME", "/h"},
		InputMode: interp.IOMode(cf.InputMode), OutputMode: interp.IOMode(cf.OutputMode),
		NoExec: cf.NoExec, NoFileReads: cf.NoFileReads, NoFileWrites: cf.NoFileWrites, NoArgVars: cf.NoArgVars, Chars: cf.Chars,
	}
	c.CSVInput = interp.CSVInputConfig{Header: cf.Header, Separator: cf.Sep}
	if cf.CRLF {
		c.NewlineOutput = interp.CRLFNewlineMode
	} else {
		c.NewlineOutput = interp.RawNewlineMode
	}
	return c
}

func c14v(mode string, more ...string) []string { return append([]string{"mode", mode}, more...) }

func c14Alphabet(thorough bool) []c14Op {
	ex := func(name string, cfg c14Cfg) c14Op { return c14Op{Name: name, Kind: "exec", Cfg: cfg} }
	cx := func(name string, k int, cfg c14Cfg) c14Op {
		return c14Op{Name: fmt.Sprintf("%s@%d", name, k), Kind: "ctx", Cfg: cfg, CancelAt: k}
	}
	ops := []c14Op{
		ex("plain", c14Cfg{Stdin: "a b\nc d e\n", Vars: c14v("plain")}),
		ex("plain-fs", c14Cfg{Stdin: "1,2;3,4;", Vars: c14v("plain", "FS", ",", "RS", ";", "OFS", "-", "CONVFMT", "%.3g")}),
		ex("plain-rsre", c14Cfg{Stdin: "x1y22z", Vars: c14v("plain", "RS", "[0-9]+", "FS", "[xy]", "ORS", "!", "SUBSEP", ":", "OFMT", "%.2g")}),
		ex("csvhdr", c14Cfg{Stdin: "a,b\n1,2\n3,4\n", InputMode: 1, Header: true, Vars: c14v("csv")}),
		ex("tsvhdr-vars", c14Cfg{Stdin: "x\tb\ty\n7\t8\t9\n", Vars: c14v("csv", "INPUTMODE", "tsv header", "OUTPUTMODE", "csv")}),
		ex("setmodes-begin", c14Cfg{Stdin: "h1,b\n1,2\n", Vars: c14v("setmodes")}),
		ex("csvhdr-exitrule", c14Cfg{Stdin: "e,b\n1,2\n3,4\n5,6\n", InputMode: 1, Header: true, OutputMode: 2, Vars: c14v("exitrule")}),
		ex("args", c14Cfg{Stdin: "unused\n", Args: []string{"f1", "q=7", "f2"}, Vars: c14v("plain")}),
		ex("errfunc", c14Cfg{Stdin: "a\n", Vars: c14v("errfunc")}),
		ex("errloop", c14Cfg{Stdin: "a\n", Vars: c14v("errloop")}),
		ex("errforin", c14Cfg{Stdin: "a\n", Vars: c14v("errforin")}),
		ex("errrule", c14Cfg{Stdin: "a b\nc d\ne f\n", Vars: c14v("errrule")}),
		ex("exitbegin", c14Cfg{Stdin: "a\n", Vars: c14v("exitbegin")}),
		ex("exitrule", c14Cfg{Stdin: "a b\nc d\ne f\n", Vars: c14v("exitrule")}),
		ex("exitend", c14Cfg{Stdin: "a b\nc\n", Vars: c14v("exitend")}),
		ex("exit-then-errend", c14Cfg{Stdin: "a\n", Vars: c14v("exit-then-errend")}),                     // exit 5 in BEGIN, then END fails
		ex("exitrule-then-errend", c14Cfg{Stdin: "a b\nc d\ne f\n", Vars: c14v("exitrule-then-errend")}), // exit 4 in a rule, then END fails
		cx("spinfunc", 1, c14Cfg{Stdin: "a\n", Vars: c14v("spinfunc")}),
		cx("spinfunc", 50, c14Cfg{Stdin: "a\n", Vars: c14v("spinfunc")}),
		cx("spinfunc", 1500, c14Cfg{Stdin: "a\n", Vars: c14v("spinfunc")}),
		cx("spinrule", 50, c14Cfg{Stdin: "a b\nc d\n", Vars: c14v("spinrule")}),
		cx("plain", 1, c14Cfg{Stdin: "a b\nc d e\n", Vars: c14v("plain")}),
		cx("plain", 0, c14Cfg{Stdin: "a b\nc d e\n", Vars: c14v("plain")}), // completes under a context that is cancelled afterwards
		ex("cmdopen", c14Cfg{Stdin: "a\n", Vars: c14v("cmdopen")}),
		ex("exitfunc", c14Cfg{Stdin: "a\n", Vars: c14v("exitfunc")}),                                                                // exit inside a function that has filled local arrays
		ex("errfunc2", c14Cfg{Stdin: "a\n", Vars: c14v("errfunc2")}),                                                                // run-time error there
		ex("csv-write-error", c14Cfg{Stdin: "a b\nc d e\n", OutputMode: 1, SharedOut: true, FailOut: true, Vars: c14v("printrec")}), // every write to the shared Output fails
		ex("plain-write-error", c14Cfg{Stdin: "a b\nc d e\n", SharedOut: true, FailOut: true, Vars: c14v("printrec")}),              // the same in default output mode
		ex("srandonly", c14Cfg{Stdin: "", Vars: c14v("srandonly")}),                                                                 // seeds, never draws
		ex("srandrand", c14Cfg{Stdin: "", Vars: c14v("srandrand")}),                                                                 // seeds, draws, seeds again
		cx("cmdopen", 0, c14Cfg{Stdin: "a\n", Vars: c14v("cmdopen")}),
		ex("splitspecial", c14Cfg{Stdin: "a\n", Vars: c14v("splitspecial")}), // ARGV, ENVIRON and a global array replaced by split()
		ex("delspecial", c14Cfg{Stdin: "a\n", Vars: c14v("delspecial")}),     // ... emptied by delete and refilled
		ex("wopen", c14Cfg{Stdin: "a\n", Vars: c14v("wopen")}),
		ex("ropen", c14Cfg{Stdin: "s1 s2\ns3\n", Vars: c14v("ropen")}),
		ex("sandbox-w", c14Cfg{Stdin: "a\n", NoFileWrites: true, Vars: c14v("wopen")}),
		ex("sandbox-r", c14Cfg{Stdin: "a\n", NoFileReads: true, NoArgVars: true, Args: []string{"f1"}, Vars: c14v("plain")}),
		ex("sandbox-x", c14Cfg{Stdin: "a\n", NoExec: true, Vars: c14v("sys")}),
		ex("chars-crlf", c14Cfg{Stdin: "h\303\251 b\n", Chars: true, CRLF: true, Vars: c14v("plain")}),
		ex("cfgerr-vars", c14Cfg{Stdin: "a\n", Vars: []string{"mode", "plain", "FS", ",", "INPUTMODE", "csv header", "nosuch", "1"}}),
		ex("cfgerr-sep", c14Cfg{Stdin: "a\n", InputMode: 1, Sep: '"', Header: true, OutputMode: 1, Vars: c14v("plain")}),
		{Name: "ResetVars", Kind: "resetvars"},
		{Name: "ResetRand", Kind: "resetrand"},
	}
	if thorough {
		for _, k := range []int{999, 1000, 1001, 2500} {
			ops = append(ops, cx("spinfunc", k, c14Cfg{Stdin: "a\n", Vars: c14v("spinfunc")}))
		}
		ops = append(ops,
			cx("spinrule", 1500, c14Cfg{Stdin: "a b\nc d\n", Vars: c14v("spinrule")}),
			cx("csvhdr-spinrule", 50, c14Cfg{Stdin: "s,b\n1,2\n", InputMode: 1, Header: true, Vars: c14v("spinrule")}),
			ex("csvhdr-errrule", c14Cfg{Stdin: "r,b\n1,2\n3,4\n5,6\n", InputMode: 1, Header: true, Vars: c14v("errrule")}),
			ex("args-ropen", c14Cfg{Stdin: "s1\n", Args: []string{"f2", "f1"}, Vars: c14v("ropen")}),
			ex("para", c14Cfg{Stdin: "a b\nc\n\n\nd\n", Vars: c14v("plain", "RS", "", "FS", ":")}),
		)
	}
	return ops
}

func c14Probes() []c14Probe {
	pv := func(at string) []string {
		io := "1"
		if at != "0" {
			io = "0" // in header mode every getline file would replace the header names
		}
		return []string{"mode", "probe", "at", at, "io", io, "cmd", io}
	}
	return []c14Probe{
		{Name: "default", Cfg: c14Cfg{Stdin: "p q r\ns t\n", Vars: pv("0")}},
		{Name: "csv-nohdr", Cfg: c14Cfg{Stdin: "1,2\n3,4\n", InputMode: 1, Vars: pv("1")}},
		{Name: "csv-hdr", Cfg: c14Cfg{Stdin: "b,c\n5,6\n7,8\n", InputMode: 1, Header: true, Vars: pv("1")}},
		{Name: "csv-hdr-io", Cfg: c14Cfg{Stdin: "b,c\n5,6\n7,8\n", InputMode: 1, Header: true, OutputMode: 2, Vars: pv("0")}},
		{Name: "csv-hdr-empty", Cfg: c14Cfg{Stdin: "", InputMode: 1, Header: true, Vars: pv("2")}},
		{Name: "args", Cfg: c14Cfg{Stdin: "unused\n", Args: []string{"f1", "q=7", "f2"}, Vars: pv("0")}},
		{Name: "tsv-chars", Cfg: c14Cfg{Stdin: "a\tb c\n", Chars: true, Vars: append(pv("0"), "INPUTMODE", "tsv", "OUTPUTMODE", "csv")}},
		{Name: "ctx", Ctx: true, Cfg: c14Cfg{Stdin: "p q r\ns t\n", Vars: pv("0")}},
		{Name: "csv-out-shared", Cfg: c14Cfg{Stdin: "p q r\ns t\n", OutputMode: 1, SharedOut: true, Vars: pv("0")}},
		{Name: "tsv-out-shared", Cfg: c14Cfg{Stdin: "p q r\ns t\n", OutputMode: 2, SharedOut: true, Vars: pv("0")}},
		{Name: "sandbox", Cfg: c14Cfg{Stdin: "p q\n", NoExec: true, NoFileReads: true, NoFileWrites: true, Vars: append(pv("0"), "cmd", "0")}},
	}
}

// the special variables of the FS class, pinned through Vars in oracle 2 so
// that a legitimately carried-over value cannot influence the probe.
var c14Pinned = []string{"FS", " ", "OFS", " ", "ORS", "\n", "RS", "\n", "SUBSEP", "\x1c", "CONVFMT", "%.6g", "OFMT", "%.6g"}

// probeCfg returns the effective configuration of a probe for an oracle.
func (p c14Probe) cfgFor(oracle int) c14Cfg {
	cf := p.Cfg
	if oracle == 1 {
		cf.Vars = append(append([]string{}, cf.Vars...), "full", "1")
	} else {
		cf.Vars = append(append(append([]string{}, c14Pinned...), cf.Vars...), "full", "0")
	}
	return cf
}

// c14World is a synchronous stand-in for child processes (scripts: "emit w…"
// prints its words on one line, "cat" copies its standard input to its
// standard output when it is waited for). Like os/exec, Start refuses a
// command whose context is already done.
type c14World struct{}

type c14Proc struct {
	in  bytes.Buffer
	out *bytes.Reader
}

var c14Procs = map[*vexp.Cmd]*c14Proc{}

func c14ProcOf(c *vexp.Cmd) *c14Proc {
	p := c14Procs[c]
	if p == nil {
		p = &c14Proc{}
		c14Procs[c] = p
	}
	return p
}

type c14In struct{ p *c14Proc }

func (w c14In) Write(b []byte) (int, error) { return w.p.in.Write(b) }
func (w c14In) Close() error                { return nil }

type c14Out struct{ p *c14Proc }

func (r c14Out) Read(b []byte) (int, error) { return r.p.out.Read(b) }
func (r c14Out) Close() error               { return nil }

func c14Script(c *vexp.Cmd) []string { return strings.Fields(c.Args[len(c.Args)-1]) }

func (c14World) StdinPipe(c *vexp.Cmd) (io.WriteCloser, error) { return c14In{c14ProcOf(c)}, nil }
func (c14World) StdoutPipe(c *vexp.Cmd) (io.ReadCloser, error) {
	p := c14ProcOf(c)
	p.out = bytes.NewReader(nil)
	return c14Out{p}, nil
}
func (c14World) Start(c *vexp.Cmd) error {
	if ctx := c.Ctx(); ctx != nil && ctx.Err() != nil {
		return ctx.Err()
	}
	p := c14ProcOf(c)
	if w := c14Script(c); len(w) > 0 && w[0] == "emit" {
		data := strings.Join(w[1:], " ") + "\n"
		if p.out != nil {
			p.out = bytes.NewReader([]byte(data))
		} else if c.Stdout != nil {
			io.WriteString(c.Stdout, data)
		}
	}
	return nil
}
func (c14World) Wait(c *vexp.Cmd) error {
	p := c14ProcOf(c)
	delete(c14Procs, c)
	if w := c14Script(c); len(w) > 0 && w[0] == "cat" && c.Stdout != nil {
		c.Stdout.Write(p.in.Bytes())
	}
	return nil
}

type c14Env struct {
	shared   *c14SharedWriter // one per replay / fresh run
	prog     *parser.Program
	dir      string
	maxSteps int
}

type c14Budget struct{}

func c14NewEnv(c *core.Ctx) *c14Env {
	e := &c14Env{prog: awk.MustParse(c14Src, nil), maxSteps: 200000}
	vexp.SetWorld(&vexp.World{Impl: c14World{}})
	dir, _ := os.Getwd()
	if filepath.Base(dir) != fmt.Sprintf("fs-%s-%d", c.ID, c.Shard) {
		dir = filepath.Join(dir, fmt.Sprintf("fs-%s-%d", c.ID, c.Shard))
	}
	os.MkdirAll(dir, 0o755)
	if err := os.Chdir(dir); err != nil {
		panic(err)
	}
	e.dir = dir
	os.WriteFile(filepath.Join(dir, "f1"), []byte(c14F1), 0o644)
	os.WriteFile(filepath.Join(dir, "f2"), []byte(c14F2), 0o644)
	return e
}

// fixture puts the per-worker directory into its initial state: f1 and f2 are
// never written by the program, out1/out2 do not exist.
func (e *c14Env) fixture() {
	os.Remove("out1")
	os.Remove("out2")
}

// guarded runs f with a VM step budget (a run that does not stop is a harness
// error, not a C14 result) and an optional cancel() at step k.
func (e *c14Env) guarded(cancelAt int, cancel func(), f func() (int, error)) (res c14Res) {
	steps := 0
	vexp.SetStepFn(func() {
		steps++
		if steps == cancelAt && cancel != nil {
			cancel()
		}
		if steps > e.maxSteps {
			panic(c14Budget{})
		}
	})
	defer vexp.SetStepFn(nil)
	defer func() {
		if r := recover(); r != nil {
			if _, ok := r.(c14Budget); ok {
				panic("C14 harness: a run exceeded the VM step budget (cancellation did not stop it?)")
			}
			res.Panic = fmt.Sprintf("%v\n%s", r, debug.Stack())
		}
	}()
	st, err := f()
	res.Status = st
	if err != nil {
		res.Err = err.Error()
	}
	return
}

// apply performs one operation on ip.
func (e *c14Env) apply(ip *interp.Interpreter, op c14Op) c14Res {
	switch op.Kind {
	case "resetvars":
		ip.ResetVars()
		return c14Res{}
	case "resetrand":
		ip.ResetRand()
		return c14Res{}
	}
	var out, errw bytes.Buffer
	cfg := op.Cfg.config(&out, &errw)
	if op.Cfg.SharedOut {
		e.shared.fail = op.Cfg.FailOut
		e.shared.buf.Reset()
		cfg.Output = e.shared
	}
	var res c14Res
	if op.Kind == "ctx" {
		ctx, cancel := context.WithCancel(context.Background())
		defer cancel()
		res = e.guarded(op.CancelAt, cancel, func() (int, error) { return ip.ExecuteContext(ctx, cfg) })
	} else {
		res = e.guarded(0, nil, func() (int, error) { return ip.Execute(cfg) })
	}
	res.Out, res.Stderr = out.String(), errw.String()
	if op.Cfg.SharedOut {
		res.Out = e.shared.buf.String()
	}
	return res
}

// replay applies the history to a brand-new Interpreter.
func (e *c14Env) replay(hist []c14Op) (*interp.Interpreter, []c14Res) {
	e.fixture()
	e.shared = &c14SharedWriter{}
	ip, err := interp.New(e.prog)
	if err != nil {
		panic(err)
	}
	var rs []c14Res
	for _, op := range hist {
		rs = append(rs, e.apply(ip, op))
	}
	return ip, rs
}

func (e *c14Env) fresh(p c14Probe, oracle int) c14Res {
	e.fixture()
	var out, errw bytes.Buffer
	cf := p.cfgFor(oracle)
	cfg := cf.config(&out, &errw)
	sw := &c14SharedWriter{}
	if cf.SharedOut {
		cfg.Output = sw
	}
	res := e.guarded(0, nil, func() (int, error) { return interp.ExecProgram(e.prog, cfg) })
	res.Out, res.Stderr = out.String(), errw.String()
	if cf.SharedOut {
		res.Out = sw.buf.String()
	}
	return res
}

func (e *c14Env) reused(hist []c14Op, p c14Probe, oracle int) (c14Res, []c14Res) {
	ip, hres := e.replay(hist)
	e.fixture()
	if oracle == 1 {
		ip.ResetVars()
	}
	ip.ResetRand()
	kind := "exec"
	if p.Ctx {
		kind = "ctx"
	}
	return e.apply(ip, c14Op{Name: "probe:" + p.Name, Kind: kind, Cfg: p.cfgFor(oracle)}), hres
}

func c14ErrClass(s string) string {
	if s == "" {
		return "none"
	}
	w := strings.Fields(s)
	if len(w) > 4 {
		w = w[:4]
	}
	return strings.Trim(strings.Join(w, "-"), ";:,.")
}

func c14LineTag(line string) string {
	w := strings.Fields(line)
	if len(w) > 2 {
		w = w[:2]
	}
	return strings.Join(w, "-")
}

// c14Diff classifies the first difference between the fresh and the reused
// probe run; "" if there is none.
func c14Diff(fresh, reused c14Res) string {
	if reused.Panic != "" {
		return "panic-in-reused-run"
	}
	if fresh.Err != reused.Err {
		return "error fresh=" + c14ErrClass(fresh.Err) + " reused=" + c14ErrClass(reused.Err)
	}
	if fresh.Status != reused.Status {
		return fmt.Sprintf("exit-status fresh=%d reused=%d", fresh.Status, reused.Status)
	}
	if fresh.Out != reused.Out {
		fl, rl := strings.SplitAfter(fresh.Out, "\n"), strings.SplitAfter(reused.Out, "\n")
		for i := 0; i < len(fl) || i < len(rl); i++ {
			var a, b string
			if i < len(fl) {
				a = fl[i]
			}
			if i < len(rl) {
				b = rl[i]
			}
			if a != b {
				tag := c14LineTag(a)
				if a == "" {
					tag = "extra-" + c14LineTag(b)
				}
				return "stdout " + tag
			}
		}
	}
	if fresh.Stderr != reused.Stderr {
		return "stderr"
	}
	return ""
}

func c14HistNames(h []c14Op) string {
	var n []string
	for _, op := range h {
		n = append(n, op.Name)
	}
	return "[" + strings.Join(n, " ; ") + "]"
}

// evalOne evaluates one (history, probe, oracle) triple.
func (e *c14Env) evalOne(c *core.Ctx, hist []c14Op, p c14Probe, oracle int, fresh *c14Res) {
	var fr c14Res
	if fresh != nil {
		fr = *fresh
	} else {
		fr = e.fresh(p, oracle)
		c.Eval(1)
	}
	if fr.Panic != "" {
		panic("C14 harness: probe panics on a fresh interpreter: " + fr.Panic)
	}
	ru, _ := e.reused(hist, p, oracle)
	c.Eval(int64(len(hist) + 1))
	c.Add("traces_validated_against_impl", 1)
	c.Outcome(fmt.Sprintf("%s/%d %s", p.Name, oracle, ru.String()))
	if d := c14Diff(fr, ru); d != "" {
		obs := fmt.Sprintf("history %s then probe %q (oracle %d): reused: %s || fresh: %s", c14HistNames(hist), p.Name, oracle, trunc(ru.String(), 1500), trunc(fr.String(), 1500))
		if ru.Panic != "" {
			obs += " || panic: " + firstLine(ru.Panic)
		}
		c.Fail(fmt.Sprintf("o%d:%s", oracle, d), c14Case{History: hist, Probe: p, Oracle: oracle}, obs)
	}
}

func c14Run(c *core.Ctx) {
	// every replay allocates 64 KiB scanner buffers; the live heap is tiny
	debug.SetGCPercent(800)
	e := c14NewEnv(c)
	ops := c14Alphabet(c.Thorough())
	probes := c14Probes()
	depth := 2
	if c.Thorough() {
		depth = 3
	}
	// fresh results do not depend on the history: compute once, twice (determinism).
	freshRes := map[string]*c14Res{}
	for _, p := range probes {
		for o := 1; o <= 2; o++ {
			a, b := e.fresh(p, o), e.fresh(p, o)
			if a != b {
				panic("C14 harness: fresh probe run is not deterministic: " + p.Name)
			}
			if a.Panic != "" {
				panic("C14 harness: probe panics on a fresh interpreter: " + a.Panic)
			}
			freshRes[fmt.Sprintf("%s/%d", p.Name, o)] = &a
		}
	}
	if c.Shard == 0 {
		for _, p := range probes {
			c.Sample(map[string]any{"probe": p.Name, "fresh_oracle1": trunc(freshRes[p.Name+"/1"].String(), 600)})
		}
	}
	evalState := func(hist []c14Op) {
		c.Add("states", 1)
		for _, p := range probes {
			for o := 1; o <= 2; o++ {
				e.evalOne(c, hist, p, o, freshRes[fmt.Sprintf("%s/%d", p.Name, o)])
			}
		}
	}
	seen := map[string]bool{}
	ip0, _ := e.replay(nil)
	seen[ip0.VerifDump()] = true
	if c.Mine() {
		evalState(nil)
	}
	frontier := [][]c14Op{nil}
	var tr int64
	for d := 1; d <= depth && !c.Expired(); d++ {
		var next [][]c14Op
		for _, h := range frontier {
			if c.Expired() {
				break
			}
			for _, op := range ops {
				hist := append(append([]c14Op{}, h...), op)
				c.Announce(c14Case{History: hist})
				ip, hres := e.replay(hist)
				tr++
				if c.NShards <= 1 || int(tr%int64(c.NShards)) == c.Shard {
					c.Add("transitions", 1)
					c.Eval(int64(len(hist)))
				}
				last := hres[len(hres)-1]
				if last.Panic != "" {
					if c.Mine() {
						c.Fail("panic-in-history-run", c14Case{History: hist}, firstLine(last.Panic))
					}
					continue
				}
				dump := ip.VerifDump()
				if seen[dump] {
					continue
				}
				seen[dump] = true
				next = append(next, hist)
				if c.Mine() {
					c.Outcome("state " + dump)
					evalState(hist)
				}
			}
		}
		c.NoteMax(fmt.Sprintf("distinct_states_depth_%d", d), int64(len(next)))
		frontier = next
	}
	c.NoteMax("alphabet_ops", int64(len(ops)))
	c.NoteMax("probe_configs_x_oracles", int64(2*len(probes)))
}

func c14Replay(c *core.Ctx, raw json.RawMessage) {
	var cs c14Case
	if err := json.Unmarshal(raw, &cs); err != nil {
		panic(err)
	}
	e := c14NewEnv(c)
	if cs.Oracle == 0 {
		_, hres := e.replay(cs.History)
		if len(hres) > 0 && hres[len(hres)-1].Panic != "" {
			c.Fail("panic-in-history-run", cs, firstLine(hres[len(hres)-1].Panic))
		}
		return
	}
	e.evalOne(c, cs.History, cs.Probe, cs.Oracle, nil)
}

func init() {
	core.Register(&core.Check{
		ID:    "C14",
		Level: "model_checking",
		Rule: "explicit-state search over the real Interpreter: state = history of operations on one interp.Interpreter, operation = Execute/ExecuteContext with one of ~37 configurations of one program (plain, FS/RS/ORS/SUBSEP via Vars, CSV/TSV header by Config/Vars/BEGIN, Args, ARGV / ENVIRON / a global array replaced by split() or deleted and refilled, error in function (also with filled local arrays)/loop/for-in/rule, exit 3 in BEGIN/rule/END, exit followed by an error in END, and error in a rule while a range pattern is open, context cancelled at VM step k, file and command streams left open, completed run whose context is cancelled afterwards, sandbox flags, Chars, CRLF, rejected configurations) or ResetVars/ResetRand; " +
			"successor = replay of the history on a fresh Interpreter + one more operation (transitions); states de-duplicated by VerifDump() (states = distinct dumps), BFS to depth 2 (quick) / 3 (thorough); in every state 11 probe configurations x 2 oracles are run on the reused interpreter and compared with ExecProgram on a new one; distinct = distinct state dumps and probe observations",
		Assumptions: []string{
			"oracle 2 (no ResetVars) pins FS OFS ORS RS SUBSEP CONVFMT OFMT through Config.Vars on both sides and the probe then reads no global, array, RT, RSTART/RLENGTH, ARGV, ENVIRON or FIELDS: these are 'variables and arrays' that may carry over",
			"ResetRand is called before every probe (both oracles): the property makes no claim about the random sequence without it",
			"files f1/f2 are read-only fixtures; out1/out2 are removed before every history replay and before every probe run (all files are closed by Execute's closeAll at that point)",
			"for-in visits keys in sorted order in the instrumented build",
			"child processes are a synchronous in-process stand-in (emit/cat scripts) that, like os/exec, refuses to start under a context that is already done; C13 covers concurrent command streams",
			"VerifDump includes the keys and values of the regex and format caches, so histories that differ only in cache contents are distinct states",
			"a run that does not stop within 200000 VM steps is a harness error (cancellation itself is C15)",
		},
		Run:    c14Run,
		Replay: c14Replay,
	})
}

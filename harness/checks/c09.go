package checks

import (
	"bufio"
	"bytes"
	"crypto/sha256"
	"encoding/binary"
	"encoding/csv"
	"encoding/json"
	"fmt"
	"io"
	"math"
	"os"
	"os/exec"
	"path/filepath"
	"regexp"
	"sort"
	"strconv"
	"strings"
	"unicode/utf8"

	"github.com/benhoyt/goawk/interp"
	"github.com/benhoyt/goawk/parser"

	"verifharness/awk"
	"verifharness/core"
)

// C09 — printf/sprintf format like C printf; print uses OFMT (shape B).
//
// Oracle: the C library itself (chelper/cprintf.c, a long-running snprintf
// server, one per worker). Arguments are converted "the AWK way" by this file,
// independently of interp/functions.go, and handed to C with the exact C type.

// ---------------------------------------------------------------------------
// C helper process

type c09C struct {
	cmd   *exec.Cmd
	in    io.WriteCloser
	out   *bufio.Reader
	buf   bytes.Buffer
	n     int
	cache map[string][]byte
}

type c09Req struct {
	cfmt  string
	stars []int
	typ   byte // l u c d s n
	l     int64
	u     uint64
	c     int32
	d     float64
	s     string
}

func c09HelperPath() string {
	bin := filepath.Join(core.VerifDir, "work", "bin", "cprintf")
	src := filepath.Join(core.VerifDir, "chelper", "cprintf.c")
	bs, berr := os.Stat(bin)
	ss, serr := os.Stat(src)
	if berr == nil && (serr != nil || !ss.ModTime().After(bs.ModTime())) {
		return bin
	}
	if serr != nil {
		panic("C09: neither " + bin + " nor " + src + " exists")
	}
	os.MkdirAll(filepath.Dir(bin), 0o755)
	tmp := fmt.Sprintf("%s.tmp%d", bin, os.Getpid())
	out, err := exec.Command("gcc", "-O1", "-o", tmp, src).CombinedOutput()
	if err != nil {
		panic(fmt.Sprintf("C09: cannot compile %s: %v\n%s", src, err, out))
	}
	if err := os.Rename(tmp, bin); err != nil {
		panic(err)
	}
	return bin
}

func c09StartC() *c09C {
	h := &c09C{cache: map[string][]byte{}}
	h.cmd = exec.Command(c09HelperPath())
	h.cmd.Env = []string{"LC_ALL=C"}
	var err error
	if h.in, err = h.cmd.StdinPipe(); err != nil {
		panic(err)
	}
	so, err := h.cmd.StdoutPipe()
	if err != nil {
		panic(err)
	}
	h.out = bufio.NewReaderSize(so, 1<<16)
	h.cmd.Stderr = os.Stderr
	if err := h.cmd.Start(); err != nil {
		panic(err)
	}
	return h
}

func (h *c09C) close() {
	h.in.Close()
	h.cmd.Wait()
}

// add queues a request and returns its index in the batch.
func (h *c09C) add(r c09Req) int {
	b := &h.buf
	var t [8]byte
	binary.LittleEndian.PutUint32(t[:4], uint32(len(r.cfmt)))
	b.Write(t[:4])
	b.WriteString(r.cfmt)
	b.WriteByte(byte(len(r.stars)))
	for _, s := range r.stars {
		binary.LittleEndian.PutUint32(t[:4], uint32(int32(s)))
		b.Write(t[:4])
	}
	b.WriteByte(r.typ)
	switch r.typ {
	case 'l':
		binary.LittleEndian.PutUint64(t[:], uint64(r.l))
		b.Write(t[:])
	case 'u':
		binary.LittleEndian.PutUint64(t[:], r.u)
		b.Write(t[:])
	case 'c':
		binary.LittleEndian.PutUint32(t[:4], uint32(r.c))
		b.Write(t[:4])
	case 'd':
		binary.LittleEndian.PutUint64(t[:], math.Float64bits(r.d))
		b.Write(t[:])
	case 's':
		binary.LittleEndian.PutUint32(t[:4], uint32(len(r.s)))
		b.Write(t[:4])
		b.WriteString(r.s)
	case 'n':
	default:
		panic("bad request type")
	}
	h.n++
	return h.n - 1
}

// run sends the queued batch and returns the answers (nil = C reported an error).
func (h *c09C) run() [][]byte {
	n := h.n
	h.buf.Write([]byte{0xff, 0xff, 0xff, 0xff})
	data := append([]byte(nil), h.buf.Bytes()...)
	h.buf.Reset()
	h.n = 0
	werr := make(chan error, 1)
	go func() { _, err := h.in.Write(data); werr <- err }()
	res := make([][]byte, n)
	var t [4]byte
	for i := 0; i < n; i++ {
		if _, err := io.ReadFull(h.out, t[:]); err != nil {
			panic(fmt.Sprintf("C09: C helper died: %v", err))
		}
		l := int32(binary.LittleEndian.Uint32(t[:]))
		if l < 0 {
			continue
		}
		res[i] = make([]byte, l)
		if _, err := io.ReadFull(h.out, res[i]); err != nil {
			panic(fmt.Sprintf("C09: C helper died: %v", err))
		}
	}
	if err := <-werr; err != nil {
		panic(err)
	}
	return res
}

func (h *c09C) one(r c09Req) []byte {
	if h.n != 0 {
		panic("c09: one() inside a batch")
	}
	h.add(r)
	return h.run()[0]
}

// ---------------------------------------------------------------------------
// argument values

type c09Arg struct {
	Kind  string // num, str, strnum (field from input), unset
	Num   float64
	Str   string
	Label string
}

func c09MkArgs() []c09Arg {
	var as []c09Arg
	num := func(vs ...float64) {
		for _, v := range vs {
			as = append(as, c09Arg{Kind: "num", Num: v, Label: "num:" + strconv.FormatFloat(v, 'g', -1, 64)})
		}
	}
	str := func(kind string, vs ...string) {
		for _, v := range vs {
			as = append(as, c09Arg{Kind: kind, Str: v, Label: kind + ":" + strconv.Quote(v)})
		}
	}
	p63 := 9223372036854775808.0
	num(0, 1, -1, 42, -42, 65, 127, 128, 255, 256, 1000, 100000, 1e6, 123456789,
		2147483648, -2147483649, 4294967296, 9007199254740992, p63-1024, -(p63 - 1024), -p63, p63,
		1e20, 1e300, 0.5, -0.5, 1.5, 2.5, 0.1, 0.1+0.2, 3.14159265, -3.9, 1e-5, 0.0001, 123456.789,
		5e-324, 1e-300, math.MaxFloat64, math.Copysign(0, -1), math.Inf(1), math.Inf(-1), math.NaN(),
		9786, 1114112)
	str("str", "", "abc", "12abc", "-7.9x", " 42 ", "1e3", "+5", "65", "%d", "é", "aé", "日本語", "\xff\xfe")
	str("strnum", "65", " 42 ", "3.9", "1e3", "abc", "é")
	as = append(as, c09Arg{Kind: "unset", Label: "unset"})
	return as
}

var c09Args = c09MkArgs()

func c09ArgByLabel(l string) *c09Arg {
	for i := range c09Args {
		if c09Args[i].Label == l {
			return &c09Args[i]
		}
	}
	return nil
}

var c09NumRe = regexp.MustCompile(`^[ \t\n\r\f\v]*([+-]?([0-9]+\.?[0-9]*|\.[0-9]+)([eE][+-]?[0-9]+)?)`)
var c09NumAllRe = regexp.MustCompile(`^[ \t\n\r\f\v]*[+-]?([0-9]+\.?[0-9]*|\.[0-9]+)([eE][+-]?[0-9]+)?[ \t\n\r\f\v]*$`)

// c09LooksNumeric: does an input field count as a number (strnum)?
func (a *c09Arg) looksNumeric() bool { return a.Kind == "strnum" && c09NumAllRe.MatchString(a.Str) }

// isNumber: treated as a number by %c (numbers, numeric fields).
func (a *c09Arg) isNumber() bool { return a.Kind == "num" || a.looksNumeric() }

// toNum is the AWK string-to-number conversion (longest numeric prefix) for the
// strings of the alphabet, written independently of interp/value.go.
func (a *c09Arg) toNum() float64 {
	switch a.Kind {
	case "num":
		return a.Num
	case "unset":
		return 0
	}
	m := c09NumRe.FindStringSubmatch(a.Str)
	if m == nil {
		return 0
	}
	f, _ := strconv.ParseFloat(m[1], 64)
	return f
}

const c09P63 = 9223372036854775808.0

func c09InLong(v float64) bool { return !math.IsNaN(v) && v >= -c09P63 && v < c09P63 }

// ---------------------------------------------------------------------------
// format specifications

type c09Spec struct {
	Flags string `json:"flags"`
	Width string `json:"width"` // "", digits or "*"
	WStar int    `json:"wstar"`
	Prec  string `json:"prec"` // "", ".", ".digits" or ".*"
	PStar int    `json:"pstar"`
	Conv  string `json:"conv"`
}

func (s c09Spec) awkFmt() string { return "%" + s.Flags + s.Width + s.Prec + s.Conv }
func (s c09Spec) stars() []int {
	var st []int
	if s.Width == "*" {
		st = append(st, s.WStar)
	}
	if s.Prec == ".*" {
		st = append(st, s.PStar)
	}
	return st
}
func (s c09Spec) conv() byte { return s.Conv[0] }

// effective precision (-1 = none) and width
func (s c09Spec) effPrec() int {
	switch {
	case s.Prec == "":
		return -1
	case s.Prec == ".":
		return 0
	case s.Prec == ".*":
		if s.PStar < 0 {
			return -1
		}
		return s.PStar
	}
	n, _ := strconv.Atoi(s.Prec[1:])
	return n
}
func (s c09Spec) effWidth() (w int, left bool) {
	left = strings.Contains(s.Flags, "-")
	switch {
	case s.Width == "":
		return 0, left
	case s.Width == "*":
		if s.WStar < 0 {
			return -s.WStar, true
		}
		return s.WStar, left
	}
	n, _ := strconv.Atoi(s.Width)
	return n, left
}
func (s c09Spec) has(f byte) bool { return strings.IndexByte(s.Flags, f) >= 0 }

type c09WP struct {
	s    string
	star int
}

func c09Widths(thorough bool) []c09WP {
	if thorough {
		return []c09WP{{"", 0}, {"1", 0}, {"2", 0}, {"7", 0}, {"12", 0}, {"25", 0}, {"*", 5}, {"*", -5}, {"*", 0}, {"*", 1}}
	}
	return []c09WP{{"", 0}, {"1", 0}, {"7", 0}, {"*", 5}, {"*", -5}}
}
func c09Precs(thorough bool) []c09WP {
	if thorough {
		return []c09WP{{"", 0}, {".", 0}, {".0", 0}, {".1", 0}, {".2", 0}, {".3", 0}, {".6", 0}, {".10", 0}, {".17", 0}, {".25", 0}, {".*", 2}, {".*", -1}, {".*", 0}}
	}
	return []c09WP{{"", 0}, {".0", 0}, {".3", 0}, {".*", 2}, {".*", -1}}
}

// all 32 flag subsets, fewest flags first; thorough adds the reversed spelling
func c09FlagSets(thorough bool) []string {
	const fl = "-+ #0"
	var sets []string
	for bits := 0; bits <= 5; bits++ {
		for m := 0; m < 32; m++ {
			if c09pop(m) != bits {
				continue
			}
			var b []byte
			for i := 0; i < 5; i++ {
				if m&(1<<i) != 0 {
					b = append(b, fl[i])
				}
			}
			sets = append(sets, string(b))
			if thorough && len(b) > 1 {
				for i, j := 0, len(b)-1; i < j; i, j = i+1, j-1 {
					b[i], b[j] = b[j], b[i]
				}
				sets = append(sets, string(b))
			}
		}
	}
	return sets
}

func c09pop(m int) int {
	n := 0
	for ; m != 0; m &= m - 1 {
		n++
	}
	return n
}

const c09Convs = "diouxXcseEfgG"

// ---------------------------------------------------------------------------
// expectation

type c09Plan struct {
	undefined string   // reason the equality oracle does not apply
	model     []string // expected by model (alternatives)
	reqs      []int    // indexes into the C batch (alternatives)
}

type c09Env struct {
	h        *c09C
	strForms map[string][]string // arg label -> AWK string forms (alternatives)
}

func newC09Env() *c09Env {
	e := &c09Env{h: c09StartC(), strForms: map[string][]string{}}
	for i := range c09Args {
		e.strForm(&c09Args[i]) // precomputed: needs C round trips outside a batch
	}
	return e
}

// strForms: the AWK number-to-string conversion (CONVFMT = %.6g) via C.
func (e *c09Env) strForm(a *c09Arg) []string {
	if f, ok := e.strForms[a.Label]; ok {
		return f
	}
	var f []string
	switch a.Kind {
	case "str", "strnum":
		f = []string{a.Str}
	case "unset":
		f = []string{""}
	default:
		v := a.Num
		switch {
		case math.IsNaN(v) || math.IsInf(v, 0):
			f = []string{string(e.h.one(c09Req{cfmt: "%.6g", typ: 'd', d: v}))}
		case v == 0 && math.Signbit(v):
			f = []string{"0", "-0"}
		case v == math.Trunc(v) && c09InLong(v):
			f = []string{strconv.FormatInt(int64(v), 10)}
		case v == math.Trunc(v):
			// integral but beyond long: "%d" is impossible; accept the exact integer or CONVFMT
			f = []string{string(e.h.one(c09Req{cfmt: "%.6g", typ: 'd', d: v})), string(e.h.one(c09Req{cfmt: "%.0f", typ: 'd', d: v}))}
		default:
			f = []string{string(e.h.one(c09Req{cfmt: "%.6g", typ: 'd', d: v}))}
		}
	}
	e.strForms[a.Label] = f
	return f
}

func c09PadRunes(s string, w int, left bool) string {
	n := utf8.RuneCountInString(s)
	if n >= w {
		return s
	}
	if left {
		return s + strings.Repeat(" ", w-n)
	}
	return strings.Repeat(" ", w-n) + s
}

// plan decides what the statement demands for (spec, arg, mode) and queues the
// C requests needed.
func (e *c09Env) plan(sp c09Spec, a *c09Arg, chars bool) c09Plan {
	cv := sp.conv()
	stars := sp.stars()
	cf := func(lenmod string) string { return "%" + sp.Flags + sp.Width + sp.Prec + lenmod + sp.Conv }
	var p c09Plan
	undef := func(why string) c09Plan { return c09Plan{undefined: why} }
	// flag combinations the C standard leaves undefined / says nothing about
	switch cv {
	case 'd', 'i', 'u':
		if sp.has('#') {
			return undef("# with d/i/u")
		}
	case 'c', 's':
		if sp.has('#') || sp.has('0') {
			return undef("# or 0 with c/s")
		}
	}
	if strings.IndexByte("ouxXcs", cv) >= 0 && (sp.has('+') || sp.has(' ')) {
		return undef("+ or space with an unsigned/char/string conversion")
	}
	switch cv {
	case 'd', 'i':
		v := math.Trunc(a.toNum())
		if !c09InLong(v) {
			return undef("float out of long range for an integer conversion")
		}
		p.reqs = []int{e.h.add(c09Req{cfmt: cf("l"), stars: stars, typ: 'l', l: int64(v)})}
	case 'o', 'u', 'x', 'X':
		v := math.Trunc(a.toNum())
		if !c09InLong(v) {
			return undef("float out of long range for an integer conversion")
		}
		p.reqs = []int{e.h.add(c09Req{cfmt: cf("l"), stars: stars, typ: 'u', u: uint64(int64(v))})}
	case 'e', 'E', 'f', 'g', 'G':
		p.reqs = []int{e.h.add(c09Req{cfmt: cf(""), stars: stars, typ: 'd', d: a.toNum()})}
	case 's':
		forms := e.strForm(a)
		for _, f := range forms {
			if strings.IndexByte(f, 0) >= 0 {
				return undef("%s of a string containing NUL")
			}
			ascii := true
			for i := 0; i < len(f); i++ {
				if f[i] >= 0x80 {
					ascii = false
				}
			}
			if chars && !ascii {
				if !utf8.ValidString(f) {
					return undef("character mode with a string that is not UTF-8")
				}
				// character mode: width and precision count characters
				s := f
				if pr := sp.effPrec(); pr >= 0 {
					r := []rune(s)
					if len(r) > pr {
						s = string(r[:pr])
					}
				}
				w, left := sp.effWidth()
				p.model = append(p.model, c09PadRunes(s, w, left))
			} else {
				p.reqs = append(p.reqs, e.h.add(c09Req{cfmt: cf(""), stars: stars, typ: 's', s: f}))
			}
		}
	case 'c':
		if sp.effPrec() >= 0 {
			return undef("precision with c")
		}
		if a.Kind == "unset" {
			return undef("%c of an uninitialized value (both \"\" and 0)")
		}
		if a.isNumber() {
			v := math.Trunc(a.toNum())
			if chars {
				if !(v >= 0 && v <= 0x10FFFF) || (v >= 0xD800 && v <= 0xDFFF) {
					return undef("%c of a number that is no code point")
				}
				if v < 128 {
					p.reqs = []int{e.h.add(c09Req{cfmt: cf(""), stars: stars, typ: 'c', c: int32(v)})}
				} else {
					w, left := sp.effWidth()
					p.model = []string{c09PadRunes(string(rune(int32(v))), w, left)}
				}
			} else {
				if !(v >= 0 && v <= 255) {
					return undef("%c of a number outside 0..255")
				}
				p.reqs = []int{e.h.add(c09Req{cfmt: cf(""), stars: stars, typ: 'c', c: int32(v)})}
			}
		} else {
			s := a.Str
			if s == "" {
				return undef("%c of the empty string")
			}
			if chars && s[0] >= 0x80 {
				r, size := utf8.DecodeRuneInString(s)
				if r == utf8.RuneError {
					return undef("character mode with a string that is not UTF-8")
				}
				w, left := sp.effWidth()
				p.model = []string{c09PadRunes(s[:size], w, left)}
			} else {
				p.reqs = []int{e.h.add(c09Req{cfmt: cf(""), stars: stars, typ: 'c', c: int32(s[0])})}
			}
		}
	}
	return p
}

// classify gives a mismatch a stable signature (a defect class).
func c09Classify(sp c09Spec, a *c09Arg, chars bool) string {
	cv := sp.conv()
	mode := "bytes"
	if chars {
		mode = "chars"
	}
	isInt := strings.IndexByte("diouxX", cv) >= 0
	isFloat := strings.IndexByte("eEfgG", cv) >= 0
	v := a.toNum()
	switch {
	case sp.Prec == ".*" && sp.PStar < 0:
		return "star-precision-negative-badprec"
	case isFloat && (math.IsNaN(v) || math.IsInf(v, 0)):
		return "float-nonfinite-spelling"
	case (cv == 'g' || cv == 'G') && sp.effPrec() < 0:
		return "g-noprec-shortest"
	case cv == 's' && !chars && c09HasHigh(a.Str) && a.Kind != "num":
		if sp.effPrec() >= 0 {
			return "s-precision-counts-runes mode=bytes"
		}
		return "s-width-counts-runes mode=bytes"
	case isInt && sp.effPrec() == 0 && math.Trunc(v) == 0:
		return "int-prec0-zero-drops-sign-or-prefix"
	case (cv == 'x' || cv == 'X') && sp.has('#') && math.Trunc(v) == 0:
		return "alt-hex-zero-has-prefix"
	case (cv == 'x' || cv == 'X') && sp.has('#') && sp.has('0') && !sp.has('-') && sp.effPrec() < 0:
		return "alt-hex-zeropad-ignores-prefix-width"
	}
	return fmt.Sprintf("mismatch conv=%c flags=%q mode=%s", cv, c09SortFlags(sp.Flags), mode)
}

func c09SortFlags(f string) string {
	b := []byte(f)
	sort.Slice(b, func(i, j int) bool { return b[i] < b[j] })
	return string(b)
}

func c09HasHigh(s string) bool {
	for i := 0; i < len(s); i++ {
		if s[i] >= 0x80 {
			return true
		}
	}
	return false
}

// ---------------------------------------------------------------------------
// running goawk

type c09Item struct {
	fmt   string
	stars []int
	arg   *c09Arg
}

const c09Sep = "\x01\x02\x03\x02\x01"

type c09Runner struct {
	items    []c09Item
	outs     []string
	called   []bool
	funcs    map[string]any
	sprog    *parser.Program // sprintf batch
	pprog    *parser.Program // printf batch
	eprog    [2]*parser.Program
	print    *parser.Program
	ofmt     string
	prevOfmt string
	omode    string // OUTPUTMODE for the print program ("" / csv / tsv)
}

func c09Ladder(call func(args string) string) string {
	var b strings.Builder
	vals := []string{"c09num(i)", "c09str(i)", "unset", "$1"}
	for k, v := range vals {
		if k > 0 {
			b.WriteString(" else ")
		}
		fmt.Fprintf(&b, "if (k == %d) { ", k)
		if k == 3 {
			b.WriteString("$0 = c09str(i); ")
		}
		fmt.Fprintf(&b, "if (s == 0) { %s } else if (s == 1) { %s } else { %s } }",
			call("f, "+v), call("f, c09star(i, 0), "+v), call("f, c09star(i, 0), c09star(i, 1), "+v))
	}
	return b.String()
}

func newC09Runner() *c09Runner {
	r := &c09Runner{}
	r.funcs = map[string]any{
		"c09n":   func() int { return len(r.items) },
		"c09fmt": func(i int) string { return r.items[i].fmt },
		"c09kind": func(i int) int {
			switch r.items[i].arg.Kind {
			case "num":
				return 0
			case "str":
				return 1
			case "unset":
				return 2
			}
			return 3
		},
		"c09nstar": func(i int) int { return len(r.items[i].stars) },
		"c09star":  func(i, j int) int { return r.items[i].stars[j] },
		"c09num":   func(i int) float64 { return r.items[i].arg.Num },
		"c09str":   func(i int) string { return r.items[i].arg.Str },
		"c09out":   func(i int, s string) { r.outs[i] = s; r.called[i] = true },
		"c09ofmt":  func() string { return r.ofmt },
		"c09omode": func() string { return r.omode },
		"c09prev":  func() string { return r.prevOfmt },
	}
	head := `BEGIN { FS = "\001"; n = c09n(); for (i = 0; i < n; i++) { f = c09fmt(i); k = c09kind(i); s = c09nstar(i); `
	r.sprog = awk.MustParse(head+c09Ladder(func(a string) string { return "r = sprintf(" + a + ")" })+"; c09out(i, r) } }", r.funcs)
	r.pprog = awk.MustParse(head+c09Ladder(func(a string) string { return "printf " + a })+`; printf "%s", "`+`\001\002\003\002\001`+`" } }`, r.funcs)
	// error programs: item 0's format with its stars list used as plain arguments (0..3 of them)
	r.eprog[0] = awk.MustParse(`BEGIN { f = c09fmt(0); s = c09nstar(0); if (s == 0) r = sprintf(f); else if (s == 1) r = sprintf(f, c09star(0,0)); else if (s == 2) r = sprintf(f, c09star(0,0), c09star(0,1)); else r = sprintf(f, c09star(0,0), c09star(0,1), c09star(0,2)); c09out(0, r) }`, r.funcs)
	r.eprog[1] = awk.MustParse(`BEGIN { f = c09fmt(0); s = c09nstar(0); if (s == 0) printf f; else if (s == 1) printf f, c09star(0,0); else if (s == 2) printf f, c09star(0,0), c09star(0,1); else printf f, c09star(0,0), c09star(0,1), c09star(0,2); c09out(0, "done") }`, r.funcs)
	// c09prev: an OFMT that was in force (and used by one print and one CONVFMT-governed conversion) before the OFMT under test
	r.print = awk.MustParse(`BEGIN { p = c09prev(); if (p != "") { OFMT = p; print 0.1; junk = 0.1 "" } OFMT = c09ofmt(); OUTPUTMODE = c09omode(); n = c09n(); for (i = 0; i < n; i++) print c09num(i) }`, r.funcs)
	return r
}

type c09Res struct {
	out    string
	ok     bool
	errStr string
}

func (r *c09Runner) exec(prog *parser.Program, items []c09Item, chars bool) awk.Result {
	r.items = items
	r.outs = make([]string, len(items))
	r.called = make([]bool, len(items))
	return awk.Exec(prog, &interp.Config{Funcs: r.funcs, Chars: chars})
}

// sprintfBatch evaluates the items with sprintf. A run-time error aborts the
// AWK program at the failing item: the items before it are done, the failing
// one gets the error, the run resumes after it.
func (r *c09Runner) sprintfBatch(c *core.Ctx, items []c09Item, chars bool) []c09Res {
	res := make([]c09Res, len(items))
	c.Eval(int64(len(items)))
	for start := 0; start < len(items); {
		rr := r.exec(r.sprog, items[start:], chars)
		done := 0
		for done < len(r.called) && r.called[done] {
			res[start+done] = c09Res{out: r.outs[done], ok: true}
			done++
		}
		if rr.Err == nil && rr.Panic == "" {
			break // items not called (impossible) stay !ok
		}
		if start+done < len(items) {
			res[start+done] = c09Res{errStr: rr.ErrString()}
		}
		start += done + 1
	}
	return res
}

func (r *c09Runner) printfBatch(c *core.Ctx, items []c09Item, chars bool) []c09Res {
	res := make([]c09Res, len(items))
	c.Eval(int64(len(items)))
	for start := 0; start < len(items); {
		rr := r.exec(r.pprog, items[start:], chars)
		parts := strings.Split(rr.Out, c09Sep)
		done := len(parts) - 1 // complete, delimited outputs
		if done > len(items)-start {
			done = len(items) - start
		}
		for k := 0; k < done; k++ {
			res[start+k] = c09Res{out: parts[k], ok: true}
		}
		if rr.Err == nil && rr.Panic == "" {
			if done != len(items)-start || parts[done] != "" {
				for k := start; k < len(items); k++ {
					res[k] = c09Res{errStr: "printf output not delimited as expected"}
				}
			}
			break
		}
		if start+done < len(items) {
			res[start+done] = c09Res{errStr: rr.ErrString() + fmt.Sprintf(" (partial output %q)", parts[done])}
		}
		start += done + 1
	}
	return res
}

// ---------------------------------------------------------------------------
// the main family: one conversion

type c09Case struct {
	Kind     string   `json:"kind"` // spec | pair | err | lit | print
	Spec     *c09Spec `json:"spec,omitempty"`
	Chars    bool     `json:"chars"`
	Args     []string `json:"args,omitempty"` // labels of the failing arguments (information)
	FmtQ     string   `json:"fmtq,omitempty"` // Go-quoted format (err, lit, pair)
	NArgs    int      `json:"nargs,omitempty"`
	Via      string   `json:"via,omitempty"`
	Spec2    *c09Spec `json:"spec2,omitempty"`
	OFMT     string   `json:"ofmt,omitempty"`
	PrevOFMT string   `json:"prev_ofmt,omitempty"`
	OMode    string   `json:"output_mode,omitempty"`
	Src      string   `json:"src,omitempty"`
}

// c09CheckSpecs evaluates specs x all arguments in one mode. Failures are
// grouped: one violation per (signature, spec), listing the failing arguments.
// withPrintf: also through the printf statement (must equal sprintf).
// only (replay): restrict to these argument labels.
func c09CheckSpecs(c *core.Ctx, e *c09Env, r *c09Runner, specs []c09Spec, chars bool, withPrintf bool, only ...string) {
	type cell struct {
		sp   int
		arg  *c09Arg
		plan c09Plan
	}
	var cells []cell
	var items []c09Item
	for si, sp := range specs {
		for ai := range c09Args {
			a := &c09Args[ai]
			if len(only) > 0 && !c09In(only, a.Label) {
				continue
			}
			cells = append(cells, cell{sp: si, arg: a, plan: e.plan(sp, a, chars)})
			items = append(items, c09Item{fmt: sp.awkFmt(), stars: sp.stars(), arg: a})
		}
	}
	cres := e.h.run()
	got := r.sprintfBatch(c, items, chars)
	var gotP []c09Res
	if withPrintf {
		gotP = r.printfBatch(c, items, chars)
	}
	c.Add("transitions", int64(len(cells)))
	c.Add("states", int64(len(specs)))
	type group struct {
		sig  string
		sp   int
		args []string
		obs  []string
	}
	groups := map[string]*group{}
	var order []string
	fail := func(sig string, ce cell, obs string) {
		key := fmt.Sprintf("%s\x00%d", sig, ce.sp)
		g := groups[key]
		if g == nil {
			g = &group{sig: sig, sp: ce.sp}
			groups[key] = g
			order = append(order, key)
		}
		g.args = append(g.args, ce.arg.Label)
		g.obs = append(g.obs, ce.arg.Label+" -> "+obs)
	}
	defined := int64(0)
	for i, ce := range cells {
		sp := specs[ce.sp]
		g := got[i]
		if g.errStr != "" {
			if strings.HasPrefix(g.errStr, "PANIC") {
				fail("panic", ce, firstLine(g.errStr))
			} else if ce.plan.undefined == "" {
				fail("unexpected-error", ce, g.errStr)
			}
			c.Outcome("err:" + firstLine(g.errStr))
			continue
		}
		if !g.ok {
			fail("no-result", ce, "sprintf did not return")
			continue
		}
		c.Outcome(g.out)
		if withPrintf {
			if gp := gotP[i]; gp.errStr != "" || gp.out != g.out {
				fail("printf-differs-from-sprintf", ce, fmt.Sprintf("printf %q %s, sprintf %q", gp.out, gp.errStr, g.out))
			}
		}
		if ce.plan.undefined != "" {
			// C leaves it open: only "no crash, no Go fmt error marker"
			if strings.Contains(g.out, "%!") {
				sig := "go-fmt-error-marker"
				if sp.Prec == ".*" && sp.PStar < 0 && strings.Contains(g.out, "%!(BADPREC)") {
					sig = "star-precision-negative-badprec" // same defect, seen on a combination outside the equality oracle
				}
				fail(sig, ce, fmt.Sprintf("got %q", trunc(g.out, 80)))
			}
			continue
		}
		defined++
		var wants []string
		wants = append(wants, ce.plan.model...)
		for _, ri := range ce.plan.reqs {
			if cres[ri] == nil {
				panic(fmt.Sprintf("C09: C helper rejected %q", sp.awkFmt()))
			}
			wants = append(wants, string(cres[ri]))
		}
		match := false
		for _, w := range wants {
			if w == g.out {
				match = true
			}
		}
		if !match {
			fail(c09Classify(sp, ce.arg, chars), ce, fmt.Sprintf("got %q want %q", trunc(g.out, 80), trunc(wants[0], 80)))
		}
	}
	c.Add("defined_cases", defined)
	for _, key := range order {
		g := groups[key]
		sp := specs[g.sp]
		c.Fail(g.sig, c09Case{Kind: "spec", Spec: &sp, Chars: chars, Args: g.args}, sp.awkFmt()+c09StarText(sp)+": "+c09Digest(g.obs))
	}
}

// c09Digest renders the per-argument observations of one violation: the first
// few in full, the rest as a count plus a digest (keeps evidence small while any
// change in any observation still changes the text).
func c09Digest(obs []string) string {
	const keep = 6
	if len(obs) <= keep {
		return strings.Join(obs, "; ")
	}
	h := sha256.Sum256([]byte(strings.Join(obs, "\x00")))
	return fmt.Sprintf("%s; (+%d more arguments, digest %x)", strings.Join(obs[:keep], "; "), len(obs)-keep, h[:6])
}

func c09In(l []string, s string) bool {
	for _, x := range l {
		if x == s {
			return true
		}
	}
	return false
}

func c09StarText(sp c09Spec) string {
	st := sp.stars()
	if len(st) == 0 {
		return ""
	}
	return fmt.Sprintf(" *=%v", st)
}

// ---------------------------------------------------------------------------
// two conversions in one format: argument routing and literal text

func c09PairSpecs() []c09Spec {
	var sp []c09Spec
	for i := 0; i < len(c09Convs); i++ {
		cv := string(c09Convs[i])
		sp = append(sp, c09Spec{Conv: cv})
		s := c09Spec{Flags: "-", Width: "*", WStar: 6, Conv: cv}
		if cv != "c" {
			s.Prec, s.PStar = ".*", 2
		}
		sp = append(sp, s)
	}
	return sp
}

var c09PairArg = map[byte]string{'d': "num:-42", 'i': "num:42", 'o': "num:255", 'u': "num:1000", 'x': "num:255", 'X': "num:-1", 'c': "num:65", 's': `str:"12abc"`,
	'e': "num:3.14159265", 'E': "num:1e-05", 'f': "num:123456.789", 'g': "num:123456.789", 'G': "num:3.14159265"}

// c09PairArg2: the second conversion of a pair takes a different value (of a
// different encoded length for %c and %s), so that two conversions of the same
// kind cannot pass by sharing one converted argument.
var c09PairArg2 = map[byte]string{'d': "num:42", 'i': "num:-42", 'o': "num:1000", 'u': "num:255", 'x': "num:1000", 'X': "num:255", 'c': "num:9786", 's': `str:"aé"`,
	'e': "num:1e-05", 'E': "num:3.14159265", 'f': "num:0.5", 'g': "num:3.14159265", 'G': "num:123456.789"}

// (the float arguments need more than 6 significant digits, so that a default precision
// wrongly carried over from a neighbouring conversion in the same format shows)

// c09CheckPairs: sprintf("<%%" s1 "|" s2 "%%>", args1..., args2...) must be
// "<%" + sprintf(s1, args1...) + "|" + sprintf(s2, args2...) + "%>".
func c09CheckPairs(c *core.Ctx, r *c09Runner, first c09Spec, chars bool) {
	specs := c09PairSpecs()
	single := func(sp c09Spec, args map[byte]string) string {
		a := c09ArgByLabel(args[sp.conv()])
		return r.sprintfBatch(c, []c09Item{{fmt: sp.awkFmt(), stars: sp.stars(), arg: a}}, chars)[0].out
	}
	pairProg := func(s1, s2 c09Spec) (string, awk.Result) {
		lit := func(sp c09Spec, args map[byte]string) string {
			a := c09ArgByLabel(args[sp.conv()])
			var parts []string
			for _, st := range sp.stars() {
				parts = append(parts, strconv.Itoa(st))
			}
			if a.Kind == "num" {
				parts = append(parts, strconv.FormatFloat(a.Num, 'g', -1, 64))
			} else {
				parts = append(parts, strconv.Quote(a.Str))
			}
			return strings.Join(parts, ", ")
		}
		f := "<%%" + s1.awkFmt() + "|" + s2.awkFmt() + "%%>"
		src := fmt.Sprintf(`BEGIN { printf "%%s", sprintf(%s, %s, %s) }`, strconv.Quote(f), lit(s1, c09PairArg), lit(s2, c09PairArg2))
		p, err, pn := awk.Parse(src, nil)
		if err != nil || pn != "" {
			panic(fmt.Sprintf("C09 pair program: %v %s: %s", err, pn, src))
		}
		return f, awk.Exec(p, &interp.Config{Chars: chars})
	}
	g1 := single(first, c09PairArg)
	for _, s2 := range specs {
		g2 := single(s2, c09PairArg2)
		f, res := pairProg(first, s2)
		c.Eval(1)
		c.Add("transitions", 1)
		want := "<%" + g1 + "|" + g2 + "%>"
		c.Outcome(res.Out)
		if res.ErrString() != "" || res.Out != want {
			s1c, s2c := first, s2
			c.Fail("two-conversions-not-compositional", c09Case{Kind: "pair", Spec: &s1c, Spec2: &s2c, Chars: chars, FmtQ: strconv.Quote(f)},
				fmt.Sprintf("%s: got %q %s want %q", f, res.Out, res.ErrString(), want))
		}
	}
}

// ---------------------------------------------------------------------------
// %% and literal text (compared with C), errors

type c09Piece struct {
	s    string
	conv bool // the piece ends in a %...d conversion
}

type c09Lit struct {
	pieces []c09Piece
	args   []int // numeric arguments (possibly more than conversions)
}

func (l c09Lit) format() string {
	var b strings.Builder
	for _, p := range l.pieces {
		b.WriteString(p.s)
	}
	return b.String()
}

func c09Lits() []c09Lit {
	L := func(s string) c09Piece { return c09Piece{s, false} }
	D := func(s string) c09Piece { return c09Piece{s, true} }
	return []c09Lit{
		{[]c09Piece{L("%%")}, nil}, {[]c09Piece{L("a%%b")}, nil}, {[]c09Piece{L("%%%%")}, nil}, {[]c09Piece{L("100%%")}, nil}, {[]c09Piece{L("%%d")}, nil},
		{[]c09Piece{L("")}, nil}, {[]c09Piece{L("plain")}, nil}, {[]c09Piece{L("é%%é")}, nil}, {[]c09Piece{L("%%")}, []int{1}},
		{[]c09Piece{D("%%%d")}, []int{7}}, {[]c09Piece{D("%d"), L("%%")}, []int{7}}, {[]c09Piece{D("%%%d"), L("%%")}, []int{7}},
		{[]c09Piece{D("%d"), D("%%%d")}, []int{7, 8}}, {[]c09Piece{D("%5d"), D("%%%-5d"), L("|")}, []int{7, 8}},
		{[]c09Piece{D("%d")}, []int{1, 2}}, {[]c09Piece{D("%d"), D(" %d")}, []int{1, 2, 3}},
	}
}

func c09CheckLit(c *core.Ctx, e *c09Env, r *c09Runner, l c09Lit) {
	var want string
	argi := 0
	for _, p := range l.pieces {
		if p.conv {
			want += string(e.h.one(c09Req{cfmt: p.s[:len(p.s)-1] + "ld", typ: 'l', l: int64(l.args[argi])}))
			argi++
		} else {
			want += string(e.h.one(c09Req{cfmt: p.s, typ: 'n'}))
		}
	}
	f := l.format()
	for via := 0; via < 2; via++ {
		r.items = []c09Item{{fmt: f, stars: l.args}}
		r.outs = make([]string, 1)
		r.called = make([]bool, 1)
		res := awk.Exec(r.eprog[via], &interp.Config{Funcs: r.funcs})
		c.Eval(1)
		c.Add("transitions", 1)
		got := r.outs[0]
		if via == 1 {
			got = res.Out
		}
		c.Outcome(got)
		if res.ErrString() != "" || got != want {
			c.Fail("percent-literal", c09Case{Kind: "lit", FmtQ: strconv.Quote(f), NArgs: len(l.args), Via: []string{"sprintf", "printf"}[via]},
				fmt.Sprintf("%q with %d args: got %q %s want %q", f, len(l.args), got, res.ErrString(), want))
		}
	}
}

type c09ErrCase struct {
	f     string
	nargs int
	must  bool // must be a run-time error (otherwise: no crash, no Go error marker)
	what  string
}

func c09ErrCases() []c09ErrCase {
	var cs []c09ErrCase
	// too few arguments
	for i := 0; i < len(c09Convs); i++ {
		cv := string(c09Convs[i])
		for _, f := range []string{"%" + cv, "%*" + cv, "%.*" + cv, "%*.*" + cv, "%-5" + cv, "x%%" + "%" + cv} {
			if cv == "c" && strings.Contains(f, ".") {
				continue
			}
			need := 1 + strings.Count(f, "*")
			for n := 0; n < need; n++ {
				cs = append(cs, c09ErrCase{f, n, true, "too-few-arguments"})
			}
		}
		cs = append(cs, c09ErrCase{"%d %" + cv, 1, true, "too-few-arguments"})
		cs = append(cs, c09ErrCase{"%" + cv + " %s %d", 2, true, "too-few-arguments"})
	}
	// unknown conversion characters: every byte that is neither a conversion of the
	// statement, a flag/width/precision character, '%', nor one of the characters C
	// or other awks know (a A F and the length modifiers h l L q j z t)
	skip := c09Convs + " .-+*#0123456789%" + "aAF" + "hlLqjzt"
	for b := 0; b < 256; b++ {
		if strings.IndexByte(skip, byte(b)) >= 0 {
			continue
		}
		for _, pre := range []string{"%", "%5", "%-.3", "%d %"} {
			cs = append(cs, c09ErrCase{pre + string([]byte{byte(b)}), 3, true, "unknown-conversion"})
		}
	}
	// open: a format ending inside a conversion, length modifiers, a A F
	for _, f := range []string{"%", "abc%", "%5", "%-", "%.", "%*", "%ld", "%hd", "%lld", "%Lf", "%a", "%A", "%F", "%5%", "%zd", "%jd", "%td", "%qd"} {
		cs = append(cs, c09ErrCase{f, 3, false, "open"})
	}
	return cs
}

func c09CheckErr(c *core.Ctx, r *c09Runner, ec c09ErrCase) {
	for via := 0; via < 2; via++ {
		args := []int{1, 2, 3}[:ec.nargs]
		r.items = []c09Item{{fmt: ec.f, stars: args}}
		r.outs = make([]string, 1)
		r.called = make([]bool, 1)
		res := awk.Exec(r.eprog[via], &interp.Config{Funcs: r.funcs})
		c.Eval(1)
		c.Add("transitions", 1)
		cs := c09Case{Kind: "err", FmtQ: strconv.Quote(ec.f), NArgs: ec.nargs, Via: []string{"sprintf", "printf"}[via]}
		out := res.Out
		if via == 0 {
			out = r.outs[0]
		}
		switch {
		case res.Panic != "":
			c.Fail("panic "+ec.what, cs, firstLine(res.Panic))
		case ec.must && res.Err == nil:
			c.Fail(ec.what+"-is-no-error", cs, fmt.Sprintf("%q with %d args: no error, result %q", ec.f, ec.nargs, out))
		case ec.must && (r.called[0] || res.Out != ""):
			c.Fail(ec.what+"-error-after-output", cs, fmt.Sprintf("%q: error %v but output %q / continued=%v", ec.f, res.Err, res.Out, r.called[0]))
		case !ec.must && res.Err == nil && strings.Contains(out, "%!"):
			c.Fail("go-fmt-error-marker", cs, fmt.Sprintf("%q: result %q", ec.f, out))
		}
		if res.Err != nil {
			c.Outcome("error: " + res.Err.Error())
		} else {
			c.Outcome(out)
		}
	}
}

// c09CheckErrReuse: the same format first used with enough arguments (which
// parses and caches it), then with too few — still an error, not a crash.
func c09CheckErrReuse(c *core.Ctx, ec c09ErrCase) {
	if !ec.must || ec.what != "too-few-arguments" {
		return
	}
	few := []string{"1", "2", "3"}[:ec.nargs]
	for via, tmpl := range []string{
		`BEGIN { f = %s; x = sprintf(f, 1, 2, 3, 4, 5, 6); y = sprintf(f%s); print "continued" }`,
		`BEGIN { f = %s; printf f, 1, 2, 3, 4, 5, 6; printf f%s; print "continued" }`,
		`{ f = %s; if (NR == 1) x = sprintf(f, 1, 2, 3, 4, 5, 6); else x = sprintf(f%s); print "rec", NR }`,
	} {
		rest := ""
		if len(few) > 0 {
			rest = ", " + strings.Join(few, ", ")
		}
		src := fmt.Sprintf(tmpl, strconv.Quote(ec.f), rest)
		p, err, pn := awk.Parse(src, nil)
		if err != nil || pn != "" {
			continue
		}
		res := awk.Exec(p, &interp.Config{Stdin: strings.NewReader("a\nb\n")})
		c.Eval(1)
		c.Add("transitions", 1)
		cs := c09Case{Kind: "err-reuse", FmtQ: strconv.Quote(ec.f), NArgs: ec.nargs, Via: []string{"sprintf", "printf", "sprintf-per-record"}[via], Src: src}
		switch {
		case res.Panic != "":
			c.Fail("panic too-few-arguments-after-successful-use", cs, firstLine(res.Panic))
		case res.Err == nil:
			c.Fail("too-few-arguments-after-successful-use-is-no-error", cs, fmt.Sprintf("%q: no error, output %q", ec.f, res.Out))
		case strings.Contains(res.Out, "continued") || strings.Contains(res.Out, "rec 2"):
			c.Fail("too-few-arguments-after-successful-use-continued", cs, res.Out)
		}
		c.Outcome("reuse:" + fmt.Sprint(res.Err != nil))
	}
}

// ---------------------------------------------------------------------------
// print uses OFMT

func c09PrintNums() []float64 {
	p63 := c09P63
	return []float64{0, 1, -1, 42, -42, 100, 1000, 99999, 100000, 999999, 1e6, 1234567, 123456789, 2147483647, 2147483648, -2147483648, 4294967296,
		1e10, 1e15, 1e16, 1e17, 1e18, 9007199254740992, 9007199254740993, -9007199254740992, p63 - 1024, -(p63 - 1024), -p63, 12345678901234567,
		0.5, -0.5, 0.1, 0.2, 0.1 + 0.2, 1.5, 2.5, 0.25, 0.125, 3.14159265, -3.9, 1e-5, 0.0001, 0.00001234, 1e-10, 1e-300, 5e-324, 123456.789, 1234567.89, 0.000123456789,
		99999.95, 999999.5, 1e15 + 0.5, 4503599627370495.5, 1.0000001, 0.9999999, 1.23456789e-7, 2.0 / 3, -1.0 / 3,
		// excluded from the equality oracle (kept as no-crash cases)
		math.Copysign(0, -1), p63, 1e20, 1e300, math.Inf(1), math.Inf(-1), math.NaN()}
}

var c09OFMTs = []string{"%.6g", "%.3g", "%.2f", "%e", "%g", "%.10g", "%8.3f", "%+.4e", "%.0f", "%#.3g", "%G", "%-9.2f|"}

func c09CheckPrint(c *core.Ctx, e *c09Env, r *c09Runner, ofmt string) {
	for _, omode := range []string{"", "csv", "tsv"} {
		c09CheckPrintMode(c, e, r, ofmt, omode, "")
	}
	// OFMT assigned a second time in the same run: print follows the OFMT in force, whatever was in force (and used) before
	for _, prev := range c09OFMTs {
		if prev != ofmt && ofmt != "%g" && ofmt != "%G" { // %g without a precision is the recorded finding; not re-examined here
			c09CheckPrintMode(c, e, r, ofmt, "", prev)
		}
	}
}

// c09CheckPrintMode: print of numbers under OFMT in one output mode (in csv
// mode a formatted number with a leading blank is written quoted).
func c09CheckPrintMode(c *core.Ctx, e *c09Env, r *c09Runner, ofmt, omode, prev string) {
	nums := c09PrintNums()
	var items []c09Item
	var reqs []int
	args := make([]c09Arg, len(nums))
	for i, v := range nums {
		args[i] = c09Arg{Kind: "num", Num: v}
		items = append(items, c09Item{arg: &args[i]})
		switch {
		case math.IsNaN(v) || math.IsInf(v, 0) || !c09InLong(v) || (v == 0 && math.Signbit(v)):
			reqs = append(reqs, -1)
		case v == math.Trunc(v):
			reqs = append(reqs, e.h.add(c09Req{cfmt: "%ld", typ: 'l', l: int64(v)}))
		default:
			reqs = append(reqs, e.h.add(c09Req{cfmt: ofmt, typ: 'd', d: v}))
		}
	}
	cres := e.h.run()
	r.ofmt, r.omode, r.prevOfmt = ofmt, omode, prev
	res := r.exec(r.print, items, false)
	r.prevOfmt = ""
	c.Eval(int64(len(nums)))
	c.Add("transitions", int64(len(nums)))
	c.Add("states", 1)
	cs := c09Case{Kind: "print", OFMT: ofmt, OMode: omode, PrevOFMT: prev}
	if res.ErrString() != "" {
		c.Fail("print-error", cs, firstLine(res.ErrString()))
		return
	}
	lines := strings.Split(res.Out, "\n")
	if prev != "" && len(lines) > 0 {
		lines = lines[1:] // the line printed under the previous OFMT
	}
	if len(lines) != len(nums)+1 || lines[len(nums)] != "" {
		c.Fail("print-lines", cs, fmt.Sprintf("%d lines for %d numbers", len(lines)-1, len(nums)))
		return
	}
	bySig := map[string][]string{}
	for i, v := range nums {
		c.Outcome(lines[i])
		if reqs[i] < 0 {
			continue
		}
		want := string(cres[reqs[i]])
		if omode != "" {
			var b bytes.Buffer
			w := csv.NewWriter(&b)
			if omode == "tsv" {
				w.Comma = '\t' // goawk's TSV output is the CSV writer with a tab separator (see C08)
			}
			w.Write([]string{want})
			w.Flush()
			want = strings.TrimSuffix(b.String(), "\n")
		}
		if lines[i] != want {
			sig := "print-nonintegral-not-ofmt"
			if prev != "" {
				sig += "_after-another-ofmt"
			}
			if omode != "" {
				sig += "_outputmode=" + omode
			}
			if v == math.Trunc(v) {
				sig = "print-integral-not-integer"
			} else if ofmt == "%g" || ofmt == "%G" {
				sig = "print-ofmt-g-noprec-shortest"
			}
			bySig[sig] = append(bySig[sig], fmt.Sprintf("%s -> got %q want %q", strconv.FormatFloat(v, 'g', -1, 64), lines[i], want))
		}
	}
	var sigs []string
	for s := range bySig {
		sigs = append(sigs, s)
	}
	sort.Strings(sigs)
	for _, s := range sigs {
		before := ""
		if prev != "" {
			before = " (before: " + prev + ")"
		}
		c.Fail(s, cs, "OFMT="+ofmt+before+" OUTPUTMODE="+omode+": "+strings.Join(bySig[s], "; "))
	}
}

// ---------------------------------------------------------------------------

func c09Run(c *core.Ctx) {
	e := newC09Env()
	defer e.h.close()
	r := newC09Runner()
	th := c.Thorough()
	nsamp := 0
	// simplest first: no flags, no width, no precision come first
	for _, fl := range c09FlagSets(th) {
		for _, w := range c09Widths(th) {
			for _, p := range c09Precs(th) {
				if c.Expired() {
					return
				}
				if !c.Mine() {
					continue
				}
				var specs, specsCS []c09Spec
				for i := 0; i < len(c09Convs); i++ {
					sp := c09Spec{Flags: fl, Width: w.s, WStar: w.star, Prec: p.s, PStar: p.star, Conv: string(c09Convs[i])}
					specs = append(specs, sp)
					if sp.Conv == "c" || sp.Conv == "s" {
						specsCS = append(specsCS, sp)
					}
				}
				c.Announce(c09Case{Kind: "spec", Spec: &specs[0]})
				c09CheckSpecs(c, e, r, specs, false, true)
				// character mode changes only c and s
				c09CheckSpecs(c, e, r, specsCS, true, true)
				if nsamp < 3 && c.Shard == 0 {
					nsamp++
					sp := specs[len(specs)-3]
					it := c09Item{fmt: sp.awkFmt(), stars: sp.stars(), arg: c09ArgByLabel("num:3.14159265")}
					c.Sample(map[string]any{"format": sp.awkFmt(), "stars": sp.stars(), "arg": it.arg.Label, "goawk": r.sprintfBatch(c, []c09Item{it}, false)[0].out})
				}
			}
		}
	}
	for _, sp := range c09PairSpecs() {
		for _, chars := range []bool{false, true} {
			if c.Mine() {
				c09CheckPairs(c, r, sp, chars)
			}
		}
	}
	for _, l := range c09Lits() {
		if c.Mine() {
			c09CheckLit(c, e, r, l)
		}
	}
	for _, ec := range c09ErrCases() {
		if c.Mine() {
			c09CheckErr(c, r, ec)
			c09CheckErrReuse(c, ec)
		}
	}
	for _, o := range c09OFMTs {
		if c.Mine() {
			c09CheckPrint(c, e, r, o)
		}
	}
}

func c09Replay(c *core.Ctx, raw json.RawMessage) {
	var cs c09Case
	if err := json.Unmarshal(raw, &cs); err != nil {
		panic(err)
	}
	e := newC09Env()
	defer e.h.close()
	r := newC09Runner()
	switch cs.Kind {
	case "spec":
		c09CheckSpecs(c, e, r, []c09Spec{*cs.Spec}, cs.Chars, true, cs.Args...)
	case "pair":
		c09CheckPairs(c, r, *cs.Spec, cs.Chars)
	case "lit":
		f := unquoteGo(cs.FmtQ)
		for _, l := range c09Lits() {
			if l.format() == f && len(l.args) == cs.NArgs {
				c09CheckLit(c, e, r, l)
			}
		}
	case "err-reuse":
		f := unquoteGo(cs.FmtQ)
		for _, ec := range c09ErrCases() {
			if ec.f == f && ec.nargs == cs.NArgs {
				c09CheckErrReuse(c, ec)
				break
			}
		}
	case "err":
		f := unquoteGo(cs.FmtQ)
		for _, ec := range c09ErrCases() {
			if ec.f == f && ec.nargs == cs.NArgs {
				c09CheckErr(c, r, ec)
				break
			}
		}
	case "print":
		c09CheckPrint(c, e, r, cs.OFMT)
	}
}

func init() {
	core.Register(&core.Check{
		ID:    "C09",
		Level: "model_checking",
		Rule: "complete product: 13 conversions (d i o x X u c s e E f g G) x all 32 flag subsets (thorough: also spelled in reverse order) x widths (none, literal, * positive/negative/0) " +
			"x precisions (none, '.', literal, .* positive/negative/0) x a fixed table of 64 argument values (integers across the int64 range, out-of-range, fractional, tiny/huge/non-finite floats, " +
			"strings numeric/non-numeric/empty/multi-byte/non-UTF-8, numeric input fields, unset), byte mode for all and character mode for c and s; each result of sprintf (and of the printf statement) " +
			"is compared with C snprintf called with the argument converted the AWK way and the exact C type; plus every pair of conversions in one format (argument routing, %% and literal text), " +
			"%% formats, too-few-argument and unknown-conversion formats (every byte) which must be run-time errors, and print of 65 numbers under 12 OFMT values in default, csv and tsv output mode, and under every ordered pair of different OFMT values assigned one after the other in one run (the first one used by a print and a string conversion). " +
			"a state is one (format specification, mode); a transition one (specification, argument) evaluation; defined_cases counts those under the equality oracle; distinct = distinct produced strings",
		Assumptions: []string{
			"the installed C library's snprintf (glibc, C locale, 64-bit long) is the reference for what C printf produces",
			"excluded from the equality oracle because C leaves them undefined or the statement leaves them open (still run: must not crash or leak a Go '%!' error marker): '#' with d i u c s; '0' with c s; '+'/space with o x X u c s; a precision with c; " +
				"integer conversions of NaN or values outside [-2^63, 2^63); %c of numbers outside 0..255 (byte mode) / non code points (character mode), of \"\" and of an unset value (repo pins \"\\x00\"); %s of strings containing NUL",
			"character mode (Config.Chars): width and precision of %s/%c count characters (as gawk does in a UTF-8 locale); only non-ASCII results are modelled, ASCII ones are compared with C; non-UTF-8 strings are excluded there",
			"%s of a number uses the AWK string form: integral values below 2^63 as %d, others as %.6g (CONVFMT default); for integral values beyond 2^63 both the exact integer and %.6g are accepted; -0 may be \"0\" or \"-0\"",
			"NaN is passed with a clear sign bit only (the sign of a NaN is not determined by AWK semantics)",
			"unknown conversion must be an error for every byte except a A F (C99 conversions goawk may or may not support) and the C length modifiers h l L q j z t; a format ending inside a conversion is left open (error or anything without a Go error marker)",
			"print: integral values with |v| < 2^63 must print as %d, non-integral finite values as OFMT via C; -0, |v| >= 2^63, inf and nan are no-crash only; only floating-point OFMT values are used (POSIX leaves others unspecified)",
			"two conversions in one format are checked compositionally against goawk's own single-conversion results (which are checked against C separately)",
		},
		Run:    c09Run,
		Replay: c09Replay,
	})
}

package checks

import (
	"encoding/json"
	"errors"
	"fmt"
	"io"
	"os"
	"path/filepath"
	"regexp"
	"strings"

	"github.com/benhoyt/goawk/interp"
	"github.com/benhoyt/goawk/parser"
	"github.com/benhoyt/goawk/vexp"

	"verifharness/awk"
	"verifharness/core"
)

// C07 — record reading is lossless and independent of delivery (shape D):
// every input over a small alphabet x every chunking x EOF styles, compared
// with an all-at-once specification splitter, the reconstruction equations
// and differentially across chunkings.

type c07RS struct {
	RS       string
	Alphabet []string // input symbols
	Spec     bool     // oracle (1) applies
	Kind     string   // newline, byte, para, regex
}

func c07Settings() []c07RS {
	return []c07RS{
		{"\n", []string{"a", "\n", "\r"}, true, "newline"},
		{";", []string{"a", ";", "\n"}, true, "byte"},
		{"a", []string{"a", "b", "\n"}, true, "byte"},
		{"\x00", []string{"a", "\x00", "\n"}, true, "byte"},
		{"\xff", []string{"a", "\xff", "\n"}, true, "byte"},
		// a one-byte RS that is not valid UTF-8 among other invalid bytes and multi-byte characters cut by chunk boundaries
		{"\xff", []string{"\xc3", "\xa9", "\xff", "\x80"}, true, "byte"},
		{"\x80", []string{"\xc3", "\x80", "a", "\xef"}, true, "byte"},
		{"", []string{"a", "\n", "b"}, true, "para"},
		{"", []string{"a", "\n", "\r"}, false, "para"},
		{"é", []string{"a", "\xc3", "\xa9"}, true, "regex"},
		{"x+", []string{"a", "x", "\n"}, true, "regex"},
		{"ab|b", []string{"a", "b", "c"}, true, "regex"},
		{"abcd|b", []string{"a", "b", "c", "d"}, true, "regex"},
		{"\n\n+", []string{"a", "\n", "b"}, true, "regex"},
		{"a*b", []string{"a", "b", "c"}, true, "regex"},
		{"[;,]", []string{"a", ";", ","}, true, "regex"},
		{"\r?\n", []string{"a", "\r", "\n"}, true, "regex"},
		{"()", []string{"a", "b"}, false, "regex"},
		{"x*", []string{"a", "x"}, false, "regex"},
	}
}

type c07Case struct {
	RS       string `json:"rs"`
	Input    string `json:"input"`
	Mask     uint64 `json:"mask"`
	EOFStyle int    `json:"eof_style"`
	EmptyAt  int    `json:"empty_at"`
	ErrAt    int    `json:"err_at"`
	Prog     int    `json:"prog"`
	RS2      string `json:"rs2,omitempty"` // prog 5: the RS assigned after record At
	At       int    `json:"at,omitempty"`
	Spec     bool   `json:"spec"`
	Kind     string `json:"kind"`
}

type c07Rec struct {
	NR, FNR int
	Rec, RT string
}

var c07Progs = []string{
	`{ obs(NR, FNR, $0, RT) }`,
	`BEGIN { while ((getline line) > 0) obs(NR, FNR, line, RT) }`,
	`BEGIN { while ((getline) > 0) obs(NR, FNR, $0, RT) }`,
	// command readers: the child's standard output is the chunked reader
	`BEGIN { while (("src" | getline line) > 0) { n++; obs(n, n, line, RT) } }`,
	`BEGIN { while (("src" | getline) > 0) { n++; obs(n, n, $0, RT) } }`,
	// RS assigned in mid-input (after record number `at`)
	`{ obs(NR, FNR, $0, RT) } NR == at { RS = rs2 }`,
	// file readers (reader hook of the overlay: the scanner built on the opened file reads the chosen chunks)
	`BEGIN { while ((getline line < file) > 0) { n++; obs(n, n, line, RT) } }`,
	`BEGIN { while ((getline < file) > 0) { n++; obs(n, n, $0, RT) } }`,
	`{ obs(NR, FNR, $0, RT) }`, // the file is the operand
}

// c07FileProgs: programs 6..8 read a named file.
func c07FileProg(p int) bool { return p >= 6 && p <= 8 }

// c07World hands the chunked reader to the interpreter as the standard output
// pipe of every command it starts.
type c07World struct{ rd io.Reader }

func (w *c07World) StdinPipe(c *vexp.Cmd) (io.WriteCloser, error) { return nil, errors.New("no stdin") }
func (w *c07World) StdoutPipe(c *vexp.Cmd) (io.ReadCloser, error) { return io.NopCloser(w.rd), nil }
func (w *c07World) Start(c *vexp.Cmd) error                       { return nil }
func (w *c07World) Wait(c *vexp.Cmd) error                        { return nil }

type c07Runner struct {
	file  string // an existing (empty) file: what is read from it is decided by the reader hook
	progs []*parser.Program
	recs  []c07Rec
	funcs map[string]any
}

func newC07Runner() *c07Runner {
	r := &c07Runner{}
	r.funcs = map[string]any{"obs": func(nr, fnr int, rec, rt string) { r.recs = append(r.recs, c07Rec{nr, fnr, rec, rt}) }}
	for _, src := range c07Progs {
		r.progs = append(r.progs, awk.MustParse(src, r.funcs))
	}
	return r
}

func (r *c07Runner) cleanup() {
	if r.file != "" {
		os.Remove(r.file)
	}
}

var errBoom = errors.New("injected read error")

func (r *c07Runner) run(cs c07Case) ([]c07Rec, awk.Result) {
	r.recs = nil
	rd := awk.NewChunkReader([]byte(cs.Input), cs.Mask, cs.EOFStyle)
	rd.EmptyAt = cs.EmptyAt
	rd.ErrAt = cs.ErrAt
	rd.Err = errBoom
	cfg := &interp.Config{Stdin: rd, Vars: []string{"RS", cs.RS}, Funcs: r.funcs}
	if cs.Prog == 5 {
		cfg.Vars = append(cfg.Vars, "rs2", cs.RS2, "at", fmt.Sprint(cs.At))
	}
	if cs.Prog == 3 || cs.Prog == 4 {
		cfg.Stdin = strings.NewReader("")
		vexp.SetWorld(&vexp.World{Impl: &c07World{rd}})
		defer vexp.SetWorld(nil)
	}
	if c07FileProg(cs.Prog) {
		if r.file == "" {
			r.file = filepath.Join(core.VerifDir, "work", fmt.Sprintf("c07-file-%d", os.Getpid()))
			if err := os.WriteFile(r.file, nil, 0o644); err != nil {
				panic(err)
			}
		}
		cfg.Stdin = strings.NewReader("")
		cfg.Vars = append(cfg.Vars, "file", r.file)
		if cs.Prog == 8 {
			cfg.Args = []string{r.file}
		}
		wrapped := 0
		vexp.SetReaderFn(func(under io.Reader) io.Reader {
			if _, ok := under.(*strings.Reader); ok {
				return under
			}
			wrapped++
			return rd
		})
		defer func() {
			vexp.SetReaderFn(nil)
			if wrapped != 1 {
				panic(fmt.Sprintf("C07 harness: %d file scanners were built for one file program (reader hook not in place?)", wrapped))
			}
		}()
	}
	res := awk.Exec(r.progs[cs.Prog], cfg)
	out := r.recs
	r.recs = nil
	return out, res
}

// c07Spec is the all-at-once splitter written from the property statement.
func c07Spec(kind, rs, in string) (recs, rts []string, haveRT bool) {
	switch kind {
	case "newline":
		if in == "" {
			return nil, nil, false
		}
		parts := strings.Split(in, "\n")
		if parts[len(parts)-1] == "" {
			parts = parts[:len(parts)-1]
		}
		for _, p := range parts {
			recs = append(recs, strings.TrimSuffix(p, "\r"))
		}
		return recs, nil, false
	case "byte":
		if in == "" {
			return nil, nil, false
		}
		parts := strings.Split(in, rs)
		if parts[len(parts)-1] == "" {
			parts = parts[:len(parts)-1]
		}
		return parts, nil, false
	case "para":
		s := strings.TrimLeft(in, "\n")
		s = strings.TrimRight(s, "\n")
		if s == "" {
			return nil, nil, false
		}
		re := regexp.MustCompile("\n\n+")
		return re.Split(s, -1), nil, false
	default: // regex
		var re *regexp.Regexp
		if len([]rune(rs)) == 1 {
			re = regexp.MustCompile(regexp.QuoteMeta(rs))
		} else {
			re = regexp.MustCompile("(?s:" + rs + ")")
		}
		re.Longest()
		rest := in
		for rest != "" {
			loc := re.FindStringIndex(rest)
			if loc == nil || loc[0] == loc[1] {
				recs = append(recs, rest)
				rts = append(rts, "")
				break
			}
			recs = append(recs, rest[:loc[0]])
			rts = append(rts, rest[loc[0]:loc[1]])
			rest = rest[loc[1]:]
		}
		return recs, rts, true
	}
}

func c07Fmt(recs []c07Rec) string {
	var b strings.Builder
	for _, r := range recs {
		fmt.Fprintf(&b, "%d/%d %q RT=%q; ", r.NR, r.FNR, r.Rec, r.RT)
	}
	return b.String()
}

// c07Check evaluates one case; ref is the observation of the unchunked
// delivery of the same input ("" if this is it). Returns the observation.
func c07Check(c *core.Ctx, r *c07Runner, cs c07Case, ref *string) {
	recs, res := r.run(cs)
	c.Eval(1)
	obs := c07Fmt(recs)
	sigBase := fmt.Sprintf("rs=%q", cs.RS)
	if cs.Prog == 5 {
		sigBase = fmt.Sprintf("rs=%q->%q", cs.RS, cs.RS2)
	}
	if res.Panic != "" {
		c.Fail("panic "+sigBase, cs, "panic: "+firstLine(res.Panic))
		return
	}
	if cs.ErrAt >= 0 {
		// injected read error: the run must fail (not end as if at EOF)
		if res.Err == nil {
			c.Fail("read-error-swallowed "+sigBase, cs, "no error; records: "+obs)
		}
		c.Outcome("err")
		return
	}
	if res.Err != nil {
		c.Fail("unexpected-error "+sigBase, cs, res.Err.Error())
		return
	}
	c.Outcome(obs)
	// NR / FNR count records
	for i, rc := range recs {
		if rc.NR != i+1 || rc.FNR != i+1 {
			c.Fail("nr-fnr "+sigBase, cs, obs)
			return
		}
	}
	// (1') RS changed in mid-input from a regex to a single character: the first
	// `at` records follow the old RS, the rest of the input is split at the new
	// character taken literally (whatever it means in a regular expression)
	if cs.Prog == 5 && cs.Spec {
		r1, t1, _ := c07Spec("regex", cs.RS, cs.Input)
		var want []c07Rec
		consumed := 0
		for i := 0; i < len(r1) && i < cs.At; i++ {
			want = append(want, c07Rec{i + 1, i + 1, r1[i], t1[i]})
			consumed += len(r1[i]) + len(t1[i])
		}
		if len(r1) >= cs.At {
			var r2, t2 []string
			if len(cs.RS2) == 1 {
				// one byte, taken literally (it need not be valid UTF-8)
				rest := cs.Input[consumed:]
				for rest != "" {
					k := strings.Index(rest, cs.RS2)
					if k < 0 {
						r2, t2 = append(r2, rest), append(t2, "")
						break
					}
					r2, t2 = append(r2, rest[:k]), append(t2, cs.RS2)
					rest = rest[k+1:]
				}
			} else {
				r2, t2, _ = c07Spec("regex", cs.RS2, cs.Input[consumed:])
			}
			for i := range r2 {
				want = append(want, c07Rec{len(want) + 1, len(want) + 1, r2[i], t2[i]})
			}
		}
		if w := c07Fmt(want); w != obs {
			c.Fail("spec-after-rs-change "+sigBase, cs, "got "+obs+" want "+w)
			return
		}
	}
	// (1) specification splitter
	if cs.Spec && cs.Prog != 5 {
		want, wantRT, haveRT := c07Spec(cs.Kind, cs.RS, cs.Input)
		bad := len(want) != len(recs)
		if !bad {
			for i := range want {
				if want[i] != recs[i].Rec || (haveRT && wantRT[i] != recs[i].RT) {
					bad = true
				}
			}
		}
		if bad {
			var w strings.Builder
			for i := range want {
				rt := "?"
				if haveRT {
					rt = wantRT[i]
				}
				fmt.Fprintf(&w, "%q RT=%q; ", want[i], rt)
			}
			c.Fail("spec "+sigBase, cs, "got "+obs+" want "+w.String())
			return
		}
	}
	// (2) reconstruction equations
	kind := cs.Kind
	if cs.Prog == 5 {
		kind = "" // two separators in one input: only the differential oracle applies
	}
	switch kind {
	case "regex":
		var b strings.Builder
		for _, rc := range recs {
			b.WriteString(rc.Rec)
			b.WriteString(rc.RT)
		}
		if b.String() != cs.Input {
			c.Fail("reconstruct "+sigBase, cs, obs)
			return
		}
	case "byte":
		var parts []string
		for _, rc := range recs {
			parts = append(parts, rc.Rec)
		}
		j := strings.Join(parts, cs.RS)
		if j != cs.Input && j+cs.RS != cs.Input {
			c.Fail("reconstruct "+sigBase, cs, obs)
			return
		}
	}
	// (3) differential across deliveries
	if ref != nil {
		if *ref == "\x00unset" {
			*ref = obs
		} else if *ref != obs {
			c.Fail("chunking-dependent "+sigBase, cs, "chunked: "+obs+" whole: "+*ref)
		}
	}
}

func firstLine(s string) string {
	if i := strings.IndexByte(s, '\n'); i >= 0 {
		return s[:i]
	}
	return s
}

func enumStrings(alpha []string, n int, f func(s string)) {
	if n == 0 {
		f("")
		return
	}
	idx := make([]int, n)
	var b strings.Builder
	for {
		b.Reset()
		for _, i := range idx {
			b.WriteString(alpha[i])
		}
		f(b.String())
		k := n - 1
		for k >= 0 {
			idx[k]++
			if idx[k] < len(alpha) {
				break
			}
			idx[k] = 0
			k--
		}
		if k < 0 {
			return
		}
	}
}

func c07Run(c *core.Ctx) {
	r := newC07Runner()
	defer r.cleanup()
	maxLen := 6
	if c.Thorough() {
		maxLen = 8
	}
	for _, st := range c07Settings() {
		ml := maxLen
		if len(st.Alphabet) >= 4 {
			ml--
		}
		for n := 0; n <= ml; n++ {
			enumStrings(st.Alphabet, n, func(in string) {
				if !c.Mine() || c.Expired() {
					return
				}
				c.Add("states", 1) // one state = one (RS, input)
				ref := "\x00unset"
				nb := len(in)
				nmasks := uint64(1)
				if nb > 1 {
					nmasks = 1 << uint(nb-1)
				}
				for mask := uint64(0); mask < nmasks; mask++ {
					for eof := 0; eof < 2; eof++ {
						cs := c07Case{RS: st.RS, Input: in, Mask: mask, EOFStyle: eof, EmptyAt: -1, ErrAt: -1, Spec: st.Spec, Kind: st.Kind}
						c07Check(c, r, cs, &ref)
						c.Add("transitions", 1)
					}
				}
				if n >= 1 && n <= 4 {
					// other reading paths (getline var / getline), one empty read and one read error at every position
					for _, prog := range []int{1, 2, 3, 4, 6, 7, 8} {
						for mask := uint64(0); mask < nmasks; mask++ {
							cs := c07Case{RS: st.RS, Input: in, Mask: mask, EOFStyle: 0, EmptyAt: -1, ErrAt: -1, Prog: prog, Spec: st.Spec, Kind: st.Kind}
							c07Check(c, r, cs, &ref)
							c.Add("transitions", 1)
						}
					}
					nchunks := nb // 1-byte delivery
					full := nmasks - 1
					for at := 0; at <= nchunks; at++ {
						cs := c07Case{RS: st.RS, Input: in, Mask: full, EOFStyle: 0, EmptyAt: at, ErrAt: -1, Spec: st.Spec, Kind: st.Kind}
						c07Check(c, r, cs, &ref)
						cs = c07Case{RS: st.RS, Input: in, Mask: full, EOFStyle: 0, EmptyAt: -1, ErrAt: at, Spec: st.Spec, Kind: st.Kind}
						c07Check(c, r, cs, nil)
						c.Add("transitions", 2)
					}
				}
				if c.Shard == 0 {
					c.Sample(map[string]any{"rs": st.RS, "input": in, "chunkings": nmasks, "records": ref})
				}
			})
		}
	}
	c07Changes(c, r, maxLen)
	c07Long(c, r)
}

// c07Changes: RS is assigned by the program after record 1 or 2. What the
// records then are is fixed by the input and the program alone (the splitter
// is asked for one record at a time), so every chunking must give the records
// of the unchunked delivery. Pairs cover literal -> growable regex, regex ->
// regex, and the splitter kinds that are fixed when the input is opened.
func c07Changes(c *core.Ctx, r *c07Runner, maxLen int) {
	type pair struct {
		rs1, rs2 string
		alpha    []string
	}
	pairs := []pair{
		{"ab", "\n+", []string{"a", "b", "\n", "y"}},
		{"ab", "b+", []string{"a", "b", "y"}},
		{"é", "x+", []string{"\xc3", "\xa9", "x", "y"}},
		{"x+", "\n\n+", []string{"x", "\n", "y"}},
		{"\n+", "ab", []string{"a", "b", "\n"}},
		{"a*b", "[;,]+", []string{"a", "b", ";", ","}},
		{"[;,]", "\r?\n", []string{";", "\r", "\n", "y"}},
		{"\n", "x+", []string{"x", "\n", "y"}},
		{";", "x+", []string{"x", ";", "y"}},
		{"", "x+", []string{"x", "\n", "y"}},
		{"x+", "", []string{"x", "\n", "y"}},
		{"x+", "\n", []string{"x", "\n", "y"}},
	}
	// regex -> single character that is a regex metacharacter (spec oracle)
	for _, rs1 := range []string{"x+", "ab"} {
		for _, rs2 := range []string{"|", ".", "+", "$", "*", "(", "[", "\\", "^", "?", ";", "\xff", "\x80"} {
			alpha := []string{"x", rs2, "y"}
			if rs1 == "ab" {
				alpha = []string{"a", "b", rs2}
			}
			for n := 2; n <= 5; n++ {
				enumStrings(alpha, n, func(in string) {
					if !c.Mine() || c.Expired() {
						return
					}
					c.Add("states", 1)
					for at := 1; at <= 2; at++ {
						ref := "\x00unset"
						for _, mask := range []uint64{0, (uint64(1) << uint(len(in)-1)) - 1} {
							// a byte that is not valid UTF-8 cannot be expressed as a regex: what an
							// already active regex reader then does is not specified here (the code
							// keeps its previous separator); no panic and delivery independence only
							cs := c07Case{RS: rs1, RS2: rs2, At: at, Input: in, Mask: mask, EmptyAt: -1, ErrAt: -1, Prog: 5, Kind: "change", Spec: rs2[0] < 0x80}
							c07Check(c, r, cs, &ref)
							c.Add("transitions", 1)
						}
					}
				})
			}
		}
	}
	ml := maxLen - 1
	if ml > 6 {
		ml = 6
	}
	for _, p := range pairs {
		for n := 2; n <= ml; n++ {
			enumStrings(p.alpha, n, func(in string) {
				if !c.Mine() || c.Expired() {
					return
				}
				c.Add("states", 1)
				nmasks := uint64(1) << uint(len(in)-1)
				for at := 1; at <= 2; at++ {
					ref := "\x00unset"
					for mask := uint64(0); mask < nmasks; mask++ {
						cs := c07Case{RS: p.rs1, RS2: p.rs2, At: at, Input: in, Mask: mask, EOFStyle: int(mask & 1), EmptyAt: -1, ErrAt: -1, Prog: 5, Kind: "change"}
						c07Check(c, r, cs, &ref)
						c.Add("transitions", 1)
					}
				}
			})
		}
	}
}

// c07Long: longer inputs — every single split point and 1-byte delivery; and
// separators straddling the 64 KiB scanner buffer.
func c07Long(c *core.Ctx, r *c07Runner) {
	for _, st := range c07Settings() {
		if !st.Spec {
			continue
		}
		// deterministic 40..200-byte inputs built from the alphabet by a fixed LCG (enumeration, not sampling: fixed list)
		nInputs := 6
		if c.Thorough() {
			nInputs = 40
		}
		seed := uint32(12345)
		for k := 0; k < nInputs; k++ {
			var b strings.Builder
			ln := 40 + (k*37)%160
			for i := 0; i < ln; i++ {
				seed = seed*1664525 + 1013904223
				b.WriteString(st.Alphabet[(seed>>16)%uint32(len(st.Alphabet))])
			}
			in := b.String()
			if !c.Mine() {
				continue
			}
			c.Add("states", 1)
			ref := "\x00unset"
			// whole, then every single split point (bytes chunked directly; masks are limited to 64 bits)
			c07CheckChunks(c, r, st, in, nil, &ref)
			for sp := 1; sp < len(in); sp++ {
				c07CheckChunks(c, r, st, in, []int{sp}, &ref)
			}
			all := make([]int, 0, len(in))
			for sp := 1; sp < len(in); sp++ {
				all = append(all, sp)
			}
			c07CheckChunks(c, r, st, in, all, &ref)
		}
		// 64 KiB buffer edge
		seps := map[string][]string{"\n": {"\n", "\r\n"}, ";": {";"}, "a": {"a"}, "\x00": {"\x00"}, "\xff": {"\xff"}, "": {"\n\n", "\n\n\n"},
			"é": {"é"}, "x+": {"x", "xx", "xxx"}, "ab|b": {"ab", "b"}, "abcd|b": {"abcd"}, "\n\n+": {"\n\n", "\n\n\n"}, "a*b": {"aab", "b"}, "[;,]": {";"}, "\r?\n": {"\r\n"}}
		pay := "q"
		if st.RS == "a" {
			pay = "b"
		}
		for _, sep := range seps[st.RS] {
			for d := -3; d <= 3; d++ {
				if !c.Mine() {
					continue
				}
				for _, size := range []int{65536, 131072} {
					in := strings.Repeat(pay, size+d-1) + sep + pay + pay + sep + pay
					ref := "\x00unset"
					c07CheckChunks(c, r, st, in, nil, &ref)
					c.Add("states", 1)
				}
			}
		}
	}
}

type c07LongCase struct {
	RS     string `json:"rs"`
	Kind   string `json:"kind"`
	Input  string `json:"input,omitempty"`
	Gen    string `json:"gen,omitempty"`
	Splits []int  `json:"splits"`
	Long   bool   `json:"long"`
}

func c07CheckChunks(c *core.Ctx, r *c07Runner, st c07RS, in string, splits []int, ref *string) {
	c.Add("transitions", 1)
	c.Eval(1)
	var chunks [][]byte
	prev := 0
	for _, sp := range splits {
		chunks = append(chunks, []byte(in[prev:sp]))
		prev = sp
	}
	chunks = append(chunks, []byte(in[prev:]))
	rd := &awk.ChunkReader{Chunks: chunks, EmptyAt: -1, ErrAt: -1}
	r.recs = nil
	res := awk.Exec(r.progs[0], &interp.Config{Stdin: rd, Vars: []string{"RS", st.RS}, Funcs: r.funcs})
	recs := r.recs
	r.recs = nil
	cs := c07LongCase{RS: st.RS, Kind: st.Kind, Splits: splits, Long: true}
	if len(in) <= 400 {
		cs.Input = in
	} else {
		// compress: run-length description
		cs.Gen = rle(in)
	}
	if len(splits) > 3 {
		cs.Splits = []int{-1} // -1 = every byte
	}
	sig := fmt.Sprintf("rs=%q", st.RS)
	if res.Panic != "" || res.Err != nil {
		c.Fail("long-error "+sig, cs, res.ErrString())
		return
	}
	want, wantRT, haveRT := c07Spec(st.Kind, st.RS, in)
	bad := len(want) != len(recs)
	if !bad {
		for i := range want {
			if want[i] != recs[i].Rec || (haveRT && wantRT[i] != recs[i].RT) || recs[i].NR != i+1 {
				bad = true
			}
		}
	}
	obs := c07FmtShort(recs)
	c.Outcome(obs)
	if bad {
		c.Fail("long-spec "+sig, cs, fmt.Sprintf("got %d records %s, want %d", len(recs), obs, len(want)))
		return
	}
	if *ref == "\x00unset" {
		*ref = obs
	} else if *ref != obs {
		c.Fail("long-chunking-dependent "+sig, cs, obs)
	}
}

func c07FmtShort(recs []c07Rec) string {
	var b strings.Builder
	for i, r := range recs {
		if i > 12 {
			fmt.Fprintf(&b, "…(%d more)", len(recs)-i)
			break
		}
		fmt.Fprintf(&b, "%d:len%d:%q RT=%q; ", r.NR, len(r.Rec), trunc(r.Rec, 12), r.RT)
	}
	return b.String()
}

func trunc(s string, n int) string {
	if len(s) > n {
		return s[:n/2] + "…" + s[len(s)-n/2:]
	}
	return s
}

func rle(s string) string {
	var parts []string
	for i := 0; i < len(s); {
		j := i
		for j < len(s) && s[j] == s[i] {
			j++
		}
		parts = append(parts, fmt.Sprintf("%q*%d", s[i:i+1], j-i))
		i = j
	}
	return strings.Join(parts, " ")
}

func unrle(g string) string {
	var b strings.Builder
	for _, p := range strings.Split(g, " ") {
		var q string
		var n int
		i := strings.LastIndexByte(p, '*')
		fmt.Sscanf(p[i+1:], "%d", &n)
		json.Unmarshal([]byte(p[:i]), &q)
		if q == "" {
			// %q may produce escapes JSON does not know (\x..); use strconv
			q = unquoteGo(p[:i])
		}
		b.WriteString(strings.Repeat(q, n))
	}
	return b.String()
}

func c07Replay(c *core.Ctx, raw json.RawMessage) {
	r := newC07Runner()
	defer r.cleanup()
	var probe struct {
		Long bool `json:"long"`
	}
	json.Unmarshal(raw, &probe)
	if probe.Long {
		var cs c07LongCase
		json.Unmarshal(raw, &cs)
		in := cs.Input
		if cs.Gen != "" {
			in = unrle(cs.Gen)
		}
		splits := cs.Splits
		if len(splits) == 1 && splits[0] == -1 {
			splits = nil
			for sp := 1; sp < len(in); sp++ {
				splits = append(splits, sp)
			}
		}
		ref := "\x00unset"
		st := c07RS{RS: cs.RS, Kind: cs.Kind, Spec: true}
		c07CheckChunks(c, r, st, in, nil, &ref)
		if len(splits) > 0 {
			c07CheckChunks(c, r, st, in, splits, &ref)
		}
		return
	}
	var cs c07Case
	if err := json.Unmarshal(raw, &cs); err != nil {
		panic(err)
	}
	ref := "\x00unset"
	whole := cs
	whole.Mask, whole.EmptyAt, whole.ErrAt, whole.Prog = 0, -1, -1, 0
	if cs.ErrAt < 0 {
		c07Check(c, r, whole, &ref)
		c07Check(c, r, cs, &ref)
	} else {
		c07Check(c, r, cs, nil)
	}
}

func init() {
	core.Register(&core.Check{
		ID:    "C07",
		Level: "model_checking",
		Rule: "deviation-bounded environment exploration: every input string up to the length bound over a per-RS alphabet x every chunking (2^(n-1)) x 2 EOF styles, " +
			"plus RS assigned by the program after record 1 or 2 (12 pairs of old/new RS, every chunking, differential oracle; and regex -> each of 13 single characters incl. every regex metacharacter and two bytes that are not valid UTF-8, specification oracle), getline / getline var on stdin, cmd | getline / cmd | getline var on a command's output pipe, and getline var < file / getline < file / a file operand read by the main loop through the overlay's reader hook (inputs up to 4 symbols, every chunking), one empty read / one read error at every position, single split points of longer inputs and 64KiB buffer-edge inputs; " +
			"a state is one (RS,input), a transition one delivery; distinct = distinct observed record sequences",
		Assumptions: []string{
			"bufio.Scanner depends only on the sequence of (n, err) results of Read, so enumerating chunk sequences enumerates pipe timings",
			"oracle (1) (spec splitter) only where the statement fixes the answer: regexes that cannot match empty; RS=\"\" over {payload, newline}",
			"Go regexp (leftmost-longest) is a trusted leaf of the specification splitter",
			"for getline < file and file operands the scanner is built on the harness's chunked reader in place of the opened (empty) file, through the reader hook the overlay puts around every bufio.NewScanner argument in package interp",
		},
		Run:    c07Run,
		Replay: c07Replay,
	})
}

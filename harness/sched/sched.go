// Package sched: cooperative scheduler (E2) and deviation-bounded choice
// explorer (E1). Managed goroutines run one at a time; every scheduling point
// and every environment answer is a choice taken from a Chooser, which replays
// a prefix and then takes choice 0. Explore enumerates all executions within a
// deviation bound (CHESS-style iterative context bounding).
package sched

import (
	"fmt"
	"runtime/debug"
)

// ---------------------------------------------------------------- chooser

type Point struct {
	N       int  // number of alternatives
	AltCost int  // cost of taking an alternative >= 1 (0 = free switch)
	Kind    byte // 't' thread, 'e' environment
	Choice  int
}

type Chooser struct {
	prefix []int
	Points []Point
	Err    error
}

func NewChooser(prefix []int) *Chooser { return &Chooser{prefix: prefix} }

// Choose returns the alternative taken at this point: the replayed prefix
// choice, else 0. n must be >= 1; with n == 1 no point is recorded.
func (c *Chooser) Choose(n int, altCost int, kind byte) int {
	if n <= 1 {
		return 0
	}
	i := len(c.Points)
	ch := 0
	if i < len(c.prefix) {
		ch = c.prefix[i]
		if ch >= n {
			// divergence while replaying a prefix: hard error (nondeterminism not owned)
			if c.Err == nil {
				c.Err = fmt.Errorf("replay divergence at point %d: choice %d of %d", i, ch, n)
			}
			ch = 0
		}
	}
	c.Points = append(c.Points, Point{N: n, AltCost: altCost, Kind: kind, Choice: ch})
	return ch
}

func (c *Chooser) Choices() []int {
	out := make([]int, len(c.Points))
	for i, p := range c.Points {
		out[i] = p.Choice
	}
	return out
}

// ExploreStats reports what an exploration covered.
type ExploreStats struct {
	Executions  int64
	Points      int64
	MaxPoints   int
	Bound       int
	Capped      bool
	ReplayError error
}

// Explore runs run(chooser) for every choice sequence with total deviation
// cost <= bound. run must be deterministic given the choices. stop() is polled
// between executions; maxExec caps the number of executions (0 = none).
func Explore(bound int, maxExec int64, stop func() bool, run func(c *Chooser)) ExploreStats {
	st := ExploreStats{Bound: bound}
	var rec func(prefix []int, cost int)
	rec = func(prefix []int, cost int) {
		if st.Capped || st.ReplayError != nil {
			return
		}
		if (maxExec > 0 && st.Executions >= maxExec) || (stop != nil && stop()) {
			st.Capped = true
			return
		}
		c := NewChooser(prefix)
		run(c)
		st.Executions++
		st.Points += int64(len(c.Points))
		if len(c.Points) > st.MaxPoints {
			st.MaxPoints = len(c.Points)
		}
		if c.Err != nil {
			st.ReplayError = c.Err
			return
		}
		if len(c.Points) < len(prefix) {
			st.ReplayError = fmt.Errorf("replay divergence: execution has %d points, prefix %d", len(c.Points), len(prefix))
			return
		}
		choices := c.Choices()
		for i := len(prefix); i < len(c.Points); i++ {
			p := c.Points[i]
			nc := cost + p.AltCost
			if nc > bound {
				continue
			}
			for alt := 1; alt < p.N; alt++ {
				np := append(append([]int{}, choices[:i]...), alt)
				rec(np, nc)
			}
		}
	}
	rec(nil, 0)
	return st
}

// ---------------------------------------------------------------- scheduler

type thread struct {
	id       int
	name     string
	wake     chan bool // true = abort
	blocked  func() bool
	finished bool
	started  bool
	fn       func()
	panicVal any
	panicStk string
}

type abortSignal struct{}

// Sched runs managed goroutines one at a time.
type Sched struct {
	ch       *Chooser
	threads  []*thread
	current  *thread
	parked   chan *thread
	Deadlock bool
	Horizon  int // max scheduling points (0 = 100000)
	points   int
	Overrun  bool
	aborted  bool
	Panics   []string
	// NoPreempt: if true, Yield never switches away from a runnable thread (free-run order)
	NoPreempt bool
	// FreeSwitch: alternatives at a point where the running thread is not enabled cost nothing
	FreeSwitch bool
}

func New(ch *Chooser) *Sched {
	return &Sched{ch: ch, parked: make(chan *thread)}
}

// Chooser returns the chooser (for environment choices made by harness code).
func (s *Sched) Chooser() *Chooser { return s.ch }

// Spawn registers a new managed thread; it starts running when first scheduled.
func (s *Sched) Spawn(name string, fn func()) int {
	t := &thread{id: len(s.threads), name: name, wake: make(chan bool), fn: fn}
	s.threads = append(s.threads, t)
	return t.id
}

func (s *Sched) CurrentID() int {
	if s.current == nil {
		return -1
	}
	return s.current.id
}

func (s *Sched) CurrentName() string {
	if s.current == nil {
		return "?"
	}
	return s.current.name
}

func (s *Sched) start(t *thread) {
	t.started = true
	go func() {
		abort := <-t.wake
		defer func() {
			if r := recover(); r != nil {
				if _, ok := r.(abortSignal); !ok {
					t.panicVal = r
					t.panicStk = string(debug.Stack())
				}
			}
			t.finished = true
			s.parked <- t
		}()
		if abort {
			return
		}
		t.fn()
	}()
}

func (s *Sched) enabled() []*thread {
	var out []*thread
	// canonical order: running thread first if still enabled, then ascending ids
	if s.current != nil && !s.current.finished && (s.current.blocked == nil || s.current.blocked()) {
		out = append(out, s.current)
	}
	for _, t := range s.threads {
		if t == s.current || t.finished {
			continue
		}
		if t.blocked == nil || t.blocked() {
			out = append(out, t)
		}
	}
	return out
}

// Run schedules threads until all have finished (or deadlock / horizon).
func (s *Sched) Run() {
	for {
		en := s.enabled()
		if len(en) == 0 {
			unfinished := false
			for _, t := range s.threads {
				if !t.finished {
					unfinished = true
				}
			}
			if unfinished {
				s.Deadlock = true
				s.abortAll()
			}
			return
		}
		s.points++
		hz := s.Horizon
		if hz == 0 {
			hz = 100000
		}
		if s.points > hz {
			s.Overrun = true
			s.abortAll()
			return
		}
		runningEnabled := s.current != nil && en[0] == s.current
		// Every departure from the default scheduler (keep running the current
		// thread; when it blocks or ends, continue with the lowest-numbered
		// enabled thread) costs one deviation: a preemption, or a non-default
		// pick at a blocking point. FreeSwitch restores CHESS's pure preemption
		// count (non-default picks at blocking points are free).
		cost := 1
		if !runningEnabled && s.FreeSwitch {
			cost = 0
		}
		var idx int
		if s.NoPreempt && runningEnabled {
			idx = 0
		} else {
			idx = s.ch.Choose(len(en), cost, 't')
		}
		t := en[idx]
		s.current = t
		t.blocked = nil
		if !t.started {
			s.start(t)
		}
		t.wake <- false
		p := <-s.parked
		if p.finished && p.panicVal != nil {
			s.Panics = append(s.Panics, fmt.Sprintf("thread %s: %v\n%s", p.name, p.panicVal, p.panicStk))
		}
	}
}

func (s *Sched) abortAll() {
	s.aborted = true
	for _, t := range s.threads {
		if t.finished {
			continue
		}
		if !t.started {
			t.finished = true
			continue
		}
		s.current = t
		t.wake <- true
		<-s.parked
		// a thread may park again during unwinding (deferred code calling Yield): Yield is a no-op after abort
	}
}

func (s *Sched) park(t *thread) {
	s.parked <- t
	if abort := <-t.wake; abort {
		panic(abortSignal{})
	}
}

// Aborted reports whether the execution is being torn down (deadlock/horizon).
func (s *Sched) Aborted() bool { return s.aborted }

// Yield is a scheduling point: the current thread stays enabled.
func (s *Sched) Yield() {
	if s.aborted || s.current == nil {
		return
	}
	s.park(s.current)
}

// Block parks the current thread until cond() holds (evaluated by the scheduler).
// It is also a scheduling point even if cond already holds.
func (s *Sched) Block(cond func() bool) {
	if s.aborted || s.current == nil {
		return
	}
	t := s.current
	t.blocked = cond
	s.park(t)
}

// Package progenum enumerates AWK programs by feature product (an odometer
// over small alphabets, simplest first). See DESIGN.md E5 / §5 C01.
package progenum

import (
	"fmt"
	"strings"
)

// Case is one generated program. Programs with the same non-empty Group are
// semantically equivalent spellings and must produce identical observations.
type Case struct {
	Family string
	Name   string
	Src    string
	Group  string
}

const dumpFuncs = `
function dump(tag) {
  printf "%s: x=<%s> y=<%s> i=<%s> u=<%s> r=<%s> NR=%s NF=%s OFS=<%s> $0=<%s> $1=<%s> $2=<%s> $3=<%s> $4=<%s>", tag, x, y, i, u, r, NR, NF, OFS, $0, $1, $2, $3, $4
  printf " a[q]=%s a[1]=%s a[2,3]=%s a[new]=%s len=%d\n", (("q" in a) ? a["q"] : "-"), ((1 in a) ? a[1] : "-"), (((2,3) in a) ? a[2,3] : "-"), (("new" in a) ? a["new"] : "-"), length(a)
}
`

const initStmts = `x = 4; i = 2; j = 3; k = "q"; a["q"] = 5; a[1] = 7; a[2,3] = 9`

// Lvalues available in global scopes.
var GlobalLvalues = []string{"x", "u", "NR", "NF", "OFS", "$0", "$2", "$i", "$(i+1)", "$NF", "$(-1)", "$(NF+2)", `a[k]`, "a[1]", "a[i,j]", `a["new"]`}

// additional lvalues inside a function f(p, la)
var FuncLvalues = []string{"p", "la[k]", "la[1]", "x", "$2", "a[k]", "NF"}

var rhsExprs = []string{"1", "2.5", `"s"`, `"3x"`, "$1", "u2", "x + 1", "$1 $2", "0", "-1"}

var augOps = []string{"+=", "-=", "*=", "/=", "%=", "^="}

type stmtVariant struct {
	form string // stmt, grouped, value, print, cond
	text string
}

func formsOf(core string) []stmtVariant {
	return []stmtVariant{
		{"stmt", core},
		{"grouped", "(" + core + ")"},
		{"value", "y = (" + core + ")"},
		{"print", "print (" + core + ")"},
		{"cond", `if (` + core + `) y = "T"; else y = "F"`},
	}
}

func wrapScope(scope, stmt string) string {
	switch scope {
	case "BEGIN":
		return "BEGIN { " + initStmts + "; " + stmt + "; dump(\"B\") }" + dumpFuncs
	case "RULE":
		return "{ " + initStmts + "; " + stmt + "; dump(\"R\") }" + dumpFuncs
	case "END":
		return "END { " + initStmts + "; " + stmt + "; dump(\"E\") }" + dumpFuncs
	case "FUNC":
		return "function f(p, la) { la[k] = 3; la[1] = 4; " + stmt + `; printf "f: p=<%s> la[k]=%s la[1]=%s lenla=%d\n", p, ((k in la) ? la[k] : "-"), ((1 in la) ? la[1] : "-"), length(la); return p }` +
			"\n{ " + initStmts + "; y = f(7); dump(\"F\") }" + dumpFuncs
	}
	panic("scope")
}

// lvalueStatements enumerates every (lvalue, operation, rhs) statement core with a group key.
func lvalueStatements(lvs []string, f func(core, group string)) {
	for _, l := range lvs {
		for _, e := range rhsExprs {
			f(l+" = "+e, "")
			for _, op := range augOps {
				g := ""
				if e == "1" && (op == "+=" || op == "-=") {
					g = "incr:" + l + op
				}
				f(l+" "+op+" "+e, g)
			}
		}
		f(l+"++", "incr:"+l+"+=")
		f("++"+l, "incr:"+l+"+=")
		f(l+"--", "incr:"+l+"-=")
		f("--"+l, "incr:"+l+"-=")
	}
}

// EnumLvalue: family 1 — every lvalue kind x operation x rhs x form x scope.
func EnumLvalue(thorough bool, f func(Case)) {
	scopes := []string{"RULE", "BEGIN", "END", "FUNC"}
	for _, scope := range scopes {
		lvs := GlobalLvalues
		if scope == "FUNC" {
			lvs = FuncLvalues
		}
		lvalueStatements(lvs, func(core, group string) {
			for _, v := range formsOf(core) {
				g := ""
				switch v.form {
				case "stmt", "grouped":
					// statement-position shortcut vs generic expression path
					g = scope + "|" + core
					if group != "" {
						g = scope + "|" + group
					}
				}
				if v.form != "stmt" && v.form != "grouped" && group != "" && !strings.Contains(core, "=") {
					// post/pre forms differ in value; no group outside statement position
				}
				f(Case{Family: "lvalue", Name: scope + "/" + v.form + "/" + core, Src: wrapScope(scope, v.text), Group: g})
			}
		})
	}
}

// ---- conditions ---------------------------------------------------------

var condOperands = []string{"1", "2", `"a"`, `"10"`, "$1", "$2", "$3", "u", "x", "nan", `""`, "a[1]", "2.5", `"abc"`}
var cmpOps = []string{"<", "<=", "==", "!=", ">", ">=", "~", "!~"}

func condConstructs(c string) []string {
	return []string{
		`if (` + c + `) r = "T"; else r = "F"`,
		`r = (` + c + `) ? "T" : "F"`,
		`r = (` + c + `); r = r ? "T" : "F"`,
		`r = "F"; while (` + c + `) { r = "T"; break }`,
		`r = "F"; for (; ` + c + `; ) { r = "T"; break }`,
		`r = "T"; if (!(` + c + `)) r = "F"`,
		`n = 0; do { n++; if (n >= 2) break } while (` + c + `); r = (n == 2) ? "T" : "F"`,
		`r = ((` + c + `) && 1) ? "T" : "F"`,
		`r = ((` + c + `) || 0) ? "T" : "F"`,
		`n = 0; while (` + c + `) { if (++n >= 2) break }; r = n ? "T" : "F"`,
		`r = "F"; for (n = 0; ` + c + `; n++) { r = "T"; if (n >= 1) break }`,
	}
}

var boolConds = []string{"x && y", "x || y", "!x", "x && u", "u || x", "!u", "$1 && $3", "(k in a)", `!("zz" in a)`, "((2,3) in a)", "((i,j) in a)",
	"x < 5 && $1 > 2", "x < 5 || 1/0", "u && 1/0", "1 || 1/0", "!(x < 5)", "!x < 5", "x ~ 4", "$0 ~ /b/", "/b/", "!/b/", "x = 0", "(y = 5) > 4", "x++ < 5", "--x > 2",
	`length($2) > 0`, `substr($1, 1, 1) == "a"`, `i in a`, `(x, 1) in a`, `x ? y : u`, `x < 5 ? u : 1`}

func EnumCond(thorough bool, f func(Case)) {
	wrap := func(stmt string) string {
		return "{ " + initStmts + "; nan = log(-1); " + stmt + "; print r }" + "\n"
	}
	for _, l := range condOperands {
		for _, op := range cmpOps {
			for _, r := range condOperands {
				if (op == "~" || op == "!~") && (r == "nan" || r == "u" || r == `""`) {
					// empty / nan dynamic regexes are still valid; keep them
				}
				c := l + " " + op + " " + r
				g := "cond|" + c
				for ci, st := range condConstructs(c) {
					f(Case{Family: "cond", Name: fmt.Sprintf("cmp/%s/c%d", c, ci), Src: wrap(st), Group: g})
				}
			}
		}
	}
	for _, c := range boolConds {
		g := "bool|" + c
		if strings.Contains(c, "++") || strings.Contains(c, "--") || strings.Contains(c, "=") && !strings.Contains(c, "==") {
			g = "" // side effects: loop constructs evaluate the condition more than once
		}
		for ci, st := range condConstructs(c) {
			f(Case{Family: "cond", Name: fmt.Sprintf("bool/%s/c%d", c, ci), Src: wrap(st), Group: g})
		}
	}
}

// ---- values of logical / relational expressions ---------------------------
//
// The cond family observes only truth; here the VALUE of the expression (always
// 0 or 1, whatever the operands are) is used: printed, stored, added to,
// concatenated, used as a subscript and passed to a function. Each expression
// is grouped with its spelling through ?: .

var valueLefts = []string{"5", "0", `""`, `"a"`, `"0"`, "u", "x", "$1", "$3", "2.5", "-1", "a[1]"}
var valueRights = []string{"y > 1", "y ~ 4", "!y", "(k in a)", "/b/", "(x && y)", "(u || y)", "7", `"s"`, "y", "u", "(y > 1)", `$2 != ""`, "(y, 1) in a"}

func EnumBoolValue(thorough bool, f func(Case)) {
	ctxs := []string{
		`print (E)`,
		`r = E; print r`,
		`print (E) + 1`,
		`print (E) "|"`,
		`b[E] = 1; for (k2 in b) print k2`,
		`print idf(E), idf((E))`,
		`$2 = E; print; print NF`,
		`r = "z" (E); print r`,
	}
	emit := func(name, e, group string) {
		for ci, cx := range ctxs {
			src := "function idf(v) { return v }\n{ " + initStmts + "; y = 6; " + strings.ReplaceAll(cx, "E", e) + " }\n"
			g := ""
			if group != "" {
				g = fmt.Sprintf("%s|c%d", group, ci)
			}
			f(Case{Family: "boolvalue", Name: fmt.Sprintf("%s/c%d", name, ci), Src: src, Group: g})
		}
	}
	for _, l := range valueLefts {
		emit("not/"+l, "!"+l, "bv|!"+l)
		emit("notq/"+l, "("+l+") ? 0 : 1", "bv|!"+l)
		for _, r := range valueRights {
			g := "bv|" + l + "&&" + r
			emit("and/"+l+"/"+r, l+" && "+r, g)
			emit("andq/"+l+"/"+r, "("+l+") ? (("+r+") ? 1 : 0) : 0", g)
			g = "bv|" + l + "||" + r
			emit("or/"+l+"/"+r, l+" || "+r, g)
			emit("orq/"+l+"/"+r, "("+l+") ? 1 : (("+r+") ? 1 : 0)", g)
		}
	}
	// chains: the value of a three-operand chain, both associations
	for _, l := range []string{"5", "u", `"a"`, "0"} {
		for _, m := range []string{"y > 1", "u", "7"} {
			for _, r := range []string{"!y", `"s"`, "y ~ 4"} {
				emit("chain1/"+l+m+r, l+" || "+m+" && "+r, "")
				emit("chain2/"+l+m+r, l+" && "+m+" || "+r, "")
				emit("chain3/"+l+m+r, "("+l+" || "+m+") && "+r, "")
			}
		}
	}
}

// ---- concatenation ------------------------------------------------------

func groupings(ops []string) []string {
	if len(ops) == 1 {
		return []string{ops[0]}
	}
	var out []string
	for split := 1; split < len(ops); split++ {
		for _, l := range groupings(ops[:split]) {
			for _, r := range groupings(ops[split:]) {
				ls, rs := l, r
				if split > 1 {
					ls = "(" + l + ")"
				}
				if len(ops)-split > 1 {
					rs = "(" + r + ")"
				}
				out = append(out, ls+" "+rs)
			}
		}
	}
	return out
}

func product(alpha []string, n int, f func([]string)) {
	idx := make([]int, n)
	cur := make([]string, n)
	for {
		for i, k := range idx {
			cur[i] = alpha[k]
		}
		f(cur)
		k := n - 1
		for k >= 0 {
			idx[k]++
			if idx[k] < len(alpha) {
				break
			}
			idx[k] = 0
			k--
		}
		if k < 0 {
			return
		}
	}
}

func EnumConcat(thorough bool, f func(Case)) {
	alphas := map[int][]string{
		2: {"x", "1", `"s"`, "$1", "(1+1)", "(-1)", "u", "2.5", "$NF", "a[1]", "3.14159", "1e6", "0.1234567"},
		3: {"x", "1", `"s"`, "$1", "(1+1)", "(-1)", "u", "2.5", "3.14159"},
		4: {"x", `"s"`, "$1", "(-1)", "3.14159"},
		5: {"x", `"s"`, "$2", "3.14159"},
	}
	if thorough {
		alphas[4] = []string{"x", `"s"`, "$1", "(-1)", "u", "2.5", "3.14159"}
		alphas[5] = []string{"x", `"s"`, "$2", "1", "3.14159"}
	}
	for n := 2; n <= 5; n++ {
		product(alphas[n], n, func(ops []string) {
			g := "concat|" + strings.Join(ops, " ")
			flat := strings.Join(ops, " ")
			f(Case{Family: "concat", Name: "flat/" + flat, Src: "{ " + initStmts + "; CONVFMT = \"%.3g\"; r = " + flat + "; print r; print " + flat + " }\n", Group: g})
			for gi, gr := range groupings(ops) {
				if gr == flat {
					continue
				}
				f(Case{Family: "concat", Name: fmt.Sprintf("g%d/%s", gi, gr), Src: "{ " + initStmts + "; CONVFMT = \"%.3g\"; r = " + gr + "; print r; print " + gr + " }\n", Group: g})
			}
		})
	}
}

// ---- user calls -----------------------------------------------------------

const callFuncs = `
function f0() { return 5 }
function f1(p) { p = p 1; return p }
function f2(p, q) { return p "-" q }
function f3(p, q, s) { s = s "!"; return p "-" q "-" s }
function g1(arr) { arr["z"] = 1; return length(arr) }
function g2(p, arr) { arr[p] = p; p = 0; return length(arr) }
function g3(arr, p, brr) { brr[1] = p; arr[2] = length(brr); return p }
function loc(p, la) { la[p] = 1; la["w"] = 2; return length(la) }
function noret(p) { p = 1 }
function fact(n) { return n <= 1 ? 1 : n * fact(n - 1) }
function even(n) { return n == 0 ? 1 : odd(n - 1) }
function odd(n) { return n == 0 ? 0 : even(n - 1) }
function fwd(arr) { return g1(arr) }
function fwd2(p, arr) { return g2(p, arr) + loc(p) }
function deep(n, arr) { arr[n] = n; if (n > 0) deep(n - 1, arr); return length(arr) }
function early(p) { if (p > 3) return "big"; for (;;) { return "loop" } }
function infor(arr,   kk) { for (kk in arr) return kk; return "none" }
function sfx(p) { x = x + p; return x }
function show(arr,   s, n) { n = 0; for (s in arr) n += arr[s]; return length(arr) ":" n }
`

var callExprs = []string{
	"f0()", "f1(x)", "f1(x + 1)", "f1()", "f1($1)", "f1(u)", "f1(\"s\")", "f1(a[1])",
	"f2(x, i)", "f2(x)", "f2()", "f2(x + 1, $2)", "f2(u, u)", "f2(f1(x), f1(i))",
	"f3(x, i, j)", "f3(x, i)", "f3(x)", "f3()", "f3($1, $2, $3)",
	"g1(a)", "g1(ua)", "g1()", "g2(x, a)", "g2(x)", "g2(x, ua)", "g2(\"k\", a)", "g2($1, a)",
	"g3(a, x, ub)", "g3(a, x)", "g3(a)", "g3(ua, 3, ub)", "g3()",
	"loc(1)", "loc(x)", "loc()", "noret(x)", "noret()", "fact(5)", "fact(x)", "fact(0)", "even(4)", "odd(3)", "even(x)",
	"fwd(a)", "fwd(ua)", "fwd2(x, a)", "fwd2(2, ua)", "deep(3, a)", "deep(2, ua)", "deep(0)", "early(5)", "early(1)", "early()", "infor(a)", "infor(ua)",
	"sfx(1) sfx(2)", "sfx(1) + sfx(2) * x", "x sfx(1)", "sfx(1) x", "f2(sfx(1), x)", "f2(x, sfx(1))", "f1(x = 9)", "f2(x++, x)", "f2(++x, x++)",
}

func EnumCalls(thorough bool, f func(Case)) {
	for _, ce := range callExprs {
		forms := []string{
			"r = " + ce,
			ce,
			"print " + ce,
			"if (" + ce + ") r = \"T\"",
			"r = " + ce + " \"|\" " + ce,
			"$2 = " + ce,
			"a[1] = " + ce,
		}
		for fi, st := range forms {
			src := "{ " + initStmts + "; " + st + "; dump(\"C\"); print show(a), show(ua), show(ub), length(ua), length(ub) }" + dumpFuncs + callFuncs
			f(Case{Family: "calls", Name: fmt.Sprintf("f%d/%s", fi, ce), Src: src})
		}
	}
}

// ---- builtins -------------------------------------------------------------

var builtinExprs = []string{
	"length", "length()", "length(x)", "length($1)", "length(a)", "length(u)", "length(x y)", "length(12345)",
	`substr("hello", 2)`, `substr("hello", 2, 3)`, `substr("hello", 0)`, `substr("hello", -1, 3)`, `substr("hello", 1.5, 2.5)`, `substr($0, 2)`, `substr(x, 1, 1)`, `substr("hello", 10)`, `substr("hello", 2, 100)`, `substr("hello", 2, -1)`,
	`index("hello", "l")`, `index("hello", "z")`, `index($0, $2)`, `index("", "")`, `index(x, 4)`,
	`split("a b c", arr)`, `split("a:b:c", arr, ":")`, `split("a1b22c", arr, /[0-9]+/)`, `split("a1b22c", arr, "[0-9]+")`, `split("", arr)`, `split($0, arr)`, `split(" a  b ", arr, " ")`, `split("abc", arr, "b")`, `split("a.b", arr, ".")`, `split(x, arr)`,
	`sub(/b/, "X")`, `gsub(/b/, "X")`, `sub(/o/, "0", s1)`, `gsub(/o/, "[&]", s1)`, `gsub(/o/, "\\&", s1)`, `gsub(/o+/, "<&&>", s1)`, `sub(/zzz/, "X", s1)`, `sub(/4/, "9", x)`, `gsub(/[0-9]/, "#", $2)`, `sub(/q/, "Q", a[k])`, `gsub(/./, "&&", a[1])`, `gsub(/7/, "8", a[1])`,
	`sub(/zzz/, "X", $2)`, `sub(/zzz/, "X", a["new"])`, `sub(/zzz/, "X", u)`, `gsub("o", "0", s1)`, `sub("^f", "F", s1)`, `gsub(/o$/, "!", s1)`, `sub(/b/, "X", $0)`, `gsub(/ /, "_")`, `sub(/a/, "b", $(i+1))`,
	`match("foobar", /o+/)`, `match("foobar", /z/)`, `match($0, /[0-9]+/)`, `match(s1, "o")`, `match("", /x*/)`,
	`sprintf("%d %s %5.2f|%-4d|%c%c", 42.9, "s", 3.14159, 7, 65, "hello")`, `sprintf("%s")`, `sprintf("%d", "3x")`, `sprintf("%5s|%-5s|%.2s", "ab", "cd", "efgh")`, `sprintf("%%")`, `sprintf("%3d%%", 50)`, `sprintf("%e %E %.3g %G", 1234.5, 0.00012, 1234567, 0.5)`, `sprintf("%i", 3)`, `sprintf("%c", "")`, `sprintf("%c", 256)`, `sprintf("%d %d", 1)`, `sprintf("%z", 1)`, `sprintf(x)`, `sprintf("%s %s", u, $1)`,
	`tolower("HeLLo")`, `toupper("HeLLo")`, `toupper($0)`, `tolower(x)`,
	`int(3.9)`, `int(-3.9)`, `int("3abc")`, `int("")`, `int(u)`, `int($1)`,
	`sin(0)`, `cos(0)`, `atan2(0, -1)`, `exp(1)`, `exp(0)`, `log(1)`, `sqrt(16)`, `sqrt(2)`, `exp(1000)`, `log(0)`, `int(log(-1))`, `sin(x) + cos(x)`, `atan2(1, 1) * 4`,
	`srand(1)`, `srand(1) srand(2)`, `rand() < 1`, `srand(5) + rand() * 0`, `int(rand() * 1000) + srand(3) * 0 + int(rand() * 1000)`,
	`close("nofile")`, `fflush()`, `fflush("")`, `close(x)`,
	`x ^ 2`, `2 ^ 3 ^ 2`, `-2 ^ 2`, `7 % 3`, `-7 % 3`, `7.5 % 2`, `1 / 4`, `1e300 * 1e300`, `-1e300 * 1e300`, `2 ^ 0.5`, `1 / 0`, `1 % 0`, `x / u`, `0 / 1`, `-0`, `+"3x"`, `-"3x"`, `!"a"`, `!""`, `!0`, `!"0"`, `!$1`, `- -x`, `!!x`,
	`x = y = 3`, `x += y = 2`, `(x = 1) + (x = 2) x`, `x++ + x++`, `x++ + ++x`, `i++ + i`, `a[i++] = i`, `$(i++) = i`, `a[x] = x++`, `$i = i++`, `x = x++ + 1`,
	`1 == 1.0`, `"1" == 1`, `"a" < "b"`, `"abc" < "abd"`, `"10" < "9"`, `10 < 9`, `$1 == $1`, `2 < 10`, `"2" < "10"`, `x == "4"`, `x == 4.0`, `u == 0`, `u == ""`, `0.1 + 0.2 == 0.3`, `0.1 + 0.2`, `1e6`, `1e6 + 0.5`, `123456789`, `1234567.8`, `0.000001234`, `100000 * 100000`, `2 ^ 53`, `2 ^ 53 + 1`, `2 ^ 63`, `-2 ^ 63`, `2 ^ 64`, `1e30`, `0.1`, `1 / 3`, `-1 / 3`, `1e-5`, `123456.7`, `1234567.1`,
}

func EnumBuiltins(thorough bool, f func(Case)) {
	for _, be := range builtinExprs {
		for fi, st := range []string{"r = " + be, be, "print " + be, "print (" + be + ") \"\"", "CONVFMT = \"%.3g\"; OFMT = \"%.2f\"; r = (" + be + ") \"\"; print " + be} {
			if fi == 1 && (be == "length" || strings.HasPrefix(be, "-") || strings.HasPrefix(be, "+") || strings.HasPrefix(be, "!") || strings.HasPrefix(be, "1") || strings.HasPrefix(be, "0") || strings.HasPrefix(be, "2") || strings.HasPrefix(be, `"`)) {
				// a bare expression starting like this is fine syntactically, keep it
			}
			src := "{ " + initStmts + "; s1 = \"foo boo\"; " + st + "; dump(\"U\"); print RSTART, RLENGTH, s1, length(arr), (1 in arr) ? arr[1] : \"-\", (3 in arr) ? arr[3] : \"-\" }" + dumpFuncs
			f(Case{Family: "builtins", Name: fmt.Sprintf("f%d/%s", fi, be), Src: src})
		}
	}
}

// ---- control flow -----------------------------------------------------------

func loopText(kind, id, body string) string {
	n := "n" + id
	switch kind {
	case "while":
		return n + " = 0; while (" + n + " < 3) { " + n + "++; " + body + " }"
	case "do":
		return n + " = 0; do { " + n + "++; " + body + " } while (" + n + " < 3)"
	case "for":
		return "for (" + n + " = 1; " + n + " <= 3; " + n + "++) { " + body + " }"
	case "forc":
		return "for (" + n + " = 1; ; " + n + "++) { if (" + n + " > 3) break; " + body + " }"
	case "forin":
		return "for (" + n + " in cnt) { " + body + " }"
	}
	panic("loop kind")
}

var jumpOpts = []string{"", "break", "continue"}

func EnumControl(thorough bool, f func(Case)) {
	kinds := []string{"while", "do", "for", "forc", "forin"}
	pre := `BEGIN { cnt[1]; cnt[2]; cnt[3]; `
	post := `; print r, n1, n2 }`
	conds := []string{"1", "2"} // jump when counter == cond
	// single loops
	for _, k := range kinds {
		for _, j := range jumpOpts {
			for _, c := range conds {
				for _, where := range []string{"start", "end"} {
					jt := ""
					if j != "" {
						jt = "if (n1 == " + c + ") " + j + "; "
					}
					body := `r = r "a" n1; `
					if where == "start" {
						body = jt + body
					} else {
						body = body + jt
					}
					f(Case{Family: "control", Name: fmt.Sprintf("single/%s/%s/%s/%s", k, j, c, where), Src: pre + loopText(k, "1", body) + post})
					if j == "" {
						break
					}
				}
				if j == "" {
					break
				}
			}
		}
	}
	// nests of depth 2: jump options at three positions
	for _, ko := range kinds {
		for _, ki := range kinds {
			for _, jb := range jumpOpts { // outer, before inner
				for _, ji := range jumpOpts { // inside inner
					for _, ja := range jumpOpts { // outer, after inner
						for _, c := range conds {
							if jb == "" && ji == "" && ja == "" && c != "1" {
								continue
							}
							t := func(j, ctr string) string {
								if j == "" {
									return ""
								}
								return "if (" + ctr + " == " + c + ") " + j + "; "
							}
							inner := loopText(ki, "2", t(ji, "n2")+`r = r "i" n2; `)
							body := `r = r "o" n1; ` + t(jb, "n1") + inner + "; " + t(ja, "n1") + `r = r "e"; `
							f(Case{Family: "control", Name: fmt.Sprintf("nest/%s/%s/%s-%s-%s/%s", ko, ki, jb, ji, ja, c), Src: pre + loopText(ko, "1", body) + post})
						}
					}
				}
			}
		}
	}
	// if/else chains, blocks, for-in with delete, return/exit/next inside loops
	misc := []string{
		`{ if ($1 > 2) print "gt"; else if ($1 > 0) print "pos"; else print "le" }`,
		`{ if ($1) { if ($2) print "both"; else print "one" } else print "none" }`,
		`{ { print "blk"; { print "inner" } } }`,
		`BEGIN { a[1]; a[2]; a[3]; for (k in a) { delete a[k]; n++ }; print n, length(a) }`,
		`BEGIN { a[1]; a[2]; a[3]; for (k in a) { delete a; n++ }; print n, length(a) }`,
		`BEGIN { a[1]; a[2]; for (k in a) { a[k+10] = 1; n++ }; print n, length(a) }`,
		`BEGIN { a[1]; a[2]; a[3]; for (k in a) { if (k == 2) break; s = s k }; print s, k }`,
		`BEGIN { a[1]; a[2]; a[3]; for (k in a) { if (k == 2) continue; s = s k }; print s, k }`,
		`BEGIN { a[1]; a[2]; for (k in a) for (m in a) { if (m == 2) break; s = s k m }; print s }`,
		`BEGIN { a[1]; a[2]; for (k in a) { for (m in a) { if (m == 1) continue; s = s k m }; s = s "|" }; print s }`,
		`BEGIN { while (1) { if (++n > 5) break; if (n % 2) continue; s = s n }; print s }`,
		`BEGIN { do { n++; if (n == 2) continue; s = s n } while (n < 4); print s }`,
		`BEGIN { do { n++; if (n == 2) break; s = s n } while (n < 4); print s }`,
		`BEGIN { for (;;) { if (++n > 3) break }; print n }`,
		`BEGIN { for (i = 0; i < 3; i++) ; print i }`,
		`BEGIN { for (i = 0; i < 3; i++) for (j = 0; j < 3; j++) { if (j == 1) continue; if (i == 1) break; s = s i j }; print s }`,
		`BEGIN { i = 5; while (i --> 0) s = s i; print s }`,
		`function f(n) { while (1) { if (n > 2) return n; n++ } } BEGIN { print f(0) }`,
		`function f(arr,  k) { for (k in arr) if (k == 2) return k; return "no" } BEGIN { a[1]; a[2]; a[3]; print f(a) }`,
		`function f() { for (;;) exit 3 } BEGIN { f(); print "not reached" } END { print "end" }`,
		`function f() { next } { if (NR == 1) f(); print }`,
		`{ for (i = 1; i <= NF; i++) { if ($i == 3) next; s = s $i } } END { print s }`,
		`{ while (1) { if (NR == 2) exit 7; break } print } END { print "e" NR }`,
		`BEGIN { if (0) ; else print "else-empty-then" }`,
		`BEGIN { if (1) ; print "after-empty-if" }`,
		`BEGIN { if (0) {} else {} print "empty blocks" }`,
		`BEGIN { while (0) {} ; do {} while (0); for (;0;) {} ; print "empty loops" }`,
		`BEGIN { x = 1; if (x == 1) if (x == 2) print "a"; else print "dangling" }`,
	}
	for i, m := range misc {
		f(Case{Family: "control", Name: fmt.Sprintf("misc/%d", i), Src: m})
	}
}

// ---- patterns, I/O forms, getline, misc ---------------------------------------

var miscPrograms = []string{
	`$1 > 1`, `/a/`, `!/a/`, `NR == 1, NR == 2`, `NR == 2, NR == 2 { print "r", $0 }`, `/1/, /5/ { print NR ":" $0 }`, `$1 == 3, 0`, `NR == 1, /nomatch/ { n++ } END { print n }`,
	`BEGIN { print "b1" } BEGIN { print "b2" } END { print "e1" } END { print "e2" }`, `BEGIN { }`, `END { }`, `{ }`, `{}`, `END { print NR, $0, NF }`,
	`NR == 1 { $2 = "x" } { print ($2 == 4.0), ($2 < 10), ($1 < 10), $2 + 0 }`, `NR == 1 { $1 = "z"; $3 = "q" } { print ($1 < 10), ($3 < 10), ($2 < 10), NF }`,
	`{ $2 = "07"; print ($2 < 10) } END { print ($2 < 10), ($2 == 7) }`, `NR == 1 { $2 = "07" } NR == 1 { getline; print ($2 < 10), ($2 == 4), ($1 < 10) }`, `{ $1 = "x"; $0 = "10 9"; print ($1 < $2), ($1 < 9), ($2 < 10) }`,
	`NR == 1 { $2 = "x"; $4 = "y" } NR == 2 { NF = 4; print ($2 < 10), ($4 == 0), ($4 == "") } NR == 3 { print ($1 < 10) }`, `NR == 1 { $1 = "10" } { if ($1 < 9) print "lt"; else print "ge"; while ($1 < 9) { print "loop"; break } }`,
	`{ $3 = "x" } { n = split($0, parts); print (parts[1] < 10), (parts[2] < 10) } NR == 2 { print ($1 < 10), ($2 < 10), ($3 < 10) }`,
	`BEGIN { for (i = 0; i < 150; i++) { if (("x" i) ~ ("x" i "$")) n++; if (("y" i) ~ ("x" i)) m++ }; print n, m; for (i = 0; i < 150; i++) if (("x" i) ~ ("x" i "$")) n++; print n }`,
	`BEGIN { for (i = 0; i < 130; i++) s = s sprintf("%" (i % 9 + 1) "d|%s;", i, i); print length(s); for (i = 0; i < 130; i++) t = t sprintf("%" (i % 9 + 1) "d|%s;", i, i); print (s == t) }`,
	`BEGIN { for (i = 0; i < 120; i++) { n += split("a" i "b" i "c", parts, "" i); gsub("" i, "#", str) }; print n, parts[1], parts[2] }`,
	`{ for (i = NF; i > 0; i--) r = r $i "|"; print NF ":" r; r = "" } END { print NR }`, `{ n = NF; $(n + 1) = NR; print; print NF } NR == 2 { NF = 1; print; $3 = "t"; print }`,
	`{ a[NR] = $1; b[NR] = NF; c[$NF]++ } END { for (i = 1; i <= NR; i++) print i, a[i], b[i]; for (k in c) print k, c[k] }`,
	`{ { } }`, `{ ; }`, `$1 { { } { } }`, `NR == 1 { ; ; }`, `/a/ { if (0) ; }`, `{ { } } END { print NR }`,
	`NR == 1 { print "one" } NR == 1 { print "again" } { print "all", NR }`,
	`NR % 2`, `NF`, `$0`, `$2`, `"x"`, `""`, `0`, `1`, `u`, `$1 ~ "^[0-9]+$"`, `$1 ~ $2`, `x = NR`, `(NR == 2)`,
	`{ print; print $0; print $1, $2; print $1 $2; print($1, $2) }`, `{ OFS = "-"; print $1, $2; $1 = $1; print }`, `BEGIN { ORS = "|"; print "a"; print "b", "c" }`,
	`BEGIN { OFS = ":"; $0 = "a b c"; $1 = $1; print; print NF }`, `BEGIN { $3 = "c"; print; print NF }`, `BEGIN { $0 = "a b c"; NF = 2; print; $5 = "e"; print; print NF }`,
	`{ print > "out1" } END { close("out1"); while ((getline line < "out1") > 0) print "read:" line }`,
	`{ print $1 > "out1"; print $2 > "out2" }`, `{ print >> "pre" }`, `{ print > "pre" }`, `{ printf "%s-", $1 > "out1" }`, `BEGIN { print "x" > "out1"; close("out1"); print "y" > "out1" }`,
	`BEGIN { print "x" > "out1"; close("out1"); print "y" >> "out1" }`, `BEGIN { print "a" > "/dev/stdout"; print "b" > "-"; print "c" > "/dev/stderr" }`, `BEGIN { f = "out" 1; print "z" > f; print close(f), close(f) }`,
	`BEGIN { print 1 > "out1"; print 2 > "out1"; print 3 >> "out1" }`, `BEGIN { printf "a" > "out1"; printf "b" >> "out1"; printf "c" > "out2" }`, `BEGIN { print "n" > 5 }`,
	`BEGIN { while ((getline line) > 0) print "got", line, NR, FNR, NF }`, `BEGIN { while ((getline) > 0) print "got", $0, NR, NF } END { print NR }`, `NR == 1 { getline; print "after", $0, NR }`,
	`NR == 1 { getline v; print "v=" v, $0, NR, NF }`, `{ r = getline; print r, $0 }`, `BEGIN { while ((getline line < "pre") > 0) print "pre:" line, NR; print (getline line < "nosuch") }`,
	`{ getline x < "pre"; print x, $0, NR, FNR }`, `{ getline < "pre"; print $0, $1, NF, NR }`, `BEGIN { getline a[1] < "pre"; getline a[2] < "pre"; print a[1], a[2] }`,
	`BEGIN { "pre" = 1 }`, `{ getline $2 < "pre"; print; print NF }`, `{ getline NF < "pre"; print NF }`, `BEGIN { getline line < "pre"; close("pre"); getline l2 < "pre"; print line, l2 }`,
	`BEGIN { print (getline < "pre"), $0; print (getline < "pre"), $0; print (getline < "pre"), $0 }`,
	`BEGIN { print length("pre"); getline < "pre"; print $2 }`, `BEGIN { print "w" > "out1"; getline x < "out1" }`, `BEGIN { getline x < "pre"; print "w" > "pre" }`,
	`{ next; print "no" } END { print NR }`, `NR == 1 { next } { print }`, `{ nextfile } END { print NR }`, `NR == 2 { exit } { print } END { print "end", $0 }`, `BEGIN { exit 3 } END { print "e" }`,
	`BEGIN { exit 3 } END { exit }`, `BEGIN { exit 3 } END { exit 4 }`, `{ exit NR + 1 }`, `END { exit "5x" }`, `BEGIN { exit -1 }`, `BEGIN { exit 256 }`, `BEGIN { exit 1.9 }`, `{ exit } END { print NR }`,
	`BEGIN { CONVFMT = "%.2g"; x = 3.14159; y = x ""; print y; a[x] = 1; for (k in a) print k; print x }`, `BEGIN { OFMT = "%.2f"; print 3.14159, 3.14159 ""; x = 17; print x, x "" }`,
	`BEGIN { CONVFMT = "%d"; a[12.7] = 1; for (k in a) print k }`, `BEGIN { x = 0.1 + 0.2; print x; print x == 0.3; print x "" == "0.3" }`, `BEGIN { print 1e6, 1e6 "", 1000000 * 10, 0.1 * 3 }`,
	`BEGIN { print length(a); a[1]; print length(a); delete a[1]; print length(a); delete a[2]; a[1, 2] = 3; for (k in a) { split(k, p, SUBSEP); print p[1], p[2] } }`,
	`BEGIN { SUBSEP = ":"; a[1, 2] = 3; for (k in a) print k; print ((1, 2) in a), ((1 SUBSEP 2) in a), ("1:2" in a) }`, `BEGIN { a["x"] = 1; delete a; print length(a); a["y"]; print length(a) }`,
	`BEGIN { if (!(3 in a)) print "no"; if (3 in a) print "yes"; a[3]; if (3 in a) print "now" }`, `BEGIN { print a[1] == 0, a[1] == "", length(a) }`,
	`BEGIN { a[01] = "x"; print a[1], a["01"], a["1"]; a[1.0] = "y"; print a[1]; a[0.1 + 0.2] = "z"; for (k in a) print k }`,
	`{ $2 = ""; print; print NF }`, `{ $(NF + 2) = "z"; print; print NF }`, `{ NF = 1; print; print $2 "|" }`, `{ $0 = "p q"; print $1, NF; $1 = "r"; print }`, `{ $3 = $1 + $2; print }`, `{ $1 = $1 + 0; print ($1 == "1"), ($1 == 1) }`,
	`{ print $NF, $(NF - 1), $(-1), $(-NF) "|" $(-NF - 1) "|" }`, `{ FS = ","; print $1 } END { $0 = "a,b"; print $1 }`, `BEGIN { FS = "," } { print $1; FS = " " }`, `BEGIN { FS = "[0-9]" } { print NF, $1 "|" $2 }`,
	`BEGIN { FS = "\t" } { print NF }`, `BEGIN { FS = "b" } { print $1 "|" $2 }`, `BEGIN { RS = "" } { print NR ": " $0 " / " NF; print $1 }`, `BEGIN { RS = " " } { print NR ":" $0 }`, `BEGIN { RS = "[0-9]+" } { print NR ":" $0 ":" RT }`,
	`BEGIN { RS = "" ; FS = ":" } { print NF ":" $1 }`, `BEGIN { RS = "\n\n+" } { print NR ":" $0 ":" length(RT) }`,
	`function f(a) { a["k"] = 1 } BEGIN { f(arr); print length(arr), arr["k"] }`, `function f(s) { s = "changed" } BEGIN { v = "orig"; f(v); print v }`, `function f(n) { if (n > 0) { f(n - 1); print n } } BEGIN { f(3) }`,
	`function f(x) { x[1] = 1; return g(x) } function g(y) { return length(y) } BEGIN { print f(z), length(z) }`, `function r(n) { return r(n + 1) } BEGIN { r(0) }`,
	`function f(a, b) { return a + b } BEGIN { print f(1), f(1, 2), f() }`, `function f(loc) { loc++; return loc } BEGIN { loc = 10; print f(1), loc }`, `function NRf() { return NR } { print NRf() }`,
	`BEGIN { printf "%s %d %5.1f|%c|%c\n", "a", 42.7, 3.14159, 66, "xyz" }`, `BEGIN { printf "%d %d\n", 1 }`, `BEGIN { printf "no newline" }`, `BEGIN { printf("%s-%s\n", "a", "b") }`, `BEGIN { printf "%5s|%-5s|%05d|%x\n", "r", "l", 42, 255 }`,
	`{ x[NR] = $0 } END { for (i = NR; i >= 1; i--) print x[i] }`, `{ s += $1; n++ } END { print s, n, (n ? s / n : "none") }`, `{ c[$1]++ } END { for (k in c) print k, c[k] }`, `{ print NR, FNR, FILENAME, NF }`,
	`BEGIN { x; print x == 0, x == "", length(x) }`, `BEGIN { print -"", +"", !"", -" 12 ", +"1e2", +"1e", +".5", +"5.", +".", +"+5", +"-5x", +"0x10" "" }`, `BEGIN { print 1 " " 2, 1 + 2 " " 3, 1 " " 2 + 3, 2 * 3 4, -1 " " -1 }`,
	`BEGIN { print 1 < 2 ? "a" : "b"; print (1, 2) in a; print 1 in a ? "y" : "n"; print !1 + 1, !(1 + 1), 2 - 1 - 1, 2 ^ 3 ^ 2, 2 * 3 % 4, -2 ^ 2, !x++ , x }`,
	`BEGIN { x = "A"; y = x++; print x, y; x = "3x"; y = ++x; print x, y; z = "a"; z += 1; print z; w = "2" "3"; w *= 2; print w }`,
	`BEGIN { $0 = "3 4"; $1++; print; $2 += 10; print; $3 -= 1; print; $1 = $1 $2; print; print NF }`,
	`BEGIN { NF = 3; print NF, length($0), $0 "|"; $0 = "x y"; print NF; NF++; print $0 "|", NF; NF -= 2; print $0 "|" }`,
	`BEGIN { NR = 10; FNR = 20 } { print NR, FNR } END { print NR, FNR }`, `{ NR = 100 } END { print NR }`, `BEGIN { FILENAME = "x"; print FILENAME } { print FILENAME } END { print FILENAME }`,
	`BEGIN { ARGV[1] = ""; ARGC = 2 } { print FILENAME ":" $0 }`, `BEGIN { print ARGC; for (i = 0; i < ARGC; i++) print i, ARGV[i] }`, `BEGIN { ARGV[ARGC++] = "pre" } { print FILENAME, FNR, $0 }`, `BEGIN { ARGC = 1 } { print "stdin:" $0 }`,
	`BEGIN { RSTART = 5; RLENGTH = 6; print RSTART, RLENGTH; match("abc", /b/); print RSTART, RLENGTH; match("abc", /z/); print RSTART, RLENGTH }`,
	`BEGIN { print length(ENVIRON), ENVIRON["HOME"] "|" , ("PATH" in ENVIRON) }`, `BEGIN { print substr("hello", 2, 3) substr("hello", 0, 2) "|" substr("hello", 5, 5) "|" substr("", 1) }`,
	`BEGIN { RT = "z"; print RT } { print RT == "\n" } END { print RT == "\n" }`, `BEGIN { print 1; print 2 > "/dev/stdout"; print 3 }`, `BEGIN { print 1/3 }`, `BEGIN { print 1 / 0 }`, `{ print $1 / ($1 - 1) }`, `BEGIN { x = 5 % 0 }`, `BEGIN { x = 1; x /= 0 }`, `BEGIN { x %= 0 }`,
	`BEGIN { $(-1) = "x"; print NF, $0 "|" }`, `BEGIN { $0 = "a b"; $(-1) = "x"; $(-2) = "y"; $(-3) = "z"; print }`, `BEGIN { print $(-1) "|" ; $0 = "a b"; print $(-1), $(-2), $(-3) "|" }`, `BEGIN { NF = -1 }`, `BEGIN { $1000001 = 1 }`, `BEGIN { print $1000001 "|" }`, `BEGIN { NF = 1000001 }`,
	`BEGIN { print substr("hello", "2x"), index("abc", "") , toupper(substr("abc", 2)) tolower("DEF") length() }`, `BEGIN { print "a" > "out1"; print "b" > "out1"; close("out1"); getline x < "out1"; getline y < "out1"; print x y }`,
}

func EnumMisc(thorough bool, f func(Case)) {
	for i, m := range miscPrograms {
		f(Case{Family: "misc", Name: fmt.Sprintf("m%d", i), Src: m})
	}
}

// ---- pairs of statements (thorough) ---------------------------------------------

var pairStmts = []string{
	"if (NR == 1) $2 = \"x\"", "y = ($2 < 10) ($2 == 4.0) ($1 < 10)", "x = 1", "x += $1", "x++", "--x", "y = x++", "u = x", "$2 = x", "$2 += 1", "$i++", "$(i+1) = \"n\"", "$0 = \"p q r\"", "NF = 2", "NF++", "$NF = \"L\"", "a[k] = x", "a[k]++", "a[i,j] += 2", "delete a[k]", "delete a",
	"i++", "k = \"new\"", "OFS = \"-\"", "$1 = $1", "sub(/b/, \"X\")", "gsub(/[0-9]/, \"#\", $2)", "split($0, a)", "x = length(a)", "y = ($1 < $2)", "if (x > 3) x = 0", "while (x < 6) x++", "for (m in a) n++",
	"getline", "getline y", "getline $2 < \"pre\"", "getline < \"pre\"", "r = (k in a)", "y = substr($0, 2, 3)", "FS = \",\"", "$0 = $0", "NR = 7", "x = $(-1)", "u = $(NF+1)", "x = NF", "match($0, /[a-z]+/)", "y = RSTART", "CONVFMT = \"%.2g\"; y = 3.14159 \"\"", "print > \"out1\"", "close(\"out1\")", "next", "exit 2",
}

func EnumPairs(thorough bool, f func(Case)) {
	if !thorough {
		// quick: every statement alone plus each statement followed by a re-read of the record state
		for _, s := range pairStmts {
			f(Case{Family: "pairs", Name: "single/" + s, Src: wrapScope("RULE", s)})
		}
		return
	}
	for _, s1 := range pairStmts {
		for _, s2 := range pairStmts {
			f(Case{Family: "pairs", Name: s1 + " ;; " + s2, Src: wrapScope("RULE", s1+"; "+s2)})
		}
	}
	// all ordered triples of the record/array/getline statements most likely to interact
	for _, s1 := range tripleStmts {
		for _, s2 := range tripleStmts {
			for _, s3 := range tripleStmts {
				f(Case{Family: "pairs", Name: s1 + " ;; " + s2 + " ;; " + s3, Src: wrapScope("RULE", s1+"; "+s2+"; "+s3)})
			}
		}
	}
}

var tripleStmts = []string{"$2 = x", "$i++", "NF = 2", "$0 = \"p q r\"", "a[k]++", "delete a[k]", "i++", "OFS = \"-\"", "$1 = $1", "sub(/b/, \"X\")", "split($0, a)", "getline", "getline $2 < \"pre\"", "x = $(-1)", "u = $(NF+1)", "FS = \",\""}

// ---- statements with empty bodies ------------------------------------------
//
// The condition (or header) of a statement whose bodies are all empty is still
// evaluated: its side effects and run-time errors are the statement's whole
// meaning. Every spelling is grouped with one that has a harmless body.

func EnumEmptyBody(thorough bool, f func(Case)) {
	conds := []string{"x++", "x++ < 5", "--x > 2", "x = 0", "(y = 5) > 4", "y += 5", "1 / 0", "x / u", `$0 ~ ("(" x)`, `sub(/a/, "b")`, `gsub(/[0-9]/, "#") > 1`, "(getline line) > 0", `(getline line < "pre") > 0`,
		"bump()", "bump() && bump()", "x++ || y++", "x-- && y--", "a[\"new\"]", "(\"zz\" in a) || (a[\"zz\"] = 1)", "$3 = \"F\"", "NF = 1", "$(NF + 2)", "length(line = $1)", "match($0, /b/)", "i in a"}
	for ci, cnd := range conds {
		forms := []string{
			"if (C) { zz = 0 }", // reference spelling: a body without observable effect
			"if (C) ;",
			"if (C) { }",
			"if (C) { } else { }",
			"if (C) ; else ;",
			"if (C) { ; }",
			"if (C) { } else { zz = 0 }",
			"if (!(C)) { } else { }",
			"zz = (C) ? 0 : 0",
			"for (; C; ) break",
			"while (C) break",
			"do { } while ((C) && 0)",
		}
		for fi, fm := range forms {
			g := fmt.Sprintf("emptybody|%d", ci)
			if fi == 7 && (strings.Contains(cnd, "&&") || strings.Contains(cnd, "||")) {
				g = "" // negation does not change what is evaluated, but keep the group strict
			}
			stmt := strings.ReplaceAll(fm, "C", cnd)
			src := "function bump() { x += 10; return x }\n{ " + initStmts + "; y = 1; " + stmt + "; print x, y, line, length(a), NF; print }\n"
			f(Case{Family: "emptybody", Name: fmt.Sprintf("c%d/f%d", ci, fi), Src: src, Group: g})
			fsrc := "function bump() { x += 10; return x }\nfunction fn(p, la) { " + strings.ReplaceAll(stmt, "x", "p") + "; return p }\n{ " + initStmts + "; y = 1; print fn(4), y, line, NF; print }\n"
			if !strings.Contains(cnd, "bump") {
				fg := ""
				if g != "" {
					fg = g + "|fn"
				}
				f(Case{Family: "emptybody", Name: fmt.Sprintf("fn/c%d/f%d", ci, fi), Src: fsrc, Group: fg})
			}
		}
	}
}

// ---- self-referencing assignments ------------------------------------------
//
// `v = v op e` where evaluating e changes v: the left operand is read before e
// is evaluated (operands left to right). Also the mirrored `v = e op v`, the
// augmented `v op= e`, and the same through every lvalue kind. Each statement
// is grouped with its parenthesised and its expression-position spelling.

func EnumSelfAssign(thorough bool, f func(Case)) {
	type lv struct{ name, text, scope string }
	lvs := []lv{{"global", "x", "RULE"}, {"unset", "u", "RULE"}, {"NF", "NF", "RULE"}, {"field", "$2", "RULE"}, {"elem", "a[k]", "RULE"}, {"NR", "NR", "RULE"}, {"param", "p", "FUNC"}, {"localelem", "la[1]", "FUNC"}}
	ops := []string{"+", "-", "*", "/", "%", "^", " "}
	if !thorough {
		ops = []string{"+", "*", "^", "-", " "}
	}
	for _, l := range lvs {
		L := l.text
		effects := []string{L + "++", "++" + L, L + "--", "(" + L + " = 3)", "(" + L + " += 2)", "sub(/[0-9a-z]/, \"7\", " + L + ")", "(getline " + L + " < \"pre\")", "bump()"}
		for _, op := range ops {
			for ei, e := range effects {
				if e == "bump()" && L != "x" {
					continue
				}
				forms := []struct{ tag, stmt string }{
					{"lr", L + " = " + L + " " + op + " " + e},
					{"lr-paren", L + " = (" + L + " " + op + " " + e + ")"},
					{"lr-expr", "r = (" + L + " = " + L + " " + op + " " + e + ")"},
					{"rl", L + " = " + e + " " + op + " " + L},
					{"rl-paren", L + " = (" + e + " " + op + " " + L + ")"},
				}
				if op != " " {
					forms = append(forms, struct{ tag, stmt string }{"aug", L + " " + op + "= " + e}, struct{ tag, stmt string }{"aug-expr", "r = (" + L + " " + op + "= " + e + ")"})
				}
				for _, fm := range forms {
					g := fmt.Sprintf("self|%s|%s|%d|%s", l.name, op, ei, strings.TrimSuffix(fm.tag, "-paren"))
					body := fm.stmt + "; print " + L + "; print r; print NF; print"
					var src string
					if l.scope == "FUNC" {
						src = "function bump() { x = 10; return 1 }\nfunction fn(p, la) { la[1] = 5; p = 4; " + body + " }\n{ " + initStmts + "; fn(6) }\n"
					} else {
						src = "function bump() { x = 10; return 1 }\n{ " + initStmts + "; " + body + " }\n"
					}
					f(Case{Family: "selfassign", Name: l.name + "/" + op + "/" + e + "/" + fm.tag, Src: src, Group: g})
				}
			}
		}
	}
}

// ---- long runs -------------------------------------------------------------
//
// State that leaks a little per record or per call (call depth, frames, local
// arrays, streams, cache slots) only shows after many repetitions: the same
// small programs, 1300 records.

func LongInput(n int) string {
	var b strings.Builder
	for i := 1; i <= n; i++ {
		fmt.Fprintf(&b, "%d f%d x%d\n", i, i%7, i%3)
	}
	return b.String()
}

// sub / gsub with an explicit target: the target becomes a string (the result
// of the substitution), also when nothing was substituted
var subTargetPrograms = []string{
	`BEGIN { v = 5; n = sub(/x/, "y", v); print n, (v < 10), (v == 5), v "", length(v) }`,
	`BEGIN { v = 5; n = gsub(/x/, "y", v); print n, (v < 10), (v < "10") }`,
	`BEGIN { n = sub(/x/, "y", u); print n, (u == 0), (u == ""), length(u) }`,
	`BEGIN { n = gsub(/x/, "y", u); print n, (u == 0), (u == "") }`,
	`BEGIN { a[1] = 12; n = sub(/x/, "y", a[1]); print n, (a[1] < 5), (a[1] < "5") }`,
	`BEGIN { CONVFMT = "%.2g"; w = 0.123456; n = gsub(/x/, "y", w); print n, w * 10, w }`,
	`BEGIN { CONVFMT = "%.2g"; w = 0.123456; n = sub(/1/, "7", w); print n, w * 10, w }`,
	`function f(p) { sub(/x/, "y", p); return (p < 10) (p == 5) } BEGIN { print f(5), f("5"), f(50) }`,
	`{ v = $1; n = sub(/x/, "y", v); print n, (v < 9), (v == $1) } END { NR = NR; sub(/x/, "y", NR); print (NR < 10) }`,
	`{ n = sub(/x/, "y", $2); print n, ($2 < 9), NF; n = gsub(/[0-9]/, "#", $1); print n, $1, $0 }`,
	`BEGIN { v = 10; n = sub(/1/, "2", v); print n, (v < 5), v + 1 }`,
}

var longPrograms = []string{
	`function f() { next } { n++; f(); m++ } END { print n, m, NR }`,
	`function f() { if (NR % 2) next; return 1 } { n += f() } END { print n, NR }`,
	`function g(d) { if (d > 0) return g(d - 1); next } { g(60) } END { print NR }`,
	`function g(d, la) { la[d] = d; if (d > 0) return g(d - 1); next } { g(20) } END { print NR }`,
	`function f() { nextfile } { n++; f() } END { print n, NR }`,
	`function f() { if (NR == 1200) exit 3 } { f() } END { print NR }`,
	`function f(la) { la[NR] = 1; la[NR + 1] = 2; return length(la) } { s += f() } END { print s }`,
	`function f(la) { la[NR] = 1; next } { f() } END { print NR }`,
	`function r(n) { return n ? r(n - 1) + 1 : 0 } { s += r(40) } END { print s }`,
	`function f(x) { return x + 1 } { s += f($1) } END { print s }`,
	`function f(a, b, c) { return a b c } { s = f($1, $2) } END { print s }`,
	`{ while ((getline line < "pre") > 0) n++; close("pre") } END { print n }`,
	`{ getline line < "pre" } END { print line, NR }`,
	`{ print $1 > "out" ($1 % 3) } END { close("out0"); while ((getline l < "out0") > 0) k++; print k }`,
	`{ print $1 > "out"; close("out") } END { getline l < "out"; print l }`,
	`{ print $1 >> "out"; if (NR % 100 == 0) close("out") } END { close("out"); while ((getline l < "out") > 0) k++; print k }`,
	`{ if ($0 ~ ("^" NR " ")) m++ } END { print m }`,
	`{ if (match($0, "f" (NR % 150))) m++; n += RSTART } END { print m, n }`,
	`{ s = s sprintf("%" (NR % 140 + 1) "d", 1) } END { print length(s) }`,
	`{ n += split($0, parts, "[" (NR % 130) "x ]") } END { print n }`,
	`{ t = $0; n += gsub("[f" (NR % 120) "]", "-", t) } END { print n }`,
	// deep recursion: the value stack grows in the middle of a function; locals assigned before a
	// nested call are re-read after it, at every depth
	`function chk(n, a, b, c) { a = n; b = n * 2; c = "s" n; if (n > 0) chk(n - 1); if (a != n || b != n * 2 || c != "s" n) bad = bad " " n; return a } BEGIN { for (d = 10; d <= 200; d += 10) chk(d); print "bad:" bad }`,
	`function cat(n, a, b) { a = "a" n; b = a "-" n "-" (n > 0 ? cat(n - 1) : "z") "-" a "-" n; if (a != "a" n) bad = bad " " n; return length(b) % 7 } BEGIN { for (d = 5; d <= 160; d += 5) t = t cat(d); print t; print "bad:" bad }`,
	`function arr(n, la, k) { la[n] = n; la["x"] = n + 1; if (n > 0) arr(n - 1); if (la[n] != n || la["x"] != n + 1 || length(la) != 2 - (n == "x")) bad = bad " " n; return 0 } BEGIN { arr(150); print "bad:" bad }`,
	`function fib(n, a, b) { if (n < 2) return n; a = fib(n - 1); b = fib(n - 2); return a + b } BEGIN { print fib(15) } function deep(n, s) { s = n; return n > 0 ? deep(n - 1) + (s == n) : 0 } END { print deep(300) }`,
	// after the caches are full: what is compiled / parsed next must behave like the first entries
	`{ r += ("x" NR) ~ ("^x" NR "$") } END { print r; match("xabcdabcd", "ab|abcd"); print RSTART, RLENGTH; s = "xabcdabcd"; print sub("ab|abcd", "<&>", s), s; n = split("1ab2abcd3", parts, "ab|abcd"); print n, parts[2]; print gsub(/a|ab/, "-", s), s; print "zab" ~ "^(z|za)b$" }`,
	`{ s = s sprintf("%" (NR % 140 + 1) "d", 1) } END { print length(s); printf "%5.2f|%-4d|%c|%s|%5s|%.2s|%i\n", 3.14159, 42, 65, "str", "ab", "abcdef", 7.9; printf "%d %d\n", 1 }`,
	`{ a[NR] = $0; delete a[NR - 1] } END { print length(a) }`,
	`{ a[$2, $3]++ } END { for (k in a) n += a[k]; print n, length(a) }`,
	`{ $(NF + 1) = NR; s += NF } END { print s }`,
	`{ $2 = ""; $0 = $0; s += NF } END { print s }`,
	`{ NF = 2; s = s length($0) % 10 } END { print length(s) }`,
	`{ for (i = 0; i < 5; i++) { if (i == 3) break; if (i == 1) continue; c++ } } END { print c }`,
	`{ do { j++; if (j % 7 == 0) break } while (j % 5) } END { print j }`,
	`{ for (k in a) { delete a[k]; break }; a[NR] } END { print length(a) }`,
	`NR % 50 == 1, NR % 50 == 10 { r++ } END { print r }`,
	`NR % 50 == 1, NR % 50 == 10 { r++; next } { o++ } END { print r, o }`,
	`{ x = x + 0 == 0 ? $1 : x "" } END { print x }`,
	`{ s = substr(s $2, 1, 50) } END { print s }`,
	`{ if ((getline nextl) > 0) n++ } END { print n, NR }`,
	`BEGIN { while ((getline l) > 0) { n++; if (n % 100 == 0) s = s l } print n, length(s), NR }`,
	`{ printf "%s %d %5.1f|", $2, $1, $1 / 3 > "out" } END { close("out"); getline l < "out"; print length(l) }`,
	`{ u = toupper($2) tolower("ABC") index($0, "x") length() int($1 / 7) } END { print u }`,
}

// LongPrograms returns the long-run programs (C11 runs those that do main-loop bookkeeping).
func LongPrograms() []string { return longPrograms }

func EnumSubTarget(thorough bool, f func(Case)) {
	for i, src := range subTargetPrograms {
		f(Case{Family: "subtarget", Name: fmt.Sprintf("s%d", i), Src: src + "\n"})
	}
}

func EnumLong(thorough bool, f func(Case)) {
	for i, src := range longPrograms {
		f(Case{Family: "longrun", Name: fmt.Sprintf("l%d", i), Src: src + "\n"})
	}
}

// EnumC01 enumerates all families.
func EnumC01(thorough bool, f func(Case)) {
	EnumMisc(thorough, f)
	EnumBuiltins(thorough, f)
	EnumCalls(thorough, f)
	EnumControl(thorough, f)
	EnumLvalue(thorough, f)
	EnumCond(thorough, f)
	EnumBoolValue(thorough, f)
	EnumSelfAssign(thorough, f)
	EnumEmptyBody(thorough, f)
	EnumSubTarget(thorough, f)
	EnumLong(thorough, f)
	EnumConcat(thorough, f)
	EnumPairs(thorough, f)
}

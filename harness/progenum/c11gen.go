package progenum

import (
	"fmt"
	"strings"
)

// C11: input bookkeeping programs (DESIGN.md §5 C11). Every program consists of
// an optional BEGIN, one or two pattern-action rules and an END; every action
// is a sequence of at most two "operations" and prints trace lines
//
//	tag|NR|FNR|FILENAME|NF|$0|v|r
//
// (r = result of the most recent getline). In "full" mode every action starts
// with a trace and every operation is bracketed by a :pre and a :post trace;
// in "lean" mode only the :post traces (and the END start trace) are printed,
// so that nothing forces field splitting before an operation.

type C11Prog struct {
	Family string // ops1, act2, two
	Name   string
	Src    string
	Begin  string // none, getline, getlinev, argv1, argc, append, exit
	Lean   bool
}

// C11Op is one operation: kind (gl, glv, glf:<file>, glvf:<file>, next,
// nextfile, exit) inside a wrapper ("-" none, "fn" function body, "loop").
type C11Op struct{ Wrap, Kind string }

func (o C11Op) Terminator() bool {
	return o.Kind == "next" || o.Kind == "nextfile" || strings.HasPrefix(o.Kind, "exit")
}

const c11Trace = `function tr(t) { printf "%s|%s|%s|%s|%s|%s|%s|%s\n", t, NR, FNR, FILENAME, NF, $0, v, r }`

type c11Builder struct {
	lean  bool
	funcs []string
}

// The variable of the getline-var forms is the global v in a plain statement, a
// local of the function in the "fn" wrapper and an array element in the "loop"
// wrapper (copied to v on success), so that every kind of variable target is covered.
func (b *c11Builder) core(kind, wrap, exitVal string) string {
	target, copy := "v", ""
	switch wrap {
	case "fn":
		target, copy = "lv", "; if (r > 0) v = lv"
	case "loop":
		target, copy = "a[i]", "; if (r > 0) v = a[i]"
	}
	switch {
	case kind == "gl":
		return "r = getline"
	case kind == "glv":
		return "r = getline " + target + copy
	case strings.HasPrefix(kind, "glf:"):
		return fmt.Sprintf(`r = (getline < "%s")`, kind[4:])
	case strings.HasPrefix(kind, "glvf:"):
		return fmt.Sprintf(`r = (getline %s < "%s")%s`, target, kind[5:], copy)
	case kind == "next", kind == "nextfile":
		return kind
	case kind == "exit":
		if exitVal == "" {
			return "exit"
		}
		return "exit " + exitVal
	}
	panic("c11 kind " + kind)
}

// op renders one operation at location loc ("R1.1", "B.1", "E.1").
func (b *c11Builder) op(loc string, o C11Op, exitVal string) string {
	kind := o.Kind
	tagKind := strings.Replace(kind, ":", ".", 1)
	if kind == "exit" {
		tagKind = "exit=" + exitVal
	}
	tag := loc + ":" + o.Wrap + ":" + tagKind
	core := b.core(kind, o.Wrap, exitVal)
	var triple string
	switch {
	case b.lean && o.Terminator():
		triple = core
	case b.lean:
		triple = fmt.Sprintf(`%s; tr("%s:post")`, core, tag)
	case o.Terminator():
		triple = fmt.Sprintf(`tr("%s:pre"); %s`, tag, core)
	default:
		triple = fmt.Sprintf(`tr("%s:pre"); %s; tr("%s:post")`, tag, core, tag)
	}
	switch o.Wrap {
	case "-":
		return triple
	case "fn":
		name := fmt.Sprintf("f%d", len(b.funcs)+1)
		b.funcs = append(b.funcs, fmt.Sprintf("function %s(lv) { %s }", name, triple))
		return name + "()"
	case "loop":
		return fmt.Sprintf("for (i = 0; i < 2; i++) { %s }", triple)
	}
	panic("c11 wrap " + o.Wrap)
}

func (b *c11Builder) action(loc string, ops []C11Op, exitVal string) string {
	var parts []string
	if !b.lean || len(ops) == 0 {
		parts = append(parts, fmt.Sprintf(`tr("%s.0:-:-:s")`, loc))
	}
	for i, o := range ops {
		parts = append(parts, b.op(fmt.Sprintf("%s.%d", loc, i+1), o, exitVal))
	}
	return "{ " + strings.Join(parts, "; ") + " }"
}

type C11Rule struct {
	Pattern string
	Ops     []C11Op
}

var C11BeginKinds = []string{"none", "getline", "argv1", "exit", "getlinev", "argc", "append", "argvsplit", "argvfunc", "argvdelete"}
var C11EndKinds = []string{"trace", "exit", "getline"}

// C11Build renders a complete program.
func C11Build(begin, end string, rules []C11Rule, lean bool) string {
	b := &c11Builder{lean: lean}
	var sb strings.Builder
	switch begin {
	case "none":
	case "getline":
		sb.WriteString("BEGIN " + b.action("B", []C11Op{{"-", "gl"}}, "") + "\n")
	case "getlinev":
		sb.WriteString("BEGIN " + b.action("B", []C11Op{{"-", "glv"}}, "") + "\n")
	case "exit":
		sb.WriteString("BEGIN " + b.action("B", []C11Op{{"-", "exit"}}, "2") + "\n")
	case "argv1":
		sb.WriteString(`BEGIN { ARGV[1] = "B"; tr("B.0:-:-:s") }` + "\n")
	case "argc":
		sb.WriteString(`BEGIN { ARGC = 2; tr("B.0:-:-:s") }` + "\n")
	case "append":
		sb.WriteString(`BEGIN { ARGV[ARGC++] = "A"; tr("B.0:-:-:s") }` + "\n")
	case "argvsplit":
		// the whole operand list replaced through split() (a new array value, not element edits)
		sb.WriteString(`BEGIN { ARGC = split("B A", ARGV) + 1; tr("B.0:-:-:s") }` + "\n")
	case "argvfunc":
		sb.WriteString(`function setops(arr) { return split("A", arr) }` + "\n" + `BEGIN { ARGC = setops(ARGV) + 1; tr("B.0:-:-:s") }` + "\n")
	case "argvdelete":
		sb.WriteString(`BEGIN { delete ARGV[1]; tr("B.0:-:-:s") }` + "\n")
	default:
		panic("c11 begin " + begin)
	}
	for i, r := range rules {
		loc := fmt.Sprintf("R%d", i+1)
		if r.Pattern != "" {
			sb.WriteString(r.Pattern + " ")
		}
		sb.WriteString(b.action(loc, r.Ops, fmt.Sprint(3+i)) + "\n")
	}
	// END always starts with a trace (also in lean mode)
	lb := &c11Builder{lean: false, funcs: b.funcs}
	switch end {
	case "trace":
		sb.WriteString("END " + lb.action("E", nil, "") + "\n")
	case "exit":
		sb.WriteString("END " + lb.action("E", []C11Op{{"-", "exit"}}, "") + "\n")
	case "exit5":
		sb.WriteString("END " + lb.action("E", []C11Op{{"-", "exit"}}, "5") + "\n")
	case "getline":
		sb.WriteString("END " + lb.action("E", []C11Op{{"-", "gl"}}, "") + "\n")
	case "getlinev":
		sb.WriteString("END " + lb.action("E", []C11Op{{"-", "glv"}}, "") + "\n")
	default:
		panic("c11 end " + end)
	}
	sb.WriteString(c11Trace + "\n")
	for _, f := range lb.funcs {
		sb.WriteString(f + "\n")
	}
	return sb.String()
}

// C11Patterns: plain, expression, regex, NR ranges (closing later, same record,
// never closing), range on field values.
func C11Patterns(thorough bool) []string {
	p := []string{"", "FNR == 1", "/2/", "NR == 2, NR == 3", "NR == 2, NR == 2", "NR == 2, NR == 1", `$1 ~ /a2/, $1 == "b1"`}
	if thorough {
		p = append(p, "NR == 3, NR == 4", "NR == 1, NR == 9", `$NF == "q", /1/`, "NR % 2")
	}
	return p
}

// C11Ops: the operation alphabet. file = name used by the getline-from-file forms.
func C11Ops(files []string, wraps []string) []C11Op {
	var ops []C11Op
	for _, w := range wraps {
		ops = append(ops, C11Op{w, "gl"}, C11Op{w, "glv"})
		for _, f := range files {
			ops = append(ops, C11Op{w, "glf:" + f}, C11Op{w, "glvf:" + f})
		}
		ops = append(ops, C11Op{w, "next"}, C11Op{w, "nextfile"}, C11Op{w, "exit"})
	}
	return ops
}

// C11Actions: all operation sequences of length <= maxLen (nothing after a
// terminator), shortest first.
func C11Actions(ops []C11Op, maxLen int) [][]C11Op {
	out := [][]C11Op{nil}
	if maxLen >= 1 {
		for _, o := range ops {
			out = append(out, []C11Op{o})
		}
	}
	if maxLen >= 2 {
		for _, o1 := range ops {
			if o1.Terminator() {
				continue
			}
			for _, o2 := range ops {
				out = append(out, []C11Op{o1, o2})
			}
		}
	}
	return out
}

func c11ActName(a []C11Op) string {
	if len(a) == 0 {
		return "t"
	}
	var s []string
	for _, o := range a {
		s = append(s, o.Wrap+o.Kind)
	}
	return strings.Join(s, "+")
}

// EnumC11 enumerates the program space, simplest first.
//
//	ops1: BEGIN kinds x END kinds x one plain rule with <= 1 unwrapped operation
//	      (thorough: <= 2) — meant to be crossed with every operand list
//	act2: one rule: every pattern x every action of <= 2 operations (all wrappers)
//	      (thorough: also x BEGIN kinds x END kinds for actions of <= 1 operation)
//	two:  two rules, every pattern x action of <= 1 operation each
//	      (thorough: first rule with <= 2 unwrapped operations)
func EnumC11(thorough bool, f func(C11Prog)) {
	gfiles := []string{"G"}
	if thorough {
		gfiles = []string{"G", "M", "A"}
	}
	plainOps := C11Ops([]string{"G"}, []string{"-"})
	allOps := C11Ops([]string{"G"}, []string{"-", "fn", "loop"})
	allOpsT := C11Ops(gfiles, []string{"-", "fn", "loop"})
	pats := C11Patterns(thorough)
	begins := C11BeginKinds
	ends := C11EndKinds
	if thorough {
		ends = []string{"trace", "exit", "getline", "exit5", "getlinev"}
	}
	modes := []bool{false, true}

	// ops1
	n1 := 1
	if thorough {
		n1 = 2
	}
	for _, lean := range modes {
		for _, act := range C11Actions(plainOps, n1) {
			for _, bk := range begins {
				for _, ek := range ends {
					src := C11Build(bk, ek, []C11Rule{{"", act}}, lean)
					f(C11Prog{Family: "ops1", Name: fmt.Sprintf("lean=%v/B=%s/E=%s/%s", lean, bk, ek, c11ActName(act)), Src: src, Begin: bk, Lean: lean})
				}
			}
		}
	}
	// act2
	ops2 := allOps
	if thorough {
		ops2 = allOpsT
	}
	for _, lean := range modes {
		for _, act := range C11Actions(ops2, 2) {
			for pi, p := range pats {
				src := C11Build("none", "trace", []C11Rule{{p, act}}, lean)
				f(C11Prog{Family: "act2", Name: fmt.Sprintf("lean=%v/p%d/%s", lean, pi, c11ActName(act)), Src: src, Begin: "none", Lean: lean})
			}
		}
	}
	if thorough {
		for _, act := range C11Actions(allOps, 1) {
			for pi, p := range pats {
				for _, bk := range begins {
					for _, ek := range ends {
						if bk == "none" && ek == "trace" {
							continue
						}
						src := C11Build(bk, ek, []C11Rule{{p, act}}, false)
						f(C11Prog{Family: "act2be", Name: fmt.Sprintf("B=%s/E=%s/p%d/%s", bk, ek, pi, c11ActName(act)), Src: src, Begin: bk})
					}
				}
			}
		}
	}
	// two
	acts1 := C11Actions(allOps, 1)
	first := acts1
	if thorough {
		first = append(append([][]C11Op{}, acts1...), C11Actions(plainOps, 2)[len(plainOps)+1:]...)
	}
	for _, a1 := range first {
		for p1i, p1 := range pats {
			for _, a2 := range acts1 {
				for p2i, p2 := range pats {
					src := C11Build("none", "trace", []C11Rule{{p1, a1}, {p2, a2}}, false)
					f(C11Prog{Family: "two", Name: fmt.Sprintf("p%d/%s//p%d/%s", p1i, c11ActName(a1), p2i, c11ActName(a2)), Src: src, Begin: "none"})
				}
			}
		}
	}
}

#!/bin/bash
# setup_cmd: build the framework from files on disk only (offline).
set -e
export GOFLAGS=-mod=mod GOPROXY=off GOSUMDB=off GOTOOLCHAIN=local CGO_ENABLED=0
V=${VERIF_DIR:-/verif}
rm -rf $V/work
mkdir -p $V/work/bin $V/evidence $V/replays
(cd $V/tools/mkoverlay && go build -o $V/work/bin/mkoverlay .)
(cd /repo && $V/work/bin/mkoverlay -repo /repo -inject $V/inject -work $V/work)
(cd $V/harness && go build -tags verif -overlay $V/work/overlay.json -o $V/work/bin/vcheck ./cmd/vcheck)
(cd /repo && go build -overlay $V/work/overlay_plain.json -o $V/work/bin/goawk .)
# warm the build cache for the supplementary -race pass of C19 (best effort)
(cd $V/harness && CGO_ENABLED=1 go build -race -tags verif -overlay $V/work/overlay.json -o $V/work/bin/vrace ./cmd/vrace) || echo "note: -race build unavailable"
if [ -f $V/chelper/cprintf.c ]; then gcc -O1 -o $V/work/bin/cprintf $V/chelper/cprintf.c; fi
echo "setup ok"

//go:build verif

// Package bcverify is a bytecode verifier for goawk's compiled programs: an
// exhaustive exploration of the control-flow automaton of each code block with
// states (ip, stack depth), taking both branches of every jump. It establishes,
// for ALL inputs of the verified program, that the VM never pops below the
// block's base, that every join is reached with one depth, that every jump
// lands on an instruction boundary inside its block and that every operand
// indexes inside its table. The table is keyed by opcode NAME (Opcode.String()).
package bcverify

import (
	"fmt"
	"strings"

	"github.com/benhoyt/goawk/internal/ast"
	"github.com/benhoyt/goawk/internal/compiler"
	"github.com/benhoyt/goawk/internal/resolver"
	"github.com/benhoyt/goawk/parser"
)

type effect struct {
	operands int
	pops     int
	pushes   int
	kind     string // "", jump, cjump, term, forin, special
}

var table = map[string]effect{
	"Nop": {0, 0, 0, ""}, "Num": {1, 0, 1, "special"}, "Str": {1, 0, 1, "special"}, "Regex": {1, 0, 1, "special"},
	"Dupe": {0, 1, 2, ""}, "Drop": {0, 1, 0, ""}, "Swap": {0, 2, 2, ""}, "Rote": {0, 3, 3, ""},
	"Field": {0, 1, 1, ""}, "FieldInt": {1, 0, 1, ""}, "FieldByName": {0, 1, 1, ""}, "FieldByNameStr": {1, 0, 1, "special"},
	"Global": {1, 0, 1, "special"}, "Local": {1, 0, 1, "special"}, "Special": {1, 0, 1, "special"},
	"ArrayGlobal": {1, 1, 1, "special"}, "ArrayLocal": {1, 1, 1, "special"}, "InGlobal": {1, 1, 1, "special"}, "InLocal": {1, 1, 1, "special"},
	"AssignField": {0, 2, 0, ""}, "AssignFieldSub": {0, 2, 0, "special"},
	"AssignGlobal": {1, 1, 0, "special"}, "AssignLocal": {1, 1, 0, "special"}, "AssignSpecial": {1, 1, 0, "special"},
	"AssignArrayGlobal": {1, 2, 0, "special"}, "AssignArrayLocal": {1, 2, 0, "special"},
	"Delete": {2, 1, 0, "special"}, "DeleteAll": {2, 0, 0, "special"},
	"IncrField": {1, 1, 0, ""}, "IncrGlobal": {2, 0, 0, "special"}, "IncrLocal": {2, 0, 0, "special"}, "IncrSpecial": {2, 0, 0, "special"},
	"IncrArrayGlobal": {2, 1, 0, "special"}, "IncrArrayLocal": {2, 1, 0, "special"},
	"AugAssignField": {1, 2, 0, "special"}, "AugAssignGlobal": {2, 1, 0, "special"}, "AugAssignLocal": {2, 1, 0, "special"}, "AugAssignSpecial": {2, 1, 0, "special"},
	"AugAssignArrayGlobal": {2, 2, 0, "special"}, "AugAssignArrayLocal": {2, 2, 0, "special"},
	"IndexMulti": {1, -1, 1, "special"}, "ConcatMulti": {1, -1, 1, "special"},
	"Add": {0, 2, 1, ""}, "Subtract": {0, 2, 1, ""}, "Multiply": {0, 2, 1, ""}, "Divide": {0, 2, 1, ""}, "Power": {0, 2, 1, ""}, "Modulo": {0, 2, 1, ""},
	"Equals": {0, 2, 1, ""}, "NotEquals": {0, 2, 1, ""}, "Less": {0, 2, 1, ""}, "Greater": {0, 2, 1, ""}, "LessOrEqual": {0, 2, 1, ""}, "GreaterOrEqual": {0, 2, 1, ""},
	"Concat": {0, 2, 1, ""}, "Match": {0, 2, 1, ""}, "NotMatch": {0, 2, 1, ""},
	"Not": {0, 1, 1, ""}, "UnaryMinus": {0, 1, 1, ""}, "UnaryPlus": {0, 1, 1, ""}, "Boolean": {0, 1, 1, ""},
	"Jump": {1, 0, 0, "jump"}, "JumpFalse": {1, 1, 0, "cjump"}, "JumpTrue": {1, 1, 0, "cjump"},
	"JumpEquals": {1, 2, 0, "cjump"}, "JumpNotEquals": {1, 2, 0, "cjump"}, "JumpLess": {1, 2, 0, "cjump"}, "JumpGreater": {1, 2, 0, "cjump"},
	"JumpLessOrEqual": {1, 2, 0, "cjump"}, "JumpGreaterOrEqual": {1, 2, 0, "cjump"},
	"Next": {0, 0, 0, "term"}, "Nextfile": {0, 0, 0, "term"}, "Exit": {0, 0, 0, "term"}, "ExitStatus": {0, 1, 0, "term"},
	"ForIn": {5, 0, 0, "forin"}, "BreakForIn": {0, 0, 0, "term"},
	"CallBuiltin": {1, -1, -1, "special"}, "CallLengthArray": {2, 0, 1, "special"}, "CallSplit": {2, 1, 1, "special"}, "CallSplitSep": {3, 2, 1, "special"},
	"CallSprintf": {1, -1, 1, "special"}, "CallUser": {2, -1, 1, "special"}, "CallNative": {2, -1, 1, "special"},
	"Return": {0, 1, 0, "term"}, "ReturnNull": {0, 0, 0, "term"}, "Nulls": {1, 0, -1, "special"},
	"Print": {2, -1, 0, "special"}, "Printf": {2, -1, 0, "special"},
	"Getline": {1, -1, 1, "special"}, "GetlineField": {1, -1, 1, "special"}, "GetlineGlobal": {2, -1, 1, "special"}, "GetlineLocal": {2, -1, 1, "special"},
	"GetlineSpecial": {2, -1, 1, "special"}, "GetlineArray": {3, -1, 1, "special"},
}

var builtinEffect = map[string][2]int{
	"BuiltinAtan2": {2, 1}, "BuiltinIndex": {2, 1}, "BuiltinMatch": {2, 1}, "BuiltinSubstr": {2, 1}, "BuiltinSubstrLength": {3, 1},
	"BuiltinSub": {3, 2}, "BuiltinGsub": {3, 2}, "BuiltinFflushAll": {0, 1}, "BuiltinLength": {0, 1}, "BuiltinRand": {0, 1}, "BuiltinSrand": {0, 1},
	"BuiltinClose": {1, 1}, "BuiltinCos": {1, 1}, "BuiltinExp": {1, 1}, "BuiltinFflush": {1, 1}, "BuiltinInt": {1, 1}, "BuiltinLengthArg": {1, 1}, "BuiltinLog": {1, 1},
	"BuiltinSin": {1, 1}, "BuiltinSqrt": {1, 1}, "BuiltinSrandSeed": {1, 1}, "BuiltinSystem": {1, 1}, "BuiltinTolower": {1, 1}, "BuiltinToupper": {1, 1},
}

// Stats reports what the verifier explored.
type Stats struct {
	Blocks, States, Transitions int
}

type verifier struct {
	prog        *parser.Program
	nGlobals    int
	nArrays     int
	nNative     int
	problems    []string
	stats       Stats
	localScalar int
	localArrays int
	inFunc      bool
}

func (v *verifier) bad(block string, ip int, format string, a ...any) {
	if len(v.problems) < 20 {
		v.problems = append(v.problems, fmt.Sprintf("%s@%d: ", block, ip)+fmt.Sprintf(format, a...))
	}
}

// Verify checks every code block of the compiled program. It returns the
// list of violated obligations (empty = well-formed) and exploration counts.
func Verify(prog *parser.Program) ([]string, Stats) {
	v := &verifier{prog: prog}
	prog.IterVars("", func(name string, info resolver.VarInfo) {
		if info.Type == resolver.Array {
			v.nArrays++
		} else {
			v.nGlobals++
		}
	})
	prog.IterFuncs(func(name string, info resolver.FuncInfo) {
		if info.Native {
			v.nNative++
		}
	})
	c := prog.Compiled
	v.block("BEGIN", c.Begin, 0, 0, false)
	for i, a := range c.Actions {
		for j, p := range a.Pattern {
			v.block(fmt.Sprintf("action%d.pattern%d", i, j), p, 0, 1, false)
		}
		v.block(fmt.Sprintf("action%d.body", i), a.Body, 0, 0, false)
	}
	v.block("END", c.End, 0, 0, false)
	for _, f := range c.Functions {
		v.inFunc = true
		v.localScalar, v.localArrays = f.NumScalars, f.NumArrays
		v.block("func "+f.Name, f.Body, 0, 0, false)
		v.inFunc = false
	}
	return v.problems, v.stats
}

// block explores code from depth `base` (also the floor); falling off the end
// must happen at depth base+endDelta.
func (v *verifier) block(name string, code []compiler.Opcode, base, endDelta int, inForIn bool) {
	v.stats.Blocks++
	// instruction boundaries by linear decoding
	boundary := make([]bool, len(code)+1)
	for ip := 0; ip < len(code); {
		boundary[ip] = true
		e, ok := table[code[ip].String()]
		if !ok {
			v.bad(name, ip, "unknown opcode %s", code[ip])
			return
		}
		n := e.operands
		if code[ip].String() == "CallUser" {
			if ip+2 >= len(code) {
				v.bad(name, ip, "truncated CallUser")
				return
			}
			n = 2 + 2*int(code[ip+2])
		}
		if code[ip].String() == "ForIn" {
			if ip+5 >= len(code) {
				v.bad(name, ip, "truncated ForIn")
				return
			}
			off := int(code[ip+5])
			if off < 0 || ip+6+off > len(code) {
				v.bad(name, ip, "ForIn body out of block")
				return
			}
			// the body is a block of its own; skip over it for boundary purposes
			v.markForIn(boundary, ip+6, ip+6+off)
			ip = ip + 6 + off
			continue
		}
		if ip+n >= len(code)+0 && ip+1+n > len(code) {
			v.bad(name, ip, "truncated operands of %s", code[ip])
			return
		}
		ip += 1 + n
	}
	boundary[len(code)] = true

	depthAt := map[int]int{}
	type st struct{ ip, d int }
	work := []st{{0, base}}
	visit := func(ip, d, from int) {
		if ip < 0 || ip > len(code) || !boundary[ip] {
			v.bad(name, from, "jump target %d is not an instruction boundary inside the block", ip)
			return
		}
		v.stats.Transitions++
		if old, ok := depthAt[ip]; ok {
			if old != d {
				v.bad(name, ip, "join reached with stack depth %d and %d", old, d)
			}
			return
		}
		depthAt[ip] = d
		v.stats.States++
		work = append(work, st{ip, d})
	}
	depthAt[0] = base
	v.stats.States++
	for len(work) > 0 {
		s := work[len(work)-1]
		work = work[:len(work)-1]
		ip, d := s.ip, s.d
		if ip == len(code) {
			if d != base+endDelta {
				v.bad(name, ip, "block ends with stack depth %d, expected %d", d-base, endDelta)
			}
			continue
		}
		op := code[ip].String()
		e := table[op]
		arg := func(i int) int { return int(code[ip+1+i]) }
		pops, pushes := e.pops, e.pushes
		next := ip + 1 + e.operands
		switch op {
		case "Num":
			v.idx(name, ip, arg(0), len(v.prog.Compiled.Nums), "number constant")
		case "Str", "FieldByNameStr":
			v.idx(name, ip, arg(0), len(v.prog.Compiled.Strs), "string constant")
		case "Regex":
			v.idx(name, ip, arg(0), len(v.prog.Compiled.Regexes), "regex constant")
		case "Global", "AssignGlobal":
			v.idx(name, ip, arg(0), v.nGlobals, "global")
		case "Local", "AssignLocal":
			v.local(name, ip, arg(0), false)
		case "Special", "AssignSpecial":
			v.special(name, ip, arg(0))
		case "ArrayGlobal", "InGlobal", "AssignArrayGlobal":
			v.idx(name, ip, arg(0), v.nArrays, "global array")
		case "ArrayLocal", "InLocal", "AssignArrayLocal":
			v.local(name, ip, arg(0), true)
		case "AssignFieldSub":
			if d-2 < base+1 {
				v.bad(name, ip, "AssignFieldSub needs the substitution count below its operands")
			}
		case "Delete", "DeleteAll", "CallLengthArray", "CallSplit", "CallSplitSep":
			v.scoped(name, ip, arg(0), arg(1), true)
		case "IncrGlobal":
			v.idx(name, ip, arg(1), v.nGlobals, "global")
		case "IncrLocal":
			v.local(name, ip, arg(1), false)
		case "IncrSpecial":
			v.special(name, ip, arg(1))
		case "IncrArrayGlobal":
			v.idx(name, ip, arg(1), v.nArrays, "global array")
		case "IncrArrayLocal":
			v.local(name, ip, arg(1), true)
		case "AugAssignField":
			v.idx(name, ip, arg(0), 6, "augmented operation")
		case "AugAssignGlobal":
			v.idx(name, ip, arg(0), 6, "augmented operation")
			v.idx(name, ip, arg(1), v.nGlobals, "global")
		case "AugAssignLocal":
			v.idx(name, ip, arg(0), 6, "augmented operation")
			v.local(name, ip, arg(1), false)
		case "AugAssignSpecial":
			v.idx(name, ip, arg(0), 6, "augmented operation")
			v.special(name, ip, arg(1))
		case "AugAssignArrayGlobal":
			v.idx(name, ip, arg(0), 6, "augmented operation")
			v.idx(name, ip, arg(1), v.nArrays, "global array")
		case "AugAssignArrayLocal":
			v.idx(name, ip, arg(0), 6, "augmented operation")
			v.local(name, ip, arg(1), true)
		case "IndexMulti", "ConcatMulti":
			pops = arg(0)
			if pops < 2 {
				v.bad(name, ip, "%s of %d values", op, pops)
			}
		case "CallSprintf":
			pops = arg(0)
			if pops < 1 {
				v.bad(name, ip, "CallSprintf without a format")
			}
		case "CallBuiltin":
			b := compiler.BuiltinOp(code[ip+1]).String()
			be, ok := builtinEffect[b]
			if !ok {
				v.bad(name, ip, "unknown builtin %s", b)
				continue
			}
			pops, pushes = be[0], be[1]
		case "CallUser":
			f, k := arg(0), arg(1)
			next = ip + 3 + 2*k
			if f < 0 || f >= len(v.prog.Compiled.Functions) {
				v.bad(name, ip, "function index %d out of range", f)
				continue
			}
			fn := v.prog.Compiled.Functions[f]
			if k > fn.NumArrays {
				v.bad(name, ip, "%d array arguments for %d array parameters of %s", k, fn.NumArrays, fn.Name)
			}
			for j := 0; j < k; j++ {
				v.scoped(name, ip, int(code[ip+3+2*j]), int(code[ip+4+2*j]), true)
			}
			pops = fn.NumScalars
		case "CallNative":
			v.idx(name, ip, arg(0), v.nNative, "native function")
			pops = arg(1)
		case "Nulls":
			pushes = arg(0)
			if pushes < 0 {
				v.bad(name, ip, "negative Nulls")
			}
		case "Print", "Printf":
			pops = arg(0)
			if arg(1) != 0 {
				pops++
			}
			if op == "Printf" && arg(0) < 1 {
				v.bad(name, ip, "Printf without a format")
			}
		case "Getline":
			pops = redir(arg(0))
		case "GetlineField":
			pops = 1 + redir(arg(0))
		case "GetlineGlobal":
			pops = redir(arg(0))
			v.idx(name, ip, arg(1), v.nGlobals, "global")
		case "GetlineLocal":
			pops = redir(arg(0))
			v.local(name, ip, arg(1), false)
		case "GetlineSpecial":
			pops = redir(arg(0))
			v.special(name, ip, arg(1))
		case "GetlineArray":
			pops = 1 + redir(arg(0))
			v.scoped(name, ip, arg(1), arg(2), true)
		}
		if d-pops < base {
			v.bad(name, ip, "%s pops %d with only %d on the stack", op, pops, d-base)
			continue
		}
		nd := d - pops + pushes
		switch e.kind {
		case "jump":
			visit(next+arg(0), nd, ip)
		case "cjump":
			visit(next, nd, ip)
			visit(next+arg(0), nd, ip)
		case "term":
			if op == "BreakForIn" && !inForIn {
				v.bad(name, ip, "BreakForIn outside a for-in body")
			}
			if (op == "Return" || op == "ReturnNull") && !v.inFunc {
				v.bad(name, ip, "%s outside a function", op)
			}
		case "forin":
			v.scopedVar(name, ip, arg(0), arg(1))
			v.scoped(name, ip, arg(2), arg(3), true)
			off := arg(4)
			v.block(name+".forin", code[ip+6:ip+6+off], d, 0, true)
			visit(ip+6+off, d, ip)
		default:
			visit(next, nd, ip)
		}
	}
}

func (v *verifier) markForIn(boundary []bool, from, to int) {
	// positions inside a for-in body are not boundaries of the enclosing block
}

func redir(tok int) int {
	if tok != 0 {
		return 1
	}
	return 0
}

func (v *verifier) idx(name string, ip, i, n int, what string) {
	if i < 0 || i >= n {
		v.bad(name, ip, "%s index %d out of range (table size %d)", what, i, n)
	}
}

func (v *verifier) special(name string, ip, i int) {
	if i < 1 || i > ast.V_LAST {
		v.bad(name, ip, "special variable index %d out of range", i)
	}
}

func (v *verifier) local(name string, ip, i int, array bool) {
	if !v.inFunc {
		v.bad(name, ip, "local access outside a function")
		return
	}
	n := v.localScalar
	if array {
		n = v.localArrays
	}
	if i < 0 || i >= n {
		v.bad(name, ip, "local index %d out of range (%d)", i, n)
	}
}

func (v *verifier) scoped(name string, ip, scope, i int, array bool) {
	switch resolver.Scope(scope) {
	case resolver.Global:
		if array {
			v.idx(name, ip, i, v.nArrays, "global array")
		} else {
			v.idx(name, ip, i, v.nGlobals, "global")
		}
	case resolver.Local:
		v.local(name, ip, i, array)
	default:
		v.bad(name, ip, "bad scope %d", scope)
	}
}

func (v *verifier) scopedVar(name string, ip, scope, i int) {
	switch resolver.Scope(scope) {
	case resolver.Global:
		v.idx(name, ip, i, v.nGlobals, "global")
	case resolver.Local:
		v.local(name, ip, i, false)
	case resolver.Special:
		v.special(name, ip, i)
	default:
		v.bad(name, ip, "bad scope %d", scope)
	}
}

// Summary is a one-line description for evidence files.
func Summary(problems []string) string { return strings.Join(problems, "; ") }

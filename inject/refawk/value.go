//go:build verif

// Package refawk is an independent tree-walking reference evaluator for AWK
// programs parsed by goawk's parser. It shares only the lexer/parser (the
// syntax tree) with the implementation: no resolver tables, no compiler, no
// VM, none of interp's value/io/function code. See DESIGN.md E4 / Appendix B.
package refawk

import (
	"fmt"
	"math"
	"strconv"
	"strings"
)

type kind uint8

const (
	kUnset kind = iota
	kNum
	kStr
	kStrnum // input-derived text: number if it looks like one
)

type Value struct {
	k kind
	s string
	n float64
}

func num(n float64) Value    { return Value{k: kNum, n: n} }
func str(s string) Value     { return Value{k: kStr, s: s} }
func strnum(s string) Value  { return Value{k: kStrnum, s: s} }
func boolv(b bool) Value {
	if b {
		return num(1)
	}
	return num(0)
}

func isBlank(c byte) bool {
	return c == ' ' || c == '\t' || c == '\n' || c == '\v' || c == '\f' || c == '\r'
}

func isDig(c byte) bool { return c >= '0' && c <= '9' }

// scanDecimal returns the end offset of the longest decimal floating-point
// literal (optional sign, digits, optional fraction, optional exponent that
// has at least one digit) starting at s[i], or i if there is none.
func scanDecimal(s string, i int) int {
	j := i
	if j < len(s) && (s[j] == '+' || s[j] == '-') {
		j++
	}
	digits := 0
	for j < len(s) && isDig(s[j]) {
		j++
		digits++
	}
	if j < len(s) && s[j] == '.' {
		j++
		for j < len(s) && isDig(s[j]) {
			j++
			digits++
		}
	}
	if digits == 0 {
		return i
	}
	end := j
	if j < len(s) && (s[j] == 'e' || s[j] == 'E') {
		k := j + 1
		if k < len(s) && (s[k] == '+' || s[k] == '-') {
			k++
		}
		if k < len(s) && isDig(s[k]) {
			for k < len(s) && isDig(s[k]) {
				k++
			}
			end = k
		}
	}
	return end
}

// prefixNum: longest leading numeric prefix after blanks, else 0.
// exotic: forms whose classification the property leaves open (hex, inf, nan);
// the model refuses them instead of prescribing an answer.
func exotic(s string, i int) bool {
	if i < len(s) && (s[i] == '+' || s[i] == '-') {
		i++
	}
	if i+1 < len(s) && s[i] == '0' && (s[i+1] == 'x' || s[i+1] == 'X') {
		return true
	}
	if i+2 < len(s) {
		t := strings.ToLower(s[i : i+3])
		return t == "inf" || t == "nan"
	}
	return false
}

type Unsupported struct{ Msg string }

func prefixNum(s string) float64 {
	i := 0
	for i < len(s) && isBlank(s[i]) {
		i++
	}
	if exotic(s, i) {
		panic(Unsupported{"hex/inf/nan numeric string"})
	}
	end := scanDecimal(s, i)
	if end == i {
		return 0
	}
	f, _ := strconv.ParseFloat(s[i:end], 64)
	return f
}

// looksNumeric: the whole string, blanks trimmed, is a decimal number.
func looksNumeric(s string) (float64, bool) {
	i, j := 0, len(s)
	for i < j && isBlank(s[i]) {
		i++
	}
	for j > i && isBlank(s[j-1]) {
		j--
	}
	if i == j {
		return 0, false
	}
	if exotic(s, i) {
		panic(Unsupported{"hex/inf/nan numeric string"})
	}
	end := scanDecimal(s, i)
	if end != j {
		return 0, false
	}
	f, err := strconv.ParseFloat(s[i:j], 64)
	if err != nil && math.IsInf(f, 0) {
		return 0, false // out of range: classification left open, treated as string
	}
	return f, true
}

func (v Value) toNum() float64 {
	switch v.k {
	case kNum:
		return v.n
	case kStr, kStrnum:
		return prefixNum(v.s)
	}
	return 0
}

// isTrueStr: (number, false) if the value compares numerically.
func (v Value) numeric() (float64, bool) {
	switch v.k {
	case kNum:
		return v.n, true
	case kUnset:
		return 0, true
	case kStrnum:
		return looksNumeric(v.s)
	}
	return 0, false
}

func (v Value) truth() bool {
	switch v.k {
	case kNum:
		return v.n != 0
	case kStr:
		return v.s != ""
	case kStrnum:
		if f, ok := looksNumeric(v.s); ok {
			return f != 0
		}
		return v.s != ""
	}
	return false
}

func fmtNum(n float64, format string) string {
	switch {
	case math.IsNaN(n):
		return "nan"
	case math.IsInf(n, 1):
		return "inf"
	case math.IsInf(n, -1):
		return "-inf"
	case n == math.Trunc(n) && n >= -9223372036854775808.0 && n < 9223372036854775808.0:
		return strconv.FormatInt(int64(n), 10)
	}
	if format == "%.6g" {
		return strconv.FormatFloat(n, 'g', 6, 64)
	}
	return fmt.Sprintf(format, n)
}

func (v Value) toStr(format string) string {
	if v.k == kNum {
		return fmtNum(v.n, format)
	}
	return v.s
}

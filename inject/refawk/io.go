//go:build verif

package refawk

import (
	"fmt"
	"math"
	"regexp"
	"strconv"
	"strings"
	"unicode/utf8"

	"github.com/benhoyt/goawk/internal/ast"
	"github.com/benhoyt/goawk/lexer"
)

// ---------------------------------------------------------------- input

func (e *evaluator) newReader(data string) *reader {
	r := &reader{data: data}
	switch {
	case e.rs == "\n":
		r.mode = "newline"
	case e.rs == "":
		r.mode = "para"
	case len(e.rs) == 1:
		r.mode = "byte"
		r.sep = e.rs[0]
	default:
		r.mode = "regex"
	}
	return r
}

// read returns the next record of r (splitting rule fixed when the reader was
// created; a regex separator is the one current at the time of the read).
func (e *evaluator) read(r *reader, setRT bool) (string, bool) {
	if r.pos >= len(r.data) {
		return "", false
	}
	rest := r.data[r.pos:]
	switch r.mode {
	case "newline":
		if setRT {
			e.rt = e.rs
		}
		i := strings.IndexByte(rest, '\n')
		if i < 0 {
			r.pos = len(r.data)
			return strings.TrimSuffix(rest, "\r"), true
		}
		r.pos += i + 1
		return strings.TrimSuffix(rest[:i], "\r"), true
	case "byte":
		if setRT {
			e.rt = e.rs
		}
		i := strings.IndexByte(rest, r.sep)
		if i < 0 {
			r.pos = len(r.data)
			return rest, true
		}
		r.pos += i + 1
		return rest[:i], true
	case "para":
		if strings.ContainsRune(rest, '\r') {
			panic(unsupported{"CR in paragraph mode"})
		}
		j := 0
		for j < len(rest) && rest[j] == '\n' {
			j++
		}
		if j == len(rest) {
			r.pos = len(r.data)
			return "", false
		}
		body := rest[j:]
		loc := paraSep.FindStringIndex(body)
		if loc == nil {
			r.pos = len(r.data)
			rec := strings.TrimSuffix(body, "\n")
			e.rt = body[len(rec):]
			return rec, true
		}
		e.rt = body[loc[0]:loc[1]]
		r.pos += j + loc[1]
		return body[:loc[0]], true
	default:
		var re *regexp.Regexp
		if utf8.RuneCountInString(e.rs) == 1 || e.rs == "" {
			re = e.regex(regexp.QuoteMeta(e.rs))
		} else {
			re = e.regex(e.rs)
		}
		loc := re.FindStringIndex(rest)
		if loc == nil || loc[0] == loc[1] {
			if loc != nil {
				panic(unsupported{"RS regex matching the empty string"})
			}
			r.pos = len(r.data)
			e.rt = ""
			return rest, true
		}
		e.rt = rest[loc[0]:loc[1]]
		r.pos += loc[1]
		return rest[:loc[0]], true
	}
}

var paraSep = regexp.MustCompile("\n\n+")

var varAssign = regexp.MustCompile(`^([_a-zA-Z][_a-zA-Z0-9]*)=(.*)`)

// nextMainRecord walks the operands (ARGV) and returns the next main-input record.
func (e *evaluator) nextMainRecord() (string, bool) {
	for {
		if e.mainReader == nil {
			argc := truncInt(e.argc.toNum())
			if e.argIndex >= argc && !e.hadFiles {
				e.mainReader = e.newReader(e.cfg.Stdin)
				e.cfg.Stdin = ""
				e.filename = strnum("-")
				e.fnr = num(0)
				e.hadFiles = true
			} else {
				if e.argIndex >= argc {
					return "", false
				}
				argv := e.arrayOf(e.global("ARGV"))
				name := e.toStr(argv.m[strconv.Itoa(e.argIndex)])
				e.argIndex++
				if m := varAssign.FindStringSubmatch(name); m != nil {
					val := m[2]
					if u, err := lexer.Unescape(val); err == nil {
						val = u
					}
					e.setVarByName(m[1], val)
					continue
				}
				if name == "" {
					continue
				}
				if name == "-" {
					e.mainReader = e.newReader(e.cfg.Stdin)
					e.cfg.Stdin = ""
				} else {
					data, ok := e.fsys[name]
					if !ok {
						if e.inGetline {
							// getline returns -1: no file was entered, so FILENAME, FNR
							// and NR stay as they are; the operand is used up
							e.getlineFailed = true
							return "", false
						}
						panic(rtError{"file not found: " + name})
					}
					if e.outOpen[name] {
						panic(unsupported{"reading a file that is open for writing"})
					}
					e.mainReader = e.newReader(data)
				}
				e.filename = strnum(name)
				e.fnr = num(0)
				e.hadFiles = true
			}
		}
		// (unspecified corner, mirrored: RT is reset to RS before every attempt to
		// read the main input, also the one that hits end of file)
		e.rt = e.rs
		rec, ok := e.read(e.mainReader, true)
		if ok {
			e.nr = num(e.nr.toNum() + 1)
			e.fnr = num(e.fnr.toNum() + 1)
			return rec, true
		}
		e.mainReader = nil
	}
}

func (e *evaluator) getline(x *ast.GetlineExpr) Value {
	if x.Command != nil {
		panic(unsupported{"cmd | getline"})
	}
	// target subscript/index is evaluated before the file name
	var l lref
	hasTarget := x.Target != nil
	if hasTarget {
		l = e.lvalue(x.Target)
	}
	var rec string
	if x.File != nil {
		name := e.toStr(e.expr(x.File))
		if e.outOpen[name] {
			panic(rtError{"can't read from writer stream"})
		}
		if name == "-" {
			panic(unsupported{"getline < \"-\""})
		}
		r := e.inOpen[name]
		if r == nil {
			data, ok := e.fsys[name]
			if !ok {
				return num(-1)
			}
			r = e.newReader(data)
			e.inOpen[name] = r
		}
		s, ok := e.read(r, false)
		if !ok {
			return num(0)
		}
		rec = s
	} else {
		e.inGetline = true
		e.getlineFailed = false
		s, ok := e.nextMainRecord()
		e.inGetline = false
		if !ok {
			if e.getlineFailed {
				return num(-1)
			}
			return num(0)
		}
		rec = s
	}
	if hasTarget {
		if l.kind == 1 {
			e.setField(l.field, rec)
		} else {
			e.store(l, strnum(rec))
		}
	} else {
		e.setLine(rec, true)
	}
	return num(1)
}

// ---------------------------------------------------------------- output

func (e *evaluator) outputFor(redirect lexer.Token, dest ast.Expr) func(s string) {
	if redirect == lexer.ILLEGAL {
		return func(s string) { e.stdout.WriteString(s) }
	}
	name := e.toStr(e.expr(dest))
	return e.outputNamed(redirect, name)
}

func (e *evaluator) outputNamed(redirect lexer.Token, name string) func(s string) {
	if redirect == lexer.PIPE {
		panic(unsupported{"print | cmd"})
	}
	if _, ok := e.inOpen[name]; ok {
		panic(rtError{"can't write to reader stream"})
	}
	if !e.outOpen[name] {
		switch name {
		case "-", "/dev/stdout":
			return func(s string) { e.stdout.WriteString(s) }
		case "/dev/stderr":
			return func(s string) { e.stderr.WriteString(s) }
		}
		if strings.Contains(name, "/") || name == "" {
			panic(unsupported{"output file name " + name})
		}
		if redirect == lexer.GREATER {
			e.fsys[name] = ""
		} else if _, ok := e.fsys[name]; !ok {
			e.fsys[name] = ""
		}
		e.outOpen[name] = true
		e.written[name] = true
	}
	return func(s string) { e.fsys[name] += s }
}

func (e *evaluator) print(s *ast.PrintStmt) {
	var w func(string)
	var name string
	if s.Redirect != lexer.ILLEGAL {
		name = e.toStr(e.expr(s.Dest))
	}
	args := make([]Value, len(s.Args))
	for i, a := range s.Args {
		args[i] = e.expr(a)
	}
	if s.Redirect != lexer.ILLEGAL {
		w = e.outputNamed(s.Redirect, name)
	} else {
		w = func(x string) { e.stdout.WriteString(x) }
	}
	if len(args) == 0 {
		w(e.line + e.ors)
		return
	}
	parts := make([]string, len(args))
	for i, a := range args {
		parts[i] = a.toStr(e.ofmt)
	}
	w(strings.Join(parts, e.ofs) + e.ors)
}

func (e *evaluator) printf(s *ast.PrintfStmt) {
	var name string
	if s.Redirect != lexer.ILLEGAL {
		name = e.toStr(e.expr(s.Dest))
	}
	args := make([]Value, len(s.Args))
	for i, a := range s.Args {
		args[i] = e.expr(a)
	}
	out := e.sprintf(e.toStr(args[0]), args[1:])
	w := func(x string) { e.stdout.WriteString(x) }
	if s.Redirect != lexer.ILLEGAL {
		w = e.outputNamed(s.Redirect, name)
	}
	w(out)
}

// sprintf: only the plain conversions; anything else is "unsupported" (C09 owns printf).
func (e *evaluator) sprintf(format string, args []Value) string {
	var b strings.Builder
	ai := 0
	next := func() Value {
		if ai >= len(args) {
			panic(rtError{"format error: not enough arguments"})
		}
		v := args[ai]
		ai++
		return v
	}
	// arity is checked before any formatting in the implementation
	need := 0
	for i := 0; i < len(format); i++ {
		if format[i] != '%' {
			continue
		}
		i++
		if i >= len(format) {
			panic(rtError{"format error"})
		}
		if format[i] == '%' {
			continue
		}
		for i < len(format) && strings.IndexByte(" .-+*#0123456789", format[i]) >= 0 {
			if format[i] == '*' {
				need++
			}
			i++
		}
		if i >= len(format) {
			panic(rtError{"format error"})
		}
		if strings.IndexByte("sdioxXufeEgGc", format[i]) < 0 {
			panic(rtError{"format error: invalid verb"})
		}
		need++
	}
	if need > len(args) {
		panic(rtError{"format error: not enough arguments"})
	}
	for i := 0; i < len(format); i++ {
		c := format[i]
		if c != '%' {
			b.WriteByte(c)
			continue
		}
		i++
		if format[i] == '%' {
			b.WriteByte('%')
			continue
		}
		start := i
		for i < len(format) && strings.IndexByte(" .-+#0123456789", format[i]) >= 0 {
			i++
		}
		if format[i] == '*' {
			panic(unsupported{"printf *"})
		}
		spec := format[start:i]
		if strings.ContainsAny(spec, " +#") {
			panic(unsupported{"printf flags"})
		}
		switch format[i] {
		case 'd', 'i':
			f := next().toNum()
			if math.IsNaN(f) || math.IsInf(f, 0) || math.Abs(f) > 1e15 {
				panic(unsupported{"printf %d of huge/non-finite"})
			}
			b.WriteString(fmt.Sprintf("%"+spec+"d", int64(f)))
		case 's':
			s := e.toStr(next())
			for j := 0; j < len(s); j++ {
				if s[j] >= 0x80 {
					if spec != "" {
						panic(unsupported{"printf %s width with non-ASCII"})
					}
				}
			}
			b.WriteString(fmt.Sprintf("%"+spec+"s", s))
		case 'c':
			v := next()
			var ch string
			if n, ok := v.numeric(); ok {
				if n < 0 || n > 127 || n != math.Trunc(n) {
					panic(unsupported{"printf %c of non-ASCII number"})
				}
				ch = string([]byte{byte(n)})
			} else {
				s := e.toStr(v)
				if s == "" {
					ch = "\x00"
				} else {
					ch = s[:1]
				}
			}
			b.WriteString(fmt.Sprintf("%"+spec+"s", ch))
		case 'f', 'e', 'E':
			f := next().toNum()
			if math.IsNaN(f) || math.IsInf(f, 0) {
				panic(unsupported{"printf of non-finite"})
			}
			b.WriteString(fmt.Sprintf("%"+spec+string(format[i]), f))
		case 'g', 'G':
			f := next().toNum()
			if math.IsNaN(f) || math.IsInf(f, 0) {
				panic(unsupported{"printf of non-finite"})
			}
			if !strings.Contains(spec, ".") {
				panic(unsupported{"printf %g without precision"})
			}
			b.WriteString(fmt.Sprintf("%"+spec+string(format[i]), f))
		default:
			panic(unsupported{"printf verb " + string(format[i])})
		}
	}
	return b.String()
}

// ---------------------------------------------------------------- builtins

func (e *evaluator) builtin(x *ast.CallExpr) Value {
	arg := func(i int) Value { return e.expr(x.Args[i]) }
	switch x.Func {
	case lexer.F_LENGTH:
		if len(x.Args) == 0 {
			return num(float64(len(e.line)))
		}
		if ve, ok := x.Args[0].(*ast.VarExpr); ok && !(specialNames[ve.Name] && !e.isLocal(ve.Name)) {
			c := e.lookup(ve.Name)
			if c.k == cArray {
				return num(float64(len(c.arr.m)))
			}
			if c.k == cUntyped && c.up != nil {
				// untyped parameter: look through to the caller's variable
				t := c
				for t.k == cUntyped && t.up != nil {
					t = t.up
				}
				if t.k == cArray {
					return num(float64(len(t.arr.m)))
				}
			}
		}
		return num(float64(len(e.toStr(arg(0)))))
	case lexer.F_SUBSTR:
		s := e.toStr(arg(0))
		posF := arg(1).toNum()
		pos := truncInt(posF)
		if len(x.Args) == 2 {
			if pos < 1 {
				pos = 1
			}
			if pos > len(s) {
				return str("")
			}
			return str(s[pos-1:])
		}
		n := truncInt(arg(2).toNum())
		if pos < 1 {
			pos = 1
		}
		if pos > len(s) || n <= 0 {
			return str("")
		}
		end := pos - 1 + n
		if end > len(s) {
			end = len(s)
		}
		return str(s[pos-1 : end])
	case lexer.F_INDEX:
		s, t := e.toStr(arg(0)), e.toStr(arg(1))
		return num(float64(strings.Index(s, t) + 1))
	case lexer.F_SPLIT:
		s := e.toStr(arg(0))
		ve := x.Args[1].(*ast.VarExpr)
		var parts []string
		if len(x.Args) > 2 {
			sepV := arg(2)
			sep := e.toStr(sepV)
			isRegex := false
			if se, ok := x.Args[2].(*ast.StrExpr); ok && se.Regex {
				isRegex = true
			}
			switch {
			case !isRegex && sep == " ":
				parts = splitBlanks(s)
			case s == "":
			case !isRegex && utf8.RuneCountInString(sep) == 1:
				parts = strings.Split(s, sep)
			case sep == "":
				panic(unsupported{"split with empty separator"})
			default:
				re := e.regex(sep)
				if re.MatchString("") {
					panic(unsupported{"split separator matching the empty string"})
				}
				parts = re.Split(s, -1)
			}
		} else {
			parts = e.split(s, e.fs, false)
		}
		arr := e.arrayOf(e.lookup(ve.Name))
		for k := range arr.m {
			delete(arr.m, k)
		}
		for i, p := range parts {
			arr.m[strconv.Itoa(i+1)] = strnum(p)
		}
		return num(float64(len(parts)))
	case lexer.F_SUB, lexer.F_GSUB:
		return e.subGsub(x)
	case lexer.F_MATCH:
		s := e.toStr(arg(0))
		re := e.regex(e.toStr(arg(1)))
		loc := re.FindStringIndex(s)
		if loc == nil {
			e.rstart, e.rlength = num(0), num(-1)
		} else {
			e.rstart, e.rlength = num(float64(loc[0]+1)), num(float64(loc[1]-loc[0]))
		}
		return e.rstart
	case lexer.F_SPRINTF:
		vals := make([]Value, len(x.Args))
		for i := range x.Args {
			vals[i] = arg(i)
		}
		return str(e.sprintf(e.toStr(vals[0]), vals[1:]))
	case lexer.F_TOLOWER:
		return str(asciiCase(e.toStr(arg(0)), false))
	case lexer.F_TOUPPER:
		return str(asciiCase(e.toStr(arg(0)), true))
	case lexer.F_INT:
		f := arg(0).toNum()
		if math.Abs(f) > 1e15 || math.IsNaN(f) {
			panic(unsupported{"int() of huge/nan"})
		}
		return num(math.Trunc(f))
	case lexer.F_SIN:
		return num(math.Sin(arg(0).toNum()))
	case lexer.F_COS:
		return num(math.Cos(arg(0).toNum()))
	case lexer.F_EXP:
		return num(math.Exp(arg(0).toNum()))
	case lexer.F_LOG:
		return num(math.Log(arg(0).toNum()))
	case lexer.F_SQRT:
		return num(math.Sqrt(arg(0).toNum()))
	case lexer.F_ATAN2:
		y := arg(0).toNum()
		return num(math.Atan2(y, arg(1).toNum()))
	case lexer.F_RAND:
		return num(e.rnd.Float64())
	case lexer.F_SRAND:
		if len(x.Args) == 0 {
			panic(unsupported{"srand() without argument"})
		}
		prev := e.randSeed
		e.randSeed = arg(0).toNum()
		e.rnd.Seed(int64(math.Float64bits(e.randSeed)))
		return num(prev)
	case lexer.F_CLOSE:
		name := e.toStr(arg(0))
		if _, ok := e.inOpen[name]; ok {
			delete(e.inOpen, name)
			return num(0)
		}
		if e.outOpen[name] {
			delete(e.outOpen, name)
			return num(0)
		}
		return num(-1)
	case lexer.F_FFLUSH:
		if len(x.Args) == 0 {
			return num(0)
		}
		name := e.toStr(arg(0))
		if name == "" || e.outOpen[name] {
			return num(0)
		}
		e.stderr.WriteString("error flushing\n")
		return num(-1)
	case lexer.F_SYSTEM:
		panic(unsupported{"system()"})
	}
	panic(unsupported{"builtin " + x.Func.String()})
}

func asciiCase(s string, upper bool) string {
	b := []byte(s)
	for i, c := range b {
		if c >= 0x80 {
			panic(unsupported{"case mapping of non-ASCII"})
		}
		if upper && c >= 'a' && c <= 'z' {
			b[i] = c - 32
		} else if !upper && c >= 'A' && c <= 'Z' {
			b[i] = c + 32
		}
	}
	return string(b)
}

func (e *evaluator) subGsub(x *ast.CallExpr) Value {
	global := x.Func == lexer.F_GSUB
	var target ast.Expr = &ast.FieldExpr{Index: &ast.NumExpr{Value: 0}}
	if len(x.Args) == 3 {
		target = x.Args[2]
	}
	for {
		g, ok := target.(*ast.GroupingExpr)
		if !ok {
			break
		}
		target = g.Expr
	}
	var l lref
	var in, pat, repl string
	if _, isVar := target.(*ast.VarExpr); isVar {
		pat = e.toStr(e.expr(x.Args[0]))
		repl = e.toStr(e.expr(x.Args[1]))
		l = e.lvalue(target)
		in = e.toStr(e.load(l))
	} else {
		l = e.lvalue(target)
		in = e.toStr(e.load(l))
		pat = e.toStr(e.expr(x.Args[0]))
		repl = e.toStr(e.expr(x.Args[1]))
	}
	re := e.regex(pat)
	var out strings.Builder
	count := 0
	pos := 0
	for pos <= len(in) {
		loc := re.FindStringIndex(in[pos:])
		if loc == nil {
			break
		}
		if loc[0] == loc[1] {
			panic(unsupported{"sub/gsub with empty match"})
		}
		ms, me := pos+loc[0], pos+loc[1]
		out.WriteString(in[pos:ms])
		out.WriteString(expandRepl(repl, in[ms:me]))
		pos = me
		count++
		if !global {
			break
		}
	}
	out.WriteString(in[pos:])
	if l.kind == 1 {
		if count > 0 {
			e.setField(l.field, out.String())
		}
	} else {
		e.store(l, str(out.String()))
	}
	return num(float64(count))
}

func expandRepl(repl, match string) string {
	var b strings.Builder
	for i := 0; i < len(repl); i++ {
		switch repl[i] {
		case '&':
			b.WriteString(match)
		case '\\':
			if i+1 < len(repl) && (repl[i+1] == '&' || repl[i+1] == '\\') {
				b.WriteByte(repl[i+1])
				i++
			} else {
				b.WriteByte('\\')
			}
		default:
			b.WriteByte(repl[i])
		}
	}
	return b.String()
}

//go:build verif

package refawk

import (
	"bytes"
	"fmt"
	"math"
	"math/rand"
	"regexp"
	"sort"
	"strconv"
	"strings"

	"github.com/benhoyt/goawk/internal/ast"
	"github.com/benhoyt/goawk/lexer"
	"github.com/benhoyt/goawk/parser"
)

// Config describes one run of the reference evaluator.
type Config struct {
	Stdin     string
	Args      []string          // ARGV[1..]
	Vars      []string          // name, value pairs (like -v)
	Files     map[string]string // initial file system
	Environ   []string
	StepLimit int // statements + loop iterations (0 = 1e6)
}

type Pos struct{ Line, Col int }

type Result struct {
	Stdout      string
	Stderr      string
	Files       map[string]string // file system after the run (only files written)
	Status      int
	Err         string // "" = no error
	Unsupported string // non-empty: program uses something the model does not cover
	StmtCounts  map[Pos]int
}

type cellKind uint8

const (
	cUntyped cellKind = iota
	cScalar
	cArray
)

type arrayObj struct{ m map[string]Value }

type cell struct {
	k   cellKind
	v   Value
	arr *arrayObj
	up  *cell // for untyped parameters: the caller's untyped variable
}

type rtError struct{ msg string }
type unsupported = Unsupported
type ctlSignal int

const (
	sigNext ctlSignal = iota + 1
	sigNextfile
	sigExit
)

type ctl int

const (
	ctlNone ctl = iota
	ctlBreak
	ctlContinue
	ctlReturn
)

type reader struct {
	data string
	pos  int
	mode string // newline, byte, para, regex
	sep  byte
}

type outStream struct {
	name string
}

type frame struct {
	locals map[string]*cell
	fn     *ast.Function
	ret    Value
}

type evaluator struct {
	prog    *ast.Program
	funcs   map[string]*ast.Function
	cfg     *Config
	globals map[string]*cell
	frames  []*frame
	res     *Result

	// record state
	line       string
	lineStrnum bool
	fields     []string
	fieldStr   []bool // true: assigned (true string); false: strnum
	nf         Value

	// specials
	nr, fnr, rstart, rlength, argc Value
	filename                       Value
	convfmt, ofmt                  string
	fs, ofs, ors, rs, rt, subsep   string

	// io
	stdout, stderr bytes.Buffer
	fsys           map[string]string
	written        map[string]bool
	outOpen        map[string]bool
	inOpen         map[string]*reader
	mainReader     *reader
	argIndex       int
	hadFiles       bool
	inputDone      bool
	inGetline      bool
	getlineFailed bool // the last plain getline reached an operand file that could not be opened

	rnd      *rand.Rand
	randSeed float64
	exit     int
	steps    int
	limit    int
	depth    int
	regexes  map[string]*regexp.Regexp
}

// Run evaluates the parsed program directly on its syntax tree.
func Run(p *parser.Program, cfg *Config) (res Result) {
	e := &evaluator{prog: &p.ResolvedProgram.Program, cfg: cfg, res: &res}
	res.StmtCounts = map[Pos]int{}
	e.funcs = map[string]*ast.Function{}
	for _, f := range e.prog.Functions {
		e.funcs[f.Name] = f
	}
	e.globals = map[string]*cell{}
	e.convfmt, e.ofmt = "%.6g", "%.6g"
	e.fs, e.ofs, e.ors, e.rs, e.subsep = " ", " ", "\n", "\n", "\x1c"
	e.nr, e.fnr, e.rstart, e.rlength, e.nf = num(0), num(0), num(0), num(0), num(0)
	e.fsys = map[string]string{}
	for k, v := range cfg.Files {
		e.fsys[k] = v
	}
	e.written = map[string]bool{}
	e.outOpen = map[string]bool{}
	e.inOpen = map[string]*reader{}
	e.randSeed = 1.0
	e.rnd = rand.New(rand.NewSource(int64(math.Float64bits(e.randSeed))))
	e.limit = cfg.StepLimit
	if e.limit == 0 {
		e.limit = 1000000
	}
	e.regexes = map[string]*regexp.Regexp{}

	defer func() {
		if r := recover(); r != nil {
			switch x := r.(type) {
			case rtError:
				res.Err = x.msg
			case unsupported:
				res.Unsupported = x.Msg
			default:
				panic(r)
			}
		}
		res.Stdout = e.stdout.String()
		res.Stderr = e.stderr.String()
		res.Files = map[string]string{}
		for name := range e.written {
			res.Files[name] = e.fsys[name]
		}
		if res.Err == "" {
			res.Status = e.exit
		}
	}()

	// ARGV, ENVIRON, Vars
	argv := e.arrayOf(e.global("ARGV"))
	argv.m["0"] = str("")
	for i, a := range cfg.Args {
		argv.m[strconv.Itoa(i+1)] = strnum(a)
	}
	e.argc = num(float64(len(cfg.Args) + 1))
	e.argIndex = 1
	env := e.arrayOf(e.global("ENVIRON"))
	for i := 0; i+1 < len(cfg.Environ); i += 2 {
		env.m[cfg.Environ[i]] = strnum(cfg.Environ[i+1])
	}
	e.arrayOf(e.global("FIELDS"))
	for i := 0; i+1 < len(cfg.Vars); i += 2 {
		e.setVarByName(cfg.Vars[i], cfg.Vars[i+1])
	}

	e.runAll()
	return
}

func (e *evaluator) runAll() {
	exited := e.catchExit(func() {
		for _, ss := range e.prog.Begin {
			e.stmts(ss)
		}
	})
	if len(e.prog.Actions) == 0 && len(e.prog.End) == 0 {
		return
	}
	if !exited {
		e.catchExit(func() { e.mainLoop() })
	}
	e.catchExit(func() {
		for _, ss := range e.prog.End {
			e.stmts(ss)
		}
	})
}

// catchExit runs f; returns true if it ended by exit. next/nextfile escaping
// to this level is a run-time error (as in the implementation).
func (e *evaluator) catchExit(f func()) (exited bool) {
	defer func() {
		if r := recover(); r != nil {
			if s, ok := r.(ctlSignal); ok {
				if s == sigExit {
					exited = true
					return
				}
				panic(rtError{"next/nextfile outside main loop"})
			}
			panic(r)
		}
	}()
	f()
	return false
}

func (e *evaluator) mainLoop() {
	inRange := make([]bool, len(e.prog.Actions))
	for {
		line, ok := e.nextMainRecord()
		if !ok {
			return
		}
		e.setLine(line, true)
		e.runActions(inRange)
	}
}

func (e *evaluator) runActions(inRange []bool) {
	defer func() {
		if r := recover(); r != nil {
			if s, ok := r.(ctlSignal); ok {
				switch s {
				case sigNext:
					return
				case sigNextfile:
					e.mainReader = nil
					return
				}
			}
			panic(r)
		}
	}()
	for i, a := range e.prog.Actions {
		matched := false
		switch len(a.Pattern) {
		case 0:
			matched = true
		case 1:
			matched = e.expr(a.Pattern[0]).truth()
		case 2:
			if !inRange[i] {
				inRange[i] = e.expr(a.Pattern[0]).truth()
			}
			matched = inRange[i]
			if inRange[i] {
				inRange[i] = !e.expr(a.Pattern[1]).truth()
			}
		}
		if !matched {
			continue
		}
		if a.Stmts == nil {
			e.stdout.WriteString(e.line + e.ors)
			continue
		}
		e.stmts(a.Stmts)
	}
}

func (e *evaluator) step() {
	e.steps++
	if e.steps > e.limit {
		panic(unsupported{"step limit"})
	}
}

// ---------------------------------------------------------------- variables

func (e *evaluator) global(name string) *cell {
	c := e.globals[name]
	if c == nil {
		c = &cell{}
		e.globals[name] = c
	}
	return c
}

func (e *evaluator) lookup(name string) *cell {
	if n := len(e.frames); n > 0 {
		if c, ok := e.frames[n-1].locals[name]; ok {
			return c
		}
	}
	return e.global(name)
}

func (e *evaluator) arrayOf(c *cell) *arrayObj {
	switch c.k {
	case cArray:
		return c.arr
	case cUntyped:
		if c.up != nil {
			c.arr = e.arrayOf(c.up)
		} else {
			c.arr = &arrayObj{m: map[string]Value{}}
		}
		c.k = cArray
		return c.arr
	}
	panic(rtError{"can't use scalar as array"})
}

func (e *evaluator) scalarGet(c *cell) Value {
	if c.k == cArray {
		panic(rtError{"can't use array as scalar"})
	}
	return c.v
}

func (e *evaluator) scalarSet(c *cell, v Value) {
	if c.k == cArray {
		panic(rtError{"can't use array as scalar"})
	}
	c.k = cScalar
	c.v = v
}

var specialNames = map[string]bool{"ARGC": true, "CONVFMT": true, "FILENAME": true, "FNR": true, "FS": true, "NF": true, "NR": true, "OFMT": true,
	"OFS": true, "ORS": true, "RLENGTH": true, "RS": true, "RSTART": true, "RT": true, "SUBSEP": true, "INPUTMODE": true, "OUTPUTMODE": true}

func (e *evaluator) isLocal(name string) bool {
	if n := len(e.frames); n > 0 {
		_, ok := e.frames[n-1].locals[name]
		return ok
	}
	return false
}

func (e *evaluator) getVar(name string) Value {
	if !e.isLocal(name) && specialNames[name] {
		return e.getSpecial(name)
	}
	return e.scalarGet(e.lookup(name))
}

func (e *evaluator) setVar(name string, v Value) {
	if !e.isLocal(name) && specialNames[name] {
		e.setSpecial(name, v)
		return
	}
	e.scalarSet(e.lookup(name), v)
}

func (e *evaluator) getSpecial(name string) Value {
	switch name {
	case "NF":
		return e.nf
	case "NR":
		return e.nr
	case "FNR":
		return e.fnr
	case "RSTART":
		return e.rstart
	case "RLENGTH":
		return e.rlength
	case "ARGC":
		return e.argc
	case "CONVFMT":
		return str(e.convfmt)
	case "OFMT":
		return str(e.ofmt)
	case "FILENAME":
		return e.filename
	case "FS":
		return str(e.fs)
	case "OFS":
		return str(e.ofs)
	case "ORS":
		return str(e.ors)
	case "RS":
		return str(e.rs)
	case "RT":
		return str(e.rt)
	case "SUBSEP":
		return str(e.subsep)
	}
	panic(unsupported{"special variable " + name})
}

func (e *evaluator) setSpecial(name string, v Value) {
	switch name {
	case "NF":
		n := truncInt(v.toNum())
		if n < 0 {
			panic(rtError{"NF set to negative value"})
		}
		if n > 1000000 {
			panic(rtError{"NF set too large"})
		}
		e.nf = v
		for len(e.fields) > n {
			e.fields = e.fields[:len(e.fields)-1]
			e.fieldStr = e.fieldStr[:len(e.fieldStr)-1]
		}
		for len(e.fields) < n {
			e.fields = append(e.fields, "")
			e.fieldStr = append(e.fieldStr, false)
		}
		e.rebuild()
	case "NR":
		e.nr = v
	case "FNR":
		e.fnr = v
	case "RSTART":
		e.rstart = v
	case "RLENGTH":
		e.rlength = v
	case "ARGC":
		if truncInt(v.toNum()) > 1000000 {
			panic(rtError{"ARGC set too large"})
		}
		e.argc = v
	case "CONVFMT":
		e.convfmt = e.toStr(v)
	case "OFMT":
		e.ofmt = e.toStr(v)
	case "FILENAME":
		e.filename = v
	case "FS":
		e.fs = e.toStr(v)
		if len([]rune(e.fs)) > 1 {
			if _, err := regexp.Compile("(?s:" + e.fs + ")"); err != nil {
				panic(rtError{"invalid regex"})
			}
		}
	case "OFS":
		e.ofs = e.toStr(v)
	case "ORS":
		e.ors = e.toStr(v)
	case "RS":
		e.rs = e.toStr(v)
		if len([]rune(e.rs)) > 1 {
			if _, err := regexp.Compile("(?s:" + e.rs + ")"); err != nil {
				panic(rtError{"invalid regex"})
			}
		}
	case "RT":
		e.rt = e.toStr(v)
	case "SUBSEP":
		e.subsep = e.toStr(v)
	default:
		panic(unsupported{"special variable " + name})
	}
}

func (e *evaluator) setVarByName(name, value string) {
	if specialNames[name] {
		e.setSpecial(name, strnum(value))
		return
	}
	if _, isFunc := e.funcs[name]; isFunc {
		return
	}
	c := e.global(name)
	if c.k == cArray {
		return
	}
	// the implementation ignores names the program does not use as a global
	// scalar; an unused name is unobservable here, an array name is skipped
	if e.usedAsArray(name) {
		return
	}
	e.scalarSet(c, strnum(value))
}

// usedAsArray: conservative syntactic scan, global scope only.
func (e *evaluator) usedAsArray(name string) bool {
	found := false
	var v visitor
	v = func(n ast.Node) {
		switch x := n.(type) {
		case *ast.IndexExpr:
			if x.Array == name {
				found = true
			}
		case *ast.InExpr:
			if x.Array == name {
				found = true
			}
		case *ast.ForInStmt:
			if x.Array == name {
				found = true
			}
		case *ast.DeleteStmt:
			if x.Array == name {
				found = true
			}
		case *ast.CallExpr:
			if x.Func == lexer.F_SPLIT {
				if ve, ok := x.Args[1].(*ast.VarExpr); ok && ve.Name == name {
					found = true
				}
			}
		}
	}
	ast.Walk(v, e.prog)
	return found
}

type visitor func(n ast.Node)

func (v visitor) Visit(n ast.Node) ast.Visitor {
	if n != nil {
		v(n)
	}
	return v
}

func (e *evaluator) toStr(v Value) string { return v.toStr(e.convfmt) }

func truncInt(f float64) int {
	if math.IsNaN(f) {
		panic(unsupported{"NaN converted to integer"})
	}
	if f > 1e15 || f < -1e15 {
		panic(unsupported{"out-of-range number converted to integer"})
	}
	return int(f)
}

// ---------------------------------------------------------------- record

func (e *evaluator) setLine(line string, isStrnum bool) {
	e.line = line
	e.lineStrnum = isStrnum
	e.fields = e.split(line, e.fs, true)
	e.fieldStr = make([]bool, len(e.fields))
	e.nf = num(float64(len(e.fields)))
}

func (e *evaluator) regex(src string) *regexp.Regexp {
	if re, ok := e.regexes[src]; ok {
		return re
	}
	re, err := regexp.Compile("(?s:" + src + ")")
	if err != nil {
		panic(rtError{"invalid regex"})
	}
	re.Longest()
	e.regexes[src] = re
	return re
}

// split implements the FS rules. record=true adds the RS="" newline rule.
func (e *evaluator) split(s, fs string, record bool) []string {
	var out []string
	switch {
	case fs == " ":
		out = splitBlanks(s)
	case s == "":
		return nil
	case len([]rune(fs)) <= 1:
		if fs == "" {
			panic(unsupported{"empty FS"})
		}
		out = strings.Split(s, fs)
	default:
		re := e.regex(fs)
		prev := 0
		for _, m := range re.FindAllStringIndex(s, -1) {
			if m[0] == m[1] {
				continue
			}
			out = append(out, s[prev:m[0]])
			prev = m[1]
		}
		out = append(out, s[prev:])
	}
	if record && e.rs == "" && len([]rune(fs)) == 1 {
		var o2 []string
		for _, f := range out {
			for _, l := range strings.Split(f, "\n") {
				o2 = append(o2, strings.TrimSuffix(l, "\r"))
			}
		}
		out = o2
	}
	return out
}

func splitBlanks(s string) []string {
	var out []string
	i := 0
	for i < len(s) {
		for i < len(s) && isFieldBlank(s[i]) {
			i++
		}
		j := i
		for j < len(s) && !isFieldBlank(s[j]) {
			j++
		}
		if j > i {
			out = append(out, s[i:j])
		}
		i = j
	}
	return out
}

func isFieldBlank(c byte) bool {
	if c >= 0x80 {
		panic(unsupported{"non-ASCII byte with FS=\" \""})
	}
	return c == ' ' || c == '\t' || c == '\n' || c == '\v' || c == '\f' || c == '\r'
}

func (e *evaluator) rebuild() {
	e.line = strings.Join(e.fields, e.ofs)
	e.lineStrnum = false
}

func (e *evaluator) getField(i int) Value {
	if i == 0 {
		if e.lineStrnum {
			return strnum(e.line)
		}
		return str(e.line)
	}
	if i < 0 {
		i = len(e.fields) + 1 + i
		if i < 1 {
			return str("")
		}
	}
	if i > len(e.fields) {
		return str("")
	}
	if e.fieldStr[i-1] {
		return str(e.fields[i-1])
	}
	return strnum(e.fields[i-1])
}

func (e *evaluator) setField(i int, s string) {
	if i == 0 {
		e.setLine(s, false)
		return
	}
	if i > 1000000 {
		panic(rtError{"field index too large"})
	}
	if i < 0 {
		i = len(e.fields) + 1 + i
		if i < 1 {
			return
		}
	}
	for len(e.fields) < i {
		e.fields = append(e.fields, "")
		e.fieldStr = append(e.fieldStr, true)
	}
	e.fields[i-1] = s
	e.fieldStr[i-1] = true
	e.nf = num(float64(len(e.fields)))
	e.rebuild()
}

// ---------------------------------------------------------------- statements

func (e *evaluator) stmts(ss ast.Stmts) ctl {
	for _, s := range ss {
		if c := e.stmt(s); c != ctlNone {
			return c
		}
	}
	return ctlNone
}

func (e *evaluator) stmt(s ast.Stmt) ctl {
	e.step()
	p := s.StartPos()
	e.res.StmtCounts[Pos{p.Line, p.Column}]++
	switch s := s.(type) {
	case *ast.ExprStmt:
		e.exprStmt(s.Expr)
	case *ast.PrintStmt:
		e.print(s)
	case *ast.PrintfStmt:
		e.printf(s)
	case *ast.IfStmt:
		if e.expr(s.Cond).truth() {
			return e.stmts(s.Body)
		}
		return e.stmts(s.Else)
	case *ast.ForStmt:
		if s.Pre != nil {
			e.stmtNoCount(s.Pre)
		}
		for s.Cond == nil || e.expr(s.Cond).truth() {
			e.step()
			c := e.stmts(s.Body)
			if c == ctlBreak {
				break
			}
			if c == ctlReturn {
				return c
			}
			if s.Post != nil {
				e.stmtNoCount(s.Post)
			}
		}
	case *ast.ForInStmt:
		arr := e.arrayOf(e.lookup(s.Array))
		keys := make([]string, 0, len(arr.m))
		for k := range arr.m {
			keys = append(keys, k)
		}
		sort.Strings(keys)
		for _, k := range keys {
			if _, ok := arr.m[k]; !ok {
				continue
			}
			e.step()
			e.setVar(s.Var, str(k))
			c := e.stmts(s.Body)
			if c == ctlBreak {
				break
			}
			if c == ctlReturn {
				return c
			}
		}
	case *ast.WhileStmt:
		for e.expr(s.Cond).truth() {
			e.step()
			c := e.stmts(s.Body)
			if c == ctlBreak {
				break
			}
			if c == ctlReturn {
				return c
			}
		}
	case *ast.DoWhileStmt:
		for {
			e.step()
			c := e.stmts(s.Body)
			if c == ctlBreak {
				break
			}
			if c == ctlReturn {
				return c
			}
			if !e.expr(s.Cond).truth() {
				break
			}
		}
	case *ast.BreakStmt:
		return ctlBreak
	case *ast.ContinueStmt:
		return ctlContinue
	case *ast.NextStmt:
		panic(sigNext)
	case *ast.NextfileStmt:
		panic(sigNextfile)
	case *ast.ExitStmt:
		if s.Status != nil {
			e.exit = truncInt(e.expr(s.Status).toNum())
		}
		panic(sigExit)
	case *ast.DeleteStmt:
		arr := e.arrayOf(e.lookup(s.Array))
		if len(s.Index) == 0 {
			for k := range arr.m {
				delete(arr.m, k)
			}
		} else {
			delete(arr.m, e.index(s.Index))
		}
	case *ast.ReturnStmt:
		v := Value{}
		if s.Value != nil {
			v = e.expr(s.Value)
		}
		e.frames[len(e.frames)-1].ret = v
		return ctlReturn
	case *ast.BlockStmt:
		return e.stmts(s.Body)
	default:
		panic(unsupported{fmt.Sprintf("statement %T", s)})
	}
	return ctlNone
}

// for-loop init/step clauses are not statements of their own (no count)
func (e *evaluator) stmtNoCount(s ast.Stmt) {
	switch s := s.(type) {
	case *ast.ExprStmt:
		e.exprStmt(s.Expr)
	default:
		p := s.StartPos()
		k := Pos{p.Line, p.Column}
		before := e.res.StmtCounts[k]
		e.stmt(s)
		e.res.StmtCounts[k] = before
		if before == 0 {
			delete(e.res.StmtCounts, k)
		}
	}
}

func (e *evaluator) exprStmt(x ast.Expr) { e.expr(x) }

// ---------------------------------------------------------------- expressions

func (e *evaluator) index(idx []ast.Expr) string {
	if len(idx) == 1 {
		return e.toStr(e.expr(idx[0]))
	}
	parts := make([]string, len(idx))
	for i, x := range idx {
		parts[i] = e.toStr(e.expr(x))
	}
	return strings.Join(parts, e.subsep)
}

// lvalue access: the index/subscript of the target is evaluated exactly once.
type lref struct {
	kind  int // 0 var, 1 field, 2 array elem
	name  string
	field int
	arr   *arrayObj
	key   string
}

func (e *evaluator) lvalue(x ast.Expr) lref {
	switch t := x.(type) {
	case *ast.VarExpr:
		return lref{kind: 0, name: t.Name}
	case *ast.FieldExpr:
		return lref{kind: 1, field: truncInt(e.expr(t.Index).toNum())}
	case *ast.IndexExpr:
		key := e.index(t.Index)
		return lref{kind: 2, arr: e.arrayOf(e.lookup(t.Array)), key: key}
	case *ast.GroupingExpr:
		return e.lvalue(t.Expr)
	}
	panic(unsupported{fmt.Sprintf("lvalue %T", x)})
}

func (e *evaluator) load(l lref) Value {
	switch l.kind {
	case 0:
		return e.getVar(l.name)
	case 1:
		return e.getField(l.field)
	default:
		v, ok := l.arr.m[l.key]
		if !ok {
			l.arr.m[l.key] = Value{}
		}
		return v
	}
}

func (e *evaluator) store(l lref, v Value) {
	switch l.kind {
	case 0:
		e.setVar(l.name, v)
	case 1:
		e.setField(l.field, e.toStr(v))
	default:
		l.arr.m[l.key] = v
	}
}

func (e *evaluator) arith(op lexer.Token, a, b float64) float64 {
	switch op {
	case lexer.ADD:
		return a + b
	case lexer.SUB:
		return a - b
	case lexer.MUL:
		return a * b
	case lexer.DIV:
		if b == 0 {
			panic(rtError{"division by zero"})
		}
		return a / b
	case lexer.MOD:
		if b == 0 {
			panic(rtError{"division by zero in mod"})
		}
		return math.Mod(a, b)
	case lexer.POW:
		return math.Pow(a, b)
	}
	panic(unsupported{"arith op " + op.String()})
}

func (e *evaluator) compare(op lexer.Token, l, r Value) bool {
	ln, lok := l.numeric()
	rn, rok := r.numeric()
	if lok && rok {
		switch op {
		case lexer.EQUALS:
			return ln == rn
		case lexer.NOT_EQUALS:
			return ln != rn
		case lexer.LESS:
			return ln < rn
		case lexer.LTE:
			return ln <= rn
		case lexer.GREATER:
			return ln > rn
		case lexer.GTE:
			return ln >= rn
		}
	}
	ls, rs := e.toStr(l), e.toStr(r)
	switch op {
	case lexer.EQUALS:
		return ls == rs
	case lexer.NOT_EQUALS:
		return ls != rs
	case lexer.LESS:
		return ls < rs
	case lexer.LTE:
		return ls <= rs
	case lexer.GREATER:
		return ls > rs
	case lexer.GTE:
		return ls >= rs
	}
	panic(unsupported{"compare op"})
}

func (e *evaluator) expr(x ast.Expr) Value {
	switch x := x.(type) {
	case *ast.NumExpr:
		return num(x.Value)
	case *ast.StrExpr:
		return str(x.Value)
	case *ast.RegExpr:
		return boolv(e.regex(x.Regex).MatchString(e.line))
	case *ast.GroupingExpr:
		return e.expr(x.Expr)
	case *ast.FieldExpr:
		return e.getField(truncInt(e.expr(x.Index).toNum()))
	case *ast.NamedFieldExpr:
		panic(unsupported{"@field"})
	case *ast.VarExpr:
		return e.getVar(x.Name)
	case *ast.IndexExpr:
		key := e.index(x.Index)
		arr := e.arrayOf(e.lookup(x.Array))
		v, ok := arr.m[key]
		if !ok {
			arr.m[key] = Value{}
		}
		return v
	case *ast.InExpr:
		key := e.index(x.Index)
		arr := e.arrayOf(e.lookup(x.Array))
		_, ok := arr.m[key]
		return boolv(ok)
	case *ast.UnaryExpr:
		v := e.expr(x.Value)
		switch x.Op {
		case lexer.SUB:
			return num(-v.toNum())
		case lexer.ADD:
			return num(v.toNum())
		case lexer.NOT:
			return boolv(!v.truth())
		}
		panic(unsupported{"unary " + x.Op.String()})
	case *ast.BinaryExpr:
		switch x.Op {
		case lexer.AND:
			if !e.expr(x.Left).truth() {
				return num(0)
			}
			return boolv(e.expr(x.Right).truth())
		case lexer.OR:
			if e.expr(x.Left).truth() {
				return num(1)
			}
			return boolv(e.expr(x.Right).truth())
		}
		l := e.expr(x.Left)
		r := e.expr(x.Right)
		switch x.Op {
		case lexer.CONCAT:
			return str(e.toStr(l) + e.toStr(r))
		case lexer.ADD, lexer.SUB, lexer.MUL, lexer.DIV, lexer.MOD, lexer.POW:
			// operands convert left to right; division check uses the right value
			return num(e.arith(x.Op, l.toNum(), r.toNum()))
		case lexer.EQUALS, lexer.NOT_EQUALS, lexer.LESS, lexer.LTE, lexer.GREATER, lexer.GTE:
			return boolv(e.compare(x.Op, l, r))
		case lexer.MATCH:
			return boolv(e.regex(e.toStr(r)).MatchString(e.toStr(l)))
		case lexer.NOT_MATCH:
			return boolv(!e.regex(e.toStr(r)).MatchString(e.toStr(l)))
		}
		panic(unsupported{"binary " + x.Op.String()})
	case *ast.CondExpr:
		if e.expr(x.Cond).truth() {
			return e.expr(x.True)
		}
		return e.expr(x.False)
	case *ast.AssignExpr:
		v := e.expr(x.Right)
		l := e.lvalue(x.Left)
		e.store(l, v)
		return v
	case *ast.AugAssignExpr:
		r := e.expr(x.Right)
		l := e.lvalue(x.Left)
		old := e.load(l)
		v := num(e.arith(x.Op, old.toNum(), r.toNum()))
		e.store(l, v)
		return v
	case *ast.IncrExpr:
		l := e.lvalue(x.Expr)
		old := e.load(l).toNum()
		d := 1.0
		if x.Op == lexer.DECR {
			d = -1
		}
		e.store(l, num(old+d))
		if x.Pre {
			return num(old + d)
		}
		return num(old)
	case *ast.CallExpr:
		return e.builtin(x)
	case *ast.UserCallExpr:
		return e.userCall(x)
	case *ast.GetlineExpr:
		return e.getline(x)
	case *ast.MultiExpr:
		panic(unsupported{"multi expression"})
	}
	panic(unsupported{fmt.Sprintf("expression %T", x)})
}

func (e *evaluator) userCall(x *ast.UserCallExpr) Value {
	f := e.funcs[x.Name]
	if f == nil {
		panic(unsupported{"native or undefined function " + x.Name})
	}
	if e.depth >= 1000 {
		panic(rtError{"maximum call depth exceeded"})
	}
	fr := &frame{locals: map[string]*cell{}, fn: f}
	// arguments evaluated left to right in the caller's scope
	for i, p := range f.Params {
		c := &cell{}
		if i < len(x.Args) {
			arg := x.Args[i]
			if ve, ok := arg.(*ast.VarExpr); ok && !(specialNames[ve.Name] && !e.isLocal(ve.Name)) {
				src := e.lookup(ve.Name)
				switch src.k {
				case cArray:
					c = src
				case cScalar:
					c.k = cScalar
					c.v = src.v
				default:
					c.up = src
				}
			} else {
				c.k = cScalar
				c.v = e.expr(arg)
			}
		}
		fr.locals[p] = c
	}
	e.frames = append(e.frames, fr)
	e.depth++
	defer func() {
		e.depth--
		e.frames = e.frames[:len(e.frames)-1]
	}()
	e.stmts(f.Body)
	return fr.ret
}

//go:build verif

// Package vhook holds the hook points the verification overlay splices into
// goawk. Everything is inert (a nil check) unless the harness installs a hook.
// It imports nothing from goawk.
package vhook

import (
	"fmt"
	"io"
	"os"
	"reflect"
	"sort"
)

// ---- VM step hook -----------------------------------------------------

// StepFn, if non-nil, is called before every VM instruction.
var StepFn func()

func Step() {
	if StepFn != nil {
		StepFn()
	}
}

// ---- reader hook -------------------------------------------------------

// ReaderFn, if non-nil, may replace the reader a record scanner is about to be
// built on (standard input, an operand file, getline < file, a command's
// output, a string being split in CSV mode). Returning r itself leaves it alone.
var ReaderFn func(r io.Reader) io.Reader

func WrapReader(r io.Reader) io.Reader {
	if ReaderFn != nil {
		return ReaderFn(r)
	}
	return r
}

// ---- map iteration order ------------------------------------------------

// PermFn, if non-nil, chooses the iteration order of one execution of a map
// range site: called with the site name and the number of keys n (n >= 2); it
// returns a permutation of 0..n-1 applied to the sorted key list (nil = sorted).
var PermFn func(site string, n int) []int

// SiteSeen, if non-nil, is told about every executed range site (coverage).
var SiteSeen func(site string, n int)

func Keys[M ~map[K]V, K comparable, V any](m M, site string) []K {
	keys := make([]K, 0, len(m))
	for k := range m {
		keys = append(keys, k)
	}
	if len(keys) < 2 {
		return keys
	}
	strs := make([]string, len(keys))
	ptrKeys := reflect.TypeOf(keys[0]).Kind() == reflect.Ptr
	for i, k := range keys {
		if ptrKeys {
			// pointer keys have no run-independent order (and may have an expensive
			// String method): order by the mapped value instead
			strs[i] = fmt.Sprint(m[k])
		} else {
			strs[i] = fmt.Sprint(k)
		}
	}
	idx := make([]int, len(keys))
	for i := range idx {
		idx[i] = i
	}
	sort.Slice(idx, func(a, b int) bool { return strs[idx[a]] < strs[idx[b]] })
	sorted := make([]K, len(keys))
	for i, j := range idx {
		sorted[i] = keys[j]
	}
	if SiteSeen != nil {
		SiteSeen(site, len(sorted))
	}
	if PermFn != nil {
		if perm := PermFn(site, len(sorted)); perm != nil {
			out := make([]K, len(sorted))
			for i, j := range perm {
				out[i] = sorted[j]
			}
			return out
		}
	}
	return sorted
}

// ---- file system recording ------------------------------------------------

// OsEvent is one call of a file-opening function of package os made by interp.
type OsEvent struct {
	Func string
	Name string
	Flag int
}

// OsFn, if non-nil, is told about every raw os file call made by package interp.
var OsFn func(ev OsEvent)

func rec(f, name string, flag int) {
	if OsFn != nil {
		OsFn(OsEvent{f, name, flag})
	}
}

func OsOpenFile(name string, flag int, perm os.FileMode) (*os.File, error) {
	rec("OpenFile", name, flag)
	return os.OpenFile(name, flag, perm)
}
func OsOpen(name string) (*os.File, error) { rec("Open", name, os.O_RDONLY); return os.Open(name) }
func OsCreate(name string) (*os.File, error) {
	rec("Create", name, os.O_RDWR|os.O_CREATE|os.O_TRUNC)
	return os.Create(name)
}
func OsReadFile(name string) ([]byte, error) { rec("ReadFile", name, os.O_RDONLY); return os.ReadFile(name) }
func OsWriteFile(name string, data []byte, perm os.FileMode) error {
	rec("WriteFile", name, os.O_WRONLY|os.O_CREATE|os.O_TRUNC)
	return os.WriteFile(name, data, perm)
}
func OsRemove(name string) error              { rec("Remove", name, os.O_WRONLY); return os.Remove(name) }
func OsRename(a, b string) error              { rec("Rename", a+"\x00"+b, os.O_WRONLY); return os.Rename(a, b) }
func OsMkdir(name string, p os.FileMode) error { rec("Mkdir", name, os.O_WRONLY); return os.Mkdir(name, p) }
func OsMkdirAll(name string, p os.FileMode) error {
	rec("MkdirAll", name, os.O_WRONLY)
	return os.MkdirAll(name, p)
}

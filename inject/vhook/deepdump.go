//go:build verif

package vhook

import (
	"fmt"
	"reflect"
	"regexp"
	"sort"
	"strings"
	"unsafe"
)

// ---- reflective deep dump (C19: "deep comparison of the Program before and
// after execution"; package-level variables of the goawk packages) ----------

// ModPrefix: struct types declared outside this module are summarised, not
// walked (their internals are not goawk's state).
const ModPrefix = "github.com/benhoyt/goawk"

// DeepDump renders everything reachable from v canonically: exported and
// unexported fields, pointers followed (a pointer already on the current path
// prints as a cycle), maps sorted by rendered key, compiled regexes by source
// text and longest flag. It keeps compiling and keeps covering the state when
// fields are added or renamed. Read-only.
func DeepDump(v any) string {
	var b strings.Builder
	d := dumper{b: &b, path: map[uintptr]bool{}}
	d.value(reflect.ValueOf(v), 0)
	return b.String()
}

type dumper struct {
	b    *strings.Builder
	path map[uintptr]bool
}

var regexpPtrType = reflect.TypeOf((*regexp.Regexp)(nil))

func (d *dumper) value(v reflect.Value, depth int) {
	b := d.b
	if !v.IsValid() {
		b.WriteString("invalid")
		return
	}
	if depth > 400 {
		b.WriteString("…")
		return
	}
	switch v.Kind() {
	case reflect.Bool:
		fmt.Fprintf(b, "%v", v.Bool())
	case reflect.Int, reflect.Int8, reflect.Int16, reflect.Int32, reflect.Int64:
		fmt.Fprintf(b, "%d", v.Int())
	case reflect.Uint, reflect.Uint8, reflect.Uint16, reflect.Uint32, reflect.Uint64, reflect.Uintptr:
		fmt.Fprintf(b, "%d", v.Uint())
	case reflect.Float32, reflect.Float64:
		fmt.Fprintf(b, "%v", v.Float())
	case reflect.Complex64, reflect.Complex128:
		fmt.Fprintf(b, "%v", v.Complex())
	case reflect.String:
		fmt.Fprintf(b, "%q", v.String())
	case reflect.Slice, reflect.Array:
		if v.Kind() == reflect.Slice && v.IsNil() {
			b.WriteString("nil")
			return
		}
		if v.Type().Elem().Kind() == reflect.Uint8 {
			n := v.Len()
			buf := make([]byte, n)
			for i := 0; i < n; i++ {
				buf[i] = byte(v.Index(i).Uint())
			}
			fmt.Fprintf(b, "bytes(%d,cap=%d)%q", n, capOf(v), buf)
			return
		}
		fmt.Fprintf(b, "[%d:", v.Len())
		for i := 0; i < v.Len(); i++ {
			d.value(v.Index(i), depth+1)
			b.WriteByte(' ')
		}
		// elements between len and cap are reachable through the Program too
		// (an append from two interpreters would write there)
		if v.Kind() == reflect.Slice && v.Cap() > v.Len() && v.Cap()-v.Len() <= 64 {
			ext := v.Slice(0, v.Cap())
			b.WriteString("| spare:")
			for i := v.Len(); i < v.Cap(); i++ {
				d.value(ext.Index(i), depth+1)
				b.WriteByte(' ')
			}
		}
		b.WriteByte(']')
	case reflect.Map:
		if v.IsNil() {
			b.WriteString("nil")
			return
		}
		type kv struct{ k, v string }
		var items []kv
		iter := v.MapRange()
		for iter.Next() {
			var kb, vb strings.Builder
			(&dumper{b: &kb, path: d.path}).value(iter.Key(), depth+1)
			(&dumper{b: &vb, path: d.path}).value(iter.Value(), depth+1)
			items = append(items, kv{kb.String(), vb.String()})
		}
		sort.Slice(items, func(i, j int) bool {
			if items[i].k != items[j].k {
				return items[i].k < items[j].k
			}
			return items[i].v < items[j].v
		})
		fmt.Fprintf(b, "map(%d){", len(items))
		for _, it := range items {
			b.WriteString(it.k + ":" + it.v + ",")
		}
		b.WriteByte('}')
	case reflect.Struct:
		t := v.Type()
		if pp := t.PkgPath(); pp != "" && !strings.HasPrefix(pp, ModPrefix) {
			// foreign struct: summarise
			switch t.String() {
			case "sync.Once", "sync.Mutex", "sync.RWMutex":
				b.WriteString(t.String())
			case "bytes.Buffer", "strings.Builder":
				fmt.Fprintf(b, "%s(%d fields)", t.String(), t.NumField())
				// contents matter for a hoisted scratch buffer
				if v.CanAddr() {
					if l, ok := reflect.NewAt(t, unsafe.Pointer(v.UnsafeAddr())).Interface().(interface{ Len() int }); ok {
						fmt.Fprintf(b, "len=%d", l.Len())
					}
					if s, ok := reflect.NewAt(t, unsafe.Pointer(v.UnsafeAddr())).Interface().(fmt.Stringer); ok {
						fmt.Fprintf(b, "%q", s.String())
					}
				}
			default:
				b.WriteString("foreign:" + t.String())
			}
			return
		}
		b.WriteString(t.Name() + "{")
		for i := 0; i < v.NumField(); i++ {
			b.WriteString(t.Field(i).Name + ":")
			d.value(v.Field(i), depth+1)
			b.WriteByte(' ')
		}
		b.WriteByte('}')
	case reflect.Ptr:
		if v.IsNil() {
			b.WriteString("nil")
			return
		}
		if v.Type() == regexpPtrType {
			re := (*regexp.Regexp)(unsafe.Pointer(v.Pointer()))
			longest := reflect.ValueOf(re).Elem().FieldByName("longest")
			fmt.Fprintf(b, "&regexp(%q", re.String())
			if longest.IsValid() {
				fmt.Fprintf(b, " longest=%v", longest.Bool())
			}
			b.WriteByte(')')
			return
		}
		addr := v.Pointer()
		if d.path[addr] {
			b.WriteString("&cycle")
			return
		}
		d.path[addr] = true
		b.WriteByte('&')
		d.value(v.Elem(), depth+1)
		delete(d.path, addr)
	case reflect.Interface:
		if v.IsNil() {
			b.WriteString("nil")
			return
		}
		b.WriteString("(" + v.Elem().Type().String() + ")")
		d.value(v.Elem(), depth+1)
	case reflect.Func, reflect.Chan, reflect.UnsafePointer:
		fmt.Fprintf(b, "%s(nil=%v)", v.Kind(), v.IsNil())
	default:
		b.WriteString("?" + v.Kind().String())
	}
}

func capOf(v reflect.Value) int {
	if v.Kind() == reflect.Slice {
		return v.Cap()
	}
	return v.Len()
}

// ---- package-level variables ---------------------------------------------

// Globals maps "pkgdir.name" to a pointer to every package-level variable of
// the instrumented goawk packages (registered by generated init functions).
var Globals = map[string]any{}

func RegisterGlobals(pkg string, vars map[string]any) {
	for n, p := range vars {
		Globals[pkg+"."+n] = p
	}
}

// DumpGlobals renders every registered package-level variable, one per line.
func DumpGlobals() string {
	names := make([]string, 0, len(Globals))
	for n := range Globals {
		names = append(names, n)
	}
	sort.Strings(names)
	var b strings.Builder
	for _, n := range names {
		b.WriteString(n + " = ")
		b.WriteString(DeepDump(Globals[n]))
		b.WriteByte('\n')
	}
	return b.String()
}

//go:build verif

package vexp

import (
	"bytes"
	"os"
	"strings"

	"github.com/benhoyt/goawk/internal/ast"
	"github.com/benhoyt/goawk/internal/compiler"
	"github.com/benhoyt/goawk/internal/cover"
	"github.com/benhoyt/goawk/internal/parseutil"
	"github.com/benhoyt/goawk/internal/resolver"
	"github.com/benhoyt/goawk/interp"
	"github.com/benhoyt/goawk/parser"
)

// StmtLists returns, for every non-empty statement list of the program at any
// depth (rule bodies, function bodies, bodies of if/else/while/do/for/for-in/
// block), the start positions of its elements in order. For-loop init/step
// clauses are not statements of their own.
func StmtLists(prog *parser.Program) [][]RefPos {
	p := &prog.ResolvedProgram.Program
	var out [][]RefPos
	var walk func(ss ast.Stmts)
	walk = func(ss ast.Stmts) {
		if len(ss) == 0 {
			return
		}
		lst := make([]RefPos, 0, len(ss))
		for _, s := range ss {
			sp := s.StartPos()
			lst = append(lst, RefPos{Line: sp.Line, Col: sp.Column})
		}
		out = append(out, lst)
		for _, s := range ss {
			switch s := s.(type) {
			case *ast.IfStmt:
				walk(s.Body)
				walk(s.Else)
			case *ast.ForStmt:
				walk(s.Body)
			case *ast.ForInStmt:
				walk(s.Body)
			case *ast.WhileStmt:
				walk(s.Body)
			case *ast.DoWhileStmt:
				walk(s.Body)
			case *ast.BlockStmt:
				walk(s.Body)
			}
		}
	}
	for _, ss := range p.Begin {
		walk(ss)
	}
	for _, a := range p.Actions {
		walk(a.Stmts)
	}
	for _, ss := range p.End {
		walk(ss)
	}
	for _, f := range p.Functions {
		walk(f.Body)
	}
	return out
}

// CoverRunResult is the observation of one in-process run (see CoverRun).
type CoverRunResult struct {
	Stdout string
	Stderr string
	Status int
}

// CoverRun replays, inside the calling process, what goawk.go's main does for
//
//	goawk [-covermode mode -coverprofile profile [-coverappend]] -v vars... -f paths...
//
// (read and concatenate the sources, parse, annotate, re-resolve, re-compile,
// execute, write the profile). mode "" = no coverage. It is a development aid
// of check C18 (fast validation of the oracle on the whole space); the check's
// observations proper come from the real binary.
func CoverRun(paths []string, mode string, appendFlag bool, profile string, stdin string, vars []string, environ []string) (res CoverRunResult) {
	fail := func(err error) CoverRunResult {
		res.Stderr = err.Error()
		res.Status = 2
		return res
	}
	fileReader := &parseutil.FileReader{}
	for _, pth := range paths {
		f, err := os.Open(pth)
		if err != nil {
			return fail(err)
		}
		err = fileReader.AddFile(pth, f)
		f.Close()
		if err != nil {
			return fail(err)
		}
	}
	prog, err := parser.ParseProgram(fileReader.Source(), &parser.ParserConfig{})
	if err != nil {
		return fail(err)
	}
	coverMode := cover.ModeUnspecified
	switch mode {
	case "set":
		coverMode = cover.ModeSet
	case "count":
		coverMode = cover.ModeCount
	}
	coverage := cover.New(coverMode, appendFlag, fileReader)
	if coverMode != cover.ModeUnspecified {
		astProgram := &prog.ResolvedProgram.Program
		coverage.Annotate(astProgram)
		prog.ResolvedProgram = *resolver.Resolve(astProgram, &resolver.Config{})
		prog.Compiled, err = compiler.Compile(&prog.ResolvedProgram)
		if err != nil {
			return fail(err)
		}
	}
	var out, errb bytes.Buffer
	config := &interp.Config{
		Argv0:   "goawk",
		Stdin:   strings.NewReader(stdin),
		Output:  &out,
		Error:   &errb,
		Environ: environ,
		Vars:    append([]string{"FS", " ", "INPUTMODE", "", "OUTPUTMODE", ""}, vars...),
	}
	interpreter, err := interp.New(prog)
	if err != nil {
		return fail(err)
	}
	status, err := interpreter.Execute(config)
	res.Stdout = out.String()
	res.Stderr = errb.String()
	if err != nil {
		return fail(err)
	}
	if profile != "" && coverMode != cover.ModeUnspecified {
		if err := coverage.WriteProfile(profile, interpreter.Array(cover.ArrayName)); err != nil {
			return fail(err)
		}
	}
	res.Status = status
	return res
}

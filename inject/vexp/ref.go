//go:build verif

package vexp

import (
	"github.com/benhoyt/goawk/internal/refawk"
	"github.com/benhoyt/goawk/parser"
)

type RefConfig = refawk.Config
type RefResult = refawk.Result
type RefPos = refawk.Pos

// RunRef evaluates the parsed program on the reference tree-walking evaluator.
func RunRef(p *parser.Program, cfg *RefConfig) RefResult { return refawk.Run(p, cfg) }

// ---- bytecode verifier ----

//go:build verif

package vexp

import (
	"github.com/benhoyt/goawk/internal/bcverify"
	"github.com/benhoyt/goawk/parser"
)

type BCStats = bcverify.Stats

// VerifyBytecode explores the control-flow automaton of every compiled block.
func VerifyBytecode(p *parser.Program) ([]string, BCStats) { return bcverify.Verify(p) }

//go:build verif

// Package vexp is the exported façade the external harness module imports:
// it re-exports the hook controls of the internal packages.
package vexp

import (
	"io"

	"github.com/benhoyt/goawk/internal/vexec"
	"github.com/benhoyt/goawk/internal/vhook"
)

type OsEvent = vhook.OsEvent

func SetReaderFn(f func(r io.Reader) io.Reader)    { vhook.ReaderFn = f }
func SetStepFn(f func())                           { vhook.StepFn = f }
func SetPermFn(f func(site string, n int) []int)   { vhook.PermFn = f }
func SetSiteSeen(f func(site string, n int))       { vhook.SiteSeen = f }
func SetOsFn(f func(ev OsEvent))                   { vhook.OsFn = f }
func SetStartFn(f func(path string, args []string)) { vexec.StartFn = f }

type Cmd = vexec.Cmd
type World = vexec.World
type WorldImpl = vexec.WorldImpl

func SetWorld(w *World) { vexec.Virtual = w }

var NewExitError = vexec.NewExitError

// DeepDump / DumpGlobals: reflective dumps used by C19 (see vhook/deepdump.go).
func DeepDump(v any) string { return vhook.DeepDump(v) }
func DumpGlobals() string   { return vhook.DumpGlobals() }

//go:build verif

package vexp

import (
	"fmt"
	"strconv"
	"strings"

	"github.com/benhoyt/goawk/internal/ast"
	"github.com/benhoyt/goawk/parser"
)

// CanonOpts controls CanonTree.
type CanonOpts struct {
	KeepGrouping bool // keep GroupingExpr nodes (default: dropped)
	NumSig6      bool // render numeric literals with 6 significant digits
	EmptyElseNil bool // treat `else {}` like no else, empty bodies alike
}

// CanonTree renders the syntax tree of prog as an S-expression without
// positions, for structural comparison from outside the module.
func CanonTree(prog *parser.Program, o CanonOpts) string {
	var b strings.Builder
	p := &prog.ResolvedProgram.Program
	for _, ss := range p.Begin {
		b.WriteString("(BEGIN " + canonStmts(ss, o) + ")\n")
	}
	for _, a := range p.Actions {
		b.WriteString("(ACTION [")
		for i, e := range a.Pattern {
			if i > 0 {
				b.WriteString(" ")
			}
			b.WriteString(CanonExpr(e, o))
		}
		b.WriteString("] ")
		if a.Stmts == nil {
			b.WriteString("nil")
		} else {
			b.WriteString(canonStmts(a.Stmts, o))
		}
		b.WriteString(")\n")
	}
	for _, ss := range p.End {
		b.WriteString("(END " + canonStmts(ss, o) + ")\n")
	}
	for _, f := range p.Functions {
		b.WriteString("(FUNC " + f.Name + " (" + strings.Join(f.Params, " ") + ") " + canonStmts(f.Body, o) + ")\n")
	}
	return b.String()
}

func canonStmts(ss ast.Stmts, o CanonOpts) string {
	parts := make([]string, len(ss))
	for i, s := range ss {
		parts[i] = canonStmt(s, o)
	}
	return "{" + strings.Join(parts, "; ") + "}"
}

func exprOrNil(e ast.Expr, o CanonOpts) string {
	if e == nil {
		return "nil"
	}
	return CanonExpr(e, o)
}

func canonStmt(s ast.Stmt, o CanonOpts) string {
	switch s := s.(type) {
	case *ast.PrintStmt:
		return "(print " + canonExprs(s.Args, o) + " " + s.Redirect.String() + " " + exprOrNil(s.Dest, o) + ")"
	case *ast.PrintfStmt:
		return "(printf " + canonExprs(s.Args, o) + " " + s.Redirect.String() + " " + exprOrNil(s.Dest, o) + ")"
	case *ast.ExprStmt:
		return "(expr " + CanonExpr(s.Expr, o) + ")"
	case *ast.IfStmt:
		els := "nil"
		if s.Else != nil && !(o.EmptyElseNil && len(s.Else) == 0) {
			els = canonStmts(s.Else, o)
		}
		return "(if " + CanonExpr(s.Cond, o) + " " + canonStmts(s.Body, o) + " " + els + ")"
	case *ast.ForStmt:
		pre, post := "nil", "nil"
		if s.Pre != nil {
			pre = canonStmt(s.Pre, o)
		}
		if s.Post != nil {
			post = canonStmt(s.Post, o)
		}
		return "(for " + pre + " " + exprOrNil(s.Cond, o) + " " + post + " " + canonStmts(s.Body, o) + ")"
	case *ast.ForInStmt:
		return "(forin " + s.Var + " " + s.Array + " " + canonStmts(s.Body, o) + ")"
	case *ast.WhileStmt:
		return "(while " + CanonExpr(s.Cond, o) + " " + canonStmts(s.Body, o) + ")"
	case *ast.DoWhileStmt:
		return "(do " + canonStmts(s.Body, o) + " " + CanonExpr(s.Cond, o) + ")"
	case *ast.BreakStmt:
		return "(break)"
	case *ast.ContinueStmt:
		return "(continue)"
	case *ast.NextStmt:
		return "(next)"
	case *ast.NextfileStmt:
		return "(nextfile)"
	case *ast.ExitStmt:
		return "(exit " + exprOrNil(s.Status, o) + ")"
	case *ast.DeleteStmt:
		return "(delete " + s.Array + " " + canonExprs(s.Index, o) + ")"
	case *ast.ReturnStmt:
		return "(return " + exprOrNil(s.Value, o) + ")"
	case *ast.BlockStmt:
		return "(block " + canonStmts(s.Body, o) + ")"
	default:
		return fmt.Sprintf("(?stmt %T)", s)
	}
}

func canonExprs(es []ast.Expr, o CanonOpts) string {
	parts := make([]string, len(es))
	for i, e := range es {
		parts[i] = CanonExpr(e, o)
	}
	return "[" + strings.Join(parts, " ") + "]"
}

func canonNum(f float64, o CanonOpts) string {
	if o.NumSig6 {
		return strconv.FormatFloat(f, 'g', 6, 64)
	}
	return strconv.FormatFloat(f, 'g', -1, 64)
}

// CanonExpr renders one expression.
func CanonExpr(e ast.Expr, o CanonOpts) string {
	switch e := e.(type) {
	case *ast.FieldExpr:
		return "($ " + CanonExpr(e.Index, o) + ")"
	case *ast.NamedFieldExpr:
		return "(@ " + CanonExpr(e.Field, o) + ")"
	case *ast.UnaryExpr:
		return "(u" + e.Op.String() + " " + CanonExpr(e.Value, o) + ")"
	case *ast.BinaryExpr:
		return "(" + e.Op.String() + " " + CanonExpr(e.Left, o) + " " + CanonExpr(e.Right, o) + ")"
	case *ast.InExpr:
		return "(in " + canonExprs(e.Index, o) + " " + e.Array + ")"
	case *ast.CondExpr:
		return "(?: " + CanonExpr(e.Cond, o) + " " + CanonExpr(e.True, o) + " " + CanonExpr(e.False, o) + ")"
	case *ast.NumExpr:
		return "(num " + canonNum(e.Value, o) + ")"
	case *ast.StrExpr:
		if e.Regex {
			return "(strregex " + strconv.Quote(e.Value) + ")"
		}
		return "(str " + strconv.Quote(e.Value) + ")"
	case *ast.RegExpr:
		return "(regex " + strconv.Quote(e.Regex) + ")"
	case *ast.VarExpr:
		return "(var " + e.Name + ")"
	case *ast.IndexExpr:
		return "(index " + e.Array + " " + canonExprs(e.Index, o) + ")"
	case *ast.AssignExpr:
		return "(= " + CanonExpr(e.Left, o) + " " + CanonExpr(e.Right, o) + ")"
	case *ast.AugAssignExpr:
		return "(" + e.Op.String() + "= " + CanonExpr(e.Left, o) + " " + CanonExpr(e.Right, o) + ")"
	case *ast.IncrExpr:
		if e.Pre {
			return "(pre" + e.Op.String() + " " + CanonExpr(e.Expr, o) + ")"
		}
		return "(post" + e.Op.String() + " " + CanonExpr(e.Expr, o) + ")"
	case *ast.CallExpr:
		return "(call " + e.Func.String() + " " + canonExprs(e.Args, o) + ")"
	case *ast.UserCallExpr:
		return "(ucall " + e.Name + " " + canonExprs(e.Args, o) + ")"
	case *ast.MultiExpr:
		return "(multi " + canonExprs(e.Exprs, o) + ")"
	case *ast.GetlineExpr:
		return "(getline " + exprOrNil(e.Command, o) + " " + exprOrNil(e.Target, o) + " " + exprOrNil(e.File, o) + ")"
	case *ast.GroupingExpr:
		if o.KeepGrouping {
			return "(group " + CanonExpr(e.Expr, o) + ")"
		}
		return CanonExpr(e.Expr, o)
	case nil:
		return "nil"
	default:
		return fmt.Sprintf("(?expr %T)", e)
	}
}

// StmtCount returns the number of statements of the program: elements of
// statement lists at any depth (for-loop init/step clauses are not counted).
func StmtCount(prog *parser.Program) int {
	p := &prog.ResolvedProgram.Program
	n := 0
	var cnt func(ss ast.Stmts)
	cnt = func(ss ast.Stmts) {
		for _, s := range ss {
			n++
			switch s := s.(type) {
			case *ast.IfStmt:
				cnt(s.Body)
				cnt(s.Else)
			case *ast.ForStmt:
				cnt(s.Body)
			case *ast.ForInStmt:
				cnt(s.Body)
			case *ast.WhileStmt:
				cnt(s.Body)
			case *ast.DoWhileStmt:
				cnt(s.Body)
			case *ast.BlockStmt:
				cnt(s.Body)
			}
		}
	}
	for _, ss := range p.Begin {
		cnt(ss)
	}
	for _, a := range p.Actions {
		cnt(a.Stmts)
	}
	for _, ss := range p.End {
		cnt(ss)
	}
	for _, f := range p.Functions {
		cnt(f.Body)
	}
	return n
}

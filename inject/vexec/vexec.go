//go:build verif

// Package vexec replaces os/exec inside package interp in verification builds.
// With no World installed it passes straight through to os/exec (recording
// process starts); with a World installed, commands are scripted in-memory
// "processes" whose every step is a scheduling point of the harness scheduler.
// It imports nothing from goawk.
package vexec

import (
	"context"
	"io"
	osexec "os/exec"
	"syscall"
	"time"
)

// StartFn, if non-nil, is told about every attempted process start.
var StartFn func(path string, args []string)

// World is the virtual process environment (see virtual.go). nil = real processes.
var Virtual *World

type ProcessState struct {
	ws syscall.WaitStatus
}

func (p *ProcessState) Sys() any { return p.ws }

type ExitError struct {
	ProcessState *ProcessState
	msg          string
}

func (e *ExitError) Error() string { return e.msg }

type Cmd struct {
	Path      string
	Args      []string
	Stdin     io.Reader
	Stdout    io.Writer
	Stderr    io.Writer
	WaitDelay time.Duration

	ctx  context.Context
	real *osexec.Cmd
	virt *proc
}

func Command(name string, arg ...string) *Cmd {
	return &Cmd{Path: name, Args: append([]string{name}, arg...)}
}

func CommandContext(ctx context.Context, name string, arg ...string) *Cmd {
	c := Command(name, arg...)
	c.ctx = ctx
	return c
}

func (c *Cmd) mkReal() *osexec.Cmd {
	if c.real == nil {
		if c.ctx != nil {
			c.real = osexec.CommandContext(c.ctx, c.Path, c.Args[1:]...)
		} else {
			c.real = osexec.Command(c.Path, c.Args[1:]...)
		}
	}
	return c.real
}

func (c *Cmd) StdinPipe() (io.WriteCloser, error) {
	if Virtual != nil {
		return Virtual.stdinPipe(c)
	}
	return c.mkReal().StdinPipe()
}

func (c *Cmd) StdoutPipe() (io.ReadCloser, error) {
	if Virtual != nil {
		return Virtual.stdoutPipe(c)
	}
	return c.mkReal().StdoutPipe()
}

func (c *Cmd) Start() error {
	if StartFn != nil {
		StartFn(c.Path, c.Args)
	}
	if Virtual != nil {
		return Virtual.start(c)
	}
	r := c.mkReal()
	if c.Stdin != nil && r.Stdin == nil {
		r.Stdin = c.Stdin
	}
	if c.Stdout != nil && r.Stdout == nil {
		r.Stdout = c.Stdout
	}
	if c.Stderr != nil && r.Stderr == nil {
		r.Stderr = c.Stderr
	}
	r.WaitDelay = c.WaitDelay
	return r.Start()
}

func (c *Cmd) Wait() error {
	if Virtual != nil {
		return Virtual.wait(c)
	}
	err := c.real.Wait()
	if ee, ok := err.(*osexec.ExitError); ok {
		ws, _ := ee.ProcessState.Sys().(syscall.WaitStatus)
		return &ExitError{ProcessState: &ProcessState{ws: ws}, msg: ee.Error()}
	}
	return err
}

//go:build verif

package vexec

import (
	"context"
	"errors"
	"io"
)

// World is filled in by virtual_impl (see C13); this stub keeps the package
// compiling when only pass-through is needed.
type World struct {
	Impl WorldImpl
}

type WorldImpl interface {
	StdinPipe(c *Cmd) (io.WriteCloser, error)
	StdoutPipe(c *Cmd) (io.ReadCloser, error)
	Start(c *Cmd) error
	Wait(c *Cmd) error
}

type proc struct{}

var errNoImpl = errors.New("vexec: no world implementation")

func (w *World) stdinPipe(c *Cmd) (io.WriteCloser, error) {
	if w.Impl == nil {
		return nil, errNoImpl
	}
	return w.Impl.StdinPipe(c)
}
func (w *World) stdoutPipe(c *Cmd) (io.ReadCloser, error) {
	if w.Impl == nil {
		return nil, errNoImpl
	}
	return w.Impl.StdoutPipe(c)
}
func (w *World) start(c *Cmd) error {
	if w.Impl == nil {
		return errNoImpl
	}
	return w.Impl.Start(c)
}
func (w *World) wait(c *Cmd) error {
	if w.Impl == nil {
		return errNoImpl
	}
	return w.Impl.Wait(c)
}

// Ctx exposes the command's context (nil if created with Command).
func (c *Cmd) Ctx() context.Context { return c.ctx }

// NewExitError builds the error Wait returns for a non-zero exit / signal.
func NewExitError(exit int, signal int) *ExitError {
	var ws uint32
	if signal != 0 {
		ws = uint32(signal & 0x7f)
	} else {
		ws = uint32(exit&0xff) << 8
	}
	return &ExitError{ProcessState: &ProcessState{ws: wsFrom(ws)}, msg: "exit status"}
}

//go:build verif

package vexec

import "syscall"

func wsFrom(u uint32) syscall.WaitStatus { return syscall.WaitStatus(u) }

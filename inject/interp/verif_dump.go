//go:build verif

package interp

import (
	"fmt"
	"sort"
	"strings"
)

// VerifDump renders the persistent, property-relevant state of the
// interpreter canonically (maps sorted; caches and buffer capacities left
// out). Read-only. Used for explicit-state de-duplication in C14.
func (p *Interpreter) VerifDump() string {
	q := p.interp
	var b strings.Builder
	w := func(format string, a ...any) { fmt.Fprintf(&b, format, a...) }
	w("globals:")
	for i, g := range q.globals {
		w(" %d=%s", i, g.String())
	}
	w("\narrays(%d):", len(q.arrays))
	for i, a := range q.arrays {
		keys := make([]string, 0, len(a))
		for k := range a {
			keys = append(keys, k)
		}
		sort.Strings(keys)
		w(" %d{", i)
		for _, k := range keys {
			w("%q:%s,", k, a[k].String())
		}
		w("}")
	}
	w("\nsp=%d callDepth=%d localArrays=%d frame=%d", q.sp, q.callDepth, len(q.localArrays), len(q.frame))
	w("\nrecord: line=%q trueStr=%v haveFields=%v fields=%q nf=%s reparseCSV=%v", q.line, q.lineIsTrueStr, q.haveFields, q.fields, q.numFields.String(), q.reparseCSV)
	w("\nnr=%s fnr=%s filename=%s argc=%s", q.lineNum.String(), q.fileLineNum.String(), q.filename.String(), q.argc.String())
	w("\nfieldNames=%q fieldIndexes=%d", q.fieldNames, len(q.fieldIndexes))
	w("\nspecials: CONVFMT=%q OFMT=%q FS=%q RS=%q RT=%q OFS=%q ORS=%q SUBSEP=%q RSTART=%s RLENGTH=%s savedFS=%q", q.convertFormat, q.outputFormat, q.fieldSep, q.recordSep,
		q.recordTerminator, q.outputFieldSep, q.outputRecordSep, q.subscriptSep, q.matchStart.String(), q.matchLength.String(), q.savedFieldSep)
	w("\nmodes: in=%d %+v out=%d %+v chars=%v crlf=%v", q.inputMode, q.csvInputConfig, q.outputMode, q.csvOutputConfig, q.chars, q.newlineOutputCRLF)
	w("\nstreams: in=%d out=%d scanners=%d scanner=%v input=%v hadFiles=%v filenameIndex=%d", len(q.inputStreams), len(q.outputStreams), len(q.scanners), q.scanner != nil, q.input != nil, q.hadFiles, q.filenameIndex)
	w("\nflags: noExec=%v noFileWrites=%v noFileReads=%v noArgVars=%v", q.noExec, q.noFileWrites, q.noFileReads, q.noArgVars)
	w("\nexit=%d randSeed=%v checkCtx=%v", q.exitStatus, q.randSeed, q.checkCtx)
	// C14 additions: remaining persistent fields that are not pure caches.
	re := func(r interface{ String() string }, isNil bool) string {
		if isNil {
			return "<nil>"
		}
		return r.String()
	}
	w("\nregex: fs=%q rs=%q savedfs=%q", re(q.fieldSepRegex, q.fieldSepRegex == nil), re(q.recordSepRegex, q.recordSepRegex == nil), re(q.savedFieldSepRegex, q.savedFieldSepRegex == nil))
	w("\nfieldsIsTrueStr=%v shell=%q natives=%d openFile=%v", q.fieldsIsTrueStr, q.shellCommand, len(q.nativeFuncs), q.openFile != nil)
	csvBuffered := -1
	if q.csvOutput != nil {
		csvBuffered = q.csvOutput.Buffered()
	}
	w("\ncsvOutputBuffered=%d csvJoinBuf=%d ctxOps=%d ctxCancelled=%v", csvBuffered, q.csvJoinFieldsBuf.Len(), q.ctxOps, q.ctx != nil && q.ctx.Err() != nil)
	return b.String()
}

//go:build verif

package interp

import (
	"fmt"
	"reflect"
	"sort"
	"strings"
	"unsafe"
)

// verifDumpSkip: scratch buffers and the shared Program are not part of the
// persistent per-interpreter state the reuse property talks about. (The regex
// and format caches are dumped: two histories that differ only in what they
// left in a cache must not be merged.)
// (A field that is renamed simply stops being skipped: the dump gets finer,
// never wrong.)
var verifDumpSkip = map[string]bool{
	"program": true, "functions": true, "nums": true, "strs": true, "regexes": true,
	"splitBuffer": true, "inputBuffer": true,
	"stack": true, "frame": true, "scalarIndexes": true, "arrayIndexes": true, "random": true,
	"ctxDone": true,
}

// VerifDump renders the persistent state of the interpreter canonically (maps
// sorted, pointers by nil-ness or by String()). It walks the struct by
// reflection so that it keeps compiling when fields are added or renamed.
// Read-only. Used for explicit-state de-duplication in C14.
func (p *Interpreter) VerifDump() string {
	var b strings.Builder
	v := reflect.ValueOf(p.interp).Elem()
	t := v.Type()
	for i := 0; i < t.NumField(); i++ {
		name := t.Field(i).Name
		if verifDumpSkip[name] {
			continue
		}
		b.WriteString(name)
		b.WriteByte('=')
		verifDumpValue(&b, v.Field(i), 0)
		b.WriteByte('\n')
	}
	return b.String()
}

func verifAccessible(v reflect.Value) reflect.Value {
	if v.CanInterface() || !v.CanAddr() {
		return v
	}
	return reflect.NewAt(v.Type(), unsafe.Pointer(v.UnsafeAddr())).Elem()
}

func verifDumpValue(b *strings.Builder, v reflect.Value, depth int) {
	if depth > 4 {
		b.WriteString("…")
		return
	}
	switch v.Kind() {
	case reflect.Bool:
		fmt.Fprintf(b, "%v", v.Bool())
	case reflect.Int, reflect.Int8, reflect.Int16, reflect.Int32, reflect.Int64:
		fmt.Fprintf(b, "%d", v.Int())
	case reflect.Uint, reflect.Uint8, reflect.Uint16, reflect.Uint32, reflect.Uint64, reflect.Uintptr:
		fmt.Fprintf(b, "%d", v.Uint())
	case reflect.Float32, reflect.Float64:
		fmt.Fprintf(b, "%v", v.Float())
	case reflect.String:
		fmt.Fprintf(b, "%q", v.String())
	case reflect.Slice, reflect.Array:
		if v.Kind() == reflect.Slice && v.IsNil() {
			b.WriteString("nil")
			return
		}
		if v.Type().Elem().Kind() == reflect.Uint8 {
			fmt.Fprintf(b, "bytes(%d)", v.Len())
			return
		}
		fmt.Fprintf(b, "[%d:", v.Len())
		for i := 0; i < v.Len() && i < 200; i++ {
			verifDumpValue(b, v.Index(i), depth+1)
			b.WriteByte(' ')
		}
		b.WriteByte(']')
	case reflect.Map:
		if v.IsNil() {
			b.WriteString("nil")
			return
		}
		type kv struct{ k, v string }
		var items []kv
		iter := v.MapRange()
		for iter.Next() {
			var kb, vb strings.Builder
			verifDumpValue(&kb, iter.Key(), depth+1)
			verifDumpValue(&vb, iter.Value(), depth+1)
			items = append(items, kv{kb.String(), vb.String()})
		}
		sort.Slice(items, func(i, j int) bool { return items[i].k < items[j].k })
		fmt.Fprintf(b, "map(%d){", len(items))
		for _, it := range items {
			b.WriteString(it.k + ":" + it.v + ",")
		}
		b.WriteByte('}')
	case reflect.Struct:
		av := verifAccessible(v)
		if av.CanInterface() {
			if buf, ok := av.Addr().Interface().(interface{ Len() int }); ok && v.Type().String() == "bytes.Buffer" {
				fmt.Fprintf(b, "buffer(%d)", buf.Len())
				return
			}
		}
		b.WriteByte('{')
		for i := 0; i < v.NumField(); i++ {
			b.WriteString(v.Type().Field(i).Name + ":")
			verifDumpValue(b, v.Field(i), depth+1)
			b.WriteByte(' ')
		}
		b.WriteByte('}')
	case reflect.Ptr:
		if v.IsNil() {
			b.WriteString("nil")
			return
		}
		av := verifAccessible(v)
		if av.CanInterface() {
			switch x := av.Interface().(type) {
			case interface{ Buffered() int }:
				fmt.Fprintf(b, "&buffered(%d)", x.Buffered())
				return
			case fmt.Stringer:
				if strings.Contains(v.Type().String(), "regexp") {
					fmt.Fprintf(b, "&%q", x.String())
					return
				}
			}
		}
		b.WriteString("&" + v.Type().Elem().String())
	case reflect.Interface:
		if v.IsNil() {
			b.WriteString("nil")
			return
		}
		av := verifAccessible(v)
		if av.CanInterface() {
			if c, ok := av.Interface().(interface{ Err() error }); ok {
				fmt.Fprintf(b, "ctx(err=%v)", c.Err() != nil)
				return
			}
		}
		b.WriteString("iface:" + v.Elem().Type().String())
	case reflect.Func, reflect.Chan, reflect.UnsafePointer:
		fmt.Fprintf(b, "%s(nil=%v)", v.Kind(), v.IsNil())
	default:
		b.WriteString("?" + v.Kind().String())
	}
}

/*
 * cprintf: the C library's snprintf as an oracle for check C09.
 *
 * Long-running filter. All integers little-endian.
 *
 * request:  u32 fmtlen   (0xFFFFFFFF = "flush your output now", no further fields)
 *           fmtlen bytes  C format string containing exactly one conversion (or
 *                         none), already carrying the C length modifier ("ld",
 *                         "lx", ...); never contains NUL
 *           u8  nstar     number of '*' in the conversion (0..2), each followed by
 *           i32 star      ... its int value
 *           u8  type      'l' long (i64) | 'u' unsigned long (u64) | 'c' int (i32)
 *                         'd' double (8 raw bytes) | 's' char* (u32 len + bytes)
 *                         'n' no argument
 * response: i32 len (-1 = bad request / snprintf error), len bytes
 *
 * The typed argument is passed to snprintf with exactly that C type, so no
 * undefined behaviour arises from type mismatches as long as the caller builds
 * the format for the type it sends.
 */
#include <stdio.h>
#include <stdlib.h>
#include <string.h>
#include <stdint.h>

_Static_assert(sizeof(long) == 8 && sizeof(int) == 4 && sizeof(double) == 8, "LP64 expected");

static int rd(void *p, size_t n) { return fread(p, 1, n, stdin) == n; }

static void answer(const char *buf, int32_t n) {
    fwrite(&n, 4, 1, stdout);
    if (n > 0) fwrite(buf, 1, (size_t)n, stdout);
}

#pragma GCC diagnostic ignored "-Wformat-nonliteral"
#pragma GCC diagnostic ignored "-Wformat-security"

#define CALL(ARG)                                                              \
    (nstar == 0   ? snprintf(out, cap, fmt, ARG)                               \
     : nstar == 1 ? snprintf(out, cap, fmt, (int)star[0], ARG)                 \
                  : snprintf(out, cap, fmt, (int)star[0], (int)star[1], ARG))

int main(void) {
    size_t cap = 1 << 16;
    char *out = malloc(cap);
    char *fmt = NULL, *str = NULL;
    size_t fmtcap = 0, strcap = 0;
    for (;;) {
        uint32_t fl;
        if (!rd(&fl, 4)) break;
        if (fl == 0xFFFFFFFFu) { fflush(stdout); continue; }
        if (fl + 1 > fmtcap) { fmtcap = fl + 1; fmt = realloc(fmt, fmtcap); }
        if (fl && !rd(fmt, fl)) break;
        fmt[fl] = 0;
        uint8_t nstar, type;
        int32_t star[2] = {0, 0};
        if (!rd(&nstar, 1) || nstar > 2) break;
        for (int i = 0; i < nstar; i++) if (!rd(&star[i], 4)) return 1;
        if (!rd(&type, 1)) break;
        int64_t l = 0; uint64_t u = 0; int32_t c = 0; double d = 0; uint32_t sl = 0;
        switch (type) {
        case 'l': if (!rd(&l, 8)) return 1; break;
        case 'u': if (!rd(&u, 8)) return 1; break;
        case 'c': if (!rd(&c, 4)) return 1; break;
        case 'd': if (!rd(&d, 8)) return 1; break;
        case 's':
            if (!rd(&sl, 4)) return 1;
            if ((size_t)sl + 1 > strcap) { strcap = (size_t)sl + 1; str = realloc(str, strcap); }
            if (sl && !rd(str, sl)) return 1;
            str[sl] = 0;
            break;
        case 'n': break;
        default: return 1;
        }
        int n = -1;
        for (int pass = 0; pass < 2; pass++) {
            switch (type) {
            case 'l': n = CALL((long)l); break;
            case 'u': n = CALL((unsigned long)u); break;
            case 'c': n = CALL((int)c); break;
            case 'd': n = CALL(d); break;
            case 's': n = CALL(str); break;
            case 'n':
                n = nstar == 0 ? snprintf(out, cap, fmt)
                  : nstar == 1 ? snprintf(out, cap, fmt, (int)star[0])
                               : snprintf(out, cap, fmt, (int)star[0], (int)star[1]);
                break;
            }
            if (n < 0 || (size_t)n < cap) break;
            cap = (size_t)n + 1;
            out = realloc(out, cap);
        }
        answer(out, n < 0 ? -1 : n);
    }
    fflush(stdout);
    return 0;
}

#!/bin/bash
# tools/seedkeep.sh <seed-worktree> <name> <ID> "<result line>" : keep a confirmed seeded change under /verif/seeded/<name>/
S=$1/seeded; N=$2; ID=$3; RES=$4; D=/verif/seeded/$N; mkdir -p $D; cp $S/* $D/
python3 - $D/meta.json "$ID" "$RES" "$(cat $S/confirm.txt 2>/dev/null)" <<'PY'
import json,sys
p=sys.argv[1]
try: m=json.load(open(p))
except Exception: m={}
m['breaks_property']=sys.argv[2]
m['confirmed']=sys.argv[4] or 'patch applies; go build ok; repository suite: 2544 stable tests pass with the patch; demo passes on the unchanged tree and fails with the patch (tools/seedconfirm.sh)'
m['ran']='tools/seedtest.sh (patch applied to a scratch copy, handed to the check build as whole-file overlay replacements; /repo untouched) -> ./check %s --tier quick' % sys.argv[2]
m['check_result']=sys.argv[3]
json.dump(m,open(p,'w'),indent=1)
PY
echo kept $D

#!/bin/bash
# Runs every planted change of every check and writes selftest/RESULTS.md
V=${VERIF_DIR:-/verif}; out=$V/selftest/RESULTS.md
{ echo "# Planted changes (tools/selftest.sh): quick tier must exit 1 with a VIOLATION line"; echo; echo "Generated $(date -u +%FT%TZ) on /repo $(git -C /repo log --format=%h -1)."; echo; echo '```'; } > $out
for d in $V/selftest/C*/; do id=$(basename $d); $V/tools/selftest.sh $id 2>&1 | cut -c1-230 >> $out; done
echo '```' >> $out
grep -c CAUGHT $out; grep MISSED $out

#!/usr/bin/env python3
"""Generates /verif/MANIFEST.json from the table below (kept in one place so it stays valid)."""
import json, sys
CHECKS = {}
def chk(id, category, text, note, technique, design_ref):
    CHECKS[id] = dict(category=category, text=text, note=note, technique=technique, design_ref=design_ref)

chk("C07", "model_checking",
    "Deviation-bounded exhaustive exploration of the real record reader: every input up to length 6 (thorough 8) over a per-RS alphabet, delivered in every one of its 2^(n-1) chunkings with both EOF styles, plus an empty read and a read error at every position, single split points of longer inputs and separators straddling the 64 KiB scanner buffer; each execution is compared with an all-at-once specification splitter, the reconstruction equations and the unchunked delivery.",
    "bufio.Scanner's behaviour depends only on the (n,err) sequence of Read results; Go regexp as a leaf of the spec splitter; RS settings and alphabets listed in DESIGN.md §5 C07.",
    "exhaustive enumeration of environment answers (read chunkings) on the real code against a reference splitter",
    "DESIGN.md §5 C07")

NOT_YET = "check not built yet in this round (work in progress; see DESIGN.md §5 for the planned exploration)"
ALL = ["C%02d" % i for i in range(1, 21)]

def main():
    checks = []
    for id in ALL:
        if id not in CHECKS: continue
        c = CHECKS[id]
        checks.append({
            "property_id": id,
            "quick_cmd": "./check %s --tier quick" % id,
            "thorough_cmd": "./check %s --tier thorough" % id,
            "evidence_file": "/verif/evidence/%s.json" % id,
            "replay_cmd_template": "./check %s --replay {path}" % id,
            "engine": "vcheck",
            "level_claimed": {"category": c["category"], "text": c["text"], "design_ref": c["design_ref"]},
            "level_note": c["note"],
            "technique": c["technique"],
        })
    m = {
        "version": 1,
        "setup_cmd": "./setup.sh",
        "hooks": {
            "guard": "verif",
            "enable": "go build -tags verif -overlay /verif/work/overlay.json (overlay generated from /repo's working tree by tools/mkoverlay; nothing is committed to /repo)",
            "baseline_off_cmd": "cd /repo && GOFLAGS=-mod=mod go test -json -vet=off -count=1 -timeout 25m ./...",
            "source_commits": [],
            "add_only": True,
        },
        "engines": [
            {"name": "vcheck", "path": "/verif/harness", "serves_properties": sorted(CHECKS), "kind_free_text": "hand-written bounded-exhaustive explorers (choice/chunk/schedule enumeration, explicit-state search) driving the real goawk code built with an instrumentation overlay"},
            {"name": "mkoverlay", "path": "/verif/tools/mkoverlay", "serves_properties": sorted(CHECKS), "kind_free_text": "go/types-driven source rewriter producing the -overlay instrumentation from the current /repo tree"},
        ],
        "checks": checks,
        "not_applicable": [{"property_id": id, "reason": NOT_YET} for id in ALL if id not in CHECKS],
        "notes": "All checks rebuild from /repo's working tree on every invocation (./check). KNOWN_FINDINGS.txt + known/*.wit list genuine defects recorded rather than repaired.",
    }
    json.dump(m, open("/verif/MANIFEST.json", "w"), indent=1)
    print("MANIFEST.json: %d checks, %d not_applicable" % (len(checks), len(m["not_applicable"])))
main()

#!/usr/bin/env python3
"""Generates /verif/MANIFEST.json from the table below (kept in one place so it stays valid)."""
import json, sys
CHECKS = {}
def chk(id, category, text, note, technique, design_ref):
    CHECKS[id] = dict(category=category, text=text, note=note, technique=technique, design_ref=design_ref)

chk("C07", "model_checking",
    "Deviation-bounded exhaustive exploration of the real record reader: every input up to length 6 (thorough 8) over a per-RS alphabet, delivered in every one of its 2^(n-1) chunkings with both EOF styles, plus an empty read and a read error at every position, single split points of longer inputs and separators straddling the 64 KiB scanner buffer; each execution is compared with an all-at-once specification splitter, the reconstruction equations and the unchunked delivery. Also: cmd | getline / cmd | getline var on a command's output pipe delivered in every chunking (vexec seam), and RS assigned by the program in mid-input (12 old/new RS pairs x every chunking, differential oracle). RS changed from a regex to each single character incl. every regex metacharacter (specification oracle) and to bytes that are not valid UTF-8 (no panic, delivery independence); one-byte invalid RS among other invalid bytes and split multi-byte characters.",
    "bufio.Scanner's behaviour depends only on the (n,err) sequence of Read results; Go regexp as a leaf of the spec splitter; RS settings and alphabets listed in DESIGN.md §5 C07.",
    "exhaustive enumeration of environment answers (read chunkings) on the real code against a reference splitter",
    "DESIGN.md §5 C07")

chk("C01", "model_checking",
    "Bounded-exhaustive enumeration of a feature-product program grammar (every lvalue kind x assignment/op=/++/-- x rhs x statement/expression form x scope; every comparison over 14 operand types x 11 condition constructs; concatenation chains in every grouping; user-call shapes; builtins; loop nests with break/continue at every placement; pattern/getline/IO forms; thorough: all ordered pairs of 50 statements), each program run on the real compiler+VM and on an independent tree-walking reference evaluator (stdout, files written, exit status, error outcome must agree), plus metamorphic groups of equivalent spellings that must behave identically. Also: values of !, && and || in 8 value contexts (grouped with their ?: spelling), cross-record and cache-overflow programs, and a long-run family (1300 records: next/nextfile/exit/return/getline/close/delete in functions and loops). Further families: self-referencing assignments (v = v op e where e changes v), statements whose bodies are all empty around side-effecting / failing conditions, deep recursion with locals re-read after nested calls, programs that run after the regex / format caches are full.",
    "Reference evaluator shares only lexer+parser with the implementation and is validated on every run against the repository's own test table (disagreement = harness error). Defects needing more than the stated program sizes are out of reach.",
    "complete enumeration of a program grammar fragment on the real code, differential against a reference model + metamorphic equivalence",
    "DESIGN.md §5 C01")
chk("C09", "model_checking",
    "Complete product of conversions x all 32 flag subsets x widths x precisions (literal and *) x 64 argument values through sprintf and printf, byte and character mode, compared with the C library's snprintf (helper process) on arguments converted the AWK way by the harness; plus pairs of conversions, %%, too-few-arguments and unknown-conversion error cases for every byte, and print under 12 OFMT values. Also: every format used twice in one interpreter and after a different format (format cache), argument-count error required on reuse. print under OFMT also in csv and tsv output mode.",
    "glibc snprintf is the oracle; combinations the C standard leaves undefined are no-crash only (listed in the evidence assumptions).",
    "complete enumeration of format specifications x argument values against the C library",
    "DESIGN.md §5 C09")
chk("C17", "model_checking",
    "Signatures synthesised with reflect.FuncOf/MakeFunc: every documented kind in every parameter position (<=3, thorough 4), variadic on/off, all result shapes, wide (6-9 params), defined types, invalid shapes, keyword names, several invalid at once; each called with every argument count x 81 AWK values; received Go values, results, error propagation, set-up rejection and parse-time arity errors compared with an independent conversion table; map iteration orders of Funcs driven through the permutation hook. OFMT differs from CONVFMT in every run (number to string parameter conversion uses CONVFMT). Also: calls with fewer arguments after calls with more within one run; Go functions shadowed by AWK functions of the same name (every subset of three x three name sets); 6 error values (incl. io.EOF, context.Canceled, wrapped) x 6 calling contexts.",
    "Out-of-range float->integer conversions are no-panic only; conversion table written from the Config.Funcs documentation.",
    "complete enumeration of Go function signatures x argument counts x values on the real code against a conversion table",
    "DESIGN.md §5 C17")

chk("C02", "model_checking",
    "Four parts: (a) 120 statement templates x hostile values (nan, +-inf, huge, negative, fractional, empty, invalid UTF-8, NUL, 70000-byte strings, regex/format metacharacters) in every argument position x Chars x {default,CSV,TSV,CSV+header} x sandbox flags, every byte string of length <=2 over 10 bytes as FS/RS/SUBSEP/OFS/ORS/CONVFMT/OFMT, INPUTMODE/OUTPUTMODE strings, must-error programs; (b) every sequence of <=3 record operations in CSV modes; (c) every accepted source among all sequences of <=3 (thorough 4) token atoms and the C01 program space under non-default configurations with a VM step budget; (d) a bytecode verifier that exhaustively explores the (ip, stack depth) control-flow automaton of every compiled block of every program seen (no pop below base, equal depth at joins, jump targets on instruction boundaries, operand indexes within tables, call arity) - that part holds for all inputs of each verified program. The CSV record-state part toggles INPUTMODE in mid-run; templates with an already active regex / paragraph reader on a file stream when RS / FS change; var=value operands include invalid INPUTMODE / OUTPUTMODE separators.",
    "Every program x every input is undecidable: decided is the listed product plus, per program, absence of stack/jump/index faults for all inputs. Stack-effect table derived by hand from interp/vm.go, keyed by opcode name.",
    "complete enumeration of hostile-value/config products on the real code + explicit-state exploration of the bytecode control-flow automaton",
    "DESIGN.md §5 C02, Appendix A")
chk("C03", "model_checking",
    "Every sequence of <=4 (thorough 5) atoms over a 41-atom alphabet hitting every lexer branch, every prefix / single-byte deletion / single-byte substitution (9 bytes) of every source in the repository's corpus, and nesting towers up to 32 KiB: ParseProgram must return (no panic), an error position must lie inside the source, every token position reported by the real lexer (driven through every Scan/ScanRegex continuation) must equal the position computed by an independent reference lexer and offset map, and the real CLI binary must show the offending line without a Go panic for every distinct error class. Also: token sequences over a 36-token parser-oriented alphabet (all of length <=4, length 5 [6] starting with a statement keyword) as the body of BEGIN { } and at top level; the CLI must name the file and a line of it in every parse error. Part (e): every sequence of <=3 statements over a 29-statement alphabet (loops with empty bodies, jump statements in and out of place) in 5 containers.",
    "Independent 120-line reference lexer; CLI observed once per (message kind x position class), at most 2000 process runs.",
    "complete enumeration of source texts over a token-atom alphabet and of single-edit mutations of the corpus, against a reference lexer",
    "DESIGN.md §5 C03")
chk("C04", "model_checking",
    "All expression trees with <=3 operator nodes over all 34 operators of the POSIX table (thorough: plus all 4-operator trees over one representative per level) with position-dependent leaves, in 5-11 contexts (statement, print argument, pattern, condition, redirected print, subscript, call argument, ...), each printed fully parenthesised, table-minimal, and in four permissive spellings; both texts are parsed by goawk and the resulting tree (vexp.CanonTree) must equal the generator's own tree; negative expectations for non-associative chains, > in print and | getline. Also: every binary operator after 6 getline forms (cmd | getline [lvalue], getline [lvalue] < file) in 5 contexts, expected tree = parse of the explicitly parenthesised spelling.",
    "The generator owns the expected tree; purely lexical ambiguities (a right operand of concatenation starting with + - ++ --) are always parenthesised.",
    "complete enumeration of expression trees up to a size bound; parse result compared with the generator's tree",
    "DESIGN.md §5 C04")
chk("C05", "model_checking",
    "Every string of length <=4 (thorough 5) over {0 1 9 . + - e E x space} plus ~200 exotic strings, in 22 provenances (field, $0, getline forms, split, ARGV, ENVIRON, -v, operand assignment, constants, computed), probed with 7 truth forms, arithmetic, string conversion and the six comparison operators (plain opcodes, fused jumps, ternary) against ~100 partners each; all pairs of strings of length <=3; ~15k numbers under 9 CONVFMT/OFMT settings; compared with an independent reference value model (own looks-numeric recogniser, prefix conversion, number-to-string and comparison rules). Part 2: 12 numbers x 7 CONVFMT values as subscripts written as literal / variable / computed / string form (also multi-dimensional, in, delete, after a CONVFMT change): all spellings name one element.",
    "Forms POSIX leaves open (hex, inf/nan spellings, overflow, non-ASCII blanks) are checked for self-consistency only (one number per string).",
    "complete enumeration of strings/numbers/pairs over small alphabets against a reference value model",
    "DESIGN.md §5 C05, Appendix B")
chk("C10", "model_checking",
    "substr/length/index on every string of length <=3 (thorough 4) over {a,b,e-acute,0xff} x 44 positions x 45 lengths (fractions, negatives, 2^31, 2^53, 2^63, 2^64, 1e30, 1e308, +-inf, nan) in byte and character mode; split with 14 single-character separators; match/sub/gsub for every regex of <=3 atoms over 13 atoms x every subject x 116 replacement strings; int() on 78 arguments up to MaxFloat64 - each compared with the property's defining equations evaluated by the harness and an own leftmost-longest matcher (Go regexp only cross-checked). Also: every top-level alternation X|Y of sequences of 1..2 atoms over {a b ^ $ a*}. Regex patterns on which leftmost-first and leftmost-longest differ are also run after 130 other regexes were compiled (cache full); the subject alphabet contains a stray UTF-8 continuation byte; index() occurrences are character-aligned in character mode.",
    "NaN arguments are no-crash only; index(s, \"\") and backslashes not followed by & in replacements accept both common readings.",
    "complete enumeration of subjects x patterns x replacements x numeric arguments against the defining equations",
    "DESIGN.md §5 C10")
chk("C13", "model_checking",
    "X: every sequence of <=3 (thorough 4) operations over 17 kinds (print/printf to stdout, >, >>, two commands, close, fflush, system, cmd|getline, getline<file, exit statuses, exit, run-time error) on the real interpreter over virtual child processes against a destination model (file bytes, close() results, per-source stdout projections, order constraints), with unbuffered and buffered Config.Output; S: for sequences with a child sharing stdout, every schedule of program, child and copy threads within a deviation bound under a cooperative scheduler in which each Write to Config.Output is a two-event critical section (overlap = violation; deadlock = violation); D: a write failure injected at every byte offset of standard output for 11 output paths x {unbuffered, bufio}, plus the CLI with stdout=/dev/full. Also: a named stream that fails every flush (/dev/full) among files and commands: the others must still be flushed before system() and fflush() must report -1. Also: printf formatting to nothing as first / later use of a file (> and >>) or command; one file appended to (>>) through two names and by a real child in turn.",
    "os/exec and child processes are replaced by the vexec model (trusted to reflect os/exec's documented behaviour: copy goroutine for non-*os.File Stdout, Wait waits for copying); kernel pipe buffering is not modelled.",
    "explicit enumeration of operation sequences against a model + stateless schedule exploration (deviation-bounded) + exhaustive fault-offset enumeration",
    "DESIGN.md §5 C13, Appendix D")
chk("C14", "model_checking",
    "Explicit-state breadth-first search over histories of Execute/ExecuteContext/ResetVars/ResetRand on one Interpreter (30 operations in quick, 39 in thorough: plain/CSV/TSV/header runs, Vars and Args, run-time errors in function/loop/for-in/rule, exit in BEGIN/rule/END, cancellation at several VM steps, streams left open, sandbox flags, rejected configurations) to depth 2 (thorough 3), states de-duplicated by a canonical dump of the interpreter's persistent fields; in every state two oracles over 9 probe configurations: ResetVars+ResetRand+Execute(probe) equals ExecProgram on a fresh interpreter, and without ResetVars everything except variables/arrays equals fresh. The state dump includes the regex and format caches; histories include runs aborted while a range pattern is open, runs that leave command streams open and runs whose context is cancelled after normal completion; the probe runs system(), cmd | getline, print | cmd (in-process command stand-in), a %c format and dynamic regexes shared with the history. Further histories: runs that seed without drawing random numbers, runs aborted inside functions with filled local arrays; the probe reads a local array before filling it.",
    "State dump (VerifDump) is over-fine by design; successor = replay of the history on a fresh Interpreter plus one operation.",
    "explicit-state BFS over operation histories of the real object with canonical state hashing, differential against a fresh instance",
    "DESIGN.md §5 C14")
chk("C15", "model_checking",
    "For 14 programs (tight loops, nested calls, recursion, for-in, main-loop rules, END loop, pending output, getline loop, error/exit after loops) the context is cancelled before VM step k for every k<=300, every 7th k<=3000 and every 61st to the end (thorough: every k<=3000, every 7th beyond), with unbuffered and buffered output, plus pre-cancelled and expired contexts: at most 1500 further steps, the context's error (or normal completion within those steps), printed output delivered and a prefix of the uncancelled output; for 6 programs waiting on child processes every placement of the cancel among the scheduling points of the virtual process world within a deviation bound (no deadlock, stop within the step limit); never-cancelled ExecuteContext equals Execute on ~1500 programs. After a cancellation a run that ends with the program's own error is a violation (context error preferred); programs with errors in BEGIN/function/rule/END/for-in; children whose descendant keeps the output pipe open (WaitDelay modelled); never-cancelled equivalence also for 9 programs with child processes. Record-driven programs (bare regex patterns, negated, expression, range, several rules) on 6000 records delivered one per Read: records consumed after the cancellation; contexts with a recorded cause: the error returned must be ctx.Err() itself.",
    "Alarm threshold 1500 steps for 'about a thousand' (the code polls every 1000); child processes are the vexec model.",
    "exhaustive enumeration of cancellation points (VM steps, scheduling points) on the real interpreter",
    "DESIGN.md §5 C15")
chk("C19", "model_checking",
    "(1) Every map-range site executed by resolver/compiler during ParseProgram is a choice point over a permutation menu; for programs with 2-3 independent type errors, call-graph shapes, native+AWK function mixes and the repository's own sources, all parses with <=1 (thorough 2) non-sorted site executions must give the same verdict, message, position, compiled code, constants, function table, printed source and disassembly as the sorted-order parse; (2) the Program's fingerprint is unchanged by two rounds of executions (including failing ones) of ~1500 programs and the second round repeats the first; (3) 2 and 3 interpreters sharing one Program run as cooperative threads yielding at every VM instruction: all schedules within a deviation bound give each interpreter its single-run result. The Program comparison is a reflective deep dump (unexported fields, spare capacity, regexes); package-level variables of all goawk packages are dumped around executions; a supplementary free-running -race pass (harness/cmd/vrace) runs the sharing programs with real goroutines. Three programs that start child processes through the default shell are part of the immutability comparison and of the race pass; programs with several unused comma-expressions and with type errors reached through calls are part of the map-order exploration.",
    "Map order is owned via the overlay's rewrite of every map range; data races proper (memory model) are outside an exhaustive cooperative exploration.",
    "deviation-bounded exploration of map iteration orders and of instruction-level interleavings on the real code",
    "DESIGN.md §5 C19")
chk("C20", "model_checking",
    "C04's tree space in five spellings and all contexts, every chain of <=3 (thorough 4) prefix operators x operands x postfix x contexts, every byte value and escape class in strings (all strings of <=3 (4) symbols over a 20-symbol alphabet), all regexes of <=3 (4) pieces over 13 pieces, 51 numeric literals, ~230 simple statements, compound forms with all body combinations, containers and item sequences: parse, print with Program.String, re-parse must succeed, the two trees (vexp.CanonTree, numbers at 6 significant digits) must be equal, and printing again must give the same text. Also: parenthesised print/printf lists (24 expressions alone, in pairs and triples x 4 redirections). Print lists also contain cmd | getline as the leftmost operand of concatenation / arithmetic.",
    "Rejected sources are skipped; grouping nodes and the empty-else distinction are ignored.",
    "complete enumeration of programs over a grammar fragment; print/re-parse round trip compared structurally",
    "DESIGN.md §5 C20")

chk("C11", "model_checking",
    "Programs generated from all combinations of BEGIN (7 forms incl. getline and ARGV/ARGC edits), one or two rules with every pattern form (plain, expression, regex, ranges incl. same-record and never-closing, field-value ranges) and every action of <=2 operations from {getline, getline v, getline < f, getline v < f, next, nextfile, exit k} (plain, inside a function, inside a loop), END (trace, exit, getline) x every operand list of <=3 (thorough 4) over {fileA, fileB, empty file, -, \"\", v=1, FS=,, missing file}; every trace line prints NR, FNR, FILENAME, NF, $0 and the getline variable; each run is compared with the reference tree evaluator given the same files, and ~25 direct invariants from the statement are evaluated on the trace by the check itself. Also: a long-run family (1300 records; next/nextfile/exit/getline/ranges inside functions and loops) against the reference evaluator. BEGIN kinds also replace the operand list through split() (directly, through an array parameter) or delete an element; a plain getline that reaches a missing operand is part of the reference model; NR / FNR assigned from operands, fields, split, getline and strings.",
    "Reference evaluator as in C01; FILENAME in BEGIN/for stdin is not prescribed (normalised); plain getline reaching a missing operand is outside the model.",
    "complete enumeration of programs x operand lists against a reference evaluator plus trace invariants",
    "DESIGN.md §5 C11")

chk("C06", "model_checking",
    "Explicit-state search over histories of record operations (read/assign $i for positive, zero, negative, beyond-NF and huge i; NF assignments; $0 assignment; FS/OFS/OUTPUTMODE changes; sub/gsub on fields; $i++ / +=; the getline forms) from 19 (thorough 42) start states: quick = every history of depth <=3 over 40 operations, thorough = depth 3 over 106 operations plus breadth-first depth 5 de-duplicated on the model state with differential replay of discarded equivalents; each history becomes one program replayed from scratch on the real interpreter, observed through a native function (NF, $0, every field, re-read three times) in an eager and a lazy-split variant, compared with the check's own record model; separately the FS splitting rules on every string of length <=5 (6) over 5 symbols x 8 FS values x 3 read orders and every (FS at read, FS assigned later) pair. Part 3: field lists over 12 encoder-relevant values in csv / tsv output mode (rebuilt $0 = print of the fields = encoding/csv). Part 4: getline var (main input, file) before the first field access in CSV / TSV input mode, INPUTMODE switched off after the fields are fixed.",
    "Own record model written from the statement; blanks for FS=\" \" are space/tab/newline only; NF=2.7 raw read-back is pinned upstream and not in the alphabet.",
    "explicit-state search over operation histories of the real record state against a reference record model",
    "DESIGN.md §5 C06")
chk("C08", "model_checking",
    "Every input string of length <=6 (thorough 7) over a per-configuration alphabet {a, sep, quote, LF, CR, #, space, multi-byte char} in 11 CSV/TSV configurations (separator , | e-acute tab; comment none/#/e-acute; header on/off; via Config and via INPUTMODE), with and without BOM, delivered in every chunking x 2 EOF styles x 2 reading paths: fields/NF against encoding/csv (lenient quotes) on the BOM-free bytes, $0 against the record's byte extent, NR, header names/FIELDS/@name per file, chunking independence; $0=s and split(s,a) re-parse; header mode over pairs of files; records at the 64 KiB buffer edge; round trip of every list of <=3 values of length <=2 (3) through print and $0 rebuild in CSV/TSV output mode with 4 separators. Also: plans with NUL and an invalid UTF-8 byte (in-band sentinels).",
    "encoding/csv is the field oracle; lone CR before EOF and CRLF inside quoted fields accepted in either form as the statement leaves them open.",
    "complete enumeration of inputs x chunkings x configurations against encoding/csv, plus write/read round trips",
    "DESIGN.md §5 C08")
chk("C16", "model_checking",
    "Programs as sets of usage atoms (scalar use, array use, length(v), v passed to parameter j of function i, constant or expression passed, zero-argument call) over 5 universes (2 functions x 2 parameters, 3 x 1, deep forwarding chains, expression arguments): every atom set up to size 3-5 (thorough 4-6), which yields every call graph incl. self/mutual recursion and calls with fewer arguments; verdict compared with an independent union-find unifier; accepted programs executed and compared with a direct simulation (arrays by reference, scalars copied) and the reference evaluator; every permutation of the top-level items and 4 consistent renamings must keep verdict and behaviour; resolver map-iteration orders explored through the permutation hook with <=2 deviations, verdict must not change. A fifth naming variant gives parameters the names of special scalar variables (NR, RSTART, RLENGTH, FNR, SUBSEP).",
    "Programs outside the property's antecedent (undefined functions, too many arguments, name clashes) are not generated; which error message is reported is C19's business.",
    "complete enumeration of small programs against a union-find type unifier, plus permutation/renaming metamorphosis and deviation-bounded map-order exploration",
    "DESIGN.md §5 C16")

chk("C12", "model_checking",
    "25 I/O forms (print >, >>, printf >, print |, cmd | getline [v], system, getline [v] < file incl. missing files, operand files incl. plain getline reaching an operand, close+reopen sequences, /dev/stdout, /dev/stderr, -) x 5 ways of computing the name (constant, concatenation, input field, ARGV, user function); every sequence of <=2 forms (thorough: also all 3-step sequences with constant names) x the 8 flag combinations x Config.OpenFile {nil, recording wrapper}, run on the real interpreter with recorded effects: every process start (os/exec shim), every raw os file call made by package interp (redirected through recording wrappers), wrapper calls, directory contents before/after; allowed effects are a function of the flags, a denied attempt must end the run with an error and nothing after it may run, stdin and - stay available, with a wrapper configured there are no raw opens; an alphabet-gap guard lists every syntactic os/exec site of package interp and reports sites never executed. Every single-step case is repeated as the second Execute of an Interpreter whose first run had the opposite restrictions (flags are per run). Part 3: NoArgVars on/off x operands shaped like var=value x flags x OpenFile.",
    "interp reaches the file system and processes only through the redirected os functions and os/exec (other mechanisms such as syscall are outside the hook); real /bin/sh children with echo/read only.",
    "complete enumeration of I/O form sequences x flag configurations on the real interpreter with recorded effects",
    "DESIGN.md §5 C12")
chk("C18", "model_checking",
    "Every statement tree with <=2 (thorough 3) statements over {print, exit, next, return, call, break, continue, if, if/else, while, do, for, for-in, block} incl. empty bodies in every rule context (BEGIN, action, pattern action, END, function + caller, pattern-only), pairs of rules, and function bodies of 3 (thorough 4) statements x 2 inputs x {set, count} x {one -f file, two -f files split at every line boundary, also inside a block} x append on/off sequences: output and exit status with -coverprofile equal those without; every profile line parsed: block inside its named file, start before end, blocks partition the statements (sum of numStmts = statement count), count = the reference evaluator's count of how often the block's first statement began executing, set = (count>0), append = previous profile + new lines. Every 40th (thorough 10th) program is observed on the real CLI binary, the others run the same steps as goawk.go in-process.",
    "Reference evaluator's per-statement execution counts (refawk) as the count oracle; process start costs 10-30 ms here, hence the in-process bulk with a CLI stride.",
    "complete enumeration of statement trees x file splits x modes, differential against the uninstrumented run and a reference evaluator's counts",
    "DESIGN.md §5 C18")

NOT_YET = "check not built yet in this round (work in progress; see DESIGN.md §5 for the planned exploration)"
ALL = ["C%02d" % i for i in range(1, 21)]

def main():
    checks = []
    for id in ALL:
        if id not in CHECKS: continue
        c = CHECKS[id]
        checks.append({
            "property_id": id,
            "quick_cmd": "./check %s --tier quick" % id,
            "thorough_cmd": "./check %s --tier thorough" % id,
            "evidence_file": "/verif/evidence/%s.json" % id,
            "replay_cmd_template": "./check %s --replay {path}" % id,
            "engine": "vcheck",
            "level_claimed": {"category": c["category"], "text": c["text"], "design_ref": c["design_ref"]},
            "level_note": c["note"],
            "technique": c["technique"],
        })
    m = {
        "version": 1,
        "setup_cmd": "./setup.sh",
        "hooks": {
            "guard": "verif",
            "enable": "go build -tags verif -overlay /verif/work/overlay.json (overlay generated from /repo's working tree by tools/mkoverlay: map ranges -> vhook.Keys, os/exec -> vexec shim, os file functions -> recording wrappers, vhook.Step() in the VM dispatch loop, a generated init() per package registering its package-level variables, injected packages vhook/vexec/vexp/refawk/bcverify and interp/verif_dump.go; nothing is committed to /repo)",
            "baseline_off_cmd": "cd /repo && GOFLAGS=-mod=mod go test -json -vet=off -count=1 -timeout 25m ./...",
            "source_commits": [],
            "add_only": True,
        },
        "engines": [
            {"name": "vcheck", "path": "/verif/harness", "serves_properties": sorted(CHECKS), "kind_free_text": "hand-written bounded-exhaustive explorers (choice/chunk/schedule enumeration, explicit-state search) driving the real goawk code built with an instrumentation overlay"},
            {"name": "mkoverlay", "path": "/verif/tools/mkoverlay", "serves_properties": sorted(CHECKS), "kind_free_text": "go/types-driven source rewriter producing the -overlay instrumentation from the current /repo tree"},
        ],
        "checks": checks,
        "not_applicable": [{"property_id": id, "reason": NOT_YET} for id in ALL if id not in CHECKS],
        "notes": "C19 additionally builds harness/cmd/vrace with -race (supplementary free-running pass). All checks rebuild from /repo's working tree on every invocation (./check). KNOWN_FINDINGS.txt + known/*.wit list genuine defects recorded rather than repaired.",
    }
    json.dump(m, open("/verif/MANIFEST.json", "w"), indent=1)
    print("MANIFEST.json: %d checks, %d not_applicable" % (len(checks), len(m["not_applicable"])))
main()

#!/usr/bin/env python3
"""Generates /verif/MANIFEST.json from the table below (kept in one place so it stays valid)."""
import json, sys
CHECKS = {}
def chk(id, category, text, note, technique, design_ref):
    CHECKS[id] = dict(category=category, text=text, note=note, technique=technique, design_ref=design_ref)

chk("C07", "model_checking",
    "Deviation-bounded exhaustive exploration of the real record reader: every input up to length 6 (thorough 8) over a per-RS alphabet, delivered in every one of its 2^(n-1) chunkings with both EOF styles, plus an empty read and a read error at every position, single split points of longer inputs and separators straddling the 64 KiB scanner buffer; each execution is compared with an all-at-once specification splitter, the reconstruction equations and the unchunked delivery.",
    "bufio.Scanner's behaviour depends only on the (n,err) sequence of Read results; Go regexp as a leaf of the spec splitter; RS settings and alphabets listed in DESIGN.md §5 C07.",
    "exhaustive enumeration of environment answers (read chunkings) on the real code against a reference splitter",
    "DESIGN.md §5 C07")

chk("C01", "model_checking",
    "Bounded-exhaustive enumeration of a feature-product program grammar (every lvalue kind x assignment/op=/++/-- x rhs x statement/expression form x scope; every comparison over 14 operand types x 11 condition constructs; concatenation chains in every grouping; user-call shapes; builtins; loop nests with break/continue at every placement; pattern/getline/IO forms; thorough: all ordered pairs of 50 statements), each program run on the real compiler+VM and on an independent tree-walking reference evaluator (stdout, files written, exit status, error outcome must agree), plus metamorphic groups of equivalent spellings that must behave identically.",
    "Reference evaluator shares only lexer+parser with the implementation and is validated on every run against the repository's own test table (disagreement = harness error). Defects needing more than the stated program sizes are out of reach.",
    "complete enumeration of a program grammar fragment on the real code, differential against a reference model + metamorphic equivalence",
    "DESIGN.md §5 C01")
chk("C09", "model_checking",
    "Complete product of conversions x all 32 flag subsets x widths x precisions (literal and *) x 64 argument values through sprintf and printf, byte and character mode, compared with the C library's snprintf (helper process) on arguments converted the AWK way by the harness; plus pairs of conversions, %%, too-few-arguments and unknown-conversion error cases for every byte, and print under 12 OFMT values.",
    "glibc snprintf is the oracle; combinations the C standard leaves undefined are no-crash only (listed in the evidence assumptions).",
    "complete enumeration of format specifications x argument values against the C library",
    "DESIGN.md §5 C09")
chk("C17", "model_checking",
    "Signatures synthesised with reflect.FuncOf/MakeFunc: every documented kind in every parameter position (<=3, thorough 4), variadic on/off, all result shapes, wide (6-9 params), defined types, invalid shapes, keyword names, several invalid at once; each called with every argument count x 81 AWK values; received Go values, results, error propagation, set-up rejection and parse-time arity errors compared with an independent conversion table; map iteration orders of Funcs driven through the permutation hook.",
    "Out-of-range float->integer conversions are no-panic only; conversion table written from the Config.Funcs documentation.",
    "complete enumeration of Go function signatures x argument counts x values on the real code against a conversion table",
    "DESIGN.md §5 C17")

NOT_YET = "check not built yet in this round (work in progress; see DESIGN.md §5 for the planned exploration)"
ALL = ["C%02d" % i for i in range(1, 21)]

def main():
    checks = []
    for id in ALL:
        if id not in CHECKS: continue
        c = CHECKS[id]
        checks.append({
            "property_id": id,
            "quick_cmd": "./check %s --tier quick" % id,
            "thorough_cmd": "./check %s --tier thorough" % id,
            "evidence_file": "/verif/evidence/%s.json" % id,
            "replay_cmd_template": "./check %s --replay {path}" % id,
            "engine": "vcheck",
            "level_claimed": {"category": c["category"], "text": c["text"], "design_ref": c["design_ref"]},
            "level_note": c["note"],
            "technique": c["technique"],
        })
    m = {
        "version": 1,
        "setup_cmd": "./setup.sh",
        "hooks": {
            "guard": "verif",
            "enable": "go build -tags verif -overlay /verif/work/overlay.json (overlay generated from /repo's working tree by tools/mkoverlay; nothing is committed to /repo)",
            "baseline_off_cmd": "cd /repo && GOFLAGS=-mod=mod go test -json -vet=off -count=1 -timeout 25m ./...",
            "source_commits": [],
            "add_only": True,
        },
        "engines": [
            {"name": "vcheck", "path": "/verif/harness", "serves_properties": sorted(CHECKS), "kind_free_text": "hand-written bounded-exhaustive explorers (choice/chunk/schedule enumeration, explicit-state search) driving the real goawk code built with an instrumentation overlay"},
            {"name": "mkoverlay", "path": "/verif/tools/mkoverlay", "serves_properties": sorted(CHECKS), "kind_free_text": "go/types-driven source rewriter producing the -overlay instrumentation from the current /repo tree"},
        ],
        "checks": checks,
        "not_applicable": [{"property_id": id, "reason": NOT_YET} for id in ALL if id not in CHECKS],
        "notes": "All checks rebuild from /repo's working tree on every invocation (./check). KNOWN_FINDINGS.txt + known/*.wit list genuine defects recorded rather than repaired.",
    }
    json.dump(m, open("/verif/MANIFEST.json", "w"), indent=1)
    print("MANIFEST.json: %d checks, %d not_applicable" % (len(checks), len(m["not_applicable"])))
main()

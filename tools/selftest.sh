#!/bin/bash
# tools/selftest.sh <ID> : runs the quick check against every planted change in selftest/<ID>/ (applied via the build overlay; /repo untouched)
export GOFLAGS=-mod=mod GOPROXY=off GOSUMDB=off GOTOOLCHAIN=local
V=${VERIF_DIR:-/verif}; ID=$1; rc=0
for m in $V/selftest/$ID/*.json; do
  out=$($V/check $ID --tier quick --mutant $m 2>&1); code=$?
  n=$(echo "$out" | grep -c '^VIOLATION')
  if [ $code -eq 1 ] && [ $n -gt 0 ]; then echo "CAUGHT  $ID $(basename $m) ($n violation lines; $(echo "$out" | grep -o 'sig=[^ ]*' | sort -u | head -3 | tr '\n' ' '))"; else echo "MISSED  $ID $(basename $m) (exit $code) $(echo "$out" | tail -2 | tr '\n' ' ')"; rc=1; fi
done
rm -rf $V/replays/$ID   # replays written during self-test are not evidence
exit $rc

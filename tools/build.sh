#!/bin/bash
# compile everything under the same lock the checks use (avoids racing with a running check's build)
export GOFLAGS=-mod=mod GOPROXY=off GOSUMDB=off GOTOOLCHAIN=local CGO_ENABLED=0
V=${VERIF_DIR:-/verif}; mkdir -p $V/work/bin; exec 9>$V/work/build.lock; flock 9
(cd $V/tools/mkoverlay && go build -o $V/work/bin/mkoverlay .) && (cd /repo && $V/work/bin/mkoverlay -q -repo /repo -inject $V/inject -work $V/work) && (cd $V/harness && gofmt -l . ; go build -tags verif -overlay $V/work/overlay.json ./... && go vet -tags verif -overlay $V/work/overlay.json ./checks/ ./core/ ./sched/ ./vworld/ 2>&1 | grep -v "^#\|chdir\|no such file" | head -20)

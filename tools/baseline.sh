#!/bin/bash
# Runs the repository's own suite (guard off) and compares with BASELINE.json's stable_pass set.
export GOFLAGS=-mod=mod GOPROXY=off GOSUMDB=off GOTOOLCHAIN=local
T=$(mktemp); cd /repo; go test -json -vet=off -count=1 -timeout 25m ./... > $T 2>&1
python3 - $T <<'PY'
import json,sys
b=json.load(open('/root/.vp/BASELINE.json')); stable=set(b['stable_pass']); res={}
for l in open(sys.argv[1]):
    try: e=json.loads(l)
    except: continue
    if e.get('Action') in('pass','fail','skip') and e.get('Test'): res[e['Package']+'::'+e['Test']]=e['Action']
missing=sorted(s for s in stable if res.get(s)!='pass')
print(len(stable),'stable; not passing now:',len(missing)); print('\n'.join(missing[:20]))
sys.exit(1 if missing else 0)
PY
rc=$?; rm -f $T; exit $rc

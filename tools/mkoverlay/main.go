// mkoverlay generates a `go build -overlay` file that instruments the CURRENT
// working tree of /repo without touching it. See DESIGN.md §4 / Appendix C.
//
// Rewrites (all byte-offset text splices, type driven):
//  1. every `range` over a map in the listed packages -> loop over vhook.Keys
//  2. package interp: import "os/exec" -> internal/vexec; os.OpenFile etc. -> vhook.OsOpenFile
//  3. vhook.Step() at the top of the dispatch loop of (*interp).execute
//  4. added packages internal/vhook, internal/vexec, vexp, internal/refawk, interp/verif_dump.go
//
// Exit status 2 with a message if the tree cannot be parsed / type-checked.
package main

import (
	"encoding/json"
	"flag"
	"fmt"
	"go/ast"
	"go/importer"
	"go/parser"
	"go/token"
	"go/types"
	"os"
	"path/filepath"
	"sort"
	"strings"
)

const modPath = "github.com/benhoyt/goawk"

// packages in dependency order (relative dir)
var pkgDirs = []string{"lexer", "internal/ast", "internal/resolver", "internal/compiler", "internal/parseutil", "parser", "internal/cover", "interp"}

type splice struct {
	start, end int
	text       string
}

type mutant struct {
	File  string `json:"file"`
	Old   string `json:"old"`
	New   string `json:"new"`
	Count int    `json:"count"` // expected number of occurrences (default 1)
	// ContentFrom, if set, replaces the whole file with the content of that path (old/new ignored)
	ContentFrom string `json:"content_from"`
}

func applyMutant(rel string, src []byte, m mutant) []byte {
	if m.ContentFrom != "" {
		data, err := os.ReadFile(m.ContentFrom)
		if err != nil {
			die("mutant for %s: %v", rel, err)
		}
		return data
	}
	cnt := m.Count
	if cnt == 0 {
		cnt = 1
	}
	if c := strings.Count(string(src), m.Old); c != cnt {
		die("mutant for %s: pattern occurs %d times, expected %d", rel, c, cnt)
	}
	return []byte(strings.ReplaceAll(string(src), m.Old, m.New))
}

var (
	repo    = flag.String("repo", "/repo", "repository root")
	inject  = flag.String("inject", "/verif/inject", "directory with injected sources")
	work    = flag.String("work", "/verif/work", "output directory")
	mutFile = flag.String("mutant", "", "optional JSON file with planted text replacements")
	quiet   = flag.Bool("q", false, "quiet")
)

func die(format string, a ...any) {
	fmt.Fprintf(os.Stderr, "mkoverlay: "+format+"\n", a...)
	os.Exit(2)
}

type myImporter struct {
	pkgs map[string]*types.Package
	std  types.Importer
}

func (m *myImporter) Import(path string) (*types.Package, error) {
	if p, ok := m.pkgs[path]; ok {
		return p, nil
	}
	if strings.HasPrefix(path, modPath) {
		return nil, fmt.Errorf("package %s not yet checked", path)
	}
	return m.std.Import(path)
}

func main() {
	flag.Parse()
	ovDir := filepath.Join(*work, "ov")
	os.RemoveAll(ovDir)
	if err := os.MkdirAll(ovDir, 0o755); err != nil {
		die("%v", err)
	}
	replace := map[string]string{}      // instrumented overlay
	plainReplace := map[string]string{} // mutants only (for the plain build)

	// planted changes (self-test only)
	muts := map[string][]mutant{}
	if *mutFile != "" {
		data, err := os.ReadFile(*mutFile)
		if err != nil {
			die("%v", err)
		}
		var list []mutant
		if err := json.Unmarshal(data, &list); err != nil {
			die("mutant file: %v", err)
		}
		for _, m := range list {
			muts[m.File] = append(muts[m.File], m)
		}
	}

	fset := token.NewFileSet()
	imp := &myImporter{pkgs: map[string]*types.Package{}, std: importer.ForCompiler(fset, "source", nil)}
	sites := []string{}
	osSites := []string{}
	stepHook := false
	readerSites := 0
	nGlobals := 0

	for _, dir := range pkgDirs {
		abs := filepath.Join(*repo, dir)
		entries, err := os.ReadDir(abs)
		if err != nil {
			die("%v", err)
		}
		var files []*ast.File
		srcs := map[*ast.File][]byte{}
		names := map[*ast.File]string{}
		mutated := map[*ast.File]bool{}
		for _, e := range entries {
			n := e.Name()
			if e.IsDir() || !strings.HasSuffix(n, ".go") || strings.HasSuffix(n, "_test.go") {
				continue
			}
			full := filepath.Join(abs, n)
			src, err := os.ReadFile(full)
			if err != nil {
				die("%v", err)
			}
			rel := filepath.Join(dir, n)
			wasMut := false
			for _, m := range muts[rel] {
				src = applyMutant(rel, src, m)
				wasMut = true
			}
			delete(muts, rel)
			f, err := parser.ParseFile(fset, full, src, parser.ParseComments)
			if err != nil {
				die("parse %s: %v", full, err)
			}
			// honour build constraints crudely: skip files with a go:build line mentioning windows or verif
			skip := false
			for _, cg := range f.Comments {
				if cg.Pos() > f.Package {
					break
				}
				for _, c := range cg.List {
					if strings.HasPrefix(c.Text, "//go:build") && (strings.Contains(c.Text, "windows") && !strings.Contains(c.Text, "!windows") || strings.Contains(c.Text, "ignore")) {
						skip = true
					}
				}
			}
			if skip {
				continue
			}
			files = append(files, f)
			srcs[f] = src
			names[f] = full
			mutated[f] = wasMut
		}
		info := &types.Info{Types: map[ast.Expr]types.TypeAndValue{}, Uses: map[*ast.Ident]types.Object{}}
		conf := types.Config{Importer: imp, Error: nil}
		pkg, err := conf.Check(modPath+"/"+dir, fset, files, info)
		if err != nil {
			die("type-check %s: %v", dir, err)
		}
		imp.pkgs[modPath+"/"+dir] = pkg

		// 0. package-level variables: a generated init() hands their addresses to
		// vhook (C19 compares them before and after executions)
		{
			var gl []string
			for _, n := range pkg.Scope().Names() {
				if v, ok := pkg.Scope().Lookup(n).(*types.Var); ok && n != "_" {
					_ = v
					gl = append(gl, n)
				}
			}
			var b strings.Builder
			b.WriteString("//go:build verif\n\npackage " + pkg.Name() + "\n\nimport \"" + modPath + "/internal/vhook\"\n\nfunc init() {\n\tvhook.RegisterGlobals(\"" + dir + "\", map[string]any{\n")
			for _, n := range gl {
				b.WriteString("\t\t\"" + n + "\": &" + n + ",\n")
			}
			b.WriteString("\t})\n}\n")
			dst := filepath.Join(ovDir, strings.ReplaceAll(dir, "/", "__")+"__verif_globals.go")
			if err := os.WriteFile(dst, []byte(b.String()), 0o644); err != nil {
				die("%v", err)
			}
			replace[filepath.Join(abs, "verif_globals_gen.go")] = dst
			nGlobals += len(gl)
		}

		for _, f := range files {
			src := srcs[f]
			var sp []splice
			needVhook := false
			base := fset.File(f.Pos()).Base()
			off := func(p token.Pos) int { return int(p) - base }
			relName := filepath.Join(dir, filepath.Base(names[f]))

			// 1. map ranges
			var curFunc string
			counter := map[string]int{}
			ast.Inspect(f, func(n ast.Node) bool {
				switch x := n.(type) {
				case *ast.FuncDecl:
					curFunc = x.Name.Name
				case *ast.RangeStmt:
					tv, ok := info.Types[x.X]
					if !ok {
						return true
					}
					mt, ok := tv.Type.Underlying().(*types.Map)
					if !ok {
						return true
					}
					_ = mt
					// leave `for k := range m { delete(m, k) }` alone
					if len(x.Body.List) == 1 {
						if es, ok := x.Body.List[0].(*ast.ExprStmt); ok {
							if ce, ok := es.X.(*ast.CallExpr); ok {
								if id, ok := ce.Fun.(*ast.Ident); ok && id.Name == "delete" {
									return true
								}
							}
						}
					}
					counter[curFunc]++
					site := fmt.Sprintf("%s:%s#%d", relName, curFunc, counter[curFunc])
					mText := string(src[off(x.X.Pos()):off(x.X.End())])
					pure := isPure(x.X)
					keyName, valName := "", ""
					if id, ok := x.Key.(*ast.Ident); ok && id.Name != "_" {
						keyName = id.Name
					} else if x.Key != nil {
						if _, ok := x.Key.(*ast.Ident); !ok {
							die("%s: unsupported range key expression", site)
						}
					}
					if x.Value != nil {
						if id, ok := x.Value.(*ast.Ident); ok {
							if id.Name != "_" {
								valName = id.Name
							}
						} else {
							die("%s: unsupported range value expression", site)
						}
					}
					asg := ":="
					if x.Tok == token.ASSIGN {
						asg = "="
					}
					var b strings.Builder
					mref := mText
					if !pure {
						mref = "vm_"
						b.WriteString("{ vm_ := " + mText + "; ")
					}
					b.WriteString("for _, vk_ := range vhook.Keys(" + mref + ", " + fmt.Sprintf("%q", site) + ") { ")
					if valName != "" {
						if asg == ":=" {
							b.WriteString(valName + ", vok_ := " + mref + "[vk_]; if !vok_ { continue }; ")
						} else {
							b.WriteString("var vok_ bool; " + valName + ", vok_ = " + mref + "[vk_]; if !vok_ { continue }; ")
						}
					} else {
						b.WriteString("if _, vok_ := " + mref + "[vk_]; !vok_ { continue }; ")
					}
					if keyName != "" {
						b.WriteString(keyName + " " + asg + " vk_; ")
					}
					sp = append(sp, splice{off(x.For), off(x.Body.Lbrace) + 1, b.String()})
					if !pure {
						sp = append(sp, splice{off(x.Body.Rbrace) + 1, off(x.Body.Rbrace) + 1, " }"})
					}
					needVhook = true
					sites = append(sites, site)
				}
				return true
			})

			if dir == "interp" {
				// 2. os/exec import and os file functions
				for _, is := range f.Imports {
					if is.Path.Value == `"os/exec"` {
						sp = append(sp, splice{off(is.Path.Pos()), off(is.Path.End()), `exec "` + modPath + `/internal/vexec"`})
					}
				}
				osFuncs := map[string]bool{"OpenFile": true, "Open": true, "Create": true, "ReadFile": true, "WriteFile": true, "Remove": true, "Rename": true, "Mkdir": true, "MkdirAll": true}
				ast.Inspect(f, func(n ast.Node) bool {
					se, ok := n.(*ast.SelectorExpr)
					if !ok {
						return true
					}
					id, ok := se.X.(*ast.Ident)
					if !ok {
						return true
					}
					pn, ok := info.Uses[id].(*types.PkgName)
					if !ok || pn.Imported().Path() != "os" || !osFuncs[se.Sel.Name] {
						return true
					}
					p := fset.Position(se.Pos())
					sp = append(sp, splice{off(se.Pos()), off(se.End()), "vhook.Os" + se.Sel.Name})
					osSites = append(osSites, fmt.Sprintf("%s:%d:os.%s", relName, p.Line, se.Sel.Name))
					needVhook = true
					return true
				})
				// 3b. reader hook: every bufio.NewScanner(x) in package interp reads through vhook.WrapReader(x)
				// (identity unless the harness installs a wrapper), so that file operands, getline < file and
				// every other scanner can be driven with chosen read sizes
				ast.Inspect(f, func(n ast.Node) bool {
					ce, ok := n.(*ast.CallExpr)
					if !ok || len(ce.Args) != 1 {
						return true
					}
					se, ok := ce.Fun.(*ast.SelectorExpr)
					if !ok || se.Sel.Name != "NewScanner" {
						return true
					}
					id, ok := se.X.(*ast.Ident)
					if !ok {
						return true
					}
					pn, ok := info.Uses[id].(*types.PkgName)
					if !ok || pn.Imported().Path() != "bufio" {
						return true
					}
					sp = append(sp, splice{off(ce.Args[0].Pos()), off(ce.Args[0].Pos()), "vhook.WrapReader("})
					sp = append(sp, splice{off(ce.Args[0].End()), off(ce.Args[0].End()), ")"})
					readerSites++
					needVhook = true
					return true
				})
				// 3. step hook
				for _, d := range f.Decls {
					fd, ok := d.(*ast.FuncDecl)
					if !ok || fd.Name.Name != "execute" || fd.Recv == nil || fd.Body == nil {
						continue
					}
					for _, st := range fd.Body.List {
						if fs, ok := st.(*ast.ForStmt); ok {
							sp = append(sp, splice{off(fs.Body.Lbrace) + 1, off(fs.Body.Lbrace) + 1, " vhook.Step();"})
							needVhook = true
							stepHook = true
							break
						}
					}
				}
			}

			if len(sp) == 0 && !mutated[f] {
				continue
			}
			if needVhook {
				// own import declaration right after the package clause (same line)
				sp = append(sp, splice{off(f.Name.End()), off(f.Name.End()), `; import "` + modPath + `/internal/vhook"`})
			}
			out := applySplices(src, sp)
			dst := filepath.Join(ovDir, strings.ReplaceAll(relName, "/", "__"))
			if err := os.WriteFile(dst, out, 0o644); err != nil {
				die("%v", err)
			}
			replace[names[f]] = dst
			if mutated[f] {
				pdst := dst + ".plain"
				if err := os.WriteFile(pdst, src, 0o644); err != nil {
					die("%v", err)
				}
				plainReplace[names[f]] = pdst
			}
		}
	}
	// mutants for files outside the instrumented packages (e.g. goawk.go)
	for rel, list := range muts {
		full := filepath.Join(*repo, rel)
		src, err := os.ReadFile(full)
		if err != nil {
			die("mutant: %v", err)
		}
		for _, m := range list {
			src = applyMutant(rel, src, m)
		}
		dst := filepath.Join(ovDir, strings.ReplaceAll(rel, "/", "__"))
		if err := os.WriteFile(dst, src, 0o644); err != nil {
			die("%v", err)
		}
		replace[full] = dst
		plainReplace[full] = dst
	}

	// 4. added packages / files
	add := func(relDst, srcPath string) {
		replace[filepath.Join(*repo, relDst)] = srcPath
	}
	addDir := func(relDstDir, srcDir string) {
		ents, err := os.ReadDir(srcDir)
		if err != nil {
			return
		}
		for _, e := range ents {
			if strings.HasSuffix(e.Name(), ".go") {
				add(filepath.Join(relDstDir, e.Name()), filepath.Join(srcDir, e.Name()))
			}
		}
	}
	addDir("internal/vhook", filepath.Join(*inject, "vhook"))
	addDir("internal/vexec", filepath.Join(*inject, "vexec"))
	addDir("internal/refawk", filepath.Join(*inject, "refawk"))
	addDir("internal/bcverify", filepath.Join(*inject, "bcverify"))
	addDir("vexp", filepath.Join(*inject, "vexp"))
	addDir("interp", filepath.Join(*inject, "interp"))

	writeJSON := func(name string, m map[string]string) {
		data, _ := json.MarshalIndent(map[string]any{"Replace": m}, "", " ")
		if err := os.WriteFile(filepath.Join(*work, name), data, 0o644); err != nil {
			die("%v", err)
		}
	}
	writeJSON("overlay.json", replace)
	writeJSON("overlay_plain.json", plainReplace)
	sort.Strings(sites)
	sort.Strings(osSites)
	meta := map[string]any{"map_range_sites": sites, "os_sites": osSites, "step_hook": stepHook, "reader_sites": readerSites, "package_level_vars_registered": nGlobals}
	data, _ := json.MarshalIndent(meta, "", " ")
	os.WriteFile(filepath.Join(*work, "overlay_meta.json"), data, 0o644)
	if !*quiet {
		fmt.Printf("mkoverlay: %d files replaced, %d map-range sites, %d os sites, %d reader sites, step hook=%v\n", len(replace), len(sites), len(osSites), readerSites, stepHook)
	}
	if !stepHook {
		die("anchor for the VM step hook not found")
	}
}

func isPure(e ast.Expr) bool {
	switch x := e.(type) {
	case *ast.Ident:
		return true
	case *ast.SelectorExpr:
		return isPure(x.X)
	case *ast.IndexExpr:
		return isPure(x.X) && isPure(x.Index)
	case *ast.BasicLit:
		return true
	case *ast.ParenExpr:
		return isPure(x.X)
	case *ast.StarExpr:
		return isPure(x.X)
	}
	return false
}

func applySplices(src []byte, sp []splice) []byte {
	sort.SliceStable(sp, func(i, j int) bool { return sp[i].start < sp[j].start })
	var out []byte
	pos := 0
	for _, s := range sp {
		if s.start < pos {
			die("overlapping splices at offset %d", s.start)
		}
		out = append(out, src[pos:s.start]...)
		out = append(out, s.text...)
		pos = s.end
	}
	out = append(out, src[pos:]...)
	return out
}

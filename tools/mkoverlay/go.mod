module mkoverlay

go 1.20

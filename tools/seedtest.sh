#!/bin/bash
# tools/seedtest.sh <seed-worktree-or-seeded-dir> <ID>... : run quick checks against a seeded change WITHOUT touching /repo:
# the patch is applied to a scratch copy of the touched files and handed to the build as whole-file overlay replacements.
export GOFLAGS=-mod=mod GOPROXY=off GOSUMDB=off GOTOOLCHAIN=local
V=${VERIF_DIR:-/verif}; S=$1; shift
[ -f $S/patch.diff ] || S=$S/seeded
T=$(mktemp -d); ( cd /repo && git archive HEAD | tar -x -C $T ) ; ( cd $T && patch -p1 -s < $S/patch.diff ) || { echo "patch failed"; exit 2; }
python3 - $S/patch.diff $T > $T/mutant.json <<'PY'
import sys,re,json
files=sorted(set(re.findall(r'^\+\+\+ b/(\S+)', open(sys.argv[1]).read(), re.M)))
print(json.dumps([{"file":f,"content_from":sys.argv[2]+"/"+f} for f in files]))
PY
for id in "$@"; do
  out=$($V/check $id --tier quick --mutant $T/mutant.json 2>&1); rc=$?
  n=$(echo "$out" | grep -c '^VIOLATION')
  echo "seed=$(basename $(dirname $S)) check=$id exit=$rc violations_lines=$n sigs: $(echo "$out" | grep -o 'sig=[^ ]*' | sort -u | head -4 | tr '\n' ' ')"
  echo "$out" | grep '^VIOLATION' | head -2 | cut -c1-300
done
rm -rf $T

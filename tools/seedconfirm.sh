#!/bin/bash
# tools/seedconfirm.sh <seed-worktree> : re-confirm a seeded change independently of its author.
#   <seed-worktree>/seeded/{patch.diff,demo.sh,meta.json}; the worktree itself may or may not have the patch applied.
# Steps (all in a scratch copy of /repo HEAD, removed afterwards):
#   1. demo passes on the unchanged tree   2. patch applies, go build + go vet-less test build ok
#   3. repository suite: every stable_pass test of BASELINE.json passes with the patch   4. demo fails with the patch
# Prints one line "CONFIRM <name>: ok|FAILED(<why>)" and writes <seed-worktree>/seeded/confirm.txt
export GOFLAGS=-mod=mod GOPROXY=off GOSUMDB=off GOTOOLCHAIN=local
W=$1; S=$W/seeded; N=$(basename $W)
[ -f $S/patch.diff ] && [ -f $S/demo.sh ] || { echo "CONFIRM $N: FAILED(no patch.diff/demo.sh)"; exit 2; }
T=$(mktemp -d /tmp/seedconfirm.XXXXXX); trap 'rm -rf $T' EXIT
mkdir $T/r; ( cd /repo && git archive HEAD | tar -x -C $T/r )
fail() { echo "CONFIRM $N: FAILED($1)" | tee $S/confirm.txt; exit 1; }
( bash $S/demo.sh $T/r ) > $T/demo0.log 2>&1 || { tail -5 $T/demo0.log; fail "demo fails on the unchanged tree"; }
( cd $T/r && patch -p1 -s < $S/patch.diff ) || fail "patch does not apply"
( cd $T/r && go build ./... && go test -vet=off -count=1 -run '^$' ./... ) > $T/build.log 2>&1 || { tail -5 $T/build.log; fail "build"; }
( cd $T/r && go test -json -vet=off -count=1 -timeout 25m ./... ) > $T/suite.json 2>&1
python3 - $T/suite.json > $T/suite.txt <<'PY'
import json,sys
b=json.load(open('/root/.vp/BASELINE.json')); stable=set(b['stable_pass']); res={}
for l in open(sys.argv[1]):
    try: e=json.loads(l)
    except: continue
    if e.get('Action') in('pass','fail','skip') and e.get('Test'): res[e['Package']+'::'+e['Test']]=e['Action']
missing=sorted(s for s in stable if res.get(s)!='pass')
print(len(stable),'stable; not passing with the patch:',len(missing)); print('\n'.join(missing[:10]))
sys.exit(1 if missing else 0)
PY
[ $? = 0 ] || { cat $T/suite.txt; fail "repository tests fail with the patch"; }
( bash $S/demo.sh $T/r ) > $T/demo1.log 2>&1 && fail "demo still passes with the patch"
echo "CONFIRM $N: ok ($(head -1 $T/suite.txt); demo passes unchanged, fails patched)" | tee $S/confirm.txt

#!/bin/bash
# tools/runall.sh <tier> <ID>... : run checks sequentially, log to work/logs/<ID>.<tier>.log, print one summary line each
export GOFLAGS=-mod=mod GOPROXY=off GOSUMDB=off GOTOOLCHAIN=local
V=${VERIF_DIR:-/verif}; tier=$1; shift; mkdir -p $V/work/logs
for id in "$@"; do
  s=$(date +%s); $V/check $id --tier $tier > $V/work/logs/$id.$tier.log 2>&1; rc=$?; e=$(date +%s)
  echo "$id $tier exit=$rc wall=$((e-s))s :: $(tail -1 $V/work/logs/$id.$tier.log | cut -c1-220)"
done
